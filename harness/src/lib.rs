//! Controlled-scheduler harness for kanal (needs `--cfg kanal_verif`).
//!
//! `rt` holds everything: program files, the baton-passing scheduler that
//! implements `kanal::verif::Runtime`, the op interpreter, the event records
//! and the implementation-side oracles. `bin/conc.rs` is a thin front end.
pub mod rt;
