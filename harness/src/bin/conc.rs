//! conc — runs one program file under the controlled scheduler.
//!
//! ```text
//! conc [file|-] [key=value …] [--schedule-from <trace file>] [--quiet]
//! ```
//! `key=value` overrides header fields of the program (`seed=7`,
//! `strategy=replay`, …). `--schedule-from` takes the `S …` line of an earlier
//! output as the schedule. `--quiet` prints only the `H`, `- …`, `S` and `O`
//! lines. Exit status: 0 all oracles ok, 1 some oracle failed, 2 usage.

use kanal_verif_harness::rt::{exec, oracle, prog, Program};
use std::io::{Read, Write};

fn usage(msg: &str) -> ! {
    eprintln!("conc: {}", msg);
    eprintln!("usage: conc [file|-] [key=value …] [--schedule-from <trace>] [--quiet]");
    std::process::exit(2);
}

fn main() {
    let mut path: Option<String> = None;
    let mut overrides: Vec<String> = vec![];
    let mut sched_from: Option<String> = None;
    let mut quiet = false;
    let mut args = std::env::args().skip(1);
    while let Some(a) = args.next() {
        if a == "--schedule-from" {
            sched_from = Some(args.next().unwrap_or_else(|| usage("--schedule-from needs a file")));
        } else if a == "--quiet" {
            quiet = true;
        } else if a.contains('=') {
            overrides.push(a);
        } else if path.is_none() {
            path = Some(a);
        } else {
            usage("more than one program file");
        }
    }
    let mut text = String::new();
    match path.as_deref() {
        None | Some("-") => {
            std::io::stdin().read_to_string(&mut text).unwrap_or_else(|e| usage(&e.to_string()));
        }
        Some(p) => text = std::fs::read_to_string(p).unwrap_or_else(|e| usage(&format!("{}: {}", p, e))),
    }
    let mut p = Program::parse(&text, &overrides).unwrap_or_else(|e| usage(&e));
    if let Some(f) = sched_from {
        let t = std::fs::read_to_string(&f).unwrap_or_else(|e| usage(&format!("{}: {}", f, e)));
        let line = t.lines().find(|l| l.starts_with("S ")).unwrap_or_else(|| usage("no `S ` line in that file"));
        p.schedule = prog::parse_schedule(&line[2..]).unwrap_or_else(|e| usage(&e));
    }
    if std::env::var_os("CONC_DEBUG").is_none() {
        std::panic::set_hook(Box::new(|_| {}));
    }

    let res = exec::run(&p);
    let verdicts = oracle::run_all(&p, &res.log, res.end);

    let stdout = std::io::stdout();
    let mut out = std::io::BufWriter::new(stdout.lock());
    writeln!(out, "H {}", p.header()).unwrap();
    for r in &res.log {
        if quiet && r.tid.is_some() {
            continue;
        }
        writeln!(out, "{}", r.text()).unwrap();
    }
    let sched: Vec<String> = res.schedule.iter().map(|e| e.text()).collect();
    writeln!(out, "S {}", sched.join(" ")).unwrap();
    let mut failed = false;
    for v in &verdicts {
        failed |= v.fail.is_some();
        writeln!(out, "{}", v.text()).unwrap();
    }
    out.flush().unwrap();
    drop(out);
    // after a stuck or aborted run OS threads are still blocked inside kanal
    std::process::exit(if failed { 1 } else { 0 });
}
