//! probes — asks rustc's own trait solver the 56 questions of C20: for T in {u8 (Send+Sync),
//! Cell<u8> (Send, !Sync), MutexGuard<'static, u8> (!Send, Sync), Rc<u8> (neither)} is each of the
//! four handle types, the two futures and the stream `Send` / `Sync`?  Prints one line per question:
//! `<type> <sendT> <syncT> <trait> <true|false>`.  Uses the inherent-const-shadows-trait-const trick,
//! so every answer is computed by the compiler at compile time, in one program.

use kanal::*;
use std::cell::Cell;
use std::rc::Rc;
use std::sync::MutexGuard;

macro_rules! impls {
    ($t:ty : $tr:path) => {{
        trait DoesNotImpl {
            const IMPLS: bool = false;
        }
        impl<T: ?Sized> DoesNotImpl for T {}
        struct Wrapper<T: ?Sized>(core::marker::PhantomData<T>);
        #[allow(dead_code)]
        impl<T: ?Sized + $tr> Wrapper<T> {
            const IMPLS: bool = true;
        }
        <Wrapper<$t>>::IMPLS
    }};
}

macro_rules! row {
    ($name:literal, $ty:ty, $s:literal, $y:literal) => {
        println!("{} {} {} send {}", $name, $s, $y, impls!($ty: Send));
        println!("{} {} {} sync {}", $name, $s, $y, impls!($ty: Sync));
    };
}

macro_rules! all_types {
    ($t:ty, $s:literal, $y:literal) => {
        row!("Sender", Sender<$t>, $s, $y);
        row!("AsyncSender", AsyncSender<$t>, $s, $y);
        row!("Receiver", Receiver<$t>, $s, $y);
        row!("AsyncReceiver", AsyncReceiver<$t>, $s, $y);
        row!("SendFuture", SendFuture<'static, $t>, $s, $y);
        row!("ReceiveFuture", ReceiveFuture<'static, $t>, $s, $y);
        row!("ReceiveStream", ReceiveStream<'static, $t>, $s, $y);
    };
}

macro_rules! unpin_rows {
    ($t:ty, $u:literal) => {
        println!("Sender {} unpin {}", $u, impls!(Sender<$t>: Unpin));
        println!("AsyncSender {} unpin {}", $u, impls!(AsyncSender<$t>: Unpin));
        println!("Receiver {} unpin {}", $u, impls!(Receiver<$t>: Unpin));
        println!("AsyncReceiver {} unpin {}", $u, impls!(AsyncReceiver<$t>: Unpin));
        println!("SendFuture {} unpin {}", $u, impls!(SendFuture<'static, $t>: Unpin));
        println!("ReceiveFuture {} unpin {}", $u, impls!(ReceiveFuture<'static, $t>: Unpin));
        println!("ReceiveStream {} unpin {}", $u, impls!(ReceiveStream<'static, $t>: Unpin));
    };
}

fn main() {
    // `probes unpin`: is each type `Unpin`, for a T that is (u8) and a T that is not (PhantomPinned)?
    if std::env::args().nth(1).as_deref() == Some("unpin") {
        assert!(impls!(u8: Unpin) && !impls!(std::marker::PhantomPinned: Unpin));
        unpin_rows!(u8, true);
        unpin_rows!(std::marker::PhantomPinned, false);
        return;
    }
    // sanity of the four witnesses themselves
    assert!(impls!(u8: Send) && impls!(u8: Sync));
    assert!(impls!(Cell<u8>: Send) && !impls!(Cell<u8>: Sync));
    assert!(!impls!(MutexGuard<'static, u8>: Send) && impls!(MutexGuard<'static, u8>: Sync));
    assert!(!impls!(Rc<u8>: Send) && !impls!(Rc<u8>: Sync));
    all_types!(u8, true, true);
    all_types!(Cell<u8>, true, false);
    all_types!(MutexGuard<'static, u8>, false, true);
    all_types!(Rc<u8>, false, false);
}
