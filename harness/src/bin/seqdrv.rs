//! seqdrv — sequential driver of the differential (DESIGN §4.2).
//!
//! Reads one call sequence per line (`<cap>|op;op;…`), executes it against the
//! real crate on one thread and prints one result line (`res;res;…;END …`) in
//! the format of the Lean `specgen` oracle.  Usage: `seqdrv <class> <flavour>`
//! with class ∈ {z,b,w,l} (zero-sized / byte / pointer-sized / 3 words, all
//! with drop glue) and flavour ∈ {s,a} (constructor used).

use futures_core::Stream;
use kanal::*;
use std::cell::RefCell;
use std::collections::HashMap;
use std::future::Future;
use std::io::{BufRead, Write};
use std::panic::{catch_unwind, AssertUnwindSafe};
use std::pin::Pin;
use std::sync::atomic::{AtomicU64, Ordering};
use std::task::{Context, Poll, RawWaker, RawWakerVTable, Waker};
use std::time::Duration;

#[derive(Clone, Copy, Debug, PartialEq)]
enum Ev {
    Drop(u32),
    Wake(u32),
}

thread_local! {
    static EVENTS: RefCell<Vec<Ev>> = RefCell::new(Vec::new());
    static MUTE: RefCell<bool> = RefCell::new(false);
}

fn log(e: Ev) {
    if MUTE.with(|m| *m.borrow()) {
        return;
    }
    EVENTS.with(|v| v.borrow_mut().push(e));
}

fn muted<R>(f: impl FnOnce() -> R) -> R {
    MUTE.with(|m| *m.borrow_mut() = true);
    let r = f();
    MUTE.with(|m| *m.borrow_mut() = false);
    r
}

trait Payload: 'static {
    fn make(tag: u32) -> Self;
    fn tag(&self) -> u32;
    const ZST: bool = false;
    /// no drop glue (`needs_drop::<T>() == false`): destruction is not observable, only values are
    const PLAIN: bool = false;
}

struct Z;
impl Payload for Z {
    fn make(_: u32) -> Self {
        Z
    }
    fn tag(&self) -> u32 {
        0
    }
    const ZST: bool = true;
}
impl Drop for Z {
    fn drop(&mut self) {
        log(Ev::Drop(0))
    }
}

struct B(u8);
impl Payload for B {
    fn make(t: u32) -> Self {
        B(t as u8)
    }
    fn tag(&self) -> u32 {
        self.0 as u32
    }
}
impl Drop for B {
    fn drop(&mut self) {
        log(Ev::Drop(self.0 as u32))
    }
}

struct W(usize);
impl Payload for W {
    fn make(t: u32) -> Self {
        W(t as usize ^ 0x5a5a_0000_0000)
    }
    fn tag(&self) -> u32 {
        (self.0 ^ 0x5a5a_0000_0000) as u32
    }
}
impl Drop for W {
    fn drop(&mut self) {
        log(Ev::Drop(self.tag()))
    }
}

#[repr(C)]
struct L {
    a: usize,
    b: u8,
    c: usize,
}
impl Payload for L {
    fn make(t: u32) -> Self {
        L { a: t as usize, b: (t % 251) as u8, c: !(t as usize) }
    }
    fn tag(&self) -> u32 {
        assert!(self.c == !self.a && self.b == (self.a % 251) as u8, "payload corrupted");
        self.a as u32
    }
}
impl Drop for L {
    fn drop(&mut self) {
        log(Ev::Drop(self.a as u32))
    }
}

/// pointer-sized, no drop glue
struct P(usize);
impl Payload for P {
    fn make(t: u32) -> Self {
        P(t as usize ^ 0x3c3c_0000_0000)
    }
    fn tag(&self) -> u32 {
        (self.0 ^ 0x3c3c_0000_0000) as u32
    }
    const PLAIN: bool = true;
}

/// larger than a pointer, no drop glue
#[repr(C)]
struct Q {
    a: usize,
    b: u8,
    c: usize,
}
impl Payload for Q {
    fn make(t: u32) -> Self {
        Q { a: t as usize, b: (t % 251) as u8, c: !(t as usize) }
    }
    fn tag(&self) -> u32 {
        assert!(self.c == !self.a && self.b == (self.a % 251) as u8, "payload corrupted");
        self.a as u32
    }
    const PLAIN: bool = true;
}

// ---- wakers with identity -------------------------------------------------

// Waker id `w` = (data pointer << 1) | vtable index: ids 2k and 2k+1 share their data pointer and differ only in the
// vtable, so `Waker::will_wake` tells them apart while a comparison of the data pointers alone would not.
static VT0: RawWakerVTable = RawWakerVTable::new(
    |d| RawWaker::new(d, &VT0),
    |d| log(Ev::Wake((d as usize as u32) << 1)),
    |d| log(Ev::Wake((d as usize as u32) << 1)),
    |_| {},
);
static VT1: RawWakerVTable = RawWakerVTable::new(
    |d| RawWaker::new(d, &VT1),
    |d| log(Ev::Wake(((d as usize as u32) << 1) | 1)),
    |d| log(Ev::Wake(((d as usize as u32) << 1) | 1)),
    |_| {},
);
fn waker(id: u32) -> Waker {
    let vt = if id & 1 == 0 { &VT0 } else { &VT1 };
    unsafe { Waker::from_raw(RawWaker::new((id >> 1) as usize as *const (), vt)) }
}

// ---- handles --------------------------------------------------------------

enum SH<T> {
    S(Sender<T>),
    A(AsyncSender<T>),
}
enum RH<T> {
    S(Receiver<T>),
    A(AsyncReceiver<T>),
}
impl<T> SH<T> {
    fn sy(&self) -> &Sender<T> {
        match self {
            SH::S(s) => s,
            SH::A(a) => a.as_sync(),
        }
    }
    fn asy(&self) -> &AsyncSender<T> {
        match self {
            SH::S(s) => s.as_async(),
            SH::A(a) => a,
        }
    }
}
impl<T> RH<T> {
    fn sy(&self) -> &Receiver<T> {
        match self {
            RH::S(s) => s,
            RH::A(a) => a.as_sync(),
        }
    }
    fn asy(&self) -> &AsyncReceiver<T> {
        match self {
            RH::S(s) => s.as_async(),
            RH::A(a) => a,
        }
    }
}

enum RF<T: 'static> {
    Fut(Pin<Box<ReceiveFuture<'static, T>>>),
    Stream(Pin<Box<ReceiveStream<'static, T>>>),
}

struct World<T: Payload> {
    sh: Vec<Box<SH<T>>>,
    rh: Vec<Box<RH<T>>>,
    sf: HashMap<u32, Pin<Box<SendFuture<'static, T>>>>,
    rf: HashMap<u32, RF<T>>,
    created: Vec<u32>,
    received: Vec<u32>,
    kept: Vec<u32>,
    flags: Vec<String>,
    held: Vec<T>,
}

static PROGRESS: AtomicU64 = AtomicU64::new(0);
static IN_OP: AtomicU64 = AtomicU64::new(0);

const LONG: Duration = Duration::from_secs(3600);

fn err_s(e: SendError) -> String {
    match e {
        SendError::Closed => "err:Closed".into(),
        SendError::ReceiveClosed => "err:ReceiveClosed".into(),
    }
}
fn err_st(e: SendErrorTimeout) -> String {
    match e {
        SendErrorTimeout::Closed => "err:Closed".into(),
        SendErrorTimeout::ReceiveClosed => "err:ReceiveClosed".into(),
        SendErrorTimeout::Timeout => "err:Timeout".into(),
    }
}
fn err_r(e: ReceiveError) -> String {
    match e {
        ReceiveError::Closed => "err:Closed".into(),
        ReceiveError::SendClosed => "err:SendClosed".into(),
    }
}
fn err_rt(e: ReceiveErrorTimeout) -> String {
    match e {
        ReceiveErrorTimeout::Closed => "err:Closed".into(),
        ReceiveErrorTimeout::SendClosed => "err:SendClosed".into(),
        ReceiveErrorTimeout::Timeout => "err:Timeout".into(),
    }
}

impl<T: Payload> World<T> {
    fn new(cap: Option<usize>, flavour_async: bool) -> Self {
        let (s, r): (SH<T>, RH<T>) = match (cap, flavour_async) {
            (Some(n), false) => {
                let (s, r) = bounded::<T>(n);
                (SH::S(s), RH::S(r))
            }
            (Some(n), true) => {
                let (s, r) = bounded_async::<T>(n);
                (SH::A(s), RH::A(r))
            }
            (None, false) => {
                let (s, r) = unbounded::<T>();
                (SH::S(s), RH::S(r))
            }
            (None, true) => {
                let (s, r) = unbounded_async::<T>();
                (SH::A(s), RH::A(r))
            }
        };
        World {
            sh: vec![Box::new(s)],
            rh: vec![Box::new(r)],
            sf: HashMap::new(),
            rf: HashMap::new(),
            created: vec![],
            received: vec![],
            kept: vec![],
            flags: vec![],
            held: vec![],
        }
    }

    fn mk(&mut self, tag: u32) -> T {
        self.created.push(tag);
        T::make(tag)
    }

    fn got(&mut self, v: T) -> String {
        let t = v.tag();
        if !T::ZST {
            if !self.created.contains(&t) {
                self.flags.push(format!("INVENTED{}", t));
            }
            if self.received.contains(&t) {
                self.flags.push(format!("DUPLICATE{}", t));
            }
        }
        self.received.push(t);
        self.held.push(v);
        format!("v{}", t)
    }

    fn s(&self) -> &SH<T> {
        self.sh.last().expect("no sender handle")
    }
    fn r(&self) -> &RH<T> {
        self.rh.last().expect("no receiver handle")
    }

    fn op(&mut self, toks: &[&str]) -> String {
        let n = |i: usize| -> u32 { toks[i].parse().unwrap() };
        match toks[0] {
            "send" => {
                let v = self.mk(n(1));
                match self.s().sy().send(v) {
                    Ok(()) => "ok".into(),
                    Err(e) => err_s(e),
                }
            }
            "sendt" => {
                let v = self.mk(n(1));
                let d = if toks[2] == "0" { Duration::ZERO } else { LONG };
                match self.s().sy().send_timeout(v, d) {
                    Ok(()) => "ok".into(),
                    Err(e) => err_st(e),
                }
            }
            "sendot" => {
                let mut o = Some(self.mk(n(1)));
                let d = if toks[2] == "0" { Duration::ZERO } else { LONG };
                let r = match self.s().sy().send_option_timeout(&mut o, d) {
                    Ok(()) => "ok".to_string(),
                    Err(e) => err_st(e),
                };
                self.after_opt(o, n(1), r)
            }
            "try" => {
                let tag = n(1);
                let (opt, rt) = (toks[2] == "1", toks[3] == "1");
                let use_async_view = tag % 2 == 0; // exercise both views of the handle
                if opt {
                    let mut o = Some(self.mk(tag));
                    let r = {
                        let h = self.s();
                        match (rt, use_async_view) {
                            (false, false) => h.sy().try_send_option(&mut o),
                            (false, true) => h.asy().try_send_option(&mut o),
                            (true, false) => h.sy().try_send_option_realtime(&mut o),
                            (true, true) => h.asy().try_send_option_realtime(&mut o),
                        }
                    };
                    let r = match r {
                        Ok(b) => b.to_string(),
                        Err(e) => err_s(e),
                    };
                    self.after_opt(o, tag, r)
                } else {
                    let v = self.mk(tag);
                    let h = self.s();
                    let r = match (rt, use_async_view) {
                        (false, false) => h.sy().try_send(v),
                        (false, true) => h.asy().try_send(v),
                        (true, false) => h.sy().try_send_realtime(v),
                        (true, true) => h.asy().try_send_realtime(v),
                    };
                    match r {
                        Ok(b) => b.to_string(),
                        Err(e) => err_s(e),
                    }
                }
            }
            "recv" => match self.r().sy().recv() {
                Ok(v) => self.got(v),
                Err(e) => err_r(e),
            },
            "recvt" => {
                let d = if toks[1] == "0" { Duration::ZERO } else { LONG };
                match self.r().sy().recv_timeout(d) {
                    Ok(v) => self.got(v),
                    Err(e) => err_rt(e),
                }
            }
            "tryr" => {
                let rt = toks[1] == "1";
                let use_async_view = self.received.len() % 2 == 1;
                let r = {
                    let h = self.r();
                    match (rt, use_async_view) {
                        (false, false) => h.sy().try_recv(),
                        (false, true) => h.asy().try_recv(),
                        (true, false) => h.sy().try_recv_realtime(),
                        (true, true) => h.asy().try_recv_realtime(),
                    }
                };
                match r {
                    Ok(Some(v)) => self.got(v),
                    Ok(None) => "none".into(),
                    Err(e) => err_r(e),
                }
            }
            "drain" => {
                let vk = n(1);
                let mut vec: Vec<T> = match vk {
                    0 => Vec::new(),
                    1 => {
                        let mut v = Vec::with_capacity(2);
                        muted(|| {
                            v.push(T::make(201));
                            v.push(T::make(202));
                        });
                        v
                    }
                    _ => {
                        let mut v = Vec::with_capacity(16);
                        muted(|| {
                            v.push(T::make(201));
                            v.push(T::make(202));
                        });
                        v
                    }
                };
                let pre = vec.len();
                let use_async_view = vk == 1;
                let r = if use_async_view {
                    self.r().asy().drain_into(&mut vec)
                } else {
                    self.r().sy().drain_into(&mut vec)
                };
                let out = match r {
                    Ok(cnt) => {
                        if pre == 2 && !T::ZST && (vec[0].tag() != 201 || vec[1].tag() != 202) {
                            self.flags.push("PREFIXBAD".into());
                        }
                        let mut tags = vec![];
                        let rest: Vec<T> = vec.drain(pre..).collect();
                        for v in rest {
                            let s = self.got(v);
                            tags.push(s[1..].to_string());
                        }
                        format!("drained {} [{}]", cnt, tags.join(","))
                    }
                    Err(e) => {
                        if vec.len() != pre {
                            self.flags.push("DRAINERRTOOK".into());
                        }
                        err_r(e)
                    }
                };
                muted(|| drop(vec));
                out
            }
            "asend" => {
                let v = self.mk(n(2));
                let h: &AsyncSender<T> = self.sh[0].asy();
                // Safety: the generator never drops or converts handle 0 while a future of its side lives
                let h: &'static AsyncSender<T> = unsafe { &*(h as *const _) };
                self.sf.insert(n(1), Box::pin(h.send(v)));
                "ok".into()
            }
            "polls" => {
                let w = waker(n(2));
                let mut cx = Context::from_waker(&w);
                let f = self.sf.get_mut(&n(1)).expect("no such send future");
                match f.as_mut().poll(&mut cx) {
                    Poll::Pending => "pending".into(),
                    Poll::Ready(Ok(())) => "ok".into(),
                    Poll::Ready(Err(e)) => err_s(e),
                }
            }
            "dropsf" => {
                let f = self.sf.remove(&n(1)).expect("no such send future");
                drop(f);
                "ok".into()
            }
            "arecv" | "stream" => {
                let h: &AsyncReceiver<T> = self.rh[0].asy();
                let h: &'static AsyncReceiver<T> = unsafe { &*(h as *const _) };
                let f = if toks[0] == "arecv" {
                    RF::Fut(Box::pin(h.recv()))
                } else {
                    RF::Stream(Box::pin(h.stream()))
                };
                self.rf.insert(n(1), f);
                "ok".into()
            }
            "pollr" => {
                let w = waker(n(2));
                let mut cx = Context::from_waker(&w);
                let f = self.rf.get_mut(&n(1)).expect("no such receive future");
                match f {
                    RF::Fut(f) => match f.as_mut().poll(&mut cx) {
                        Poll::Pending => "pending".into(),
                        Poll::Ready(Ok(v)) => self.got(v),
                        Poll::Ready(Err(e)) => err_r(e),
                    },
                    RF::Stream(f) => match f.as_mut().poll_next(&mut cx) {
                        Poll::Pending => "pending".into(),
                        Poll::Ready(Some(v)) => self.got(v),
                        Poll::Ready(None) => "end".into(),
                    },
                }
            }
            "droprf" => {
                let f = self.rf.remove(&n(1)).expect("no such receive future");
                drop(f);
                "ok".into()
            }
            "clone" => {
                let same = toks[2] == "1";
                if toks[1] == "s" {
                    let c = match (self.s(), same) {
                        (SH::S(s), true) => SH::S(s.clone()),
                        (SH::S(s), false) => SH::A(s.clone_async()),
                        (SH::A(a), true) => SH::A(a.clone()),
                        (SH::A(a), false) => SH::S(a.clone_sync()),
                    };
                    self.sh.push(Box::new(c));
                } else {
                    let c = match (self.r(), same) {
                        (RH::S(s), true) => RH::S(s.clone()),
                        (RH::S(s), false) => RH::A(s.clone_async()),
                        (RH::A(a), true) => RH::A(a.clone()),
                        (RH::A(a), false) => RH::S(a.clone_sync()),
                    };
                    self.rh.push(Box::new(c));
                }
                "ok".into()
            }
            "drop" => {
                if toks[1] == "s" {
                    drop(self.sh.pop().expect("no sender handle"));
                } else {
                    drop(self.rh.pop().expect("no receiver handle"));
                }
                "ok".into()
            }
            "conv" => {
                if toks[1] == "s" {
                    let h = *self.sh.pop().expect("no sender handle");
                    let h = match h {
                        SH::S(s) => SH::A(s.to_async()),
                        SH::A(a) => SH::S(a.to_sync()),
                    };
                    self.sh.push(Box::new(h));
                } else {
                    let h = *self.rh.pop().expect("no receiver handle");
                    let h = match h {
                        RH::S(s) => RH::A(s.to_async()),
                        RH::A(a) => RH::S(a.to_sync()),
                    };
                    self.rh.push(Box::new(h));
                }
                "ok".into()
            }
            "close" => {
                let r = if toks[1] == "s" { self.s().sy().close() } else { self.r().asy().close() };
                match r {
                    Ok(()) => "ok".into(),
                    Err(_) => "err:CloseError".into(),
                }
            }
            name => {
                // observers: through the sync view on even steps, the async view on odd ones
                let av = self.created.len() % 2 == 1;
                let sside = toks[1] == "s";
                macro_rules! both {
                    ($m:ident) => {
                        if sside {
                            if av { self.s().asy().$m() } else { self.s().sy().$m() }
                        } else {
                            if av { self.r().asy().$m() } else { self.r().sy().$m() }
                        }
                    };
                }
                let usz = |x: usize| if x == usize::MAX { "inf".to_string() } else { format!("n{}", x) };
                match name {
                    "len" => usz(both!(len)),
                    "isempty" => both!(is_empty).to_string(),
                    "isfull" => both!(is_full).to_string(),
                    "capacity" => usz(both!(capacity)),
                    "isbounded" => both!(is_bounded).to_string(),
                    "scount" => format!("n{}", both!(sender_count)),
                    "rcount" => format!("n{}", both!(receiver_count)),
                    "isclosed" => both!(is_closed).to_string(),
                    "isdisc" => both!(is_disconnected).to_string(),
                    "isterm" => {
                        if av { self.r().asy().is_terminated() } else { self.r().sy().is_terminated() }.to_string()
                    }
                    _ => panic!("unknown op {}", name),
                }
            }
        }
    }

    fn after_opt(&mut self, o: Option<T>, tag: u32, mut r: String) -> String {
        if let Some(v) = o {
            if !T::ZST && v.tag() != tag {
                self.flags.push(format!("KEPTWRONG{}", tag));
            }
            self.kept.push(tag);
            muted(|| drop(v));
            r.push_str("\u{1}kept");
        }
        r
    }
}

fn run_line<T: Payload>(line: &str, flavour_async: bool) -> String {
    let (cap, ops) = line.split_once('|').expect("bad line");
    let cap = if cap == "u" { None } else { Some(cap.parse::<usize>().unwrap()) };
    EVENTS.with(|v| v.borrow_mut().clear());
    let mut w = World::<T>::new(cap, flavour_async);
    let mut out: Vec<String> = vec![];
    let mut all_drops: Vec<u32> = vec![];
    for op in ops.split(';') {
        if op.is_empty() {
            continue;
        }
        PROGRESS.fetch_add(1, Ordering::Relaxed);
        let toks: Vec<&str> = op.split(' ').collect();
        IN_OP.store(1, Ordering::Relaxed);
        let r = catch_unwind(AssertUnwindSafe(|| w.op(&toks)));
        IN_OP.store(0, Ordering::Relaxed);
        let mut r = match r {
            Ok(s) => s,
            Err(_) => "panic".to_string(),
        };
        let kept = r.ends_with("\u{1}kept");
        if kept {
            r.truncate(r.len() - 5);
        }
        let evs: Vec<Ev> = EVENTS.with(|v| v.borrow_mut().drain(..).collect());
        for e in &evs {
            if let Ev::Wake(k) = e {
                r.push_str(&format!(" w{}", k));
            }
        }
        for e in &evs {
            if let Ev::Drop(k) = e {
                r.push_str(&format!(" d{}", k));
                all_drops.push(*k);
            }
        }
        if kept {
            r.push_str(" kept");
        }
        out.push(r);
    }
    // everything the generator did not tear down (it always does) goes now, with accounting on
    let World { sh, rh, sf, rf, created, received, kept, flags, held } = w;
    drop(sf);
    drop(rf);
    drop(sh);
    drop(rh);
    let evs: Vec<Ev> = EVENTS.with(|v| v.borrow_mut().drain(..).collect());
    let mut extra = String::new();
    for e in evs {
        match e {
            Ev::Drop(k) => {
                all_drops.push(k);
                extra.push_str(&format!(" LATE-d{}", k));
            }
            Ev::Wake(k) => extra.push_str(&format!(" LATE-w{}", k)),
        }
    }
    muted(|| drop(held));
    // accounting
    let (mut leak, mut dbl): (Vec<u32>, Vec<u32>) = (vec![], vec![]);
    if T::PLAIN {
        // nothing to account: values without drop glue are never destroyed observably
    } else if T::ZST {
        let accounted = all_drops.len() + received.len() + kept.len();
        if accounted < created.len() {
            leak.push(0);
        }
        if accounted > created.len() {
            dbl.push(0);
        }
    } else {
        for &t in &created {
            let d = all_drops.iter().filter(|&&x| x == t).count();
            let r = received.iter().filter(|&&x| x == t).count();
            let k = kept.iter().filter(|&&x| x == t).count();
            if d + r + k == 0 && !leak.contains(&t) {
                leak.push(t);
            }
            if d + r + k > 1 && !dbl.contains(&t) {
                dbl.push(t);
            }
        }
    }
    let ls = |v: &Vec<u32>| format!("[{}]", v.iter().map(|x| x.to_string()).collect::<Vec<_>>().join(","));
    let mut end = format!("END leak={} dbl={}", ls(&leak), ls(&dbl));
    end.push_str(&extra);
    for f in flags {
        end.push(' ');
        end.push_str(&f);
    }
    out.push(end);
    out.join(";")
}

fn main() {
    let args: Vec<String> = std::env::args().collect();
    let class = args.get(1).map(|s| s.as_str()).unwrap_or("w").to_string();
    let fl = args.get(2).map(|s| s == "a").unwrap_or(false);
    std::panic::set_hook(Box::new(|_| {}));
    // watchdog: a call that does not return is reported, not waited for
    std::thread::spawn(|| {
        let mut last = PROGRESS.load(Ordering::Relaxed);
        let mut idle = 0;
        loop {
            std::thread::sleep(Duration::from_millis(200));
            let now = PROGRESS.load(Ordering::Relaxed);
            if now == last && IN_OP.load(Ordering::Relaxed) == 1 {
                idle += 1;
            } else {
                idle = 0;
                last = now;
            }
            if idle >= 25 {
                // stdout is locked by the main thread for its whole life: report through stderr and the exit code
                eprintln!("HANG");
                std::process::exit(3);
            }
        }
    });
    let stdin = std::io::stdin();
    let stdout = std::io::stdout();
    let mut out = std::io::BufWriter::new(stdout.lock());
    for line in stdin.lock().lines() {
        let line = line.unwrap();
        if line.is_empty() {
            continue;
        }
        let r = match class.as_str() {
            "z" => run_line::<Z>(&line, fl),
            "b" => run_line::<B>(&line, fl),
            "l" => run_line::<L>(&line, fl),
            "p" => run_line::<P>(&line, fl),
            "q" => run_line::<Q>(&line, fl),
            _ => run_line::<W>(&line, fl),
        };
        writeln!(out, "{}", r).unwrap();
        // flush per line so that a later HANG/crash leaves the completed results visible
        out.flush().unwrap();
    }
    PROGRESS.store(0, Ordering::Relaxed);
}
