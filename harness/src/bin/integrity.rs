//! integrity — payload integrity runs for C04 on the real crate: concrete message types of every
//! size / alignment class, random bit patterns, all three transfer paths (through the buffer, written
//! into a blocked receiver, read out of a blocked sender) with sync, timed and async waiters.
//! Usage: integrity <seed> <rounds>.  Prints one line per (type, path) and `INTEGRITY ok|FAIL`.

use kanal::*;
use std::fmt::Debug;
use std::future::Future;
use std::pin::Pin;
use std::task::{Context, Poll, RawWaker, RawWakerVTable, Waker};
use std::time::Duration;

struct Rng(u64);
impl Rng {
    fn next(&mut self) -> u64 {
        let mut x = self.0;
        x ^= x << 13;
        x ^= x >> 7;
        x ^= x << 17;
        self.0 = x;
        x
    }
}

static VT: RawWakerVTable = RawWakerVTable::new(|d| RawWaker::new(d, &VT), |_| {}, |_| {}, |_| {});
fn noop_waker() -> Waker {
    unsafe { Waker::from_raw(RawWaker::new(std::ptr::null(), &VT)) }
}

trait Sample: Sized + PartialEq + Debug + Send + 'static {
    fn sample(r: &mut Rng) -> Self;
}

impl Sample for () {
    fn sample(_: &mut Rng) -> Self {}
}
#[repr(align(64))]
#[derive(PartialEq, Debug)]
struct OverAlignedZst;
impl Sample for OverAlignedZst {
    fn sample(_: &mut Rng) -> Self {
        OverAlignedZst
    }
}
impl Sample for u8 {
    fn sample(r: &mut Rng) -> Self {
        r.next() as u8
    }
}
impl Sample for u16 {
    fn sample(r: &mut Rng) -> Self {
        r.next() as u16
    }
}
impl Sample for u32 {
    fn sample(r: &mut Rng) -> Self {
        r.next() as u32
    }
}
impl Sample for usize {
    fn sample(r: &mut Rng) -> Self {
        r.next() as usize
    }
}
impl Sample for [usize; 2] {
    fn sample(r: &mut Rng) -> Self {
        [r.next() as usize, r.next() as usize]
    }
}
#[derive(PartialEq, Debug)]
struct PaddedRust {
    a: u8,
    b: usize,
    c: u8,
}
impl Sample for PaddedRust {
    fn sample(r: &mut Rng) -> Self {
        PaddedRust { a: r.next() as u8, b: r.next() as usize, c: r.next() as u8 }
    }
}
#[repr(C)]
#[derive(PartialEq, Debug)]
struct PaddedC {
    a: u8,
    b: usize,
    c: u8,
}
impl Sample for PaddedC {
    fn sample(r: &mut Rng) -> Self {
        PaddedC { a: r.next() as u8, b: r.next() as usize, c: r.next() as u8 }
    }
}
#[repr(C)]
#[derive(PartialEq, Debug)]
struct SmallPadded {
    a: u8,
    b: u16,
}
impl Sample for SmallPadded {
    fn sample(r: &mut Rng) -> Self {
        SmallPadded { a: r.next() as u8, b: r.next() as u16 }
    }
}
#[repr(C)]
#[derive(PartialEq, Debug)]
struct Odd7 {
    a: [u8; 7],
}
impl Sample for Odd7 {
    fn sample(r: &mut Rng) -> Self {
        let x = r.next().to_le_bytes();
        Odd7 { a: [x[0], x[1], x[2], x[3], x[4], x[5], x[6]] }
    }
}
#[repr(C)]
#[derive(PartialEq, Debug)]
struct Nine {
    a: [u8; 9],
}
impl Sample for Nine {
    fn sample(r: &mut Rng) -> Self {
        let x = r.next().to_le_bytes();
        Nine { a: [x[0], x[1], x[2], x[3], x[4], x[5], x[6], x[7], r.next() as u8] }
    }
}
impl Sample for Box<u64> {
    fn sample(r: &mut Rng) -> Self {
        Box::new(r.next())
    }
}
impl Sample for String {
    fn sample(r: &mut Rng) -> Self {
        format!("s{:x}-{:x}", r.next(), r.next())
    }
}
#[derive(PartialEq, Debug)]
struct Big {
    a: [u64; 16],
    s: String,
}
impl Sample for Big {
    fn sample(r: &mut Rng) -> Self {
        let mut a = [0u64; 16];
        for x in a.iter_mut() {
            *x = r.next();
        }
        Big { a, s: format!("{:x}", r.next()) }
    }
}

fn poll_once<F: Future>(f: Pin<&mut F>) -> Poll<F::Output> {
    let w = noop_waker();
    let mut cx = Context::from_waker(&w);
    f.poll(&mut cx)
}

/// All paths for one type; returns the names of failing paths.
fn run_type<T: Sample>(name: &str, r: &mut Rng, rounds: usize) -> Vec<String> {
    let mut bad = vec![];
    let mut check = |path: &str, ok: bool| {
        if !ok {
            bad.push(format!("{}:{}", name, path));
        }
    };
    for round in 0..rounds {
        let seed = r.next();
        let mk = move |k: u64| T::sample(&mut Rng(seed ^ (k.wrapping_mul(0x9E37_79B9_7F4A_7C15)) | 1));
        // 1. through the buffer (bounded and unbounded)
        {
            let (s, rx) = bounded::<T>(2);
            s.send(mk(1)).unwrap();
            s.try_send(mk(2)).unwrap();
            check("queue/recv", rx.recv().ok() == Some(mk(1)));
            check("queue/try_recv", rx.try_recv().ok().flatten() == Some(mk(2)));
            let (s, rx) = unbounded::<T>();
            s.send(mk(3)).unwrap();
            let mut v = Vec::new();
            rx.drain_into(&mut v).unwrap();
            check("queue/drain", v == vec![mk(3)]);
        }
        // 2. written into a pending receive future (async waiter), then read by its poll
        {
            let (s, rx) = bounded_async::<T>(0);
            let mut f = Box::pin(rx.recv());
            check("into-async/pending", poll_once(f.as_mut()).is_pending());
            check("into-async/handoff", s.try_send(mk(4)) == Ok(true));
            match poll_once(f.as_mut()) {
                Poll::Ready(Ok(v)) => check("into-async/value", v == mk(4)),
                _ => check("into-async/value", false),
            }
        }
        // 3. read out of a pending send future (async waiter) by try_recv, recv_timeout, drain
        {
            let (s, rx) = bounded_async::<T>(0);
            let mut f = Box::pin(s.send(mk(5)));
            check("from-async/pending", poll_once(f.as_mut()).is_pending());
            check("from-async/value", rx.try_recv().ok().flatten() == Some(mk(5)));
            check("from-async/done", matches!(poll_once(f.as_mut()), Poll::Ready(Ok(()))));
            let (s, rx) = bounded_async::<T>(1);
            s.try_send(mk(6)).unwrap();
            let mut f = Box::pin(s.send(mk(7)));
            check("refill/pending", poll_once(f.as_mut()).is_pending());
            check("refill/head", rx.as_sync().recv_timeout(Duration::from_secs(5)).ok() == Some(mk(6)));
            let mut v = Vec::new();
            rx.drain_into(&mut v).unwrap();
            check("refill/moved", v == vec![mk(7)]);
        }
        // 4. blocked sync / timed waiters on real threads (a few rounds only: they sleep)
        if round < 3 {
            let (s, rx) = bounded::<T>(0);
            let h = std::thread::spawn(move || rx.recv().ok());
            std::thread::sleep(Duration::from_millis(30));
            s.send(mk(8)).unwrap();
            check("into-sync/value", h.join().unwrap() == Some(mk(8)));

            let (s, rx) = bounded::<T>(0);
            let h = std::thread::spawn(move || rx.recv_timeout(Duration::from_secs(20)).ok());
            std::thread::sleep(Duration::from_millis(30));
            s.send_timeout(mk(9), Duration::from_secs(20)).unwrap();
            check("into-timed/value", h.join().unwrap() == Some(mk(9)));

            let (s, rx) = bounded::<T>(0);
            let v = mk(10);
            let h = std::thread::spawn(move || s.send(v).is_ok());
            std::thread::sleep(Duration::from_millis(30));
            check("from-sync/value", rx.try_recv().ok().flatten() == Some(mk(10)) || {
                // the sender may not have registered yet on a loaded machine: fall back to a blocking receive
                false
            } || rx.recv().ok() == Some(mk(10)));
            check("from-sync/sender-ok", h.join().unwrap());

            let (s, rx) = bounded::<T>(0);
            let h = std::thread::spawn(move || {
                let mut o = Some(mk(11));
                let r = s.send_option_timeout(&mut o, Duration::from_secs(20)).is_ok();
                r && o.is_none()
            });
            std::thread::sleep(Duration::from_millis(30));
            check("from-timed/value", rx.recv().ok() == Some(mk(11)));
            check("from-timed/sender-ok", h.join().unwrap());
        }
    }
    bad
}

fn main() {
    let args: Vec<String> = std::env::args().collect();
    let seed: u64 = args.get(1).and_then(|s| s.parse().ok()).unwrap_or(1);
    let rounds: usize = args.get(2).and_then(|s| s.parse().ok()).unwrap_or(50);
    let mut r = Rng(seed.wrapping_mul(0x2545_F491_4F6C_DD1D) | 1);
    let mut bad: Vec<String> = vec![];
    macro_rules! ty {
        ($t:ty) => {{
            let b = run_type::<$t>(stringify!($t), &mut r, rounds);
            println!(
                "type {:<16} size {:>3} align {:>2}  {}",
                stringify!($t),
                std::mem::size_of::<$t>(),
                std::mem::align_of::<$t>(),
                if b.is_empty() { "ok".to_string() } else { format!("FAIL {:?}", b) }
            );
            bad.extend(b);
        }};
    }
    ty!(());
    ty!(OverAlignedZst);
    ty!(u8);
    ty!(u16);
    ty!(SmallPadded);
    ty!(u32);
    ty!(Odd7);
    ty!(usize);
    ty!(Box<u64>);
    ty!(Nine);
    ty!([usize; 2]);
    ty!(PaddedRust);
    ty!(PaddedC);
    ty!(String);
    ty!(Big);
    if bad.is_empty() {
        println!("INTEGRITY ok");
    } else {
        println!("INTEGRITY FAIL {:?}", bad);
        std::process::exit(1);
    }
}
