//! Runtime of the concurrent harness.
//!
//! * `prog`   — program-file parser
//! * `event`  — event records and their text form
//! * `sched`  — the scheduler (`kanal::verif::Runtime` implementation)
//! * `exec`   — payloads, wakers, op interpreter, logical-thread bodies
//! * `oracle` — verdicts computed from the records of one run
pub mod event;
pub mod exec;
pub mod oracle;
pub mod prog;
pub mod sched;

pub use event::{Ev, Rec};
pub use prog::{Entry, Program, Strategy};
pub use sched::{EndKind, RunResult, Sched};
