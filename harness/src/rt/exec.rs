//! Payloads, wakers and the op interpreter of the logical threads.
//!
//! The op vocabulary and the result texts are those of `bin/seqdrv.rs`.

use super::prog::Program;
use super::sched::{tid, RunResult, Sched};
use futures_core::Stream;
use kanal::*;
use std::cell::Cell;
use std::collections::BTreeMap;
use std::future::Future;
use std::mem::ManuallyDrop;
use std::panic::{catch_unwind, AssertUnwindSafe};
use std::pin::Pin;
use std::sync::OnceLock;
use std::task::{Context, Poll, RawWaker, RawWakerVTable, Waker};
use std::time::Duration;

static CUR: OnceLock<&'static Sched> = OnceLock::new();

thread_local! {
    static MUTE: Cell<bool> = const { Cell::new(false) };
}

fn sched() -> Option<&'static Sched> {
    if tid().is_some() {
        CUR.get().copied()
    } else {
        None
    }
}

/// Runs `f` with payload-drop reporting switched off (harness-owned values).
pub fn muted<R>(f: impl FnOnce() -> R) -> R {
    let old = MUTE.with(|m| m.replace(true));
    let r = f();
    MUTE.with(|m| m.set(old));
    r
}

fn report_drop(tag: u32) {
    if MUTE.with(|m| m.get()) {
        return;
    }
    if let Some(s) = sched() {
        s.pdrop(tag);
    }
}

// ---- payload classes ----------------------------------------------------------

pub trait Payload: Send + 'static {
    fn make(tag: u32) -> Self;
    fn tag(&self) -> u32;
    const ZST: bool = false;
}

pub struct Z;
impl Payload for Z {
    fn make(_: u32) -> Self {
        Z
    }
    fn tag(&self) -> u32 {
        0
    }
    const ZST: bool = true;
}
impl Drop for Z {
    fn drop(&mut self) {
        report_drop(0)
    }
}

pub struct B(u8);
impl Payload for B {
    fn make(t: u32) -> Self {
        B(t as u8)
    }
    fn tag(&self) -> u32 {
        self.0 as u32
    }
}
impl Drop for B {
    fn drop(&mut self) {
        report_drop(self.0 as u32)
    }
}

pub struct W(usize);
impl Payload for W {
    fn make(t: u32) -> Self {
        W(t as usize ^ 0x5a5a_0000_0000)
    }
    fn tag(&self) -> u32 {
        (self.0 ^ 0x5a5a_0000_0000) as u32
    }
}
impl Drop for W {
    fn drop(&mut self) {
        report_drop(self.tag())
    }
}

#[repr(C)]
pub struct L {
    a: usize,
    b: u8,
    c: usize,
}
impl Payload for L {
    fn make(t: u32) -> Self {
        L { a: t as usize, b: (t % 251) as u8, c: !(t as usize) }
    }
    fn tag(&self) -> u32 {
        assert!(self.c == !self.a && self.b == (self.a % 251) as u8, "payload corrupted");
        self.a as u32
    }
}
impl Drop for L {
    fn drop(&mut self) {
        report_drop(self.a as u32)
    }
}

/// pointer-sized, no drop glue (`needs_drop::<T>() == false`)
pub struct P(usize);
impl Payload for P {
    fn make(t: u32) -> Self {
        P(t as usize ^ 0x3c3c_0000_0000)
    }
    fn tag(&self) -> u32 {
        (self.0 ^ 0x3c3c_0000_0000) as u32
    }
}

/// larger than a pointer, no drop glue
#[repr(C)]
pub struct Q {
    a: usize,
    b: u8,
    c: usize,
}
impl Payload for Q {
    fn make(t: u32) -> Self {
        Q { a: t as usize, b: (t % 251) as u8, c: !(t as usize) }
    }
    fn tag(&self) -> u32 {
        assert!(self.c == !self.a && self.b == (self.a % 251) as u8, "payload corrupted");
        self.a as u32
    }
}

// ---- wakers with identity -------------------------------------------------------
//
// Waker id `w` = (data pointer << 1) | vtable index: ids 2k and 2k+1 share their data pointer and differ only in the
// vtable, so `Waker::will_wake` tells them apart while a comparison of the data pointers alone would not; `will_wake` is
// true iff the ids are equal. Instances made by `clone` are numbered by the scheduler.

macro_rules! waker_vtable {
    ($name:ident, $bit:expr) => {
        static $name: RawWakerVTable = RawWakerVTable::new(
            |d| {
                if let Some(s) = sched() {
                    s.waker_clone(((d as usize as u32) << 1) | $bit);
                }
                RawWaker::new(d, &$name)
            },
            |d| {
                if let Some(s) = sched() {
                    s.waker_wake(((d as usize as u32) << 1) | $bit, false);
                }
            },
            |d| {
                if let Some(s) = sched() {
                    s.waker_wake(((d as usize as u32) << 1) | $bit, true);
                }
            },
            |d| {
                if let Some(s) = sched() {
                    s.waker_drop(((d as usize as u32) << 1) | $bit);
                }
            },
        );
    };
}
waker_vtable!(VT0, 0);
waker_vtable!(VT1, 1);

/// The waker handed to `poll`; it is the harness's own and never dropped
/// through the vtable, only kanal's clones are instances.
fn root_waker(id: u32) -> ManuallyDrop<Waker> {
    let vt = if id & 1 == 0 { &VT0 } else { &VT1 };
    ManuallyDrop::new(unsafe { Waker::from_raw(RawWaker::new((id >> 1) as usize as *const (), vt)) })
}

// ---- handles ------------------------------------------------------------------------

enum SH<T> {
    S(Sender<T>),
    A(AsyncSender<T>),
}
enum RH<T> {
    S(Receiver<T>),
    A(AsyncReceiver<T>),
}
impl<T> SH<T> {
    fn sy(&self) -> &Sender<T> {
        match self {
            SH::S(s) => s,
            SH::A(a) => a.as_sync(),
        }
    }
    fn asy(&self) -> &AsyncSender<T> {
        match self {
            SH::S(s) => s.as_async(),
            SH::A(a) => a,
        }
    }
}
impl<T> RH<T> {
    fn sy(&self) -> &Receiver<T> {
        match self {
            RH::S(s) => s,
            RH::A(a) => a.as_sync(),
        }
    }
    fn asy(&self) -> &AsyncReceiver<T> {
        match self {
            RH::S(s) => s.as_async(),
            RH::A(a) => a,
        }
    }
}

enum RF<T: 'static> {
    Fut(Pin<Box<ReceiveFuture<'static, T>>>),
    Stream(Pin<Box<ReceiveStream<'static, T>>>),
}

/// What one logical thread owns.
struct World<T: Payload> {
    sh: Vec<Box<SH<T>>>,
    rh: Vec<Box<RH<T>>>,
    sf: BTreeMap<u32, Pin<Box<SendFuture<'static, T>>>>,
    rf: BTreeMap<u32, RF<T>>,
    n_created: usize,
    n_received: usize,
}

fn err_s(e: SendError) -> String {
    match e {
        SendError::Closed => "err:Closed".into(),
        SendError::ReceiveClosed => "err:ReceiveClosed".into(),
    }
}
fn err_st(e: SendErrorTimeout) -> String {
    match e {
        SendErrorTimeout::Closed => "err:Closed".into(),
        SendErrorTimeout::ReceiveClosed => "err:ReceiveClosed".into(),
        SendErrorTimeout::Timeout => "err:Timeout".into(),
    }
}
fn err_r(e: ReceiveError) -> String {
    match e {
        ReceiveError::Closed => "err:Closed".into(),
        ReceiveError::SendClosed => "err:SendClosed".into(),
    }
}
fn err_rt(e: ReceiveErrorTimeout) -> String {
    match e {
        ReceiveErrorTimeout::Closed => "err:Closed".into(),
        ReceiveErrorTimeout::SendClosed => "err:SendClosed".into(),
        ReceiveErrorTimeout::Timeout => "err:Timeout".into(),
    }
}

impl<T: Payload> World<T> {
    fn mk(&mut self, tag: u32) -> T {
        self.n_created += 1;
        T::make(tag)
    }

    /// A value arrived at the harness: report its tag, destroy it silently.
    fn got(&mut self, v: T) -> String {
        let t = v.tag();
        self.n_received += 1;
        muted(|| drop(v));
        format!("v{}", t)
    }

    fn s(&self) -> &SH<T> {
        self.sh.last().expect("no sender handle")
    }
    fn r(&self) -> &RH<T> {
        self.rh.last().expect("no receiver handle")
    }

    /// `drop`/`conv` of handle 0 while a future of that side borrows it would
    /// be a use after free in the harness itself: refuse (the op returns `panic`).
    fn check_borrow(&self, side: &str) {
        let borrowed = if side == "s" {
            self.sh.len() == 1 && !self.sf.is_empty()
        } else {
            self.rh.len() == 1 && !self.rf.is_empty()
        };
        if borrowed {
            panic!("handle 0 is borrowed by a future");
        }
    }

    fn after_opt(&mut self, o: Option<T>, mut r: String) -> String {
        if let Some(v) = o {
            muted(|| drop(v));
            r.push_str(" kept");
        }
        r
    }

    fn op(&mut self, toks: &[&str]) -> String {
        let n = |i: usize| -> u32 { toks[i].parse().expect("numeric argument") };
        let ns = |i: usize| -> Duration { Duration::from_nanos(toks[i].parse().expect("duration in ns")) };
        match toks[0] {
            "send" => {
                let v = self.mk(n(1));
                match self.s().sy().send(v) {
                    Ok(()) => "ok".into(),
                    Err(e) => err_s(e),
                }
            }
            "sendt" => {
                let v = self.mk(n(1));
                match self.s().sy().send_timeout(v, ns(2)) {
                    Ok(()) => "ok".into(),
                    Err(e) => err_st(e),
                }
            }
            "sendot" => {
                let mut o = Some(self.mk(n(1)));
                let r = match self.s().sy().send_option_timeout(&mut o, ns(2)) {
                    Ok(()) => "ok".to_string(),
                    Err(e) => err_st(e),
                };
                self.after_opt(o, r)
            }
            "try" => {
                let tag = n(1);
                let (opt, rt) = (toks[2] == "1", toks[3] == "1");
                let use_async_view = tag % 2 == 0; // exercise both views of the handle
                if opt {
                    let mut o = Some(self.mk(tag));
                    let r = {
                        let h = self.s();
                        match (rt, use_async_view) {
                            (false, false) => h.sy().try_send_option(&mut o),
                            (false, true) => h.asy().try_send_option(&mut o),
                            (true, false) => h.sy().try_send_option_realtime(&mut o),
                            (true, true) => h.asy().try_send_option_realtime(&mut o),
                        }
                    };
                    let r = match r {
                        Ok(b) => b.to_string(),
                        Err(e) => err_s(e),
                    };
                    self.after_opt(o, r)
                } else {
                    let v = self.mk(tag);
                    let h = self.s();
                    let r = match (rt, use_async_view) {
                        (false, false) => h.sy().try_send(v),
                        (false, true) => h.asy().try_send(v),
                        (true, false) => h.sy().try_send_realtime(v),
                        (true, true) => h.asy().try_send_realtime(v),
                    };
                    match r {
                        Ok(b) => b.to_string(),
                        Err(e) => err_s(e),
                    }
                }
            }
            "recv" => match self.r().sy().recv() {
                Ok(v) => self.got(v),
                Err(e) => err_r(e),
            },
            "recvt" => match self.r().sy().recv_timeout(ns(1)) {
                Ok(v) => self.got(v),
                Err(e) => err_rt(e),
            },
            "tryr" => {
                let rt = toks[1] == "1";
                let use_async_view = self.n_received % 2 == 1;
                let r = {
                    let h = self.r();
                    match (rt, use_async_view) {
                        (false, false) => h.sy().try_recv(),
                        (false, true) => h.asy().try_recv(),
                        (true, false) => h.sy().try_recv_realtime(),
                        (true, true) => h.asy().try_recv_realtime(),
                    }
                };
                match r {
                    Ok(Some(v)) => self.got(v),
                    Ok(None) => "none".into(),
                    Err(e) => err_r(e),
                }
            }
            "drain" => {
                let vk = n(1);
                let mut vec: Vec<T> = match vk {
                    0 => Vec::new(),
                    1 => {
                        let mut v = Vec::with_capacity(2);
                        v.push(T::make(201));
                        v.push(T::make(202));
                        v
                    }
                    _ => {
                        let mut v = Vec::with_capacity(16);
                        v.push(T::make(201));
                        v.push(T::make(202));
                        v
                    }
                };
                let pre = vec.len();
                let use_async_view = vk == 1;
                let r = if use_async_view {
                    self.r().asy().drain_into(&mut vec)
                } else {
                    self.r().sy().drain_into(&mut vec)
                };
                let out = match r {
                    Ok(cnt) => {
                        let mut tags = vec![];
                        let rest: Vec<T> = vec.drain(pre..).collect();
                        for v in rest {
                            let s = self.got(v);
                            tags.push(s[1..].to_string());
                        }
                        format!("drained {} [{}]", cnt, tags.join(","))
                    }
                    Err(e) => err_r(e),
                };
                muted(|| drop(vec));
                out
            }
            "asend" => {
                let v = self.mk(n(2));
                let h: &AsyncSender<T> = self.sh.first().expect("no sender handle").asy();
                // Safety: handle 0 is boxed and outlives the futures (teardown order)
                let h: &'static AsyncSender<T> = unsafe { &*(h as *const _) };
                self.sf.insert(n(1), Box::pin(h.send(v)));
                "ok".into()
            }
            "polls" => {
                let w = root_waker(n(2));
                let mut cx = Context::from_waker(&w);
                let f = self.sf.get_mut(&n(1)).expect("no such send future");
                match f.as_mut().poll(&mut cx) {
                    Poll::Pending => "pending".into(),
                    Poll::Ready(Ok(())) => "ok".into(),
                    Poll::Ready(Err(e)) => err_s(e),
                }
            }
            "dropsf" => {
                let f = self.sf.remove(&n(1)).expect("no such send future");
                drop(f);
                "ok".into()
            }
            "arecv" | "stream" => {
                let h: &AsyncReceiver<T> = self.rh.first().expect("no receiver handle").asy();
                // Safety: as above
                let h: &'static AsyncReceiver<T> = unsafe { &*(h as *const _) };
                let f = if toks[0] == "arecv" {
                    RF::Fut(Box::pin(h.recv()))
                } else {
                    RF::Stream(Box::pin(h.stream()))
                };
                self.rf.insert(n(1), f);
                "ok".into()
            }
            "pollr" => {
                let w = root_waker(n(2));
                let mut cx = Context::from_waker(&w);
                let f = self.rf.get_mut(&n(1)).expect("no such receive future");
                match f {
                    RF::Fut(f) => match f.as_mut().poll(&mut cx) {
                        Poll::Pending => "pending".into(),
                        Poll::Ready(Ok(v)) => self.got(v),
                        Poll::Ready(Err(e)) => err_r(e),
                    },
                    RF::Stream(f) => match f.as_mut().poll_next(&mut cx) {
                        Poll::Pending => "pending".into(),
                        Poll::Ready(Some(v)) => self.got(v),
                        Poll::Ready(None) => "end".into(),
                    },
                }
            }
            "droprf" => {
                let f = self.rf.remove(&n(1)).expect("no such receive future");
                drop(f);
                "ok".into()
            }
            "clone" => {
                let same = toks[2] == "1";
                if toks[1] == "s" {
                    let c = match (self.s(), same) {
                        (SH::S(s), true) => SH::S(s.clone()),
                        (SH::S(s), false) => SH::A(s.clone_async()),
                        (SH::A(a), true) => SH::A(a.clone()),
                        (SH::A(a), false) => SH::S(a.clone_sync()),
                    };
                    self.sh.push(Box::new(c));
                } else {
                    let c = match (self.r(), same) {
                        (RH::S(s), true) => RH::S(s.clone()),
                        (RH::S(s), false) => RH::A(s.clone_async()),
                        (RH::A(a), true) => RH::A(a.clone()),
                        (RH::A(a), false) => RH::S(a.clone_sync()),
                    };
                    self.rh.push(Box::new(c));
                }
                "ok".into()
            }
            "drop" => {
                self.check_borrow(toks[1]);
                if toks[1] == "s" {
                    drop(self.sh.pop().expect("no sender handle"));
                } else {
                    drop(self.rh.pop().expect("no receiver handle"));
                }
                "ok".into()
            }
            "conv" => {
                self.check_borrow(toks[1]);
                if toks[1] == "s" {
                    let h = *self.sh.pop().expect("no sender handle");
                    let h = match h {
                        SH::S(s) => SH::A(s.to_async()),
                        SH::A(a) => SH::S(a.to_sync()),
                    };
                    self.sh.push(Box::new(h));
                } else {
                    let h = *self.rh.pop().expect("no receiver handle");
                    let h = match h {
                        RH::S(s) => RH::A(s.to_async()),
                        RH::A(a) => RH::S(a.to_sync()),
                    };
                    self.rh.push(Box::new(h));
                }
                "ok".into()
            }
            "close" => {
                let r = if toks[1] == "s" { self.s().sy().close() } else { self.r().asy().close() };
                match r {
                    Ok(()) => "ok".into(),
                    Err(_) => "err:CloseError".into(),
                }
            }
            name => {
                // observers: sync view on even counts of created values, async view on odd ones
                let av = self.n_created % 2 == 1;
                let sside = toks.get(1).copied() == Some("s");
                macro_rules! both {
                    ($m:ident) => {
                        if sside {
                            if av {
                                self.s().asy().$m()
                            } else {
                                self.s().sy().$m()
                            }
                        } else {
                            if av {
                                self.r().asy().$m()
                            } else {
                                self.r().sy().$m()
                            }
                        }
                    };
                }
                let usz = |x: usize| if x == usize::MAX { "inf".to_string() } else { format!("n{}", x) };
                match name {
                    "len" => usz(both!(len)),
                    "isempty" => both!(is_empty).to_string(),
                    "isfull" => both!(is_full).to_string(),
                    "capacity" => usz(both!(capacity)),
                    "isbounded" => both!(is_bounded).to_string(),
                    "scount" => format!("n{}", both!(sender_count)),
                    "rcount" => format!("n{}", both!(receiver_count)),
                    "isclosed" => both!(is_closed).to_string(),
                    "isdisc" => both!(is_disconnected).to_string(),
                    "isterm" => {
                        if av { self.r().asy().is_terminated() } else { self.r().sy().is_terminated() }.to_string()
                    }
                    _ => panic!("unknown op {}", name),
                }
            }
        }
    }

    fn step(&mut self, s: &'static Sched, op: &str) {
        s.call(op);
        let toks: Vec<&str> = op.split_whitespace().collect();
        let r = catch_unwind(AssertUnwindSafe(|| self.op(&toks)));
        let r = r.unwrap_or_else(|_| "panic".to_string());
        s.ret(&r);
    }

    /// Automatic teardown at the end of the op list: futures first (they
    /// borrow handle 0), then the handles, newest first.
    fn teardown(&mut self, s: &'static Sched) {
        let sf: Vec<u32> = self.sf.keys().copied().collect();
        for f in sf {
            self.step(s, &format!("dropsf {}", f));
        }
        let rf: Vec<u32> = self.rf.keys().copied().collect();
        for f in rf {
            self.step(s, &format!("droprf {}", f));
        }
        while !self.sh.is_empty() {
            self.step(s, "drop s");
        }
        while !self.rh.is_empty() {
            self.step(s, "drop r");
        }
    }
}

fn run_class<T: Payload>(p: &Program, s: &'static Sched) -> RunResult {
    let n = p.threads.len();
    // main is not a logical thread: this set-up is neither scheduled nor logged
    let (s0, r0) = match p.cap {
        Some(c) => bounded::<T>(c),
        None => unbounded::<T>(),
    };
    let mut handles: Vec<(Sender<T>, Receiver<T>)> = (1..n).map(|_| (s0.clone(), r0.clone())).collect();
    handles.insert(0, (s0, r0));
    let mut joins = vec![];
    let flav = p.flav;
    for (me, (sx, rx)) in handles.into_iter().enumerate() {
        let ops = p.threads[me].clone();
        let j = std::thread::Builder::new()
            .name(format!("t{}", me))
            .spawn(move || {
                s.enter(me);
                let body = catch_unwind(AssertUnwindSafe(|| {
                    let mut w = World::<T> {
                        sh: vec![Box::new(if flav.0 { SH::A(sx.to_async()) } else { SH::S(sx) })],
                        rh: vec![Box::new(if flav.1 { RH::A(rx.to_async()) } else { RH::S(rx) })],
                        sf: BTreeMap::new(),
                        rf: BTreeMap::new(),
                        n_created: 0,
                        n_received: 0,
                    };
                    for op in &ops {
                        w.step(s, op);
                    }
                    w.teardown(s);
                }));
                if body.is_err() {
                    s.fatal(&format!("t{} died outside an op", me));
                }
                s.leave();
            })
            .expect("spawn");
        joins.push(j);
    }
    let res = s.run();
    if res.end == super::sched::EndKind::Done {
        for j in joins {
            let _ = j.join();
        }
    }
    res
}

/// Runs one program to its end (done, stuck or step limit) and returns the
/// records. On a run that did not end `Done` some OS threads stay blocked
/// inside kanal: the caller should print its verdicts and `process::exit`.
pub fn run(p: &Program) -> RunResult {
    let s: &'static Sched = Box::leak(Box::new(Sched::new(p)));
    CUR.set(s).ok().expect("one program per process");
    kanal::verif::set_runtime(s);
    let res = match p.class {
        'z' => run_class::<Z>(p, s),
        'b' => run_class::<B>(p, s),
        'l' => run_class::<L>(p, s),
        'p' => run_class::<P>(p, s),
        'q' => run_class::<Q>(p, s),
        _ => run_class::<W>(p, s),
    };
    kanal::verif::clear_runtime();
    res
}
