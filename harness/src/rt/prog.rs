//! Program files.
//!
//! ```text
//! cap=<n|u> class=<z|b|w|l> par=<1|4> seed=<u64> strategy=<…> [base=<random|pct:<d>>]
//!     [maxsteps=<n>] [tickp=<permille>] [spuriousp=<permille>] [pctlen=<n>]
//! t0: op;op;op
//! t1: op;op
//! [schedule: <entry> <entry> …]
//! ```
//! Blank lines and lines starting with `#` are ignored. The header may be
//! overridden key by key from the command line (`conc file.prog seed=7`).

use std::collections::VecDeque;

/// One entry of a schedule: what the scheduler decided at a scheduling point.
#[derive(Clone, Copy, Debug, PartialEq, Eq)]
pub enum Entry {
    /// this logical thread runs next
    Run(usize),
    /// the virtual clock was advanced to this value (`T<ns>`)
    Tick(u64),
    /// a spurious unpark of this parked thread was injected (`S<tid>`)
    Spurious(usize),
}

impl Entry {
    pub fn parse(s: &str) -> Result<Entry, String> {
        let bad = || format!("bad schedule entry `{}`", s);
        if let Some(r) = s.strip_prefix('T') {
            r.parse().map(Entry::Tick).map_err(|_| bad())
        } else if let Some(r) = s.strip_prefix('S') {
            r.parse().map(Entry::Spurious).map_err(|_| bad())
        } else {
            s.parse().map(Entry::Run).map_err(|_| bad())
        }
    }
    pub fn text(&self) -> String {
        match self {
            Entry::Run(t) => t.to_string(),
            Entry::Tick(ns) => format!("T{}", ns),
            Entry::Spurious(t) => format!("S{}", t),
        }
    }
}

pub fn parse_schedule(s: &str) -> Result<VecDeque<Entry>, String> {
    s.split_whitespace().map(Entry::parse).collect()
}

#[derive(Clone, Debug, PartialEq, Eq)]
pub enum Strategy {
    /// seeded random choice among the runnable threads; every thread draws a
    /// speed class (weight 1, 1, 32 or 1024) per run, so that some seeds let one
    /// thread run far ahead of the others (plain uniform choice never does)
    Random,
    /// uniform among the runnable threads
    Uniform,
    /// PCT with `d` priority change points
    Pct(u32),
    /// base strategy, but the thread that emits the k-th event of `kind`
    /// (optionally: counted for thread `tid` only) is frozen right after it
    After { kind: String, k: u64, tid: Option<usize> },
    /// follow `schedule:`
    Replay,
}

impl Strategy {
    pub fn parse(s: &str) -> Result<Strategy, String> {
        let parts: Vec<&str> = s.split(':').collect();
        let bad = || format!("bad strategy `{}`", s);
        match parts[0] {
            "random" if parts.len() == 1 => Ok(Strategy::Random),
            "uniform" if parts.len() == 1 => Ok(Strategy::Uniform),
            "replay" if parts.len() == 1 => Ok(Strategy::Replay),
            "pct" if parts.len() == 2 => parts[1].parse().map(Strategy::Pct).map_err(|_| bad()),
            "after" if (2..=4).contains(&parts.len()) => {
                let k = match parts.get(2) {
                    Some(x) => x.parse().map_err(|_| bad())?,
                    None => 1,
                };
                let tid = match parts.get(3) {
                    Some(x) => Some(x.strip_prefix('t').unwrap_or(x).parse().map_err(|_| bad())?),
                    None => None,
                };
                if k == 0 {
                    return Err(bad());
                }
                Ok(Strategy::After { kind: parts[1].to_string(), k, tid })
            }
            _ => Err(bad()),
        }
    }
    pub fn text(&self) -> String {
        match self {
            Strategy::Random => "random".into(),
            Strategy::Uniform => "uniform".into(),
            Strategy::Replay => "replay".into(),
            Strategy::Pct(d) => format!("pct:{}", d),
            Strategy::After { kind, k, tid } => match tid {
                Some(t) => format!("after:{}:{}:t{}", kind, k, t),
                None => format!("after:{}:{}", kind, k),
            },
        }
    }
}

#[derive(Clone, Debug)]
pub struct Program {
    /// `None` = unbounded
    pub cap: Option<usize>,
    pub class: char,
    pub par: usize,
    pub seed: u64,
    pub strategy: Strategy,
    /// strategy used by `after:` for its ordinary choices (`random` or `pct:<d>`)
    pub base: Strategy,
    pub maxsteps: u64,
    pub tickp: u32,
    pub spuriousp: u32,
    /// flavour of the handles every thread starts with: (senders async, receivers async); `flav=ss|sa|as|aa`, default `ss`
    pub flav: (bool, bool),
    /// PCT change points are drawn from steps `1..=pctlen`
    pub pctlen: u64,
    /// op texts per logical thread
    pub threads: Vec<Vec<String>>,
    pub schedule: VecDeque<Entry>,
}

impl Program {
    pub fn parse(text: &str, overrides: &[String]) -> Result<Program, String> {
        let mut p = Program {
            cap: Some(0),
            class: 'w',
            par: 1,
            seed: 1,
            strategy: Strategy::Random,
            base: Strategy::Random,
            maxsteps: 200_000,
            tickp: 10,
            spuriousp: 0,
            flav: (false, false),
            pctlen: 200,
            threads: vec![],
            schedule: VecDeque::new(),
        };
        let mut seen_header = false;
        for line in text.lines() {
            let line = line.trim();
            if line.is_empty() || line.starts_with('#') {
                continue;
            }
            if let Some(rest) = line.strip_prefix("schedule:") {
                p.schedule = parse_schedule(rest)?;
            } else if line.starts_with('t') && line.contains(':') && line[1..].split(':').next().unwrap().parse::<usize>().is_ok() {
                let (head, ops) = line.split_once(':').unwrap();
                let tid: usize = head[1..].parse().unwrap();
                if tid != p.threads.len() {
                    return Err(format!("thread lines must be t0, t1, … in order (got `{}`)", head));
                }
                p.threads.push(ops.split(';').map(|s| s.trim().to_string()).filter(|s| !s.is_empty()).collect());
            } else if !seen_header {
                seen_header = true;
                for kv in line.split_whitespace() {
                    p.set(kv)?;
                }
            } else {
                return Err(format!("unexpected line `{}`", line));
            }
        }
        for kv in overrides {
            p.set(kv)?;
        }
        if p.threads.is_empty() {
            return Err("no thread lines".into());
        }
        if matches!(p.base, Strategy::After { .. } | Strategy::Replay) {
            return Err("base must be random, uniform or pct:<d>".into());
        }
        Ok(p)
    }

    fn set(&mut self, kv: &str) -> Result<(), String> {
        let (k, v) = kv.split_once('=').ok_or_else(|| format!("expected key=value, got `{}`", kv))?;
        let num = |v: &str| v.parse::<u64>().map_err(|_| format!("bad number in `{}`", kv));
        match k {
            "cap" => self.cap = if v == "u" { None } else { Some(num(v)? as usize) },
            "class" => {
                self.class = match v {
                    "z" | "b" | "w" | "l" | "p" | "q" => v.chars().next().unwrap(),
                    _ => return Err(format!("bad class `{}`", v)),
                }
            }
            "par" => self.par = num(v)?.max(1) as usize,
            "seed" => self.seed = num(v)?,
            "strategy" => self.strategy = Strategy::parse(v)?,
            "base" => self.base = Strategy::parse(v)?,
            "maxsteps" => self.maxsteps = num(v)?,
            "tickp" => self.tickp = num(v)? as u32,
            "spuriousp" => self.spuriousp = num(v)? as u32,
            "flav" => {
                let b = v.as_bytes();
                if b.len() != 2 || !b.iter().all(|c| *c == b's' || *c == b'a') {
                    return Err(format!("bad flav `{}`", v));
                }
                self.flav = (b[0] == b'a', b[1] == b'a');
            }
            "pctlen" => self.pctlen = num(v)?.max(1),
            "schedule" => self.schedule = parse_schedule(&v.replace(',', " "))?,
            _ => return Err(format!("unknown key `{}`", k)),
        }
        Ok(())
    }

    pub fn header(&self) -> String {
        let cap = match self.cap {
            Some(n) => n.to_string(),
            None => "u".into(),
        };
        let mut h = format!(
            "cap={} class={} par={} threads={} seed={} strategy={}",
            cap,
            self.class,
            self.par,
            self.threads.len(),
            self.seed,
            self.strategy.text()
        );
        if matches!(self.strategy, Strategy::After { .. }) && self.base != Strategy::Random {
            h.push_str(&format!(" base={}", self.base.text()));
        }
        h
    }
}
