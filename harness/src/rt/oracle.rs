//! Implementation-side oracles. Each one is a function from the records of a
//! run to a verdict; they share nothing with the scheduler or with any model.

use super::event::{Ev, Rec};
use super::prog::Program;
use super::sched::EndKind;
use kanal::verif::Event;
use std::collections::{BTreeMap, HashMap};

pub struct Verdict {
    pub name: &'static str,
    /// `None` = ok, `Some(detail)` = FAIL
    pub fail: Option<String>,
}

impl Verdict {
    pub fn text(&self) -> String {
        match &self.fail {
            None => format!("O {} ok", self.name),
            Some(d) => format!("O {} FAIL {}", self.name, d),
        }
    }
}

pub fn run_all(p: &Program, log: &[Rec], end: EndKind) -> Vec<Verdict> {
    vec![
        Verdict { name: "ledger", fail: ledger(p, log, end) },
        Verdict { name: "stuck", fail: stuck(log, end) },
        Verdict { name: "lifetime", fail: lifetime(log) },
        Verdict { name: "timeout", fail: timeout(log) },
    ]
}

/// The op a thread is executing at each record: (index of its `call` record, tokens).
fn calls(log: &[Rec]) -> Vec<Option<(usize, Vec<String>)>> {
    let mut cur: HashMap<usize, (usize, Vec<String>)> = HashMap::new();
    let mut out = Vec::with_capacity(log.len());
    for (i, r) in log.iter().enumerate() {
        if let (Some(t), Ev::Call(s)) = (r.tid, &r.ev) {
            cur.insert(t, (i, s.split_whitespace().map(|x| x.to_string()).collect()));
        }
        out.push(r.tid.and_then(|t| cur.get(&t).cloned()));
    }
    out
}

/// Tag created by a send-like op.
fn created_tag(toks: &[String]) -> Option<u32> {
    let i = match toks.first().map(|s| s.as_str()) {
        Some("send") | Some("sendt") | Some("sendot") | Some("try") => 1,
        Some("asend") => 2,
        _ => return None,
    };
    toks.get(i).and_then(|s| s.parse().ok())
}

/// Tags delivered by a result text (`v<tag>`, `drained <n> [<tags>]`).
fn received_tags(res: &str) -> Vec<u32> {
    let first = res.split_whitespace().next().unwrap_or("");
    if let Some(t) = first.strip_prefix('v') {
        return t.parse().ok().into_iter().collect();
    }
    if first == "drained" {
        if let (Some(a), Some(b)) = (res.find('['), res.find(']')) {
            return res[a + 1..b].split(',').filter_map(|s| s.trim().parse().ok()).collect();
        }
    }
    vec![]
}

// ---- ledger -------------------------------------------------------------------------
//
// Every tag created by a send-like op ends in exactly one way: received by one
// receive-like op, kept by an Option call, or destroyed (`pdrop`) once.
// Zero-sized payloads all carry tag 0, so for class z only the totals are compared.

fn ledger(p: &Program, log: &[Rec], end: EndKind) -> Option<String> {
    let ctx = calls(log);
    let mut created: BTreeMap<u32, usize> = BTreeMap::new();
    let mut received: BTreeMap<u32, usize> = BTreeMap::new();
    let mut kept: BTreeMap<u32, usize> = BTreeMap::new();
    let mut dropped: BTreeMap<u32, usize> = BTreeMap::new();
    for (i, r) in log.iter().enumerate() {
        match &r.ev {
            Ev::Call(_) => {
                if let Some(t) = ctx[i].as_ref().and_then(|c| created_tag(&c.1)) {
                    *created.entry(t).or_default() += 1;
                }
            }
            Ev::Ret(res) => {
                for t in received_tags(res) {
                    *received.entry(t).or_default() += 1;
                }
                if res.ends_with(" kept") {
                    if let Some(t) = ctx[i].as_ref().and_then(|c| created_tag(&c.1)) {
                        *kept.entry(t).or_default() += 1;
                    }
                }
            }
            Ev::PDrop(t) => *dropped.entry(*t).or_default() += 1,
            _ => {}
        }
    }
    let get = |m: &BTreeMap<u32, usize>, t: u32| m.get(&t).copied().unwrap_or(0);
    let mut bad = vec![];
    if p.class == 'p' || p.class == 'q' {
        // no drop glue: destruction is not observable; a value may still not be received twice or invented
        for (&t, &c) in &created {
            let (r, k) = (get(&received, t), get(&kept, t));
            if r + k > c {
                bad.push(format!("duplicate of tag {} (created {} received {} kept {})", t, c, r, k));
            }
        }
        for (&t, _) in received.iter() {
            if get(&created, t) == 0 {
                bad.push(format!("tag {} was never sent", t));
            }
        }
    } else if p.class == 'z' {
        let c: usize = created.values().sum();
        let a: usize = received.values().sum::<usize>() + kept.values().sum::<usize>() + dropped.values().sum::<usize>();
        if a > c {
            bad.push(format!("zst: {} ends for {} values", a, c));
        }
        if a < c && end == EndKind::Done {
            bad.push(format!("zst: leak, {} ends for {} values", a, c));
        }
    } else {
        for (&t, &c) in &created {
            let (r, k, d) = (get(&received, t), get(&kept, t), get(&dropped, t));
            if r + k + d > c {
                let what = if d > 1 || (d >= 1 && r + k >= 1) { "double drop" } else { "duplicate" };
                bad.push(format!("{} of tag {} (created {} received {} kept {} dropped {})", what, t, c, r, k, d));
            } else if r + k + d < c && end == EndKind::Done {
                bad.push(format!("leak of tag {} (created {} received {} kept {} dropped {})", t, c, r, k, d));
            }
        }
        for (&t, _) in received.iter().chain(dropped.iter()) {
            if get(&created, t) == 0 && !bad.iter().any(|b: &String| b.contains(&format!("tag {} ", t))) {
                bad.push(format!("tag {} was never sent", t));
            }
        }
    }
    if bad.is_empty() {
        None
    } else {
        Some(bad.join("; "))
    }
}

// ---- stuck --------------------------------------------------------------------------

fn stuck(log: &[Rec], end: EndKind) -> Option<String> {
    match end {
        EndKind::Done => None,
        EndKind::Limit => Some("step limit reached".into()),
        EndKind::Fatal => Some("harness thread died".into()),
        EndKind::Stuck => {
            let who = log.iter().rev().find_map(|r| match &r.ev {
                Ev::Stuck(ts) => Some(ts.iter().map(|t| format!("t{}", t)).collect::<Vec<_>>().join(" ")),
                _ => None,
            });
            Some(format!("blocked: {}", who.unwrap_or_default()))
        }
    }
}

// ---- lifetime -------------------------------------------------------------------------
//
// Tracks the state word of every signal by raw address. `dead A` ends a
// lifetime. Accesses are of two kinds: *owner-type* (`ld`, the owner's
// `cas 2 3`, `dead`) and *peer-type* (`st`, any other `cas`). After `dead A` an
// owner-type access starts a new lifetime at the same address (stack slot or
// heap block reused). A peer-type access by thread Y at a dead address can only
// be legitimate if a new signal was published there by some thread Z and then
// taken by Y, before Z touched it itself. Both steps need the lock, so it is
// accepted iff there is a Z such that, between the `dead` and the access,
//   * Z passed `guard` and Y passed `guard` after that (Z = Y: Y passed it twice,
//     e.g. `close` by the thread that owns a pending future), and
//   * the next access of Z to A after this one is owner-type (Z then treats A
//     as its own live signal), or Z has none and the run ended before Z was done.
// Anything else is reported as a use after the end of the signal.
// Limit: only the state word is tracked, not the pointer word or the waker cell
// of the same signal.

/// (address, owner-type?) of an access to a signal state word
fn state_access(ev: &Ev) -> Option<(usize, bool)> {
    match ev {
        Ev::K(Event::Load { addr, .. }) | Ev::K(Event::Dead { addr }) => Some((*addr, true)),
        Ev::K(Event::Cas { addr, expected: 2, new: 3, .. }) => Some((*addr, true)),
        Ev::K(Event::Store { addr, .. }) | Ev::K(Event::Cas { addr, .. }) => Some((*addr, false)),
        _ => None,
    }
}

fn peer_access_legit(log: &[Rec], dead_at: usize, i: usize, y: usize, a: usize) -> bool {
    let guards: Vec<usize> = log[dead_at + 1..i]
        .iter()
        .filter(|r| matches!(r.ev, Ev::K(Event::Guard)))
        .filter_map(|r| r.tid)
        .collect();
    let last_y = guards.iter().rposition(|&t| t == y);
    let mut cands: Vec<usize> = vec![];
    if let Some(ly) = last_y {
        for &z in &guards[..ly] {
            if !cands.contains(&z) {
                cands.push(z); // includes y itself iff y passed `guard` at least twice
            }
        }
    }
    cands.into_iter().any(|z| {
        let next = log[i + 1..].iter().find(|r| r.tid == Some(z) && matches!(state_access(&r.ev), Some((x, _)) if x == a));
        match next {
            Some(r) => state_access(&r.ev).unwrap().1,
            None => !log.iter().any(|r| r.tid == Some(z) && matches!(r.ev, Ev::Done)),
        }
    })
}

fn lifetime(log: &[Rec]) -> Option<String> {
    // address -> index of the `dead` record while no new lifetime has begun
    let mut dead: HashMap<usize, usize> = HashMap::new();
    for (i, r) in log.iter().enumerate() {
        let (Some(t), Some((addr, owner_type))) = (r.tid, state_access(&r.ev)) else { continue };
        if matches!(r.ev, Ev::K(Event::Dead { .. })) {
            dead.insert(addr, i);
            continue;
        }
        if let Some(&at) = dead.get(&addr) {
            if !owner_type && !peer_access_legit(log, at, i, t, addr) {
                return Some(format!(
                    "line {}: `{}` is an access to a signal state word after its `dead` (line {}: `{}`)",
                    i + 2,
                    r.text(),
                    at + 2,
                    log[at].text()
                ));
            }
            dead.remove(&addr);
        }
    }
    None
}

// ---- timeout ----------------------------------------------------------------------------
//
// A timed call may return `err:Timeout` only when the virtual clock has reached
// (first `now` read by the call) + duration.

fn timeout(log: &[Rec]) -> Option<String> {
    // per thread: (duration, first `now` inside the call)
    let mut cur: HashMap<usize, (u64, Option<u64>)> = HashMap::new();
    for (i, r) in log.iter().enumerate() {
        let Some(t) = r.tid else { continue };
        match &r.ev {
            Ev::Call(s) => {
                let toks: Vec<&str> = s.split_whitespace().collect();
                let d = match toks.first().copied() {
                    Some("sendt") | Some("sendot") => toks.get(2),
                    Some("recvt") => toks.get(1),
                    _ => None,
                };
                match d.and_then(|d| d.parse::<u64>().ok()) {
                    Some(d) => cur.insert(t, (d, None)),
                    None => cur.remove(&t),
                };
            }
            Ev::Now(ns) => {
                if let Some(c) = cur.get_mut(&t) {
                    c.1.get_or_insert(*ns);
                }
            }
            Ev::Ret(res) => {
                if let Some((d, start)) = cur.remove(&t) {
                    if res.starts_with("err:Timeout") {
                        let deadline = start.map(|s| s.saturating_add(d));
                        match deadline {
                            Some(dl) if r.clock >= dl => {}
                            Some(dl) => {
                                return Some(format!(
                                    "line {}: t{} timed out at clock {} before its deadline {}",
                                    i + 2,
                                    t,
                                    r.clock,
                                    dl
                                ))
                            }
                            None => return Some(format!("line {}: t{} timed out without reading the clock", i + 2, t)),
                        }
                    }
                }
            }
            _ => {}
        }
    }
    None
}
