//! The scheduler: logical threads are OS threads passing a baton, so exactly
//! one of them runs at any time. It implements `kanal::verif::Runtime`; every
//! call of the façade is a scheduling point followed by one event record.
//!
//! Everything here uses the real `std` primitives.

use super::event::{Ev, Rec};
use super::prog::{Entry, Program, Strategy};
use kanal::verif::{Event, Runtime};
use std::cell::Cell;
use std::collections::{HashMap, VecDeque};
use std::sync::{Condvar, Mutex, MutexGuard};

/// Steps without a non-spin event after which the scheduler intervenes
/// (forced clock tick past the earliest pending deadline, else thaw).
pub const SPIN_LIMIT: u64 = 2000;

thread_local! {
    static TID: Cell<Option<usize>> = const { Cell::new(None) };
}

/// Logical thread id of the calling OS thread.
pub fn tid() -> Option<usize> {
    TID.with(|t| t.get())
}

pub struct Rng(u64);
impl Rng {
    pub fn new(seed: u64) -> Rng {
        // splitmix step so that small seeds give unrelated streams
        let mut z = seed.wrapping_add(0x9E37_79B9_7F4A_7C15);
        z = (z ^ (z >> 30)).wrapping_mul(0xBF58_476D_1CE4_E5B9);
        z = (z ^ (z >> 27)).wrapping_mul(0x94D0_49BB_1331_11EB);
        z ^= z >> 31;
        Rng(if z == 0 { 0x2545_F491_4F6C_DD1D } else { z })
    }
    pub fn next(&mut self) -> u64 {
        let mut x = self.0;
        x ^= x >> 12;
        x ^= x << 25;
        x ^= x >> 27;
        self.0 = x;
        x.wrapping_mul(0x2545_F491_4F6C_DD1D)
    }
    pub fn below(&mut self, n: u64) -> u64 {
        (self.next() >> 11) % n.max(1)
    }
    pub fn permille(&mut self, p: u32) -> bool {
        p > 0 && self.below(1000) < p as u64
    }
}

#[derive(Clone, Copy, Debug, PartialEq, Eq)]
enum Status {
    Runnable,
    Parked,
    Done,
}

struct Th {
    status: Status,
    /// park token
    token: bool,
    /// how the last park ended
    woke_by_token: bool,
    /// `after:` froze this thread
    frozen: bool,
    /// deadline computed by the running call (cleared at `ret`)
    deadline: Option<u64>,
    /// PCT priority
    prio: i64,
    /// weight of the `random` strategy
    weight: u64,
}

#[derive(Clone, Copy, Debug, PartialEq, Eq)]
pub enum EndKind {
    /// every logical thread finished
    Done,
    /// no runnable thread
    Stuck,
    /// `maxsteps` exceeded
    Limit,
    /// a logical thread died outside an op (harness bug)
    Fatal,
}

struct State {
    th: Vec<Th>,
    running: Option<usize>,
    clock: u64,
    step: u64,
    since_progress: u64,
    rng: Rng,
    log: Vec<Rec>,
    taken: Vec<Entry>,
    replay: Option<VecDeque<Entry>>,
    atoms: HashMap<usize, u32>,
    next_atom: u32,
    cells: HashMap<usize, u32>,
    after_seen: u64,
    pct_d: u32,
    pct_points: Vec<u64>,
    pct_low: i64,
    /// live waker instances made by `clone`: (inst, w, cloning thread)
    wakers: Vec<(u32, u32, usize)>,
    next_inst: u32,
    finished: Option<EndKind>,
}

pub struct RunResult {
    pub log: Vec<Rec>,
    pub schedule: Vec<Entry>,
    pub end: EndKind,
}

pub struct Sched {
    st: Mutex<State>,
    cvs: Vec<Condvar>,
    main_cv: Condvar,
    par: usize,
    maxsteps: u64,
    tickp: u32,
    spuriousp: u32,
    strategy: Strategy,
    /// strategy of the ordinary choices (differs from `strategy` only for `after:`)
    base: Strategy,
    /// `CONC_STREAM` is set: also write every record to stderr at once, so that
    /// the trace survives a crash of the process
    stream: bool,
}

type Guard<'a> = MutexGuard<'a, State>;

impl Sched {
    pub fn new(p: &Program) -> Sched {
        let n = p.threads.len();
        let mut rng = Rng::new(p.seed);
        let base = match &p.strategy {
            Strategy::After { .. } => p.base.clone(),
            Strategy::Replay => Strategy::Random,
            s => s.clone(),
        };
        let mut th: Vec<Th> = (0..n)
            .map(|_| Th {
                status: Status::Runnable,
                token: false,
                woke_by_token: false,
                frozen: false,
                deadline: None,
                prio: 0,
                weight: 1,
            })
            .collect();
        if base == Strategy::Random {
            for t in th.iter_mut() {
                t.weight = [1, 1, 32, 1024][rng.below(4) as usize];
            }
        }
        let mut pct_d = 0;
        let mut pct_points = vec![];
        if let Strategy::Pct(d) = base {
            pct_d = d;
            // distinct random priorities d+1 ..= d+n
            let mut prios: Vec<i64> = (0..n as i64).map(|i| d as i64 + 1 + i).collect();
            for i in (1..n).rev() {
                let j = rng.below(i as u64 + 1) as usize;
                prios.swap(i, j);
            }
            for (t, p) in th.iter_mut().zip(prios) {
                t.prio = p;
            }
            pct_points = (0..d).map(|_| 1 + rng.below(p.pctlen)).collect();
        }
        Sched {
            st: Mutex::new(State {
                th,
                running: None,
                clock: 0,
                step: 0,
                since_progress: 0,
                rng,
                log: vec![],
                taken: vec![],
                replay: if p.strategy == Strategy::Replay { Some(p.schedule.clone()) } else { None },
                atoms: HashMap::new(),
                next_atom: 0,
                cells: HashMap::new(),
                after_seen: 0,
                pct_d,
                pct_points,
                pct_low: 0,
                wakers: vec![],
                next_inst: 0,
                finished: None,
            }),
            cvs: (0..n).map(|_| Condvar::new()).collect(),
            main_cv: Condvar::new(),
            par: p.par,
            maxsteps: p.maxsteps,
            tickp: p.tickp,
            spuriousp: p.spuriousp,
            strategy: p.strategy.clone(),
            base,
            stream: std::env::var_os("CONC_STREAM").is_some(),
        }
    }

    fn lock(&self) -> Guard<'_> {
        self.st.lock().unwrap_or_else(|e| e.into_inner())
    }

    // ---- logging --------------------------------------------------------------

    fn push(&self, st: &mut State, tid: Option<usize>, ev: Ev) {
        let mut obj = None;
        if let Ev::K(e) = &ev {
            match *e {
                Event::Load { addr, .. } | Event::Store { addr, .. } | Event::Cas { addr, .. } => {
                    obj = Some(atom_id(st, addr));
                }
                Event::Dead { addr } => {
                    obj = Some(atom_id(st, addr));
                    st.atoms.remove(&addr);
                }
                Event::Cell { addr } | Event::Ptr { addr, .. } => {
                    let n = st.cells.len() as u32;
                    obj = Some(*st.cells.entry(addr).or_insert(n));
                }
                _ => {}
            }
        }
        if let Some(t) = tid {
            if !ev.is_spin() {
                st.since_progress = 0;
            }
            // PCT: a thread that yields gets the lowest priority
            if matches!(ev, Ev::K(Event::Yield) | Ev::K(Event::Sleep { .. })) && matches!(self.base, Strategy::Pct(_)) {
                st.pct_low -= 1;
                st.th[t].prio = st.pct_low;
            }
            if let Strategy::After { kind, k, tid: only } = &self.strategy {
                if ev.kind() == kind && only.map_or(true, |o| o == t) {
                    st.after_seen += 1;
                    if st.after_seen == *k {
                        st.th[t].frozen = true;
                    }
                }
            }
        }
        let rec = Rec { tid, step: st.step, clock: st.clock, obj, ev };
        if self.stream {
            eprintln!("{}", rec.text());
        }
        st.log.push(rec);
    }

    // ---- choosing who runs ------------------------------------------------------

    fn set_clock(&self, st: &mut State, ns: u64) {
        st.clock = ns;
        st.taken.push(Entry::Tick(ns));
        self.push(st, None, Ev::Tick(ns));
    }

    fn spurious(&self, st: &mut State, t: usize) {
        st.th[t].status = Status::Runnable;
        st.th[t].woke_by_token = false;
        st.taken.push(Entry::Spurious(t));
        self.push(st, None, Ev::Spurious(t));
    }

    /// One scheduling decision. `None` = nobody can run.
    fn pick(&self, st: &mut State) -> Option<usize> {
        if st.replay.is_some() {
            loop {
                let e = st.replay.as_mut().unwrap().pop_front();
                match e {
                    Some(Entry::Tick(ns)) => self.set_clock(st, ns.max(st.clock)),
                    Some(Entry::Spurious(t)) if t < st.th.len() && st.th[t].status == Status::Parked => {
                        self.spurious(st, t)
                    }
                    Some(Entry::Run(t)) if t < st.th.len() && st.th[t].status == Status::Runnable => {
                        st.taken.push(Entry::Run(t));
                        return Some(t);
                    }
                    None if st.th.iter().all(|t| t.status != Status::Runnable) => return None,
                    other => {
                        let why = match other {
                            None => "schedule exhausted".to_string(),
                            Some(e) => format!("entry {} not possible", e.text()),
                        };
                        self.push(st, None, Ev::Note(format!("diverged ({}), continuing with random", why)));
                        st.replay = None;
                        break;
                    }
                }
            }
        } else {
            if st.rng.permille(self.tickp) {
                let ns = st.clock + 1 + st.rng.below(500);
                self.set_clock(st, ns);
            }
            if self.spuriousp > 0 && st.rng.permille(self.spuriousp) {
                let parked: Vec<usize> = (0..st.th.len()).filter(|&t| st.th[t].status == Status::Parked).collect();
                if !parked.is_empty() {
                    let t = parked[st.rng.below(parked.len() as u64) as usize];
                    self.spurious(st, t);
                }
            }
        }
        if st.since_progress >= SPIN_LIMIT {
            // everybody who can run only spins: let time pass, or release frozen threads
            st.since_progress = 0;
            let clock = st.clock;
            let next_deadline =
                st.th.iter().filter(|t| t.status != Status::Done).filter_map(|t| t.deadline).filter(|&d| d >= clock).min();
            if let (Some(d), true) = (next_deadline, st.replay.is_none()) {
                self.set_clock(st, d + 1);
            } else {
                for t in st.th.iter_mut() {
                    t.frozen = false;
                }
            }
        }
        let runnable: Vec<usize> = (0..st.th.len()).filter(|&t| st.th[t].status == Status::Runnable).collect();
        if runnable.is_empty() {
            return None;
        }
        let mut cands: Vec<usize> = runnable.iter().copied().filter(|&t| !st.th[t].frozen).collect();
        if cands.is_empty() {
            // nothing else can run: the frozen threads come back
            for &t in &runnable {
                st.th[t].frozen = false;
            }
            cands = runnable;
        }
        let t = match self.base {
            Strategy::Pct(_) => *cands.iter().max_by_key(|&&t| st.th[t].prio).unwrap(),
            _ => {
                let total: u64 = cands.iter().map(|&t| st.th[t].weight).sum();
                let mut r = st.rng.below(total);
                let mut chosen = cands[0];
                for &t in &cands {
                    if r < st.th[t].weight {
                        chosen = t;
                        break;
                    }
                    r -= st.th[t].weight;
                }
                chosen
            }
        };
        st.taken.push(Entry::Run(t));
        Some(t)
    }

    /// Gives the baton to `next` and blocks until it comes back to `me`.
    fn switch_to<'a>(&'a self, mut st: Guard<'a>, me: usize, next: usize) -> Guard<'a> {
        if next != me {
            st.running = Some(next);
            self.cvs[next].notify_one();
            while st.running != Some(me) {
                st = self.cvs[me].wait(st).unwrap_or_else(|e| e.into_inner());
            }
        }
        st
    }

    /// Ends the run from a logical thread: wake `main`, never return.
    fn halt(&self, mut st: Guard<'_>, kind: EndKind) -> ! {
        if kind == EndKind::Stuck {
            let blocked: Vec<usize> = (0..st.th.len()).filter(|&t| st.th[t].status != Status::Done).collect();
            self.push(&mut st, None, Ev::Stuck(blocked));
        }
        st.finished = Some(kind);
        st.running = None;
        self.main_cv.notify_all();
        drop(st);
        loop {
            std::thread::park();
        }
    }

    fn point_locked<'a>(&'a self, mut st: Guard<'a>, me: usize) -> Guard<'a> {
        st.step += 1;
        st.since_progress += 1;
        if st.step > self.maxsteps {
            self.halt(st, EndKind::Limit);
        }
        if let Some(i) = st.pct_points.iter().position(|&s| s == st.step) {
            st.th[me].prio = st.pct_d as i64 - 1 - i as i64;
        }
        let next = self.pick(&mut st).expect("the running thread is runnable");
        self.switch_to(st, me, next)
    }

    /// Scheduling point followed by one harness-side event.
    pub fn emit(&self, ev: Ev) {
        let Some(me) = tid() else { return };
        let st = self.lock();
        let mut st = self.point_locked(st, me);
        self.push(&mut st, Some(me), ev);
    }

    // ---- logical thread life cycle -------------------------------------------------

    /// First call of a logical thread's OS thread: blocks until it is scheduled.
    pub fn enter(&self, me: usize) {
        TID.with(|t| t.set(Some(me)));
        let mut st = self.lock();
        while st.running != Some(me) {
            st = self.cvs[me].wait(st).unwrap_or_else(|e| e.into_inner());
        }
    }

    /// Last call of a logical thread: logs `done` and passes the baton on.
    pub fn leave(&self) {
        let me = tid().expect("logical thread");
        let st = self.lock();
        let mut st = self.point_locked(st, me);
        self.push(&mut st, Some(me), Ev::Done);
        st.th[me].status = Status::Done;
        TID.with(|t| t.set(None));
        if st.th.iter().all(|t| t.status == Status::Done) {
            st.finished = Some(EndKind::Done);
            st.running = None;
            self.main_cv.notify_all();
            return;
        }
        match self.pick(&mut st) {
            Some(next) => {
                st.running = Some(next);
                self.cvs[next].notify_one();
            }
            None => self.halt(st, EndKind::Stuck),
        }
    }

    /// A logical thread died outside an op.
    pub fn fatal(&self, msg: &str) -> ! {
        let mut st = self.lock();
        self.push(&mut st, None, Ev::Note(format!("fatal {}", msg)));
        self.halt(st, EndKind::Fatal)
    }

    /// Called by the main thread once all OS threads are spawned: starts the
    /// run and waits for its end.
    pub fn run(&self) -> RunResult {
        let mut st = self.lock();
        match self.pick(&mut st) {
            Some(first) => {
                st.running = Some(first);
                self.cvs[first].notify_one();
            }
            None => st.finished = Some(EndKind::Done),
        }
        while st.finished.is_none() {
            st = self.main_cv.wait(st).unwrap_or_else(|e| e.into_inner());
        }
        let end = st.finished.unwrap();
        let steps = st.step;
        self.push(&mut st, None, Ev::End { steps, limit: end == EndKind::Limit });
        RunResult { log: std::mem::take(&mut st.log), schedule: std::mem::take(&mut st.taken), end }
    }

    // ---- harness-side events ---------------------------------------------------------

    pub fn call(&self, op: &str) {
        self.emit(Ev::Call(op.to_string()));
    }

    pub fn ret(&self, res: &str) {
        let Some(me) = tid() else { return };
        let st = self.lock();
        let mut st = self.point_locked(st, me);
        st.th[me].deadline = None;
        self.push(&mut st, Some(me), Ev::Ret(res.to_string()));
    }

    pub fn pdrop(&self, tag: u32) {
        self.emit(Ev::PDrop(tag));
    }

    pub fn waker_clone(&self, w: u32) {
        let Some(me) = tid() else { return };
        let st = self.lock();
        let mut st = self.point_locked(st, me);
        let inst = st.next_inst;
        st.next_inst += 1;
        st.wakers.push((inst, w, me));
        self.push(&mut st, Some(me), Ev::WClone { w, inst });
    }

    /// Wakers of one base id are indistinguishable (same data pointer, so that
    /// `will_wake` holds between them); the instance consumed is taken to be the
    /// newest live one cloned by the acting thread, else the oldest live one.
    fn take_inst(st: &mut State, w: u32, me: usize, remove: bool) -> Option<u32> {
        let pos = st
            .wakers
            .iter()
            .rposition(|&(_, ww, by)| ww == w && by == me)
            .or_else(|| st.wakers.iter().position(|&(_, ww, _)| ww == w))?;
        let inst = st.wakers[pos].0;
        if remove {
            st.wakers.remove(pos);
        }
        Some(inst)
    }

    pub fn waker_wake(&self, w: u32, by_ref: bool) {
        let Some(me) = tid() else { return };
        let st = self.lock();
        let mut st = self.point_locked(st, me);
        let inst = Self::take_inst(&mut st, w, me, !by_ref);
        self.push(&mut st, Some(me), Ev::WWake { inst, w });
    }

    pub fn waker_drop(&self, w: u32) {
        let Some(me) = tid() else { return };
        let st = self.lock();
        let mut st = self.point_locked(st, me);
        let inst = Self::take_inst(&mut st, w, me, true);
        self.push(&mut st, Some(me), Ev::WDrop { inst, w });
    }
}

fn atom_id(st: &mut State, addr: usize) -> u32 {
    if let Some(&id) = st.atoms.get(&addr) {
        return id;
    }
    let id = st.next_atom;
    st.next_atom += 1;
    st.atoms.insert(addr, id);
    id
}

impl Runtime for Sched {
    fn active(&self) -> bool {
        tid().is_some()
    }

    fn point(&self) {
        let Some(me) = tid() else { return };
        let st = self.lock();
        drop(self.point_locked(st, me));
    }

    fn event(&self, e: Event) {
        let Some(me) = tid() else { return };
        let mut st = self.lock();
        self.push(&mut st, Some(me), Ev::K(e));
    }

    fn park(&self) {
        let Some(me) = tid() else { return };
        let st = self.lock();
        let mut st = self.point_locked(st, me);
        self.push(&mut st, Some(me), Ev::Park);
        if st.th[me].token {
            st.th[me].token = false;
            self.push(&mut st, Some(me), Ev::Unparked { token: true });
            return;
        }
        st.th[me].status = Status::Parked;
        let next = match self.pick(&mut st) {
            Some(n) => n,
            None => self.halt(st, EndKind::Stuck),
        };
        let mut st = self.switch_to(st, me, next);
        let token = st.th[me].woke_by_token;
        self.push(&mut st, Some(me), Ev::Unparked { token });
    }

    fn unpark(&self, target: usize) {
        let mut st = match tid() {
            Some(me) => {
                let st = self.lock();
                self.point_locked(st, me)
            }
            None => self.lock(),
        };
        if target < st.th.len() {
            if st.th[target].status == Status::Parked {
                st.th[target].status = Status::Runnable;
                st.th[target].woke_by_token = true;
            } else {
                st.th[target].token = true;
            }
        }
        if let Some(me) = tid() {
            self.push(&mut st, Some(me), Ev::Unpark(target));
        }
    }

    fn current(&self) -> usize {
        let me = tid().expect("logical thread");
        self.emit(Ev::Cur);
        me
    }

    fn thread_clone(&self, t: usize) {
        self.emit(Ev::TClone(t));
    }

    fn thread_drop(&self, t: usize) {
        self.emit(Ev::TDrop(t));
    }

    fn now(&self) -> u64 {
        let Some(me) = tid() else { return 0 };
        let st = self.lock();
        let mut st = self.point_locked(st, me);
        let ns = st.clock;
        self.push(&mut st, Some(me), Ev::Now(ns));
        ns
    }

    fn deadline(&self, ns: u64) {
        if let Some(me) = tid() {
            self.lock().th[me].deadline = Some(ns);
        }
    }

    fn parallelism(&self) -> usize {
        self.par
    }
}
