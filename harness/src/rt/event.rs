//! Event records of a run and their one-line text form.

use kanal::verif::{Branch, Event, PtrOp};
use std::sync::atomic::Ordering;

pub fn ord(o: Ordering) -> &'static str {
    match o {
        Ordering::Relaxed => "rlx",
        Ordering::Acquire => "acq",
        Ordering::Release => "rel",
        Ordering::AcqRel => "acqrel",
        Ordering::SeqCst => "sc",
        _ => "?",
    }
}

#[derive(Clone, Debug)]
pub enum Ev {
    /// reported by the façade / hooks in kanal (raw addresses inside)
    K(Event),
    // runtime-owned operations
    Park,
    Unparked { token: bool },
    Unpark(usize),
    Now(u64),
    Cur,
    TClone(usize),
    TDrop(usize),
    // harness side
    Call(String),
    Ret(String),
    PDrop(u32),
    WClone { w: u32, inst: u32 },
    /// `inst == None`: no live instance of that waker was known
    WWake { inst: Option<u32>, w: u32 },
    WDrop { inst: Option<u32>, w: u32 },
    Done,
    // scheduler (tid = None)
    Tick(u64),
    Spurious(usize),
    Stuck(Vec<usize>),
    Note(String),
    End { steps: u64, limit: bool },
}

#[derive(Clone, Debug)]
pub struct Rec {
    /// acting logical thread, `None` for scheduler lines
    pub tid: Option<usize>,
    /// scheduling-point counter when the event was logged
    pub step: u64,
    /// virtual clock when the event was logged
    pub clock: u64,
    /// small id of the object (`a<n>` for atomics, `c<n>` for cells)
    pub obj: Option<u32>,
    pub ev: Ev,
}

impl Ev {
    /// First word of the text form; what `after:<kind>` matches.
    pub fn kind(&self) -> &'static str {
        match self {
            Ev::K(e) => match e {
                Event::Lock { .. } => "lock",
                Event::LockStore { val: false, .. } => "unlock",
                Event::LockStore { .. } => "lockst",
                Event::LockLoad { .. } => "lockld",
                Event::Guard => "guard",
                Event::Load { .. } => "ld",
                Event::Store { .. } => "st",
                Event::Cas { .. } => "cas",
                Event::Fence { .. } => "fence",
                Event::Dead { .. } => "dead",
                Event::Cell { .. } => "cell",
                Event::Ptr { op: PtrOp::Read, .. } => "pread",
                Event::Ptr { op: PtrOp::Write, .. } => "pwrite",
                Event::Ptr { op: PtrOp::Copy, .. } => "pcopy",
                Event::Yield => "yield",
                Event::Spin => "spin",
                Event::Sleep { .. } => "sleep",
                Event::Par { .. } => "par",
            },
            Ev::Park => "park",
            Ev::Unparked { .. } => "unparked",
            Ev::Unpark(_) => "unpark",
            Ev::Now(_) => "now",
            Ev::Cur => "cur",
            Ev::TClone(_) => "tclone",
            Ev::TDrop(_) => "tdrop",
            Ev::Call(_) => "call",
            Ev::Ret(_) => "ret",
            Ev::PDrop(_) => "pdrop",
            Ev::WClone { .. } => "wclone",
            Ev::WWake { .. } => "wwake",
            Ev::WDrop { .. } => "wdrop",
            Ev::Done => "done",
            Ev::Tick(_) => "tick",
            Ev::Spurious(_) => "spurious",
            Ev::Stuck(_) => "stuck",
            Ev::Note(_) => "note",
            Ev::End { .. } => "end",
        }
    }

    /// Events a thread produces while it only waits (busy loop): they do not
    /// count as progress for the "everybody spins" detection.
    pub fn is_spin(&self) -> bool {
        matches!(
            self,
            Ev::K(Event::Yield)
                | Ev::K(Event::Spin)
                | Ev::K(Event::Sleep { .. })
                | Ev::K(Event::Load { .. })
                | Ev::K(Event::Lock { ok: false, .. })
                | Ev::K(Event::Par { .. })
                | Ev::Now(_)
                | Ev::Park
                | Ev::Unparked { token: false }
        )
    }
}

fn inst(i: &Option<u32>) -> String {
    match i {
        Some(i) => i.to_string(),
        None => "x".into(),
    }
}

impl Rec {
    pub fn text(&self) -> String {
        let who = match self.tid {
            Some(t) => format!("t{}", t),
            None => "-".into(),
        };
        let a = || format!("a{}", self.obj.unwrap_or(u32::MAX));
        let c = || format!("c{}", self.obj.unwrap_or(u32::MAX));
        let body = match &self.ev {
            Ev::K(e) => match *e {
                Event::Lock { ok, succ, fail } => {
                    format!("lock {} {} {}", if ok { "ok" } else { "fail" }, ord(succ), ord(fail))
                }
                Event::LockStore { val: false, ord: o } => format!("unlock {}", ord(o)),
                Event::LockStore { val, ord: o } => format!("lockst {} {}", ord(o), val),
                Event::LockLoad { val, ord: o } => format!("lockld {} {}", ord(o), val),
                Event::Guard => "guard".into(),
                Event::Load { ord: o, val, .. } => format!("ld {} {} {}", a(), ord(o), val),
                Event::Store { ord: o, val, .. } => format!("st {} {} {}", a(), ord(o), val),
                Event::Cas { succ, fail, expected, new, ok, observed, .. } => format!(
                    "cas {} {} {} {} {} {} {}",
                    a(),
                    ord(succ),
                    ord(fail),
                    expected,
                    new,
                    if ok { "ok" } else { "fail" },
                    observed
                ),
                Event::Fence { ord: o } => format!("fence {}", ord(o)),
                Event::Dead { .. } => format!("dead {}", a()),
                Event::Cell { .. } => format!("cell {}", c()),
                Event::Ptr { op, branch, size, .. } => format!(
                    "{} {} {} {}",
                    match op {
                        PtrOp::Read => "pread",
                        PtrOp::Write => "pwrite",
                        PtrOp::Copy => "pcopy",
                    },
                    c(),
                    match branch {
                        Branch::Zst => "zst",
                        Branch::Inline => "inline",
                        Branch::Indirect => "indirect",
                    },
                    size
                ),
                Event::Yield => "yield".into(),
                Event::Spin => "spin".into(),
                Event::Sleep { ns } => format!("sleep {}", ns),
                Event::Par { n } => format!("par {}", n),
            },
            Ev::Park => "park".into(),
            Ev::Unparked { token } => format!("unparked {}", if *token { "token" } else { "spurious" }),
            Ev::Unpark(t) => format!("unpark t{}", t),
            Ev::Now(ns) => format!("now {}", ns),
            Ev::Cur => "cur".into(),
            Ev::TClone(t) => format!("tclone t{}", t),
            Ev::TDrop(t) => format!("tdrop t{}", t),
            Ev::Call(s) => format!("call {}", s),
            Ev::Ret(s) => format!("ret {}", s),
            Ev::PDrop(t) => format!("pdrop {}", t),
            Ev::WClone { w, inst } => format!("wclone {} {}", w, inst),
            Ev::WWake { inst: i, w } => format!("wwake {} {}", inst(i), w),
            Ev::WDrop { inst: i, w } => format!("wdrop {} {}", inst(i), w),
            Ev::Done => "done".into(),
            Ev::Tick(ns) => format!("tick {}", ns),
            Ev::Spurious(t) => format!("spurious t{}", t),
            Ev::Stuck(ts) => {
                format!("stuck {}", ts.iter().map(|t| format!("t{}", t)).collect::<Vec<_>>().join(" "))
            }
            Ev::Note(s) => s.clone(),
            Ev::End { steps, limit } => format!("end steps={}{}", steps, if *limit { " LIMIT" } else { "" }),
        };
        format!("{} {}", who, body)
    }
}
