/-
  Kanal.Shape — the buffer discipline: every critical section of every `Fine` tree (and of the translated code) changes
  the buffer only by popping a prefix and appending a suffix, and makes it longer only by ONE message, at the tail,
  while `len < capacity` (`QStep`).  Derived from `Sections.fine_sections` (`ChanStep`) + one lemma per `Chan` function.
  No hypothesis on the bound state is needed.  Consequence: `queue.length ≤ capacity` is an invariant of every execution.
-/
import Kanal.Machine
import Kanal.Sections
import Kanal.TieCode

namespace Kanal
namespace Shape
open Chan Machine

def QStep (b p : Chan) : Prop :=
  ∃ took rest put, b.queue = took ++ rest ∧ p.queue = rest ++ put ∧
    (b.queue.length < p.queue.length → put.length = 1 ∧ took = [] ∧ Cap.lenLt b.queue.length b.capacity = true) ∧
    p.capacity = b.capacity

/-- `queue.length ≤ capacity` -/
def CapOK (c : Chan) : Prop := ∀ k, c.capacity = some k → c.queue.length ≤ k

theorem qstep_len {b p : Chan} (h : QStep b p) (hb : ∀ k, b.capacity = some k → b.queue.length ≤ k) :
    ∀ k, p.capacity = some k → p.queue.length ≤ k := by
  obtain ⟨took, rest, put, h1, h2, h3, h4⟩ := h
  intro k hk
  rw [h4] at hk
  have := hb k hk
  by_cases hl : b.queue.length < p.queue.length
  · obtain ⟨_, _, h5⟩ := h3 hl
    have h6 : p.queue.length = b.queue.length + 1 := by simp_all
    simp [Cap.lenLt, hk] at h5
    omega
  · omega

/-! ### the shapes -/

theorem qstep_same {b p : Chan} (hq : p.queue = b.queue) (hc : p.capacity = b.capacity) : QStep b p :=
  ⟨[], b.queue, [], rfl, by simp [hq], by simp [hq], hc⟩

theorem qstep_push {b p : Chan} {m : Msg} (hq : p.queue = b.queue ++ [m]) (hc : p.capacity = b.capacity)
    (hr : Cap.lenLt b.queue.length b.capacity = true) : QStep b p :=
  ⟨[], b.queue, [m], rfl, hq, fun _ => ⟨rfl, rfl, hr⟩, hc⟩

theorem qstep_shrink {b p : Chan} {took rest put : List Msg} (h1 : b.queue = took ++ rest) (h2 : p.queue = rest ++ put)
    (hl : put.length ≤ took.length) (hc : p.capacity = b.capacity) : QStep b p :=
  ⟨took, rest, put, h1, h2, fun h => by simp [h1, h2] at h; omega, hc⟩

theorem nextRecv_q (c : Chan) : c.nextRecv.1.queue = c.queue ∧ c.nextRecv.1.capacity = c.capacity := by
  unfold Chan.nextRecv; split; simp; split <;> simp
theorem nextSend_q (c : Chan) : c.nextSend.1.queue = c.queue ∧ c.nextSend.1.capacity = c.capacity := by
  unfold Chan.nextSend; split; simp; split <;> simp

/-! ### one lemma per `Chan` function -/

theorem sendPre_shape (b : Chan) (m : Msg) :
    ((b.sendPre m).1.queue = b.queue ∨
      ((b.sendPre m).1.queue = b.queue ++ [m] ∧ Cap.lenLt b.queue.length b.capacity = true)) ∧
    (b.sendPre m).1.capacity = b.capacity := by
  unfold Chan.sendPre
  split
  · simp
  · have hn := nextRecv_q b
    split
    · rename_i c1 f h; rw [h] at hn; exact ⟨Or.inl hn.1, hn.2⟩
    · rename_i c1 h; rw [h] at hn; simp only at hn
      split
      · rename_i hr
        rw [Chan.hasRoom_eq, hn.1, hn.2] at hr
        exact ⟨Or.inr ⟨by simp [hn.1], hr⟩, hn.2⟩
      · exact ⟨Or.inl hn.1, hn.2⟩

theorem qstep_sendPre (b : Chan) (m : Msg) : QStep b (b.sendPre m).1 := by
  obtain ⟨h | ⟨h, hr⟩, hc⟩ := sendPre_shape b m
  · exact qstep_same h hc
  · exact qstep_push h hc hr

theorem qstep_sendCS (b : Chan) (m : Msg) (me : SigId) : QStep b (b.sendCS m me).1 := by
  have := qstep_sendPre b m
  unfold Chan.sendCS
  rcases hp : b.sendPre m with ⟨c1, br⟩
  rw [hp] at this
  cases br <;> simpa [Chan.pushWaiter, QStep] using this

theorem qstep_recvPre (b : Chan) (slot : SigId → Msg) (t e : Bool) : QStep b (b.recvPre slot t e).1 := by
  unfold Chan.recvPre
  split
  · exact qstep_same rfl rfl
  · split
    · rename_i v q hq
      have hn := nextSend_q { b with queue := q }
      split
      · rename_i c1 s h; rw [h] at hn; simp only at hn
        exact qstep_shrink (took := [v]) (rest := q) (put := [slot s]) hq (by simp [hn.1]) (by simp) hn.2
      · rename_i c1 h; rw [h] at hn; simp only at hn
        exact qstep_shrink (took := [v]) (rest := q) (put := []) hq (by simp [hn.1]) (by simp) hn.2
    · have hn := nextSend_q b
      split
      · rename_i c1 s h; rw [h] at hn; exact qstep_same hn.1 hn.2
      · rename_i c1 h; rw [h] at hn
        split
        · exact qstep_same hn.1 hn.2
        · split <;> exact qstep_same hn.1 hn.2

theorem qstep_recvCS (b : Chan) (slot : SigId → Msg) (t e : Bool) (me : SigId) : QStep b (b.recvCS slot t e me).1 := by
  have := qstep_recvPre b slot t e
  unfold Chan.recvCS
  rcases hp : b.recvPre slot t e with ⟨c1, br⟩
  rw [hp] at this
  cases br <;> simpa [Chan.pushWaiter, QStep] using this

theorem qstep_cancel (b : Chan) (r : Role) (s : SigId) : QStep b (b.cancel r s).1 := by
  unfold Chan.cancel; split <;> exact qstep_same rfl rfl

theorem qstep_drain {b c1 : Chan} {q l n} (h : b.drainCS = some (c1, q, l, n)) : QStep b c1 := by
  unfold Chan.drainCS Chan.popAllSenders at h
  split at h
  · simp at h
  · split at h <;> simp at h <;> obtain ⟨rfl, _⟩ := h <;>
      exact qstep_shrink (took := b.queue) (rest := []) (put := []) (by simp) rfl (by simp) rfl

theorem qstep_close {b c1 : Chan} {l q} (h : b.closeCS = some (c1, l, q)) : QStep b c1 := by
  unfold Chan.closeCS at h
  split at h
  · simp at h
  · simp at h; obtain ⟨rfl, _⟩ := h
    exact qstep_shrink (took := b.queue) (rest := []) (put := []) (by simp) rfl (by simp) rfl

theorem qstep_clone (b : Chan) (side : Side) : QStep b (b.cloneCS side) := by
  unfold Chan.cloneCS; split <;> split <;> exact qstep_same rfl rfl

theorem qstep_drop (b : Chan) (side : Side) : QStep b (b.dropCS side).1 := by
  unfold Chan.dropCS Chan.terminateAll
  split <;> split <;> (try (simp only; split)) <;> exact qstep_same rfl rfl

theorem qstep_chanStep {b p : Chan} (h : ChanStep b p) : QStep b p := by
  cases h with
  | id => exact qstep_same rfl rfl
  | sendPre => exact qstep_sendPre _ _
  | sendCS => exact qstep_sendCS _ _ _
  | recvPre => exact qstep_recvPre _ _ _ _
  | recvCS => exact qstep_recvCS _ _ _ _ _
  | cancel => exact qstep_cancel _ _ _
  | drain _ _ _ _ h => exact qstep_drain h
  | close _ _ _ h => exact qstep_close h
  | clone => exact qstep_clone _ _
  | drop => exact qstep_drop _ _

/-- Every critical section of every `Fine` tree is a `QStep` (no hypothesis on the bound state). -/
theorem qstep_fine {t : Act} {b p : Chan} (ht : FineProg t) (hs : Sec t none b p) : QStep b p :=
  qstep_chanStep (fine_sections ht hs)

/-! ### along every execution -/

theorem capOK_steps {a c : Chan} (h : Steps a c) (ha : CapOK a) : CapOK c := by
  induction h with
  | refl => exact ha
  | tail _ hs ih => exact qstep_len (qstep_chanStep hs) ih

/-- In every execution of the interleaving machine running `Fine` programs the log of sections is a chain of
    `QStep`s, and `queue.length ≤ capacity` is preserved from the initial state. -/
theorem qstep_serial {c0 : Chan} {n : Nat} {g : Cfg} (h : Reach FineProg c0 n g) :
    Chained c0 g.log ∧ g.chan = lastPublished c0 g.log ∧ (∀ b p, (b, p) ∈ g.log → QStep b p) ∧
    (CapOK c0 → CapOK g.chan) := by
  obtain ⟨_, _, h3, h4, h5⟩ := fine_serial h
  exact ⟨h4, h3, fun b p hm => qstep_chanStep (h5 b p hm), capOK_steps (fine_history h)⟩

theorem capOK_new (cap : Option Nat) : CapOK (Chan.new cap) := by intro k _; simp [Chan.new]

/-! ### the translated code -/

/-- every lock-taking entry point of the translated source -/
def genEntries (x : Ctx) : List Act :=
  [Gen.shared_send_impl_try_send x, Gen.shared_send_impl_try_send_option x, Gen.shared_send_impl_try_send_realtime x,
   Gen.shared_send_impl_try_send_option_realtime x, Gen.Sender_send x, Gen.Sender_send_timeout x,
   Gen.Sender_send_option_timeout x, Gen.shared_recv_impl_try_recv x, Gen.shared_recv_impl_try_recv_realtime x,
   Gen.Receiver_recv x, Gen.Receiver_recv_timeout x, Gen.shared_recv_impl_drain_into x, Gen.shared_impl_close x,
   Gen.Clone_Sender_clone x, Gen.Clone_AsyncSender_clone x, Gen.Sender_clone_async x, Gen.AsyncSender_clone_sync x,
   Gen.Clone_Receiver_clone x, Gen.Clone_AsyncReceiver_clone x, Gen.Receiver_clone_async x, Gen.AsyncReceiver_clone_sync x,
   Gen.Drop_Sender_drop x, Gen.Drop_AsyncSender_drop x, Gen.Drop_Receiver_drop x, Gen.Drop_AsyncReceiver_drop x,
   Gen.Future_SendFuture_poll x, Gen.Future_ReceiveFuture_poll x, Gen.Stream_ReceiveStream_poll_next x,
   Gen.Drop_SendFuture_drop x, Gen.Drop_ReceiveFuture_drop x,
   Gen.shared_impl_is_bounded x, Gen.shared_impl_len x, Gen.shared_impl_is_empty x, Gen.shared_impl_is_full x,
   Gen.shared_impl_capacity x, Gen.shared_impl_receiver_count x, Gen.shared_impl_sender_count x, Gen.shared_impl_is_closed x,
   Gen.shared_send_impl_is_disconnected x, Gen.shared_recv_impl_is_disconnected x, Gen.shared_recv_impl_is_terminated x]

theorem gen_fineProg (x : Ctx) : ∀ t ∈ genEntries x, FineProg t := by
  simp only [genEntries, List.forall_mem_cons, List.not_mem_nil, false_imp_iff, implies_true, and_true,
    TieCode.try_send, TieCode.try_send_option, TieCode.try_send_realtime, TieCode.try_send_option_realtime,
    TieCode.send, TieCode.send_timeout, TieCode.send_option_timeout, TieCode.try_recv, TieCode.try_recv_realtime,
    TieCode.recv, TieCode.recv_timeout, TieCode.drain_into, TieCode.close,
    TieCode.clone_sender, TieCode.clone_async_sender, TieCode.sender_clone_async, TieCode.async_sender_clone_sync,
    TieCode.clone_receiver, TieCode.clone_async_receiver, TieCode.receiver_clone_async, TieCode.async_receiver_clone_sync,
    TieCode.drop_sender, TieCode.drop_async_sender, TieCode.drop_receiver, TieCode.drop_async_receiver,
    TieCode.poll_send, TieCode.poll_recv, TieCode.poll_next, TieCode.drop_send_fut, TieCode.drop_recv_fut,
    TieCode.is_bounded, TieCode.len, TieCode.is_empty, TieCode.is_full, TieCode.capacity, TieCode.receiver_count,
    TieCode.sender_count, TieCode.is_closed, TieCode.is_disconnected_send, TieCode.is_disconnected_recv, TieCode.is_terminated]
  repeat' apply And.intro
  all_goals first
    | exact .observe _ | exact .cloneHandle _ | exact .dropHandle _ | exact .close | exact .trySend _ _ _
    | exact .send _ _ _ | exact .tryRecv _ | exact .recv _ _ | exact .drain _ | exact .dropSendFut _
    | exact .dropRecvFut _ | exact .pollSend _ | exact .pollRecv _ | exact .pollNext _

/-- Every critical section of every translated entry point is a `QStep`. -/
theorem qstep_gen (x : Ctx) {t : Act} {b p : Chan} (ht : t ∈ genEntries x) (hs : Sec t none b p) : QStep b p :=
  qstep_fine (gen_fineProg x t ht) hs

/-! ### negatives -/

/-- pushing at the FRONT of a non-empty buffer whose head differs is not a `QStep` -/
theorem not_qstep_push_front {b p : Chan} {m v : Msg} {q : List Msg} (hb : b.queue = v :: q) (hm : m ≠ v)
    (hp : p.queue = m :: b.queue) : ¬ QStep b p := by
  rintro ⟨took, rest, put, h1, h2, h3, _⟩
  obtain ⟨_, rfl, _⟩ := h3 (by simp [hp])
  simp at h1
  rw [hp, ← h1, hb] at h2
  simp at h2
  exact hm h2.1

/-- appending although `len < capacity` is false is not a `QStep` -/
theorem not_qstep_push_full {b p : Chan} {m : Msg} (hr : Cap.lenLt b.queue.length b.capacity = false)
    (hp : p.queue = b.queue ++ [m]) : ¬ QStep b p := by
  rintro ⟨took, rest, put, _, _, h3, _⟩
  obtain ⟨_, _, h⟩ := h3 (by simp [hp])
  rw [hr] at h
  cases h

/-- instance: the section `[7] ↦ [7, 8]` at capacity 1 is rejected; the section `[7] ↦ [8, 7]` is rejected -/
example : ¬ QStep { Chan.new (some 1) with queue := [7] } { Chan.new (some 1) with queue := [7, 8] } :=
  not_qstep_push_full (m := 8) (by decide) rfl
example : ¬ QStep { Chan.new none with queue := [7] } { Chan.new none with queue := [8, 7] } :=
  not_qstep_push_front (m := 8) (v := 7) (q := []) rfl (by decide) rfl

end Shape
end Kanal

#print axioms Kanal.Shape.qstep_len
#print axioms Kanal.Shape.qstep_chanStep
#print axioms Kanal.Shape.qstep_fine
#print axioms Kanal.Shape.qstep_serial
#print axioms Kanal.Shape.gen_fineProg
#print axioms Kanal.Shape.qstep_gen
#print axioms Kanal.Shape.not_qstep_push_front
#print axioms Kanal.Shape.not_qstep_push_full
