/-
  Kanal.Sections — the critical sections of the `Fine` trees are the `Chan` functions.

  `Machine.serial`: in every interleaving the logical state moves by completed critical sections `(b, p)` of the
  programs, chained in lock order.  Here: every `Fine` tree is well-locked, and a section of a `Fine` tree that binds
  `b` publishes `p = f b` for the `Chan` function `f` named in the theorem — the same function `Spec.step` applies for
  the corresponding label.  With `TieCode` (translated source = `Fine`) this is a statement about the Rust code.
-/
import Kanal.Machine
import Kanal.Fine

namespace Kanal
namespace Machine
open Chan

/-! ### `Sec` and `WL` as rewriting rules -/

@[simp] theorem sec_ret {r cur b p} : Sec (.ret r) cur b p ↔ False := ⟨fun h => (by cases h), False.elim⟩
@[simp] theorem sec_diverge {cur b p} : Sec .diverge cur b p ↔ False := ⟨fun h => (by cases h), False.elim⟩
@[simp] theorem sec_unlock {c k b0 b p} : Sec (.unlock c k) (some b0) b p ↔ (b = b0 ∧ p = c) ∨ Sec k none b p :=
  ⟨fun h => by cases h with | done => exact Or.inl ⟨rfl, rfl⟩ | later h => exact Or.inr h,
   fun h => by rcases h with ⟨rfl, rfl⟩ | h; exact Sec.done; exact Sec.later h⟩
@[simp] theorem sec_unlock_none {c k b p} : Sec (.unlock c k) none b p ↔ False := ⟨fun h => (by cases h), False.elim⟩
@[simp] theorem sec_lock {k b p} : Sec (.lock k) none b p ↔ ∃ b', Sec (k b') (some b') b p :=
  ⟨fun h => by cases h with | lock h => exact ⟨_, h⟩, fun ⟨_, h⟩ => Sec.lock h⟩
@[simp] theorem sec_lock_some {k b0 b p} : Sec (.lock k) (some b0) b p ↔ False := ⟨fun h => (by cases h), False.elim⟩
@[simp] theorem sec_tryLock {k b p} :
    Sec (.tryLock k) none b p ↔ (∃ b', Sec (k (some b')) (some b') b p) ∨ Sec (k none) none b p :=
  ⟨fun h => by cases h with | tryLockOk h => exact Or.inl ⟨_, h⟩ | tryLockBusy h => exact Or.inr h,
   fun h => by rcases h with ⟨_, h⟩ | h; exact Sec.tryLockOk h; exact Sec.tryLockBusy h⟩
@[simp] theorem sec_tryLock_some {k b0 b p} : Sec (.tryLock k) (some b0) b p ↔ False := ⟨fun h => (by cases h), False.elim⟩
@[simp] theorem sec_eff {e k cur b p} : Sec (.eff e k) cur b p ↔ Sec k cur b p :=
  ⟨fun h => by cases h; assumption, Sec.eff⟩
@[simp] theorem sec_askB {q k cur b p} : Sec (.askB q k) cur b p ↔ ∃ x, Sec (k x) cur b p :=
  ⟨fun h => by cases h with | askB x h => exact ⟨x, h⟩, fun ⟨x, h⟩ => Sec.askB x h⟩
@[simp] theorem sec_askM {q k cur b p} : Sec (.askM q k) cur b p ↔ ∃ x, Sec (k x) cur b p :=
  ⟨fun h => by cases h with | askM x h => exact ⟨x, h⟩, fun ⟨x, h⟩ => Sec.askM x h⟩
@[simp] theorem sec_askP {k cur b p} : Sec (.askP k) cur b p ↔ ∃ x, Sec (k x) cur b p :=
  ⟨fun h => by cases h with | askP x h => exact ⟨x, h⟩, fun ⟨x, h⟩ => Sec.askP x h⟩

@[simp] theorem wl_ret {r l} : WL (.ret r) l ↔ l = false :=
  ⟨fun h => by cases h; rfl, fun h => h ▸ WL.ret r⟩
@[simp] theorem wl_diverge {l} : WL .diverge l ↔ True := ⟨fun _ => trivial, fun _ => WL.diverge l⟩
@[simp] theorem wl_lock {k l} : WL (.lock k) l ↔ l = false ∧ ∀ c, WL (k c) true :=
  ⟨fun h => by cases h with | lock h => exact ⟨rfl, h⟩, fun ⟨e, h⟩ => e ▸ WL.lock h⟩
@[simp] theorem wl_tryLock {k l} : WL (.tryLock k) l ↔ l = false ∧ (∀ c, WL (k (some c)) true) ∧ WL (k none) false :=
  ⟨fun h => by cases h with | tryLock h1 h2 => exact ⟨rfl, h1, h2⟩, fun ⟨e, h1, h2⟩ => e ▸ WL.tryLock h1 h2⟩
@[simp] theorem wl_unlock {c k l} : WL (.unlock c k) l ↔ l = true ∧ WL k false :=
  ⟨fun h => by cases h with | unlock h => exact ⟨rfl, h⟩, fun ⟨e, h⟩ => e ▸ WL.unlock h⟩
@[simp] theorem wl_eff {e k l} : WL (.eff e k) l ↔ WL k l := ⟨fun h => by cases h; assumption, WL.eff⟩
@[simp] theorem wl_askB {q k l} : WL (.askB q k) l ↔ ∀ x, WL (k x) l :=
  ⟨fun h => by cases h with | askB h => exact h, WL.askB⟩
@[simp] theorem wl_askM {q k l} : WL (.askM q k) l ↔ ∀ x, WL (k x) l :=
  ⟨fun h => by cases h with | askM h => exact h, WL.askM⟩
@[simp] theorem wl_askP {k l} : WL (.askP k) l ↔ ∀ x, WL (k x) l :=
  ⟨fun h => by cases h with | askP h => exact h, WL.askP⟩

/-! ### the combinators of `Fine` -/

@[simp] theorem sec_forEach_eff {α : Type} (l : List α) (f : α → Eff) (k : Act) {cur b p} :
    Sec (Act.forEach l (fun a next => .eff (f a) next) k) cur b p ↔ Sec k cur b p := by
  induction l with
  | nil => simp
  | cons a l ih => simp [ih]

@[simp] theorem wl_forEach_eff {α : Type} (l : List α) (f : α → Eff) (k : Act) {lk} :
    WL (Act.forEach l (fun a next => .eff (f a) next) k) lk ↔ WL k lk := by
  induction l with
  | nil => simp
  | cons a l ih => simp [ih]

@[simp] theorem sec_terminate (l : List SigId) (k : Act) {cur b p} : Sec (Fine.terminate l k) cur b p ↔ Sec k cur b p := by
  unfold Fine.terminate; exact sec_forEach_eff l _ k
@[simp] theorem wl_terminate (l : List SigId) (k : Act) {lk} : WL (Fine.terminate l k) lk ↔ WL k lk := by
  unfold Fine.terminate; exact wl_forEach_eff l _ k

@[simp] theorem sec_drainQueue (q : List Msg) (k : Act) {cur b p} : Sec (Fine.drainQueue q k) cur b p ↔ Sec k cur b p := by
  unfold Fine.drainQueue; exact sec_forEach_eff q _ k
@[simp] theorem wl_drainQueue (q : List Msg) (k : Act) {lk} : WL (Fine.drainQueue q k) lk ↔ WL k lk := by
  unfold Fine.drainQueue; exact wl_forEach_eff q _ k

@[simp] theorem sec_drainSenders (l : List SigId) (k : Act) {cur b p} : Sec (Fine.drainSenders l k) cur b p ↔ Sec k cur b p := by
  unfold Fine.drainSenders
  induction l with
  | nil => simp
  | cons a l ih => simp [ih]
@[simp] theorem wl_drainSenders (l : List SigId) (k : Act) {lk} : WL (Fine.drainSenders l k) lk ↔ WL k lk := by
  unfold Fine.drainSenders
  induction l with
  | nil => simp
  | cons a l ih => simp [ih]

@[simp] theorem sec_dropData (k : Act) {cur b p} : Sec (Fine.dropData k) cur b p ↔ Sec k cur b p := by
  unfold Fine.dropData; simp
@[simp] theorem sec_dropLocal (k : Act) {cur b p} : Sec (Fine.dropLocal k) cur b p ↔ Sec k cur b p := by
  unfold Fine.dropLocal; simp
@[simp] theorem sec_failBack (o : Bool) (k : Act) {cur b p} : Sec (Fine.failBack o k) cur b p ↔ Sec k cur b p := by
  unfold Fine.failBack; cases o <;> simp
@[simp] theorem sec_take (o : Bool) (k : Act) {cur b p} : Sec (Fine.take o k) cur b p ↔ Sec k cur b p := by
  unfold Fine.take; cases o <;> simp
@[simp] theorem sec_guardNone (o : Bool) (k : Act) {cur b p} : Sec (Fine.guardNone o k) cur b p ↔ Sec k cur b p := by
  unfold Fine.guardNone; cases o <;> simp
@[simp] theorem wl_dropData (k : Act) {l} : WL (Fine.dropData k) l ↔ WL k l := by
  unfold Fine.dropData; simp
@[simp] theorem wl_dropLocal (k : Act) {l} : WL (Fine.dropLocal k) l ↔ WL k l := by
  unfold Fine.dropLocal; simp
@[simp] theorem wl_failBack (o : Bool) (k : Act) {l} : WL (Fine.failBack o k) l ↔ WL k l := by
  unfold Fine.failBack; cases o <;> simp
@[simp] theorem wl_take (o : Bool) (k : Act) {l} : WL (Fine.take o k) l ↔ WL k l := by
  unfold Fine.take; cases o <;> simp
@[simp] theorem wl_guardNone (o : Bool) (k : Act) : WL (Fine.guardNone o k) false ↔ WL k false := by
  unfold Fine.guardNone; cases o <;> simp
@[simp] theorem sec_readOwn {cur b p} : Sec Fine.readOwn cur b p ↔ False := by
  unfold Fine.readOwn; simp
@[simp] theorem wl_readOwn : WL Fine.readOwn false := by
  unfold Fine.readOwn; simp

/-! ### one theorem per function: what its sections publish -/

/-- Everything a critical section of kanal does to the logical state. -/
inductive ChanStep : Chan → Chan → Prop where
  | id (b) : ChanStep b b
  | sendPre (b m) : ChanStep b (b.sendPre m).1
  | sendCS (b m me) : ChanStep b (b.sendCS m me).1
  | recvPre (b slot t e) : ChanStep b (b.recvPre slot t e).1
  | recvCS (b slot t e me) : ChanStep b (b.recvCS slot t e me).1
  | cancel (b r me) : ChanStep b (b.cancel r me).1
  | drain (b c1 q l n) : b.drainCS = some (c1, q, l, n) → ChanStep b c1
  | close (b c1 l q) : b.closeCS = some (c1, l, q) → ChanStep b c1
  | clone (b side) : ChanStep b (b.cloneCS side)
  | drop (b side) : ChanStep b (b.dropCS side).1

theorem sec_observe (f : Chan → Res) {b p} : Sec (Fine.observe f) none b p → p = b := by
  unfold Fine.observe; simp
theorem wl_observe (f : Chan → Res) : WL (Fine.observe f) false := by unfold Fine.observe; simp

theorem sec_clone (side : Side) {b p} : Sec (Fine.cloneHandle side) none b p → p = b.cloneCS side := by
  unfold Fine.cloneHandle; simp
theorem wl_clone (side : Side) : WL (Fine.cloneHandle side) false := by unfold Fine.cloneHandle; simp

theorem sec_drop (side : Side) {b p} : Sec (Fine.dropHandle side) none b p → p = (b.dropCS side).1 := by
  unfold Fine.dropHandle; simp
theorem wl_drop (side : Side) : WL (Fine.dropHandle side) false := by unfold Fine.dropHandle; simp

theorem sec_close {b p} : Sec Fine.close none b p → p = b ∨ ∃ l q, b.closeCS = some (p, l, q) := by
  unfold Fine.close; simp
  intro b' h
  split at h
  · simp at h; exact Or.inl (by obtain ⟨rfl, rfl⟩ := h; rfl)
  · rename_i c1 l q hc
    simp at h; obtain ⟨rfl, rfl⟩ := h
    exact Or.inr ⟨l, q, hc⟩
theorem wl_close : WL Fine.close false := by
  unfold Fine.close; simp; intro c; split <;> simp

/-! ### the send family -/

@[simp] theorem sec_ite {c : Prop} [Decidable c] {t e : Act} {cur b p} :
    Sec (if c then t else e) cur b p ↔ (c ∧ Sec t cur b p) ∨ (¬ c ∧ Sec e cur b p) := by
  split <;> simp [*]
@[simp] theorem wl_ite {c : Prop} [Decidable c] {t e : Act} {l} :
    WL (if c then t else e) l ↔ (c → WL t l) ∧ (¬ c → WL e l) := by
  split <;> simp [*]

theorem sendPre_err {c : Chan} {m : Msg} {c1 : Chan} {br : SendBranch} (h : c.sendPre m = (c1, br))
    (hb : br = .errClosed ∨ br = .errRecvClosed) : c1 = c := by
  unfold Chan.sendPre at h
  split at h
  · simp at h; exact h.1.symm
  · split at h
    · simp at h; rcases hb with hb | hb <;> simp [hb] at h
    · split at h <;> simp at h <;> rcases hb with hb | hb <;> simp [hb] at h

theorem sec_trySend (opt rt : Bool) (x : Ctx) {b p} : Sec (Fine.trySend opt rt x) none b p → p = (b.sendPre x.m).1 := by
  unfold Fine.trySend Fine.acquire Fine.sendErr
  simp
  cases rt <;> simp
  all_goals
    intro b' h
    rcases hb : b'.sendPre x.m with ⟨c1, br⟩
    rw [hb] at h
    cases br <;> simp at h <;> obtain ⟨rfl, rfl⟩ := h <;> simp [hb]
  all_goals first | exact (sendPre_err hb (Or.inl rfl)).symm | exact (sendPre_err hb (Or.inr rfl)).symm

theorem wl_trySend (opt rt : Bool) (x : Ctx) : WL (Fine.trySend opt rt x) false := by
  unfold Fine.trySend Fine.acquire Fine.sendErr
  simp
  cases rt <;> simp
  all_goals
    intro c
    rcases hb : c.sendPre x.m with ⟨c1, br⟩
    cases br <;> simp

theorem sendCS_err {c : Chan} {m : Msg} {me : SigId} {c1 : Chan} {br : SendBranch} (h : c.sendCS m me = (c1, br))
    (hb : br = .errClosed ∨ br = .errRecvClosed) : c1 = c := by
  unfold Chan.sendCS at h
  rcases hp : c.sendPre m with ⟨c2, br2⟩
  rw [hp] at h
  cases br2 <;> simp at h <;> obtain ⟨rfl, rfl⟩ := h
  · exact sendPre_err hp (by simp)
  · exact sendPre_err hp (by simp)
  all_goals simp at hb

@[simp] theorem sec_timedSendTail (opt : Bool) (x : Ctx) {b p} :
    Sec (Fine.timedSendTail opt x) none b p ↔ p = (b.cancel .send x.me).1 := by
  unfold Fine.timedSendTail
  simp
  constructor
  · rintro ⟨b', h⟩
    rcases h with ⟨_, rfl, rfl⟩ | ⟨_, rfl, rfl⟩ <;> rfl
  · rintro rfl
    refine ⟨b, ?_⟩
    cases (b.cancel .send x.me).2 <;> simp

theorem wl_timedSendTail (opt : Bool) (x : Ctx) : WL (Fine.timedSendTail opt x) false := by
  unfold Fine.timedSendTail
  simp

theorem sec_send (timed opt : Bool) (x : Ctx) {b p} : Sec (Fine.send timed opt x) none b p →
    p = (b.sendCS x.m x.me).1 ∨ (timed = true ∧ p = (b.cancel .send x.me).1) := by
  unfold Fine.send Fine.sendErr
  simp
  cases timed <;> simp
  all_goals
    intro b' h
    rcases hb : b'.sendCS x.m x.me with ⟨c1, br⟩
    rw [hb] at h
    cases br <;> simp at h
  all_goals first
    | (obtain ⟨rfl, rfl⟩ := h; simp [hb]; done)
    | (obtain ⟨rfl, rfl⟩ := h; simp [hb]; first | exact (sendCS_err hb (Or.inl rfl)).symm | exact (sendCS_err hb (Or.inr rfl)).symm)
    | (obtain ⟨rfl, rfl⟩ := h; left; simp [hb]; first | exact (sendCS_err hb (Or.inl rfl)).symm | exact (sendCS_err hb (Or.inr rfl)).symm)
    | (rcases h with ⟨rfl, rfl⟩ | h; left; simp [hb]; right; exact h)

theorem wl_send (timed opt : Bool) (x : Ctx) : WL (Fine.send timed opt x) false := by
  unfold Fine.send Fine.sendErr
  simp
  cases timed <;> simp
  all_goals
    intro c
    rcases hb : c.sendCS x.m x.me with ⟨c1, br⟩
    cases br <;> simp [wl_timedSendTail]

/-! ### the receive family -/

theorem sec_recvHead {c : Chan} {wrap closedFirst : Act → Act} {onNone : Chan → Act}
    (hw : ∀ k cur b p, Sec (wrap k) cur b p ↔ Sec k cur b p)
    (hc : ∀ k cur b p, Sec (closedFirst k) cur b p ↔ Sec k cur b p) {b p}
    (h : Sec (Fine.recvHead c wrap closedFirst onNone) (some c) b p) :
    (b = c ∧ ∃ slot, ∀ t e me, p = (c.recvPre slot t e).1 ∧ p = (c.recvCS slot t e me).1) ∨
    (∃ c1, (c.recvCount == 0) = false ∧ c.queue = [] ∧ c.nextSend = (c1, none) ∧ Sec (onNone c1) (some c) b p) := by
  unfold Fine.recvHead at h
  unfold Chan.recvCS Chan.recvPre
  split at h
  · rename_i h0
    simp [hc] at h
    obtain ⟨rfl, rfl⟩ := h
    left; simp [h0]
  · rename_i h0
    split at h
    · rename_i v q hq
      split at h
      · rename_i c1 s hn
        simp [hw] at h
        obtain ⟨rfl, m, rfl⟩ := h
        left
        refine ⟨rfl, fun _ => m, ?_⟩
        simp [h0, hq, hn]
      · rename_i c1 hn
        simp [hw] at h
        obtain ⟨rfl, rfl⟩ := h
        left
        refine ⟨rfl, fun _ => 0, ?_⟩
        simp [h0, hq, hn]
    · rename_i hq
      split at h
      · rename_i c1 s hn
        simp [hw] at h
        obtain ⟨rfl, rfl⟩ := h
        left
        refine ⟨rfl, fun _ => 0, ?_⟩
        simp [h0, hq, hn]
      · rename_i c1 hn
        right
        exact ⟨c1, by simpa using h0, hq, hn, h⟩

theorem recvPre_none {c c1 : Chan} (h0 : (c.recvCount == 0) = false) (hq : c.queue = []) (hn : c.nextSend = (c1, none))
    (slot : SigId → Msg) (t e : Bool) :
    c.recvPre slot t e = if t && e then (c1, .timeout) else if c1.sendCount == 0 then (c1, .errSendClosed) else (c1, .empty) := by
  unfold Chan.recvPre
  simp [h0, hq, hn]

theorem wl_recvHead {c : Chan} {wrap closedFirst : Act → Act} {onNone : Chan → Act}
    (hw : ∀ k, WL k false → WL (wrap k) false)
    (hc : ∀ k, WL k true → WL (closedFirst k) true)
    (hn : ∀ c1, WL (onNone c1) true) : WL (Fine.recvHead c wrap closedFirst onNone) true := by
  unfold Fine.recvHead
  split
  · apply hc; simp
  · split
    · split
      · simp; apply hw; simp
      · simp; apply hw; simp
    · split
      · simp; apply hw; simp
      · apply hn

theorem sec_tryRecv (rt : Bool) {b p} : Sec (Fine.tryRecv rt) none b p → ∃ slot, p = (b.recvPre slot false false).1 := by
  unfold Fine.tryRecv Fine.acquire
  have key : ∀ b', Sec (Fine.recvHead b' id id fun c1 =>
      if c1.sendCount = 0 then .unlock c1 (.ret (.err .sendClosed)) else .unlock c1 (.ret .none)) (some b') b p →
      ∃ slot, p = (b.recvPre slot false false).1 := by
    intro b' h
    rcases sec_recvHead (by simp) (by simp) h with ⟨rfl, slot, hs⟩ | ⟨c1, h0, hq, hn, h⟩
    · exact ⟨slot, (hs false false 0).1⟩
    · refine ⟨fun _ => 0, ?_⟩
      simp at h
      rcases h with ⟨_, rfl, rfl⟩ | ⟨_, rfl, rfl⟩ <;> rw [recvPre_none h0 hq hn] <;> simp <;> split <;> rfl
  intro h
  cases rt <;> simp at h <;> obtain ⟨b', h⟩ := h <;> exact key b' h

theorem wl_tryRecv (rt : Bool) : WL (Fine.tryRecv rt) false := by
  unfold Fine.tryRecv Fine.acquire
  cases rt <;> simp <;> intro c <;> apply wl_recvHead <;> simp

@[simp] theorem sec_timedRecvTail (x : Ctx) {b p} :
    Sec (Fine.timedRecvTail x) none b p ↔ p = (b.cancel .recv x.me).1 := by
  unfold Fine.timedRecvTail
  simp
  constructor
  · rintro ⟨b', h⟩
    rcases h with ⟨_, rfl, rfl⟩ | ⟨_, rfl, rfl⟩ <;> rfl
  · rintro rfl
    refine ⟨b, ?_⟩
    cases (b.cancel .recv x.me).2 <;> simp

theorem wl_timedRecvTail (x : Ctx) : WL (Fine.timedRecvTail x) false := by
  unfold Fine.timedRecvTail
  simp

theorem sec_recv (timed : Bool) (x : Ctx) {b p} : Sec (Fine.recv timed x) none b p →
    (∃ slot e, p = (b.recvCS slot timed e x.me).1) ∨ (timed = true ∧ p = (b.cancel .recv x.me).1) := by
  unfold Fine.recv
  intro h
  cases timed <;> simp at h <;> obtain ⟨b', h⟩ := h
  · left
    rcases sec_recvHead (by simp) (by simp) h with ⟨rfl, slot, hs⟩ | ⟨c1, h0, hq, hn, h⟩
    · exact ⟨slot, false, (hs false false x.me).2⟩
    · refine ⟨fun _ => 0, false, ?_⟩
      simp at h
      rcases h with ⟨hc, rfl, rfl⟩ | ⟨hc, rfl, rfl⟩ <;> unfold Chan.recvCS <;> rw [recvPre_none h0 hq hn] <;> simp [hc]
  · rcases sec_recvHead (by simp) (by simp) h with ⟨rfl, slot, hs⟩ | ⟨c1, h0, hq, hn, h⟩
    · exact Or.inl ⟨slot, false, (hs true false x.me).2⟩
    · simp at h
      rcases h with (⟨hc, rfl, rfl⟩ | ⟨hc, ⟨rfl, rfl⟩ | rfl⟩) | ⟨rfl, rfl⟩
      · refine Or.inl ⟨fun _ => 0, false, ?_⟩
        unfold Chan.recvCS
        rw [recvPre_none h0 hq hn]; simp [hc]
      · refine Or.inl ⟨fun _ => 0, false, ?_⟩
        unfold Chan.recvCS
        rw [recvPre_none h0 hq hn]; simp [hc]
      · exact Or.inr ⟨rfl, rfl⟩
      · refine Or.inl ⟨fun _ => 0, true, ?_⟩
        unfold Chan.recvCS
        rw [recvPre_none h0 hq hn]; simp

theorem wl_recv (timed : Bool) (x : Ctx) : WL (Fine.recv timed x) false := by
  unfold Fine.recv
  cases timed <;> simp <;> intro c <;> apply wl_recvHead <;> simp [wl_timedRecvTail]

/-! ### drain, the futures -/

theorem sec_drain (x : Ctx) {b p} : Sec (Fine.drain x) none b p → p = b ∨ ∃ q l n, b.drainCS = some (p, q, l, n) := by
  unfold Fine.drain
  intro h
  simp at h
  obtain ⟨b', h⟩ := h
  split at h
  · simp at h; obtain ⟨rfl, rfl⟩ := h; exact Or.inl rfl
  · rename_i c1 q l n hd
    simp at h
    have h' : b = b' ∧ p = c1 := by rcases h with ⟨_, h⟩ | ⟨_, h⟩ <;> exact h
    obtain ⟨rfl, rfl⟩ := h'
    exact Or.inr ⟨q, l, n, hd⟩

theorem wl_drain (x : Ctx) : WL (Fine.drain x) false := by
  unfold Fine.drain
  simp
  intro c
  split <;> simp

theorem sec_dropSendFut (x : Ctx) {b p} : Sec (Fine.dropSendFut x) none b p → p = (b.cancel .send x.me).1 := by
  unfold Fine.dropSendFut
  intro h
  simp at h
  obtain ⟨_, _, b', rfl, rfl⟩ := h
  rfl

theorem wl_dropSendFut (x : Ctx) : WL (Fine.dropSendFut x) false := by
  unfold Fine.dropSendFut
  simp

theorem sec_dropRecvFut (x : Ctx) {b p} : Sec (Fine.dropRecvFut x) none b p → p = (b.cancel .recv x.me).1 := by
  unfold Fine.dropRecvFut
  intro h
  simp at h
  obtain ⟨_, b', rfl, rfl⟩ := h
  rfl

theorem wl_dropRecvFut (x : Ctx) : WL (Fine.dropRecvFut x) false := by
  unfold Fine.dropRecvFut
  simp

@[simp] theorem sec_register (k : Act) {cur b p} : Sec (Fine.register k) cur b p ↔ Sec k cur b p := by
  unfold Fine.register; simp
@[simp] theorem wl_register (k : Act) {l} : WL (Fine.register k) l ↔ WL k l := by
  unfold Fine.register; simp

theorem sec_pollSend (x : Ctx) {b p} : Sec (Fine.pollSend x) none b p → p = (b.sendCS x.m x.me).1 ∨ p = b := by
  unfold Fine.pollSend
  intro h
  split at h
  · simp at h
    obtain ⟨b', h⟩ := h
    rcases hb : b'.sendCS x.m x.me with ⟨c1, br⟩
    rw [hb] at h
    cases br <;> simp at h <;> obtain ⟨rfl, rfl⟩ := h <;> simp [hb]
  · simp at h
    obtain ⟨r, h⟩ := h
    cases r <;> simp at h
    obtain ⟨b', h⟩ := h
    rcases h with ⟨_, rfl, rfl⟩ | ⟨_, rfl, rfl⟩ <;> exact Or.inr rfl
  · simp at h

theorem wl_pollSend (x : Ctx) : WL (Fine.pollSend x) false := by
  unfold Fine.pollSend
  split
  · simp
    intro c
    rcases hb : c.sendCS x.m x.me with ⟨c1, br⟩
    cases br <;> simp
  · simp
    intro r
    split <;> simp
  · simp

theorem sec_pollRecvRound_zero (x : Ctx) (again : Act) {b p} :
    Sec (Fine.pollRecvRound x .zero again) none b p → ∃ slot, p = (b.recvCS slot false false x.me).1 := by
  unfold Fine.pollRecvRound
  intro h
  simp at h
  obtain ⟨b', h⟩ := h
  rcases sec_recvHead (by simp) (by simp) h with ⟨rfl, slot, hs⟩ | ⟨c1, h0, hq, hn, h⟩
  · exact ⟨slot, (hs false false x.me).2⟩
  · refine ⟨fun _ => 0, ?_⟩
    simp at h
    rcases h with ⟨hc, rfl, rfl⟩ | ⟨hc, rfl, rfl⟩ <;> unfold Chan.recvCS <;> rw [recvPre_none h0 hq hn] <;> simp [hc]

theorem wl_pollRecvRound (x : Ctx) (st : FutSt) (again : Act) (ha : WL again false) :
    WL (Fine.pollRecvRound x st again) false := by
  unfold Fine.pollRecvRound
  split
  · simp
    intro c
    apply wl_recvHead <;> simp
  · simp
    intro r
    split <;> simp
  · simp [ha]

theorem sec_pollRecvRound_done (x : Ctx) (again : Act) {b p} :
    Sec (Fine.pollRecvRound x .done again) none b p → Sec again none b p := by
  unfold Fine.pollRecvRound
  intro h
  simp at h
  exact h.2

theorem sec_pollRecv (x : Ctx) {b p} : Sec (Fine.pollRecv x) none b p →
    (∃ slot, p = (b.recvCS slot false false x.me).1) ∨ p = b := by
  unfold Fine.pollRecv
  intro h
  cases hst : x.st <;> rw [hst] at h
  · exact Or.inl (sec_pollRecvRound_zero x _ h)
  · unfold Fine.pollRecvRound at h
    simp at h
    obtain ⟨r, h⟩ := h
    cases r <;> simp at h
    obtain ⟨b', h⟩ := h
    rcases h with ⟨_, rfl, rfl⟩ | ⟨_, rfl, rfl⟩ <;> exact Or.inr rfl
  · exact Or.inl (sec_pollRecvRound_zero x _ (sec_pollRecvRound_done x _ h))

theorem wl_pollRecv (x : Ctx) : WL (Fine.pollRecv x) false := by
  unfold Fine.pollRecv
  exact wl_pollRecvRound x _ _ (wl_pollRecvRound x _ _ (by simp))

/-! ### all programs; serializability in terms of `ChanStep` -/

/-! ### `Act.bind` with a continuation that takes no lock (`ReceiveStream::poll_next` around the future's `poll`) -/

theorem sec_bind {f : Res → Act} (hf : ∀ r cur b p, ¬ Sec (f r) cur b p) :
    ∀ (a : Act) (cur : Option Chan) (b p : Chan), Sec (a.bind f) cur b p → Sec a cur b p := by
  intro a
  induction a with
  | ret r => intro cur b p h; exact absurd h (hf r cur b p)
  | diverge => intro cur b p h; simp [Act.bind] at h
  | lock k ih =>
    intro cur b p h
    cases cur with
    | none => simp only [Act.bind, sec_lock] at h ⊢; obtain ⟨b', h⟩ := h; exact ⟨b', ih _ _ _ _ h⟩
    | some c0 => simp [Act.bind] at h
  | tryLock k ih =>
    intro cur b p h
    cases cur with
    | none =>
      simp only [Act.bind, sec_tryLock] at h ⊢
      rcases h with ⟨b', h⟩ | h
      · exact Or.inl ⟨b', ih _ _ _ _ h⟩
      · exact Or.inr (ih _ _ _ _ h)
    | some c0 => simp [Act.bind] at h
  | unlock c k ih =>
    intro cur b p h
    cases cur with
    | none => simp [Act.bind] at h
    | some c0 =>
      simp only [Act.bind, sec_unlock] at h ⊢
      rcases h with h | h
      · exact Or.inl h
      · exact Or.inr (ih _ _ _ h)
  | eff e k ih => intro cur b p h; simp only [Act.bind, sec_eff] at h ⊢; exact ih _ _ _ h
  | askB q k ih => intro cur b p h; simp only [Act.bind, sec_askB] at h ⊢; obtain ⟨x, h⟩ := h; exact ⟨x, ih _ _ _ _ h⟩
  | askM q k ih => intro cur b p h; simp only [Act.bind, sec_askM] at h ⊢; obtain ⟨x, h⟩ := h; exact ⟨x, ih _ _ _ _ h⟩
  | askP k ih => intro cur b p h; simp only [Act.bind, sec_askP] at h ⊢; obtain ⟨x, h⟩ := h; exact ⟨x, ih _ _ _ _ h⟩

theorem wl_bind {f : Res → Act} (hf : ∀ r, WL (f r) false) :
    ∀ (a : Act) (l : Bool), WL a l → WL (a.bind f) l := by
  intro a
  induction a with
  | ret r => intro l h; simp at h; subst h; exact hf r
  | diverge => intro l _; simp [Act.bind]
  | lock k ih => intro l h; simp only [Act.bind, wl_lock] at h ⊢; exact ⟨h.1, fun c => ih c _ (h.2 c)⟩
  | tryLock k ih =>
    intro l h; simp only [Act.bind, wl_tryLock] at h ⊢
    exact ⟨h.1, fun c => ih _ _ (h.2.1 c), ih _ _ h.2.2⟩
  | unlock c k ih => intro l h; simp only [Act.bind, wl_unlock] at h ⊢; exact ⟨h.1, ih _ h.2⟩
  | eff e k ih => intro l h; simp only [Act.bind, wl_eff] at h ⊢; exact ih _ h
  | askB q k ih => intro l h; simp only [Act.bind, wl_askB] at h ⊢; exact fun x => ih x _ (h x)
  | askM q k ih => intro l h; simp only [Act.bind, wl_askM] at h ⊢; exact fun x => ih x _ (h x)
  | askP k ih => intro l h; simp only [Act.bind, wl_askP] at h ⊢; exact fun x => ih x _ (h x)

/-- The programs of the machine: every lock-taking function of kanal, for every choice of its parameters. -/
inductive FineProg : Act → Prop where
  | observe (f : Chan → Res) : FineProg (Fine.observe f)
  | cloneHandle (side : Side) : FineProg (Fine.cloneHandle side)
  | dropHandle (side : Side) : FineProg (Fine.dropHandle side)
  | close : FineProg Fine.close
  | trySend (opt rt : Bool) (x : Ctx) : FineProg (Fine.trySend opt rt x)
  | send (timed opt : Bool) (x : Ctx) : FineProg (Fine.send timed opt x)
  | tryRecv (rt : Bool) : FineProg (Fine.tryRecv rt)
  | recv (timed : Bool) (x : Ctx) : FineProg (Fine.recv timed x)
  | drain (x : Ctx) : FineProg (Fine.drain x)
  | dropSendFut (x : Ctx) : FineProg (Fine.dropSendFut x)
  | dropRecvFut (x : Ctx) : FineProg (Fine.dropRecvFut x)
  | pollSend (x : Ctx) : FineProg (Fine.pollSend x)
  | pollRecv (x : Ctx) : FineProg (Fine.pollRecv x)
  | pollNext (x : Ctx) : FineProg (Fine.pollNext x)

theorem fine_wl {t : Act} (h : FineProg t) : WL t false := by
  cases h
  · exact wl_observe _
  · exact wl_clone _
  · exact wl_drop _
  · exact wl_close
  · exact wl_trySend _ _ _
  · exact wl_send _ _ _
  · exact wl_tryRecv _
  · exact wl_recv _ _
  · exact wl_drain _
  · exact wl_dropSendFut _
  · exact wl_dropRecvFut _
  · exact wl_pollSend _
  · exact wl_pollRecv _
  · rename_i x
    unfold Fine.pollNext
    split
    · simp
    · exact wl_bind (by intro r; cases r <;> simp) _ _ (wl_pollRecv x)

theorem fine_sections {t : Act} {b p : Chan} (h : FineProg t) (hs : Sec t none b p) : ChanStep b p := by
  cases h with
  | observe f => rw [sec_observe f hs]; exact .id b
  | cloneHandle side => rw [sec_clone side hs]; exact .clone b side
  | dropHandle side => rw [sec_drop side hs]; exact .drop b side
  | close =>
    rcases sec_close hs with rfl | ⟨l, q, h⟩
    · exact .id _
    · exact .close b p l q h
  | trySend opt rt x => rw [sec_trySend opt rt x hs]; exact .sendPre b x.m
  | send timed opt x =>
    rcases sec_send timed opt x hs with rfl | ⟨_, rfl⟩
    · exact .sendCS b x.m x.me
    · exact .cancel b .send x.me
  | tryRecv rt =>
    obtain ⟨slot, rfl⟩ := sec_tryRecv rt hs
    exact .recvPre b slot false false
  | recv timed x =>
    rcases sec_recv timed x hs with ⟨slot, e, rfl⟩ | ⟨_, rfl⟩
    · exact .recvCS b slot timed e x.me
    · exact .cancel b .recv x.me
  | drain x =>
    rcases sec_drain x hs with rfl | ⟨q, l, n, h⟩
    · exact .id _
    · exact .drain b p q l n h
  | dropSendFut x => rw [sec_dropSendFut x hs]; exact .cancel b .send x.me
  | dropRecvFut x => rw [sec_dropRecvFut x hs]; exact .cancel b .recv x.me
  | pollSend x =>
    rcases sec_pollSend x hs with rfl | rfl
    · exact .sendCS b x.m x.me
    · exact .id _
  | pollRecv x =>
    rcases sec_pollRecv x hs with ⟨slot, rfl⟩ | rfl
    · exact .recvCS b slot false false x.me
    · exact .id _
  | pollNext x =>
    have hs' : Sec (Fine.pollRecv x) none b p := by
      unfold Fine.pollNext at hs
      split at hs
      · simp at hs
      · exact sec_bind (by intro r cur b p; cases r <;> simp) _ _ _ _ hs
    rcases sec_pollRecv x hs' with ⟨slot, rfl⟩ | rfl
    · exact .recvCS b slot false false x.me
    · exact .id _

/-- `Machine.serial` for the functions of kanal: every completed critical section is a `ChanStep`. -/
theorem fine_serial {c0 : Chan} {n : Nat} {g : Cfg} (h : Reach FineProg c0 n g) :
    (∀ (i j : Nat) (ti tj : Thread), g.threads[i]? = some ti → g.threads[j]? = some tj →
        ti.cur.isSome → tj.cur.isSome → i = j) ∧
    (∀ (i : Nat) (t : Thread) (b : Chan), g.threads[i]? = some t → t.cur = some b → b = g.chan) ∧
    g.chan = lastPublished c0 g.log ∧ Chained c0 g.log ∧
    ∀ b p, (b, p) ∈ g.log → ChanStep b p := by
  obtain ⟨h1, h2, h3, h4, h5⟩ := serial (fun _ => fine_wl) h
  refine ⟨h1, h2, h3, h4, ?_⟩
  intro b p hm
  obtain ⟨T, hT, hs⟩ := h5 b p hm
  exact fine_sections hT hs

/-- Finite sequences of critical sections. -/
inductive Steps : Chan → Chan → Prop where
  | refl (a) : Steps a a
  | tail {a b c} : Steps a b → ChanStep b c → Steps a c

theorem Steps.head {a b c : Chan} (h1 : ChanStep a b) (h2 : Steps b c) : Steps a c := by
  induction h2 with
  | refl => exact .tail (.refl a) h1
  | tail _ hs ih => exact .tail ih hs

theorem steps_of_chained {c0 : Chan} {log : List (Chan × Chan)} (hc : Chained c0 log)
    (hl : ∀ b p, (b, p) ∈ log → ChanStep b p) : Steps c0 (lastPublished c0 log) := by
  induction log generalizing c0 with
  | nil => exact .refl c0
  | cons e rest ih =>
    obtain ⟨b, p⟩ := e
    simp only [Chained] at hc
    obtain ⟨rfl, hc⟩ := hc
    have h1 : ChanStep b p := hl b p (by simp)
    have h2 := ih hc (fun b' p' hm => hl b' p' (by simp [hm]))
    have e : lastPublished b ((b, p) :: rest) = lastPublished p rest := by
      cases rest with
      | nil => simp [lastPublished]
      | cons e2 r2 =>
        simp only [lastPublished, List.getLast?_cons_cons]
        cases hh : (e2 :: r2).getLast? with
        | none => simp at hh
        | some x => rfl
    rw [e]
    exact Steps.head h1 h2

/-- In every execution, the logical state is reached from the initial one by a sequence of `ChanStep`s. -/
theorem fine_history {c0 : Chan} {n : Nat} {g : Cfg} (h : Reach FineProg c0 n g) : Steps c0 g.chan := by
  obtain ⟨_, _, h3, h4, h5⟩ := fine_serial h
  rw [h3]
  exact steps_of_chained h4 h5

/-- Non-vacuity: two threads; thread 0 runs `try_send(7)` to completion on an empty channel of capacity 1, then
    thread 1 runs `try_recv()`.  The run is a `Reach` derivation; its log has the two sections. -/
example : ∃ g, Reach FineProg (Chan.new (some 1)) 2 g ∧
    g.log = [(Chan.new (some 1), { Chan.new (some 1) with queue := [7] }),
             ({ Chan.new (some 1) with queue := [7] }, { Chan.new (some 1) with recvBlocking := true })] ∧
    g.chan = { Chan.new (some 1) with recvBlocking := true } ∧ g.holder = none := by
  have r0 : Reach FineProg (Chan.new (some 1)) 2 _ := .init
  have r1 := Reach.step r0 (Step.start (i := 0) (r := .unit) (t := Fine.trySend false false { m := 7 }) rfl (.trySend _ _ _))
  have r2 := Reach.step r1 (Step.lock (i := 0) rfl rfl)
  have r3 := Reach.step r2 (Step.unlock (i := 0) rfl)
  have r4 := Reach.step r3 (Step.start (i := 1) (r := .unit) (t := Fine.tryRecv false) rfl (.tryRecv _))
  have r5 := Reach.step r4 (Step.lock (i := 1) rfl rfl)
  have r6 := Reach.step r5 (Step.unlock (i := 1) rfl)
  exact ⟨_, r6, rfl, rfl, rfl⟩


end Machine
end Kanal

#print axioms Kanal.Machine.serial
#print axioms Kanal.Machine.fine_wl
#print axioms Kanal.Machine.fine_sections
#print axioms Kanal.Machine.fine_serial
#print axioms Kanal.Machine.fine_history
