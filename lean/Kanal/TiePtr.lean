/-
  Kanal.TiePtr — src/pointer.rs, translated (`GenProto.lean`, `KanalPtr_*`: the pointer operations each
  function performs in each size class), interpreted over the byte-level model `Kanal.PtrM`.

  The theorems say: executing the translated operation lists on (memory, word) computes exactly the
  functions of `PtrM` under the size configuration of the pinned source (`SizeCfg.good`), for every
  type size `n`, pointer size `P`, memory and word; and a value handed to `write`/`new_owned` by value is
  consumed exactly once (moved by `ptr::write`, or bit-copied and then forgotten) — never dropped by the
  callee while a copy of it lives in the word.
-/
import Kanal.PtrM
import Kanal.GenProto

namespace Kanal.TiePtr
open Kanal Kanal.PtrM

/-- where the bytes come from: a value in hand (`&d`) or memory at `src` -/
inductive Src where
  | val (v : List Byte)
  | mem (src n : Nat)

def Src.size : Src → Nat
  | .val v => v.length
  | .mem _ n => n

def Src.bytes (m : Mem) : Src → List (Option Byte)
  | .val v => v.map some
  | .mem src n => load m src n

/-- `store_as_kanal_ptr`, run from its translated operation list -/
def runStore (ops : List PtrOp) (m : Mem) (s : Src) (P : Nat) : Option Word :=
  ops.foldl (fun w op =>
    match w, op with
    | some _, .wordUninit => some (.bytes (List.replicate P none))
    | some (.bytes l), .copyBytes => some (.bytes (s.bytes m ++ l.drop s.size))
    | _, _ => none) (some .uninit)

def storeWord (m : Mem) (s : Src) (P : Nat) : Option Word :=
  runStore (Gen.KanalPtr_store_as_kanal_ptr s.size P) m s P

/-- the constructors: the word they build (`none` = `unreachable!()` or an operation that is not a constructor's) -/
def runCtor (ops : List PtrOp) (m : Mem) (a : Nat) (s : Src) (P : Nat) : Option Word :=
  match ops.filter (· != .forget) with
  | [.wordAddr] => some (.addr a)
  | [.wordUninit] => some .uninit
  | [.wordInline] => storeWord m s P
  | _ => none

structure St where
  mem  : Mem
  word : Word
  out  : Option (List (Option Byte)) := none

/-- one operation of `read`/`write`/`copy` on (memory, word); `none` = a wild pointer is dereferenced -/
def opStep (s : Src) (P : Nat) (st : St) : PtrOp → Option St
  | .zeroed => some { st with out := some [] }
  | .readThrough =>
      match st.word with
      | .addr a => some { st with out := some (load st.mem a s.size) }
      | _ => none
  | .readInline =>
      match st.word with
      | .bytes l => some { st with out := some (l.take s.size) }
      | _ => some { st with out := some (List.replicate s.size none) }
  | .writeThrough | .copyThrough =>
      match st.word, s with
      | .addr a, .val v => some { st with mem := store st.mem a v }
      | .addr a, .mem src n => some { st with mem := fun x => if a ≤ x ∧ x < a + n then st.mem (src + (x - a)) else st.mem x }
      | _, _ => none
  | .storeInline =>
      match storeWord st.mem s P with
      | some w => some { st with word := w }
      | none => none
  | .forget => some st
  | _ => none

def run (ops : List PtrOp) (s : Src) (P : Nat) (st : St) : Option St :=
  ops.foldl (fun r op => r.bind (opStep s P · op)) (some st)

/-- how often the by-value argument `d` is consumed: `ptr::write` moves it, `forget` gives it up -/
def consumed (ops : List PtrOp) : Nat := (ops.filter (fun o => o == .writeThrough || o == .forget)).length

/-- every function of `impl KanalPtr` and `store_as_kanal_ptr` was translated, with no expression left unknown -/
theorem ptr_translated : Gen.ptrProblems = [] ∧ Gen.ptrNames =
    ["KanalPtr_new_from", "KanalPtr_new_owned", "KanalPtr_new_write_address_ptr", "KanalPtr_new_unchecked",
     "KanalPtr_read", "KanalPtr_write", "KanalPtr_copy", "KanalPtr_store_as_kanal_ptr"] := ⟨rfl, rfl⟩

/-! ### store_as_kanal_ptr and the constructors -/

theorem good_fields :
    SizeCfg.good.newFrom = (.gt, true) ∧ SizeCfg.good.newOwned = (.gt, true) ∧ SizeCfg.good.newWriteAddr = (.gt, true) ∧
    SizeCfg.good.readZst = (.eq, false) ∧ SizeCfg.good.readBig = (.gt, true) ∧ SizeCfg.good.writeBig = (.gt, true) ∧
    SizeCfg.good.writeNonZst = (.gt, false) ∧ SizeCfg.good.copyBig = (.gt, true) ∧ SizeCfg.good.copyNonZst = (.gt, false) :=
  ⟨rfl, rfl, rfl, rfl, rfl, rfl, rfl, rfl, rfl⟩

theorem store_mem_eq (m : Mem) (src n P : Nat) :
    storeWord m (.mem src n) P = some (storeAsKanalPtr .good m src n P) := by
  unfold storeWord runStore Gen.KanalPtr_store_as_kanal_ptr storeAsKanalPtr SizeTest.holds SizeCfg.good
  by_cases h : n > 0 <;> simp [Src.size, Src.bytes, Cmp.eval, h, List.drop_replicate]

theorem store_val_eq (m : Mem) (v : List Byte) (P : Nat) :
    storeWord m (.val v) P = some (storeValue .good v P) := by
  unfold storeWord runStore Gen.KanalPtr_store_as_kanal_ptr storeValue SizeTest.holds SizeCfg.good
  by_cases h : v.length > 0 <;> simp [Src.size, Src.bytes, Cmp.eval, h, List.drop_replicate]

theorem new_from_eq (m : Mem) (a n P : Nat) :
    runCtor (Gen.KanalPtr_new_from n P) m a (.mem a n) P = some (newFrom .good m a n P) := by
  unfold Gen.KanalPtr_new_from newFrom
  by_cases h : n > P <;> simp [runCtor, Cmp.eval, SizeTest.holds, good_fields.1, h, store_mem_eq]

theorem new_owned_eq (m : Mem) (a : Nat) (v : List Byte) (P : Nat) :
    runCtor (Gen.KanalPtr_new_owned v.length P) m a (.val v) P = newOwned .good v P := by
  unfold Gen.KanalPtr_new_owned newOwned
  by_cases h : v.length > P <;> simp [runCtor, Cmp.eval, SizeTest.holds, good_fields.2.1, h, store_val_eq]

theorem new_write_address_eq (m : Mem) (a n P : Nat) (s : Src) :
    runCtor (Gen.KanalPtr_new_write_address_ptr n P) m a s P = some (newWriteAddr .good a n P) := by
  unfold Gen.KanalPtr_new_write_address_ptr newWriteAddr
  by_cases h : n > P <;> simp [runCtor, Cmp.eval, SizeTest.holds, good_fields.2.2.1, h]

theorem new_unchecked_eq (m : Mem) (a n P : Nat) (s : Src) :
    runCtor (Gen.KanalPtr_new_unchecked n P) m a s P = some (newUnchecked a) := by
  simp [Gen.KanalPtr_new_unchecked, runCtor, newUnchecked]

/-! ### read / write / copy -/

theorem read_eq (m : Mem) (w : Word) (src n P : Nat) :
    (run (Gen.KanalPtr_read n P) (.mem src n) P { mem := m, word := w }).bind (·.out) = PtrM.read .good m w n P := by
  unfold Gen.KanalPtr_read PtrM.read
  by_cases h0 : n = 0
  · subst h0; simp [run, opStep, Cmp.eval, SizeTest.holds, good_fields.2.2.2.1]
  · by_cases h : n > P
    · cases w <;> simp [run, opStep, Cmp.eval, SizeTest.holds, good_fields.2.2.2.1, good_fields.2.2.2.2.1, h0, h, Src.size]
    · cases w <;> simp [run, opStep, Cmp.eval, SizeTest.holds, good_fields.2.2.2.1, good_fields.2.2.2.2.1, h0, h, Src.size]

theorem write_eq (m : Mem) (w : Word) (v : List Byte) (P : Nat) :
    (run (Gen.KanalPtr_write v.length P) (.val v) P { mem := m, word := w }).map (fun st => (st.mem, st.word))
      = write .good m w v P := by
  unfold Gen.KanalPtr_write write
  by_cases h : v.length > P
  · cases w <;> simp [run, opStep, Cmp.eval, SizeTest.holds, good_fields.2.2.2.2.2.1, h]
  · by_cases h0 : v.length > 0
    · simp [run, opStep, Cmp.eval, SizeTest.holds, good_fields.2.2.2.2.2.1, good_fields.2.2.2.2.2.2.1, h, h0, store_val_eq]
    · simp [run, opStep, Cmp.eval, SizeTest.holds, good_fields.2.2.2.2.2.1, good_fields.2.2.2.2.2.2.1, h, h0]

theorem copy_eq (m : Mem) (w : Word) (src n P : Nat) :
    (run (Gen.KanalPtr_copy n P) (.mem src n) P { mem := m, word := w }).map (fun st => (st.mem, st.word))
      = copy .good m w src n P := by
  unfold Gen.KanalPtr_copy copy
  by_cases h : n > P
  · cases w <;> simp [run, opStep, Cmp.eval, SizeTest.holds, good_fields.2.2.2.2.2.2.2.1, h]
  · by_cases h0 : n > 0
    · simp [run, opStep, Cmp.eval, SizeTest.holds, good_fields.2.2.2.2.2.2.2.1, good_fields.2.2.2.2.2.2.2.2, h, h0, store_mem_eq]
    · simp [run, opStep, Cmp.eval, SizeTest.holds, good_fields.2.2.2.2.2.2.2.1, good_fields.2.2.2.2.2.2.2.2, h, h0]

/-! ### ownership of the by-value argument -/

/-- `write(d)`: in every size class `d` is consumed exactly once -/
theorem write_consumes_once (n P : Nat) : consumed (Gen.KanalPtr_write n P) = 1 := by
  unfold Gen.KanalPtr_write consumed
  by_cases h : n > P <;> by_cases h0 : n > 0 <;> simp [h, h0]

/-- `new_owned(d)`: `d` is consumed exactly once whenever the function returns -/
theorem new_owned_consumes_once (n P : Nat) (h : ¬ n > P) : consumed (Gen.KanalPtr_new_owned n P) = 1 := by
  unfold Gen.KanalPtr_new_owned consumed; simp [h]

/-- `read`, `copy` and the by-address constructors never consume or forget anything -/
theorem borrowers_consume_nothing (n P : Nat) :
    consumed (Gen.KanalPtr_read n P) = 0 ∧ consumed (Gen.KanalPtr_copy n P) = 0 ∧
    consumed (Gen.KanalPtr_new_from n P) = 0 ∧ consumed (Gen.KanalPtr_new_write_address_ptr n P) = 0 ∧
    consumed (Gen.KanalPtr_new_unchecked n P) = 0 ∧ consumed (Gen.KanalPtr_store_as_kanal_ptr n P) = 0 := by
  unfold Gen.KanalPtr_read Gen.KanalPtr_copy Gen.KanalPtr_new_from Gen.KanalPtr_new_write_address_ptr
    Gen.KanalPtr_new_unchecked Gen.KanalPtr_store_as_kanal_ptr consumed
  refine ⟨?_, ?_, ?_, ?_, ?_, ?_⟩
  · by_cases h0 : n = 0 <;> by_cases h : n > P <;> simp [h0, h]
  · by_cases h0 : n > 0 <;> by_cases h : n > P <;> simp [h0, h]
  · by_cases h : n > P <;> simp [h]
  · by_cases h : n > P <;> simp [h]
  · simp
  · by_cases h0 : n > 0 <;> simp [h0]

/-- non-vacuity: an 8-byte pointer, a 3-byte value written inline and read back -/
example : (run (Gen.KanalPtr_write 3 8) (.val [1, 2, 3]) 8 { mem := fun _ => none, word := .uninit }).map (·.word)
    = some (.bytes [some 1, some 2, some 3, none, none, none, none, none]) := by decide

end Kanal.TiePtr

#print axioms Kanal.TiePtr.ptr_translated
#print axioms Kanal.TiePtr.store_mem_eq
#print axioms Kanal.TiePtr.store_val_eq
#print axioms Kanal.TiePtr.new_from_eq
#print axioms Kanal.TiePtr.new_owned_eq
#print axioms Kanal.TiePtr.new_write_address_eq
#print axioms Kanal.TiePtr.new_unchecked_eq
#print axioms Kanal.TiePtr.read_eq
#print axioms Kanal.TiePtr.write_eq
#print axioms Kanal.TiePtr.copy_eq
#print axioms Kanal.TiePtr.write_consumes_once
#print axioms Kanal.TiePtr.new_owned_consumes_once
#print axioms Kanal.TiePtr.borrowers_consume_nothing
