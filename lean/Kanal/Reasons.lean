/-
  Kanal.Reasons — an error is answered only for a reason the call has SEEN.

  `Why fam t st` is a discipline of the tree `t`, for ALL answers of the environment.  `fam : Role` is the family the
  call belongs to (`.send`: the send family and `SendFuture`; `.recv`: the receive family, `drain_into`,
  `ReceiveFuture`, `ReceiveStream`) — needed because the two families use DIFFERENT tests for the answer `Closed`
  (see `closedFor`).  Handles, observers and `close` obey the discipline for both.

  BOOKKEEPING (`WSt`):
  * `last`        — the state bound by the critical section in progress (`lock` / `tryLock … some c`) or, outside a
                    section, by the most recent one.  The state-dependent reasons are checked AT THE `ret (.err e)` SITE
                    against `last` (`Seen last P`): no flag per fact, and a state seen two sections ago is not a reason
                    any more (stricter than "some earlier section"; it holds for every tree of `Fine`).
                    It is the BOUND state that counts, never the published one.
  * `sawDeadline` — the clock said so: `sig.wait_timeout(deadline)` answered `false`, or `Instant::now() > deadline`
                    answered `true`.  Sticky.  (`Instant::now().checked_add(duration)` — `Eff.readClock` — computes the
                    deadline; it is not a reason.)
  * `sawWaitFail` — a wait reported failure: `sig.wait()` / `self.sig.async_blocking_wait()` answered `false`,
                    `sig.is_terminated()` answered `true`, `self.sig.poll()` answered `Ready(false)`.  Sticky.

  RULES.  Every node passes the state on; `lock` / `tryLock` set `last`; `askB` / `askP` set the two flags from the
  answer; `ret r` with `r ≠ .err _` passes; `ret (.err e)` requires `Reason fam st e`:
  * `timeout`    — `sawDeadline`;
  * `closed`     — `sawWaitFail`, or `last` satisfies the family's closed test: send family `recv_count == 0 &&
                   send_count == 0` (`Chan.sendPre` → `errClosed`, re-tested by `Fine.sendErr`), receive family
                   `recv_count == 0` (`Fine.recvHead`, `Chan.drainCS`);
  * `recvClosed` — `last` has `recv_count == 0` and `send_count ≠ 0` (`Chan.sendPre` → `errRecvClosed`, `Fine.sendErr`);
  * `sendClosed` — `last` has `send_count == 0`, an empty buffer and no blocked sender to pop (`next_send` = `None`):
                   the test of `try_recv` / `recv` / `ReceiveFuture::poll` after `Fine.recvHead` fell through;
  * `closeErr`   — `last` has `closeCS = none` (`close` on a closed channel).

  RESULTS
  * `why_*`: one lemma per `Fine` function; `why_fam : FineFam fam t → Why fam t {}`; `why_fine` over `FineProg`.
  * `Answers P t` (every `ret (.err e)` of `t` has `P e`): the table of the errors each function can answer at all;
    `NoTimeout` for every non-timed function, `only_timed_answer_timeout`, `only_close_answers_closeErr`.
  * `Tie.*`: the same about the TRANSLATED source (`Gen.*`, through the `TieCode` equalities).
  * negative theorems: `not_why_sendTimeoutNoClock`, `not_why_recvClosedAfterWake`, `not_why_tryRecvSendClosedEarly`
    (the three of the task), `not_why_observe_err`.

  ADJUSTMENT (reported).  `why_fine : ∀ t, FineProg t → Why t {}` is FALSE as stated: `FineProg.observe f` admits EVERY
  `f : Chan → Res`, among them `fun _ => .err .timeout`; the tree `Fine.observe (fun _ => .err .timeout)`, path
  `lock c; unlock c; ret (.err .timeout)`, answers `Timeout` having asked nothing (`not_why_observe_err`).  That tree is
  the translation of no function of kanal — the eleven observers answer `bool` / `num` / `cap` (`Tie.observers`) — so this
  is a finding about the generosity of `FineProg`, not about kanal.  The rules are unchanged; `why_fine` carries the
  hypothesis `ObsOk t` (if `t` is an observer `Fine.observe f`, `f` never answers an error), as `NoDangle.np_observe` does.
  No other rule had to be adjusted.
-/
import Kanal.Fine
import Kanal.Sections
import Kanal.TieCode

namespace Kanal
namespace Reasons
open Chan (SendBranch RecvBranch)

structure WSt where
  last        : Option Chan := none   -- the state bound by the section in progress / the most recent section
  sawDeadline : Bool := false         -- the clock said the deadline has passed
  sawWaitFail : Bool := false         -- a wait on the own signal reported failure (terminated)

/-- the answers by which the clock says "the deadline has passed" -/
@[simp] def clockSays : AskB → Bool → Bool
  | .waitTimeout, ans => !ans
  | .expired, ans => ans
  | _, _ => false

/-- the answers by which a wait on the own signal reports failure -/
@[simp] def waitFailed : AskB → Bool → Bool
  | .wait, ans => !ans
  | .asyncBlockingWait, ans => !ans
  | .isTerminated, ans => ans
  | _, _ => false

/-! ### the tests on the bound state, as the code makes them -/

/-- `Closed`: the send family tests both counts (`sendPre`, `sendErr`), the receive family `recv_count` only
    (`recvHead`, `drainCS`) -/
@[simp] def closedFor : Role → Chan → Prop
  | .send, c => c.recvCount = 0 ∧ c.sendCount = 0
  | .recv, c => c.recvCount = 0

/-- `ReceiveClosed`: no receiver handle, but a sender handle (`sendPre` → `errRecvClosed`) -/
def recvGone (c : Chan) : Prop := c.recvCount = 0 ∧ c.sendCount ≠ 0

/-- `SendClosed`: no sender handle, nothing buffered, no blocked sender to pop -/
def sendGone (c : Chan) : Prop := c.sendCount = 0 ∧ c.queue = [] ∧ c.nextSend.2 = none

/-- `close` refuses -/
def closeRefused (c : Chan) : Prop := c.closeCS = none

/-- the last bound state satisfies `P` -/
def Seen (last : Option Chan) (P : Chan → Prop) : Prop := ∃ c, last = some c ∧ P c

@[simp] theorem seen_some {c : Chan} {P : Chan → Prop} : Seen (some c) P ↔ P c :=
  ⟨fun ⟨_, h, hp⟩ => by cases h; exact hp, fun h => ⟨c, rfl, h⟩⟩
@[simp] theorem seen_none {P : Chan → Prop} : Seen none P ↔ False :=
  ⟨fun ⟨_, h, _⟩ => (by cases h), False.elim⟩

/-- what the call must have seen to answer `e` -/
@[simp] def Reason (fam : Role) (st : WSt) : Err → Prop
  | .timeout => st.sawDeadline = true
  | .closed => st.sawWaitFail = true ∨ Seen st.last (closedFor fam)
  | .recvClosed => Seen st.last recvGone
  | .sendClosed => Seen st.last sendGone
  | .closeErr => Seen st.last closeRefused

/-- an error needs its reason; every other result passes -/
def retOk (fam : Role) (st : WSt) (r : Res) : Prop := ∀ e, r = .err e → Reason fam st e

inductive Why (fam : Role) : Act → WSt → Prop where
  | ret {r st} : retOk fam st r → Why fam (.ret r) st
  | diverge {st} : Why fam .diverge st
  | lock {k l d w} : (∀ c : Chan, Why fam (k c) ⟨some c, d, w⟩) → Why fam (.lock k) ⟨l, d, w⟩
  | tryLock {k l d w} : (∀ c : Chan, Why fam (k (some c)) ⟨some c, d, w⟩) → Why fam (k none) ⟨l, d, w⟩ →
      Why fam (.tryLock k) ⟨l, d, w⟩
  | unlock {c k st} : Why fam k st → Why fam (.unlock c k) st
  | eff {e k st} : Why fam k st → Why fam (.eff e k) st
  | askB {q k l d w} : (∀ b, Why fam (k b) ⟨l, d || clockSays q b, w || waitFailed q b⟩) → Why fam (.askB q k) ⟨l, d, w⟩
  | askM {q k st} : (∀ m, Why fam (k m) st) → Why fam (.askM q k) st
  | askP {k l d w} : Why fam (k none) ⟨l, d, w⟩ → Why fam (k (some true)) ⟨l, d, w⟩ → Why fam (k (some false)) ⟨l, d, true⟩ →
      Why fam (.askP k) ⟨l, d, w⟩

variable {fam : Role}

/-! ### `Why` as rewriting rules -/

@[simp] theorem retOk_err {st e} : retOk fam st (.err e) ↔ Reason fam st e :=
  ⟨fun h => h e rfl, fun h e' he => by cases he; exact h⟩
theorem retOk_of_ne {st r} (h : ∀ e, r ≠ .err e) : retOk fam st r := fun e he => absurd he (h e)
@[simp] theorem retOk_unit {st} : retOk fam st .unit := retOk_of_ne (by simp)
@[simp] theorem retOk_bool {st b} : retOk fam st (.bool b) := retOk_of_ne (by simp)
@[simp] theorem retOk_val {st m} : retOk fam st (.val m) := retOk_of_ne (by simp)
@[simp] theorem retOk_none {st} : retOk fam st .none := retOk_of_ne (by simp)
@[simp] theorem retOk_num {st n} : retOk fam st (.num n) := retOk_of_ne (by simp)
@[simp] theorem retOk_cap {st n} : retOk fam st (.cap n) := retOk_of_ne (by simp)
@[simp] theorem retOk_drained {st n ms} : retOk fam st (.drained n ms) := retOk_of_ne (by simp)
@[simp] theorem retOk_pending {st} : retOk fam st .pending := retOk_of_ne (by simp)
@[simp] theorem retOk_blocked {st s} : retOk fam st (.blocked s) := retOk_of_ne (by simp)
@[simp] theorem retOk_streamEnd {st} : retOk fam st .streamEnd := retOk_of_ne (by simp)
@[simp] theorem retOk_panic {st} : retOk fam st .panic := retOk_of_ne (by simp)
@[simp] theorem retOk_spin {st} : retOk fam st .spin := retOk_of_ne (by simp)

@[simp] theorem why_ret {r st} : Why fam (.ret r) st ↔ retOk fam st r :=
  ⟨fun h => by cases h with | ret h => exact h, .ret⟩
@[simp] theorem why_diverge {st} : Why fam .diverge st ↔ True := ⟨fun _ => trivial, fun _ => .diverge⟩
@[simp] theorem why_lock {k l d w} : Why fam (.lock k) ⟨l, d, w⟩ ↔ ∀ c : Chan, Why fam (k c) ⟨some c, d, w⟩ :=
  ⟨fun h => by cases h with | lock h => exact h, .lock⟩
@[simp] theorem why_tryLock {k l d w} : Why fam (.tryLock k) ⟨l, d, w⟩ ↔
    (∀ c : Chan, Why fam (k (some c)) ⟨some c, d, w⟩) ∧ Why fam (k none) ⟨l, d, w⟩ :=
  ⟨fun h => by cases h with | tryLock h1 h2 => exact ⟨h1, h2⟩, fun ⟨h1, h2⟩ => .tryLock h1 h2⟩
@[simp] theorem why_unlock {c k st} : Why fam (.unlock c k) st ↔ Why fam k st :=
  ⟨fun h => by cases h with | unlock h => exact h, .unlock⟩
@[simp] theorem why_eff {e k st} : Why fam (.eff e k) st ↔ Why fam k st :=
  ⟨fun h => by cases h with | eff h => exact h, .eff⟩
@[simp] theorem why_askB {q k l d w} : Why fam (.askB q k) ⟨l, d, w⟩ ↔
    ∀ b, Why fam (k b) ⟨l, d || clockSays q b, w || waitFailed q b⟩ :=
  ⟨fun h => by cases h with | askB h => exact h, .askB⟩
@[simp] theorem why_askM {q k st} : Why fam (.askM q k) st ↔ ∀ m, Why fam (k m) st :=
  ⟨fun h => by cases h with | askM h => exact h, .askM⟩
@[simp] theorem why_askP {k l d w} : Why fam (.askP k) ⟨l, d, w⟩ ↔
    Why fam (k none) ⟨l, d, w⟩ ∧ Why fam (k (some true)) ⟨l, d, w⟩ ∧ Why fam (k (some false)) ⟨l, d, true⟩ :=
  ⟨fun h => by cases h with | askP h1 h2 h3 => exact ⟨h1, h2, h3⟩, fun ⟨h1, h2, h3⟩ => .askP h1 h2 h3⟩
@[simp] theorem why_ite {c : Prop} [Decidable c] {t e : Act} {st} :
    Why fam (if c then t else e) st ↔ (c → Why fam t st) ∧ (¬ c → Why fam e st) := by
  split <;> simp [*]

/-! ### the combinators of `Fine` -/

theorem why_forEach_eff {α : Type} (l : List α) (f : α → Eff) (k : Act) {st} :
    Why fam (Act.forEach l (fun a next => .eff (f a) next) k) st ↔ Why fam k st := by
  induction l with
  | nil => simp
  | cons a l ih => simp [ih]

@[simp] theorem why_terminate (l : List SigId) (k : Act) {st} : Why fam (Fine.terminate l k) st ↔ Why fam k st := by
  unfold Fine.terminate; exact why_forEach_eff l _ k
@[simp] theorem why_drainQueue (q : List Msg) (k : Act) {st} : Why fam (Fine.drainQueue q k) st ↔ Why fam k st := by
  unfold Fine.drainQueue; exact why_forEach_eff q _ k
@[simp] theorem why_drainSenders (l : List SigId) (k : Act) {st} : Why fam (Fine.drainSenders l k) st ↔ Why fam k st := by
  unfold Fine.drainSenders
  induction l with
  | nil => simp
  | cons a l ih => simp [ih]
@[simp] theorem why_dropData (k : Act) {l d w} : Why fam (Fine.dropData k) ⟨l, d, w⟩ ↔ Why fam k ⟨l, d, w⟩ := by
  unfold Fine.dropData; simp
@[simp] theorem why_dropLocal (k : Act) {l d w} : Why fam (Fine.dropLocal k) ⟨l, d, w⟩ ↔ Why fam k ⟨l, d, w⟩ := by
  unfold Fine.dropLocal; simp
@[simp] theorem why_failBack (o : Bool) (k : Act) {l d w} : Why fam (Fine.failBack o k) ⟨l, d, w⟩ ↔ Why fam k ⟨l, d, w⟩ := by
  unfold Fine.failBack; cases o <;> simp
@[simp] theorem why_take (o : Bool) (k : Act) {st} : Why fam (Fine.take o k) st ↔ Why fam k st := by
  unfold Fine.take; cases o <;> simp
@[simp] theorem why_guardNone (o : Bool) (k : Act) {l d w} : Why fam (Fine.guardNone o k) ⟨l, d, w⟩ ↔ Why fam k ⟨l, d, w⟩ := by
  unfold Fine.guardNone; cases o <;> simp
@[simp] theorem why_register (k : Act) {l d w} : Why fam (Fine.register k) ⟨l, d, w⟩ ↔ Why fam k ⟨l, d, w⟩ := by
  unfold Fine.register; simp
@[simp] theorem why_readOwn {l d w} : Why fam Fine.readOwn ⟨l, d, w⟩ := by
  unfold Fine.readOwn; simp

/-! ### what the critical sections test -/

theorem sendPre_errClosed {c : Chan} {m : Msg} (h : (c.sendPre m).2 = .errClosed) : c.recvCount = 0 ∧ c.sendCount = 0 := by
  unfold Chan.sendPre at h
  split at h
  · rename_i hr
    split at h
    · rename_i hs; exact ⟨by simpa using hr, by simpa using hs⟩
    · simp at h
  · split at h
    · simp at h
    · split at h <;> simp at h

theorem sendPre_errRecvClosed {c : Chan} {m : Msg} (h : (c.sendPre m).2 = .errRecvClosed) : recvGone c := by
  unfold Chan.sendPre at h
  split at h
  · rename_i hr
    split at h
    · simp at h
    · rename_i hs; exact ⟨by simpa using hr, by simpa using hs⟩
  · split at h
    · simp at h
    · split at h <;> simp at h

theorem sendCS_snd (c : Chan) (m : Msg) (me : SigId) : (c.sendCS m me).2 = (c.sendPre m).2 := by
  unfold Chan.sendCS
  rcases hp : c.sendPre m with ⟨c1, br⟩
  cases br <;> rfl

theorem nextSend_sendCount (c : Chan) : c.nextSend.1.sendCount = c.sendCount := by
  unfold Chan.nextSend
  split
  · rfl
  · split <;> rfl

/-- `recvHead` fell through (empty buffer, no blocked sender) and found `send_count == 0` -/
theorem sendGone_of {c c1 : Chan} (hq : c.queue = []) (hnx : c.nextSend = (c1, none)) (h0 : c1.sendCount = 0) : sendGone c := by
  have hs := nextSend_sendCount c
  rw [hnx] at hs
  exact ⟨by rw [← hs]; exact h0, hq, by rw [hnx]⟩

theorem drainCS_none {c : Chan} (h : c.drainCS = none) : c.recvCount = 0 := by
  unfold Chan.drainCS at h
  split at h
  · rename_i hr; simpa using hr
  · simp at h

/-! ### one lemma per function -/

/-- an observer that never answers an error (all eleven of kanal: `Tie.observers`) -/
def Obs (f : Chan → Res) : Prop := ∀ c e, f c ≠ .err e

theorem why_observe (f : Chan → Res) (hf : Obs f) : Why fam (Fine.observe f) {} := by
  unfold Fine.observe
  simp
  intro c
  exact retOk_of_ne (hf c)

theorem why_clone (side : Side) : Why fam (Fine.cloneHandle side) {} := by unfold Fine.cloneHandle; simp
theorem why_drop (side : Side) : Why fam (Fine.dropHandle side) {} := by unfold Fine.dropHandle; simp

/-- `close`: `CloseError` exactly on the state on which `closeCS` refuses -/
theorem why_close : Why fam Fine.close {} := by
  unfold Fine.close
  simp
  intro c
  split
  · rename_i h; simp [closeRefused, h]
  · simp

/-- the error answers of the send family: `Closed` on both counts zero, `ReceiveClosed` on `recv_count == 0` alone -/
theorem why_sendErr {c : Chan} {d w} (hr : c.recvCount = 0) : Why .send (Fine.sendErr c) ⟨some c, d, w⟩ := by
  unfold Fine.sendErr
  simp +contextual [recvGone, hr]

theorem why_trySend (opt rt : Bool) (x : Ctx) : Why .send (Fine.trySend opt rt x) {} := by
  unfold Fine.trySend Fine.acquire
  have key : ∀ c : Chan, Why .send
      (match c.sendPre x.m with
        | (_, .errClosed) | (_, .errRecvClosed) => Fine.sendErr c
        | (c1, .handoff r) => .unlock c1 (Fine.take opt (.eff (.sigSend r x.m) (.ret (.bool true))))
        | (c1, .buffered) => Fine.take opt (.unlock c1 (.ret (.bool true)))
        | (c1, .full) => .unlock c1 (.ret (.bool false))) ⟨some c, false, false⟩ := by
    intro c
    have h1 := @sendPre_errClosed c x.m
    have h2 := @sendPre_errRecvClosed c x.m
    rcases hb : c.sendPre x.m with ⟨c1, br⟩
    rw [hb] at h1 h2
    cases br <;> simp
    · exact why_sendErr (h1 rfl).1
    · exact why_sendErr (h2 rfl).1
  simp
  cases rt <;> simp <;> exact key

/-- a timed sender after `wait_timeout`: `Timeout` only on the answer `false`; `Closed` only after `is_terminated` = `true`
    or `wait` = `false` -/
theorem why_timedSendTail (opt : Bool) (x : Ctx) {l d w} : Why fam (Fine.timedSendTail opt x) ⟨l, d, w⟩ := by
  unfold Fine.timedSendTail
  simp

theorem why_send (timed opt : Bool) (x : Ctx) : Why .send (Fine.send timed opt x) {} := by
  unfold Fine.send
  have key : ∀ c : Chan, Why .send
      (match c.sendCS x.m x.me with
        | (_, .errClosed) | (_, .errRecvClosed) => Fine.sendErr c
        | (c1, .handoff r) => .unlock c1 (Fine.take opt (.eff (.sigSend r x.m) (.ret .unit)))
        | (c1, .buffered) => Fine.take opt (.unlock c1 (.ret .unit))
        | (c1, .full) =>
          .eff (if opt then .wrapTaken else .wrapData) <| .eff .newSendSig <| .unlock c1 <|
            if timed then Fine.timedSendTail opt x
            else .askB .wait fun ok => if ok then .ret .unit else Fine.dropData (.ret (.err .closed))) ⟨some c, false, false⟩ := by
    intro c
    have h1 := @sendPre_errClosed c x.m
    have h2 := @sendPre_errRecvClosed c x.m
    rw [← sendCS_snd c x.m x.me] at h1 h2
    rcases hb : c.sendCS x.m x.me with ⟨c1, br⟩
    rw [hb] at h1 h2
    cases br <;> simp [why_timedSendTail]
    · exact why_sendErr (h1 rfl).1
    · exact why_sendErr (h2 rfl).1
  simp
  cases timed <;> simp <;> exact key

/-- the common head of every receive: `Closed` exactly on `recv_count == 0`; `onNone` runs on an empty buffer with no
    blocked sender to pop -/
theorem why_recvHead {c : Chan} {wrap closedFirst : Act → Act} {onNone : Chan → Act} {d w}
    (hw : ∀ k st, Why .recv k st → Why .recv (wrap k) st)
    (hc : ∀ k st, Why .recv k st → Why .recv (closedFirst k) st)
    (hn : ∀ c1, c.queue = [] → c.nextSend = (c1, none) → Why .recv (onNone c1) ⟨some c, d, w⟩) :
    Why .recv (Fine.recvHead c wrap closedFirst onNone) ⟨some c, d, w⟩ := by
  unfold Fine.recvHead
  split
  · rename_i hr
    apply hc
    have : c.recvCount = 0 := by simpa using hr
    simp [this]
  · split
    · split
      · simp; apply hw; simp
      · simp; apply hw; simp
    · rename_i hq
      split
      · simp; apply hw; simp
      · rename_i c1 hnx; exact hn c1 hq hnx

theorem why_tryRecv (rt : Bool) : Why .recv (Fine.tryRecv rt) {} := by
  unfold Fine.tryRecv Fine.acquire
  have key : ∀ c : Chan, Why .recv (Fine.recvHead c id id fun c1 =>
      if c1.sendCount == 0 then .unlock c1 (.ret (.err .sendClosed)) else .unlock c1 (.ret .none)) ⟨some c, false, false⟩ := by
    intro c
    apply why_recvHead (fun k st h => h) (fun k st h => h)
    intro c1 hq hnx
    simp
    exact sendGone_of hq hnx
  cases rt <;> simp [-beq_iff_eq] <;> exact key

theorem why_timedRecvTail (x : Ctx) {l d w} : Why fam (Fine.timedRecvTail x) ⟨l, d, w⟩ := by
  unfold Fine.timedRecvTail
  simp

theorem why_recv (timed : Bool) (x : Ctx) : Why .recv (Fine.recv timed x) {} := by
  unfold Fine.recv
  have key : ∀ c : Chan, Why .recv
      (Fine.recvHead c id id fun c1 =>
        (fun k => if timed then Act.askB .expired fun e => if e then .unlock c1 (.ret (.err .timeout)) else k else k) <|
        if c1.sendCount == 0 then .unlock c1 (.ret (.err .sendClosed))
        else .eff .newRetSlot <| .eff .newRecvSig <| .unlock (c1.pushWaiter x.me) <|
          if timed then Fine.timedRecvTail x
          else .askB .wait fun ok => if ok then Fine.readOwn else .ret (.err .closed)) ⟨some c, false, false⟩ := by
    intro c
    apply why_recvHead (fun k st h => h) (fun k st h => h)
    intro c1 hq hnx
    have hg := @sendGone_of c c1 hq hnx
    cases timed <;> simp [why_timedRecvTail] <;> exact hg
  cases timed <;> simp [-beq_iff_eq] <;> exact key

theorem why_drain (x : Ctx) : Why .recv (Fine.drain x) {} := by
  unfold Fine.drain
  simp
  intro c
  split
  · rename_i h; simp [drainCS_none h]
  · simp

theorem why_dropSendFut (x : Ctx) : Why fam (Fine.dropSendFut x) {} := by
  unfold Fine.dropSendFut
  simp
theorem why_dropRecvFut (x : Ctx) : Why fam (Fine.dropRecvFut x) {} := by
  unfold Fine.dropRecvFut
  simp

theorem why_pollSend (x : Ctx) : Why .send (Fine.pollSend x) {} := by
  unfold Fine.pollSend
  split
  · simp
    intro c
    have h1 := @sendPre_errClosed c x.m
    have h2 := @sendPre_errRecvClosed c x.m
    rw [← sendCS_snd c x.m x.me] at h1 h2
    rcases hb : c.sendCS x.m x.me with ⟨c1, br⟩
    rw [hb] at h1 h2
    cases br <;> simp
    · exact h1 rfl
    · exact h2 rfl
  · simp
  · simp

theorem why_pollRecvRound (x : Ctx) (st : FutSt) (again : Act) {l d w} (ha : Why .recv again ⟨l, d, w⟩) :
    Why .recv (Fine.pollRecvRound x st again) ⟨l, d, w⟩ := by
  unfold Fine.pollRecvRound
  split
  · simp only [why_lock]
    intro c
    apply why_recvHead (fun k st h => by simp [h]) (fun k st h => by simp [h])
    intro c1 hq hnx
    simp
    exact sendGone_of hq hnx
  · simp
  · simp [ha]

theorem why_pollRecv (x : Ctx) : Why .recv (Fine.pollRecv x) {} := by
  unfold Fine.pollRecv
  exact why_pollRecvRound x _ _ (why_pollRecvRound x _ _ (by simp))

/-- `Act.bind`: the continuation may rely on the reason the first part had for its result -/
theorem why_bind {f : Res → Act} (hf : ∀ r st, retOk fam st r → Why fam (f r) st) :
    ∀ (a : Act) (st : WSt), Why fam a st → Why fam (a.bind f) st := by
  intro a
  induction a with
  | ret r => intro st h; exact hf r st (why_ret.mp h)
  | diverge => intro st _; simp [Act.bind]
  | lock k ih => intro ⟨l, d, w⟩ h; simp only [Act.bind, why_lock] at h ⊢; exact fun c => ih c _ (h c)
  | tryLock k ih =>
    intro ⟨l, d, w⟩ h; simp only [Act.bind, why_tryLock] at h ⊢
    exact ⟨fun c => ih _ _ (h.1 c), ih _ _ h.2⟩
  | unlock c k ih => intro st h; simp only [Act.bind, why_unlock] at h ⊢; exact ih _ h
  | eff e k ih => intro st h; simp only [Act.bind, why_eff] at h ⊢; exact ih _ h
  | askB q k ih => intro ⟨l, d, w⟩ h; simp only [Act.bind, why_askB] at h ⊢; exact fun b => ih b _ (h b)
  | askM q k ih => intro st h; simp only [Act.bind, why_askM] at h ⊢; exact fun m => ih m _ (h m)
  | askP k ih =>
    intro ⟨l, d, w⟩ h; simp only [Act.bind, why_askP] at h ⊢
    exact ⟨ih _ _ h.1, ih _ _ h.2.1, ih _ _ h.2.2⟩

/-- `poll_next` answers no error at all: an error of the wrapped future ends the stream -/
theorem why_pollNext (x : Ctx) : Why .recv (Fine.pollNext x) {} := by
  unfold Fine.pollNext
  split
  · simp
  · refine why_bind ?_ _ _ (why_pollRecv x)
    intro r st _
    cases r <;> simp

/-! ### every program of the machine -/

/-- `FineProg` with the family made explicit (handles, observers and `close` belong to both) -/
inductive FineFam : Role → Act → Prop where
  | observe (fam : Role) (f : Chan → Res) : Obs f → FineFam fam (Fine.observe f)
  | cloneHandle (fam : Role) (side : Side) : FineFam fam (Fine.cloneHandle side)
  | dropHandle (fam : Role) (side : Side) : FineFam fam (Fine.dropHandle side)
  | close (fam : Role) : FineFam fam Fine.close
  | trySend (opt rt : Bool) (x : Ctx) : FineFam .send (Fine.trySend opt rt x)
  | send (timed opt : Bool) (x : Ctx) : FineFam .send (Fine.send timed opt x)
  | tryRecv (rt : Bool) : FineFam .recv (Fine.tryRecv rt)
  | recv (timed : Bool) (x : Ctx) : FineFam .recv (Fine.recv timed x)
  | drain (x : Ctx) : FineFam .recv (Fine.drain x)
  | dropSendFut (x : Ctx) : FineFam .send (Fine.dropSendFut x)
  | dropRecvFut (x : Ctx) : FineFam .recv (Fine.dropRecvFut x)
  | pollSend (x : Ctx) : FineFam .send (Fine.pollSend x)
  | pollRecv (x : Ctx) : FineFam .recv (Fine.pollRecv x)
  | pollNext (x : Ctx) : FineFam .recv (Fine.pollNext x)

theorem why_fam {t : Act} (h : FineFam fam t) : Why fam t {} := by
  cases h
  · exact why_observe _ ‹_›
  · exact why_clone _
  · exact why_drop _
  · exact why_close
  · exact why_trySend _ _ _
  · exact why_send _ _ _
  · exact why_tryRecv _
  · exact why_recv _ _
  · exact why_drain _
  · exact why_dropSendFut _
  · exact why_dropRecvFut _
  · exact why_pollSend _
  · exact why_pollRecv _
  · exact why_pollNext _

/-- the hypothesis `FineProg` lacks: an observer answers no error -/
def ObsOk (t : Act) : Prop := ∀ f, t = Fine.observe f → Obs f

theorem fineProg_fam {t : Act} (h : Machine.FineProg t) (ho : ObsOk t) : ∃ fam, FineFam fam t := by
  cases h
  · exact ⟨.recv, .observe _ _ (ho _ rfl)⟩
  · exact ⟨.recv, .cloneHandle _ _⟩
  · exact ⟨.recv, .dropHandle _ _⟩
  · exact ⟨.recv, .close _⟩
  · exact ⟨_, .trySend _ _ _⟩
  · exact ⟨_, .send _ _ _⟩
  · exact ⟨_, .tryRecv _⟩
  · exact ⟨_, .recv _ _⟩
  · exact ⟨_, .drain _⟩
  · exact ⟨_, .dropSendFut _⟩
  · exact ⟨_, .dropRecvFut _⟩
  · exact ⟨_, .pollSend _⟩
  · exact ⟨_, .pollRecv _⟩
  · exact ⟨_, .pollNext _⟩

/-- Every program of the machine answers an error only for a reason it has seen (family: `fineProg_fam`). -/
theorem why_fine : ∀ t, Machine.FineProg t → ObsOk t → ∃ fam, Why fam t {} := by
  intro t h ho
  obtain ⟨fam, hf⟩ := fineProg_fam h ho
  exact ⟨fam, why_fam hf⟩


/-! ### the rules, one by one (the factoring through `clockSays` / `waitFailed` / `Reason` is checked, not trusted) -/

theorem why_timeout_iff {l d w} : Why fam (.ret (.err .timeout)) ⟨l, d, w⟩ ↔ d = true := by simp
theorem why_closed_iff {l d w} : Why fam (.ret (.err .closed)) ⟨l, d, w⟩ ↔ w = true ∨ ∃ c, l = some c ∧ closedFor fam c := by
  simp [Seen]
theorem why_recvClosed_iff {l d w} :
    Why fam (.ret (.err .recvClosed)) ⟨l, d, w⟩ ↔ ∃ c, l = some c ∧ c.recvCount = 0 ∧ c.sendCount ≠ 0 := by
  simp [Seen, recvGone]
theorem why_sendClosed_iff {l d w} :
    Why fam (.ret (.err .sendClosed)) ⟨l, d, w⟩ ↔ ∃ c, l = some c ∧ c.sendCount = 0 ∧ c.queue = [] ∧ c.nextSend.2 = none := by
  simp [Seen, sendGone]
theorem why_closeErr_iff {l d w} : Why fam (.ret (.err .closeErr)) ⟨l, d, w⟩ ↔ ∃ c, l = some c ∧ c.closeCS = none := by
  simp [Seen, closeRefused]
theorem why_waitTimeout_iff {k l d w} :
    Why fam (.askB .waitTimeout k) ⟨l, d, w⟩ ↔ Why fam (k true) ⟨l, d, w⟩ ∧ Why fam (k false) ⟨l, true, w⟩ := by
  simp [and_comm]
theorem why_expired_iff {k l d w} :
    Why fam (.askB .expired k) ⟨l, d, w⟩ ↔ Why fam (k true) ⟨l, true, w⟩ ∧ Why fam (k false) ⟨l, d, w⟩ := by
  simp [and_comm]
theorem why_wait_iff {k l d w} :
    Why fam (.askB .wait k) ⟨l, d, w⟩ ↔ Why fam (k true) ⟨l, d, w⟩ ∧ Why fam (k false) ⟨l, d, true⟩ := by
  simp [and_comm]
theorem why_asyncBlockingWait_iff {k l d w} :
    Why fam (.askB .asyncBlockingWait k) ⟨l, d, w⟩ ↔ Why fam (k true) ⟨l, d, w⟩ ∧ Why fam (k false) ⟨l, d, true⟩ := by
  simp [and_comm]
theorem why_isTerminated_iff {k l d w} :
    Why fam (.askB .isTerminated k) ⟨l, d, w⟩ ↔ Why fam (k true) ⟨l, d, true⟩ ∧ Why fam (k false) ⟨l, d, w⟩ := by
  simp [and_comm]
/-- every other question (and `Eff.readClock`, by `why_eff`) is no reason for anything -/
theorem why_otherQuestion_iff {q k l d w} (h1 : ∀ b, clockSays q b = false) (h2 : ∀ b, waitFailed q b = false) :
    Why fam (.askB q k) ⟨l, d, w⟩ ↔ ∀ b, Why fam (k b) ⟨l, d, w⟩ := by
  rw [why_askB]; simp only [h1, h2, Bool.or_false]

/-! ### which errors a function can answer at all -/

/-- every `ret (.err e)` of the tree has `P e` -/
inductive Answers (P : Err → Prop) : Act → Prop where
  | ret {r} : (∀ e, r = .err e → P e) → Answers P (.ret r)
  | diverge : Answers P .diverge
  | lock {k} : (∀ c, Answers P (k c)) → Answers P (.lock k)
  | tryLock {k} : (∀ c, Answers P (k c)) → Answers P (.tryLock k)
  | unlock {c k} : Answers P k → Answers P (.unlock c k)
  | eff {e k} : Answers P k → Answers P (.eff e k)
  | askB {q k} : (∀ b, Answers P (k b)) → Answers P (.askB q k)
  | askM {q k} : (∀ m, Answers P (k m)) → Answers P (.askM q k)
  | askP {k} : (∀ r, Answers P (k r)) → Answers P (.askP k)

/-- no `ret (.err .timeout)` anywhere -/
abbrev NoTimeout (t : Act) : Prop := Answers (fun e => e ≠ .timeout) t
/-- no error answer at all -/
abbrev NoErr (t : Act) : Prop := Answers (fun _ => False) t

variable {P : Err → Prop}

@[simp] theorem ans_ret {r} : Answers P (.ret r) ↔ ∀ e, r = .err e → P e :=
  ⟨fun h => by cases h with | ret h => exact h, .ret⟩
@[simp] theorem ans_diverge : Answers P .diverge ↔ True := ⟨fun _ => trivial, fun _ => .diverge⟩
@[simp] theorem ans_lock {k} : Answers P (.lock k) ↔ ∀ c, Answers P (k c) :=
  ⟨fun h => by cases h with | lock h => exact h, .lock⟩
@[simp] theorem ans_tryLock {k} : Answers P (.tryLock k) ↔ ∀ c, Answers P (k c) :=
  ⟨fun h => by cases h with | tryLock h => exact h, .tryLock⟩
@[simp] theorem ans_unlock {c k} : Answers P (.unlock c k) ↔ Answers P k :=
  ⟨fun h => by cases h with | unlock h => exact h, .unlock⟩
@[simp] theorem ans_eff {e k} : Answers P (.eff e k) ↔ Answers P k :=
  ⟨fun h => by cases h with | eff h => exact h, .eff⟩
@[simp] theorem ans_askB {q k} : Answers P (.askB q k) ↔ ∀ b, Answers P (k b) :=
  ⟨fun h => by cases h with | askB h => exact h, .askB⟩
@[simp] theorem ans_askM {q k} : Answers P (.askM q k) ↔ ∀ m, Answers P (k m) :=
  ⟨fun h => by cases h with | askM h => exact h, .askM⟩
@[simp] theorem ans_askP {k} : Answers P (.askP k) ↔ ∀ r, Answers P (k r) :=
  ⟨fun h => by cases h with | askP h => exact h, .askP⟩
@[simp] theorem ans_ite {c : Prop} [Decidable c] {t e : Act} :
    Answers P (if c then t else e) ↔ (c → Answers P t) ∧ (¬ c → Answers P e) := by
  split <;> simp [*]

theorem Answers.mono {Q : Err → Prop} (hpq : ∀ e, P e → Q e) {t : Act} (h : Answers P t) : Answers Q t := by
  induction h with
  | ret h => exact .ret fun e he => hpq e (h e he)
  | diverge => exact .diverge
  | lock _ ih => exact .lock ih
  | tryLock _ ih => exact .tryLock ih
  | unlock _ ih => exact .unlock ih
  | eff _ ih => exact .eff ih
  | askB _ ih => exact .askB ih
  | askM _ ih => exact .askM ih
  | askP _ ih => exact .askP ih

theorem ans_forEach_eff {α : Type} (l : List α) (f : α → Eff) (k : Act) :
    Answers P (Act.forEach l (fun a next => .eff (f a) next) k) ↔ Answers P k := by
  induction l with
  | nil => simp
  | cons a l ih => simp [ih]
@[simp] theorem ans_terminate (l : List SigId) (k : Act) : Answers P (Fine.terminate l k) ↔ Answers P k := by
  unfold Fine.terminate; exact ans_forEach_eff l _ k
@[simp] theorem ans_drainQueue (q : List Msg) (k : Act) : Answers P (Fine.drainQueue q k) ↔ Answers P k := by
  unfold Fine.drainQueue; exact ans_forEach_eff q _ k
@[simp] theorem ans_drainSenders (l : List SigId) (k : Act) : Answers P (Fine.drainSenders l k) ↔ Answers P k := by
  unfold Fine.drainSenders
  induction l with
  | nil => simp
  | cons a l ih => simp [ih]
@[simp] theorem ans_dropData (k : Act) : Answers P (Fine.dropData k) ↔ Answers P k := by
  unfold Fine.dropData; simp
@[simp] theorem ans_dropLocal (k : Act) : Answers P (Fine.dropLocal k) ↔ Answers P k := by
  unfold Fine.dropLocal; simp
@[simp] theorem ans_failBack (o : Bool) (k : Act) : Answers P (Fine.failBack o k) ↔ Answers P k := by
  unfold Fine.failBack; cases o <;> simp
@[simp] theorem ans_take (o : Bool) (k : Act) : Answers P (Fine.take o k) ↔ Answers P k := by
  unfold Fine.take; cases o <;> simp
@[simp] theorem ans_guardNone (o : Bool) (k : Act) : Answers P (Fine.guardNone o k) ↔ Answers P k := by
  unfold Fine.guardNone; cases o <;> simp
@[simp] theorem ans_register (k : Act) : Answers P (Fine.register k) ↔ Answers P k := by
  unfold Fine.register; simp
@[simp] theorem ans_readOwn : Answers P Fine.readOwn := by
  unfold Fine.readOwn; simp

theorem ans_observe (f : Chan → Res) (hf : Obs f) : NoErr (Fine.observe f) := by
  unfold Fine.observe; simp; exact fun c e h => hf c e h
theorem ans_clone (side : Side) : NoErr (Fine.cloneHandle side) := by unfold Fine.cloneHandle; simp
theorem ans_drop (side : Side) : NoErr (Fine.dropHandle side) := by unfold Fine.dropHandle; simp
theorem ans_close : Answers (fun e => e = .closeErr) Fine.close := by
  unfold Fine.close; simp; intro c; split <;> simp

theorem ans_sendErr (c : Chan) (hc : P .closed) (hr : P .recvClosed) : Answers P (Fine.sendErr c) := by
  unfold Fine.sendErr; simp [hc, hr]

theorem ans_trySend (opt rt : Bool) (x : Ctx) :
    Answers (fun e => e = .closed ∨ e = .recvClosed) (Fine.trySend opt rt x) := by
  unfold Fine.trySend Fine.acquire
  simp
  cases rt <;> simp
  · intro c
    rcases hb : c.sendPre x.m with ⟨c1, br⟩
    cases br <;> simp [ans_sendErr]
  · intro oc
    cases oc <;> simp
    rename_i c
    rcases hb : c.sendPre x.m with ⟨c1, br⟩
    cases br <;> simp [ans_sendErr]

theorem ans_timedSendTail (opt : Bool) (x : Ctx) :
    Answers (fun e => e = .closed ∨ e = .timeout) (Fine.timedSendTail opt x) := by
  unfold Fine.timedSendTail; simp

/-- `send` (`timed = false`) cannot answer `Timeout`; `send_timeout` / `send_option_timeout` can -/
theorem ans_send (timed opt : Bool) (x : Ctx) :
    Answers (fun e => e = .closed ∨ e = .recvClosed ∨ (timed = true ∧ e = .timeout)) (Fine.send timed opt x) := by
  unfold Fine.send
  simp
  cases timed <;> simp
  all_goals
    intro c
    rcases hb : c.sendCS x.m x.me with ⟨c1, br⟩
    cases br <;> simp [ans_sendErr]
  exact (ans_timedSendTail opt x).mono (by intro e h; rcases h with h | h <;> simp [h])

theorem ans_recvHead {c : Chan} {wrap closedFirst : Act → Act} {onNone : Chan → Act} (hp : P .closed)
    (hw : ∀ k, Answers P k → Answers P (wrap k)) (hc : ∀ k, Answers P k → Answers P (closedFirst k))
    (hn : ∀ c1, Answers P (onNone c1)) : Answers P (Fine.recvHead c wrap closedFirst onNone) := by
  unfold Fine.recvHead
  split
  · apply hc; simp [hp]
  · split
    · split
      · simp; apply hw; simp
      · simp; apply hw; simp
    · split
      · simp; apply hw; simp
      · apply hn

theorem ans_tryRecv (rt : Bool) : Answers (fun e => e = .closed ∨ e = .sendClosed) (Fine.tryRecv rt) := by
  unfold Fine.tryRecv Fine.acquire
  cases rt <;> simp
  · intro c; apply ans_recvHead <;> simp
  · intro oc; cases oc <;> simp
    apply ans_recvHead <;> simp

theorem ans_timedRecvTail (x : Ctx) : Answers (fun e => e = .closed ∨ e = .timeout) (Fine.timedRecvTail x) := by
  unfold Fine.timedRecvTail; simp

/-- `recv` (`timed = false`) cannot answer `Timeout`; `recv_timeout` can -/
theorem ans_recv (timed : Bool) (x : Ctx) :
    Answers (fun e => e = .closed ∨ e = .sendClosed ∨ (timed = true ∧ e = .timeout)) (Fine.recv timed x) := by
  unfold Fine.recv
  cases timed <;> simp <;> intro c <;> apply ans_recvHead <;> simp
  intro c1 _
  exact (ans_timedRecvTail x).mono (by intro e h; rcases h with h | h <;> simp [h])

theorem ans_drain (x : Ctx) : Answers (fun e => e = .closed) (Fine.drain x) := by
  unfold Fine.drain
  simp
  intro c
  split <;> simp

theorem ans_dropSendFut (x : Ctx) : NoErr (Fine.dropSendFut x) := by
  unfold Fine.dropSendFut; simp
theorem ans_dropRecvFut (x : Ctx) : NoErr (Fine.dropRecvFut x) := by
  unfold Fine.dropRecvFut; simp

theorem ans_pollSend (x : Ctx) : Answers (fun e => e = .closed ∨ e = .recvClosed) (Fine.pollSend x) := by
  unfold Fine.pollSend
  split
  · simp
    intro c
    rcases hb : c.sendCS x.m x.me with ⟨c1, br⟩
    cases br <;> simp
  · simp
    intro r
    split <;> simp
  · simp

theorem ans_pollRecvRound (x : Ctx) (st : FutSt) (again : Act)
    (ha : Answers (fun e => e = .closed ∨ e = .sendClosed) again) :
    Answers (fun e => e = .closed ∨ e = .sendClosed) (Fine.pollRecvRound x st again) := by
  unfold Fine.pollRecvRound
  split
  · simp
    intro c
    apply ans_recvHead <;> simp
  · simp
    intro r
    split <;> simp
  · simp [ha]

theorem ans_pollRecv (x : Ctx) : Answers (fun e => e = .closed ∨ e = .sendClosed) (Fine.pollRecv x) := by
  unfold Fine.pollRecv
  exact ans_pollRecvRound x _ _ (ans_pollRecvRound x _ _ (by simp))

theorem ans_bind {f : Res → Act} (hf : ∀ r, Answers P (f r)) : ∀ a : Act, Answers P (a.bind f) := by
  intro a
  induction a with
  | ret r => exact hf r
  | diverge => simp [Act.bind]
  | lock k ih => simp only [Act.bind, ans_lock]; exact ih
  | tryLock k ih => simp only [Act.bind, ans_tryLock]; exact fun c => ih c
  | unlock c k ih => simp only [Act.bind, ans_unlock]; exact ih
  | eff e k ih => simp only [Act.bind, ans_eff]; exact ih
  | askB q k ih => simp only [Act.bind, ans_askB]; exact ih
  | askM q k ih => simp only [Act.bind, ans_askM]; exact ih
  | askP k ih => simp only [Act.bind, ans_askP]; exact ih

/-- `poll_next` answers no error: an error of the wrapped future becomes `Ready(None)` -/
theorem ans_pollNext (x : Ctx) : NoErr (Fine.pollNext x) := by
  unfold Fine.pollNext
  split
  · simp
  · apply ans_bind
    intro r
    cases r <;> simp

/-! ### `Timeout` only from the three timed calls, `CloseError` only from `close` -/

theorem noTimeout_of_noErr {t : Act} (h : NoErr t) : NoTimeout t := h.mono (fun _ h => h.elim)

theorem nt_observe (f : Chan → Res) (hf : Obs f) : NoTimeout (Fine.observe f) := noTimeout_of_noErr (ans_observe f hf)
theorem nt_clone (side : Side) : NoTimeout (Fine.cloneHandle side) := noTimeout_of_noErr (ans_clone side)
theorem nt_drop (side : Side) : NoTimeout (Fine.dropHandle side) := noTimeout_of_noErr (ans_drop side)
theorem nt_close : NoTimeout Fine.close := ans_close.mono (by intro e h; simp [h])
theorem nt_trySend (opt rt : Bool) (x : Ctx) : NoTimeout (Fine.trySend opt rt x) :=
  (ans_trySend opt rt x).mono (by intro e h; rcases h with h | h <;> simp [h])
/-- `send` -/
theorem nt_send (opt : Bool) (x : Ctx) : NoTimeout (Fine.send false opt x) :=
  (ans_send false opt x).mono (by
    intro e h
    rcases h with h | h | ⟨h, -⟩
    · simp [h]
    · simp [h]
    · cases h)
theorem nt_tryRecv (rt : Bool) : NoTimeout (Fine.tryRecv rt) :=
  (ans_tryRecv rt).mono (by intro e h; rcases h with h | h <;> simp [h])
/-- `recv` -/
theorem nt_recv (x : Ctx) : NoTimeout (Fine.recv false x) :=
  (ans_recv false x).mono (by
    intro e h
    rcases h with h | h | ⟨h, -⟩
    · simp [h]
    · simp [h]
    · cases h)
theorem nt_drain (x : Ctx) : NoTimeout (Fine.drain x) := (ans_drain x).mono (by intro e h; simp [h])
theorem nt_dropSendFut (x : Ctx) : NoTimeout (Fine.dropSendFut x) := noTimeout_of_noErr (ans_dropSendFut x)
theorem nt_dropRecvFut (x : Ctx) : NoTimeout (Fine.dropRecvFut x) := noTimeout_of_noErr (ans_dropRecvFut x)
theorem nt_pollSend (x : Ctx) : NoTimeout (Fine.pollSend x) :=
  (ans_pollSend x).mono (by intro e h; rcases h with h | h <;> simp [h])
theorem nt_pollRecv (x : Ctx) : NoTimeout (Fine.pollRecv x) :=
  (ans_pollRecv x).mono (by intro e h; rcases h with h | h <;> simp [h])
theorem nt_pollNext (x : Ctx) : NoTimeout (Fine.pollNext x) := noTimeout_of_noErr (ans_pollNext x)

/-- Only `send_timeout`, `send_option_timeout` (`Fine.send true _`) and `recv_timeout` (`Fine.recv true`) can answer `Timeout`. -/
theorem only_timed_answer_timeout {t : Act} (h : Machine.FineProg t) (ho : ObsOk t) :
    (∃ opt x, t = Fine.send true opt x) ∨ (∃ x, t = Fine.recv true x) ∨ NoTimeout t := by
  cases h
  · exact .inr (.inr (nt_observe _ (ho _ rfl)))
  · exact .inr (.inr (nt_clone _))
  · exact .inr (.inr (nt_drop _))
  · exact .inr (.inr nt_close)
  · exact .inr (.inr (nt_trySend _ _ _))
  · rename_i timed opt x
    cases timed
    · exact .inr (.inr (nt_send _ _))
    · exact .inl ⟨_, _, rfl⟩
  · exact .inr (.inr (nt_tryRecv _))
  · rename_i timed x
    cases timed
    · exact .inr (.inr (nt_recv _))
    · exact .inr (.inl ⟨_, rfl⟩)
  · exact .inr (.inr (nt_drain _))
  · exact .inr (.inr (nt_dropSendFut _))
  · exact .inr (.inr (nt_dropRecvFut _))
  · exact .inr (.inr (nt_pollSend _))
  · exact .inr (.inr (nt_pollRecv _))
  · exact .inr (.inr (nt_pollNext _))

/-- … and they do: the three timed calls have a path that answers `Timeout` (so `NoTimeout` fails for them) -/
theorem timed_send_can_timeout (opt : Bool) (x : Ctx) : ¬ NoTimeout (Fine.send true opt x) := by
  intro h
  unfold Fine.send at h
  simp only [ans_guardNone, if_true, ans_eff, ans_lock] at h
  have h1 := h (Chan.new (some 0))
  have e : (Chan.new (some 0)).sendCS x.m x.me = ({ Chan.new (some 0) with waitList := [x.me] }, .full) := by
    simp [Chan.new, Chan.sendCS, Chan.sendPre, Chan.nextRecv, Chan.hasRoom, Chan.pushWaiter]
  rw [e] at h1
  simp only [ans_eff, ans_unlock] at h1
  unfold Fine.timedSendTail at h1
  simp only [ans_askB] at h1
  have h2 := h1 false
  simp only [Bool.false_eq_true, if_false, ans_askB] at h2
  have h3 := h2 false
  simp only [Bool.false_eq_true, if_false, ans_lock] at h3
  have h4 := h3 { Chan.new (some 0) with waitList := [x.me] }
  have hc : (({ Chan.new (some 0) with waitList := [x.me] } : Chan).cancel .send x.me).2 = true := by
    simp [Chan.cancel, Chan.new]
  rw [hc] at h4
  simp at h4

theorem timed_recv_can_timeout (x : Ctx) : ¬ NoTimeout (Fine.recv true x) := by
  intro h
  unfold Fine.recv at h
  simp only [if_true, ans_eff, ans_lock] at h
  have h1 := h (Chan.new none)
  simp [Fine.recvHead, Chan.new, Chan.nextSend] at h1

/-- Only `close` can answer `CloseError`. -/
theorem only_close_answers_closeErr {t : Act} (h : Machine.FineProg t) (ho : ObsOk t) :
    t = Fine.close ∨ Answers (fun e => e ≠ .closeErr) t := by
  cases h
  · exact .inr ((ans_observe _ (ho _ rfl)).mono (fun _ h => h.elim))
  · exact .inr ((ans_clone _).mono (fun _ h => h.elim))
  · exact .inr ((ans_drop _).mono (fun _ h => h.elim))
  · exact .inl rfl
  · exact .inr ((ans_trySend _ _ _).mono (by intro e h; rcases h with h | h <;> simp [h]))
  · exact .inr ((ans_send _ _ _).mono (by intro e h; rcases h with h | h | h <;> simp [h]))
  · exact .inr ((ans_tryRecv _).mono (by intro e h; rcases h with h | h <;> simp [h]))
  · exact .inr ((ans_recv _ _).mono (by intro e h; rcases h with h | h | h <;> simp [h]))
  · exact .inr ((ans_drain _).mono (by intro e h; simp [h]))
  · exact .inr ((ans_dropSendFut _).mono (fun _ h => h.elim))
  · exact .inr ((ans_dropRecvFut _).mono (fun _ h => h.elim))
  · exact .inr ((ans_pollSend _).mono (by intro e h; rcases h with h | h <;> simp [h]))
  · exact .inr ((ans_pollRecv _).mono (by intro e h; rcases h with h | h <;> simp [h]))
  · exact .inr ((ans_pollNext _).mono (fun _ h => h.elim))

/-! ### the rules are not vacuous: four rejected trees -/

/-- (1) a `send_timeout` that, having registered, cancels at once and answers `Timeout`: it has COMPUTED the deadline
    (`readClock`) but never asked whether it has passed (no `wait_timeout`, no `Instant::now() > deadline`) -/
def sendTimeoutNoClock (x : Ctx) : Act :=
  .eff .readClock <| .lock fun c =>
    match c.sendCS x.m x.me with
    | (_, .errClosed) | (_, .errRecvClosed) => Fine.sendErr c
    | (c1, .handoff r) => .unlock c1 (.eff (.sigSend r x.m) (.ret .unit))
    | (c1, .buffered) => .unlock c1 (.ret .unit)
    | (c1, .full) =>
      .eff .wrapData <| .eff .newSendSig <| .unlock c1 <| .lock fun c' =>
        if (c'.cancel .send x.me).2 then .unlock (c'.cancel .send x.me).1 (Fine.dropData (.ret (.err .timeout)))
        else .unlock (c'.cancel .send x.me).1
          (.askB .wait fun ok => if ok then .ret .unit else Fine.dropData (.ret (.err .closed)))

/-- rejected: on a rendezvous channel with no receiver waiting the sender registers, the cancel succeeds, and `Timeout`
    is answered with `sawDeadline = false` -/
theorem not_why_sendTimeoutNoClock (x : Ctx) : ¬ Why fam (sendTimeoutNoClock x) {} := by
  intro h
  unfold sendTimeoutNoClock at h
  simp only [why_eff, why_lock] at h
  have h1 := h (Chan.new (some 0))
  have e : (Chan.new (some 0)).sendCS x.m x.me = ({ Chan.new (some 0) with waitList := [x.me] }, .full) := by
    simp [Chan.new, Chan.sendCS, Chan.sendPre, Chan.nextRecv, Chan.hasRoom, Chan.pushWaiter]
  rw [e] at h1
  simp only [why_eff, why_unlock, why_lock] at h1
  have h2 := h1 { Chan.new (some 0) with waitList := [x.me] }
  have hc : (({ Chan.new (some 0) with waitList := [x.me] } : Chan).cancel .send x.me).2 = true := by
    simp [Chan.cancel, Chan.new]
  rw [hc] at h2
  simp at h2

/-- (2) a `recv` with the two answers of `sig.wait()` swapped: woken with `true` (a sender delivered), it answers `Closed` -/
def recvClosedAfterWake (x : Ctx) : Act :=
  .lock fun c =>
    Fine.recvHead c id id fun c1 =>
      if c1.sendCount == 0 then .unlock c1 (.ret (.err .sendClosed))
      else .eff .newRetSlot <| .eff .newRecvSig <| .unlock (c1.pushWaiter x.me) <|
        .askB .wait fun ok => if ok then .ret (.err .closed) else Fine.readOwn

/-- rejected: on the fresh channel (both handles alive, nothing buffered) the receiver registers; after `wait` = `true`
    neither a failed wait nor `recv_count == 0` has been seen -/
theorem not_why_recvClosedAfterWake (x : Ctx) : ¬ Why fam (recvClosedAfterWake x) {} := by
  intro h
  unfold recvClosedAfterWake at h
  simp only [why_lock] at h
  have h1 := h (Chan.new none)
  cases fam <;> simp [Fine.recvHead, Chan.new, Chan.nextSend] at h1

/-- (3) a `try_recv` without the `send_count == 0` test: an empty channel is reported as `SendClosed` -/
def tryRecvSendClosedEarly : Act :=
  .lock fun c => Fine.recvHead c id id fun c1 => .unlock c1 (.ret (.err .sendClosed))

/-- rejected: the fresh channel is empty and still has its sender (`send_count = 1`) -/
theorem not_why_tryRecvSendClosedEarly : ¬ Why fam tryRecvSendClosedEarly {} := by
  intro h
  unfold tryRecvSendClosedEarly at h
  simp only [why_lock] at h
  have h1 := h (Chan.new none)
  simp [Fine.recvHead, Chan.new, Chan.nextSend, sendGone] at h1

/-- … and so is `SendClosed` with no sender handle left while a value is still buffered -/
theorem not_why_sendClosed_nonempty (c : Chan) (v : Msg) (q : List Msg) (hq : c.queue = v :: q) {d w} :
    ¬ Why fam (.unlock c (.ret (.err .sendClosed))) ⟨some c, d, w⟩ := by
  simp [sendGone, hq]

/-- (4) the `FineProg` tree for which `why_fine` without `ObsOk` is false: an "observer" that answers an error -/
theorem not_why_observe_err (e : Err) : ¬ Why fam (Fine.observe fun _ => .err e) {} := by
  intro h
  unfold Fine.observe at h
  simp only [why_lock, why_unlock, why_ret, retOk_err] at h
  cases e
  · have := h (Chan.new none); simp [Chan.new] at this; cases fam <;> simp at this
  · have := h (Chan.new none); simp [sendGone, Chan.new] at this
  · have := h (Chan.new none); simp [recvGone, Chan.new] at this
  · have := h (Chan.new none); simp at this
  · have := h (Chan.new none); simp [closeRefused, Chan.closeCS, Chan.new] at this

theorem fineProg_observe_err (e : Err) : Machine.FineProg (Fine.observe fun _ => .err e) := .observe _

/-! ### the same discipline, stated about the TRANSLATED source (`TieCode`: `Gen.*` = the `Fine` trees) -/

namespace Tie

theorem try_send (x : Ctx) :
    Why .send (Gen.shared_send_impl_try_send x) {} ∧ Why .send (Gen.shared_send_impl_try_send_option x) {} ∧
    Why .send (Gen.shared_send_impl_try_send_realtime x) {} ∧ Why .send (Gen.shared_send_impl_try_send_option_realtime x) {} := by
  rw [TieCode.try_send, TieCode.try_send_option, TieCode.try_send_realtime, TieCode.try_send_option_realtime]
  exact ⟨why_trySend _ _ x, why_trySend _ _ x, why_trySend _ _ x, why_trySend _ _ x⟩

theorem send (x : Ctx) :
    Why .send (Gen.Sender_send x) {} ∧ Why .send (Gen.Sender_send_timeout x) {} ∧
    Why .send (Gen.Sender_send_option_timeout x) {} := by
  rw [TieCode.send, TieCode.send_timeout, TieCode.send_option_timeout]
  exact ⟨why_send _ _ x, why_send _ _ x, why_send _ _ x⟩

theorem recv (x : Ctx) :
    Why .recv (Gen.shared_recv_impl_try_recv x) {} ∧ Why .recv (Gen.shared_recv_impl_try_recv_realtime x) {} ∧
    Why .recv (Gen.Receiver_recv x) {} ∧ Why .recv (Gen.Receiver_recv_timeout x) {} ∧
    Why .recv (Gen.shared_recv_impl_drain_into x) {} := by
  rw [TieCode.try_recv, TieCode.try_recv_realtime, TieCode.recv, TieCode.recv_timeout, TieCode.drain_into]
  exact ⟨why_tryRecv _, why_tryRecv _, why_recv _ x, why_recv _ x, why_drain x⟩

theorem close (x : Ctx) (fam : Role) : Why fam (Gen.shared_impl_close x) {} := by rw [TieCode.close]; exact why_close

theorem clones (x : Ctx) (fam : Role) :
    Why fam (Gen.Clone_Sender_clone x) {} ∧ Why fam (Gen.Clone_AsyncSender_clone x) {} ∧
    Why fam (Gen.Sender_clone_async x) {} ∧ Why fam (Gen.AsyncSender_clone_sync x) {} ∧
    Why fam (Gen.Clone_Receiver_clone x) {} ∧ Why fam (Gen.Clone_AsyncReceiver_clone x) {} ∧
    Why fam (Gen.Receiver_clone_async x) {} ∧ Why fam (Gen.AsyncReceiver_clone_sync x) {} := by
  rw [TieCode.clone_sender, TieCode.clone_async_sender, TieCode.sender_clone_async, TieCode.async_sender_clone_sync,
    TieCode.clone_receiver, TieCode.clone_async_receiver, TieCode.receiver_clone_async, TieCode.async_receiver_clone_sync]
  exact ⟨why_clone _, why_clone _, why_clone _, why_clone _, why_clone _, why_clone _, why_clone _, why_clone _⟩

theorem handle_drops (x : Ctx) (fam : Role) :
    Why fam (Gen.Drop_Sender_drop x) {} ∧ Why fam (Gen.Drop_AsyncSender_drop x) {} ∧
    Why fam (Gen.Drop_Receiver_drop x) {} ∧ Why fam (Gen.Drop_AsyncReceiver_drop x) {} := by
  rw [TieCode.drop_sender, TieCode.drop_async_sender, TieCode.drop_receiver, TieCode.drop_async_receiver]
  exact ⟨why_drop _, why_drop _, why_drop _, why_drop _⟩

theorem futures (x : Ctx) :
    Why .send (Gen.Future_SendFuture_poll x) {} ∧ Why .recv (Gen.Future_ReceiveFuture_poll x) {} ∧
    Why .recv (Gen.Stream_ReceiveStream_poll_next x) {} ∧
    Why .send (Gen.Drop_SendFuture_drop x) {} ∧ Why .recv (Gen.Drop_ReceiveFuture_drop x) {} := by
  rw [TieCode.poll_send, TieCode.poll_recv, TieCode.poll_next, TieCode.drop_send_fut, TieCode.drop_recv_fut]
  exact ⟨why_pollSend x, why_pollRecv x, why_pollNext x, why_dropSendFut x, why_dropRecvFut x⟩

/-- the eleven observers of kanal answer `bool` / `num` / `cap`: `Obs` holds for each -/
theorem observers (x : Ctx) (fam : Role) :
    Why fam (Gen.shared_impl_is_bounded x) {} ∧ Why fam (Gen.shared_impl_len x) {} ∧
    Why fam (Gen.shared_impl_is_empty x) {} ∧ Why fam (Gen.shared_impl_is_full x) {} ∧
    Why fam (Gen.shared_impl_capacity x) {} ∧ Why fam (Gen.shared_impl_receiver_count x) {} ∧
    Why fam (Gen.shared_impl_sender_count x) {} ∧ Why fam (Gen.shared_impl_is_closed x) {} ∧
    Why fam (Gen.shared_send_impl_is_disconnected x) {} ∧ Why fam (Gen.shared_recv_impl_is_disconnected x) {} ∧
    Why fam (Gen.shared_recv_impl_is_terminated x) {} := by
  rw [TieCode.is_bounded, TieCode.len, TieCode.is_empty, TieCode.is_full, TieCode.capacity, TieCode.receiver_count,
    TieCode.sender_count, TieCode.is_closed, TieCode.is_disconnected_send, TieCode.is_disconnected_recv, TieCode.is_terminated]
  refine ⟨why_observe _ ?_, why_observe _ ?_, why_observe _ ?_, why_observe _ ?_, why_observe _ ?_, why_observe _ ?_,
    why_observe _ ?_, why_observe _ ?_, why_observe _ ?_, why_observe _ ?_, why_observe _ ?_⟩ <;> intro c e <;> simp

/-- `Timeout` can only come out of `send_timeout`, `send_option_timeout`, `recv_timeout`: every other translated
    function has no `ret (.err .timeout)` at all -/
theorem no_timeout (x : Ctx) :
    NoTimeout (Gen.Sender_send x) ∧ NoTimeout (Gen.Receiver_recv x) ∧
    NoTimeout (Gen.shared_send_impl_try_send x) ∧ NoTimeout (Gen.shared_send_impl_try_send_option x) ∧
    NoTimeout (Gen.shared_send_impl_try_send_realtime x) ∧ NoTimeout (Gen.shared_send_impl_try_send_option_realtime x) ∧
    NoTimeout (Gen.shared_recv_impl_try_recv x) ∧ NoTimeout (Gen.shared_recv_impl_try_recv_realtime x) ∧
    NoTimeout (Gen.shared_recv_impl_drain_into x) ∧ NoTimeout (Gen.shared_impl_close x) ∧
    NoTimeout (Gen.Future_SendFuture_poll x) ∧ NoTimeout (Gen.Future_ReceiveFuture_poll x) ∧
    NoTimeout (Gen.Stream_ReceiveStream_poll_next x) ∧
    NoTimeout (Gen.Drop_SendFuture_drop x) ∧ NoTimeout (Gen.Drop_ReceiveFuture_drop x) := by
  rw [TieCode.send, TieCode.recv, TieCode.try_send, TieCode.try_send_option, TieCode.try_send_realtime,
    TieCode.try_send_option_realtime, TieCode.try_recv, TieCode.try_recv_realtime, TieCode.drain_into, TieCode.close,
    TieCode.poll_send, TieCode.poll_recv, TieCode.poll_next, TieCode.drop_send_fut, TieCode.drop_recv_fut]
  exact ⟨nt_send _ x, nt_recv x, nt_trySend _ _ x, nt_trySend _ _ x, nt_trySend _ _ x, nt_trySend _ _ x, nt_tryRecv _,
    nt_tryRecv _, nt_drain x, nt_close, nt_pollSend x, nt_pollRecv x, nt_pollNext x, nt_dropSendFut x, nt_dropRecvFut x⟩

/-- handles and observers answer no error at all -/
theorem no_err_handles (x : Ctx) :
    NoErr (Gen.Clone_Sender_clone x) ∧ NoErr (Gen.Clone_AsyncSender_clone x) ∧
    NoErr (Gen.Sender_clone_async x) ∧ NoErr (Gen.AsyncSender_clone_sync x) ∧
    NoErr (Gen.Clone_Receiver_clone x) ∧ NoErr (Gen.Clone_AsyncReceiver_clone x) ∧
    NoErr (Gen.Receiver_clone_async x) ∧ NoErr (Gen.AsyncReceiver_clone_sync x) ∧
    NoErr (Gen.Drop_Sender_drop x) ∧ NoErr (Gen.Drop_AsyncSender_drop x) ∧
    NoErr (Gen.Drop_Receiver_drop x) ∧ NoErr (Gen.Drop_AsyncReceiver_drop x) := by
  rw [TieCode.clone_sender, TieCode.clone_async_sender, TieCode.sender_clone_async, TieCode.async_sender_clone_sync,
    TieCode.clone_receiver, TieCode.clone_async_receiver, TieCode.receiver_clone_async, TieCode.async_receiver_clone_sync,
    TieCode.drop_sender, TieCode.drop_async_sender, TieCode.drop_receiver, TieCode.drop_async_receiver]
  exact ⟨ans_clone _, ans_clone _, ans_clone _, ans_clone _, ans_clone _, ans_clone _, ans_clone _, ans_clone _,
    ans_drop _, ans_drop _, ans_drop _, ans_drop _⟩

theorem no_err_observers (x : Ctx) :
    NoErr (Gen.shared_impl_is_bounded x) ∧ NoErr (Gen.shared_impl_len x) ∧
    NoErr (Gen.shared_impl_is_empty x) ∧ NoErr (Gen.shared_impl_is_full x) ∧
    NoErr (Gen.shared_impl_capacity x) ∧ NoErr (Gen.shared_impl_receiver_count x) ∧
    NoErr (Gen.shared_impl_sender_count x) ∧ NoErr (Gen.shared_impl_is_closed x) ∧
    NoErr (Gen.shared_send_impl_is_disconnected x) ∧ NoErr (Gen.shared_recv_impl_is_disconnected x) ∧
    NoErr (Gen.shared_recv_impl_is_terminated x) := by
  rw [TieCode.is_bounded, TieCode.len, TieCode.is_empty, TieCode.is_full, TieCode.capacity, TieCode.receiver_count,
    TieCode.sender_count, TieCode.is_closed, TieCode.is_disconnected_send, TieCode.is_disconnected_recv, TieCode.is_terminated]
  refine ⟨ans_observe _ ?_, ans_observe _ ?_, ans_observe _ ?_, ans_observe _ ?_, ans_observe _ ?_, ans_observe _ ?_,
    ans_observe _ ?_, ans_observe _ ?_, ans_observe _ ?_, ans_observe _ ?_, ans_observe _ ?_⟩ <;> intro c e <;> simp

/-- the translated timed send / receive / `try_recv` are NOT the rejected shapes -/
theorem not_seeded (x : Ctx) :
    (Why .send (Gen.Sender_send_timeout x) {} ∧ ¬ Why .send (sendTimeoutNoClock x) {}) ∧
    (Why .recv (Gen.Receiver_recv x) {} ∧ ¬ Why .recv (recvClosedAfterWake x) {}) ∧
    (Why .recv (Gen.shared_recv_impl_try_recv x) {} ∧ ¬ Why .recv tryRecvSendClosedEarly {}) :=
  ⟨⟨(send x).2.1, not_why_sendTimeoutNoClock x⟩, ⟨(recv x).2.2.1, not_why_recvClosedAfterWake x⟩,
    ⟨(recv x).1, not_why_tryRecvSendClosedEarly⟩⟩

end Tie

end Reasons
end Kanal

#print axioms Kanal.Reasons.why_fam
#print axioms Kanal.Reasons.why_fine
#print axioms Kanal.Reasons.why_bind
#print axioms Kanal.Reasons.only_timed_answer_timeout
#print axioms Kanal.Reasons.only_close_answers_closeErr
#print axioms Kanal.Reasons.timed_send_can_timeout
#print axioms Kanal.Reasons.timed_recv_can_timeout
#print axioms Kanal.Reasons.not_why_sendTimeoutNoClock
#print axioms Kanal.Reasons.not_why_recvClosedAfterWake
#print axioms Kanal.Reasons.not_why_tryRecvSendClosedEarly
#print axioms Kanal.Reasons.not_why_sendClosed_nonempty
#print axioms Kanal.Reasons.not_why_observe_err
#print axioms Kanal.Reasons.Tie.try_send
#print axioms Kanal.Reasons.Tie.send
#print axioms Kanal.Reasons.Tie.recv
#print axioms Kanal.Reasons.Tie.close
#print axioms Kanal.Reasons.Tie.clones
#print axioms Kanal.Reasons.Tie.handle_drops
#print axioms Kanal.Reasons.Tie.futures
#print axioms Kanal.Reasons.Tie.observers
#print axioms Kanal.Reasons.Tie.no_timeout
#print axioms Kanal.Reasons.Tie.no_err_handles
#print axioms Kanal.Reasons.Tie.no_err_observers
#print axioms Kanal.Reasons.Tie.not_seeded
