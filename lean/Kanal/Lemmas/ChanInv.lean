/-
  Kanal.Lemmas.ChanInv — the list discipline of `ChannelInternal` (M2 of DESIGN §1.2)
  and its preservation by every L0 critical-section function.
-/
import Kanal.Chan

namespace Kanal
namespace Chan

/-- `queue.length ≤ capacity` for a bounded channel. -/
def WithinCap (c : Chan) : Prop :=
  match c.capacity with
  | none => True
  | some n => c.queue.length ≤ n

/-- The list discipline: buffer within capacity, receivers wait only on an empty
    buffer, senders wait only on a full one. -/
structure Inv (c : Chan) : Prop where
  cap      : c.WithinCap
  recvWait : c.waitList ≠ [] → c.recvBlocking = true → c.queue = []
  sendWait : c.waitList ≠ [] → c.recvBlocking = false → c.hasRoom = false

theorem inv_new (cap : Option Nat) : (Chan.new cap).Inv := by
  constructor <;> simp [Chan.new, WithinCap] <;> cases cap <;> simp

theorem hasRoom_false_iff (c : Chan) :
    c.hasRoom = false ↔ ∃ n, c.capacity = some n ∧ n ≤ c.queue.length := by
  unfold hasRoom; cases h : c.capacity <;> simp

theorem nextSend_inv {c c1 : Chan} {o} (h : c.Inv) (e : c.nextSend = (c1, o)) : c1.Inv := by
  unfold nextSend at e
  split at e
  · cases e; exact h
  · split at e <;> cases e
    · obtain ⟨h2, h3, h4⟩ := h
      constructor <;> simp_all [WithinCap, hasRoom]
    · obtain ⟨h2, h3, h4⟩ := h
      constructor <;> simp_all [WithinCap, hasRoom]

theorem nextRecv_inv {c c1 : Chan} {o} (h : c.Inv) (e : c.nextRecv = (c1, o)) : c1.Inv := by
  unfold nextRecv at e
  split at e
  · cases e; exact h
  · split at e <;> cases e
    · obtain ⟨h2, h3, h4⟩ := h
      constructor <;> simp_all [WithinCap, hasRoom]
    · obtain ⟨h2, h3, h4⟩ := h
      constructor <;> simp_all [WithinCap, hasRoom]

/-- What `next_recv` returning `None` leaves behind: the flag says "senders". -/
theorem nextRecv_none {c c1 : Chan} (e : c.nextRecv = (c1, none)) :
    c1.recvBlocking = false ∧ c1.queue = c.queue ∧ c1.capacity = c.capacity ∧
    c1.recvCount = c.recvCount ∧ c1.sendCount = c.sendCount ∧
    (c.recvBlocking = false → c1 = c) ∧ (c.recvBlocking = true → c.waitList = [] ∧ c1.waitList = []) := by
  unfold nextRecv at e
  split at e
  · cases e; simp_all
  · split at e <;> cases e; simp_all

theorem nextSend_none {c c1 : Chan} (e : c.nextSend = (c1, none)) :
    c1.recvBlocking = true ∧ c1.queue = c.queue ∧ c1.capacity = c.capacity ∧
    c1.recvCount = c.recvCount ∧ c1.sendCount = c.sendCount ∧
    (c.recvBlocking = true → c1 = c) ∧ (c.recvBlocking = false → c.waitList = [] ∧ c1.waitList = []) := by
  unfold nextSend at e
  split at e
  · cases e; simp_all
  · split at e <;> cases e; simp_all

theorem nextRecv_some {c c1 : Chan} {r} (e : c.nextRecv = (c1, some r)) :
    c.recvBlocking = true ∧ c.waitList = r :: c1.waitList ∧ c1 = { c with waitList := c1.waitList } := by
  unfold nextRecv at e
  split at e
  · cases e
  · split at e <;> cases e; simp_all

theorem nextSend_some {c c1 : Chan} {r} (e : c.nextSend = (c1, some r)) :
    c.recvBlocking = false ∧ c.waitList = r :: c1.waitList ∧ c1 = { c with waitList := c1.waitList } := by
  unfold nextSend at e
  split at e
  · cases e
  · split at e <;> cases e; simp_all

theorem pushWaiter_inv_send {c : Chan} {s} (h : c.Inv)
    (hf : c.recvBlocking = false) (hr : c.hasRoom = false) : (c.pushWaiter s).Inv := by
  obtain ⟨h2, h3, h4⟩ := h
  constructor <;> simp_all [pushWaiter, WithinCap, hasRoom] <;> grind

theorem pushWaiter_inv_recv {c : Chan} {s} (h : c.Inv)
    (hf : c.recvBlocking = true) (hq : c.queue = []) : (c.pushWaiter s).Inv := by
  obtain ⟨h2, h3, h4⟩ := h
  constructor <;> simp_all [pushWaiter, WithinCap, hasRoom] <;> grind

theorem cancel_inv {c c1 : Chan} {r s b} (h : c.Inv) (e : c.cancel r s = (c1, b)) : c1.Inv := by
  unfold cancel at e
  split at e <;> cases e
  · obtain ⟨h2, h3, h4⟩ := h
    constructor
    · simpa [WithinCap] using h2
    · intro hne hb; apply h3 _ hb; intro hn; simp [hn] at hne
    · intro hne hb; apply h4 _ hb; intro hn; simp [hn] at hne
  · exact h

theorem sendPre_inv {c c1 : Chan} {m b} (h : c.Inv) (e : c.sendPre m = (c1, b)) : c1.Inv := by
  unfold sendPre at e
  split at e
  · cases e; exact h
  · split at e
    · rename_i c2 first heq; cases e
      exact nextRecv_inv h heq
    · rename_i c2 heq
      have h2 := nextRecv_inv h heq
      have hn := nextRecv_none heq
      split at e <;> cases e
      · obtain ⟨hcap, h3, h4⟩ := h2
        rename_i hroom
        constructor
        · unfold WithinCap at *; unfold hasRoom at hroom
          cases hc : c2.capacity <;> simp_all <;> grind
        · intro hne hb; simp_all
        · intro hne hb
          have := h4 hne hb
          simp_all
      · exact h2

/-- After `sendPre` answers `full` the caller may register: flag says senders, no room. -/
theorem sendPre_full {c c1 : Chan} {m} (e : c.sendPre m = (c1, .full)) :
    c1.recvBlocking = false ∧ c1.hasRoom = false ∧ c1.queue = c.queue ∧ c.recvCount ≠ 0 ∧
    c1.capacity = c.capacity ∧ c1.recvCount = c.recvCount ∧ c1.sendCount = c.sendCount := by
  unfold sendPre at e
  split at e
  · split at e <;> cases e
  · split at e
    · cases e
    · rename_i c2 heq
      have hn := nextRecv_none heq
      split at e <;> cases e
      simp_all

theorem sendCS_inv {c c1 : Chan} {m me b} (h : c.Inv) (e : c.sendCS m me = (c1, b)) : c1.Inv := by
  unfold sendCS at e
  split at e
  · rename_i c2 heq; cases e
    have h2 := sendPre_inv h heq
    have hf := sendPre_full heq
    exact pushWaiter_inv_send h2 hf.1 hf.2.1
  · rename_i r hne
    cases hr : c.sendPre m with
    | mk c2 b2 =>
      rw [hr] at e; cases e
      exact sendPre_inv h hr

theorem recvPre_inv {c c1 : Chan} {slot t ex b} (h : c.Inv) (e : c.recvPre slot t ex = (c1, b)) : c1.Inv := by
  obtain ⟨hcap, h3, h4⟩ := h
  unfold recvPre nextSend at e
  (repeat' (split at e)) <;> simp at e <;> (try obtain ⟨rfl, rfl⟩ := e)
  all_goals (constructor <;> simp_all [WithinCap, hasRoom] <;> grind)

/-- After `recvPre` answers `empty` the caller may register: flag says receivers, buffer empty. -/
theorem recvPre_empty {c c1 : Chan} {slot t ex} (e : c.recvPre slot t ex = (c1, .empty)) :
    c1.recvBlocking = true ∧ c1.queue = [] ∧ c.queue = [] ∧ c.recvCount ≠ 0 ∧ c1.sendCount ≠ 0 ∧
    c1.capacity = c.capacity ∧ c1.recvCount = c.recvCount ∧ c1.sendCount = c.sendCount := by
  unfold recvPre at e
  split at e
  · cases e
  · split at e
    · split at e <;> cases e
    · rename_i hq
      split at e
      · cases e
      · rename_i c2 heq
        have hn := nextSend_none heq
        split at e
        · cases e
        · split at e <;> cases e
          simp_all

theorem recvCS_inv {c c1 : Chan} {slot t ex me b} (h : c.Inv) (e : c.recvCS slot t ex me = (c1, b)) : c1.Inv := by
  unfold recvCS at e
  split at e
  · rename_i c2 heq; cases e
    have h2 := recvPre_inv h heq
    have hf := recvPre_empty heq
    exact pushWaiter_inv_recv h2 hf.1 hf.2.1
  · rename_i r hne
    cases hr : c.recvPre slot t ex with
    | mk c2 b2 =>
      rw [hr] at e; cases e
      exact recvPre_inv h hr

theorem drainCS_inv {c c1 : Chan} {q l n} (h : c.Inv) (e : c.drainCS = some (c1, q, l, n)) : c1.Inv := by
  unfold drainCS popAllSenders at e
  split at e
  · cases e
  · obtain ⟨hcap, h3, h4⟩ := h
    split at e <;> simp at e <;> obtain ⟨rfl, -⟩ := e
    · constructor
      · unfold WithinCap; cases c.capacity <;> simp
      · intro _ _; rfl
      · intro _ hb; simp_all
    · constructor
      · unfold WithinCap; cases c.capacity <;> simp
      · intro _ _; rfl
      · intro hne; simp at hne

theorem closeCS_inv {c c1 : Chan} {l q} (e : c.closeCS = some (c1, l, q)) : c1.Inv := by
  unfold closeCS at e
  split at e
  · cases e
  · simp at e; obtain ⟨rfl, -⟩ := e
    constructor
    · unfold WithinCap; cases c.capacity <;> simp
    · intro hne; simp at hne
    · intro hne; simp at hne

theorem cloneCS_inv {c : Chan} {r} (h : c.Inv) : (c.cloneCS r).Inv := by
  obtain ⟨hcap, h3, h4⟩ := h
  unfold cloneCS
  cases r <;> simp only <;> split <;> first | exact ⟨hcap, h3, h4⟩ | (constructor <;> simpa [WithinCap, hasRoom])

theorem dropCS_inv {c : Chan} {r} (h : c.Inv) : (c.dropCS r).1.Inv := by
  obtain ⟨hcap, h3, h4⟩ := h
  unfold dropCS terminateAll
  cases r <;> simp only <;> (repeat' split) <;>
    first | exact ⟨hcap, h3, h4⟩ | (constructor <;> simp_all [WithinCap, hasRoom])

end Chan
end Kanal
