/-
  Kanal.Lemmas.MoverAux — two ways of perturbing a state that every step commutes with:
  `pre p` (a prefix on the wake log: no step reads the log) and `T i g'` (overwriting a waiter that is
  in no wait list and is not named by the label, keeping `alive` and `role`: no such step reads or writes it).
-/
import Kanal.Lemmas.All

namespace Kanal
open Chan State

/-- Prefix the wake log. -/
def pre (p : List WakerId) (s : State) : State := { s with wakes := p ++ s.wakes }

section pre
variable (p : List WakerId) (s : State)
theorem pre_chan : (pre p s).chan = s.chan := rfl
theorem pre_sigs : (pre p s).sigs = s.sigs := rfl
theorem pre_cust : (pre p s).cust = s.cust := rfl
theorem pre_offered : (pre p s).offered = s.offered := rfl
theorem pre_accepted : (pre p s).accepted = s.accepted := rfl
theorem pre_delivered : (pre p s).delivered = s.delivered := rfl
theorem pre_removed : (pre p s).removed = s.removed := rfl
theorem pre_recvd : (pre p s).recvd = s.recvd := rfl
theorem pre_dropped : (pre p s).dropped = s.dropped := rfl
theorem pre_wakes : (pre p s).wakes = p ++ s.wakes := rfl
theorem pre_liveS : (pre p s).liveS = s.liveS := rfl
theorem pre_liveR : (pre p s).liveR = s.liveR := rfl
theorem pre_closedOnce : (pre p s).closedOnce = s.closedOnce := rfl

theorem pre_mk (c sg cu o a d r rc dr w ls lr co) :
    State.mk c sg cu o a d r rc dr (p ++ w) ls lr co = pre p (State.mk c sg cu o a d r rc dr w ls lr co) := rfl

theorem pre_setSig (i g) : (pre p s).setSig i g = pre p (s.setSig i g) := rfl
theorem pre_setCust (m c) : (pre p s).setCust m c = pre p (s.setCust m c) := rfl
theorem pre_slotMsg : (pre p s).slotMsg = s.slotMsg := rfl
theorem pre_dropMsg (m) : (pre p s).dropMsg m = pre p (s.dropMsg m) := rfl
theorem pre_giveR (m) : (pre p s).giveR m = pre p (s.giveR m) := rfl
theorem pre_failBack (m o) : (pre p s).failBack m o = pre p (s.failBack m o) := by
  unfold failBack; split <;> rfl
theorem pre_newSig (g) : (pre p s).newSig g = (pre p (s.newSig g).1, (s.newSig g).2) := rfl
theorem pre_aliveSigs (r) : (pre p s).aliveSigs r = s.aliveSigs r := rfl
theorem pre_withdrawSlots (l) : (pre p s).withdrawSlots l = pre p (s.withdrawSlots l) := rfl
theorem pre_finalize (i o) : (pre p s).finalize i o = pre p (s.finalize i o) := by
  unfold finalize
  simp only [pre_sigs]
  split
  · rfl
  · split
    · simp only [pre_setSig, pre_wakes, List.append_assoc]; rfl
    · rfl
theorem pre_deliverTo (i m) : (pre p s).deliverTo i m = pre p (s.deliverTo i m) := by
  unfold deliverTo; simp only [pre_sigs]; split <;> rfl
theorem pre_claimFrom (i) : (pre p s).claimFrom i = pre p (s.claimFrom i) := by
  unfold claimFrom; simp only [pre_sigs]; split <;> rfl
theorem pre_takeFrom (i) : (pre p s).takeFrom i = pre p (s.takeFrom i) := by
  unfold takeFrom; simp only [pre_sigs]; split
  · rfl
  · simp only [pre_setSig, pre_finalize]
theorem pre_terminateList (l : List SigId) : (pre p s).terminateList l = pre p (s.terminateList l) := by
  unfold terminateList
  induction l generalizing s with
  | nil => rfl
  | cons i l ih => simp only [List.foldl, pre_finalize, ih]
theorem pre_dropMsgs (l : List Msg) : (pre p s).dropMsgs l = pre p (s.dropMsgs l) := by
  unfold dropMsgs
  induction l generalizing s with
  | nil => rfl
  | cons i l ih => simp only [List.foldl, pre_dropMsg, ih]
theorem pre_foldl_giveR (l : List Msg) : l.foldl giveR (pre p s) = pre p (l.foldl giveR s) := by
  induction l generalizing s with
  | nil => rfl
  | cons i l ih => simp only [List.foldl, pre_giveR, ih]
theorem pre_foldl_takeFrom (l : List SigId) : l.foldl takeFrom (pre p s) = pre p (l.foldl takeFrom s) := by
  induction l generalizing s with
  | nil => rfl
  | cons i l ih => simp only [List.foldl, pre_takeFrom, ih]


macro "pre_simp" : tactic =>
  `(tactic| simp only [pre_chan, pre_offered, pre_accepted, pre_delivered, pre_wakes, pre_sigs, pre_cust, pre_removed,
      pre_recvd, pre_dropped, pre_liveS, pre_liveR, pre_closedOnce, pre_mk, pre_setSig, pre_setCust, pre_slotMsg,
      pre_dropMsg, pre_giveR, pre_failBack, pre_newSig, pre_aliveSigs, pre_withdrawSlots, pre_finalize,
      pre_deliverTo, pre_claimFrom, pre_takeFrom, pre_terminateList, pre_dropMsgs, pre_foldl_giveR, pre_foldl_takeFrom])

theorem pre_sendStep (m opt reg) : sendStep (pre p s) m opt reg = (pre p (sendStep s m opt reg).1, (sendStep s m opt reg).2) := by
  unfold sendStep
  pre_simp
  split <;> (try split) <;> rfl

theorem pre_recvStep (t e) : recvStep (pre p s) t e = (pre p (recvStep s t e).1, (recvStep s t e).2) := by
  unfold recvStep
  pre_simp
  split <;> (try split) <;> rfl

theorem pre_recvRes (b r) : recvRes b r (pre p s) = recvRes b r s := by
  unfold recvRes; split <;> rfl


theorem step_pre (v : Variant) (l : Label) :
    step v (pre p s) l = (step v s l).map (fun q => (pre p q.1, q.2)) := by
  cases l <;> simp only [step]
  case send m kind opt =>
    pre_simp; simp only [pre_sendStep]; split <;> rfl
  case trySend m opt rt =>
    pre_simp; simp only [pre_sendStep]; split
    · rfl
    · generalize sendStep s m opt none = q; obtain ⟨s1, r⟩ := q; cases r <;> rfl
  case recv kind ex =>
    pre_simp; simp only [pre_recvStep, pre_recvRes]; split
    · rfl
    · generalize recvStep s (kind == .timed) ex = q; obtain ⟨s1, r⟩ := q; cases r <;> rfl
  case tryRecv rt =>
    pre_simp; simp only [pre_recvStep, pre_recvRes]; split <;> rfl
  case pollRecv f w =>
    pre_simp; simp only [pre_recvStep, pre_recvRes]
    generalize recvStep s false false = q
    generalize recvRes q.2 Res.none s = rr
    obtain ⟨s1, b⟩ := q
    (repeat' split)
    all_goals first | rfl | (simp [*]; done) | (simp_all; done)
  case dropHandle side =>
    cases side <;> simp only [] <;> pre_simp <;> (repeat' split) <;>
     first | rfl | (simp [*]; done) | (simp_all; done) | (simp [*]; split <;> rfl)
  all_goals pre_simp
  all_goals (repeat' split)
  all_goals first | rfl | (simp [*]; done) | (simp_all; done) | (simp [*]; split <;> rfl)
end pre

/-! ### Who can be popped -/
namespace Chan
theorem sendPre_handoff_ne {c c1 : Chan} {m : Msg} {r i : Nat} (hni : i ∉ c.waitList)
    (e : c.sendPre m = (c1, .handoff r)) : r ≠ i := by
  have := (sendPre_pops e).1.wl
  simp only [poppedS] at this
  intro h; subst h; apply hni; rw [this]; simp

theorem recvPre_refill_ne {c c1 : Chan} {slot t ex v} {p i : Nat} (hni : i ∉ c.waitList)
    (e : c.recvPre slot t ex = (c1, .fromQueue v (some p))) : p ≠ i := by
  have := (recvPre_pops e).1.wl
  simp only [poppedR] at this
  intro h; subst h; apply hni; rw [this]; simp

theorem recvPre_sender_ne {c c1 : Chan} {slot t ex} {p i : Nat} (hni : i ∉ c.waitList)
    (e : c.recvPre slot t ex = (c1, .fromSender p)) : p ≠ i := by
  have := (recvPre_pops e).1.wl
  simp only [poppedR] at this
  intro h; subst h; apply hni; rw [this]; simp

theorem drainCS_notin {c c1 : Chan} {q l n} {i : Nat} (hni : i ∉ c.waitList)
    (e : c.drainCS = some (c1, q, l, n)) : i ∉ l := by
  have := (drainCS_pops e).1.wl
  intro h; apply hni; rw [this]; simp [h]

theorem closeCS_notin {c c1 : Chan} {l q} {i : Nat} (hni : i ∉ c.waitList)
    (e : c.closeCS = some (c1, l, q)) : i ∉ l := by
  rw [(closeCS_spec e).1]; exact hni

theorem dropCS_notin {c : Chan} {r : Side} {i : Nat} (hni : i ∉ c.waitList) : i ∉ (c.dropCS r).2 := by
  rcases (dropCS_spec c r).1 with h | h
  · rw [h.1]; exact hni
  · rw [h.1]; simp

theorem recvPre_congr (c : Chan) (slot slot' : SigId → Msg) (t e : Bool)
    (h : ∀ p ∈ c.waitList, slot p = slot' p) : c.recvPre slot t e = c.recvPre slot' t e := by
  unfold recvPre
  split
  · rfl
  · split
    · rename_i v q hq
      split
      · rename_i c1 p heq
        have := (nextSend_some heq).2.1
        simp only at this
        rw [h p (by rw [this]; simp)]
      · rfl
    · rfl
end Chan

theorem filter_set_length {α} (p : α → Bool) (l : List α) (i : Nat) (a b : α) (h : l[i]? = some a) (hp : p b = p a) :
    ((l.set i b).filter p).length = (l.filter p).length := by
  induction l generalizing i with
  | nil => simp at h
  | cons x xs ih =>
    cases i with
    | zero => simp at h; subst h; simp only [List.set_cons_zero, List.filter_cons, hp]; split <;> rfl
    | succ i => simp at h; simp only [List.set_cons_succ, List.filter_cons]; split <;> simp [ih i h]

theorem filterMap_congr' {α β} {f g : α → Option β} {l : List α} (h : ∀ x ∈ l, f x = g x) :
    l.filterMap f = l.filterMap g := by
  induction l with
  | nil => rfl
  | cons x xs ih =>
    simp only [List.filterMap_cons, h x (by simp)]
    rw [ih (fun y hy => h y (by simp [hy]))]

/-- Overwrite waiter `i`. -/
def T (i : Nat) (g' : Sig) (s : State) : State := s.setSig i g'

section T
variable (i : Nat) (g' : Sig) (s : State)
theorem T_chan : (T i g' s).chan = s.chan := rfl
theorem T_sigs : (T i g' s).sigs = s.sigs.set i g' := rfl
theorem T_cust : (T i g' s).cust = s.cust := rfl
theorem T_offered : (T i g' s).offered = s.offered := rfl
theorem T_accepted : (T i g' s).accepted = s.accepted := rfl
theorem T_delivered : (T i g' s).delivered = s.delivered := rfl
theorem T_removed : (T i g' s).removed = s.removed := rfl
theorem T_recvd : (T i g' s).recvd = s.recvd := rfl
theorem T_dropped : (T i g' s).dropped = s.dropped := rfl
theorem T_wakes : (T i g' s).wakes = s.wakes := rfl
theorem T_liveS : (T i g' s).liveS = s.liveS := rfl
theorem T_liveR : (T i g' s).liveR = s.liveR := rfl
theorem T_closedOnce : (T i g' s).closedOnce = s.closedOnce := rfl

theorem T_mk (c sg cu o a d r rc dr w ls lr co) :
    State.mk c (List.set sg i g') cu o a d r rc dr w ls lr co = T i g' (State.mk c sg cu o a d r rc dr w ls lr co) := rfl

theorem T_get {j : Nat} (hj : j ≠ i) : (T i g' s).sigs[j]? = s.sigs[j]? := by
  simp [T_sigs, List.getElem?_set_ne (Ne.symm hj)]

theorem T_length : (T i g' s).sigs.length = s.sigs.length := by simp [T_sigs]

theorem T_setSig {j : Nat} (h : Sig) (hj : j ≠ i) : (T i g' s).setSig j h = T i g' (s.setSig j h) := by
  unfold T setSig
  simp only [List.set_comm _ _ (Ne.symm hj)]

theorem T_setCust (m c) : (T i g' s).setCust m c = T i g' (s.setCust m c) := rfl
theorem T_dropMsg (m) : (T i g' s).dropMsg m = T i g' (s.dropMsg m) := rfl
theorem T_giveR (m) : (T i g' s).giveR m = T i g' (s.giveR m) := rfl
theorem T_failBack (m o) : (T i g' s).failBack m o = T i g' (s.failBack m o) := by
  unfold failBack; split <;> rfl
theorem T_dropMsgs (l : List Msg) : (T i g' s).dropMsgs l = T i g' (s.dropMsgs l) := by
  unfold dropMsgs
  induction l generalizing s with
  | nil => rfl
  | cons x l ih => simp only [List.foldl, T_dropMsg, ih]
theorem T_foldl_giveR (l : List Msg) : l.foldl giveR (T i g' s) = T i g' (l.foldl giveR s) := by
  induction l generalizing s with
  | nil => rfl
  | cons x l ih => simp only [List.foldl, T_giveR, ih]

theorem T_newSig (h : Sig) (hlt : i < s.sigs.length) :
    (T i g' s).newSig h = (T i g' (s.newSig h).1, (s.newSig h).2) := by
  unfold T newSig setSig
  simp [hlt]

theorem T_slotMsg {j : Nat} (hj : j ≠ i) : (T i g' s).slotMsg j = s.slotMsg j := by
  unfold slotMsg; rw [T_get _ _ _ hj]

theorem T_finalize {j : Nat} (o : SigSt) (hj : j ≠ i) : (T i g' s).finalize j o = T i g' (s.finalize j o) := by
  unfold finalize
  rw [T_get _ _ _ hj]
  cases s.sigs[j]? with
  | none => rfl
  | some g => simp only; rw [T_setSig _ _ _ _ hj]; split <;> rfl

theorem T_deliverTo {j : Nat} (m : Msg) (hj : j ≠ i) : (T i g' s).deliverTo j m = T i g' (s.deliverTo j m) := by
  unfold deliverTo
  rw [T_get _ _ _ hj]
  cases s.sigs[j]? with
  | none => rfl
  | some g => simp only; rw [T_setSig _ _ _ _ hj]; rfl

theorem T_claimFrom {j : Nat} (hj : j ≠ i) : (T i g' s).claimFrom j = T i g' (s.claimFrom j) := by
  unfold claimFrom
  rw [T_get _ _ _ hj]
  cases s.sigs[j]? with
  | none => rfl
  | some g => simp only; rw [T_setSig _ _ _ _ hj]

theorem T_takeFrom {j : Nat} (hj : j ≠ i) : (T i g' s).takeFrom j = T i g' (s.takeFrom j) := by
  unfold takeFrom
  rw [T_get _ _ _ hj]
  cases s.sigs[j]? with
  | none => rfl
  | some g => simp only; rw [T_setSig _ _ _ _ hj, T_finalize _ _ _ _ hj]

theorem T_terminateList (l : List SigId) (hl : i ∉ l) : (T i g' s).terminateList l = T i g' (s.terminateList l) := by
  unfold terminateList
  induction l generalizing s with
  | nil => rfl
  | cons x l ih =>
    simp only [List.mem_cons, not_or] at hl
    simp only [List.foldl]
    rw [T_finalize _ _ _ _ (Ne.symm hl.1), ih _ hl.2]

theorem T_foldl_takeFrom (l : List SigId) (hl : i ∉ l) : l.foldl takeFrom (T i g' s) = T i g' (l.foldl takeFrom s) := by
  induction l generalizing s with
  | nil => rfl
  | cons x l ih =>
    simp only [List.mem_cons, not_or] at hl
    simp only [List.foldl]
    rw [T_takeFrom _ _ _ (Ne.symm hl.1), ih _ hl.2]

theorem T_withdrawSlots (l : List SigId) (hl : i ∉ l) : (T i g' s).withdrawSlots l = T i g' (s.withdrawSlots l) := by
  have key : ((T i g' s).withdrawSlots l).removed = (s.withdrawSlots l).removed := by
    show (T i g' s).removed ++ List.filterMap _ l = s.removed ++ List.filterMap _ l
    rw [T_removed]
    congr 1
    apply filterMap_congr'
    intro j hj
    have : j ≠ i := fun h => hl (h ▸ hj)
    rw [T_get _ _ _ this]
  show State.mk _ _ _ _ _ _ ((T i g' s).withdrawSlots l).removed _ _ _ _ _ _ = _
  rw [key]; rfl

theorem T_map_slotMsg (l : List SigId) (hl : i ∉ l) : l.map (T i g' s).slotMsg = l.map s.slotMsg := by
  apply List.map_congr_left
  intro j hj
  exact T_slotMsg _ _ _ (fun h => hl (h ▸ hj))

theorem T_aliveSigs {g : Sig} (r : Role) (hg : s.sigs[i]? = some g) (ha : g'.alive = g.alive) (hr : g'.role = g.role) :
    (T i g' s).aliveSigs r = s.aliveSigs r := by
  unfold aliveSigs
  rw [T_sigs]
  exact filter_set_length _ _ _ _ _ hg (by simp [ha, hr])

theorem T_recvPre (t e : Bool) (hni : i ∉ s.chan.waitList) :
    s.chan.recvPre (T i g' s).slotMsg t e = s.chan.recvPre s.slotMsg t e :=
  recvPre_congr _ _ _ _ _ (fun _ hq => T_slotMsg _ _ _ (fun h => hni (h ▸ hq)))

end T

section T
variable (i : Nat) (g' : Sig) (s : State)

/-- Expose the perturbed state's fields, refold the record updates. -/
macro "T_proj" : tactic =>
  `(tactic| ((try dsimp +instances only [T_chan, T_cust, T_offered, T_accepted, T_delivered, T_removed, T_recvd, T_dropped, T_wakes,
      T_liveS, T_liveR, T_closedOnce, T_sigs, T_mk]); try simp only [List.length_set]))

/-- Push the perturbation outwards through every primitive (side conditions from the context). -/
macro "T_push" : tactic =>
  `(tactic| simp only [T_chan, T_cust, T_offered, T_accepted, T_delivered, T_removed, T_recvd, T_dropped, T_wakes,
      T_liveS, T_liveR, T_closedOnce, T_sigs, T_mk, List.length_set,
      T_setSig, T_setCust, T_dropMsg, T_giveR, T_failBack, T_dropMsgs, T_foldl_giveR, T_newSig, T_slotMsg,
      T_finalize, T_deliverTo, T_claimFrom, T_takeFrom, T_terminateList, T_foldl_takeFrom, T_withdrawSlots,
      T_map_slotMsg, T_recvPre, not_false_eq_true, ne_eq, Option.map_some, Option.map_none, ↓reduceIte, if_true, if_false, eq_self, *])

theorem sendStep_T (m : Msg) (opt : Bool) (reg : Option Sig) (hlt : i < s.sigs.length) (hni : i ∉ s.chan.waitList) :
    sendStep (T i g' s) m opt reg = (T i g' (sendStep s m opt reg).1, (sendStep s m opt reg).2) := by
  unfold sendStep
  T_proj
  split
  case h_3 c1 r heq =>
    have := sendPre_handoff_ne hni heq
    T_push
  all_goals (try split)
  all_goals first | (T_push; done)

theorem recvStep_T (t e : Bool) (hni : i ∉ s.chan.waitList) :
    recvStep (T i g' s) t e = (T i g' (recvStep s t e).1, (recvStep s t e).2) := by
  unfold recvStep
  T_proj
  simp only [T_recvPre _ _ _ _ _ hni]
  split
  case h_1 c1 v refill heq =>
    split
    · T_push
    · have := recvPre_refill_ne hni heq
      T_push
  case h_2 c1 p heq =>
    have := recvPre_sender_ne hni heq
    T_push
  all_goals first | (T_push; done)

theorem recvRes_T (t e : Bool) (r : Res) (hni : i ∉ s.chan.waitList) :
    recvRes (recvStep s t e).2 r (T i g' s) = recvRes (recvStep s t e).2 r s := by
  unfold recvStep
  split
  case h_1 c1 v refill heq => split <;> rfl
  case h_2 c1 p heq =>
    have := recvPre_sender_ne hni heq
    simp only [recvRes, T_slotMsg _ _ _ this]
  case h_3 c1 b h1 h2 heq =>
    cases b <;> first | rfl | (exfalso; exact h1 _ _ rfl) | (exfalso; exact h2 _ rfl)
end T

theorem mv_finalize_len (s : State) (i : SigId) (o : SigSt) : (s.finalize i o).sigs.length = s.sigs.length := by
  unfold finalize; split
  · rfl
  · split <;> simp

theorem mv_claimFrom_len (s : State) (i : SigId) : (s.claimFrom i).sigs.length = s.sigs.length := by
  unfold claimFrom; split <;> simp

theorem mv_takeFrom_len (s : State) (i : SigId) : (s.takeFrom i).sigs.length = s.sigs.length := by
  unfold takeFrom; split
  · rfl
  · rw [mv_finalize_len]; simp

theorem mv_recvStep_len (s : State) (t e : Bool) : (recvStep s t e).1.sigs.length = s.sigs.length := by
  unfold recvStep
  split
  · split <;> simp [mv_takeFrom_len]
  · simp [mv_claimFrom_len]
  · simp

/-- The waiter a label names. -/
def Label.sig? : Label → Option Nat
  | .complete j | .expire j | .finalize j | .pollSend j _ | .pollRecv j _ | .dropSendFut j | .dropRecvFut j => some j
  | _ => none

theorem step_T (v : Variant) (s : State) (i : Nat) (g g' : Sig) (hg : s.sigs[i]? = some g)
    (hni : i ∉ s.chan.waitList) (ha : g'.alive = g.alive) (hr : g'.role = g.role)
    (l : Label) (hl : l.sig? ≠ some i) :
    step v (T i g' s) l = (step v s l).map (fun q => (T i g' q.1, q.2)) := by
  have hlt : i < s.sigs.length := lt_of_get?_some hg
  cases l <;> simp only [step]
  case send m kind opt =>
    T_proj; simp only [sendStep_T _ _ _ _ _ _ hlt hni]; split <;> rfl
  case trySend m opt rt =>
    T_proj; simp only [sendStep_T _ _ _ _ _ _ hlt hni]; split
    · rfl
    · generalize sendStep s m opt none = q; obtain ⟨s1, r⟩ := q; cases r <;> rfl
  case recv kind ex =>
    T_proj; simp only [recvStep_T _ _ _ _ _ hni, recvRes_T _ _ _ _ _ _ hni]; split
    · rfl
    · have hq := mv_recvStep_len s (kind == .timed) ex
      generalize recvStep s (kind == .timed) ex = q at hq ⊢; obtain ⟨s1, r⟩ := q
      simp only at hq
      have hlt1 : i < s1.sigs.length := by omega
      cases r <;> (try dsimp only) <;> first | rfl | (T_push; done)
  case tryRecv rt =>
    T_proj; simp only [recvStep_T _ _ _ _ _ hni, recvRes_T _ _ _ _ _ _ hni]; split <;> rfl
  case drain =>
    T_proj
    (repeat' split)
    all_goals (try have := drainCS_notin hni (by assumption))
    all_goals first | rfl | (T_push; done)
  case close =>
    T_proj
    (repeat' split)
    all_goals (try have := closeCS_notin hni (by assumption))
    all_goals first | rfl | (T_push; done)
  case dropHandle side =>
    have h1 := dropCS_notin (r := side) hni
    have h2 := T_aliveSigs i g' s side hg ha hr
    cases side <;> simp only [] <;> T_proj <;> simp only [h2] <;> T_push <;> (repeat' split) <;>
      first | rfl | (T_push; done)
  case complete j =>
    have hj : j ≠ i := by simpa [Label.sig?] using hl
    simp only [T_get _ _ _ hj]
    cases s.sigs[j]? with
    | none => rfl
    | some gj =>
      dsimp only
      T_proj
      (repeat' split)
      all_goals first | rfl | (T_push; done)
  case expire j =>
    have hj : j ≠ i := by simpa [Label.sig?] using hl
    simp only [T_get _ _ _ hj]
    cases s.sigs[j]? with
    | none => rfl
    | some gj =>
      dsimp only
      T_proj
      (repeat' split)
      all_goals (try have hne := sendPre_handoff_ne hni (by assumption))
      all_goals first | rfl | (T_push; done)
  case finalize j =>
    have hj : j ≠ i := by simpa [Label.sig?] using hl
    simp only [T_get _ _ _ hj]
    cases s.sigs[j]? with
    | none => rfl
    | some gj =>
      dsimp only
      T_proj
      (repeat' split)
      all_goals (try have hne := sendPre_handoff_ne hni (by assumption))
      all_goals first | rfl | (T_push; done)
  case pollSend j w =>
    have hj : j ≠ i := by simpa [Label.sig?] using hl
    simp only [T_get _ _ _ hj]
    cases s.sigs[j]? with
    | none => rfl
    | some gj =>
      dsimp only
      T_proj
      (repeat' split)
      all_goals (try have hne := sendPre_handoff_ne hni (by assumption))
      all_goals first | rfl | (T_push; done)
  case dropSendFut j =>
    have hj : j ≠ i := by simpa [Label.sig?] using hl
    simp only [T_get _ _ _ hj]
    cases s.sigs[j]? with
    | none => rfl
    | some gj =>
      dsimp only
      T_proj
      (repeat' split)
      all_goals (try have hne := sendPre_handoff_ne hni (by assumption))
      all_goals first | rfl | (T_push; done)
  case dropRecvFut j =>
    have hj : j ≠ i := by simpa [Label.sig?] using hl
    simp only [T_get _ _ _ hj]
    cases s.sigs[j]? with
    | none => rfl
    | some gj =>
      dsimp only
      T_proj
      (repeat' split)
      all_goals (try have hne := sendPre_handoff_ne hni (by assumption))
      all_goals first | rfl | (T_push; done)
  case pollRecv j w =>
    have hj : j ≠ i := by simpa [Label.sig?] using hl
    simp only [T_get _ _ _ hj]
    cases s.sigs[j]? with
    | none => rfl
    | some gj =>
      dsimp only
      T_proj
      simp only [recvStep_T _ _ _ _ _ hni, recvRes_T _ _ _ _ _ _ hni]
      generalize recvRes (recvStep s false false).2 Res.none s = rr
      generalize recvStep s false false = q
      obtain ⟨s1, b⟩ := q
      dsimp only
      (repeat' split)
      all_goals first | rfl | (T_push; done)
  case newSendFut m => T_proj; (repeat' split) <;> first | rfl | (T_push; done)
  case newRecvFut st => T_proj; (repeat' split) <;> first | rfl | (T_push; done)
  case clone side => cases side <;> simp only [] <;> T_proj <;> (repeat' split) <;> first | rfl | (T_push; done)
  case convert side => cases side <;> simp only [] <;> T_proj <;> (repeat' split) <;> first | rfl | (T_push; done)
  case isDisconnected side => cases side <;> simp only [] <;> T_proj <;> (repeat' split) <;> first | rfl | (T_push; done)
  all_goals (T_proj; (repeat' split) <;> first | rfl | (T_push; done))


section len
set_option linter.unusedSimpArgs false

theorem mv_deliverTo_len (s : State) (i : SigId) (m : Msg) : (s.deliverTo i m).sigs.length = s.sigs.length := by
  unfold deliverTo; split <;> simp

theorem mv_terminateList_len (s : State) (l : List SigId) : (s.terminateList l).sigs.length = s.sigs.length := by
  unfold terminateList
  induction l generalizing s with
  | nil => rfl
  | cons i l ih => simp only [List.foldl]; rw [ih, mv_finalize_len]

theorem mv_foldl_takeFrom_len (l : List SigId) (s : State) : (l.foldl takeFrom s).sigs.length = s.sigs.length := by
  induction l generalizing s with
  | nil => rfl
  | cons i l ih => simp only [List.foldl]; rw [ih, mv_takeFrom_len]

theorem mv_foldl_giveR_sigs (ms : List Msg) (s : State) : (ms.foldl giveR s).sigs = s.sigs := by
  induction ms generalizing s with
  | nil => rfl
  | cons m l ih => simp only [List.foldl]; rw [ih]; rfl

theorem mv_failBack_sigs (s : State) (m : Msg) (o : Bool) : (s.failBack m o).sigs = s.sigs := by
  unfold failBack; split <;> rfl

theorem mv_dropMsgs_sigs (s : State) (ms : List Msg) : (s.dropMsgs ms).sigs = s.sigs := by
  unfold dropMsgs
  induction ms generalizing s with
  | nil => rfl
  | cons m l ih => simp only [List.foldl]; rw [ih]; rfl

theorem mv_sendStep_len (s : State) (m : Msg) (opt : Bool) (reg : Option Sig) :
    s.sigs.length ≤ (sendStep s m opt reg).1.sigs.length := by
  unfold sendStep
  simp only
  split
  all_goals (try split)
  all_goals simp [mv_failBack_sigs, mv_deliverTo_len]

/-- No step deletes a waiter record. -/
theorem step_len {v : Variant} {s : State} {l : Label} {p : State × Res} (e : step v s l = some p) :
    s.sigs.length ≤ p.1.sigs.length := by
  have hs := mv_sendStep_len s
  have hr := mv_recvStep_len s
  cases l <;> simp only [step] at e
  case dropHandle side => cases side <;> simp only at e <;> step_leaves e <;> simp [mv_terminateList_len, mv_dropMsgs_sigs]
  case clone side => cases side <;> simp only at e <;> step_leaves e <;> simp
  case convert side => cases side <;> simp only at e <;> step_leaves e <;> simp
  case isDisconnected side => cases side <;> simp only at e <;> step_leaves e <;> simp
  all_goals step_leaves e
  all_goals first
    | (simp [mv_terminateList_len, mv_dropMsgs_sigs, mv_foldl_takeFrom_len, mv_foldl_giveR_sigs, mv_deliverTo_len, mv_finalize_len, mv_failBack_sigs]; done)
    | (simp [mv_terminateList_len, mv_dropMsgs_sigs, mv_foldl_takeFrom_len, mv_foldl_giveR_sigs, mv_deliverTo_len, mv_finalize_len, mv_failBack_sigs]; grind)
   
end len

/-- Overwriting a waiter with itself changes nothing. -/
theorem T_self {s : State} {i : Nat} {g : Sig} (hg : s.sigs[i]? = some g) : T i g s = s := by
  have : s.sigs.set i g = s.sigs := by
    apply List.ext_getElem?
    intro j
    rw [list_set_get]
    split
    · subst_vars; simp [hg]
    · rfl
  show State.mk _ (s.sigs.set i g) _ _ _ _ _ _ _ _ _ _ _ = s
  rw [this]

/-- A step that neither names waiter `i` nor can pop it (it is in no wait list) leaves its record alone. -/
theorem step_sig_stable (v : Variant) (s : State) (i : Nat) (g : Sig) (hg : s.sigs[i]? = some g)
    (hni : i ∉ s.chan.waitList) (l : Label) (hl : l.sig? ≠ some i) (p : State × Res)
    (e : step v s l = some p) : p.1.sigs[i]? = some g := by
  have h := step_T v s i g g hg hni rfl rfl l hl
  rw [T_self hg, e] at h
  simp only [Option.map_some, Option.some.injEq] at h
  have h1 : p.1.sigs = p.1.sigs.set i g := by
    have := congrArg (fun q => q.1.sigs) h
    simpa [T_sigs] using this
  have hlt : i < p.1.sigs.length := Nat.lt_of_lt_of_le (lt_of_get?_some hg) (step_len e)
  rw [h1]; simp [hlt]

end Kanal
