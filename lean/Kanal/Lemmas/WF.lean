/-
  Kanal.Lemmas.WF — structural well-formedness of the atomic channel's state,
  inductive over every step (DESIGN §3.4: ChanInv, ListedInv, CountInv at the atomic level).
-/
import Kanal.Lemmas.ChanInv
import Kanal.Lemmas.Sigs
import Kanal.Lemmas.Counts

namespace Kanal
open Chan State

/-- What being in the wait list means for a waiter. -/
structure Listed (c : Chan) (g : Sig) : Prop where
  alive   : g.alive = true
  pending : g.st = .pending
  role    : g.role = (if c.recvBlocking then .recv else .send)
  sendSlot : g.role = .send → g.slot.isSome = true
  recvSlot : g.role = .recv → g.slot = none
  fut     : g.kind = .async → g.fut = .waiting ∧ g.waker.isSome = true

structure WF (s : State) : Prop where
  chan   : s.chan.Inv
  counts : CountInv s
  listed : ∀ i ∈ s.chan.waitList, ∃ g, s.sigs[i]? = some g ∧ Listed s.chan g
  half   : (s.chan.sendCount = 0 ∨ s.chan.recvCount = 0) → s.chan.waitList = []
  borrow : ∀ (i : Nat) (g : Sig), s.sigs[i]? = some g → g.alive = true →
             (g.role = .send → s.liveS ≠ 0) ∧ (g.role = .recv → s.liveR ≠ 0)

theorem wf_init (cap) : WF (State.init cap) := by
  refine ⟨inv_new cap, countInv_init cap, ?_, ?_, ?_⟩ <;> simp [State.init, Chan.new]

end Kanal
