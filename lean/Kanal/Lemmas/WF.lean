/-
  Kanal.Lemmas.WF — structural well-formedness of the channel state, inductive over
  every step of the model (hand-off windows included): the live-handle borrow rule,
  "a half-closed channel has no waiters", and what being listed means for a waiter
  (ListedInv of DESIGN §3.4).
-/
import Kanal.Lemmas.StepChan
import Kanal.Lemmas.Sigs

namespace Kanal
open Chan State

/-- Every alive waiter borrows a handle of its side. -/
def Borrow (s : State) : Prop :=
  ∀ (i : Nat) (g : Sig), s.sigs[i]? = some g → g.alive = true →
    (g.role = .send → s.liveS ≠ 0) ∧ (g.role = .recv → s.liveR ≠ 0)

theorem aliveSigs_zero {s : State} {r : Role} (h : s.aliveSigs r = 0) (i : Nat) (g : Sig)
    (hg : s.sigs[i]? = some g) (ha : g.alive = true) : g.role ≠ r := by
  unfold aliveSigs at h
  intro hr
  have hm : g ∈ s.sigs := List.mem_of_getElem? hg
  have : g ∈ s.sigs.filter (fun g => g.alive && g.role == r) := by
    simp [List.mem_filter, hm, ha, hr]
  rw [List.length_eq_zero_iff] at h
  rw [h] at this; cases this

/-- Open every branch of a goal about the new waiter table. -/
macro "sig_leaves" : tactic =>
  `(tactic| (
    intro j g hg ha
    simp [deliverTo_get, claimFrom_get, takeFrom_get, finalize_get, terminateList_get,
          foldl_takeFrom_get, newSig_get] at hg
    (repeat' (split at hg))
    all_goals (try simp at hg)))

/-- Re-arming keeps who the waiter is. -/
theorem rearm_some {v : Variant} {g g' : Sig} (h : rearm v g = some g') :
    g'.role = g.role ∧ g'.kind = g.kind ∧ g'.alive = g.alive ∧ g'.claimed = g.claimed ∧
    g'.isStream = g.isStream ∧ g'.streamEnded = g.streamEnded ∧ g'.opt = g.opt ∧
    (g.fut ≠ .done → g' = g) ∧ (g.fut = .done → g'.fut = .zero ∧ g.isStream = true) := by
  unfold rearm at h
  split at h
  · split at h
    · cases h; split <;> simp_all
    · cases h
  · cases h; simp_all

theorem sendStep_borrow (s : State) (m o reg) (h : Borrow s) (hl : s.liveS ≠ 0)
    (hreg : ∀ g, reg = some g → g.role = .send) : Borrow (sendStep s m o reg).1 := by
  unfold sendStep
  simp only
  split
  all_goals (try split)
  all_goals intro j g hg ha
  all_goals simp [deliverTo_get] at hg
  all_goals (try split at hg)
  all_goals simp_all [Borrow]
  all_goals grind

theorem recvStep_borrow (s : State) (t e) (h : Borrow s) : Borrow (recvStep s t e).1 := by
  unfold recvStep
  split
  all_goals (try split)
  all_goals intro j g hg ha
  all_goals simp [claimFrom_get, takeFrom_get] at hg
  all_goals (try split at hg)
  all_goals simp_all [Borrow]
  all_goals grind

theorem step_borrow {v s l p} (h : Borrow s) (e : step v s l = some p) : Borrow p.1 := by
  cases l <;> simp only [step] at e
  case send m kind opt => step_leaves e; exact sendStep_borrow _ _ _ _ h (by grind) (by simp)
  case trySend m opt rt =>
    have := sendStep_borrow s m opt none h
    step_leaves e <;> (try rename_i heq) <;> (try rw [heq] at this) <;> apply this <;> grind
  case recv kind ex =>
    have := recvStep_borrow s (kind == .timed) ex h
    step_leaves e
    · intro j g hg ha
      simp [append_single_get] at hg
      split at hg
      · cases hg; simp; have := (recvStep_quiet s (kind == .timed) ex).2.2.1; grind
      · have := this j g hg ha; simpa using this
    · exact this
  case tryRecv rt => step_leaves e; exact recvStep_borrow s false false h
  case dropHandle side =>
    cases side <;> simp only at e <;> step_leaves e
    all_goals intro j g hg ha
    all_goals simp [terminateList_get] at hg
    all_goals (try split at hg)
    all_goals first
      | (obtain ⟨g0, hg0, rfl⟩ := Option.map_eq_some_iff.mp hg
         simp at ha ⊢
         have hb := h j g0 hg0 ha
         have hz := fun hh => aliveSigs_zero (r := .send) hh j g0 hg0 ha
         have hz2 := fun hh => aliveSigs_zero (r := .recv) hh j g0 hg0 ha
         constructor <;> intro hr <;> simp_all <;> omega)
      | (simp at ha ⊢
         have hb := h j g hg ha
         have hz := fun hh => aliveSigs_zero (r := .send) hh j g hg ha
         have hz2 := fun hh => aliveSigs_zero (r := .recv) hh j g hg ha
         constructor <;> intro hr <;> simp_all <;> omega)
  case clone side =>
    cases side <;> simp only at e <;> step_leaves e <;> intro j g hg ha <;> have := h j g hg ha <;> simp_all
  case close =>
    step_leaves e
    · exact h
    · intro j g hg ha
      simp [terminateList_get] at hg
      split at hg
      · obtain ⟨g0, hg0, rfl⟩ := Option.map_eq_some_iff.mp hg
        simpa using h j g0 hg0 ha
      · simpa using h j g hg ha
  case drain =>
    step_leaves e
    · exact h
    · intro j g hg ha
      simp [foldl_takeFrom_get] at hg
      split at hg
      · obtain ⟨g0, hg0, rfl⟩ := Option.map_eq_some_iff.mp hg
        simpa using h j g0 hg0 ha
      · simpa using h j g hg ha
  case pollRecv f w =>
    have hr := recvStep_borrow s false false h
    obtain ⟨-, hq1, hq2, -⟩ := recvStep_quiet s false false
    step_leaves e
    all_goals first
      | exact h
      | (have hre := rearm_some (by assumption)
         have hb0 := h f _ (by assumption)
         intro j g hg ha
         simp [append_single_get] at hg
         (repeat' (split at hg))
         all_goals (try simp at hg)
         all_goals first
           | (have hb := h j g hg ha; simp_all; done)
           | (have hb := hr j g hg ha; simp_all; done)
           | (obtain ⟨-, rfl⟩ := hg; simp at ha ⊢; simp_all; done)
           | (obtain ⟨-, rfl⟩ := hg; simp at ha ⊢; split at ha <;> simp_all; done))
  case convert side => cases side <;> simp only at e <;> step_leaves e <;> exact h
  case isDisconnected side => cases side <;> simp only at e <;> step_leaves e <;> exact h
  all_goals step_leaves e
  all_goals first
    | exact h
    | (intro j g hg ha
       simp [append_single_get, finalize_get, deliverTo_get, claimFrom_get, takeFrom_get] at hg
       (repeat' (split at hg))
       all_goals (try simp at hg)
       all_goals (simp_all [Borrow]; grind))

end Kanal
