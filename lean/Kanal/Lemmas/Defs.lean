/-
  Kanal.Lemmas.Defs — the invariant catalogue of the channel model (DESIGN §3.4), as
  definitions.  Preservation by every step is proved in the sibling files:
    chan.Inv, CountInv, Borrow  — StepChan.lean, Counts.lean, WF.lean   (done)
    Struct (the rest)            — Struct.lean
    Ledger                       — Ledger.lean
    Fifo                         — Fifo.lean
-/
import Kanal.Lemmas.WF

namespace Kanal
open Chan State

/-- The role the wait list currently holds. -/
def Chan.listRole (c : Chan) : Role := if c.recvBlocking then .recv else .send

/-- What being in the wait list means for a waiter. -/
structure Listed (c : Chan) (g : Sig) : Prop where
  alive    : g.alive = true
  pending  : g.st = .pending
  unclaimed : g.claimed = false
  role     : g.role = c.listRole
  sendSlot : g.role = .send → g.slot.isSome = true
  recvSlot : g.role = .recv → g.slot = none
  fut      : g.kind = .async → g.fut = .waiting ∧ g.waker.isSome = true

/-- Per-waiter consistency, independent of the wait list. -/
structure SigOK (g : Sig) : Prop where
  dead     : g.alive = false → g.slot = none ∧ g.claimed = false
  claimed  : g.claimed = true → g.alive = true ∧ g.st = .pending ∧ (g.kind = .async → g.fut = .waiting)
  sendTaken : g.role = .send → (g.st = .ok ∨ g.claimed = true) → g.slot = none
  sendHeld : g.role = .send → g.alive = true → g.st ≠ .ok → g.claimed = false → (g.kind = .async → g.fut ≠ .done) → g.slot.isSome = true
  recvHolds : g.role = .recv → g.slot.isSome = true → (g.claimed = true ∨ g.st = .ok) ∧ g.alive = true ∧ (g.kind = .async → g.fut = .waiting)
  recvReady : g.role = .recv → g.st = .ok → g.alive = true → (g.kind = .async → g.fut = .waiting) → g.slot.isSome = true
  finalUnclaimed : g.st ≠ .pending → g.claimed = false
  origSend : g.role = .send → ∀ m, g.slot = some m → g.orig = some m
  syncFut  : g.kind ≠ .async → g.fut = .zero

/-- The structural invariant of the model. -/
structure Struct (s : State) : Prop where
  chanInv  : s.chan.Inv
  counts   : CountInv s
  borrow   : Borrow s
  half     : (s.chan.sendCount = 0 ∨ s.chan.recvCount = 0) → s.chan.waitList = []
  nodup    : s.chan.waitList.Nodup
  listed   : ∀ i ∈ s.chan.waitList, ∃ g, s.sigs[i]? = some g ∧ Listed s.chan g
  unlisted : ∀ (i : Nat) (g : Sig), s.sigs[i]? = some g → g.alive = true → g.st = .pending →
               g.claimed = false → (g.kind = .async → g.fut = .waiting) → i ∈ s.chan.waitList
  sigOK    : ∀ (i : Nat) (g : Sig), s.sigs[i]? = some g → SigOK g

theorem struct_init (cap : Option Nat) : Struct (State.init cap) := by
  refine ⟨inv_new cap, countInv_init cap, ?_, ?_, ?_, ?_, ?_, ?_⟩ <;>
    simp [State.init, Chan.new, Borrow]

/-- Custody of every message matches where it physically is (LedgerInv of DESIGN §3.4).
    Stated for the repaired tree (`Variant.good`); the defective variants violate it. -/
structure Ledger (s : State) : Prop where
  queueCust   : ∀ m ∈ s.chan.queue, s.cust m = .queued
  queueNodup  : s.chan.queue.Nodup
  slotCust    : ∀ (i : Nat) (g : Sig) (m : Msg), s.sigs[i]? = some g → g.slot = some m → s.cust m = .slot i
  custQueue   : ∀ m, s.cust m = .queued → m ∈ s.chan.queue
  custSlot    : ∀ (m : Msg) (i : Nat), s.cust m = .slot i → ∃ g, s.sigs[i]? = some g ∧ g.slot = some m
  recvdCust   : ∀ m, m ∈ s.recvd ↔ s.cust m = .callerR
  recvdNodup  : s.recvd.Nodup
  droppedCust : ∀ m, m ∈ s.dropped ↔ s.cust m = .gone
  droppedNodup : s.dropped.Nodup
  offeredCust : ∀ m, m ∈ s.offered ↔ s.cust m ≠ .fresh
  offeredNodup : s.offered.Nodup
  noLeak      : ∀ m, s.cust m ≠ .leaked

theorem ledger_init (cap : Option Nat) : Ledger (State.init cap) := by
  constructor <;> simp [State.init, Chan.new]

/-- The blocked / pending senders, oldest first (empty when the list holds receivers). -/
def sendWaiters (c : Chan) : List SigId := if c.recvBlocking then [] else c.waitList

/-- Everything a receiver could take right now, in delivery order: the buffer, then the
    values of the blocked senders. -/
def chanOrder (s : State) : List Msg := s.chan.queue ++ (sendWaiters s.chan).map s.slotMsg

/-- FIFO (C02): what was accepted and not withdrawn is, in acceptance order, what has been
    delivered followed by what is still in the channel. -/
structure Fifo (s : State) : Prop where
  order        : s.accepted.filter (fun m => !s.removed.contains m) = s.delivered ++ chanOrder s
  acceptedNodup : s.accepted.Nodup
  removedSub   : ∀ m ∈ s.removed, m ∈ s.accepted ∧ m ∉ s.delivered ∧ m ∉ chanOrder s

theorem fifo_init (cap : Option Nat) : Fifo (State.init cap) := by
  constructor <;> simp [State.init, Chan.new, chanOrder, sendWaiters]

end Kanal
