/-
  Kanal.Lemmas.Fifo — the FIFO invariant (`Fifo`, Defs.lean) is preserved by every step of
  the repaired tree, given the structural and custody invariants of the pre-state.

  `Fifo` is not inductive relative to `Struct ∧ Ledger` alone (`fifo_not_inductive_alone`):
  nothing there ties `accepted` to the custody ledger.  The bundle `FifoX = Fifo ∧ FifoAux` is
  (`fifoX_step`), where `FifoAux` says: accepted ⊆ offered, and the message of a send future
  still in state `Zero` has not been accepted.
-/
import Kanal.Lemmas.Defs

namespace Kanal
open Chan State
set_option linter.unusedSimpArgs false

/-! ### List level -/

/-- `Fifo` as a statement about four lists. -/
structure FifoL (A D R C : List Msg) : Prop where
  order : A.filter (fun m => !R.contains m) = D ++ C
  nodup : A.Nodup
  sub   : ∀ m ∈ R, m ∈ A ∧ m ∉ D ∧ m ∉ C

theorem fifo_iff (s : State) : Fifo s ↔ FifoL s.accepted s.delivered s.removed (chanOrder s) :=
  ⟨fun ⟨a, b, c⟩ => ⟨a, b, c⟩, fun ⟨a, b, c⟩ => ⟨a, b, c⟩⟩

namespace FifoL
variable {A D R C : List Msg}

theorem dc_nodup (h : FifoL A D R C) : (D ++ C).Nodup := by
  rw [← h.order]; exact h.nodup.filter _

theorem mem_dc (h : FifoL A D R C) {m : Msg} (hm : m ∈ D ++ C) : m ∈ A ∧ m ∉ R := by
  rw [← h.order] at hm
  simpa [List.mem_filter] using hm

theorem not_removed (h : FifoL A D R C) {m : Msg} (hm : m ∉ A) : m ∉ R :=
  fun hr => hm (h.sub m hr).1

/-- Accept at the end of the channel order. -/
theorem accept (h : FifoL A D R C) {m : Msg} (hm : m ∉ A) : FifoL (A ++ [m]) D R (C ++ [m]) := by
  have hr := h.not_removed hm
  refine ⟨?_, ?_, ?_⟩
  · have ho := h.order
    simp [List.filter_append, hr] at ho ⊢
    rw [ho]; simp
  · simp [List.nodup_append, h.nodup]; intro a ha e; exact hm (e ▸ ha)
  · intro x hx
    obtain ⟨h1, h2, h3⟩ := h.sub x hx
    have : x ≠ m := fun e => hm (e ▸ h1)
    simp [h1, h2, h3, this]

/-- Direct hand-off to a waiting receiver (only happens when nothing is in the channel). -/
theorem handoff (h : FifoL A D R []) {m : Msg} (hm : m ∉ A) : FifoL (A ++ [m]) (D ++ [m]) R [] := by
  have hr := h.not_removed hm
  refine ⟨?_, ?_, ?_⟩
  · simpa [List.filter_append, hr] using h.order
  · simp [List.nodup_append, h.nodup]; intro a ha e; exact hm (e ▸ ha)
  · intro x hx
    obtain ⟨h1, h2, h3⟩ := h.sub x hx
    have : x ≠ m := fun e => hm (e ▸ h1)
    simp [h1, h2, this]

/-- A receive takes the head of the channel order. -/
theorem take {v : Msg} {C' : List Msg} (h : FifoL A D R (v :: C')) : FifoL A (D ++ [v]) R C' := by
  refine ⟨by simpa using h.order, h.nodup, ?_⟩
  intro x hx
  obtain ⟨h1, h2, h3⟩ := h.sub x hx
  simp at h3
  simp [h1, h2, h3]

/-- `drain_into` takes everything. -/
theorem drain (h : FifoL A D R C) : FifoL A (D ++ C) R [] := by
  induction C generalizing D with
  | nil => simpa using h
  | cons v C ih => simpa using ih h.take

/-- An inner element is withdrawn. -/
theorem remove {m : Msg} {C1 C2 : List Msg} (h : FifoL A D R (C1 ++ m :: C2)) :
    FifoL A D (R ++ [m]) (C1 ++ C2) := by
  have hnd := h.dc_nodup
  have hmem := h.mem_dc (m := m) (by simp)
  have hf : A.filter (fun x => !(R ++ [m]).contains x) =
      (A.filter (fun x => !R.contains x)).filter (fun x => x != m) := by
    rw [List.filter_filter]; congr 1; funext x; by_cases hx : x = m <;> simp [hx]
  have hm1 : m ∉ D := by
    intro hd; simp [List.nodup_append] at hnd; grind
  have hm2 : m ∉ C1 := by
    intro hd; simp [List.nodup_append] at hnd; grind
  have hm3 : m ∉ C2 := by
    intro hd; simp [List.nodup_append] at hnd; grind
  refine ⟨?_, h.nodup, ?_⟩
  · rw [hf, h.order]
    simp only [List.filter_append, List.filter_cons]
    have e1 : ∀ l : List Msg, m ∉ l → l.filter (fun x => x != m) = l := by
      intro l hl; rw [List.filter_eq_self]; intro a ha; simp; rintro rfl; exact hl ha
    simp [e1 D hm1, e1 C1 hm2, e1 C2 hm3]
  · intro x hx
    simp at hx
    rcases hx with hx | rfl
    · obtain ⟨h1, h2, h3⟩ := h.sub x hx
      simp at h3
      simp [h1, h2, h3]
    · simp [hmem.1, hm1, hm2, hm3]

/-- A whole suffix is withdrawn (close, disconnect). -/
theorem removeSuffix {C1 X : List Msg} (h : FifoL A D R (C1 ++ X)) : FifoL A D (R ++ X) C1 := by
  induction X generalizing R with
  | nil => simpa using h
  | cons x X ih =>
    have := ih (R := R ++ [x]) h.remove
    simpa using this

theorem removeAll (h : FifoL A D R C) : FifoL A D (R ++ C) [] :=
  removeSuffix (C1 := []) (by simpa using h)

end FifoL

/-! ### Frame lemmas for `removed` and the waiter slots -/

namespace State
section frame
variable (s : State)

@[simp] theorem finalize_removed (i : SigId) (o : SigSt) : (s.finalize i o).removed = s.removed := by
  unfold finalize; split
  · rfl
  · split <;> rfl

@[simp] theorem terminateList_removed (l : List SigId) : (s.terminateList l).removed = s.removed := by
  unfold terminateList
  induction l generalizing s with
  | nil => rfl
  | cons i l ih => simp [List.foldl, ih]

@[simp] theorem deliverTo_removed (i : SigId) (m : Msg) : (s.deliverTo i m).removed = s.removed := by
  unfold deliverTo; split <;> rfl

@[simp] theorem claimFrom_removed (i : SigId) : (s.claimFrom i).removed = s.removed := by
  unfold claimFrom; split <;> rfl

@[simp] theorem takeFrom_removed (i : SigId) : (s.takeFrom i).removed = s.removed := by
  unfold takeFrom; split
  · rfl
  · simp

@[simp] theorem dropMsg_removed (m : Msg) : (s.dropMsg m).removed = s.removed := rfl
@[simp] theorem giveR_removed (m : Msg) : (s.giveR m).removed = s.removed := rfl
@[simp] theorem dropMsg_sigs (m : Msg) : (s.dropMsg m).sigs = s.sigs := rfl
@[simp] theorem giveR_sigs (m : Msg) : (s.giveR m).sigs = s.sigs := rfl

@[simp] theorem dropMsgs_removed (ms : List Msg) : (s.dropMsgs ms).removed = s.removed := by
  unfold dropMsgs
  induction ms generalizing s with
  | nil => rfl
  | cons m l ih => simp [List.foldl, ih]

@[simp] theorem failBack_removed (m : Msg) (o : Bool) : (s.failBack m o).removed = s.removed := by
  unfold failBack; split <;> rfl

@[simp] theorem foldl_giveR_removed (ms : List Msg) : (ms.foldl giveR s).removed = s.removed := by
  induction ms generalizing s with
  | nil => rfl
  | cons m l ih => simp [List.foldl, ih]

@[simp] theorem foldl_takeFrom_removed (l : List SigId) : (l.foldl takeFrom s).removed = s.removed := by
  induction l generalizing s with
  | nil => rfl
  | cons m l ih => simp [List.foldl, ih]

@[simp] theorem newSig_fst_removed (g : Sig) : (s.newSig g).1.removed = s.removed := rfl
@[simp] theorem newSig_fst_accepted (g : Sig) : (s.newSig g).1.accepted = s.accepted := rfl
@[simp] theorem newSig_fst_delivered (g : Sig) : (s.newSig g).1.delivered = s.delivered := rfl
@[simp] theorem newSig_fst_offered (g : Sig) : (s.newSig g).1.offered = s.offered := rfl

theorem slotMsg_congr {s s' : State} {i : Nat} (h : s'.sigs[i]? = s.sigs[i]?) :
    s'.slotMsg i = s.slotMsg i := by
  unfold slotMsg; rw [h]

theorem slotMsg_of {s : State} {i : Nat} {g : Sig} {m : Msg} (h : s.sigs[i]? = some g)
    (hm : g.slot = some m) : s.slotMsg i = m := by
  unfold slotMsg; rw [h]; simp [hm]

end frame
end State

/-! ### The channel order -/

theorem sendWaiters_of_recv {c : Chan} (h : c.recvBlocking = true) : sendWaiters c = [] := by
  simp [sendWaiters, h]

theorem sendWaiters_of_send {c : Chan} (h : c.recvBlocking = false) : sendWaiters c = c.waitList := by
  simp [sendWaiters, h]

theorem sendWaiters_sub (c : Chan) : ∀ i ∈ sendWaiters c, i ∈ c.waitList := by
  unfold sendWaiters; split <;> simp

/-- What `Struct` says about a blocked / pending sender. -/
theorem Struct.sender {s : State} (hs : Struct s) {i : Nat} (hi : i ∈ sendWaiters s.chan) :
    ∃ g m, s.sigs[i]? = some g ∧ g.slot = some m ∧ s.slotMsg i = m ∧ g.role = .send ∧ g.alive = true ∧
      g.st = .pending ∧ g.claimed = false ∧ (g.kind = .async → g.fut = .waiting) := by
  have hb : s.chan.recvBlocking = false := by
    unfold sendWaiters at hi; split at hi <;> simp_all
  obtain ⟨g, hg, hl⟩ := hs.listed i (sendWaiters_sub _ i hi)
  have hr : g.role = .send := by simpa [Chan.listRole, hb] using hl.role
  have hsl := hl.sendSlot hr
  obtain ⟨m, hm⟩ := Option.isSome_iff_exists.mp hsl
  exact ⟨g, m, hg, hm, slotMsg_of hg hm, hr, hl.alive, hl.pending, hl.unclaimed, fun h => (hl.fut h).1⟩

/-- A waiter that does not look like a listed sender is not among the send waiters. -/
theorem Struct.not_sender {s : State} (hs : Struct s) {i : Nat} {g : Sig} (hg : s.sigs[i]? = some g)
    (h : g.role = .recv ∨ g.alive = false ∨ g.st ≠ .pending ∨ g.claimed = true ∨
         (g.kind = .async ∧ g.fut ≠ .waiting)) : i ∉ sendWaiters s.chan := by
  intro hi
  obtain ⟨g', m, hg', -, -, h1, h2, h3, h4, h5⟩ := hs.sender hi
  rw [hg] at hg'; cases hg'
  rcases h with h | h | h | h | ⟨h, h'⟩ <;> simp_all

/-- The channel order only looks at the queue, the send waiters and their slots. -/
theorem chanOrder_congr {s s' : State} (hq : s'.chan.queue = s.chan.queue)
    (hw : sendWaiters s'.chan = sendWaiters s.chan)
    (hsl : ∀ i ∈ sendWaiters s.chan, s'.sigs[i]? = s.sigs[i]?) : chanOrder s' = chanOrder s := by
  unfold chanOrder
  rw [hq, hw]
  congr 1
  apply List.map_congr_left
  intro i hi
  exact slotMsg_congr (hsl i hi)

theorem Fifo.congr {s s' : State} (h : Fifo s) (ha : s'.accepted = s.accepted)
    (hd : s'.delivered = s.delivered) (hr : s'.removed = s.removed)
    (hc : chanOrder s' = chanOrder s) : Fifo s' := by
  rw [fifo_iff] at *
  rw [ha, hd, hr, hc]; exact h

/-! ### The L0 critical sections, as seen by the channel order -/

theorem sendPre_cases {c c1 : Chan} {m : Msg} {b} (hi : c.Inv) (e : c.sendPre m = (c1, b)) :
    match b with
    | .errClosed | .errRecvClosed => c1 = c
    | .handoff r => c.queue = [] ∧ c1.queue = [] ∧ sendWaiters c = [] ∧ c1.recvBlocking = true ∧
        c.recvBlocking = true ∧ r ∈ c.waitList
    | .buffered => c1.queue = c.queue ++ [m] ∧ sendWaiters c = [] ∧ c1.waitList = []
    | .full => c1.queue = c.queue ∧ sendWaiters c1 = sendWaiters c ∧ c1.recvBlocking = false := by
  obtain ⟨-, h3, h4⟩ := hi
  unfold sendPre nextRecv at e
  (repeat' (split at e)) <;> simp at e <;> (try obtain ⟨rfl, rfl⟩ := e) <;> simp_all [sendWaiters]
  all_goals grind

theorem recvPre_cases {c c1 : Chan} {slot : SigId → Msg} {t ex : Bool} {b}
    (e : c.recvPre slot t ex = (c1, b)) :
    match b with
    | .errClosed => c1 = c
    | .fromQueue v (some p) => ∃ q, c.queue = v :: q ∧ c.recvBlocking = false ∧ c1.recvBlocking = false ∧
        c.waitList = p :: c1.waitList ∧ c1.queue = q ++ [slot p]
    | .fromQueue v none => c.queue = v :: c1.queue ∧ sendWaiters c = [] ∧ c1.recvBlocking = true
    | .fromSender p => c.queue = [] ∧ c1.queue = [] ∧ c.recvBlocking = false ∧ c1.recvBlocking = false ∧
        c.waitList = p :: c1.waitList
    | _ => c.queue = [] ∧ c1.queue = [] ∧ sendWaiters c = [] ∧ c1.recvBlocking = true := by
  unfold recvPre nextSend at e
  (repeat' (split at e)) <;> simp at e <;> (try obtain ⟨rfl, rfl⟩ := e) <;> simp_all [sendWaiters]
  all_goals grind

theorem chanOrder_of_recv {s : State} (h : s.chan.recvBlocking = true) : chanOrder s = s.chan.queue := by
  simp [chanOrder, sendWaiters, h]

theorem chanOrder_of_nil {s : State} (h : s.chan.waitList = []) : chanOrder s = s.chan.queue := by
  simp [chanOrder, sendWaiters, h]

theorem chanOrder_push {s s' : State} {me : Nat} {m : Msg}
    (hq : s'.chan.queue = s.chan.queue) (hb : s'.chan.recvBlocking = false)
    (hw : s'.chan.waitList = sendWaiters s.chan ++ [me])
    (hsl : ∀ i ∈ sendWaiters s.chan, s'.sigs[i]? = s.sigs[i]?)
    (hme : s'.slotMsg me = m) : chanOrder s' = chanOrder s ++ [m] := by
  unfold chanOrder
  rw [hq, sendWaiters_of_send hb, hw, List.map_append, List.map_cons, hme, List.map_nil, List.append_assoc]
  congr 2
  apply List.map_congr_left
  intro i hi
  exact slotMsg_congr (hsl i hi)

/-- A send-family call whose message the channel has not accepted before. -/
theorem sendStep_fifo {s : State} {m : Msg} {opt : Bool} {reg : Option Sig}
    (hs : Struct s) (h : Fifo s) (hm : m ∉ s.accepted) : Fifo (sendStep s m opt reg).1 := by
  unfold sendStep
  simp only
  split <;> rename_i heq <;> have hc := sendPre_cases hs.chanInv heq <;> simp only at hc
  · exact h.congr (by simp) (by simp) (by simp) (chanOrder_congr (by simp) (by simp) (by simp))
  · exact h.congr (by simp) (by simp) (by simp) (chanOrder_congr (by simp) (by simp) (by simp))
  · obtain ⟨h1, h2, h3, h4, -, -⟩ := hc
    have e0 : chanOrder s = [] := by simp [chanOrder, h1, h3]
    rw [fifo_iff] at h ⊢
    rw [e0] at h
    rw [chanOrder_of_recv (by simpa using h4)]
    simpa [h2] using h.handoff hm
  · obtain ⟨h1, h2, h3⟩ := hc
    have e0 : chanOrder s = s.chan.queue := by simp [chanOrder, h2]
    rw [fifo_iff] at h ⊢
    rw [e0] at h
    rw [chanOrder_of_nil (by simpa using h3)]
    simpa [h1] using h.accept hm
  · obtain ⟨h1, h2, h3⟩ := hc
    split
    · exact h.congr (by simp) (by simp) (by simp) (chanOrder_congr (by simpa using h1) (by simpa using h2) (by simp))
    · rw [fifo_iff] at h ⊢
      have := h.accept hm
      simp only [newSig]
      rw [chanOrder_push (s := s) (m := m) (me := s.sigs.length)]
      · simpa using this
      · simpa [pushWaiter] using h1
      · simpa [pushWaiter] using h3
      · simp [pushWaiter, ← h2, sendWaiters_of_send h3]
      · intro i hi
        obtain ⟨g', m', hg', -⟩ := hs.sender hi
        have := lt_of_get?_some hg'
        simp [List.getElem?_append, this]
      · simp [slotMsg]

/-- What `Fifo` needs besides `Struct` and `Ledger` to be inductive: the channel only accepts
    messages that were offered, and the message of a send future that has not been polled yet
    (state `Zero`) has not been accepted. -/
structure FifoAux (s : State) : Prop where
  acceptedOffered : ∀ m ∈ s.accepted, m ∈ s.offered
  zeroFut : ∀ (i : Nat) (g : Sig) (m : Msg), s.sigs[i]? = some g → g.role = .send → g.kind = .async →
              g.fut = .zero → g.slot = some m → m ∉ s.accepted

theorem fifoAux_init (cap : Option Nat) : FifoAux (State.init cap) := by
  constructor <;> simp [State.init]

theorem FifoAux.fresh {s : State} (ha : FifoAux s) (hl : Ledger s) {m : Msg} (hm : s.cust m = .fresh) :
    m ∉ s.accepted := by
  intro h
  have := (hl.offeredCust m).mp (ha.acceptedOffered m h)
  exact this hm

theorem Struct.receiver {s : State} (hs : Struct s) {r : Nat} (hb : s.chan.recvBlocking = true)
    (hr : r ∈ s.chan.waitList) : ∃ g, s.sigs[r]? = some g ∧ g.role = .recv := by
  obtain ⟨g, hg, hl⟩ := hs.listed r hr
  exact ⟨g, hg, by simpa [Chan.listRole, hb] using hl.role⟩

theorem sendStep_aux {s : State} {m : Msg} {opt : Bool} {reg : Option Sig}
    (hs : Struct s) (hl : Ledger s) (ha : FifoAux s) (hm : s.cust m = .fresh)
    (hreg : ∀ g, reg = some g → g.kind ≠ .async) : FifoAux (sendStep s m opt reg).1 := by
  obtain ⟨a1, a2⟩ := ha
  have hsc := hl.slotCust
  unfold sendStep
  simp only
  constructor
  · split <;> (try split) <;> simp <;> grind
  · split <;> rename_i heq <;> have hc := sendPre_cases hs.chanInv heq <;> simp only at hc <;> (try split)
    all_goals intro j g x hg h1 h2 h3 h4
    all_goals simp [deliverTo_get, newSig, append_single_get] at hg ⊢
    all_goals (try split at hg)
    all_goals (try simp at hg)
    · grind
    · grind
    · obtain ⟨g0, hg0, hr⟩ := hs.receiver hc.2.2.2.2.1 hc.2.2.2.2.2
      grind
    · grind
    · grind
    · grind
    · subst hg; simp at h2; simp_all
    · grind

theorem chanOrder_mk {s' s : State} {q : List Msg} {w : List SigId} (hq : s'.chan.queue = q)
    (hw : sendWaiters s'.chan = w) (hsl : ∀ i ∈ w, s'.sigs[i]? = s.sigs[i]?) :
    chanOrder s' = q ++ w.map s.slotMsg := by
  unfold chanOrder
  rw [hq, hw]
  congr 1
  apply List.map_congr_left
  intro i hi
  exact slotMsg_congr (hsl i hi)

theorem recvStep_fifo {s : State} {t e : Bool} (hs : Struct s) (h : Fifo s) : Fifo (recvStep s t e).1 := by
  have hnd := hs.nodup
  unfold recvStep
  split <;> rename_i heq <;> have hc := recvPre_cases heq
  · split
    · simp only at hc
      obtain ⟨h1, h2, h3⟩ := hc
      rw [fifo_iff] at h ⊢
      have e0 : chanOrder s = s.chan.queue := by simp [chanOrder, h2]
      rw [e0, h1] at h
      rw [chanOrder_of_recv (by simpa using h3)]
      simpa using h.take
    · simp only at hc
      obtain ⟨q, h1, h2, h3, h4, h5⟩ := hc
      rw [fifo_iff] at h ⊢
      rw [h4] at hnd
      rw [chanOrder_mk (s := s) (by simpa using h5) (by simpa using sendWaiters_of_send h3)]
      · simp [chanOrder, sendWaiters_of_send h2, h1, h4] at h
        simpa using h.take
      · intro i hi
        simp [takeFrom_get]
        rintro rfl
        simp at hnd; exact absurd hi hnd.1
  · simp only at hc
    obtain ⟨h1, h2, h3, h4, h5⟩ := hc
    rw [fifo_iff] at h ⊢
    rw [h5] at hnd
    rw [chanOrder_mk (s := s) (by simpa using h2) (by simpa using sendWaiters_of_send h4)]
    · simp [chanOrder, sendWaiters_of_send h3, h1, h5] at h
      simpa using h.take
    · intro i hi
      simp [claimFrom_get]
      rintro rfl
      simp at hnd; exact absurd hi hnd.1
  · rename_i c1 b hb1 hb2
    simp only
    refine h.congr rfl rfl rfl ?_
    cases b <;> simp at hc hb1 hb2
    · subst hc; rfl
    all_goals
      obtain ⟨h1, h2, h3, h4⟩ := hc
      rw [chanOrder_of_recv (by simpa using h4)]
      simp [chanOrder, h1, h2, h3]

/-- Preservation of the auxiliary invariant by a step that accepts nothing. -/
theorem FifoAux.congr {s s' : State} (ha : FifoAux s) (hacc : s'.accepted = s.accepted)
    (hoff : ∀ m ∈ s.offered, m ∈ s'.offered)
    (hsig : ∀ (i : Nat) (g' : Sig) (m : Msg), s'.sigs[i]? = some g' → g'.role = .send → g'.kind = .async →
      g'.fut = .zero → g'.slot = some m →
      (∃ g, s.sigs[i]? = some g ∧ g.role = .send ∧ g.kind = .async ∧ g.fut = .zero ∧ g.slot = some m) ∨
        m ∉ s.accepted) : FifoAux s' := by
  constructor
  · intro m hm; rw [hacc] at hm; exact hoff m (ha.acceptedOffered m hm)
  · intro i g' m hg h1 h2 h3 h4
    rw [hacc]
    rcases hsig i g' m hg h1 h2 h3 h4 with ⟨g, hg0, k1, k2, k3, k4⟩ | h
    · exact ha.zeroFut i g m hg0 k1 k2 k3 k4
    · exact h

theorem recvStep_aux {s : State} {t e : Bool} (ha : FifoAux s) : FifoAux (recvStep s t e).1 := by
  unfold recvStep
  split <;> (try split)
  all_goals refine ha.congr (by simp) (by simp) ?_
  all_goals intro j g x hg h1 h2 h3 h4
  all_goals simp [takeFrom_get, claimFrom_get] at hg
  all_goals (try split at hg)
  all_goals first
    | (left; exact ⟨g, hg, h1, h2, h3, h4⟩)
    | (exfalso; obtain ⟨g0, hg0, rfl⟩ := Option.map_eq_some_iff.mp hg; simp at h4)
    | skip

theorem recvStep_chan (s : State) (t e : Bool) :
    (recvStep s t e).1.chan = (s.chan.recvPre s.slotMsg t e).1 := by
  unfold recvStep
  split <;> (try split) <;> simp [*]

theorem recvPre_sendWaiters {c : Chan} {slot : SigId → Msg} {t ex : Bool} :
    ∀ i ∈ sendWaiters (c.recvPre slot t ex).1, i ∈ sendWaiters c := by
  unfold recvPre nextSend
  (repeat' split) <;> simp_all [sendWaiters]
  all_goals grind

theorem recvStep_sendWaiters {s : State} {t e : Bool} :
    ∀ i ∈ sendWaiters (recvStep s t e).1.chan, i ∈ sendWaiters s.chan := by
  rw [recvStep_chan]; exact recvPre_sendWaiters


/-! ### The labels -/

/-- The bundle that is inductive (given `Struct` and `Ledger`). -/
def FifoX (s : State) : Prop := Fifo s ∧ FifoAux s

theorem step_send {s : State} {p : State × Res} {m kind opt}
    (hs : Struct s) (hl : Ledger s) (h : Fifo s) (ha : FifoAux s)
    (e : step Variant.good s (.send m kind opt) = some p) : FifoX p.1 := by
  simp only [step] at e
  step_leaves e
  rename_i hc
  simp only [not_or, Decidable.not_not] at hc
  exact ⟨sendStep_fifo hs h (ha.fresh hl hc.2.1), sendStep_aux hs hl ha hc.2.1 (by simp [hc.2.2])⟩

theorem step_trySend {s : State} {p : State × Res} {m opt rt}
    (hs : Struct s) (hl : Ledger s) (h : Fifo s) (ha : FifoAux s)
    (e : step Variant.good s (.trySend m opt rt) = some p) : FifoX p.1 := by
  simp only [step] at e
  have h1 := fun hm => sendStep_fifo (m := m) (opt := opt) (reg := none) hs h (ha.fresh hl hm)
  have h2 := fun hm => sendStep_aux (m := m) (opt := opt) (reg := none) hs hl ha hm (by simp)
  step_leaves e
  · rename_i hc _ _ heq
    simp only [not_or, Decidable.not_not] at hc
    rw [heq] at h1 h2
    exact ⟨h1 hc.2, h2 hc.2⟩
  · rename_i hc _ _
    simp only [not_or, Decidable.not_not] at hc
    exact ⟨h1 hc.2, h2 hc.2⟩


theorem step_recv {s : State} {p : State × Res} {kind ex}
    (hs : Struct s) (h : Fifo s) (ha : FifoAux s)
    (e : step Variant.good s (.recv kind ex) = some p) : FifoX p.1 := by
  simp only [step] at e
  have h1 := recvStep_fifo (t := kind == .timed) (e := ex) hs h
  have h2 := recvStep_aux (t := kind == .timed) (e := ex) ha
  step_leaves e
  · rename_i heq
    have he := recvStep_empty heq
    constructor
    · refine h1.congr rfl rfl rfl ?_
      rw [chanOrder_of_recv (by simpa [pushWaiter] using he.1), chanOrder_of_recv he.1]
      simp [pushWaiter]
    · refine h2.congr rfl (by simp) ?_
      intro j g x hg k1 k2 k3 k4
      simp [append_single_get] at hg
      split at hg
      · cases hg; simp at k1
      · exact Or.inl ⟨g, hg, k1, k2, k3, k4⟩
  · exact ⟨h1, h2⟩

theorem step_tryRecv {s : State} {p : State × Res} {rt}
    (hs : Struct s) (h : Fifo s) (ha : FifoAux s)
    (e : step Variant.good s (.tryRecv rt) = some p) : FifoX p.1 := by
  simp only [step] at e
  step_leaves e
  exact ⟨recvStep_fifo hs h, recvStep_aux ha⟩


theorem drainCS_cases {c c1 : Chan} {qs : List Msg} {l : List SigId} {n : Nat}
    (e : c.drainCS = some (c1, qs, l, n)) :
    qs = c.queue ∧ l = sendWaiters c ∧ c1.queue = [] ∧ c1.recvBlocking = true := by
  unfold drainCS popAllSenders at e
  (repeat' (split at e)) <;> simp at e <;> (try obtain ⟨rfl, rfl, rfl, rfl⟩ := e) <;> simp_all [sendWaiters]
  all_goals (rename_i hh; obtain ⟨rfl, -⟩ := hh; simp)

theorem step_drain {s : State} {p : State × Res}
    (h : Fifo s) (ha : FifoAux s)
    (e : step Variant.good s .drain = some p) : FifoX p.1 := by
  simp only [step] at e
  step_leaves e
  · exact ⟨h, ha⟩
  · rename_i heq
    obtain ⟨rfl, rfl, h3, h4⟩ := drainCS_cases heq
    constructor
    · rw [fifo_iff] at h ⊢
      rw [chanOrder_of_recv (by simpa using h4)]
      simpa [h3, chanOrder] using h.drain
    · refine ha.congr (by simp) (by simp) ?_
      intro j g x hg k1 k2 k3 k4
      simp [foldl_takeFrom_get] at hg
      split at hg
      · exfalso; obtain ⟨g0, hg0, rfl⟩ := Option.map_eq_some_iff.mp hg; simp at k4
      · exact Or.inl ⟨g, hg, k1, k2, k3, k4⟩


theorem ne_of_not_mem {l : List Nat} {i j : Nat} (hi : i ∉ l) (hj : j ∈ l) : ¬ i = j := by
  rintro rfl; exact hi hj

/-- A step that only rewrites waiter `i`, which is not a listed sender, and moves no message
    between the four lists. -/
macro "sig_only" h:ident ha:ident hi:ident : tactic =>
  `(tactic| (
    constructor
    · refine Fifo.congr $h (by simp) (by simp) (by simp) (chanOrder_congr (by simp) (by simp) ?_)
      intro j hj
      have hne := ne_of_not_mem $hi hj
      simp [setSig_get, finalize_get, hne]
    · refine FifoAux.congr $ha (by simp) (by simp) ?_
      intro j g' x hg' k1 k2 k3 k4
      simp [setSig_get, finalize_get] at hg'
      (repeat' (split at hg'))
      all_goals (try simp at hg')
      all_goals grind))

theorem step_complete {s : State} {p : State × Res} {i}
    (hs : Struct s) (h : Fifo s) (ha : FifoAux s)
    (e : step Variant.good s (.complete i) = some p) : FifoX p.1 := by
  simp only [step] at e
  split at e
  · cases e
  rename_i g hg
  split at e
  · cases e
  rename_i hc
  simp only [not_or, Bool.not_eq_true] at hc
  have hi : i ∉ sendWaiters s.chan := hs.not_sender hg (by simp [hc.2.2])
  step_leaves e
  all_goals sig_only h ha hi


theorem step_finalize {s : State} {p : State × Res} {i}
    (hs : Struct s) (h : Fifo s) (ha : FifoAux s)
    (e : step Variant.good s (.finalize i) = some p) : FifoX p.1 := by
  simp only [step] at e
  split at e
  · cases e
  rename_i g hg
  split at e
  · cases e
  rename_i hc
  simp only [not_or, Bool.not_eq_true, Decidable.not_not] at hc
  have hi : i ∉ sendWaiters s.chan := hs.not_sender hg (by simp_all)
  step_leaves e
  all_goals sig_only h ha hi

/-- A new waiter leaves the slots of the listed senders alone. -/
theorem Struct.newSig_get {s : State} (hs : Struct s) {j : Nat} (hj : j ∈ sendWaiters s.chan) (g : Sig) :
    (s.sigs ++ [g])[j]? = s.sigs[j]? := by
  obtain ⟨g', m', hg', -⟩ := hs.sender hj
  have := lt_of_get?_some hg'
  simp [List.getElem?_append, this]

theorem step_newSendFut {s : State} {p : State × Res} {m}
    (hs : Struct s) (hl : Ledger s) (h : Fifo s) (ha : FifoAux s)
    (e : step Variant.good s (.newSendFut m) = some p) : FifoX p.1 := by
  simp only [step] at e
  step_leaves e
  rename_i hc
  simp only [not_or, Decidable.not_not] at hc
  have hm := ha.fresh hl hc.2
  constructor
  · refine h.congr (by simp) (by simp) (by simp) (chanOrder_congr (by simp) (by simp) ?_)
    intro j hj
    simpa using hs.newSig_get hj _
  · refine ha.congr (by simp) (by intro x hx; simp [hx]) ?_
    intro j g' x hg' k1 k2 k3 k4
    simp [append_single_get] at hg'
    split at hg'
    · cases hg'; simp at k4; subst k4; exact Or.inr hm
    · exact Or.inl ⟨g', hg', k1, k2, k3, k4⟩

theorem step_newRecvFut {s : State} {p : State × Res} {st}
    (hs : Struct s) (h : Fifo s) (ha : FifoAux s)
    (e : step Variant.good s (.newRecvFut st) = some p) : FifoX p.1 := by
  simp only [step] at e
  step_leaves e
  constructor
  · refine h.congr (by simp) (by simp) (by simp) (chanOrder_congr (by simp) (by simp) ?_)
    intro j hj
    simpa using hs.newSig_get hj _
  · refine ha.congr (by simp) (by simp) ?_
    intro j g' x hg' k1 k2 k3 k4
    simp [append_single_get] at hg'
    split at hg'
    · cases hg'; simp at k1
    · exact Or.inl ⟨g', hg', k1, k2, k3, k4⟩

theorem cloneCS_order (c : Chan) (r : Side) :
    (c.cloneCS r).queue = c.queue ∧ sendWaiters (c.cloneCS r) = sendWaiters c := by
  unfold cloneCS
  cases r <;> simp only <;> split <;> simp [sendWaiters]

theorem step_clone {s : State} {p : State × Res} {side}
    (h : Fifo s) (ha : FifoAux s)
    (e : step Variant.good s (.clone side) = some p) : FifoX p.1 := by
  simp only [step] at e
  cases side <;> simp only at e <;> step_leaves e
  all_goals
    constructor
    · exact h.congr rfl rfl rfl (chanOrder_congr (cloneCS_order _ _).1 (cloneCS_order _ _).2 (fun _ _ => rfl))
    · exact ha.congr rfl (by simp) (fun j g' x hg' k1 k2 k3 k4 => Or.inl ⟨g', hg', k1, k2, k3, k4⟩)


theorem cancel_cases {c c1 : Chan} {r : Role} {i : SigId} {b : Bool} (e : c.cancel r i = (c1, b)) :
    c1.queue = c.queue ∧ c1.recvBlocking = c.recvBlocking ∧
    (b = false → c1 = c ∧ ¬ (c.recvBlocking = (r == .recv) ∧ i ∈ c.waitList)) ∧
    (b = true → c.recvBlocking = (r == .recv) ∧ i ∈ c.waitList ∧ c1.waitList = c.waitList.erase i) := by
  unfold cancel at e
  split at e <;> cases e <;> simp_all

/-- The auxiliary invariant across a step that accepts nothing and only rewrites waiters. -/
macro "sig_aux" ha:ident : tactic =>
  `(tactic| (
      refine FifoAux.congr $ha (by simp) (by simp) ?_
      intro j g' x hg' k1 k2 k3 k4
      simp [setSig_get, finalize_get] at hg'
      (repeat' (split at hg'))
      all_goals (try simp at hg')
      all_goals grind))

theorem step_dropRecvFut {s : State} {p : State × Res} {f}
    (hs : Struct s) (h : Fifo s) (ha : FifoAux s)
    (e : step Variant.good s (.dropRecvFut f) = some p) : FifoX p.1 := by
  simp only [step] at e
  split at e
  · cases e
  rename_i g hg
  split at e
  · cases e
  rename_i hc
  simp only [not_or, Bool.not_eq_true, Decidable.not_not] at hc
  have hi : f ∉ sendWaiters s.chan := hs.not_sender hg (by simp [hc.2.2])
  step_leaves e
  · rename_i hcan
    obtain ⟨c1, c2, -, c4⟩ := cancel_cases hcan
    have hb : s.chan.recvBlocking = true := by simpa using (c4 rfl).1
    constructor
    · refine h.congr (by simp) (by simp) (by simp) ?_
      rw [chanOrder_of_recv (by simpa [hb] using c2), chanOrder_of_recv hb]
      simpa using c1
    · sig_aux ha
  all_goals sig_only h ha hi


theorem step_pollRecv {s : State} {p : State × Res} {f w}
    (hs : Struct s) (h : Fifo s) (ha : FifoAux s)
    (e : step Variant.good s (.pollRecv f w) = some p) : FifoX p.1 := by
  simp only [step] at e
  split at e
  · cases e
  rename_i g hg
  split at e
  · cases e
  rename_i hc
  simp only [not_or, Bool.not_eq_true, Decidable.not_not] at hc
  have hi : f ∉ sendWaiters s.chan := hs.not_sender hg (by simp [hc.2.2])
  have hi1 : f ∉ sendWaiters (recvStep s false false).1.chan := fun hh => hi (recvStep_sendWaiters _ hh)
  have h1 := recvStep_fifo (t := false) (e := false) hs h
  have ha1 := recvStep_aux (t := false) (e := false) ha
  step_leaves e
  all_goals first
    | exact ⟨h, ha⟩
    | (rename_i heq
       have he := recvStep_empty heq
       constructor
       · refine h1.congr (by simp) (by simp) (by simp) ?_
         rw [chanOrder_of_recv (by simpa [pushWaiter] using he.1), chanOrder_of_recv he.1]
         simp [pushWaiter]
       · sig_aux ha1)
    | sig_only h ha hi
    | sig_only h1 ha1 hi1
    | skip


theorem chanOrder_congr' {s s' : State} (hq : s'.chan.queue = s.chan.queue)
    (hw : sendWaiters s'.chan = sendWaiters s.chan)
    (hsl : ∀ i ∈ sendWaiters s.chan, s'.slotMsg i = s.slotMsg i) : chanOrder s' = chanOrder s := by
  unfold chanOrder
  rw [hq, hw]
  congr 1
  exact List.map_congr_left hsl

/-- Preservation of the auxiliary invariant by a step that accepts `m`. -/
theorem FifoAux.accept {s s' : State} (ha : FifoAux s) {m : Msg} (hacc : s'.accepted = s.accepted ++ [m])
    (hoff : ∀ x ∈ s.offered, x ∈ s'.offered) (hm : m ∈ s'.offered)
    (hsig : ∀ (i : Nat) (g' : Sig) (x : Msg), s'.sigs[i]? = some g' → g'.role = .send → g'.kind = .async →
      g'.fut = .zero → g'.slot = some x →
      (∃ g, s.sigs[i]? = some g ∧ g.role = .send ∧ g.kind = .async ∧ g.fut = .zero ∧ g.slot = some x) ∧ x ≠ m) :
    FifoAux s' := by
  constructor
  · intro x hx; rw [hacc] at hx; simp at hx
    rcases hx with hx | rfl
    · exact hoff x (ha.acceptedOffered x hx)
    · exact hm
  · intro i g' x hg h1 h2 h3 h4
    rw [hacc]
    obtain ⟨⟨g, hg0, k1, k2, k3, k4⟩, hne⟩ := hsig i g' x hg h1 h2 h3 h4
    simp [hne]
    exact ha.zeroFut i g x hg0 k1 k2 k3 k4

theorem step_pollSend {s : State} {p : State × Res} {f w}
    (hs : Struct s) (hl : Ledger s) (h : Fifo s) (ha : FifoAux s)
    (e : step Variant.good s (.pollSend f w) = some p) : FifoX p.1 := by
  simp only [step] at e
  split at e
  · cases e
  rename_i g hg
  split at e
  · cases e
  rename_i hc
  simp only [not_or, Bool.not_eq_true, Decidable.not_not] at hc
  split at e
  · -- state `Zero`: the send proper
    rename_i hz
    have hi : f ∉ sendWaiters s.chan := hs.not_sender hg (by simp [hc.2.1, hz])
    split at e
    · cases e
    rename_i m hm
    have hma : m ∉ s.accepted := ha.zeroFut f g m hg hc.2.2 hc.2.1 hz hm
    have hcu : s.cust m = .slot f := hl.slotCust f g m hg hm
    have hmo : m ∈ s.offered := (hl.offeredCust m).mpr (by simp [hcu])
    have hsc := hl.slotCust
    split at e <;> rename_i heq <;> have hcs := sendPre_cases hs.chanInv heq <;> simp only at hcs <;> cases e
    · sig_only h ha hi
    · sig_only h ha hi
    · obtain ⟨h1, h2, h3, h4, h5, h6⟩ := hcs
      obtain ⟨g0, hg0, hr0⟩ := hs.receiver h5 h6
      constructor
      · have e0 : chanOrder s = [] := by simp [chanOrder, h1, h3]
        rw [fifo_iff] at h ⊢
        rw [e0] at h
        rw [chanOrder_of_recv (by simpa using h4)]
        simpa [h2] using h.handoff hma
      · refine ha.accept (m := m) (by simp) (by simp) (by simpa using hmo) ?_
        intro j g' x hg' k1 k2 k3 k4
        simp [setSig_get, deliverTo_get] at hg'
        (repeat' (split at hg'))
        all_goals (try simp at hg')
        all_goals grind
    · obtain ⟨h1, h2, h3⟩ := hcs
      constructor
      · have e0 : chanOrder s = s.chan.queue := by simp [chanOrder, h2]
        rw [fifo_iff] at h ⊢
        rw [e0] at h
        rw [chanOrder_of_nil (by simpa using h3)]
        simpa [h1] using h.accept hma
      · refine ha.accept (m := m) (by simp) (by simp) (by simpa using hmo) ?_
        intro j g' x hg' k1 k2 k3 k4
        simp [setSig_get] at hg'
        (repeat' (split at hg'))
        all_goals (try simp at hg')
        all_goals grind
    · obtain ⟨h1, h2, h3⟩ := hcs
      constructor
      · rw [fifo_iff] at h ⊢
        have := h.accept hma
        rw [chanOrder_push (s := s) (m := m) (me := f)]
        · simpa using this
        · simpa [pushWaiter] using h1
        · simpa [pushWaiter] using h3
        · simp [pushWaiter, ← h2, sendWaiters_of_send h3]
        · intro i hi'
          have hne := ne_of_not_mem hi hi'
          simp [setSig_get, hne]
        · simp [slotMsg, setSig_get, hg, hm]
      · refine ha.accept (m := m) (by simp) (by simp) (by simpa using hmo) ?_
        intro j g' x hg' k1 k2 k3 k4
        simp [setSig_get] at hg'
        (repeat' (split at hg'))
        all_goals (try simp at hg')
        all_goals grind
  · -- state `Waiting`
    split at e
    · have hi : f ∉ sendWaiters s.chan := hs.not_sender hg (by simp_all)
      cases e; sig_only h ha hi
    · have hi : f ∉ sendWaiters s.chan := hs.not_sender hg (by simp_all)
      step_leaves e <;> sig_only h ha hi
    · step_leaves e
      all_goals first
        | exact ⟨h, ha⟩
        | (constructor
           · refine h.congr (by simp) (by simp) (by simp) (chanOrder_congr' (by simp) (by simp) ?_)
             intro j hj
             by_cases hjf : f = j
             · subst hjf; simp [slotMsg, hg]
             · simp [slotMsg, hjf]
           · sig_aux ha)
  · cases e; exact ⟨h, ha⟩


/-- A listed sender leaves the wait list: its message leaves the channel order. -/
theorem chanOrder_erase {s s' : State} {i : Nat} {m : Msg} (hs : Struct s)
    (hb : s.chan.recvBlocking = false) (hi : i ∈ s.chan.waitList) (hmsg : s.slotMsg i = m)
    (hq : s'.chan.queue = s.chan.queue) (hb' : s'.chan.recvBlocking = false)
    (hw : s'.chan.waitList = s.chan.waitList.erase i)
    (hsl : ∀ j ∈ s.chan.waitList, ¬ i = j → s'.sigs[j]? = s.sigs[j]?) :
    ∃ C1 C2, chanOrder s = C1 ++ m :: C2 ∧ chanOrder s' = C1 ++ C2 := by
  have hnd := hs.nodup
  obtain ⟨w1, w2, hw12⟩ := List.append_of_mem hi
  rw [hw12] at hnd hsl
  have hn1 : i ∉ w1 := by
    intro hh; simp [List.nodup_append] at hnd; grind
  have hn2 : i ∉ w2 := by
    intro hh; simp [List.nodup_append] at hnd; grind
  have he : s'.chan.waitList = w1 ++ w2 := by
    rw [hw, hw12, List.erase_append_right _ hn1, List.erase_cons_head]
  refine ⟨s.chan.queue ++ w1.map s.slotMsg, w2.map s.slotMsg, ?_, ?_⟩
  · simp [chanOrder, sendWaiters_of_send hb, hw12, hmsg]
  · simp only [chanOrder, sendWaiters_of_send hb', he, hq, List.map_append, List.append_assoc]
    congr 2
    · apply List.map_congr_left
      intro j hj
      exact slotMsg_congr (hsl j (by simp [hj]) (by rintro rfl; exact hn1 hj))
    · apply List.map_congr_left
      intro j hj
      exact slotMsg_congr (hsl j (by simp [hj]) (by rintro rfl; exact hn2 hj))

theorem step_expire {s : State} {p : State × Res} {i}
    (hs : Struct s) (h : Fifo s) (ha : FifoAux s)
    (e : step Variant.good s (.expire i) = some p) : FifoX p.1 := by
  simp only [step] at e
  split at e
  · cases e
  rename_i g hg
  split at e
  · cases e
  rename_i hc
  simp only [not_or, Bool.not_eq_true, Decidable.not_not] at hc
  split at e
  · cases e; exact ⟨h, ha⟩
  rename_i c1 hcan
  obtain ⟨q1, q2, -, q4⟩ := cancel_cases hcan
  obtain ⟨q4, q5, q6⟩ := q4 rfl
  split at e
  · -- a timed sender gives up
    rename_i m hr hm
    have hb : s.chan.recvBlocking = false := by rw [q4, hr]; rfl
    have hsm : s.slotMsg i = m := slotMsg_of hg hm
    have key : ∀ s' : State, s'.chan = c1 → s'.accepted = s.accepted → s'.delivered = s.delivered →
        s'.removed = s.removed ++ [m] → (∀ j, ¬ i = j → s'.sigs[j]? = s.sigs[j]?) → Fifo s' := by
      intro s' e1 e2 e3 e4 e5
      obtain ⟨C1, C2, k1, k2⟩ := chanOrder_erase (s' := s') hs hb q5 hsm (by rw [e1, q1]) (by rw [e1, q2, hb])
        (by rw [e1, q6]) (fun j _ hne => e5 j hne)
      rw [fifo_iff] at h ⊢
      rw [k1] at h
      rw [e2, e3, e4, k2]
      exact h.remove
    step_leaves e
    all_goals
      constructor
      · apply key <;> simp
        intro j hj; simp [hj]
      · sig_aux ha
  · rename_i hx
    cases e
    have hb : s.chan.recvBlocking = true := by
      cases hbb : s.chan.recvBlocking
      · exfalso
        obtain ⟨g', m, hg', hm, -, hr, -⟩ := hs.sender (i := i) (by rw [sendWaiters_of_send hbb]; exact q5)
        rw [hg] at hg'; cases hg'
        exact hx m hr hm
      · rfl
    constructor
    · refine h.congr (by simp) (by simp) (by simp) ?_
      rw [chanOrder_of_recv (by simpa [hb] using q2), chanOrder_of_recv hb]
      simpa using q1
    · sig_aux ha


theorem step_dropSendFut {s : State} {p : State × Res} {f}
    (hs : Struct s) (h : Fifo s) (ha : FifoAux s)
    (e : step Variant.good s (.dropSendFut f) = some p) : FifoX p.1 := by
  simp only [step] at e
  split at e
  · cases e
  rename_i g hg
  split at e
  · cases e
  rename_i hc
  simp only [not_or, Bool.not_eq_true, Decidable.not_not] at hc
  split at e
  · have hi : f ∉ sendWaiters s.chan := hs.not_sender hg (by simp_all)
    cases e; sig_only h ha hi
  · have hi : f ∉ sendWaiters s.chan := hs.not_sender hg (by simp_all)
    step_leaves e <;> sig_only h ha hi
  · split at e
    · -- the pending future is still listed: it is cancelled
      rename_i c1 hcan
      obtain ⟨q1, q2, -, q4⟩ := cancel_cases hcan
      obtain ⟨q4, q5, q6⟩ := q4 rfl
      have hb : s.chan.recvBlocking = false := by rw [q4]; rfl
      obtain ⟨g', m, hg', hm, hsm, -⟩ := hs.sender (i := f) (by rw [sendWaiters_of_send hb]; exact q5)
      rw [hg] at hg'; cases hg'
      split at e
      · rename_i m' hm'
        rw [hm] at hm'; cases hm'
        cases e
        constructor
        · obtain ⟨C1, C2, k1, k2⟩ := chanOrder_erase (s := s)
            (s' := (({ ({ s with chan := c1 }).setSig f { g with alive := false, slot := none, fut := .done } with
              removed := s.removed ++ [m] }).dropMsg m)) hs hb q5 hsm (by simpa using q1)
            (by simpa [hb] using q2) (by simpa using q6) (fun j _ hne => by simp [hne])
          rw [fifo_iff] at h ⊢
          rw [k1] at h
          rw [k2]
          simpa using h.remove
        · sig_aux ha
      · rename_i hn; rw [hm] at hn; cases hn
    · rename_i c1 hcan
      obtain ⟨-, -, q3, -⟩ := cancel_cases hcan
      have hi : f ∉ sendWaiters s.chan := by
        intro hh
        have := (q3 rfl).2
        unfold sendWaiters at hh
        split at hh <;> simp_all
      step_leaves e
      all_goals first
        | exact ⟨h, ha⟩
        | sig_only h ha hi


/-- The slot a terminated waiter contributes to `removed` (`withdrawSlots`). -/
def withdrawn (sigs : List Sig) (i : SigId) : Option Msg :=
  match sigs[i]? with
  | some g => if g.role == .send then g.slot else none
  | none => none

theorem withdrawSlots_removed (s : State) (l : List SigId) :
    (s.withdrawSlots l).removed = s.removed ++ l.filterMap (withdrawn s.sigs) := rfl

/-- Terminating the whole wait list withdraws exactly the messages of the blocked senders. -/
theorem Struct.withdrawn_eq {s : State} (hs : Struct s) :
    s.chan.waitList.filterMap (withdrawn s.sigs) = (sendWaiters s.chan).map s.slotMsg := by
  have key : ∀ w : List SigId, (∀ i ∈ w, i ∈ s.chan.waitList) →
      w.filterMap (withdrawn s.sigs) = if s.chan.recvBlocking then [] else w.map s.slotMsg := by
    intro w
    induction w with
    | nil => simp
    | cons i w ih =>
      intro hw
      have ih' := ih (fun j hj => hw j (by simp [hj]))
      obtain ⟨g, hg, hl⟩ := hs.listed i (hw i (by simp))
      cases hb : s.chan.recvBlocking
      · have hr : g.role = .send := by simpa [Chan.listRole, hb] using hl.role
        obtain ⟨m, hm⟩ := Option.isSome_iff_exists.mp (hl.sendSlot hr)
        have : withdrawn s.sigs i = some (s.slotMsg i) := by
          simp [withdrawn, hg, hr, hm, slotMsg]
        simp [List.filterMap_cons, this, ih', hb]
      · have hr : g.role = .recv := by simpa [Chan.listRole, hb] using hl.role
        have : withdrawn s.sigs i = none := by
          simp [withdrawn, hg, hr]
        simp [List.filterMap_cons, this, ih', hb]
  rw [key _ (fun _ h => h)]
  unfold sendWaiters
  split <;> simp_all

theorem closeCS_cases {c c1 : Chan} {l : List SigId} {q : List Msg} (e : c.closeCS = some (c1, l, q)) :
    c1.queue = [] ∧ c1.waitList = [] ∧ l = c.waitList ∧ q = c.queue := by
  unfold closeCS at e
  split at e
  · cases e
  · simp at e; obtain ⟨rfl, rfl, rfl⟩ := e; simp

theorem dropCS_cases (c : Chan) (r : Side) :
    (c.dropCS r).1.queue = c.queue ∧ (c.dropCS r).1.recvBlocking = c.recvBlocking ∧
    (((c.dropCS r).2 = [] ∧ (c.dropCS r).1.waitList = c.waitList) ∨
     ((c.dropCS r).2 = c.waitList ∧ (c.dropCS r).1.waitList = [])) := by
  unfold dropCS terminateAll
  cases r <;> simp only <;> (repeat' split) <;> simp

macro "sig_aux'" ha:ident : tactic =>
  `(tactic| (
      refine FifoAux.congr $ha (by simp) (by simp) ?_
      intro j g' x hg' k1 k2 k3 k4
      simp [setSig_get, finalize_get, terminateList_get] at hg'
      (repeat' (split at hg'))
      all_goals (try simp at hg')
      all_goals grind))

theorem step_close {s : State} {p : State × Res}
    (hs : Struct s) (h : Fifo s) (ha : FifoAux s)
    (e : step Variant.good s .close = some p) : FifoX p.1 := by
  simp only [step] at e
  step_leaves e
  · exact ⟨h, ha⟩
  · rename_i heq
    obtain ⟨h1, h2, rfl, rfl⟩ := closeCS_cases heq
    constructor
    · rw [fifo_iff] at h ⊢
      rw [chanOrder_of_nil (by simpa using h2)]
      have := h.removeAll
      simp [withdrawSlots_removed, hs.withdrawn_eq, h1]
      simpa [chanOrder] using this
    · sig_aux' ha


/-- The last handle of all goes away only when nobody waits. -/
theorem Struct.last_nil {s : State} (hs : Struct s) (h : s.liveS = 0 ∨ s.liveR = 0) :
    s.chan.waitList = [] := by
  apply hs.half
  obtain ⟨c1, c2⟩ := hs.counts
  cases hc : s.closedOnce
  · have := c1 hc; rcases h with h | h
    · left; omega
    · right; omega
  · have := c2 hc; left; exact this.1

theorem dropHandle_core {s : State} {c1 : Chan} {l : List SigId} {nS nR : Nat}
    (hs : Struct s) (h : Fifo s) (ha : FifoAux s)
    (d1 : c1.queue = s.chan.queue) (d2 : c1.recvBlocking = s.chan.recvBlocking)
    (d3 : (l = [] ∧ c1.waitList = s.chan.waitList) ∨ (l = s.chan.waitList ∧ c1.waitList = []))
    (hlast : nS + nR = 0 → s.chan.waitList = []) :
    let s1 := (({ s with chan := c1, liveS := nS, liveR := nR }).withdrawSlots l).terminateList l
    FifoX s1 ∧
    (nS + nR = 0 → FifoX (({ s1 with
        chan := { s1.chan with queue := [], waitList := [] },
        removed := s1.removed ++ s1.chan.queue }).dropMsgs s1.chan.queue)) := by
  intro s1
  have hA : s1.accepted = s.accepted := by simp [s1]
  have hD : s1.delivered = s.delivered := by simp [s1]
  have hR : s1.removed = s.removed ++ l.filterMap (withdrawn s.sigs) := by simp [s1, withdrawSlots_removed]
  have hC : s1.chan = c1 := by simp [s1]
  have a1 : FifoAux s1 := by
    simp only [s1]
    sig_aux' ha
  have f1 : Fifo s1 := by
    rcases d3 with ⟨rfl, d3⟩ | ⟨rfl, d3⟩
    · refine h.congr hA hD (by simpa using hR) (chanOrder_congr (by rw [hC, d1]) ?_ ?_)
      · rw [hC]; unfold sendWaiters; rw [d2, d3]
      · intro i _; simp [s1, terminateList_get]
    · rw [fifo_iff] at h ⊢
      rw [hA, hD, hR, hs.withdrawn_eq, chanOrder_of_nil (by rw [hC, d3]), hC, d1]
      exact h.removeSuffix
  refine ⟨⟨f1, a1⟩, fun hz => ?_⟩
  have hw := hlast hz
  constructor
  · rw [fifo_iff] at f1 ⊢
    rw [chanOrder_of_nil (by rw [hC]; rcases d3 with ⟨_, d3⟩ | ⟨_, d3⟩ <;> simp [d3, hw])] at f1
    rw [chanOrder_of_nil (by simp)]
    simpa using f1.removeAll
  · refine a1.congr (by simp) (by simp) ?_
    intro j g' x hg' k1 k2 k3 k4
    exact Or.inl ⟨g', by simpa using hg', k1, k2, k3, k4⟩

theorem step_dropHandle {s : State} {p : State × Res} {side}
    (hs : Struct s) (h : Fifo s) (ha : FifoAux s)
    (e : step Variant.good s (.dropHandle side) = some p) : FifoX p.1 := by
  simp only [step] at e
  obtain ⟨d1, d2, d3⟩ := dropCS_cases s.chan side
  cases side <;> simp only at e
  · split at e
    · cases e
    rename_i hc
    have key := dropHandle_core (nS := s.liveS - 1) (nR := s.liveR) hs h ha d1 d2 d3
      (fun hz => hs.last_nil (Or.inr (by omega)))
    step_leaves e
    · rename_i hz; exact key.2 (by simpa using hz)
    · exact key.1
  · split at e
    · cases e
    rename_i hc
    have key := dropHandle_core (nS := s.liveS) (nR := s.liveR - 1) hs h ha d1 d2 d3
      (fun hz => hs.last_nil (Or.inl (by omega)))
    step_leaves e
    · rename_i hz; exact key.2 (by simpa using hz)
    · exact key.1

/-! ### Every step -/

/-- `Fifo ∧ FifoAux` is preserved by every step of the repaired tree, given `Struct` and `Ledger`
    of the pre-state. -/
theorem fifoX_step {s : State} {l : Label} {p : State × Res}
    (hs : Struct s) (hl : Ledger s) (h : Fifo s) (ha : FifoAux s)
    (e : step Variant.good s l = some p) : FifoX p.1 := by
  cases l
  case send m kind opt => exact step_send hs hl h ha e
  case trySend m opt rt => exact step_trySend hs hl h ha e
  case recv kind ex => exact step_recv hs h ha e
  case tryRecv rt => exact step_tryRecv hs h ha e
  case drain => exact step_drain h ha e
  case complete i => exact step_complete hs h ha e
  case expire i => exact step_expire hs h ha e
  case finalize i => exact step_finalize hs h ha e
  case newSendFut m => exact step_newSendFut hs hl h ha e
  case pollSend f w => exact step_pollSend hs hl h ha e
  case dropSendFut f => exact step_dropSendFut hs h ha e
  case newRecvFut st => exact step_newRecvFut hs h ha e
  case pollRecv f w => exact step_pollRecv hs h ha e
  case dropRecvFut f => exact step_dropRecvFut hs h ha e
  case clone side => exact step_clone h ha e
  case dropHandle side => exact step_dropHandle hs h ha e
  case close => exact step_close hs h ha e
  case convert side => simp only [step] at e; cases side <;> simp only at e <;> step_leaves e <;> exact ⟨h, ha⟩
  case isDisconnected side =>
    simp only [step] at e; cases side <;> simp only at e <;> step_leaves e <;> exact ⟨h, ha⟩
  all_goals (simp only [step] at e; step_leaves e; exact ⟨h, ha⟩)

/-- FIFO is preserved by every step (the auxiliary invariant `FifoAux` is needed: `Fifo` is not
    inductive relative to `Struct ∧ Ledger` alone — nothing in those says that a fresh message,
    or the message of a not-yet-polled send future, has not been accepted before). -/
theorem fifo_step {s : State} {l : Label} {p : State × Res}
    (hs : Struct s) (hl : Ledger s) (h : Fifo s) (ha : FifoAux s)
    (e : step Variant.good s l = some p) : Fifo p.1 := (fifoX_step hs hl h ha e).1

theorem fifoAux_step {s : State} {l : Label} {p : State × Res}
    (hs : Struct s) (hl : Ledger s) (h : Fifo s) (ha : FifoAux s)
    (e : step Variant.good s l = some p) : FifoAux p.1 := (fifoX_step hs hl h ha e).2

theorem fifoX_init (cap : Option Nat) : FifoX (State.init cap) := ⟨fifo_init cap, fifoAux_init cap⟩

/-- Once `Struct` and `Ledger` are known for every reachable state (Struct.lean, Ledger.lean),
    FIFO holds in every reachable state. -/
theorem fifo_reach (hSL : ∀ s, Reach Variant.good s → Struct s ∧ Ledger s) :
    ∀ s, Reach Variant.good s → FifoX s :=
  Reach.induct fifoX_init (fun s _ _ hr ih e => fifoX_step (hSL s hr).1 (hSL s hr).2 ih.1 ih.2 e)

/-- Why the auxiliary invariant is needed: `Struct`, `Ledger` and `Fifo` alone do not exclude a
    state whose delivery log already contains a message tag that is still fresh. -/
theorem fifo_not_inductive_alone :
    ∃ (s : State) (l : Label) (p : State × Res), Struct s ∧ Ledger s ∧ Fifo s ∧
      step Variant.good s l = some p ∧ ¬ Fifo p.1 := by
  refine ⟨{ State.init none with accepted := [5], delivered := [5] }, .trySend 5 false false, ?_⟩
  refine ⟨_, ?_, ?_, ?_, rfl, ?_⟩
  · refine ⟨inv_new none, countInv_init none, ?_, ?_, ?_, ?_, ?_, ?_⟩ <;>
      simp [State.init, Chan.new, Borrow]
  · constructor <;> simp [State.init, Chan.new]
  · constructor <;> simp [State.init, Chan.new, chanOrder, sendWaiters]
  · intro h
    have := h.acceptedNodup
    revert this
    decide

end Kanal
