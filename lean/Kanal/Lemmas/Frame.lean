/-
  Kanal.Lemmas.Frame — what each L0 function and each state primitive leaves unchanged.
-/
import Kanal.Spec

namespace Kanal
namespace Chan

/-- The parts of the channel no queue/wait-list operation touches. -/
def Same (c c' : Chan) : Prop :=
  c'.capacity = c.capacity ∧ c'.sendCount = c.sendCount ∧ c'.recvCount = c.recvCount

theorem Same.rfl' (c : Chan) : Same c c := ⟨rfl, rfl, rfl⟩

theorem nextSend_same (c : Chan) : Same c c.nextSend.1 := by
  unfold nextSend Same; split <;> (try split) <;> simp

theorem nextRecv_same (c : Chan) : Same c c.nextRecv.1 := by
  unfold nextRecv Same; split <;> (try split) <;> simp

theorem pushWaiter_same (c : Chan) (s) : Same c (c.pushWaiter s) := by simp [pushWaiter, Same]

theorem cancel_same (c : Chan) (r s) : Same c (c.cancel r s).1 := by
  unfold cancel Same; split <;> simp

theorem sendPre_same (c : Chan) (m) : Same c (c.sendPre m).1 := by
  have h := nextRecv_same c
  unfold sendPre Same at *
  split
  · simp
  · split
    · rename_i heq; rw [heq] at h; simpa using h
    · rename_i heq; rw [heq] at h; split <;> simpa using h

theorem sendCS_same (c : Chan) (m me) : Same c (c.sendCS m me).1 := by
  have h := sendPre_same c m
  unfold sendCS
  split
  · rename_i heq; rw [heq] at h; simpa [Same, pushWaiter] using h
  · exact h

theorem recvPre_same (c : Chan) (slot t e) : Same c (c.recvPre slot t e).1 := by
  unfold recvPre
  split
  · exact Same.rfl' c
  · split
    · rename_i v q hq
      have h := nextSend_same { c with queue := q }
      split <;> rename_i heq <;> rw [heq] at h <;> simpa [Same] using h
    · have h := nextSend_same c
      split
      · rename_i heq; rw [heq] at h; simpa using h
      · rename_i heq; rw [heq] at h
        split
        · simpa using h
        · split <;> simpa using h

theorem recvCS_same (c : Chan) (slot t e me) : Same c (c.recvCS slot t e me).1 := by
  have h := recvPre_same c slot t e
  unfold recvCS
  split
  · rename_i heq; rw [heq] at h; simpa [Same, pushWaiter] using h
  · exact h

theorem popAllSenders_same (c : Chan) : Same c c.popAllSenders.1 := by
  unfold popAllSenders Same; split <;> simp

theorem drainCS_same (c : Chan) {c1 q l n} (h : c.drainCS = some (c1, q, l, n)) : Same c c1 := by
  unfold drainCS at h
  split at h
  · cases h
  · have := popAllSenders_same { c with queue := [] }
    simp only [Option.some.injEq, Prod.mk.injEq] at h
    obtain ⟨h1, -⟩ := h
    rw [← h1]; simpa [Same] using this

end Chan

namespace State

section frame
variable (s : State)

@[simp] theorem setSig_chan (i g) : (s.setSig i g).chan = s.chan := rfl
@[simp] theorem setSig_liveS (i g) : (s.setSig i g).liveS = s.liveS := rfl
@[simp] theorem setSig_liveR (i g) : (s.setSig i g).liveR = s.liveR := rfl
@[simp] theorem setSig_closedOnce (i g) : (s.setSig i g).closedOnce = s.closedOnce := rfl
@[simp] theorem setSig_cust (i g) : (s.setSig i g).cust = s.cust := rfl
@[simp] theorem setSig_sigs (i g) : (s.setSig i g).sigs = s.sigs.set i g := rfl
@[simp] theorem setSig_offered (i g) : (s.setSig i g).offered = s.offered := rfl
@[simp] theorem setSig_accepted (i g) : (s.setSig i g).accepted = s.accepted := rfl
@[simp] theorem setSig_delivered (i g) : (s.setSig i g).delivered = s.delivered := rfl
@[simp] theorem setSig_removed (i g) : (s.setSig i g).removed = s.removed := rfl
@[simp] theorem setSig_recvd (i g) : (s.setSig i g).recvd = s.recvd := rfl
@[simp] theorem setSig_dropped (i g) : (s.setSig i g).dropped = s.dropped := rfl
@[simp] theorem setSig_wakes (i g) : (s.setSig i g).wakes = s.wakes := rfl

@[simp] theorem setCust_chan (m c) : (s.setCust m c).chan = s.chan := rfl
@[simp] theorem setCust_liveS (m c) : (s.setCust m c).liveS = s.liveS := rfl
@[simp] theorem setCust_liveR (m c) : (s.setCust m c).liveR = s.liveR := rfl
@[simp] theorem setCust_closedOnce (m c) : (s.setCust m c).closedOnce = s.closedOnce := rfl
@[simp] theorem setCust_cust (m c) : (s.setCust m c).cust = upd s.cust m c := rfl
@[simp] theorem setCust_sigs (m c) : (s.setCust m c).sigs = s.sigs := rfl
@[simp] theorem setCust_offered (m c) : (s.setCust m c).offered = s.offered := rfl
@[simp] theorem setCust_accepted (m c) : (s.setCust m c).accepted = s.accepted := rfl
@[simp] theorem setCust_delivered (m c) : (s.setCust m c).delivered = s.delivered := rfl
@[simp] theorem setCust_removed (m c) : (s.setCust m c).removed = s.removed := rfl
@[simp] theorem setCust_recvd (m c) : (s.setCust m c).recvd = s.recvd := rfl
@[simp] theorem setCust_dropped (m c) : (s.setCust m c).dropped = s.dropped := rfl
@[simp] theorem setCust_wakes (m c) : (s.setCust m c).wakes = s.wakes := rfl

/-- The fields no signal-level primitive touches. -/
structure SameCore (s s' : State) : Prop where
  chan : s'.chan = s.chan
  liveS : s'.liveS = s.liveS
  liveR : s'.liveR = s.liveR
  closedOnce : s'.closedOnce = s.closedOnce
  offered : s'.offered = s.offered
  accepted : s'.accepted = s.accepted
  delivered : s'.delivered = s.delivered

theorem SameCore.refl (s : State) : SameCore s s := ⟨rfl, rfl, rfl, rfl, rfl, rfl, rfl⟩
theorem SameCore.trans {a b c : State} (h1 : SameCore a b) (h2 : SameCore b c) : SameCore a c :=
  ⟨h2.1.trans h1.1, h2.2.trans h1.2, h2.3.trans h1.3, h2.4.trans h1.4, h2.5.trans h1.5, h2.6.trans h1.6, h2.7.trans h1.7⟩

theorem finalize_core (i o) : SameCore s (s.finalize i o) := by
  unfold finalize; split
  · exact SameCore.refl s
  · split <;> constructor <;> rfl

theorem terminateList_core (l : List SigId) : SameCore s (s.terminateList l) := by
  unfold terminateList
  induction l generalizing s with
  | nil => exact SameCore.refl s
  | cons i l ih => exact (finalize_core s i .term).trans (ih _)

theorem deliverTo_core (i m) : SameCore s (s.deliverTo i m) := by
  unfold deliverTo; split
  · exact SameCore.refl s
  · constructor <;> rfl

theorem claimFrom_core (i) : SameCore s (s.claimFrom i) := by
  unfold claimFrom; split
  · exact SameCore.refl s
  · constructor <;> rfl

theorem takeFrom_core (i) : SameCore s (s.takeFrom i) := by
  unfold takeFrom; split
  · exact SameCore.refl s
  · have := finalize_core (s.setSig i { ‹Sig› with slot := none }) i .ok
    constructor <;> simp [this.1, this.2, this.3, this.4, this.5, this.6, this.7] <;> rfl

theorem dropMsg_core (m) : SameCore s (s.dropMsg m) := by constructor <;> rfl

theorem dropMsgs_core (ms : List Msg) : SameCore s (s.dropMsgs ms) := by
  unfold dropMsgs
  induction ms generalizing s with
  | nil => exact SameCore.refl s
  | cons m l ih => exact (dropMsg_core s m).trans (ih _)

theorem giveR_core (m) : SameCore s (s.giveR m) := by constructor <;> rfl

theorem failBack_core (m o) : SameCore s (s.failBack m o) := by
  unfold failBack; split
  · constructor <;> rfl
  · exact dropMsg_core s m

theorem withdrawSlots_core (l) : SameCore s (s.withdrawSlots l) := by constructor <;> rfl

theorem foldl_giveR_core (ms : List Msg) : SameCore s (ms.foldl giveR s) := by
  induction ms generalizing s with
  | nil => exact SameCore.refl s
  | cons m l ih => exact (giveR_core s m).trans (ih _)

theorem foldl_takeFrom_core (l : List SigId) : SameCore s (l.foldl takeFrom s) := by
  induction l generalizing s with
  | nil => exact SameCore.refl s
  | cons m l ih => exact (takeFrom_core s m).trans (ih _)

@[simp] theorem finalize_chan (i : SigId) (o : SigSt) : (s.finalize i o).chan = s.chan := (finalize_core s i o).chan
@[simp] theorem finalize_liveS (i : SigId) (o : SigSt) : (s.finalize i o).liveS = s.liveS := (finalize_core s i o).liveS
@[simp] theorem finalize_liveR (i : SigId) (o : SigSt) : (s.finalize i o).liveR = s.liveR := (finalize_core s i o).liveR
@[simp] theorem finalize_closedOnce (i : SigId) (o : SigSt) : (s.finalize i o).closedOnce = s.closedOnce := (finalize_core s i o).closedOnce
@[simp] theorem finalize_offered (i : SigId) (o : SigSt) : (s.finalize i o).offered = s.offered := (finalize_core s i o).offered
@[simp] theorem finalize_accepted (i : SigId) (o : SigSt) : (s.finalize i o).accepted = s.accepted := (finalize_core s i o).accepted
@[simp] theorem finalize_delivered (i : SigId) (o : SigSt) : (s.finalize i o).delivered = s.delivered := (finalize_core s i o).delivered
@[simp] theorem terminateList_chan (l : List SigId) : (s.terminateList l).chan = s.chan := (terminateList_core s l).chan
@[simp] theorem terminateList_liveS (l : List SigId) : (s.terminateList l).liveS = s.liveS := (terminateList_core s l).liveS
@[simp] theorem terminateList_liveR (l : List SigId) : (s.terminateList l).liveR = s.liveR := (terminateList_core s l).liveR
@[simp] theorem terminateList_closedOnce (l : List SigId) : (s.terminateList l).closedOnce = s.closedOnce := (terminateList_core s l).closedOnce
@[simp] theorem terminateList_offered (l : List SigId) : (s.terminateList l).offered = s.offered := (terminateList_core s l).offered
@[simp] theorem terminateList_accepted (l : List SigId) : (s.terminateList l).accepted = s.accepted := (terminateList_core s l).accepted
@[simp] theorem terminateList_delivered (l : List SigId) : (s.terminateList l).delivered = s.delivered := (terminateList_core s l).delivered
@[simp] theorem deliverTo_chan (i : SigId) (m : Msg) : (s.deliverTo i m).chan = s.chan := (deliverTo_core s i m).chan
@[simp] theorem deliverTo_liveS (i : SigId) (m : Msg) : (s.deliverTo i m).liveS = s.liveS := (deliverTo_core s i m).liveS
@[simp] theorem deliverTo_liveR (i : SigId) (m : Msg) : (s.deliverTo i m).liveR = s.liveR := (deliverTo_core s i m).liveR
@[simp] theorem deliverTo_closedOnce (i : SigId) (m : Msg) : (s.deliverTo i m).closedOnce = s.closedOnce := (deliverTo_core s i m).closedOnce
@[simp] theorem deliverTo_offered (i : SigId) (m : Msg) : (s.deliverTo i m).offered = s.offered := (deliverTo_core s i m).offered
@[simp] theorem deliverTo_accepted (i : SigId) (m : Msg) : (s.deliverTo i m).accepted = s.accepted := (deliverTo_core s i m).accepted
@[simp] theorem deliverTo_delivered (i : SigId) (m : Msg) : (s.deliverTo i m).delivered = s.delivered := (deliverTo_core s i m).delivered
@[simp] theorem takeFrom_chan (i : SigId) : (s.takeFrom i).chan = s.chan := (takeFrom_core s i).chan
@[simp] theorem takeFrom_liveS (i : SigId) : (s.takeFrom i).liveS = s.liveS := (takeFrom_core s i).liveS
@[simp] theorem takeFrom_liveR (i : SigId) : (s.takeFrom i).liveR = s.liveR := (takeFrom_core s i).liveR
@[simp] theorem takeFrom_closedOnce (i : SigId) : (s.takeFrom i).closedOnce = s.closedOnce := (takeFrom_core s i).closedOnce
@[simp] theorem takeFrom_offered (i : SigId) : (s.takeFrom i).offered = s.offered := (takeFrom_core s i).offered
@[simp] theorem takeFrom_accepted (i : SigId) : (s.takeFrom i).accepted = s.accepted := (takeFrom_core s i).accepted
@[simp] theorem takeFrom_delivered (i : SigId) : (s.takeFrom i).delivered = s.delivered := (takeFrom_core s i).delivered
@[simp] theorem dropMsg_chan (m : Msg) : (s.dropMsg m).chan = s.chan := (dropMsg_core s m).chan
@[simp] theorem dropMsg_liveS (m : Msg) : (s.dropMsg m).liveS = s.liveS := (dropMsg_core s m).liveS
@[simp] theorem dropMsg_liveR (m : Msg) : (s.dropMsg m).liveR = s.liveR := (dropMsg_core s m).liveR
@[simp] theorem dropMsg_closedOnce (m : Msg) : (s.dropMsg m).closedOnce = s.closedOnce := (dropMsg_core s m).closedOnce
@[simp] theorem dropMsg_offered (m : Msg) : (s.dropMsg m).offered = s.offered := (dropMsg_core s m).offered
@[simp] theorem dropMsg_accepted (m : Msg) : (s.dropMsg m).accepted = s.accepted := (dropMsg_core s m).accepted
@[simp] theorem dropMsg_delivered (m : Msg) : (s.dropMsg m).delivered = s.delivered := (dropMsg_core s m).delivered
@[simp] theorem dropMsgs_chan (ms : List Msg) : (s.dropMsgs ms).chan = s.chan := (dropMsgs_core s ms).chan
@[simp] theorem dropMsgs_liveS (ms : List Msg) : (s.dropMsgs ms).liveS = s.liveS := (dropMsgs_core s ms).liveS
@[simp] theorem dropMsgs_liveR (ms : List Msg) : (s.dropMsgs ms).liveR = s.liveR := (dropMsgs_core s ms).liveR
@[simp] theorem dropMsgs_closedOnce (ms : List Msg) : (s.dropMsgs ms).closedOnce = s.closedOnce := (dropMsgs_core s ms).closedOnce
@[simp] theorem dropMsgs_offered (ms : List Msg) : (s.dropMsgs ms).offered = s.offered := (dropMsgs_core s ms).offered
@[simp] theorem dropMsgs_accepted (ms : List Msg) : (s.dropMsgs ms).accepted = s.accepted := (dropMsgs_core s ms).accepted
@[simp] theorem dropMsgs_delivered (ms : List Msg) : (s.dropMsgs ms).delivered = s.delivered := (dropMsgs_core s ms).delivered
@[simp] theorem giveR_chan (m : Msg) : (s.giveR m).chan = s.chan := (giveR_core s m).chan
@[simp] theorem giveR_liveS (m : Msg) : (s.giveR m).liveS = s.liveS := (giveR_core s m).liveS
@[simp] theorem giveR_liveR (m : Msg) : (s.giveR m).liveR = s.liveR := (giveR_core s m).liveR
@[simp] theorem giveR_closedOnce (m : Msg) : (s.giveR m).closedOnce = s.closedOnce := (giveR_core s m).closedOnce
@[simp] theorem giveR_offered (m : Msg) : (s.giveR m).offered = s.offered := (giveR_core s m).offered
@[simp] theorem giveR_accepted (m : Msg) : (s.giveR m).accepted = s.accepted := (giveR_core s m).accepted
@[simp] theorem giveR_delivered (m : Msg) : (s.giveR m).delivered = s.delivered := (giveR_core s m).delivered
@[simp] theorem failBack_chan (m : Msg) (o : Bool) : (s.failBack m o).chan = s.chan := (failBack_core s m o).chan
@[simp] theorem failBack_liveS (m : Msg) (o : Bool) : (s.failBack m o).liveS = s.liveS := (failBack_core s m o).liveS
@[simp] theorem failBack_liveR (m : Msg) (o : Bool) : (s.failBack m o).liveR = s.liveR := (failBack_core s m o).liveR
@[simp] theorem failBack_closedOnce (m : Msg) (o : Bool) : (s.failBack m o).closedOnce = s.closedOnce := (failBack_core s m o).closedOnce
@[simp] theorem failBack_offered (m : Msg) (o : Bool) : (s.failBack m o).offered = s.offered := (failBack_core s m o).offered
@[simp] theorem failBack_accepted (m : Msg) (o : Bool) : (s.failBack m o).accepted = s.accepted := (failBack_core s m o).accepted
@[simp] theorem failBack_delivered (m : Msg) (o : Bool) : (s.failBack m o).delivered = s.delivered := (failBack_core s m o).delivered
@[simp] theorem withdrawSlots_chan (l : List SigId) : (s.withdrawSlots l).chan = s.chan := (withdrawSlots_core s l).chan
@[simp] theorem withdrawSlots_liveS (l : List SigId) : (s.withdrawSlots l).liveS = s.liveS := (withdrawSlots_core s l).liveS
@[simp] theorem withdrawSlots_liveR (l : List SigId) : (s.withdrawSlots l).liveR = s.liveR := (withdrawSlots_core s l).liveR
@[simp] theorem withdrawSlots_closedOnce (l : List SigId) : (s.withdrawSlots l).closedOnce = s.closedOnce := (withdrawSlots_core s l).closedOnce
@[simp] theorem withdrawSlots_offered (l : List SigId) : (s.withdrawSlots l).offered = s.offered := (withdrawSlots_core s l).offered
@[simp] theorem withdrawSlots_accepted (l : List SigId) : (s.withdrawSlots l).accepted = s.accepted := (withdrawSlots_core s l).accepted
@[simp] theorem withdrawSlots_delivered (l : List SigId) : (s.withdrawSlots l).delivered = s.delivered := (withdrawSlots_core s l).delivered
@[simp] theorem foldl_giveR_chan (ms : List Msg) : (ms.foldl giveR s).chan = s.chan := (foldl_giveR_core s ms).chan
@[simp] theorem foldl_takeFrom_chan (l : List SigId) : (l.foldl takeFrom s).chan = s.chan := (foldl_takeFrom_core s l).chan
@[simp] theorem foldl_giveR_liveS (ms : List Msg) : (ms.foldl giveR s).liveS = s.liveS := (foldl_giveR_core s ms).liveS
@[simp] theorem foldl_takeFrom_liveS (l : List SigId) : (l.foldl takeFrom s).liveS = s.liveS := (foldl_takeFrom_core s l).liveS
@[simp] theorem foldl_giveR_liveR (ms : List Msg) : (ms.foldl giveR s).liveR = s.liveR := (foldl_giveR_core s ms).liveR
@[simp] theorem foldl_takeFrom_liveR (l : List SigId) : (l.foldl takeFrom s).liveR = s.liveR := (foldl_takeFrom_core s l).liveR
@[simp] theorem foldl_giveR_closedOnce (ms : List Msg) : (ms.foldl giveR s).closedOnce = s.closedOnce := (foldl_giveR_core s ms).closedOnce
@[simp] theorem foldl_takeFrom_closedOnce (l : List SigId) : (l.foldl takeFrom s).closedOnce = s.closedOnce := (foldl_takeFrom_core s l).closedOnce
@[simp] theorem foldl_giveR_offered (ms : List Msg) : (ms.foldl giveR s).offered = s.offered := (foldl_giveR_core s ms).offered
@[simp] theorem foldl_takeFrom_offered (l : List SigId) : (l.foldl takeFrom s).offered = s.offered := (foldl_takeFrom_core s l).offered
@[simp] theorem foldl_giveR_accepted (ms : List Msg) : (ms.foldl giveR s).accepted = s.accepted := (foldl_giveR_core s ms).accepted
@[simp] theorem foldl_takeFrom_accepted (l : List SigId) : (l.foldl takeFrom s).accepted = s.accepted := (foldl_takeFrom_core s l).accepted
@[simp] theorem foldl_giveR_delivered (ms : List Msg) : (ms.foldl giveR s).delivered = s.delivered := (foldl_giveR_core s ms).delivered
@[simp] theorem foldl_takeFrom_delivered (l : List SigId) : (l.foldl takeFrom s).delivered = s.delivered := (foldl_takeFrom_core s l).delivered
@[simp] theorem claimFrom_chan (i : SigId) : (s.claimFrom i).chan = s.chan := (claimFrom_core s i).chan
@[simp] theorem claimFrom_liveS (i : SigId) : (s.claimFrom i).liveS = s.liveS := (claimFrom_core s i).liveS
@[simp] theorem claimFrom_liveR (i : SigId) : (s.claimFrom i).liveR = s.liveR := (claimFrom_core s i).liveR
@[simp] theorem claimFrom_closedOnce (i : SigId) : (s.claimFrom i).closedOnce = s.closedOnce := (claimFrom_core s i).closedOnce
@[simp] theorem claimFrom_offered (i : SigId) : (s.claimFrom i).offered = s.offered := (claimFrom_core s i).offered
@[simp] theorem claimFrom_accepted (i : SigId) : (s.claimFrom i).accepted = s.accepted := (claimFrom_core s i).accepted
@[simp] theorem claimFrom_delivered (i : SigId) : (s.claimFrom i).delivered = s.delivered := (claimFrom_core s i).delivered
@[simp] theorem newSig_fst_chan (g : Sig) : (s.newSig g).1.chan = s.chan := rfl
@[simp] theorem newSig_fst_liveS (g : Sig) : (s.newSig g).1.liveS = s.liveS := rfl
@[simp] theorem newSig_fst_liveR (g : Sig) : (s.newSig g).1.liveR = s.liveR := rfl
@[simp] theorem newSig_fst_closedOnce (g : Sig) : (s.newSig g).1.closedOnce = s.closedOnce := rfl
@[simp] theorem newSig_fst_sigs (g : Sig) : (s.newSig g).1.sigs = s.sigs ++ [g] := rfl
@[simp] theorem newSig_snd (g : Sig) : (s.newSig g).2 = s.sigs.length := rfl

end frame
end State
end Kanal
