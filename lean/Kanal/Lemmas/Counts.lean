/-
  Kanal.Lemmas.Counts — the handle counts and the live-handle ledger (CountInv of DESIGN §3.4).
-/
import Kanal.Lemmas.Frame
import Kanal.Lemmas.Reach

namespace Kanal
open Chan State

/-- What a step leaves of the counts, capacity and ledger. -/
def Quiet (s s' : State) : Prop :=
  Chan.Same s.chan s'.chan ∧ s'.liveS = s.liveS ∧ s'.liveR = s.liveR ∧ s'.closedOnce = s.closedOnce

theorem sendStep_quiet (s : State) (m o reg) : Quiet s (sendStep s m o reg).1 := by
  have h := sendPre_same s.chan m
  unfold sendStep Quiet
  simp only
  split <;> rename_i heq <;> rw [heq] at h
  · simpa using Same.rfl' s.chan
  · simpa using Same.rfl' s.chan
  · simpa using h
  · simpa using h
  · split
    · simpa using h
    · simpa [Same, pushWaiter] using h

theorem recvStep_quiet (s : State) (t e) : Quiet s (recvStep s t e).1 := by
  have h := recvPre_same s.chan s.slotMsg t e
  unfold recvStep Quiet
  split <;> rename_i heq <;> rw [heq] at h
  · split <;> simpa using h
  · simpa using h
  · simpa using h


theorem Quiet.refl (s : State) : Quiet s s := ⟨Same.rfl' _, rfl, rfl, rfl⟩

/-- A label that is neither a handle operation nor `close`. -/
def Label.isPlain : Label → Bool
  | .clone _ | .dropHandle _ | .close => false
  | _ => true


/-- The recipe used throughout: open every branch of the step, discard the
    disabled ones, name the result, simplify the projections. -/
macro "step_leaves" e:ident : tactic =>
  `(tactic| ((repeat' (split at $e:ident)) <;> (first | (cases $e:ident; done) | skip) <;> cases $e:ident))

theorem sendStep_quiet' (s : State) (m o reg) :
    let p := sendStep s m o reg
    (p.1.chan.capacity = s.chan.capacity ∧ p.1.chan.sendCount = s.chan.sendCount ∧ p.1.chan.recvCount = s.chan.recvCount) ∧
    p.1.liveS = s.liveS ∧ p.1.liveR = s.liveR ∧ p.1.closedOnce = s.closedOnce := sendStep_quiet s m o reg

theorem recvStep_quiet' (s : State) (t e) :
    let p := recvStep s t e
    (p.1.chan.capacity = s.chan.capacity ∧ p.1.chan.sendCount = s.chan.sendCount ∧ p.1.chan.recvCount = s.chan.recvCount) ∧
    p.1.liveS = s.liveS ∧ p.1.liveR = s.liveR ∧ p.1.closedOnce = s.closedOnce := recvStep_quiet s t e

theorem sendPre_same' (c : Chan) (m : Msg) :
    (c.sendPre m).1.capacity = c.capacity ∧ (c.sendPre m).1.sendCount = c.sendCount ∧
    (c.sendPre m).1.recvCount = c.recvCount := sendPre_same c m

theorem cancel_same' (c : Chan) (r s) :
    (c.cancel r s).1.capacity = c.capacity ∧ (c.cancel r s).1.sendCount = c.sendCount ∧
    (c.cancel r s).1.recvCount = c.recvCount := cancel_same c r s

theorem drainCS_same' (c : Chan) {c1 q l n} (h : c.drainCS = some (c1, q, l, n)) :
    c1.capacity = c.capacity ∧ c1.sendCount = c.sendCount ∧ c1.recvCount = c.recvCount := drainCS_same c h

/-- Every step other than clone / drop / close leaves counts, capacity and ledger alone. -/
theorem step_quiet {v s l p} (hl : Label.isPlain l = true) (e : step v s l = some p) : Quiet s p.1 := by
  cases l <;> simp only [Label.isPlain, Bool.false_eq_true] at hl <;> simp only [step] at e
  case isDisconnected side => cases side <;> simp only at e <;> step_leaves e <;> exact Quiet.refl s
  all_goals step_leaves e
  all_goals simp [Quiet, Same, pushWaiter]
  all_goals grind [sendPre_same', cancel_same', drainCS_same', sendStep_quiet', recvStep_quiet']

/-- Counters = ledger while open; both zero once closed. -/
def CountInv (s : State) : Prop :=
  (s.closedOnce = false → s.chan.sendCount = s.liveS ∧ s.chan.recvCount = s.liveR) ∧
  (s.closedOnce = true → s.chan.sendCount = 0 ∧ s.chan.recvCount = 0)

theorem countInv_init (cap) : CountInv (State.init cap) := by
  simp [CountInv, State.init, Chan.new]

theorem countInv_step {v s l p} (h : CountInv s) (e : step v s l = some p) : CountInv p.1 := by
  by_cases hl : Label.isPlain l = true
  · obtain ⟨⟨-, h2, h3⟩, h4, h5, h6⟩ := step_quiet hl e
    unfold CountInv at *
    rw [h2, h3, h4, h5, h6]; exact h
  · cases l <;> simp [Label.isPlain] at hl <;> simp only [step] at e
    case clone side =>
      cases side <;> simp only at e <;> step_leaves e <;> simp [CountInv, cloneCS] at * <;> grind
    case dropHandle side =>
      cases side <;> simp only at e <;> step_leaves e <;>
        simp [CountInv, dropCS, terminateAll] at * <;> grind
    case close =>
      step_leaves e
      · exact h
      · rename_i heq
        unfold closeCS at heq
        split at heq <;> cases heq
        simp [CountInv] at *

theorem countInv_reach (v : Variant) (s : State) (h : Reach v s) : CountInv s :=
  Reach.induct countInv_init (fun _ _ _ _ ih e => countInv_step ih e) s h

end Kanal
