/-
  Kanal.Lemmas.All — the invariants bundled: every reachable state of the model of the
  repaired tree satisfies the structural invariant and the custody ledger.
-/
import Kanal.Lemmas.Struct
import Kanal.Lemmas.Ledger
import Kanal.Lemmas.Fifo

namespace Kanal

theorem reach_struct (s : State) (h : Reach Variant.good s) : Struct s := struct_reach_good s h

theorem reach_ledger (s : State) (h : Reach Variant.good s) : SendDone s ∧ Ledger s :=
  ledger_reach (fun s hs => struct_reach_good s hs) s h

theorem reach_fifo (s : State) (h : Reach Variant.good s) : Fifo s :=
  (fifo_reach (fun s hs => ⟨reach_struct s hs, (reach_ledger s hs).2⟩) s h).1

end Kanal
