/-
  Kanal.Lemmas.StepChan — every atomic step preserves the channel's list discipline.
-/
import Kanal.Lemmas.ChanInv
import Kanal.Lemmas.Counts

namespace Kanal
open Chan State

theorem sendStep_chanInv (s : State) (m o reg) (h : s.chan.Inv) : (sendStep s m o reg).1.chan.Inv := by
  unfold sendStep
  simp only
  split <;> rename_i heq
  · simpa using h
  · simpa using h
  · simpa using sendPre_inv h heq
  · simpa using sendPre_inv h heq
  · have h2 := sendPre_inv h heq
    have hf := sendPre_full heq
    split
    · simpa using h2
    · simpa using pushWaiter_inv_send h2 hf.1 hf.2.1

theorem recvStep_chanInv (s : State) (t e) (h : s.chan.Inv) : (recvStep s t e).1.chan.Inv := by
  unfold recvStep
  split <;> rename_i heq
  · split <;> simpa using recvPre_inv h heq
  · simpa using recvPre_inv h heq
  · simpa using recvPre_inv h heq

theorem recvStep_empty {s : State} {t e} (h : (recvStep s t e).2 = .empty) :
    (recvStep s t e).1.chan.recvBlocking = true ∧ (recvStep s t e).1.chan.queue = [] := by
  unfold recvStep at h ⊢
  split at h <;> rename_i heq
  · split at h <;> cases h
  · cases h
  · simp only at h; subst h
    have := recvPre_empty heq
    simp only [heq]
    exact ⟨this.1, this.2.1⟩

theorem step_chanInv {v s l p} (h : s.chan.Inv) (e : step v s l = some p) : p.1.chan.Inv := by
  cases l <;> simp only [step] at e
  case send m kind opt => step_leaves e; exact sendStep_chanInv _ _ _ _ h
  case trySend m opt rt =>
    have := sendStep_chanInv s m opt none h
    step_leaves e <;> (try rename_i heq) <;> (try rw [heq] at this) <;> exact this
  case recv kind ex =>
    have := recvStep_chanInv s (kind == .timed) ex h
    step_leaves e
    · rename_i heq
      have he := recvStep_empty heq
      simpa using pushWaiter_inv_recv this he.1 he.2
    · exact this
  case tryRecv rt =>
    have := recvStep_chanInv s false false h
    step_leaves e; exact this
  case drain =>
    step_leaves e
    · exact h
    · rename_i heq; simpa using drainCS_inv h heq
  case clone side => cases side <;> simp only at e <;> step_leaves e <;> simpa using cloneCS_inv h
  case dropHandle side =>
    have := dropCS_inv (r := side) h
    cases side <;> simp only at e <;> step_leaves e
    all_goals first
      | (simpa using this)
      | (obtain ⟨hcap, h3, h4⟩ := this
         constructor <;> simp_all [WithinCap, hasRoom] <;> split <;> simp_all)
  case close =>
    step_leaves e
    · exact h
    · rename_i heq; simpa using closeCS_inv heq
  case complete i => step_leaves e <;> simpa using h
  case expire i =>
    step_leaves e
    · exact h
    all_goals (simpa using cancel_inv h (by assumption))
  case finalize i => step_leaves e; simpa using h
  case newSendFut m => step_leaves e; simpa using h
  case pollSend f w =>
    step_leaves e
    all_goals first
      | (simpa using h)
      | (rename_i heq; simpa using sendPre_inv h heq)
      | (rename_i heq
         have h2 := sendPre_inv h heq
         have hf := sendPre_full heq
         simpa using pushWaiter_inv_send h2 hf.1 hf.2.1)
  case dropSendFut f =>
    step_leaves e
    all_goals first
      | (simpa using h)
      | (simpa using cancel_inv h (by assumption))
  case newRecvFut st => step_leaves e; simpa using h
  case pollRecv f w =>
    have hr := recvStep_chanInv s false false h
    step_leaves e
    all_goals first
      | (simpa using h)
      | (simpa using hr)
      | (rename_i heq
         have he := recvStep_empty heq
         simpa using pushWaiter_inv_recv hr he.1 he.2)
      | (split <;> simpa using hr)
      | (split <;> simpa using h)
  case dropRecvFut f =>
    step_leaves e
    all_goals first
      | (simpa using h)
      | (simpa using cancel_inv h (by assumption))
  case convert side => cases side <;> simp only at e <;> step_leaves e <;> exact h
  case isDisconnected side => cases side <;> simp only at e <;> step_leaves e <;> exact h
  all_goals (step_leaves e; exact h)

end Kanal
