/-
  Kanal.Lemmas.Ledger — the message-custody invariant (`Ledger`, LedgerInv of DESIGN §3.4)
  is preserved by every step of the repaired tree.

  `Ledger` alone is not inductive relative to `Struct`: nothing in `Struct` says that a
  *finished* send future has an empty slot, and `dropSendFut` on a finished future empties
  the slot without touching custody.  The missing fact is `SendDone` (below); it is
  inductive given `Struct`, and `Struct ∧ SendDone ∧ Ledger` is preserved.
-/
import Kanal.Lemmas.Defs

namespace Kanal
open Chan State
set_option linter.unusedSimpArgs false

/-! ### The slot table as a function -/

/-- The message in the slot of waiter `i` of a waiter table (`none`: no waiter or empty slot). -/
def slotOf (l : List Sig) (i : Nat) : Option Msg := (l[i]?).bind Sig.slot

theorem slotOf_some_iff {l : List Sig} {i : Nat} {m : Msg} :
    slotOf l i = some m ↔ ∃ g, l[i]? = some g ∧ g.slot = some m := by
  simp [slotOf, Option.bind_eq_some_iff]

theorem slotOf_of_get {l : List Sig} {i : Nat} {g : Sig} (h : l[i]? = some g) :
    slotOf l i = g.slot := by simp [slotOf, h]

theorem slotOf_none_of_get {l : List Sig} {i : Nat} (h : l[i]? = none) :
    slotOf l i = none := by simp [slotOf, h]

@[simp] theorem slotOf_set (l : List Sig) (i : Nat) (g : Sig) (j : Nat) :
    slotOf (l.set i g) j = if i = j ∧ j < l.length then g.slot else slotOf l j := by
  simp only [slotOf, list_set_get]
  by_cases hij : i = j
  · subst hij
    by_cases hl : i < l.length
    · simp [hl]
    · simp [hl]
  · simp [hij]

@[simp] theorem slotOf_append (l : List Sig) (g : Sig) (j : Nat) :
    slotOf (l ++ [g]) j = if j = l.length then g.slot else slotOf l j := by
  simp only [slotOf, append_single_get]
  split <;> simp

theorem slotOf_lt {l : List Sig} {i : Nat} {m : Msg} (h : slotOf l i = some m) : i < l.length := by
  obtain ⟨g, hg, -⟩ := slotOf_some_iff.mp h
  exact lt_of_get?_some hg

namespace State
variable (s : State)

@[simp] private theorem slotOf_finalize (i : SigId) (o : SigSt) (j : Nat) :
    slotOf (s.finalize i o).sigs j = slotOf s.sigs j := by
  simp only [slotOf, finalize_get]
  split
  · cases s.sigs[j]? <;> simp
  · rfl

@[simp] private theorem slotOf_terminateList (l : List SigId) (j : Nat) :
    slotOf (s.terminateList l).sigs j = slotOf s.sigs j := by
  simp only [slotOf, terminateList_get]
  split
  · cases s.sigs[j]? <;> simp
  · rfl

@[simp] private theorem slotOf_deliverTo (i : SigId) (m : Msg) (j : Nat) :
    slotOf (s.deliverTo i m).sigs j = if i = j ∧ j < s.sigs.length then some m else slotOf s.sigs j := by
  simp only [slotOf, deliverTo_get]
  by_cases hij : i = j
  · subst hij
    cases h : s.sigs[i]? with
    | none => simp [Nat.not_lt.mpr (List.getElem?_eq_none_iff.mp h)]
    | some x => simp [lt_of_get?_some h]
  · simp [hij]

@[simp] private theorem slotOf_claimFrom (i : SigId) (j : Nat) :
    slotOf (s.claimFrom i).sigs j = if i = j then none else slotOf s.sigs j := by
  simp only [slotOf, claimFrom_get]
  split
  · cases s.sigs[j]? <;> simp
  · rfl

@[simp] private theorem slotOf_takeFrom (i : SigId) (j : Nat) :
    slotOf (s.takeFrom i).sigs j = if i = j then none else slotOf s.sigs j := by
  simp only [slotOf, takeFrom_get]
  split
  · cases s.sigs[j]? <;> simp
  · rfl

@[simp] private theorem slotOf_foldl_takeFrom (l : List SigId) (j : Nat) :
    slotOf (l.foldl takeFrom s).sigs j = if j ∈ l then none else slotOf s.sigs j := by
  simp only [slotOf, foldl_takeFrom_get]
  split
  · cases s.sigs[j]? <;> simp
  · rfl

@[simp] private theorem dropMsg_sigs (m : Msg) : (s.dropMsg m).sigs = s.sigs := rfl
@[simp] private theorem giveR_sigs (m : Msg) : (s.giveR m).sigs = s.sigs := rfl
@[simp] private theorem withdrawSlots_sigs (l : List SigId) : (s.withdrawSlots l).sigs = s.sigs := rfl
@[simp] private theorem failBack_sigs (m : Msg) (o : Bool) : (s.failBack m o).sigs = s.sigs := by
  unfold failBack; split <;> rfl
@[simp] private theorem dropMsgs_sigs (ms : List Msg) : (s.dropMsgs ms).sigs = s.sigs := by
  unfold dropMsgs
  induction ms generalizing s with
  | nil => rfl
  | cons m l ih => simp [List.foldl, ih]
@[simp] private theorem foldl_giveR_sigs (ms : List Msg) : (ms.foldl giveR s).sigs = s.sigs := by
  induction ms generalizing s with
  | nil => rfl
  | cons m l ih => simp [List.foldl, ih]

/-! ### Ghost fields under the primitives -/

/-- The custody ghost fields no signal-level primitive touches. -/
structure SameGhost (s s' : State) : Prop where
  cust : s'.cust = s.cust
  recvd : s'.recvd = s.recvd
  dropped : s'.dropped = s.dropped

private theorem SameGhost.refl (s : State) : SameGhost s s := ⟨rfl, rfl, rfl⟩
private theorem SameGhost.trans {a b c : State} (h1 : SameGhost a b) (h2 : SameGhost b c) : SameGhost a c :=
  ⟨h2.1.trans h1.1, h2.2.trans h1.2, h2.3.trans h1.3⟩

private theorem finalize_ghost (i o) : SameGhost s (s.finalize i o) := by
  unfold finalize; split
  · exact SameGhost.refl s
  · split <;> constructor <;> rfl

private theorem terminateList_ghost (l : List SigId) : SameGhost s (s.terminateList l) := by
  unfold terminateList
  induction l generalizing s with
  | nil => exact SameGhost.refl s
  | cons i l ih => exact (finalize_ghost s i .term).trans (ih _)

private theorem claimFrom_ghost (i) : SameGhost s (s.claimFrom i) := by
  unfold claimFrom; split
  · exact SameGhost.refl s
  · constructor <;> rfl

private theorem takeFrom_ghost (i) : SameGhost s (s.takeFrom i) := by
  unfold takeFrom; split
  · exact SameGhost.refl s
  · rename_i g _
    have h1 : SameGhost s (s.setSig i { g with slot := none }) := ⟨rfl, rfl, rfl⟩
    exact h1.trans (finalize_ghost _ i .ok)

private theorem foldl_takeFrom_ghost (l : List SigId) : SameGhost s (l.foldl takeFrom s) := by
  induction l generalizing s with
  | nil => exact SameGhost.refl s
  | cons m l ih => exact (takeFrom_ghost s m).trans (ih _)

@[simp] private theorem finalize_cust (i : SigId) (o : SigSt) : (s.finalize i o).cust = s.cust := (finalize_ghost s i o).cust
@[simp] private theorem finalize_recvd (i : SigId) (o : SigSt) : (s.finalize i o).recvd = s.recvd := (finalize_ghost s i o).recvd
@[simp] private theorem finalize_dropped (i : SigId) (o : SigSt) : (s.finalize i o).dropped = s.dropped := (finalize_ghost s i o).dropped
@[simp] private theorem terminateList_cust (l : List SigId) : (s.terminateList l).cust = s.cust := (terminateList_ghost s l).cust
@[simp] private theorem terminateList_recvd (l : List SigId) : (s.terminateList l).recvd = s.recvd := (terminateList_ghost s l).recvd
@[simp] private theorem terminateList_dropped (l : List SigId) : (s.terminateList l).dropped = s.dropped := (terminateList_ghost s l).dropped
@[simp] private theorem claimFrom_cust (i : SigId) : (s.claimFrom i).cust = s.cust := (claimFrom_ghost s i).cust
@[simp] private theorem claimFrom_recvd (i : SigId) : (s.claimFrom i).recvd = s.recvd := (claimFrom_ghost s i).recvd
@[simp] private theorem claimFrom_dropped (i : SigId) : (s.claimFrom i).dropped = s.dropped := (claimFrom_ghost s i).dropped
@[simp] private theorem takeFrom_cust (i : SigId) : (s.takeFrom i).cust = s.cust := (takeFrom_ghost s i).cust
@[simp] private theorem takeFrom_recvd (i : SigId) : (s.takeFrom i).recvd = s.recvd := (takeFrom_ghost s i).recvd
@[simp] private theorem takeFrom_dropped (i : SigId) : (s.takeFrom i).dropped = s.dropped := (takeFrom_ghost s i).dropped
@[simp] private theorem foldl_takeFrom_cust (l : List SigId) : (l.foldl takeFrom s).cust = s.cust := (foldl_takeFrom_ghost s l).cust
@[simp] private theorem foldl_takeFrom_recvd (l : List SigId) : (l.foldl takeFrom s).recvd = s.recvd := (foldl_takeFrom_ghost s l).recvd
@[simp] private theorem foldl_takeFrom_dropped (l : List SigId) : (l.foldl takeFrom s).dropped = s.dropped := (foldl_takeFrom_ghost s l).dropped
@[simp] private theorem withdrawSlots_cust (l : List SigId) : (s.withdrawSlots l).cust = s.cust := rfl
@[simp] private theorem withdrawSlots_recvd (l : List SigId) : (s.withdrawSlots l).recvd = s.recvd := rfl
@[simp] private theorem withdrawSlots_dropped (l : List SigId) : (s.withdrawSlots l).dropped = s.dropped := rfl

@[simp] private theorem deliverTo_cust (i : SigId) (m : Msg) :
    (s.deliverTo i m).cust = if i < s.sigs.length then upd s.cust m (.slot i) else s.cust := by
  unfold deliverTo
  cases h : s.sigs[i]? with
  | none => simp [Nat.not_lt.mpr (List.getElem?_eq_none_iff.mp h)]
  | some x => simp [lt_of_get?_some h]
@[simp] private theorem deliverTo_recvd (i : SigId) (m : Msg) : (s.deliverTo i m).recvd = s.recvd := by
  unfold deliverTo; split <;> rfl
@[simp] private theorem deliverTo_dropped (i : SigId) (m : Msg) : (s.deliverTo i m).dropped = s.dropped := by
  unfold deliverTo; split <;> rfl

@[simp] private theorem dropMsg_cust (m : Msg) : (s.dropMsg m).cust = upd s.cust m .gone := rfl
@[simp] private theorem dropMsg_recvd (m : Msg) : (s.dropMsg m).recvd = s.recvd := rfl
@[simp] private theorem dropMsg_dropped (m : Msg) : (s.dropMsg m).dropped = s.dropped ++ [m] := rfl
@[simp] private theorem giveR_cust (m : Msg) : (s.giveR m).cust = upd s.cust m .callerR := rfl
@[simp] private theorem giveR_recvd (m : Msg) : (s.giveR m).recvd = s.recvd ++ [m] := rfl
@[simp] private theorem giveR_dropped (m : Msg) : (s.giveR m).dropped = s.dropped := rfl

@[simp] private theorem failBack_cust (m : Msg) (o : Bool) :
    (s.failBack m o).cust = upd s.cust m (if o then .callerS else .gone) := by
  unfold failBack; split <;> simp_all
@[simp] private theorem failBack_recvd (m : Msg) (o : Bool) : (s.failBack m o).recvd = s.recvd := by
  unfold failBack; split <;> rfl
@[simp] private theorem failBack_dropped (m : Msg) (o : Bool) :
    (s.failBack m o).dropped = if o then s.dropped else s.dropped ++ [m] := by
  unfold failBack; split <;> simp_all

private theorem dropMsgs_cust (ms : List Msg) (x : Msg) :
    (s.dropMsgs ms).cust x = if x ∈ ms then .gone else s.cust x := by
  unfold dropMsgs
  induction ms generalizing s with
  | nil => simp
  | cons m l ih =>
    simp only [List.foldl, ih, dropMsg_cust, upd, List.mem_cons]
    by_cases h1 : x ∈ l <;> by_cases h2 : x = m <;> simp [h1, h2]
@[simp] private theorem dropMsgs_recvd (ms : List Msg) : (s.dropMsgs ms).recvd = s.recvd := by
  unfold dropMsgs
  induction ms generalizing s with
  | nil => rfl
  | cons m l ih => simp [List.foldl, ih]
@[simp] private theorem dropMsgs_dropped (ms : List Msg) : (s.dropMsgs ms).dropped = s.dropped ++ ms := by
  unfold dropMsgs
  induction ms generalizing s with
  | nil => simp
  | cons m l ih => simp [List.foldl, ih]

private theorem foldl_giveR_cust (ms : List Msg) (x : Msg) :
    (ms.foldl giveR s).cust x = if x ∈ ms then .callerR else s.cust x := by
  induction ms generalizing s with
  | nil => simp
  | cons m l ih =>
    simp only [List.foldl, ih, giveR_cust, upd, List.mem_cons]
    by_cases h1 : x ∈ l <;> by_cases h2 : x = m <;> simp [h1, h2]
@[simp] private theorem foldl_giveR_recvd (ms : List Msg) : (ms.foldl giveR s).recvd = s.recvd ++ ms := by
  induction ms generalizing s with
  | nil => simp
  | cons m l ih => simp [List.foldl, ih]
@[simp] private theorem foldl_giveR_dropped (ms : List Msg) : (ms.foldl giveR s).dropped = s.dropped := by
  induction ms generalizing s with
  | nil => rfl
  | cons m l ih => simp [List.foldl, ih]

@[simp] private theorem newSig_fst_cust (g : Sig) : (s.newSig g).1.cust = s.cust := rfl
@[simp] private theorem newSig_fst_recvd (g : Sig) : (s.newSig g).1.recvd = s.recvd := rfl
@[simp] private theorem newSig_fst_dropped (g : Sig) : (s.newSig g).1.dropped = s.dropped := rfl
@[simp] private theorem newSig_fst_offered (g : Sig) : (s.newSig g).1.offered = s.offered := rfl

private theorem slotMsg_eq (i : SigId) : s.slotMsg i = (slotOf s.sigs i).getD 0 := by
  unfold slotMsg slotOf
  cases s.sigs[i]? <;> simp

end State

/-! ### `Ledger` in terms of the slot function -/

/-- `Ledger` with each custody class as an equivalence. -/
structure Led (s : State) : Prop where
  queueCust   : ∀ m, m ∈ s.chan.queue ↔ s.cust m = .queued
  queueNodup  : s.chan.queue.Nodup
  slotCust    : ∀ (i : Nat) (m : Msg), slotOf s.sigs i = some m ↔ s.cust m = .slot i
  recvdCust   : ∀ m, m ∈ s.recvd ↔ s.cust m = .callerR
  recvdNodup  : s.recvd.Nodup
  droppedCust : ∀ m, m ∈ s.dropped ↔ s.cust m = .gone
  droppedNodup : s.dropped.Nodup
  offeredCust : ∀ m, m ∈ s.offered ↔ s.cust m ≠ .fresh
  offeredNodup : s.offered.Nodup
  noLeak      : ∀ m, s.cust m ≠ .leaked

theorem ledger_iff {s : State} : Ledger s ↔ Led s := by
  constructor
  · intro h
    refine ⟨fun m => ⟨h.queueCust m, h.custQueue m⟩, h.queueNodup, fun i m => ⟨?_, ?_⟩,
      h.recvdCust, h.recvdNodup, h.droppedCust, h.droppedNodup, h.offeredCust, h.offeredNodup, h.noLeak⟩
    · intro hm
      obtain ⟨g, hg, hgm⟩ := slotOf_some_iff.mp hm
      exact h.slotCust i g m hg hgm
    · intro hm
      exact slotOf_some_iff.mpr (h.custSlot m i hm)
  · intro h
    refine ⟨fun m hm => (h.queueCust m).mp hm, h.queueNodup, ?_, fun m hm => (h.queueCust m).mpr hm, ?_,
      h.recvdCust, h.recvdNodup, h.droppedCust, h.droppedNodup, h.offeredCust, h.offeredNodup, h.noLeak⟩
    · intro i g m hg hgm
      exact (h.slotCust i m).mp (slotOf_some_iff.mpr ⟨g, hg, hgm⟩)
    · intro m i hm
      exact slotOf_some_iff.mp ((h.slotCust i m).mpr hm)

/-! ### What the L0 critical sections do to the buffer and the wait list -/

namespace Chan

private theorem sendPre_handoff {c c1 : Chan} {m r} (e : c.sendPre m = (c1, .handoff r)) :
    c.recvBlocking = true ∧ r ∈ c.waitList ∧ c1.queue = c.queue := by
  unfold sendPre at e
  split at e
  · split at e <;> cases e
  · split at e
    · rename_i c2 first heq; cases e
      have := nextRecv_some heq
      obtain ⟨h1, h2, h3⟩ := this
      refine ⟨h1, by simp [h2], ?_⟩
      rw [h3]
    · split at e <;> cases e

private theorem sendPre_buffered {c c1 : Chan} {m} (e : c.sendPre m = (c1, .buffered)) :
    c1.queue = c.queue ++ [m] := by
  unfold sendPre at e
  split at e
  · split at e <;> cases e
  · split at e
    · cases e
    · rename_i c2 heq
      have hn := nextRecv_none heq
      split at e <;> cases e
      simp [hn.2.1]

private theorem recvPre_fromQueue_some {c c1 : Chan} {slot t ex v p}
    (e : c.recvPre slot t ex = (c1, .fromQueue v (some p))) :
    c.recvBlocking = false ∧ p ∈ c.waitList ∧ ∃ q, c.queue = v :: q ∧ c1.queue = q ++ [slot p] := by
  unfold recvPre at e
  split at e
  · cases e
  · split at e
    · rename_i v' q hq
      split at e
      · rename_i c2 p' heq
        have := nextSend_some heq
        simp only [Prod.mk.injEq, RecvBranch.fromQueue.injEq, Option.some.injEq] at e
        obtain ⟨rfl, rfl, rfl⟩ := e
        obtain ⟨h1, h2, h3⟩ := this
        refine ⟨h1, by simp at h2; simp [h2], q, hq, ?_⟩
        rw [h3]
      · simp at e
    · split at e
      · cases e
      · split at e
        · cases e
        · split at e <;> cases e

private theorem recvPre_fromQueue_none {c c1 : Chan} {slot t ex v}
    (e : c.recvPre slot t ex = (c1, .fromQueue v none)) : c.queue = v :: c1.queue := by
  unfold recvPre at e
  split at e
  · cases e
  · split at e
    · rename_i v' q hq
      split at e
      · simp at e
      · rename_i c2 heq
        have := nextSend_none heq
        simp only [Prod.mk.injEq, RecvBranch.fromQueue.injEq, and_true] at e
        obtain ⟨rfl, rfl⟩ := e
        simp [hq, this.2.1]
    · split at e
      · cases e
      · split at e
        · cases e
        · split at e <;> cases e

private theorem recvPre_fromSender {c c1 : Chan} {slot t ex p}
    (e : c.recvPre slot t ex = (c1, .fromSender p)) :
    c.recvBlocking = false ∧ p ∈ c.waitList ∧ c.queue = [] ∧ c1.queue = [] := by
  unfold recvPre at e
  split at e
  · cases e
  · split at e
    · split at e <;> cases e
    · rename_i hq
      split at e
      · rename_i c2 p' heq
        have := nextSend_some heq
        cases e
        obtain ⟨h1, h2, h3⟩ := this
        refine ⟨h1, by simp [h2], hq, ?_⟩
        rw [h3]; exact hq
      · split at e
        · cases e
        · split at e <;> cases e

private theorem recvPre_other {c c1 : Chan} {slot t ex b} (e : c.recvPre slot t ex = (c1, b))
    (h1 : ∀ v r, b ≠ .fromQueue v r) (h2 : ∀ p, b ≠ .fromSender p) : c1.queue = c.queue := by
  unfold recvPre at e
  split at e
  · cases e; rfl
  · split at e
    · split at e <;> cases e <;> simp at h1
    · split at e
      · cases e; simp at h2
      · rename_i c2 heq
        have := nextSend_none heq
        split at e
        · cases e; exact this.2.1
        · split at e <;> cases e <;> exact this.2.1

private theorem cancel_spec {c c1 : Chan} {r i b} (e : c.cancel r i = (c1, b)) :
    c1.queue = c.queue ∧ (b = true → i ∈ c.waitList ∧ c.recvBlocking = (r == .recv)) := by
  unfold cancel at e
  split at e <;> cases e
  · rename_i h; simp at h; simp [h]
  · simp

private theorem dropCS_queue (c : Chan) (r : Side) : (c.dropCS r).1.queue = c.queue := by
  unfold dropCS terminateAll
  cases r <;> simp only <;> (repeat' split) <;> rfl

private theorem cloneCS_queue (c : Chan) (r : Side) : (c.cloneCS r).queue = c.queue := by
  unfold cloneCS
  cases r <;> simp only <;> split <;> rfl

private theorem closeCS_spec {c c1 : Chan} {l q} (e : c.closeCS = some (c1, l, q)) :
    c1.queue = [] ∧ q = c.queue := by
  unfold closeCS at e
  split at e
  · cases e
  · simp at e; obtain ⟨rfl, -, rfl⟩ := e; simp

private theorem drainCS_spec {c c1 : Chan} {q l n} (e : c.drainCS = some (c1, q, l, n)) :
    c1.queue = [] ∧ q = c.queue ∧ l = (if c.recvBlocking then [] else c.waitList) := by
  unfold drainCS popAllSenders at e
  split at e
  · cases e
  · split at e <;> simp at e <;> obtain ⟨rfl, rfl, rfl, -⟩ := e <;> simp_all

end Chan

/-! ### What `Struct` says about listed waiters, in terms of the slot function -/

private theorem Struct.listed_recv {s : State} (hs : Struct s) {i : Nat} (hi : i ∈ s.chan.waitList)
    (hb : s.chan.recvBlocking = true) :
    i < s.sigs.length ∧ slotOf s.sigs i = none ∧ ∃ g, s.sigs[i]? = some g ∧ g.role = .recv := by
  obtain ⟨g, hg, hl⟩ := hs.listed i hi
  have hr : g.role = .recv := by rw [hl.role]; simp [Chan.listRole, hb]
  exact ⟨lt_of_get?_some hg, by rw [slotOf_of_get hg]; exact hl.recvSlot hr, g, hg, hr⟩

private theorem Struct.listed_send {s : State} (hs : Struct s) {i : Nat} (hi : i ∈ s.chan.waitList)
    (hb : s.chan.recvBlocking = false) :
    i < s.sigs.length ∧ slotOf s.sigs i = some (s.slotMsg i) ∧ ∃ g, s.sigs[i]? = some g ∧ g.role = .send := by
  obtain ⟨g, hg, hl⟩ := hs.listed i hi
  have hr : g.role = .send := by rw [hl.role]; simp [Chan.listRole, hb]
  refine ⟨lt_of_get?_some hg, ?_, g, hg, hr⟩
  have := hl.sendSlot hr
  rw [slotMsg_eq, slotOf_of_get hg]
  cases hsl : g.slot <;> simp_all

/-! ### The send family -/

theorem sendStep_led (s : State) (m : Nat) (o : Bool) (reg : Option Sig) (hs : Struct s) (h : Led s)
    (hf : s.cust m = .fresh) : Led (sendStep s m o reg).1 := by
  obtain ⟨h1, h2, h3, h4, h5, h6, h7, h8, h9, h10⟩ := h
  unfold sendStep
  simp only
  split <;> rename_i heq
  · constructor <;> simp [upd] <;> grind
  · constructor <;> simp [upd] <;> grind
  · obtain ⟨hb, hr, hq⟩ := sendPre_handoff heq
    obtain ⟨hlt, hsl, -⟩ := hs.listed_recv hr hb
    constructor <;> simp [upd, hlt, hq] <;> grind
  · have hq := sendPre_buffered heq
    constructor <;> simp [upd, hq] <;> grind
  · have hq := (sendPre_full heq).2.2.1
    split
    · constructor <;> simp [upd, hq] <;> grind
    · have hlen : slotOf s.sigs s.sigs.length = none := slotOf_none_of_get (by simp)
      constructor <;> simp [upd, hq, pushWaiter] <;> grind

/-! ### The receive family -/

theorem recvStep_led (s : State) (t e : Bool) (hs : Struct s) (h : Led s) : Led (recvStep s t e).1 := by
  obtain ⟨h1, h2, h3, h4, h5, h6, h7, h8, h9, h10⟩ := h
  unfold recvStep
  split <;> rename_i heq
  · split
    · have hq := recvPre_fromQueue_none heq
      simp [hq] at h1 h2
      constructor <;> simp [upd] <;> grind
    · obtain ⟨hb, hp, q, hq, hq1⟩ := recvPre_fromQueue_some heq
      obtain ⟨hlt, hsl, -⟩ := hs.listed_send hp hb
      simp [hq] at h1 h2
      constructor <;> simp [upd, hq1] <;> grind
  · obtain ⟨hb, hp, hq, hq1⟩ := recvPre_fromSender heq
    obtain ⟨hlt, hsl, -⟩ := hs.listed_send hp hb
    constructor <;> simp [upd, hq1] <;> grind
  · rename_i hn1 hn2
    have hq := recvPre_other heq (fun v r hh => hn1 v r hh) (fun p hh => hn2 p hh)
    constructor <;> simp [hq] <;> assumption

/-! ### Label by label -/

/-- A step that leaves the buffer, every slot and the custody ghost fields alone. -/
theorem Led.congr {s s' : State} (h : Led s) (hq : s'.chan.queue = s.chan.queue)
    (hsl : ∀ j, slotOf s'.sigs j = slotOf s.sigs j) (hc : s'.cust = s.cust)
    (hr : s'.recvd = s.recvd) (hd : s'.dropped = s.dropped) (ho : s'.offered = s.offered) : Led s' := by
  obtain ⟨h1, h2, h3, h4, h5, h6, h7, h8, h9, h10⟩ := h
  constructor <;> simp only [hq, hsl, hc, hr, hd, ho] <;> assumption

theorem step_led_send {s : State} {p : State × Res} {m kind opt} (hs : Struct s) (h : Led s)
    (e : step Variant.good s (.send m kind opt) = some p) : Led p.1 := by
  simp only [step] at e
  step_leaves e; exact sendStep_led _ _ _ _ hs h (by grind)

theorem step_led_trySend {s : State} {p : State × Res} {m opt rt} (hs : Struct s) (h : Led s)
    (e : step Variant.good s (.trySend m opt rt) = some p) : Led p.1 := by
  simp only [step] at e
  have := sendStep_led s m opt none hs h
  step_leaves e <;> (try rename_i heq) <;> (try rw [heq] at this) <;> apply this <;> grind

theorem step_led_recv {s : State} {p : State × Res} {kind ex} (hs : Struct s) (h : Led s)
    (e : step Variant.good s (.recv kind ex) = some p) : Led p.1 := by
  simp only [step] at e
  have := recvStep_led s (kind == .timed) ex hs h
  step_leaves e
  · refine this.congr ?_ ?_ ?_ ?_ ?_ ?_ <;> simp [pushWaiter]
    exact (slotOf_none_of_get (by simp)).symm
  · exact this

theorem step_led_tryRecv {s : State} {p : State × Res} {rt} (hs : Struct s) (h : Led s)
    (e : step Variant.good s (.tryRecv rt) = some p) : Led p.1 := by
  simp only [step] at e
  step_leaves e; exact recvStep_led s false false hs h

theorem step_led_complete {s : State} {p : State × Res} {i : Nat} (hs : Struct s) (h : Led s)
    (e : step Variant.good s (.complete i) = some p) : Led p.1 := by
  simp only [step, Variant.good] at e
  obtain ⟨h1, h2, h3, h4, h5, h6, h7, h8, h9, h10⟩ := h
  split at e
  · cases e
  rename_i g hg
  have hlt := lt_of_get?_some hg
  have hsl := slotOf_of_get hg
  have hok := hs.sigOK i g hg
  have hA : g.role = .send → g.st = .ok → g.slot = none := fun a b => hok.sendTaken a (Or.inl b)
  have hB : g.role = .recv → g.st ≠ .ok → g.st ≠ .pending → g.slot = none := by
    intro a b c
    have h1 := hok.recvHolds a
    have h2 := hok.finalUnclaimed c
    cases hsl : g.slot <;> simp_all
  step_leaves e
  all_goals (constructor <;> simp [upd, hlt] <;> grind)

theorem step_led_expire {s : State} {p : State × Res} {i : Nat} (hs : Struct s) (h : Led s)
    (e : step Variant.good s (.expire i) = some p) : Led p.1 := by
  simp only [step, Variant.good] at e
  split at e
  · cases e
  rename_i g hg
  split at e
  · cases e
  split at e
  · cases e; exact h
  rename_i c1 hc
  obtain ⟨hq, hw⟩ := cancel_spec hc
  obtain ⟨hw, hrb⟩ := hw rfl
  obtain ⟨h1, h2, h3, h4, h5, h6, h7, h8, h9, h10⟩ := h
  have hlt := lt_of_get?_some hg
  have hsl := slotOf_of_get hg
  have hB : g.role = .recv → g.slot = none := by
    intro a
    obtain ⟨g', hg', hl⟩ := hs.listed i hw
    have : g' = g := by simpa [hg] using hg'.symm
    subst this
    exact hl.recvSlot a
  have hrole : g.role = .send ∨ g.role = .recv := by cases g.role <;> simp
  step_leaves e
  all_goals (constructor <;> simp [upd, hlt, hq] <;> grind)

theorem step_led_finalize {s : State} {p : State × Res} {i : Nat} (h : Led s)
    (e : step Variant.good s (.finalize i) = some p) : Led p.1 := by
  simp only [step] at e
  step_leaves e
  rename_i g hg _
  refine h.congr ?_ ?_ ?_ ?_ ?_ ?_ <;> simp
  intro hh; rw [slotOf_of_get hg]

theorem step_led_newSendFut {s : State} {p : State × Res} {m : Nat} (h : Led s)
    (e : step Variant.good s (.newSendFut m) = some p) : Led p.1 := by
  simp only [step] at e
  obtain ⟨h1, h2, h3, h4, h5, h6, h7, h8, h9, h10⟩ := h
  step_leaves e
  have hlen : slotOf s.sigs s.sigs.length = none := slotOf_none_of_get (by simp)
  constructor <;> simp [upd] <;> grind

/-- A finished send future holds no value (the fact `Struct` lacks for `Ledger` to be inductive). -/
def SendDone (s : State) : Prop :=
  ∀ (i : Nat) (g : Sig), s.sigs[i]? = some g → g.role = .send → g.fut = .done → g.slot = none

theorem step_led_pollSend {s : State} {p : State × Res} {f w : Nat} (hs : Struct s) (h : Led s)
    (e : step Variant.good s (.pollSend f w) = some p) : Led p.1 := by
  simp only [step, Variant.good] at e
  split at e
  · cases e
  rename_i g hg
  split at e
  · cases e
  obtain ⟨h1, h2, h3, h4, h5, h6, h7, h8, h9, h10⟩ := h
  have hlt := lt_of_get?_some hg
  have hsl := slotOf_of_get hg
  have hok := hs.sigOK f g hg
  split at e
  · split at e
    · cases e
    rename_i m hm
    split at e <;> rename_i heq <;> cases e
    · constructor <;> simp [upd, hlt] <;> grind
    · constructor <;> simp [upd, hlt] <;> grind
    · obtain ⟨hb, hr, hq⟩ := sendPre_handoff heq
      obtain ⟨hlt', hsl', -⟩ := hs.listed_recv hr hb
      constructor <;> simp [upd, hlt, hlt', hq] <;> grind
    · have hq := sendPre_buffered heq
      constructor <;> simp [upd, hlt, hq] <;> grind
    · have hq := (sendPre_full heq).2.2.1
      constructor <;> simp [upd, hlt, hq, pushWaiter] <;> grind
  · step_leaves e
    all_goals (constructor <;> simp [upd, hlt] <;> grind)
  · cases e
    constructor <;> assumption

theorem step_led_dropSendFut {s : State} {p : State × Res} {f : Nat} (hs : Struct s) (hd : SendDone s) (h : Led s)
    (e : step Variant.good s (.dropSendFut f) = some p) : Led p.1 := by
  simp only [step, Variant.good] at e
  split at e
  · cases e
  rename_i g hg
  split at e
  · cases e
  rename_i hgd
  obtain ⟨h1, h2, h3, h4, h5, h6, h7, h8, h9, h10⟩ := h
  have hlt := lt_of_get?_some hg
  have hsl := slotOf_of_get hg
  have hok := hs.sigOK f g hg
  obtain ⟨-, hkind, hrole⟩ : g.alive = true ∧ g.kind = .async ∧ g.role = .send := by simpa using hgd
  have hA : g.st = .ok → g.slot = none := fun b => hok.sendTaken hrole (Or.inl b)
  have hD : g.fut = .done → g.slot = none := fun b => hd f g hg hrole b
  have hst : g.st = .pending ∨ g.st = .ok ∨ g.st = .term := by cases g.st <;> simp
  split at e
  · cases e
    constructor <;> simp [upd, hlt] <;> grind
  · step_leaves e
    all_goals (constructor <;> simp [upd, hlt] <;> grind)
  · split at e
    · rename_i c1 hc
      have hq := (cancel_spec hc).1
      step_leaves e
      all_goals (constructor <;> simp [upd, hlt, hq] <;> grind)
    · step_leaves e
      all_goals (constructor <;> simp [upd, hlt] <;> grind)

theorem step_led_newRecvFut {s : State} {p : State × Res} {st : Bool} (h : Led s)
    (e : step Variant.good s (.newRecvFut st) = some p) : Led p.1 := by
  simp only [step] at e
  step_leaves e
  refine h.congr ?_ ?_ ?_ ?_ ?_ ?_ <;> simp
  exact (slotOf_none_of_get (by simp)).symm

theorem step_led_dropRecvFut {s : State} {p : State × Res} {f : Nat} (hs : Struct s) (h : Led s)
    (e : step Variant.good s (.dropRecvFut f) = some p) : Led p.1 := by
  simp only [step, Variant.good] at e
  split at e
  · cases e
  rename_i g hg
  split at e
  · cases e
  rename_i hgd
  obtain ⟨h1, h2, h3, h4, h5, h6, h7, h8, h9, h10⟩ := h
  have hlt := lt_of_get?_some hg
  have hsl := slotOf_of_get hg
  have hok := hs.sigOK f g hg
  obtain ⟨-, hkind, hrole⟩ : g.alive = true ∧ g.kind = .async ∧ g.role = .recv := by simpa using hgd
  have hst : g.st = .pending ∨ g.st = .ok ∨ g.st = .term := by cases g.st <;> simp
  have hB : g.st = .term → g.slot = none := by
    intro c
    have h1 := hok.recvHolds hrole
    have h2 := hok.finalUnclaimed (by simp [c])
    cases hsl : g.slot <;> simp_all
  have hC : g.fut ≠ .waiting → g.slot = none := by
    intro c
    have h1 := hok.recvHolds hrole
    cases hsl : g.slot <;> simp_all
  split at e
  · split at e
    · rename_i c1 hc
      obtain ⟨hq, hw⟩ := cancel_spec hc
      obtain ⟨hw, hrb⟩ := hw rfl
      obtain ⟨-, hsl', -⟩ := hs.listed_recv hw (by simpa using hrb)
      cases e
      constructor <;> simp [upd, hlt, hq] <;> grind
    · step_leaves e
      all_goals (constructor <;> simp [upd, hlt] <;> grind)
  · cases e
    constructor <;> simp [upd, hlt] <;> grind

private theorem rearm_slot {v : Variant} {g g' : Sig} (h : rearm v g = some g') (hC : g.fut = .done → g.slot = none) :
    g'.slot = g.slot := by
  unfold rearm at h
  split at h
  · split at h
    · cases h; split <;> simp_all
    · cases h
  · cases h; rfl

private theorem recvStep_slot_none (s : State) (t e : Bool) (j : Nat) (h : slotOf s.sigs j = none) :
    slotOf (recvStep s t e).1.sigs j = none := by
  unfold recvStep
  split
  · split <;> simp [h]
  · simp [h]
  · simp [h]

theorem step_led_pollRecv {s : State} {p : State × Res} {f w : Nat} (hs : Struct s) (h : Led s)
    (e : step Variant.good s (.pollRecv f w) = some p) : Led p.1 := by
  simp only [step, Variant.good] at e
  split at e
  · cases e
  rename_i g hg
  split at e
  · cases e
  rename_i hgd
  split at e
  · cases e; exact h
  split at e
  · cases e; exact h
  rename_i g' hre
  have hlt := lt_of_get?_some hg
  have hsl := slotOf_of_get hg
  have hok := hs.sigOK f g hg
  obtain ⟨-, hkind, hrole⟩ : g.alive = true ∧ g.kind = .async ∧ g.role = .recv := by simpa using hgd
  have hC : g.fut ≠ .waiting → g.slot = none := by
    intro c
    have h1 := hok.recvHolds hrole
    cases hsl : g.slot <;> simp_all
  have hB : g.st = .term → g.slot = none := by
    intro c
    have h1 := hok.recvHolds hrole
    have h2 := hok.finalUnclaimed (by simp [c])
    cases hsl : g.slot <;> simp_all
  have hrs := rearm_some hre
  have hslot : g'.slot = g.slot := rearm_slot hre (fun hh => hC (by simp [hh]))
  split at e
  · rename_i hz
    have hgs : g.slot = none := by
      apply hC; intro hw
      have := hrs.2.2.2.2.2.2.2.1 (by simp [hw])
      subst this; simp [hw] at hz
    have hled := recvStep_led s false false hs h
    have hn := recvStep_slot_none s false false f (by rw [hsl, hgs])
    step_leaves e
    all_goals (refine hled.congr ?_ (fun j => ?_) ?_ ?_ ?_ ?_ <;> simp [pushWaiter, hslot, hgs]; grind)
  · rename_i hz
    have hgg : g' = g := by
      apply hrs.2.2.2.2.2.2.2.1; intro hw
      have := (hrs.2.2.2.2.2.2.2.2 hw).1
      simp [this] at hz
    subst hgg
    obtain ⟨h1, h2, h3, h4, h5, h6, h7, h8, h9, h10⟩ := h
    step_leaves e
    all_goals (constructor <;> simp [upd, hlt] <;> grind)
  · cases e; exact h

theorem step_led_close {s : State} {p : State × Res} (h : Led s)
    (e : step Variant.good s .close = some p) : Led p.1 := by
  simp only [step] at e
  step_leaves e
  · exact h
  · rename_i heq
    obtain ⟨hq1, hq⟩ := closeCS_spec heq
    obtain ⟨h1, h2, h3, h4, h5, h6, h7, h8, h9, h10⟩ := h
    constructor <;> simp [dropMsgs_cust, hq1, hq, List.nodup_append] <;> grind

theorem step_led_dropHandle {s : State} {p : State × Res} {side} (h : Led s)
    (e : step Variant.good s (.dropHandle side) = some p) : Led p.1 := by
  simp only [step] at e
  obtain ⟨h1, h2, h3, h4, h5, h6, h7, h8, h9, h10⟩ := h
  cases side <;> simp only at e <;> step_leaves e
  all_goals (constructor <;> simp [dropMsgs_cust, dropCS_queue, List.nodup_append] <;> grind)

theorem step_led_clone {s : State} {p : State × Res} {side} (h : Led s)
    (e : step Variant.good s (.clone side) = some p) : Led p.1 := by
  simp only [step] at e
  cases side <;> simp only at e <;> step_leaves e
  all_goals (refine h.congr ?_ (fun j => ?_) ?_ ?_ ?_ ?_ <;> simp [cloneCS_queue])

private theorem nodup_map_of_inj_on {f : Nat → Nat} {l : List Nat} (hn : l.Nodup)
    (hinj : ∀ a ∈ l, ∀ b ∈ l, f a = f b → a = b) : (l.map f).Nodup := by
  induction l with
  | nil => simp
  | cons x l ih =>
    simp only [List.nodup_cons, List.map_cons, List.mem_map, not_exists, not_and] at hn ⊢
    refine ⟨?_, ih hn.2 (fun a ha b hb => hinj a (by simp [ha]) b (by simp [hb]))⟩
    intro y hy hxy
    have := hinj y (by simp [hy]) x (by simp) hxy
    subst this
    exact hn.1 hy

theorem drain_led (s : State) (c1 : Chan) (L : List Nat) (D : List Msg) (h : Led s) (hc : c1.queue = [])
    (hn : L.Nodup) (hL : ∀ i ∈ L, slotOf s.sigs i = some (s.slotMsg i)) :
    Led (L.foldl takeFrom ((s.chan.queue ++ L.map s.slotMsg).foldl giveR { s with chan := c1, delivered := D })) := by
  obtain ⟨h1, h2, h3, h4, h5, h6, h7, h8, h9, h10⟩ := h
  have hmap : (L.map s.slotMsg).Nodup := by
    apply nodup_map_of_inj_on hn
    intro a ha b hb hab
    have e1 := (h3 a _).mp (hL a ha)
    have e2 := (h3 b _).mp (hL b hb)
    rw [hab, e2] at e1
    cases e1; rfl
  have hms : ∀ m, m ∈ L.map s.slotMsg ↔ ∃ i, i ∈ L ∧ s.cust m = .slot i := by
    intro m
    simp only [List.mem_map]
    constructor
    · rintro ⟨i, hi, rfl⟩
      exact ⟨i, hi, (h3 i _).mp (hL i hi)⟩
    · rintro ⟨i, hi, hm⟩
      refine ⟨i, hi, ?_⟩
      have := (h3 i m).mpr hm
      rw [hL i hi] at this
      cases this; rfl
  generalize hM : L.map s.slotMsg = M at hmap hms
  constructor <;> simp [foldl_giveR_cust, hc, List.nodup_append] <;> grind

theorem step_led_drain {s : State} {p : State × Res} (hs : Struct s) (h : Led s)
    (e : step Variant.good s .drain = some p) : Led p.1 := by
  simp only [step] at e
  step_leaves e
  · exact h
  · rename_i heq
    obtain ⟨hq1, rfl, hl⟩ := drainCS_spec heq
    apply drain_led s _ _ _ h hq1
    · subst hl; split
      · simp
      · exact hs.nodup
    · subst hl; split
      · simp
      · rename_i hb
        intro i hi
        exact (hs.listed_send hi (by simpa using hb)).2.1

/-! ### `SendDone` is preserved (any variant) -/

theorem sendDone_init (cap : Option Nat) : SendDone (State.init cap) := by
  intro i g hg; simp [State.init] at hg

theorem sendStep_sendDone (s : State) (m o reg) (hs : Struct s) (hd : SendDone s)
    (hreg : ∀ g, reg = some g → g.fut = .zero) : SendDone (sendStep s m o reg).1 := by
  unfold sendStep
  simp only
  split <;> rename_i heq
  · intro j g hg hr hf; simp at hg; exact hd j g hg hr hf
  · intro j g hg hr hf; simp at hg; exact hd j g hg hr hf
  · obtain ⟨hb, hr, hq⟩ := sendPre_handoff heq
    obtain ⟨hlt, hsl, g0, hg0, hr0⟩ := hs.listed_recv hr hb
    intro j g hg hr hf
    simp [deliverTo_get] at hg
    split at hg
    · subst_vars; simp [hg0] at hg; subst hg; simp at hr; simp [hr0] at hr
    · exact hd j g hg hr hf
  · intro j g hg hr hf; simp at hg; exact hd j g hg hr hf
  · split
    · intro j g hg hr hf; simp at hg; exact hd j g hg hr hf
    · rename_i g1
      have := hreg g1 rfl
      intro j g hg hr hf
      simp [append_single_get] at hg
      split at hg
      · simp at hg; subst hg; simp [this] at hf
      · exact hd j g hg hr hf

theorem recvStep_sendDone (s : State) (t e) (hd : SendDone s) : SendDone (recvStep s t e).1 := by
  unfold recvStep
  split
  all_goals (try split)
  all_goals intro j g hg hr hf
  all_goals simp [claimFrom_get, takeFrom_get] at hg
  all_goals (try split at hg)
  all_goals first
    | exact hd j g hg hr hf
    | (obtain ⟨g0, hg0, rfl⟩ := Option.map_eq_some_iff.mp hg; rfl)

theorem sendDone_step {v : Variant} {s : State} {l : Label} {p : State × Res}
    (hs : Struct s) (hd : SendDone s) (e : step v s l = some p) : SendDone p.1 := by
  cases l <;> simp only [step] at e
  case send m kind opt => step_leaves e; exact sendStep_sendDone _ _ _ _ hs hd (by simp)
  case trySend m opt rt =>
    have := sendStep_sendDone s m opt none hs hd (by simp)
    step_leaves e <;> (try rename_i heq) <;> (try rw [heq] at this) <;> exact this
  case recv kind ex =>
    have := recvStep_sendDone s (kind == .timed) ex hd
    step_leaves e
    · intro j g hg hr hf
      simp [append_single_get] at hg
      split at hg
      · cases hg; simp at hr
      · exact this j g hg hr hf
    · exact this
  case tryRecv rt => step_leaves e; exact recvStep_sendDone s false false hd
  case pollSend f w =>
    split at e
    · cases e
    rename_i g0 hg0
    have hok := hs.sigOK f g0 hg0
    split at e
    · cases e
    split at e
    · split at e
      · cases e
      rename_i m hm
      split at e <;> rename_i heq <;> cases e
      · intro j g hg hr hf; simp at hg; split at hg
        · simp [hg0] at hg; obtain ⟨-, rfl⟩ := hg; rfl
        · exact hd j g hg hr hf
      · intro j g hg hr hf; simp at hg; split at hg
        · simp [hg0] at hg; obtain ⟨-, rfl⟩ := hg; rfl
        · exact hd j g hg hr hf
      · obtain ⟨hb, hr, hq⟩ := sendPre_handoff heq
        obtain ⟨hlt, hsl, g1, hg1, hr1⟩ := hs.listed_recv hr hb
        intro j g hg hr hf
        simp [deliverTo_get] at hg
        (repeat' (split at hg))
        all_goals (try simp at hg)
        all_goals first
          | exact hd j g hg hr hf
          | (simp_all <;> grind)
      · intro j g hg hr hf; simp at hg; split at hg
        · simp [hg0] at hg; obtain ⟨-, rfl⟩ := hg; rfl
        · exact hd j g hg hr hf
      · intro j g hg hr hf; simp at hg; split at hg
        · simp [hg0] at hg; obtain ⟨-, rfl⟩ := hg; simp at hf
        · exact hd j g hg hr hf
    · have hA : g0.role = .send → g0.st = .ok → g0.slot = none := fun a b => hok.sendTaken a (Or.inl b)
      step_leaves e
      all_goals first
        | exact hd
        | (intro j g hg hr hf
           simp at hg
           split at hg
           · simp [hg0] at hg; obtain ⟨-, rfl⟩ := hg; simp_all
           · exact hd j g hg hr hf)
    · cases e; exact hd
  case pollRecv f w =>
    have hr := recvStep_sendDone s false false hd
    step_leaves e
    all_goals first
      | exact hd
      | (have hre := rearm_some (by assumption)
         intro j g hg hro hf
         simp [append_single_get] at hg
         (repeat' (split at hg))
         all_goals (try simp at hg)
         all_goals first
           | (exact hd j g hg hro hf)
           | (exact hr j g hg hro hf)
           | (obtain ⟨-, rfl⟩ := hg; simp at hro; simp_all; done))
  case dropHandle side =>
    cases side <;> simp only at e <;> step_leaves e
    all_goals intro j g hg hr hf
    all_goals simp [terminateList_get] at hg
    all_goals (try split at hg)
    all_goals first
      | exact hd j g hg hr hf
      | (obtain ⟨g0, hg0, rfl⟩ := Option.map_eq_some_iff.mp hg; exact hd j g0 hg0 hr hf)
  case clone side => cases side <;> simp only at e <;> step_leaves e <;> exact hd
  case convert side => cases side <;> simp only at e <;> step_leaves e <;> exact hd
  case isDisconnected side => cases side <;> simp only at e <;> step_leaves e <;> exact hd
  all_goals step_leaves e
  all_goals first
    | exact hd
    | (intro j g hg hr hf
       simp [append_single_get, finalize_get, deliverTo_get, claimFrom_get, takeFrom_get,
         terminateList_get, foldl_takeFrom_get] at hg
       (repeat' (split at hg))
       all_goals (try simp at hg)
       all_goals first
         | exact hd j g hg hr hf
         | (obtain ⟨g0, hg0, rfl⟩ := Option.map_eq_some_iff.mp hg; exact hd j g0 hg0 hr hf)
         | (simp_all [SendDone]; grind))

/-! ### Assembly -/

theorem step_led {s : State} {l : Label} {p : State × Res}
    (hs : Struct s) (hd : SendDone s) (h : Led s) (e : step Variant.good s l = some p) : Led p.1 := by
  cases l
  case send m kind opt => exact step_led_send hs h e
  case trySend m opt rt => exact step_led_trySend hs h e
  case recv kind ex => exact step_led_recv hs h e
  case tryRecv rt => exact step_led_tryRecv hs h e
  case drain => exact step_led_drain hs h e
  case complete i => exact step_led_complete hs h e
  case expire i => exact step_led_expire hs h e
  case finalize i => exact step_led_finalize h e
  case newSendFut m => exact step_led_newSendFut h e
  case pollSend f w => exact step_led_pollSend hs h e
  case dropSendFut f => exact step_led_dropSendFut hs hd h e
  case newRecvFut st => exact step_led_newRecvFut h e
  case pollRecv f w => exact step_led_pollRecv hs h e
  case dropRecvFut f => exact step_led_dropRecvFut hs h e
  case clone side => exact step_led_clone h e
  case dropHandle side => exact step_led_dropHandle h e
  case close => exact step_led_close h e
  case convert side => simp only [step] at e; cases side <;> simp only at e <;> step_leaves e <;> exact h
  case isDisconnected side => simp only [step] at e; cases side <;> simp only at e <;> step_leaves e <;> exact h
  all_goals (simp only [step] at e; step_leaves e; exact h)

/-- `Ledger` is preserved by every step of the repaired tree, given the structural invariant and
    `SendDone` for the pre-state. -/
theorem ledger_step {s : State} {l : Label} {p : State × Res}
    (hs : Struct s) (hd : SendDone s) (h : Ledger s) (e : step Variant.good s l = some p) : Ledger p.1 :=
  ledger_iff.mpr (step_led hs hd (ledger_iff.mp h) e)

/-- The bundle `SendDone ∧ Ledger` is inductive relative to `Struct`. -/
theorem ledger_sendDone_step {s : State} {l : Label} {p : State × Res}
    (hs : Struct s) (h : SendDone s ∧ Ledger s) (e : step Variant.good s l = some p) :
    SendDone p.1 ∧ Ledger p.1 :=
  ⟨sendDone_step hs h.1 e, ledger_step hs h.1 h.2 e⟩

/-- If `Struct` holds in every reachable state, so do `SendDone` and `Ledger`. -/
theorem ledger_reach (hS : ∀ s, Reach Variant.good s → Struct s) (s : State) (h : Reach Variant.good s) :
    SendDone s ∧ Ledger s :=
  Reach.induct (P := fun s => SendDone s ∧ Ledger s)
    (fun cap => ⟨sendDone_init cap, ledger_init cap⟩)
    (fun s _ _ hr ih e => ledger_sendDone_step (hS s hr) ih e) s h

/-! ### `Ledger` alone is not inductive relative to `Struct` -/

/-- A finished send future that still holds its value: allowed by `Struct` and `Ledger`, excluded by `SendDone`. -/
def ctrState : State :=
  { chan := Chan.new none
    sigs := [{ role := .send, kind := .async, st := .term, slot := some 5, orig := some 5, fut := .done }]
    cust := upd (fun _ => .fresh) 5 (.slot 0)
    offered := [5] }

private theorem ctr_get {i : Nat} {g : Sig} (h : ctrState.sigs[i]? = some g) :
    i = 0 ∧ g = { role := .send, kind := .async, st := .term, slot := some 5, orig := some 5, fut := .done } := by
  cases i with
  | zero => simp [ctrState] at h; exact ⟨rfl, h.symm⟩
  | succ n => simp [ctrState] at h

private theorem ctr_struct : Struct ctrState := by
  refine ⟨inv_new none, by simp [CountInv, ctrState, Chan.new], ?_, ?_, ?_, ?_, ?_, ?_⟩
  · intro i g hg ha; obtain ⟨rfl, rfl⟩ := ctr_get hg; simp [ctrState]
  · simp [ctrState, Chan.new]
  · simp [ctrState, Chan.new]
  · simp [ctrState, Chan.new]
  · intro i g hg; obtain ⟨rfl, rfl⟩ := ctr_get hg; simp
  · intro i g hg; obtain ⟨rfl, rfl⟩ := ctr_get hg; constructor <;> simp

private theorem ctr_ledger : Ledger ctrState := by
  constructor
  any_goals (simp [ctrState, Chan.new, upd]; done)
  · intro i g m hg hm; obtain ⟨rfl, rfl⟩ := ctr_get hg; simp at hm; subst hm; simp [ctrState, upd]
  · intro m; simp [ctrState, upd]; split <;> simp
  · intro m i; simp [ctrState, upd]; split <;> simp_all
  · intro m; simp [ctrState, upd]; split <;> simp
  · intro m; simp [ctrState, upd]; split <;> simp
  · intro m; simp [ctrState, upd]; split <;> simp

def ctrAfter : State :=
  ctrState.setSig 0
    { role := .send, kind := .async, st := .term, slot := none, orig := some 5, fut := .done, alive := false }

/-- Dropping the finished future empties its slot but leaves custody `.slot 0`: `Ledger` is lost. -/
theorem ledger_not_inductive :
    ∃ s p, Struct s ∧ Ledger s ∧ step Variant.good s (.dropSendFut 0) = some p ∧ ¬ Ledger p.1 := by
  refine ⟨ctrState, (ctrAfter, .unit), ctr_struct, ctr_ledger, by rfl, fun h => ?_⟩
  obtain ⟨g, hg, hs⟩ := h.custSlot 5 0 (by simp [ctrAfter, ctrState, upd])
  simp [ctrAfter, ctrState] at hg
  subst hg
  simp at hs

/-! ### The statement is not vacuous: the defective variants break `Ledger` -/

/-- D1: `send_timeout` without the drop on `Timeout`. -/
def vD1 : Variant := { Variant.good with timeoutDrop := false }
/-- D3: the stream does not re-arm its signal. -/
def vD3 : Variant := { Variant.good with streamRearm := false }

def d1Labels : List Label := [.send 1 .timed false, .expire 0]
def d3Labels : List Label :=
  [.newRecvFut true, .pollRecv 0 0, .trySend 1 false false, .finalize 0, .pollRecv 0 0, .pollRecv 0 0, .pollRecv 0 0]

/-- D1: a timed-out `send_timeout` leaks its value; the repaired tree destroys it exactly once. -/
theorem d1_leaks :
    (run vD1 (State.init (some 0)) d1Labels).map (fun p => (p.2, p.1.cust 1, p.1.dropped)) =
      some ([.blocked 0, .err .timeout], .leaked, []) := by decide

theorem d1_good :
    (run Variant.good (State.init (some 0)) d1Labels).map (fun p => (p.2, p.1.cust 1, p.1.dropped)) =
      some ([.blocked 0, .err .timeout], .gone, [1]) := by decide

/-- D3: the stream hands the same value out twice (`recvd = [1, 1]`); the repaired tree answers `Pending`. -/
theorem d3_twice :
    (run vD3 (State.init (some 0)) d3Labels).map (fun p => (p.2, p.1.recvd)) =
      some ([.num 0, .pending, .bool true, .unit, .val 1, .pending, .val 1], [1, 1]) := by decide

theorem d3_good :
    (run Variant.good (State.init (some 0)) d3Labels).map (fun p => (p.2, p.1.recvd)) =
      some ([.num 0, .pending, .bool true, .unit, .val 1, .pending, .pending], [1]) := by decide

/-- D1 violates `Ledger` (`noLeak`) in a reachable state. -/
theorem d1_not_ledger : ∃ s, Reach vD1 s ∧ ¬ Ledger s := by
  have hh := d1_leaks
  cases h : run vD1 (State.init (some 0)) d1Labels with
  | none => rw [h] at hh; cases hh
  | some p =>
    rw [h] at hh
    simp only [Option.map_some, Option.some.injEq, Prod.mk.injEq] at hh
    exact ⟨p.1, (Reach.init (some 0)).run d1Labels p.1 p.2 h, fun hl => hl.noLeak 1 hh.2.1⟩

/-- D3 violates `Ledger` (`recvdNodup`: a value reaches receiving callers twice) in a reachable state. -/
theorem d3_not_ledger : ∃ s, Reach vD3 s ∧ ¬ Ledger s := by
  have hh := d3_twice
  cases h : run vD3 (State.init (some 0)) d3Labels with
  | none => rw [h] at hh; cases hh
  | some p =>
    rw [h] at hh
    simp only [Option.map_some, Option.some.injEq, Prod.mk.injEq] at hh
    refine ⟨p.1, (Reach.init (some 0)).run d3Labels p.1 p.2 h, fun hl => ?_⟩
    have := hl.recvdNodup
    rw [hh.2] at this
    simp at this

end Kanal
