/-
  Kanal.Lemmas.Stable — terminal custodies are stable and the logs only grow.

  * `logs_grow` (any variant): every step appends to `recvd`, `dropped`, `offered`, `accepted`,
    `delivered`, `removed`, `wakes`; nothing is ever erased or reordered.
  * `cust_stable` (repaired tree): a message whose custody is `callerR`, `gone` or `callerS` keeps it.
    It is a corollary of `step_stay` (any variant): a step changes the custody only of messages that
    are fresh (the label's own message), buffered (`Ledger.queueCust`) or in a waiter's slot
    (`Ledger.slotCust`; for the senders a receive pops, `Struct.listed` says the slot is filled).
  * `cust_stable_run`: the same along any run from a reachable state.
-/
import Kanal.Lemmas.All

namespace Kanal
open Chan State
set_option linter.unusedSimpArgs false

/-! ## Part 1: the logs are append-only -/

/-- The four log fields no signal-level primitive shortens: three stay, `wakes` may grow. -/
structure KeepLogs (s s' : State) : Prop where
  recvd : s'.recvd = s.recvd
  dropped : s'.dropped = s.dropped
  removed : s'.removed = s.removed
  wakes : s.wakes <+: s'.wakes

namespace KeepLogs
theorem refl (s : State) : KeepLogs s s := ⟨rfl, rfl, rfl, List.prefix_refl _⟩
theorem trans {a b c : State} (h1 : KeepLogs a b) (h2 : KeepLogs b c) : KeepLogs a c :=
  ⟨h2.1.trans h1.1, h2.2.trans h1.2, h2.3.trans h1.3, h1.4.trans h2.4⟩
end KeepLogs

namespace State
variable (s : State)

theorem finalize_keep (i o) : KeepLogs s (s.finalize i o) := by
  unfold finalize; split
  · exact KeepLogs.refl s
  · split
    · exact ⟨rfl, rfl, rfl, by simp⟩
    · exact ⟨rfl, rfl, rfl, by simp⟩

theorem terminateList_keep (l : List SigId) : KeepLogs s (s.terminateList l) := by
  unfold terminateList
  induction l generalizing s with
  | nil => exact KeepLogs.refl s
  | cons i l ih => exact (finalize_keep s i .term).trans (ih _)

theorem deliverTo_keep (i m) : KeepLogs s (s.deliverTo i m) := by
  unfold deliverTo; split
  · exact KeepLogs.refl s
  · exact ⟨rfl, rfl, rfl, by simp⟩

theorem claimFrom_keep (i) : KeepLogs s (s.claimFrom i) := by
  unfold claimFrom; split
  · exact KeepLogs.refl s
  · exact ⟨rfl, rfl, rfl, by simp⟩

theorem takeFrom_keep (i) : KeepLogs s (s.takeFrom i) := by
  unfold takeFrom; split
  · exact KeepLogs.refl s
  · rename_i g _
    have h1 : KeepLogs s (s.setSig i { g with slot := none }) := ⟨rfl, rfl, rfl, by simp⟩
    exact h1.trans (finalize_keep _ i .ok)

theorem foldl_takeFrom_keep (l : List SigId) : KeepLogs s (l.foldl takeFrom s) := by
  induction l generalizing s with
  | nil => exact KeepLogs.refl s
  | cons m l ih => exact (takeFrom_keep s m).trans (ih _)

@[simp] theorem finalize_recvd' (i : SigId) (o : SigSt) : (s.finalize i o).recvd = s.recvd := (finalize_keep s i o).recvd
@[simp] theorem finalize_dropped' (i : SigId) (o : SigSt) : (s.finalize i o).dropped = s.dropped := (finalize_keep s i o).dropped
@[simp] theorem finalize_removed' (i : SigId) (o : SigSt) : (s.finalize i o).removed = s.removed := (finalize_keep s i o).removed
@[simp] theorem terminateList_recvd' (l : List SigId) : (s.terminateList l).recvd = s.recvd := (terminateList_keep s l).recvd
@[simp] theorem terminateList_dropped' (l : List SigId) : (s.terminateList l).dropped = s.dropped := (terminateList_keep s l).dropped
@[simp] theorem terminateList_removed' (l : List SigId) : (s.terminateList l).removed = s.removed := (terminateList_keep s l).removed
@[simp] theorem deliverTo_recvd' (i : SigId) (m : Msg) : (s.deliverTo i m).recvd = s.recvd := (deliverTo_keep s i m).recvd
@[simp] theorem deliverTo_dropped' (i : SigId) (m : Msg) : (s.deliverTo i m).dropped = s.dropped := (deliverTo_keep s i m).dropped
@[simp] theorem deliverTo_removed' (i : SigId) (m : Msg) : (s.deliverTo i m).removed = s.removed := (deliverTo_keep s i m).removed
@[simp] theorem claimFrom_recvd' (i : SigId) : (s.claimFrom i).recvd = s.recvd := (claimFrom_keep s i).recvd
@[simp] theorem claimFrom_dropped' (i : SigId) : (s.claimFrom i).dropped = s.dropped := (claimFrom_keep s i).dropped
@[simp] theorem claimFrom_removed' (i : SigId) : (s.claimFrom i).removed = s.removed := (claimFrom_keep s i).removed
@[simp] theorem takeFrom_recvd' (i : SigId) : (s.takeFrom i).recvd = s.recvd := (takeFrom_keep s i).recvd
@[simp] theorem takeFrom_dropped' (i : SigId) : (s.takeFrom i).dropped = s.dropped := (takeFrom_keep s i).dropped
@[simp] theorem takeFrom_removed' (i : SigId) : (s.takeFrom i).removed = s.removed := (takeFrom_keep s i).removed
@[simp] theorem foldl_takeFrom_recvd' (l : List SigId) : (l.foldl takeFrom s).recvd = s.recvd := (foldl_takeFrom_keep s l).recvd
@[simp] theorem foldl_takeFrom_dropped' (l : List SigId) : (l.foldl takeFrom s).dropped = s.dropped := (foldl_takeFrom_keep s l).dropped
@[simp] theorem foldl_takeFrom_removed' (l : List SigId) : (l.foldl takeFrom s).removed = s.removed := (foldl_takeFrom_keep s l).removed

/-- What a state transformer appended to the wake log (opaque to `simp` on purpose). -/
def wakeSuf (a b : State) : List WakerId := b.wakes.drop a.wakes.length

theorem wakes_eq_of_prefix {a b : State} (h : a.wakes <+: b.wakes) : b.wakes = a.wakes ++ wakeSuf a b := by
  obtain ⟨t, ht⟩ := h
  simp [wakeSuf, ← ht]

@[simp] theorem finalize_wakes' (i : SigId) (o : SigSt) : (s.finalize i o).wakes = s.wakes ++ wakeSuf s (s.finalize i o) :=
  wakes_eq_of_prefix (finalize_keep s i o).wakes
@[simp] theorem terminateList_wakes' (l : List SigId) : (s.terminateList l).wakes = s.wakes ++ wakeSuf s (s.terminateList l) :=
  wakes_eq_of_prefix (terminateList_keep s l).wakes
@[simp] theorem takeFrom_wakes' (i : SigId) : (s.takeFrom i).wakes = s.wakes ++ wakeSuf s (s.takeFrom i) :=
  wakes_eq_of_prefix (takeFrom_keep s i).wakes
@[simp] theorem foldl_takeFrom_wakes' (l : List SigId) : (l.foldl takeFrom s).wakes = s.wakes ++ wakeSuf s (l.foldl takeFrom s) :=
  wakes_eq_of_prefix (foldl_takeFrom_keep s l).wakes

@[simp] theorem deliverTo_wakes' (i : SigId) (m : Msg) : (s.deliverTo i m).wakes = s.wakes := by
  unfold deliverTo; split <;> rfl
@[simp] theorem claimFrom_wakes' (i : SigId) : (s.claimFrom i).wakes = s.wakes := by
  unfold claimFrom; split <;> rfl

@[simp] theorem dropMsg_recvd' (m : Msg) : (s.dropMsg m).recvd = s.recvd := rfl
@[simp] theorem dropMsg_dropped' (m : Msg) : (s.dropMsg m).dropped = s.dropped ++ [m] := rfl
@[simp] theorem dropMsg_removed' (m : Msg) : (s.dropMsg m).removed = s.removed := rfl
@[simp] theorem dropMsg_wakes' (m : Msg) : (s.dropMsg m).wakes = s.wakes := rfl
@[simp] theorem giveR_recvd' (m : Msg) : (s.giveR m).recvd = s.recvd ++ [m] := rfl
@[simp] theorem giveR_dropped' (m : Msg) : (s.giveR m).dropped = s.dropped := rfl
@[simp] theorem giveR_removed' (m : Msg) : (s.giveR m).removed = s.removed := rfl
@[simp] theorem giveR_wakes' (m : Msg) : (s.giveR m).wakes = s.wakes := rfl
@[simp] theorem withdrawSlots_recvd' (l : List SigId) : (s.withdrawSlots l).recvd = s.recvd := rfl
@[simp] theorem withdrawSlots_dropped' (l : List SigId) : (s.withdrawSlots l).dropped = s.dropped := rfl
@[simp] theorem withdrawSlots_wakes' (l : List SigId) : (s.withdrawSlots l).wakes = s.wakes := rfl
@[simp] theorem withdrawSlots_removed' (l : List SigId) :
    (s.withdrawSlots l).removed = s.removed ++ l.filterMap (fun i =>
      match s.sigs[i]? with
      | some g => if g.role == .send then g.slot else none
      | none => none) := rfl
@[simp] theorem newSig_fst_offered' (g : Sig) : (s.newSig g).1.offered = s.offered := rfl
@[simp] theorem newSig_fst_accepted' (g : Sig) : (s.newSig g).1.accepted = s.accepted := rfl
@[simp] theorem newSig_fst_delivered' (g : Sig) : (s.newSig g).1.delivered = s.delivered := rfl
@[simp] theorem newSig_fst_removed' (g : Sig) : (s.newSig g).1.removed = s.removed := rfl
@[simp] theorem newSig_fst_recvd' (g : Sig) : (s.newSig g).1.recvd = s.recvd := rfl
@[simp] theorem newSig_fst_dropped' (g : Sig) : (s.newSig g).1.dropped = s.dropped := rfl
@[simp] theorem newSig_fst_wakes' (g : Sig) : (s.newSig g).1.wakes = s.wakes := rfl

@[simp] theorem failBack_recvd' (m : Msg) (o : Bool) : (s.failBack m o).recvd = s.recvd := by
  unfold failBack; split <;> rfl
@[simp] theorem failBack_removed' (m : Msg) (o : Bool) : (s.failBack m o).removed = s.removed := by
  unfold failBack; split <;> rfl
@[simp] theorem failBack_wakes' (m : Msg) (o : Bool) : (s.failBack m o).wakes = s.wakes := by
  unfold failBack; split <;> rfl
@[simp] theorem failBack_dropped' (m : Msg) (o : Bool) :
    (s.failBack m o).dropped = s.dropped ++ (if o then [] else [m]) := by
  unfold failBack; split <;> simp_all

@[simp] theorem dropMsgs_recvd' (ms : List Msg) : (s.dropMsgs ms).recvd = s.recvd := by
  unfold dropMsgs
  induction ms generalizing s with
  | nil => rfl
  | cons m l ih => simp [List.foldl, ih]
@[simp] theorem dropMsgs_removed' (ms : List Msg) : (s.dropMsgs ms).removed = s.removed := by
  unfold dropMsgs
  induction ms generalizing s with
  | nil => rfl
  | cons m l ih => simp [List.foldl, ih]
@[simp] theorem dropMsgs_wakes' (ms : List Msg) : (s.dropMsgs ms).wakes = s.wakes := by
  unfold dropMsgs
  induction ms generalizing s with
  | nil => rfl
  | cons m l ih => simp [List.foldl, ih]
@[simp] theorem dropMsgs_dropped' (ms : List Msg) : (s.dropMsgs ms).dropped = s.dropped ++ ms := by
  unfold dropMsgs
  induction ms generalizing s with
  | nil => simp
  | cons m l ih => simp [List.foldl, ih]

@[simp] theorem foldl_giveR_recvd' (ms : List Msg) : (ms.foldl giveR s).recvd = s.recvd ++ ms := by
  induction ms generalizing s with
  | nil => simp
  | cons m l ih => simp [List.foldl, ih]
@[simp] theorem foldl_giveR_dropped' (ms : List Msg) : (ms.foldl giveR s).dropped = s.dropped := by
  induction ms generalizing s with
  | nil => rfl
  | cons m l ih => simp [List.foldl, ih]
@[simp] theorem foldl_giveR_removed' (ms : List Msg) : (ms.foldl giveR s).removed = s.removed := by
  induction ms generalizing s with
  | nil => rfl
  | cons m l ih => simp [List.foldl, ih]
@[simp] theorem foldl_giveR_wakes' (ms : List Msg) : (ms.foldl giveR s).wakes = s.wakes := by
  induction ms generalizing s with
  | nil => rfl
  | cons m l ih => simp [List.foldl, ih]

end State

/-- Every log of `s` is a prefix of the corresponding log of `s'`. -/
structure Grow (s s' : State) : Prop where
  recvd : s.recvd <+: s'.recvd
  dropped : s.dropped <+: s'.dropped
  offered : s.offered <+: s'.offered
  accepted : s.accepted <+: s'.accepted
  delivered : s.delivered <+: s'.delivered
  removed : s.removed <+: s'.removed
  wakes : s.wakes <+: s'.wakes

theorem Grow.refl (s : State) : Grow s s := by constructor <;> exact List.prefix_refl _

@[simp] theorem prefix_ite {α} (c : Prop) [Decidable c] (l a b : List α) :
    (l <+: if c then a else b) ↔ (if c then l <+: a else l <+: b) := by split <;> rfl

/-- Close one leaf of a step: compute every log; the old log is a visible prefix. -/
macro "grow_leaf" : tactic => `(tactic| (constructor <;> simp))

theorem sendStep_grow (s : State) (m : Msg) (o : Bool) (reg : Option Sig) : Grow s (sendStep s m o reg).1 := by
  unfold sendStep
  simp only
  split
  · grow_leaf
  · grow_leaf
  · grow_leaf
  · grow_leaf
  · split <;> grow_leaf

theorem recvStep_grow (s : State) (t e : Bool) : Grow s (recvStep s t e).1 := by
  unfold recvStep
  split
  · split <;> grow_leaf
  · grow_leaf
  · grow_leaf

theorem step_grow {v : Variant} {s : State} {l : Label} {p : State × Res} (e : step v s l = some p) :
    Grow s p.1 := by
  cases l <;> simp only [step] at e
  case send m kind opt => step_leaves e; exact sendStep_grow _ _ _ _
  case trySend m opt rt =>
    have := sendStep_grow s m opt none
    step_leaves e <;> (try rename_i heq) <;> (try rw [heq] at this) <;> exact this
  case recv kind ex =>
    have hg := recvStep_grow s (kind == .timed) ex
    step_leaves e
    · constructor <;> simp [hg.1, hg.2, hg.3, hg.4, hg.5, hg.6, hg.7]
    · exact hg
  case tryRecv rt => step_leaves e; exact recvStep_grow s false false
  case pollRecv f w =>
    have hg := recvStep_grow s false false
    step_leaves e
    all_goals first
      | exact Grow.refl s
      | exact hg
      | (constructor <;> simp [hg.1, hg.2, hg.3, hg.4, hg.5, hg.6, hg.7])
  case clone side => cases side <;> simp only at e <;> step_leaves e <;> grow_leaf
  case dropHandle side => cases side <;> simp only at e <;> step_leaves e <;> grow_leaf
  case convert side => cases side <;> simp only at e <;> step_leaves e <;> exact Grow.refl s
  case isDisconnected side => cases side <;> simp only at e <;> step_leaves e <;> exact Grow.refl s
  all_goals step_leaves e
  all_goals first
    | exact Grow.refl s
    | grow_leaf

/-! ## Part 2: terminal custodies are stable -/

namespace State
variable (s : State)

theorem finalize_cust' (i : SigId) (o : SigSt) : (s.finalize i o).cust = s.cust := by
  unfold finalize; split
  · rfl
  · split <;> rfl

theorem terminateList_cust' (l : List SigId) : (s.terminateList l).cust = s.cust := by
  unfold terminateList
  induction l generalizing s with
  | nil => rfl
  | cons i l ih => simp only [List.foldl]; rw [ih, finalize_cust']

theorem claimFrom_cust' (i : SigId) : (s.claimFrom i).cust = s.cust := by
  unfold claimFrom; split <;> rfl

theorem takeFrom_cust' (i : SigId) : (s.takeFrom i).cust = s.cust := by
  unfold takeFrom; split
  · rfl
  · rw [finalize_cust']; rfl

theorem foldl_takeFrom_cust' (l : List SigId) : (l.foldl takeFrom s).cust = s.cust := by
  induction l generalizing s with
  | nil => rfl
  | cons i l ih => simp only [List.foldl]; rw [ih, takeFrom_cust']

theorem withdrawSlots_cust' (l : List SigId) : (s.withdrawSlots l).cust = s.cust := rfl
theorem newSig_fst_cust' (g : Sig) : (s.newSig g).1.cust = s.cust := rfl
theorem dropMsg_cust' (m : Msg) : (s.dropMsg m).cust = upd s.cust m .gone := rfl
theorem giveR_cust' (m : Msg) : (s.giveR m).cust = upd s.cust m .callerR := rfl

theorem failBack_cust' (m : Msg) (o : Bool) :
    (s.failBack m o).cust = upd s.cust m (if o then .callerS else .gone) := by
  unfold failBack; split <;> simp_all [dropMsg_cust']

/-- `deliverTo` changes at most the custody of the message delivered. -/
theorem deliverTo_cust' (i : SigId) (m x : Msg) (hx : x ≠ m) : (s.deliverTo i m).cust x = s.cust x := by
  unfold deliverTo; split
  · rfl
  · simp [upd, hx]

theorem dropMsgs_cust' (ms : List Msg) (x : Msg) :
    (s.dropMsgs ms).cust x = if x ∈ ms then .gone else s.cust x := by
  unfold dropMsgs
  induction ms generalizing s with
  | nil => simp
  | cons m l ih =>
    simp only [List.foldl, ih, dropMsg_cust', upd, List.mem_cons]
    by_cases h1 : x ∈ l <;> by_cases h2 : x = m <;> simp [h1, h2]

theorem foldl_giveR_cust' (ms : List Msg) (x : Msg) :
    (ms.foldl giveR s).cust x = if x ∈ ms then .callerR else s.cust x := by
  induction ms generalizing s with
  | nil => simp
  | cons m l ih =>
    simp only [List.foldl, ih, giveR_cust', upd, List.mem_cons]
    by_cases h1 : x ∈ l <;> by_cases h2 : x = m <;> simp [h1, h2]

end State

/-- The simp set that computes the custody function after the state primitives. -/
macro "cust_simp" : tactic =>
  `(tactic| simp [upd, State.finalize_cust', State.terminateList_cust', State.claimFrom_cust', State.takeFrom_cust',
      State.foldl_takeFrom_cust', State.withdrawSlots_cust', State.newSig_fst_cust', State.dropMsg_cust',
      State.giveR_cust', State.failBack_cust', State.dropMsgs_cust', State.foldl_giveR_cust'])

/-- A message that is neither fresh, nor buffered, nor in a slot keeps its custody from `s` to `s'`. -/
def Stay (s s' : State) : Prop :=
  ∀ x : Msg, s.cust x ≠ .fresh → s.cust x ≠ .queued → (∀ i : Nat, s.cust x ≠ .slot i) → s'.cust x = s.cust x

theorem Stay.refl (s : State) : Stay s s := fun _ _ _ _ => rfl

/-! ### The send family: only the label's own (fresh) message moves -/

theorem sendStep_cust (s : State) (m : Msg) (o : Bool) (reg : Option Sig) (x : Msg) (hx : x ≠ m) :
    (sendStep s m o reg).1.cust x = s.cust x := by
  unfold sendStep
  simp only
  split
  · cust_simp; simp [hx]
  · cust_simp; simp [hx]
  · rw [deliverTo_cust' _ _ _ _ hx]
  · cust_simp; simp [hx]
  · split
    · cust_simp; simp [hx]
    · cust_simp; simp [hx]

theorem sendStep_stay (s : State) (m : Msg) (o : Bool) (reg : Option Sig) (hf : s.cust m = .fresh) :
    Stay s (sendStep s m o reg).1 := by
  intro x h1 _ _
  apply sendStep_cust
  intro h; subst h; exact h1 hf

/-! ### What a receive touches: the head of the buffer and the slot of a listed sender -/

namespace Chan

theorem recvPre_head {c c1 : Chan} {slot t ex v r} (e : c.recvPre slot t ex = (c1, .fromQueue v r)) :
    v ∈ c.queue := by
  unfold recvPre at e
  split at e
  · cases e
  · split at e
    · rename_i v' q hq
      split at e <;> simp at e <;> simp [hq, e.2.1]
    · split at e
      · cases e
      · split at e
        · cases e
        · split at e <;> cases e

theorem recvPre_popped {c c1 : Chan} {slot t ex b p} (e : c.recvPre slot t ex = (c1, b))
    (hb : b = .fromQueue v (some p) ∨ b = .fromSender p) : p ∈ c.waitList ∧ c.recvBlocking = false := by
  obtain ⟨h1, h2, -⟩ := recvPre_pops e
  have hp : poppedR b = [p] := by rcases hb with rfl | rfl <;> rfl
  rw [hp] at h1 h2
  exact ⟨by rw [h1.wl]; simp, h2 (by simp)⟩

theorem drainCS_what {c c1 : Chan} {q l n} (e : c.drainCS = some (c1, q, l, n)) :
    q = c.queue ∧ ∀ p ∈ l, p ∈ c.waitList ∧ c.recvBlocking = false := by
  obtain ⟨h1, h2⟩ := drainCS_pops e
  refine ⟨?_, fun p hp => ⟨by rw [h1.wl]; simp [hp], h2 (by intro h; rw [h] at hp; cases hp)⟩⟩
  unfold drainCS at e
  split at e
  · cases e
  · simp at e; exact e.2.1.symm

theorem dropCS_queue' (c : Chan) (r : Side) : (c.dropCS r).1.queue = c.queue := by
  unfold dropCS terminateAll
  cases r <;> simp only <;> (repeat' split) <;> rfl

theorem closeCS_queue {c c1 : Chan} {l q} (e : c.closeCS = some (c1, l, q)) : q = c.queue := by
  unfold closeCS at e
  split at e
  · cases e
  · simp at e; exact e.2.2.symm

end Chan

/-- The value of a listed sender is in that sender's custody. -/
theorem listed_sender_cust {s : State} (hs : Struct s) (hl : Ledger s) {p : Nat}
    (hp : p ∈ s.chan.waitList) (hb : s.chan.recvBlocking = false) : s.cust (s.slotMsg p) = .slot p := by
  obtain ⟨g, hg, hli⟩ := hs.listed p hp
  have hr : g.role = .send := by rw [hli.role]; simp [Chan.listRole, hb]
  have hsome := hli.sendSlot hr
  cases hsl : g.slot with
  | none => simp [hsl] at hsome
  | some m =>
    have : s.slotMsg p = m := by simp [slotMsg, hg, hsl]
    rw [this]
    exact hl.slotCust p g m hg hsl

theorem recvStep_stay (s : State) (t e : Bool) (hs : Struct s) (hl : Ledger s) : Stay s (recvStep s t e).1 := by
  intro x h1 h2 h3
  unfold recvStep
  split <;> rename_i heq
  · have hv := hl.queueCust _ (recvPre_head heq)
    split
    · cust_simp; grind
    · obtain ⟨hp, hb⟩ := recvPre_popped heq (Or.inl rfl)
      have hc := listed_sender_cust hs hl hp hb
      cust_simp; grind
  · obtain ⟨hp, hb⟩ := recvPre_popped (v := 0) heq (Or.inr rfl)
    have hc := listed_sender_cust hs hl hp hb
    cust_simp; grind
  · rfl

theorem rearm_slot' {v : Variant} {g g' : Sig} {m : Msg} (h : rearm v g = some g') (hm : g'.slot = some m) :
    g.slot = some m := by
  unfold rearm at h
  split at h
  · split at h
    · cases h; split at hm <;> simp_all
    · cases h
  · cases h; exact hm

/-- Every step (of any variant) moves only fresh, buffered or slot-held messages. -/
theorem step_stay {v : Variant} {s : State} {l : Label} {p : State × Res}
    (hs : Struct s) (hl : Ledger s) (e : step v s l = some p) : Stay s p.1 := by
  cases l <;> simp only [step] at e
  case send m kind opt => step_leaves e; exact sendStep_stay _ _ _ _ (by grind)
  case trySend m opt rt =>
    have := sendStep_stay s m opt none
    step_leaves e <;> (try rename_i heq) <;> (try rw [heq] at this) <;> apply this <;> grind
  case recv kind ex =>
    have hr := recvStep_stay s (kind == .timed) ex hs hl
    step_leaves e
    · intro x h1 h2 h3; have := hr x h1 h2 h3; cust_simp; exact this
    · exact hr
  case tryRecv rt => step_leaves e; exact recvStep_stay s false false hs hl
  case drain =>
    step_leaves e
    · exact Stay.refl s
    · rename_i c1 senders n heq
      obtain ⟨rfl, hsend⟩ := drainCS_what heq
      intro x h1 h2 h3
      have hA : ∀ a ∈ senders, s.slotMsg a ≠ x := by
        rintro p hp rfl
        obtain ⟨hp1, hb⟩ := hsend p hp
        exact absurd (listed_sender_cust hs hl hp1 hb) (h3 p)
      have hB : x ∉ s.chan.queue := fun hq => absurd (hl.queueCust x hq) h2
      cust_simp <;> grind
  case complete i =>
    split at e
    · cases e
    rename_i g hg
    have hsl := fun m hm => hl.slotCust i g m hg hm
    intro x h1 h2 h3
    step_leaves e
    all_goals (cust_simp <;> grind)
  case expire i =>
    split at e
    · cases e
    rename_i g hg
    have hsl := fun m hm => hl.slotCust i g m hg hm
    intro x h1 h2 h3
    step_leaves e
    all_goals (cust_simp <;> grind)
  case finalize i =>
    step_leaves e
    intro x h1 h2 h3; cust_simp
  case newSendFut m =>
    step_leaves e
    intro x h1 h2 h3; cust_simp; grind
  case pollSend f w =>
    split at e
    · cases e
    rename_i g hg
    have hsl := fun m hm => hl.slotCust f g m hg hm
    intro x h1 h2 h3
    step_leaves e
    all_goals first
      | rfl
      | (rename_i m hm _ _ _ _; rw [deliverTo_cust' _ _ _ _ (by have := hsl m hm; grind)]; cust_simp)
      | (cust_simp; grind)
  case dropSendFut f =>
    split at e
    · cases e
    rename_i g hg
    have hsl := fun m hm => hl.slotCust f g m hg hm
    intro x h1 h2 h3
    step_leaves e
    all_goals (cust_simp <;> grind)
  case newRecvFut st =>
    step_leaves e
    intro x h1 h2 h3; cust_simp
  case pollRecv f w =>
    split at e
    · cases e
    rename_i g hg
    have hsl := fun m hm => hl.slotCust f g m hg hm
    have hr := recvStep_stay s false false hs hl
    intro x h1 h2 h3
    have hrx := hr x h1 h2 h3
    step_leaves e
    all_goals first
      | rfl
      | (cust_simp; exact hrx)
      | (have hre := rearm_slot' (by assumption) (by assumption); cust_simp; grind)
      | (cust_simp; grind)
  case dropRecvFut f =>
    split at e
    · cases e
    rename_i g hg
    have hsl := fun m hm => hl.slotCust f g m hg hm
    intro x h1 h2 h3
    step_leaves e
    all_goals (cust_simp <;> grind)
  case clone side => cases side <;> simp only at e <;> step_leaves e <;> exact Stay.refl s
  case dropHandle side =>
    have hq := dropCS_queue' s.chan side
    intro x h1 h2 h3
    cases side <;> simp only at e <;> step_leaves e
    all_goals (cust_simp <;> grind [Ledger.queueCust])
  case close =>
    step_leaves e
    · exact Stay.refl s
    · rename_i heq
      have hq := closeCS_queue heq
      subst hq
      intro x h1 h2 h3
      cust_simp
      intro hx; exact absurd (hl.queueCust x hx) h2
  case convert side => cases side <;> simp only at e <;> step_leaves e <;> exact Stay.refl s
  case isDisconnected side => cases side <;> simp only at e <;> step_leaves e <;> exact Stay.refl s
  all_goals (step_leaves e; exact Stay.refl s)

/-! ## Part 3: the statements -/

/-- The logs are append-only. -/
theorem logs_grow {v : Variant} {s : State} {l : Label} {p : State × Res} (e : step v s l = some p) :
    (∃ r, p.1.recvd = s.recvd ++ r) ∧ (∃ d, p.1.dropped = s.dropped ++ d) ∧
    (∃ o, p.1.offered = s.offered ++ o) ∧ (∃ a, p.1.accepted = s.accepted ++ a) ∧
    (∃ d, p.1.delivered = s.delivered ++ d) ∧ (∃ r, p.1.removed = s.removed ++ r) ∧
    (∃ w, p.1.wakes = s.wakes ++ w) := by
  have flip : ∀ {α : Type} {a b : List α}, a <+: b → ∃ t, b = a ++ t := fun ⟨t, ht⟩ => ⟨t, ht.symm⟩
  obtain ⟨h1, h2, h3, h4, h5, h6, h7⟩ := step_grow e
  exact ⟨flip h1, flip h2, flip h3, flip h4, flip h5, flip h6, flip h7⟩

/-- A message that has reached a receiving caller, been destroyed, or been handed back to its
    sender never moves again.  (`SendDone` is not needed; `step_stay` is the statement for any variant.) -/
theorem cust_stable {s : State} {l : Label} {p : State × Res}
    (hs : Struct s) (hd : SendDone s) (hl : Ledger s) (e : step Variant.good s l = some p) (m : Msg)
    (hm : s.cust m = .callerR ∨ s.cust m = .gone ∨ s.cust m = .callerS) : p.1.cust m = s.cust m := by
  have _ := hd
  apply step_stay hs hl e m
  · rcases hm with h | h | h <;> simp [h]
  · rcases hm with h | h | h <;> simp [h]
  · intro i; rcases hm with h | h | h <;> simp [h]

/-- Lifted to executions: along any run from a reachable state, a terminal custody stays. -/
theorem cust_stable_run {s : State} (hr : Reach Variant.good s) (ls : List Label) (s' : State) (rs : List Res)
    (e : run Variant.good s ls = some (s', rs)) (m : Msg)
    (hm : s.cust m = .callerR ∨ s.cust m = .gone ∨ s.cust m = .callerS) : s'.cust m = s.cust m := by
  induction ls generalizing s rs with
  | nil => simp [run] at e; obtain ⟨rfl, -⟩ := e; rfl
  | cons l ls ih =>
    simp only [run] at e
    split at e
    · cases e
    · rename_i s1 r heq
      split at e
      · cases e
      · rename_i s2 rs2 heq2
        cases e
        have h1 : s1.cust m = s.cust m :=
          cust_stable (reach_struct s hr) (reach_ledger s hr).1 (reach_ledger s hr).2 heq m hm
        have := ih (Reach.step hr heq) rs2 heq2 (by rw [h1]; exact hm)
        rw [this, h1]

/-- The logs only grow along a run (any variant, any start state). -/
theorem logs_grow_run {v : Variant} {s : State} (ls : List Label) (s' : State) (rs : List Res)
    (e : run v s ls = some (s', rs)) : Grow s s' := by
  induction ls generalizing s rs with
  | nil => simp [run] at e; obtain ⟨rfl, -⟩ := e; exact Grow.refl s
  | cons l ls ih =>
    simp only [run] at e
    split at e
    · cases e
    · rename_i s1 r heq
      split at e
      · cases e
      · rename_i s2 rs2 heq2
        cases e
        obtain ⟨a1, a2, a3, a4, a5, a6, a7⟩ := step_grow heq
        obtain ⟨b1, b2, b3, b4, b5, b6, b7⟩ := ih rs2 heq2
        exact ⟨a1.trans b1, a2.trans b2, a3.trans b3, a4.trans b4, a5.trans b5, a6.trans b6, a7.trans b7⟩

end Kanal
