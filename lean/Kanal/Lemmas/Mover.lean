/-
  Kanal.Lemmas.Mover — the deferred half of a hand-off (`Label.finalize i`, the peer's final store into
  the popped waiter's signal) is a LEFT MOVER: it commutes to the left of every step that is not one of the
  waiter's own.  Hence every execution is equivalent to one in which each final store follows its critical
  section immediately, i.e. to an execution of a channel whose hand-offs are atomic: the hand-off window
  adds no observable behaviour (C03, reduction in the sense of Lipton).

  "Equivalent" is equality of every result and of the final state up to the order of the wake log
  (`wakes` records `Waker::wake` calls; two commuting steps may each wake somebody).
-/
import Kanal.Lemmas.All
import Kanal.Lemmas.MoverAux

namespace Kanal

/-- The steps that belong to waiter `i` itself (its completion, expiry, polls, drop) or are its final store. -/
def ownLabel (i : Nat) : Label → Bool
  | .complete j | .expire j | .finalize j | .pollSend j _ | .pollRecv j _ | .dropSendFut j | .dropRecvFut j => i == j
  | _ => false

/-- Equality of states up to the order of the wake log. -/
structure EqW (a b : State) : Prop where
  chan : a.chan = b.chan
  sigs : a.sigs = b.sigs
  cust : a.cust = b.cust
  offered : a.offered = b.offered
  accepted : a.accepted = b.accepted
  delivered : a.delivered = b.delivered
  removed : a.removed = b.removed
  recvd : a.recvd = b.recvd
  dropped : a.dropped = b.dropped
  liveS : a.liveS = b.liveS
  liveR : a.liveR = b.liveR
  closedOnce : a.closedOnce = b.closedOnce
  wakes : a.wakes.Perm b.wakes

theorem EqW.refl (a : State) : EqW a a := ⟨rfl, rfl, rfl, rfl, rfl, rfl, rfl, rfl, rfl, rfl, rfl, rfl, List.Perm.refl _⟩

theorem EqW.symm {a b : State} (h : EqW a b) : EqW b a :=
  ⟨h.chan.symm, h.sigs.symm, h.cust.symm, h.offered.symm, h.accepted.symm, h.delivered.symm, h.removed.symm,
   h.recvd.symm, h.dropped.symm, h.liveS.symm, h.liveR.symm, h.closedOnce.symm, h.wakes.symm⟩

theorem EqW.trans {a b c : State} (h1 : EqW a b) (h2 : EqW b c) : EqW a c :=
  ⟨h1.chan.trans h2.chan, h1.sigs.trans h2.sigs, h1.cust.trans h2.cust, h1.offered.trans h2.offered,
   h1.accepted.trans h2.accepted, h1.delivered.trans h2.delivered, h1.removed.trans h2.removed,
   h1.recvd.trans h2.recvd, h1.dropped.trans h2.dropped, h1.liveS.trans h2.liveS, h1.liveR.trans h2.liveR,
   h1.closedOnce.trans h2.closedOnce, h1.wakes.trans h2.wakes⟩

theorem ownLabel_sig? {i : Nat} {l : Label} (hl : ownLabel i l = false) : l.sig? ≠ some i := by
  cases l <;> simp [ownLabel, Label.sig?] at hl ⊢ <;> exact fun h => hl h.symm

theorem eq_pre (a : State) : a = pre a.wakes { a with wakes := [] } := by
  cases a; simp [pre]

theorem EqW.eq_pre {a b : State} (h : EqW a b) : b = pre b.wakes { a with wakes := [] } := by
  obtain ⟨h1, h2, h3, h4, h5, h6, h7, h8, h9, h10, h11, h12, -⟩ := h
  cases a; cases b
  simp only at h1 h2 h3 h4 h5 h6 h7 h8 h9 h10 h11 h12
  subst_vars
  simp [pre]

theorem EqW.pre {p q : List WakerId} (h : p.Perm q) (s : State) : EqW (pre p s) (pre q s) :=
  ⟨rfl, rfl, rfl, rfl, rfl, rfl, rfl, rfl, rfl, rfl, rfl, rfl, h.append_right _⟩

/-- No step reads the wake log: steps from states equal up to its order give the same result and states
    equal up to its order. -/
theorem step_congr_wakes (v : Variant) (a b : State) (h : EqW a b) (l : Label) :
    (step v a l = none ∧ step v b l = none) ∨
    (∃ a' b' r, step v a l = some (a', r) ∧ step v b l = some (b', r) ∧ EqW a' b') := by
  rw [eq_pre a, h.eq_pre, step_pre, step_pre]
  cases step v { a with wakes := [] } l with
  | none => left; exact ⟨rfl, rfl⟩
  | some x => right; exact ⟨_, _, x.2, rfl, rfl, EqW.pre h.wakes _⟩

/-- A claimed waiter of a reachable state is in no wait list and still pending. -/
theorem claimed_unlisted (s : State) (h : Reach Variant.good s) (i : Nat) (g : Sig)
    (hg : s.sigs[i]? = some g) (hc : g.claimed = true) : i ∉ s.chan.waitList ∧ g.st = .pending := by
  have hs := reach_struct s h
  refine ⟨?_, ((hs.sigOK i g hg).claimed hc).2.1⟩
  intro hi
  obtain ⟨g', hg', hl⟩ := hs.listed i hi
  rw [hg] at hg'; cases hg'
  rw [hl.unclaimed] at hc; cases hc

/-- The wakers the final store into `g` wakes. -/
def finWakes (g : Sig) : List WakerId :=
  match g.kind, g.waker with
  | .async, some w => [w]
  | _, _ => []

/-- The state after the final store into waiter `i` (whose record is `g`). -/
def fin (i : Nat) (g : Sig) (s : State) : State :=
  { T i { g with claimed := false, st := .ok } s with wakes := s.wakes ++ finWakes g }

theorem fin_eqW (i : Nat) (g : Sig) (s : State) :
    EqW (fin i g s) (pre (finWakes g) (T i { g with claimed := false, st := .ok } s)) :=
  ⟨rfl, rfl, rfl, rfl, rfl, rfl, rfl, rfl, rfl, rfl, rfl, rfl, List.perm_append_comm⟩

/-- The final store, as a function of the state. -/
theorem step_finalize_eq (v : Variant) (s : State) (i : Nat) (g : Sig) (hg : s.sigs[i]? = some g)
    (hc : g.claimed = true) (hp : g.st = .pending) :
    step v s (.finalize i) = some (fin i g s, .unit) := by
  have hlt : i < s.sigs.length := State.lt_of_get?_some hg
  simp only [step, hg]
  rw [if_neg (by simp [hc, hp])]
  simp only [Option.some.injEq, Prod.mk.injEq, and_true]
  unfold State.finalize
  have h1 : (s.setSig i { g with claimed := false }).sigs[i]? = some { g with claimed := false } := by
    rw [State.setSig_get]; simp [hg]
  rw [h1]
  simp only [fin, finWakes, T, State.setSig, List.set_set]
  split <;> simp_all

/-- **Left mover.** In a reachable state where waiter `i` is claimed (its peer is between critical section and
    final store), let `l` be any step that is not one of `i`'s own and does not busy-wait; if `l` and then the
    final store happen, then the final store is already enabled before `l`, and doing it first leads — with
    the same result for `l` — to the same state up to the order of the wake log. -/
theorem finalize_left_mover (s : State) (h : Reach Variant.good s) (i : Nat) (g : Sig)
    (hg : s.sigs[i]? = some g) (hc : g.claimed = true)
    (l : Label) (hl : ownLabel i l = false) (s1 : State) (r : Res) (hr : r ≠ .spin)
    (e1 : step Variant.good s l = some (s1, r))
    (s2 : State) (r2 : Res) (e2 : step Variant.good s1 (.finalize i) = some (s2, r2)) :
    r2 = .unit ∧ ∃ s' s2', step Variant.good s (.finalize i) = some (s', .unit) ∧
      step Variant.good s' l = some (s2', r) ∧ EqW s2' s2 := by
  have _ := hr   -- not needed: a busy-waiting step of somebody else commutes just as well
  obtain ⟨hni, hp⟩ := claimed_unlisted s h i g hg hc
  have hl' := ownLabel_sig? hl
  -- `l` leaves waiter `i` alone, so the final store after `l` is the same function
  have hg1 : s1.sigs[i]? = some g := step_sig_stable _ s i g hg hni l hl' _ e1
  rw [step_finalize_eq _ s1 i g hg1 hc hp] at e2
  cases e2
  refine ⟨rfl, fin i g s, ?_⟩
  -- `l` from the state with waiter `i` overwritten and the wake log prefixed
  have e3 : step Variant.good (pre (finWakes g) (T i { g with claimed := false, st := .ok } s)) l =
      some (pre (finWakes g) (T i { g with claimed := false, st := .ok } s1), r) := by
    rw [step_pre, step_T _ s i g { g with claimed := false, st := .ok } hg hni rfl rfl l hl', e1]; rfl
  rcases step_congr_wakes Variant.good _ _ (fin_eqW i g s) l with ⟨-, hn⟩ | ⟨a', b', r', ea, eb, hab⟩
  · rw [e3] at hn; cases hn
  · rw [e3] at eb; cases eb
    exact ⟨a', step_finalize_eq _ s i g hg hc hp, ea, hab.trans (fin_eqW i g s1).symm⟩

/-- A step that is not one of `i`'s own leaves `i` claimed (nobody else can see a claimed waiter). -/
theorem claimed_stable (s : State) (h : Reach Variant.good s) (i : Nat) (g : Sig)
    (hg : s.sigs[i]? = some g) (hc : g.claimed = true)
    (l : Label) (hl : ownLabel i l = false) (p : State × Res) (e : step Variant.good s l = some p) :
    ∃ g', p.1.sigs[i]? = some g' ∧ g'.claimed = true :=
  ⟨g, step_sig_stable _ s i g hg (claimed_unlisted s h i g hg hc).1 l (ownLabel_sig? hl) p e, hc⟩

/-- Runs from states equal up to the order of the wake log give the same results and end in such states. -/
theorem run_congr_wakes (v : Variant) (ls : List Label) : ∀ (a b : State), EqW a b → ∀ (t : State) (rs : List Res),
    run v b ls = some (t, rs) → ∃ t', run v a ls = some (t', rs) ∧ EqW t' t := by
  induction ls with
  | nil =>
    intro a b hab t rs e
    simp only [run, Option.some.injEq, Prod.mk.injEq] at e
    obtain ⟨rfl, rfl⟩ := e
    exact ⟨a, rfl, hab⟩
  | cons l ls ih =>
    intro a b hab t rs e
    simp only [run] at e
    rcases step_congr_wakes v a b hab l with ⟨-, hn⟩ | ⟨a', b', r, ea, eb, hab'⟩
    · rw [hn] at e; cases e
    · rw [eb] at e
      simp only at e
      cases e2 : run v b' ls with
      | none => rw [e2] at e; cases e
      | some q =>
        obtain ⟨t2, rs2⟩ := q
        rw [e2] at e
        simp only [Option.some.injEq, Prod.mk.injEq] at e
        obtain ⟨rfl, rfl⟩ := e
        obtain ⟨t', e3, ht⟩ := ih a' b' hab' t2 rs2 e2
        exact ⟨t', by simp only [run, ea, e3], ht⟩

/-- **Reduction.** If, from a reachable state in which waiter `i` is claimed, a sequence `ls` of steps none of
    which is `i`'s own (and none busy-waits) runs and then the final store into `i` happens, then the final
    store can be done first: the same steps then give the same results and end in the same state up to
    the order of the wake log.  By induction every execution is equivalent to one whose hand-offs are atomic. -/
theorem finalize_moves_left (s : State) (h : Reach Variant.good s) (i : Nat) (g : Sig)
    (hg : s.sigs[i]? = some g) (hc : g.claimed = true)
    (ls : List Label) (hls : ∀ l ∈ ls, ownLabel i l = false) (t : State) (rs : List Res) (hrs : ∀ r ∈ rs, r ≠ .spin)
    (e : run Variant.good s (ls ++ [.finalize i]) = some (t, rs ++ [.unit])) (hlen : rs.length = ls.length) :
    ∃ t', run Variant.good s (.finalize i :: ls) = some (t', .unit :: rs) ∧ EqW t' t := by
  induction ls generalizing s rs with
  | nil =>
    have : rs = [] := List.eq_nil_of_length_eq_zero hlen
    subst this
    exact ⟨t, e, EqW.refl t⟩
  | cons l ls ih =>
    cases rs with
    | nil => simp at hlen
    | cons r rs =>
      simp only [List.cons_append, run] at e
      cases e1 : step Variant.good s l with
      | none => rw [e1] at e; cases e
      | some p1 =>
        obtain ⟨s1, r1⟩ := p1
        rw [e1] at e
        simp only at e
        cases e2 : run Variant.good s1 (ls ++ [.finalize i]) with
        | none => rw [e2] at e; cases e
        | some q =>
          obtain ⟨t2, rs2⟩ := q
          rw [e2] at e
          simp only [Option.some.injEq, Prod.mk.injEq, List.cons.injEq] at e
          obtain ⟨rfl, rfl, rfl⟩ := e
          have hl : ownLabel i l = false := hls l (by simp)
          have h1 : Reach Variant.good s1 := Reach.step h e1
          obtain ⟨g1, hg1, hc1⟩ := claimed_stable s h i g hg hc l hl _ e1
          have hni := (claimed_unlisted s h i g hg hc).1
          have hg1' : s1.sigs[i]? = some g := step_sig_stable _ s i g hg hni l (ownLabel_sig? hl) _ e1
          -- the final store moves to the front of the tail …
          obtain ⟨t1, e3, ht1⟩ := ih s1 h1 hg1' (fun l' hl' => hls l' (by simp [hl'])) rs
            (fun r' hr' => hrs r' (by simp [hr'])) e2 (by simpa using hlen)
          simp only [run] at e3
          cases e4 : step Variant.good s1 (.finalize i) with
          | none => rw [e4] at e3; cases e3
          | some p2 =>
            obtain ⟨s2, r2⟩ := p2
            rw [e4] at e3
            simp only at e3
            cases e5 : run Variant.good s2 ls with
            | none => rw [e5] at e3; cases e3
            | some q5 =>
              obtain ⟨t5, rs5⟩ := q5
              rw [e5] at e3
              simp only [Option.some.injEq, Prod.mk.injEq, List.cons.injEq] at e3
              obtain ⟨rfl, -, rfl⟩ := e3
              -- … and then past `l`
              obtain ⟨-, s', s2', e6, e7, h8⟩ := finalize_left_mover s h i g hg hc l hl s1 r1
                (hrs r1 (by simp)) e1 s2 r2 e4
              obtain ⟨t', e9, ht'⟩ := run_congr_wakes Variant.good ls s2' s2 h8 t5 rs5 e5
              exact ⟨t', by simp only [run, e6, e7, e9], ht'.trans ht1⟩

end Kanal

#print axioms Kanal.step_congr_wakes
#print axioms Kanal.finalize_left_mover
#print axioms Kanal.claimed_stable
#print axioms Kanal.finalize_moves_left
