/-
  Kanal.Lemmas.Reach — reachable states of the atomic channel and the induction principle.
-/
import Kanal.Spec

namespace Kanal

/-- States reachable from a fresh channel of any capacity by any finite sequence of enabled atomic steps. -/
inductive Reach (v : Variant) : State → Prop where
  | init (cap : Option Nat) : Reach v (State.init cap)
  | step {s l p} : Reach v s → Kanal.step v s l = some p → Reach v p.1

/-- An invariant that holds initially and is preserved by every step holds in every reachable state. -/
theorem Reach.induct {v : Variant} {P : State → Prop}
    (h0 : ∀ cap, P (State.init cap))
    (hs : ∀ s l p, Reach v s → P s → Kanal.step v s l = some p → P p.1) :
    ∀ s, Reach v s → P s := by
  intro s h
  induction h with
  | init cap => exact h0 cap
  | step hr e ih => exact hs _ _ _ hr ih e

/-- `run` only visits reachable states. -/
theorem Reach.run {v : Variant} {s : State} (h : Reach v s) :
    ∀ (ls : List Label) s' rs, run v s ls = some (s', rs) → Reach v s' := by
  intro ls
  induction ls generalizing s with
  | nil => intro s' rs e; simp [Kanal.run] at e; obtain ⟨rfl, -⟩ := e; exact h
  | cons l ls ih =>
    intro s' rs e
    simp only [Kanal.run] at e
    split at e
    · cases e
    · rename_i s1 r heq
      split at e
      · cases e
      · rename_i s2 rs2 heq2
        cases e
        exact ih (Reach.step h heq) _ _ heq2

end Kanal
