/-
  Kanal.Lemmas.Struct — the structural invariant `Struct` (Defs.lean) holds in every
  reachable state of every variant that re-arms its stream (`v.streamRearm = true`, i.e.
  every variant but D3; in particular `Variant.good`).

  `Struct` as stated in Defs.lean is *not* inductive (`struct_not_inductive`,
  `struct_not_inductive'` at the end of this file): two facts about single waiters are
  missing from `SigOK`.  They are added here as `SigAux`; the bundle `Struct'` = `Struct` +
  `SigAux` is inductive (`struct'_step`), hence `struct_reach`, `struct_step`.
  In the D3 variant `Struct` fails in a reachable state (`struct_fails_d3`).

  Method: the five conjuncts `half nodup listed unlisted sigOK` (+ `SigAux`) only talk about
  `s.chan` and `s.sigs`; they are bundled as `CoreP chan sigs` and every step is shown to be
  a *shrink* of the wait list with pointwise-described waiter updates (`CoreP.shrink`,
  specialised to `pops / upd / set / cancel / terminate`), possibly followed by a *push*
  (`CoreP.push`).  `chanInv`, `counts`, `borrow` come from StepChan / Counts / WF.
-/
import Kanal.Lemmas.Defs

namespace Kanal
open Chan State

/-! ### The strengthening -/

/-- The two per-waiter facts `SigOK` lacks to be inductive. -/
structure SigAux (g : Sig) : Prop where
  /-- a future that has not registered yet still has an untouched signal -/
  zeroPending : g.kind = .async → g.fut = .zero → g.st = .pending
  /-- a claimed receive waiter already holds the value (`deliverTo` stores it when it claims) -/
  recvClaimed : g.role = .recv → g.claimed = true → g.slot.isSome = true

/-- `Struct` plus the strengthening: the inductive bundle. -/
structure Struct' (s : State) : Prop where
  base : Struct s
  aux  : ∀ (i : Nat) (g : Sig), s.sigs[i]? = some g → SigAux g

/-- A waiter that has to be in the wait list (hypotheses of `Struct.unlisted`). -/
def Active (g : Sig) : Prop :=
  g.alive = true ∧ g.st = .pending ∧ g.claimed = false ∧ (g.kind = .async → g.fut = .waiting)

/-- A consistent waiter that does not have to be listed. -/
structure Good (g : Sig) : Prop where
  ok  : SigOK g
  aux : SigAux g
  off : ¬ Active g

/-- The part of `Struct'` that talks about the wait list and the waiter table only. -/
structure CoreP (c : Chan) (sg : List Sig) : Prop where
  half     : (c.sendCount = 0 ∨ c.recvCount = 0) → c.waitList = []
  nodup    : c.waitList.Nodup
  listed   : ∀ i ∈ c.waitList, ∃ g, sg[i]? = some g ∧ Listed c g
  unlisted : ∀ (i : Nat) (g : Sig), sg[i]? = some g → Active g → i ∈ c.waitList
  sigOK    : ∀ (i : Nat) (g : Sig), sg[i]? = some g → SigOK g
  aux      : ∀ (i : Nat) (g : Sig), sg[i]? = some g → SigAux g

abbrev Core (s : State) : Prop := CoreP s.chan s.sigs

theorem Struct'.core {s : State} (h : Struct' s) : Core s :=
  ⟨h.base.half, h.base.nodup, h.base.listed,
   fun i g hg ha => h.base.unlisted i g hg ha.1 ha.2.1 ha.2.2.1 ha.2.2.2, h.base.sigOK, h.aux⟩

theorem sigOK_iff (g : Sig) : SigOK g ↔
    ((g.alive = false → g.slot = none ∧ g.claimed = false) ∧
     (g.claimed = true → g.alive = true ∧ g.st = .pending ∧ (g.kind = .async → g.fut = .waiting)) ∧
     (g.role = .send → (g.st = .ok ∨ g.claimed = true) → g.slot = none) ∧
     (g.role = .send → g.alive = true → g.st ≠ .ok → g.claimed = false → (g.kind = .async → g.fut ≠ .done) → g.slot.isSome = true) ∧
     (g.role = .recv → g.slot.isSome = true → (g.claimed = true ∨ g.st = .ok) ∧ g.alive = true ∧ (g.kind = .async → g.fut = .waiting)) ∧
     (g.role = .recv → g.st = .ok → g.alive = true → (g.kind = .async → g.fut = .waiting) → g.slot.isSome = true) ∧
     (g.st ≠ .pending → g.claimed = false) ∧
     (g.role = .send → ∀ m, g.slot = some m → g.orig = some m) ∧
     (g.kind ≠ .async → g.fut = .zero)) :=
  ⟨fun h => ⟨h.1, h.2, h.3, h.4, h.5, h.6, h.7, h.8, h.9⟩,
   fun h => ⟨h.1, h.2.1, h.2.2.1, h.2.2.2.1, h.2.2.2.2.1, h.2.2.2.2.2.1, h.2.2.2.2.2.2.1,
             h.2.2.2.2.2.2.2.1, h.2.2.2.2.2.2.2.2⟩⟩

theorem listed_iff (c : Chan) (g : Sig) : Listed c g ↔
    (g.alive = true ∧ g.st = .pending ∧ g.claimed = false ∧ g.role = (if c.recvBlocking then Role.recv else Role.send) ∧
     (g.role = .send → g.slot.isSome = true) ∧ (g.role = .recv → g.slot = none) ∧
     (g.kind = .async → g.fut = .waiting ∧ g.waker.isSome = true)) :=
  ⟨fun h => ⟨h.1, h.2, h.3, h.4, h.5, h.6, h.7⟩,
   fun h => ⟨h.1, h.2.1, h.2.2.1, h.2.2.2.1, h.2.2.2.2.1, h.2.2.2.2.2.1, h.2.2.2.2.2.2⟩⟩

theorem sigAux_iff (g : Sig) : SigAux g ↔
    ((g.kind = .async → g.fut = .zero → g.st = .pending) ∧
     (g.role = .recv → g.claimed = true → g.slot.isSome = true)) :=
  ⟨fun h => ⟨h.1, h.2⟩, fun h => ⟨h.1, h.2⟩⟩

theorem good_iff (g : Sig) : Good g ↔ (SigOK g ∧ SigAux g ∧ ¬ Active g) :=
  ⟨fun h => ⟨h.1, h.2, h.3⟩, fun h => ⟨h.1, h.2.1, h.2.2⟩⟩

theorem Listed.active {c : Chan} {g : Sig} (h : Listed c g) : Active g :=
  ⟨h.alive, h.pending, h.unclaimed, fun hk => (h.fut hk).1⟩

theorem Listed.of_rb {c c' : Chan} {g : Sig} (h : Listed c g) (e : c'.recvBlocking = c.recvBlocking) :
    Listed c' g := by
  rw [listed_iff] at *; simpa [e] using h

namespace CoreP
variable {c c' : Chan} {sg sg' : List Sig}

theorem lt_of_mem (h : CoreP c sg) {i : Nat} (hi : i ∈ c.waitList) : i < sg.length := by
  obtain ⟨g, hg, -⟩ := h.listed i hi
  exact lt_of_get?_some hg

theorem not_mem_len (h : CoreP c sg) : sg.length ∉ c.waitList :=
  fun hi => Nat.lt_irrefl _ (h.lt_of_mem hi)

theorem not_mem_of_off (h : CoreP c sg) {i : Nat} {g : Sig} (hg : sg[i]? = some g) (hoff : ¬ Active g) :
    i ∉ c.waitList := by
  intro hi
  obtain ⟨g', hg', hl⟩ := h.listed i hi
  rw [hg] at hg'; cases hg'
  exact hoff hl.active

/-- The wait list shrinks (pop, cancel, terminate, or nothing); every waiter either is untouched and
    keeps its place, or is not listed afterwards and is `Good`. -/
theorem shrink (h : CoreP c sg)
    (hsub : c'.waitList.Sublist c.waitList)
    (hrb : c'.recvBlocking = c.recvBlocking ∨ c'.waitList = [])
    (hhalf : (c'.sendCount = 0 ∨ c'.recvCount = 0) → (c.sendCount = 0 ∨ c.recvCount = 0) ∨ c'.waitList = [])
    (hpt : ∀ j : Nat, (sg'[j]? = sg[j]? ∧ (j ∈ c.waitList → j ∈ c'.waitList)) ∨
              (j ∉ c'.waitList ∧ ∀ g', sg'[j]? = some g' → Good g')) : CoreP c' sg' := by
  constructor
  · intro h0
    rcases hhalf h0 with h1 | h1
    · have := h.half h1; rw [this] at hsub; simpa using hsub
    · exact h1
  · exact hsub.nodup h.nodup
  · intro i hi
    rcases hpt i with ⟨h1, -⟩ | ⟨h1, -⟩
    · obtain ⟨g, hg, hl⟩ := h.listed i (hsub.subset hi)
      refine ⟨g, h1 ▸ hg, ?_⟩
      rcases hrb with e | e
      · exact hl.of_rb e
      · rw [e] at hi; cases hi
    · exact absurd hi h1
  · intro i g hg ha
    rcases hpt i with ⟨h1, h2⟩ | ⟨-, h2⟩
    · exact h2 (h.unlisted i g (h1 ▸ hg) ha)
    · exact absurd ha (h2 g hg).off
  · intro i g hg
    rcases hpt i with ⟨h1, -⟩ | ⟨-, h2⟩
    · exact h.sigOK i g (h1 ▸ hg)
    · exact (h2 g hg).ok
  · intro i g hg
    rcases hpt i with ⟨h1, -⟩ | ⟨-, h2⟩
    · exact h.aux i g (h1 ▸ hg)
    · exact (h2 g hg).aux

/-- Only the waiter table changes, and only at unlisted places. -/
theorem upd (h : CoreP c sg)
    (hpt : ∀ j : Nat, sg'[j]? = sg[j]? ∨ (j ∉ c.waitList ∧ ∀ g', sg'[j]? = some g' → Good g')) :
    CoreP c sg' := by
  refine h.shrink (List.Sublist.refl _) (Or.inl rfl) (fun h0 => Or.inl h0) ?_
  intro j
  rcases hpt j with h1 | h1
  · exact Or.inl ⟨h1, id⟩
  · exact Or.inr h1

/-- Parts of the channel the waiters do not care about. -/
theorem chan (h : CoreP c sg) (hw : c'.waitList = c.waitList) (hrb : c'.recvBlocking = c.recvBlocking)
    (hs : c'.sendCount = 0 → c.sendCount = 0) (hr : c'.recvCount = 0 → c.recvCount = 0) : CoreP c' sg := by
  refine h.shrink (hw ▸ List.Sublist.refl _) (Or.inl hrb) ?_ (fun j => Or.inl ⟨rfl, fun hj => hw ▸ hj⟩)
  rintro (h0 | h0)
  · exact Or.inl (Or.inl (hs h0))
  · exact Or.inl (Or.inr (hr h0))

/-- A waiter registers. -/
theorem push {f : Nat} {g' : Sig} (h : CoreP c sg)
    (hwl : c'.waitList = c.waitList ++ [f])
    (hrb : c'.recvBlocking = c.recvBlocking)
    (hs : c'.sendCount ≠ 0) (hr : c'.recvCount ≠ 0)
    (hf : f ∉ c.waitList)
    (hnew : sg'[f]? = some g') (hl : Listed c' g') (hok : SigOK g') (hax : SigAux g')
    (hpt : ∀ j : Nat, j ≠ f → sg'[j]? = sg[j]?) : CoreP c' sg' := by
  constructor
  · rintro (h0 | h0)
    · exact absurd h0 hs
    · exact absurd h0 hr
  · rw [hwl]
    exact List.nodup_append.mpr ⟨h.nodup, by simp, by
      intro a ha b hb; simp at hb; subst hb; intro e; subst e; exact hf ha⟩
  · intro i hi
    rw [hwl] at hi
    by_cases e : i = f
    · subst e; exact ⟨g', hnew, hl⟩
    · have hi' : i ∈ c.waitList := by simpa [e] using hi
      obtain ⟨g, hg, hlg⟩ := h.listed i hi'
      exact ⟨g, (hpt i e) ▸ hg, hlg.of_rb hrb⟩
  · intro i g hg ha
    rw [hwl]
    by_cases e : i = f
    · subst e; simp
    · have := h.unlisted i g ((hpt i e) ▸ hg) ha
      simp [this]
  · intro i g hg
    by_cases e : i = f
    · subst e; rw [hnew] at hg; cases hg; exact hok
    · exact h.sigOK i g ((hpt i e) ▸ hg)
  · intro i g hg
    by_cases e : i = f
    · subst e; rw [hnew] at hg; cases hg; exact hax
    · exact h.aux i g ((hpt i e) ▸ hg)

end CoreP


/-! ### What the critical sections do to the wait list -/

namespace Chan

/-- `c1` results from `c` by popping the prefix `l` of the wait list (an empty list may flip its flag). -/
structure Pops (c c1 : Chan) (l : List SigId) : Prop where
  sc : c1.sendCount = c.sendCount
  rc : c1.recvCount = c.recvCount
  wl : c.waitList = l ++ c1.waitList
  rb : c1.recvBlocking = c.recvBlocking ∨ c1.waitList = []

theorem Pops.refl (c : Chan) : Pops c c [] := ⟨rfl, rfl, rfl, Or.inl rfl⟩

/-- The receive waiter a send pops. -/
def poppedS : SendBranch → List SigId
  | .handoff r => [r]
  | _ => []

/-- The send waiter a receive pops. -/
def poppedR : RecvBranch → List SigId
  | .fromQueue _ (some p) => [p]
  | .fromSender p => [p]
  | _ => []

theorem sendPre_pops {c c1 : Chan} {m b} (e : c.sendPre m = (c1, b)) :
    Pops c c1 (poppedS b) ∧ (poppedS b ≠ [] → c.recvBlocking = true) ∧
    ((b = .buffered ∨ b = .full) → c1.recvBlocking = false ∧ c.recvCount ≠ 0) := by
  unfold sendPre at e
  split at e
  · split at e <;> cases e <;> simp [poppedS, Pops.refl]
  · rename_i hrc
    split at e
    · rename_i c2 first heq; cases e
      obtain ⟨h1, h2, h3⟩ := nextRecv_some heq
      refine ⟨⟨by rw [h3], by rw [h3], by simpa [poppedS] using h2, Or.inl (by rw [h3])⟩, fun _ => h1, by simp⟩
    · rename_i c2 heq
      obtain ⟨h1, -, -, h4, h5, h6, h7⟩ := nextRecv_none heq
      have hp : Pops c c2 [] := by
        refine ⟨h5, h4, ?_, ?_⟩
        · cases hb : c.recvBlocking
          · rw [h6 hb]; rfl
          · simp [h7 hb]
        · cases hb : c.recvBlocking
          · rw [h6 hb]; exact Or.inl hb
          · exact Or.inr (h7 hb).2
      have hrc' : c.recvCount ≠ 0 := by simpa using hrc
      split at e <;> cases e
      · exact ⟨⟨hp.sc, hp.rc, hp.wl, hp.rb⟩, by simp [poppedS], fun _ => ⟨h1, hrc'⟩⟩
      · exact ⟨hp, by simp [poppedS], fun _ => ⟨h1, hrc'⟩⟩

theorem recvPre_pops {c c1 : Chan} {slot t ex b} (e : c.recvPre slot t ex = (c1, b)) :
    Pops c c1 (poppedR b) ∧ (poppedR b ≠ [] → c.recvBlocking = false) ∧
    (b = .empty → c1.recvBlocking = true ∧ c1.sendCount ≠ 0 ∧ c1.recvCount ≠ 0) := by
  unfold recvPre nextSend at e
  (repeat' (split at e)) <;> simp at e <;> (try obtain ⟨rfl, rfl⟩ := e)
  all_goals (refine ⟨⟨?_, ?_, ?_, ?_⟩, ?_, ?_⟩ <;> (try simp [poppedR]) <;> (try grind))

theorem cancel_true {c c1 : Chan} {r i} (e : c.cancel r i = (c1, true)) :
    i ∈ c.waitList ∧ c1.waitList = c.waitList.erase i ∧ c1.recvBlocking = c.recvBlocking ∧
    c1.sendCount = c.sendCount ∧ c1.recvCount = c.recvCount := by
  unfold cancel at e
  split at e <;> cases e
  simp_all

theorem drainCS_pops {c c1 : Chan} {q l n} (e : c.drainCS = some (c1, q, l, n)) :
    Pops c c1 l ∧ (l ≠ [] → c.recvBlocking = false) := by
  unfold drainCS popAllSenders at e
  split at e
  · cases e
  · split at e <;> simp at e <;> obtain ⟨rfl, -, rfl, -⟩ := e
    · exact ⟨⟨rfl, rfl, by simp, Or.inl rfl⟩, by simp⟩
    · rename_i hb
      exact ⟨⟨rfl, rfl, by simp, Or.inr rfl⟩, fun _ => by simpa using hb⟩

theorem closeCS_spec {c c1 : Chan} {l q} (e : c.closeCS = some (c1, l, q)) :
    l = c.waitList ∧ c1.waitList = [] := by
  unfold closeCS at e
  split at e
  · cases e
  · simp at e; obtain ⟨rfl, rfl, -⟩ := e; simp

theorem dropCS_spec (c : Chan) (r : Side) :
    (((c.dropCS r).2 = c.waitList ∧ (c.dropCS r).1.waitList = []) ∨
     ((c.dropCS r).2 = [] ∧ (c.dropCS r).1.waitList = c.waitList)) ∧
    (c.dropCS r).1.recvBlocking = c.recvBlocking ∧
    (((c.dropCS r).1.sendCount = 0 ∨ (c.dropCS r).1.recvCount = 0) →
      (c.sendCount = 0 ∨ c.recvCount = 0) ∨ (c.dropCS r).1.waitList = []) := by
  unfold dropCS terminateAll
  cases r <;> simp only <;> (repeat' split) <;> simp_all <;> omega

theorem cloneCS_spec (c : Chan) (r : Side) :
    (c.cloneCS r).waitList = c.waitList ∧ (c.cloneCS r).recvBlocking = c.recvBlocking ∧
    ((c.cloneCS r).sendCount = 0 → c.sendCount = 0) ∧ ((c.cloneCS r).recvCount = 0 → c.recvCount = 0) := by
  unfold cloneCS
  cases r <;> simp only <;> split <;> simp_all

end Chan

theorem CoreP.pops {c c1 : Chan} {sg sg' : List Sig} {l : List SigId} (h : CoreP c sg) (t : Pops c c1 l)
    (hpt : ∀ j : Nat, (j ∉ l ∧ sg'[j]? = sg[j]?) ∨
              ((j ∈ l ∨ j ∉ c.waitList) ∧ ∀ g', sg'[j]? = some g' → Good g')) : CoreP c1 sg' := by
  have hnd := h.nodup
  rw [t.wl] at hnd
  refine h.shrink ?_ t.rb ?_ ?_
  · rw [t.wl]; exact List.sublist_append_right _ _
  · intro h0; rw [t.sc, t.rc] at h0; exact Or.inl h0
  · intro j
    rcases hpt j with ⟨h1, h2⟩ | ⟨h1, h2⟩
    · refine Or.inl ⟨h2, ?_⟩
      rw [t.wl]; intro hj
      rcases List.mem_append.mp hj with hj | hj
      · exact absurd hj h1
      · exact hj
    · refine Or.inr ⟨?_, h2⟩
      rcases h1 with h1 | h1
      · intro hj
        exact (List.nodup_append.mp hnd).2.2 j h1 j hj rfl
      · intro hj; apply h1; rw [t.wl]; exact List.mem_append_right _ hj


/-! ### State-level wrappers (the new channel is given up to a provable equation) -/

theorem Core.pops {s s' : State} {c1 : Chan} {l : List SigId} (h : Core s) (t : Pops s.chan c1 l)
    (hc : s'.chan = c1)
    (hpt : ∀ j : Nat, (j ∉ l ∧ s'.sigs[j]? = s.sigs[j]?) ∨
              ((j ∈ l ∨ j ∉ s.chan.waitList) ∧ ∀ g', s'.sigs[j]? = some g' → Good g')) : Core s' := by
  show CoreP s'.chan s'.sigs
  rw [hc]; exact CoreP.pops h t hpt

theorem Core.upd {s s' : State} (h : Core s) (hc : s'.chan = s.chan)
    (hpt : ∀ j : Nat, s'.sigs[j]? = s.sigs[j]? ∨
              (j ∉ s.chan.waitList ∧ ∀ g', s'.sigs[j]? = some g' → Good g')) : Core s' := by
  show CoreP s'.chan s'.sigs
  rw [hc]; exact CoreP.upd h hpt

theorem Core.same {s s' : State} (h : Core s) (hc : s'.chan = s.chan)
    (hpt : ∀ j : Nat, s'.sigs[j]? = s.sigs[j]?) : Core s' :=
  h.upd hc (fun j => Or.inl (hpt j))

theorem Core.push {s s' : State} {f : Nat} {g' : Sig} (h : Core s)
    (hwl : s'.chan.waitList = s.chan.waitList ++ [f])
    (hrb : s'.chan.recvBlocking = s.chan.recvBlocking)
    (hs : s'.chan.sendCount ≠ 0) (hr : s'.chan.recvCount ≠ 0)
    (hf : f ∉ s.chan.waitList)
    (hnew : s'.sigs[f]? = some g') (hl : Listed s'.chan g') (hok : SigOK g') (hax : SigAux g')
    (hpt : ∀ j : Nat, j ≠ f → s'.sigs[j]? = s.sigs[j]?) : Core s' :=
  CoreP.push h hwl hrb hs hr hf hnew hl hok hax hpt

/-! ### Waiters that leave the list stay consistent -/

/-- Unfold the per-waiter predicates everywhere and let `grind` finish. -/
macro "sig_unfold" : tactic =>
  `(tactic| (simp only [good_iff, sigOK_iff, sigAux_iff, listed_iff, Active, Option.isSome_iff_ne_none] at *))

/-- ... and finish with `simp` and `grind`. -/
macro "sig_solve" : tactic =>
  `(tactic| (sig_unfold <;> (try simp) <;> (try grind)))

theorem good_deliver {c : Chan} {g : Sig} {m : Msg} (hl : Listed c g) (hr : c.recvBlocking = true)
    (ho : SigOK g) : Good { g with slot := some m, claimed := true } := by
  sig_unfold; simp [hr] at hl ⊢; grind

theorem good_claim {c : Chan} {g : Sig} (hl : Listed c g) (hr : c.recvBlocking = false)
    (ho : SigOK g) : Good { g with slot := none, claimed := true } := by
  sig_unfold; simp [hr] at hl ⊢; grind

theorem good_take {c : Chan} {g : Sig} (hl : Listed c g) (hr : c.recvBlocking = false)
    (ho : SigOK g) : Good { g with slot := none, st := .ok } := by
  sig_unfold; simp [hr] at hl ⊢; grind

theorem good_term {c : Chan} {g : Sig} (hl : Listed c g) (ho : SigOK g) : Good { g with st := .term } := by
  sig_unfold; simp at hl ⊢; grind


/-- One unlisted waiter is rewritten. -/
theorem Core.set {s s' : State} {i : Nat} {g : Sig} (h : Core s) (hc : s'.chan = s.chan)
    (hg : s.sigs[i]? = some g) (hoff : ¬ Active g) (hnew : ∀ g', s'.sigs[i]? = some g' → Good g')
    (hpt : ∀ j : Nat, j ≠ i → s'.sigs[j]? = s.sigs[j]?) : Core s' := by
  refine h.upd hc ?_
  intro j
  by_cases hj : j = i
  · subst hj
    exact Or.inr ⟨h.not_mem_of_off hg hoff, hnew⟩
  · exact Or.inl (hpt j hj)

/-- A listed waiter is rewritten and stays listed. -/
theorem Core.relist {s s' : State} {i : Nat} {g g' : Sig} (h : Core s) (hc : s'.chan = s.chan)
    (hg : s.sigs[i]? = some g) (hnew : s'.sigs[i]? = some g')
    (hl : Listed s.chan g → Listed s.chan g') (hact : Active g' → Active g) (hok : SigOK g') (hax : SigAux g')
    (hpt : ∀ j : Nat, j ≠ i → s'.sigs[j]? = s.sigs[j]?) : Core s' := by
  show CoreP s'.chan s'.sigs
  rw [hc]
  refine ⟨h.half, h.nodup, ?_, ?_, ?_, ?_⟩
  · intro j hj
    by_cases e : j = i
    · subst e
      obtain ⟨g0, hg0, hl0⟩ := h.listed j hj
      rw [hg] at hg0; cases hg0
      exact ⟨g', hnew, hl hl0⟩
    · rw [hpt j e]; exact h.listed j hj
  · intro j g0 hg0 ha
    by_cases e : j = i
    · subst e; rw [hnew] at hg0; cases hg0
      exact h.unlisted j g hg (hact ha)
    · rw [hpt j e] at hg0; exact h.unlisted j g0 hg0 ha
  · intro j g0 hg0
    by_cases e : j = i
    · subst e; rw [hnew] at hg0; cases hg0; exact hok
    · rw [hpt j e] at hg0; exact h.sigOK j g0 hg0
  · intro j g0 hg0
    by_cases e : j = i
    · subst e; rw [hnew] at hg0; cases hg0; exact hax
    · rw [hpt j e] at hg0; exact h.aux j g0 hg0

/-- A waiter is created, unlisted. -/
theorem Core.new {s s' : State} {g' : Sig} (h : Core s) (hc : s'.chan = s.chan)
    (hnew : s'.sigs[s.sigs.length]? = some g') (hgood : Good g')
    (hpt : ∀ j : Nat, j ≠ s.sigs.length → s'.sigs[j]? = s.sigs[j]?) : Core s' := by
  refine h.upd hc ?_
  intro j
  by_cases hj : j = s.sigs.length
  · subst hj
    refine Or.inr ⟨h.not_mem_len, ?_⟩
    intro g'' hg''; rw [hnew] at hg''; cases hg''; exact hgood
  · exact Or.inl (hpt j hj)

/-- A listed waiter withdraws (`cancel_*_signal` succeeded). -/
theorem Core.cancel {s s' : State} {i : Nat} (h : Core s)
    (hwl : s'.chan.waitList = s.chan.waitList.erase i)
    (hrb : s'.chan.recvBlocking = s.chan.recvBlocking)
    (hsc : s'.chan.sendCount = s.chan.sendCount) (hrc : s'.chan.recvCount = s.chan.recvCount)
    (hnew : ∀ g'', s'.sigs[i]? = some g'' → Good g'')
    (hpt : ∀ j : Nat, j ≠ i → s'.sigs[j]? = s.sigs[j]?) : Core s' := by
  refine CoreP.shrink h ?_ (Or.inl hrb) ?_ ?_
  · rw [hwl]; exact List.erase_sublist
  · intro h0; rw [hsc, hrc] at h0; exact Or.inl h0
  · intro j
    by_cases hj : j = i
    · subst hj
      refine Or.inr ⟨?_, hnew⟩
      rw [hwl, h.nodup.mem_erase_iff]; simp
    · refine Or.inl ⟨hpt j hj, ?_⟩
      intro hm; rw [hwl]; exact (List.mem_erase_of_ne hj).mpr hm

/-- `terminate_signals` on the whole list (or on nothing). -/
theorem Core.terminate {s s' : State} {l : List SigId} (h : Core s)
    (hl : (l = s.chan.waitList ∧ s'.chan.waitList = []) ∨ (l = [] ∧ s'.chan.waitList = s.chan.waitList))
    (hrb : s'.chan.recvBlocking = s.chan.recvBlocking)
    (hhalf : (s'.chan.sendCount = 0 ∨ s'.chan.recvCount = 0) →
      (s.chan.sendCount = 0 ∨ s.chan.recvCount = 0) ∨ s'.chan.waitList = [])
    (hpt : ∀ j : Nat, s'.sigs[j]? =
      if j ∈ l then (s.sigs[j]?).map (fun g => { g with st := .term }) else s.sigs[j]?) : Core s' := by
  refine CoreP.shrink h ?_ (Or.inl hrb) hhalf ?_
  · rcases hl with ⟨-, h2⟩ | ⟨-, h2⟩ <;> rw [h2] <;> simp
  · intro j
    rcases hl with ⟨h1, h2⟩ | ⟨h1, h2⟩
    · by_cases hj : j ∈ l
      · refine Or.inr ⟨by simp [h2], ?_⟩
        intro g' hg'
        rw [hpt j, if_pos hj] at hg'
        obtain ⟨g, hg, hl⟩ := h.listed j (h1 ▸ hj)
        simp [hg] at hg'; subst hg'
        exact good_term hl (h.sigOK _ _ hg)
      · refine Or.inl ⟨by rw [hpt j, if_neg hj], ?_⟩
        intro hm; exact absurd (h1 ▸ hm) hj
    · refine Or.inl ⟨by rw [hpt j, h1]; simp, ?_⟩
      intro hm; rw [h2]; exact hm

theorem Core.nil_of_dead {s : State} (h : Core s) (hd : ∀ (i : Nat) (g : Sig), s.sigs[i]? = some g → g.alive = false) :
    s.chan.waitList = [] := by
  cases hw : s.chan.waitList with
  | nil => rfl
  | cons i l =>
    obtain ⟨g, hg, hl⟩ := h.listed i (by simp [hw])
    have := hd i g hg
    rw [hl.alive] at this; cases this

/-! ### The shared bodies of the receive and send families -/

theorem recvStep_core (s : State) (t e : Bool) (h : Core s) :
    Core (recvStep s t e).1 ∧
    (∀ f : Nat, f ∉ s.chan.waitList →
        f ∉ (recvStep s t e).1.chan.waitList ∧ (recvStep s t e).1.sigs[f]? = s.sigs[f]?) ∧
    ((recvStep s t e).2 = .empty → (recvStep s t e).1.chan.recvBlocking = true ∧
        (recvStep s t e).1.chan.sendCount ≠ 0 ∧ (recvStep s t e).1.chan.recvCount ≠ 0) := by
  unfold recvStep
  split <;> rename_i heq
  · obtain ⟨hp, hrb, -⟩ := recvPre_pops heq
    split
    · simp only [poppedR] at hp
      refine ⟨Core.pops h hp (by simp) (fun j => Or.inl ⟨by simp, by simp⟩), ?_, by simp⟩
      intro f hf
      have := hp.wl
      simp_all
    · rename_i p
      simp only [poppedR] at hp hrb
      have hpm : p ∈ s.chan.waitList := by rw [hp.wl]; simp
      obtain ⟨g, hg, hl⟩ := h.listed p hpm
      refine ⟨Core.pops h hp (by simp) ?_, ?_, by simp⟩
      · intro j
        by_cases hj : j = p
        · subst hj
          refine Or.inr ⟨Or.inl (by simp), ?_⟩
          intro g' hg'
          simp [takeFrom_get, hg] at hg'
          subst hg'
          exact good_take hl (hrb (by simp)) (h.sigOK _ _ hg)
        · refine Or.inl ⟨by simpa using hj, ?_⟩
          have : ¬ p = j := fun e => hj e.symm
          simp [takeFrom_get, this]
      · intro f hf
        have := hp.wl
        have hfp : ¬ p = f := by rintro rfl; exact hf hpm
        simp_all [takeFrom_get]
  · rename_i p
    obtain ⟨hp, hrb, -⟩ := recvPre_pops heq
    simp only [poppedR] at hp hrb
    have hpm : p ∈ s.chan.waitList := by rw [hp.wl]; simp
    obtain ⟨g, hg, hl⟩ := h.listed p hpm
    refine ⟨Core.pops h hp (by simp) ?_, ?_, by simp⟩
    · intro j
      by_cases hj : j = p
      · subst hj
        refine Or.inr ⟨Or.inl (by simp), ?_⟩
        intro g' hg'
        simp [claimFrom_get, hg] at hg'
        subst hg'
        exact good_claim hl (hrb (by simp)) (h.sigOK _ _ hg)
      · refine Or.inl ⟨by simpa using hj, ?_⟩
        have : ¬ p = j := fun e => hj e.symm
        simp [claimFrom_get, this]
    · intro f hf
      have := hp.wl
      have hfp : ¬ p = f := by rintro rfl; exact hf hpm
      simp_all [claimFrom_get]
  · rename_i c1 b hb1 hb2
    obtain ⟨hp, -, hemp⟩ := recvPre_pops heq
    have hl : poppedR b = [] := by
      cases b <;> simp_all [poppedR]
    rw [hl] at hp
    refine ⟨Core.pops h hp (by simp) (fun j => Or.inl ⟨by simp, by simp⟩), ?_, by simpa using hemp⟩
    intro f hf
    have := hp.wl
    simp_all


theorem sendStep_core (s : State) (m : Msg) (o : Bool) (reg : Option Sig) (h : Core s)
    (hS : s.chan.recvCount ≠ 0 → s.chan.sendCount ≠ 0)
    (hreg : ∀ g, reg = some g → g.role = .send ∧ g.kind ≠ .async ∧ g.st = .pending ∧ g.alive = true ∧
              g.claimed = false ∧ g.fut = .zero) :
    Core (sendStep s m o reg).1 := by
  unfold sendStep
  simp only
  split <;> rename_i heq
  · exact h.same (by simp) (by simp)
  · exact h.same (by simp) (by simp)
  · rename_i c1 r
    obtain ⟨hp, hrb, -⟩ := sendPre_pops heq
    simp only [poppedS] at hp hrb
    have hpm : r ∈ s.chan.waitList := by rw [hp.wl]; simp
    obtain ⟨g, hg, hl⟩ := h.listed r hpm
    refine Core.pops h hp (by simp) ?_
    intro j
    by_cases hj : j = r
    · subst hj
      refine Or.inr ⟨Or.inl (by simp), ?_⟩
      intro g' hg'
      simp [deliverTo_get, hg] at hg'
      subst hg'
      exact good_deliver hl (hrb (by simp)) (h.sigOK _ _ hg)
    · refine Or.inl ⟨by simpa using hj, ?_⟩
      have : ¬ r = j := fun e => hj e.symm
      simp [deliverTo_get, this]
  · obtain ⟨hp, -, -⟩ := sendPre_pops heq
    simp only [poppedS] at hp
    exact Core.pops h hp (by simp) (fun j => Or.inl ⟨by simp, by simp⟩)
  · rename_i c1
    obtain ⟨hp, -, hf⟩ := sendPre_pops heq
    obtain ⟨hrb1, hrc⟩ := hf (Or.inr rfl)
    simp only [poppedS] at hp
    have h1 : CoreP c1 s.sigs := CoreP.pops h hp (fun j => Or.inl ⟨by simp, rfl⟩)
    split
    · exact Core.pops h hp (by simp) (fun j => Or.inl ⟨by simp, by simp⟩)
    · rename_i g0
      obtain ⟨hg1, hg2, hg3, hg4, hg5, hg6⟩ := hreg g0 rfl
      show CoreP _ _
      refine CoreP.push (f := s.sigs.length) (g' := { g0 with slot := some m, orig := some m }) h1
        (by simp [pushWaiter, newSig]) (by simp [pushWaiter, newSig]) ?_ ?_ h1.not_mem_len
        (by simp [newSig]) ?_ ?_ ?_ ?_
      · simpa [pushWaiter, newSig, hp.sc] using hS hrc
      · simpa [pushWaiter, newSig, hp.rc] using hrc
      · sig_unfold; simp [pushWaiter, newSig, hrb1]; grind
      · sig_unfold; simp; grind
      · sig_unfold; simp; grind
      · intro j hj
        simp [newSig, append_single_get, hj]


/-! ### Every label -/

theorem sendCount_ne {s : State} (h : CountInv s) (hl : s.liveS ≠ 0) (hr : s.chan.recvCount ≠ 0) :
    s.chan.sendCount ≠ 0 := by
  unfold CountInv at h
  cases hc : s.closedOnce
  · rw [(h.1 hc).1]; exact hl
  · exact absurd (h.2 hc).2 hr

/-- All other waiters are untouched by a `setSig`-like update at `i`. -/
macro "sig_ne" i:term : tactic =>
  `(tactic| (intro j hj; have hj' : ¬ $i = j := fun e => hj e.symm
             simp [hj, hj', append_single_get, finalize_get, deliverTo_get]))

theorem core_send {v : Variant} {s : State} {m kind opt} {p : State × Res} (h : Struct' s)
    (e : step v s (.send m kind opt) = some p) : Core p.1 := by
  simp only [step] at e
  step_leaves e
  rename_i hen
  refine sendStep_core _ _ _ _ h.core (sendCount_ne h.base.counts (by grind)) ?_
  intro g hg; cases hg; simp; grind

theorem core_trySend {v : Variant} {s : State} {m opt rt} {p : State × Res} (h : Struct' s)
    (e : step v s (.trySend m opt rt) = some p) : Core p.1 := by
  simp only [step] at e
  have := sendStep_core s m opt none h.core
  step_leaves e <;> (try rename_i heq) <;> (try rw [heq] at this) <;> apply this <;>
    first | exact sendCount_ne h.base.counts (by grind) | simp

theorem core_recv {v : Variant} {s : State} {kind ex} {p : State × Res} (h : Struct' s)
    (e : step v s (.recv kind ex) = some p) : Core p.1 := by
  simp only [step] at e
  obtain ⟨h1, -, h3⟩ := recvStep_core s (kind == .timed) ex h.core
  step_leaves e
  · rename_i heq
    obtain ⟨hb, hs, hr⟩ := h3 heq
    refine Core.push (f := (recvStep s (kind == .timed) ex).1.sigs.length)
      (g' := { role := .recv, kind := kind }) h1 (by simp [pushWaiter, newSig]) (by simp [pushWaiter, newSig])
      (by simpa [pushWaiter, newSig] using hs) (by simpa [pushWaiter, newSig] using hr)
      h1.not_mem_len (by simp [newSig]) ?_ ?_ ?_ ?_
    · sig_unfold; simp [pushWaiter, newSig, hb]; grind
    · sig_solve
    · sig_solve
    · intro j hj; simp [newSig, append_single_get, hj]
  · exact h1

theorem core_tryRecv {v : Variant} {s : State} {rt} {p : State × Res} (h : Struct' s)
    (e : step v s (.tryRecv rt) = some p) : Core p.1 := by
  simp only [step] at e
  step_leaves e
  exact (recvStep_core s false false h.core).1

theorem core_drain {v : Variant} {s : State} {p : State × Res} (h : Struct' s)
    (e : step v s .drain = some p) : Core p.1 := by
  simp only [step] at e
  have hc := h.core
  step_leaves e
  · exact hc
  · rename_i c1 qs senders n heq
    obtain ⟨hp, hrb⟩ := drainCS_pops heq
    refine Core.pops hc hp (by simp) ?_
    intro j
    by_cases hj : j ∈ senders
    · refine Or.inr ⟨Or.inl hj, ?_⟩
      intro g' hg'
      obtain ⟨g, hg, hl⟩ := hc.listed j (by rw [hp.wl]; exact List.mem_append_left _ hj)
      simp [foldl_takeFrom_get, hj, hg] at hg'
      subst hg'
      exact good_take hl (hrb (by rintro rfl; cases hj)) (hc.sigOK _ _ hg)
    · exact Or.inl ⟨hj, by simp [foldl_takeFrom_get, hj]⟩


theorem core_complete {v : Variant} {s : State} {i} {p : State × Res} (h : Struct' s)
    (e : step v s (.complete i) = some p) : Core p.1 := by
  simp only [step] at e
  have hc := h.core
  split at e
  · cases e
  · rename_i g hg
    split at e
    · cases e
    · rename_i hen
      have hso := hc.sigOK _ _ hg
      have hsa := hc.aux _ _ hg
      have hoff : ¬ Active g := by simp [Active]; grind
      have hgood : Good { g with alive := false, slot := none } := by sig_solve
      step_leaves e
      all_goals
        exact Core.set hc (by simp) hg hoff
          (by intro g2 hg2; simp [hg] at hg2; subst hg2; exact hgood) (by sig_ne i)

theorem core_expire {v : Variant} {s : State} {i} {p : State × Res} (h : Struct' s)
    (e : step v s (.expire i) = some p) : Core p.1 := by
  simp only [step] at e
  have hc := h.core
  split at e
  · cases e
  · rename_i g hg
    split at e
    · cases e
    · rename_i hen
      split at e
      · cases e; exact hc
      · rename_i c1 heq
        obtain ⟨hi, hwl, hrb, hsc, hrc⟩ := cancel_true heq
        obtain ⟨g0, hg0, hl⟩ := hc.listed i hi
        rw [hg] at hg0; cases hg0
        have hso := hc.sigOK _ _ hg
        have hsa := hc.aux _ _ hg
        have hgood : Good { g with alive := false, slot := none } := by sig_solve
        step_leaves e
        all_goals refine Core.cancel (i := i) hc ?_ ?_ ?_ ?_ ?_ ?_
        all_goals first
          | (simpa using hwl) | (simpa using hrb) | (simpa using hsc) | (simpa using hrc)
          | (intro g2 hg2; simp [hg] at hg2; subst hg2; exact hgood)
          | (sig_ne i)

theorem core_finalize {v : Variant} {s : State} {i} {p : State × Res} (h : Struct' s)
    (e : step v s (.finalize i) = some p) : Core p.1 := by
  simp only [step] at e
  have hc := h.core
  split at e
  · cases e
  · rename_i g hg
    split at e
    · cases e
    · rename_i hen
      have hso := hc.sigOK _ _ hg
      have hsa := hc.aux _ _ hg
      have hoff : ¬ Active g := by simp [Active]; grind
      have hgood : Good { g with claimed := false, st := .ok } := by sig_solve
      cases e
      exact Core.set hc (by simp) hg hoff
        (by intro g2 hg2; simp [finalize_get, hg] at hg2; subst hg2; exact hgood) (by sig_ne i)

theorem core_newSendFut {v : Variant} {s : State} {m} {p : State × Res} (h : Struct' s)
    (e : step v s (.newSendFut m) = some p) : Core p.1 := by
  simp only [step] at e
  step_leaves e
  refine Core.new (g' := { role := .send, kind := .async, slot := some m, orig := some m }) h.core
    (by simp [newSig]) (by simp [newSig]) (by sig_solve) ?_
  intro j hj; simp [newSig, append_single_get, hj]

theorem core_newRecvFut {v : Variant} {s : State} {st} {p : State × Res} (h : Struct' s)
    (e : step v s (.newRecvFut st) = some p) : Core p.1 := by
  simp only [step] at e
  step_leaves e
  refine Core.new (g' := { role := .recv, kind := .async, isStream := st }) h.core
    (by simp [newSig]) (by simp [newSig]) (by sig_solve) ?_
  intro j hj; simp [newSig, append_single_get, hj]

theorem core_clone {v : Variant} {s : State} {side} {p : State × Res} (h : Struct' s)
    (e : step v s (.clone side) = some p) : Core p.1 := by
  simp only [step] at e
  have hc := h.core
  cases side <;> simp only at e <;> step_leaves e
  · obtain ⟨h1, h2, h3, h4⟩ := cloneCS_spec s.chan .send
    exact CoreP.chan hc h1 h2 h3 h4
  · obtain ⟨h1, h2, h3, h4⟩ := cloneCS_spec s.chan .recv
    exact CoreP.chan hc h1 h2 h3 h4

theorem core_close {v : Variant} {s : State} {p : State × Res} (h : Struct' s)
    (e : step v s .close = some p) : Core p.1 := by
  simp only [step] at e
  have hc := h.core
  step_leaves e
  · exact hc
  · rename_i c1 l q heq
    obtain ⟨h1, h2⟩ := closeCS_spec heq
    have h3 : c1.recvBlocking = s.chan.recvBlocking := by
      unfold closeCS at heq; split at heq <;> simp at heq; obtain ⟨rfl, -⟩ := heq; rfl
    refine Core.terminate (l := l) hc (Or.inl ⟨h1, by simpa using h2⟩) (by simpa using h3)
      (fun _ => Or.inr (by simpa using h2)) ?_
    intro j; simp [terminateList_get]


theorem core_dropHandle {v : Variant} {s : State} {side} {p : State × Res} (h : Struct' s)
    (e : step v s (.dropHandle side) = some p) : Core p.1 := by
  simp only [step] at e
  have hc := h.core
  obtain ⟨hd1, hd2, hd3⟩ := dropCS_spec s.chan side
  -- when the last handle of all goes nobody is alive, so nobody waits
  have hnil : ∀ r : Role, s.aliveSigs r = 0 → (match r with | .send => s.liveR | .recv => s.liveS) = 0 →
      s.chan.waitList = [] := by
    intro r h1 h2
    apply hc.nil_of_dead
    intro i g hg
    cases ha : g.alive
    · rfl
    · exfalso
      have hb := h.base.borrow i g hg ha
      have hz := aliveSigs_zero h1 i g hg ha
      cases r <;> cases hr : g.role <;> simp_all
  cases side <;> simp only at e <;> step_leaves e
  all_goals rename_i hen hsum
  all_goals simp at hen hsum
  · have hn := hnil .send (by omega) (by simp; omega)
    refine Core.terminate (l := (s.chan.dropCS .send).2) hc (Or.inl ⟨?_, by simp⟩) ?_ (fun _ => Or.inr (by simp)) ?_
    · rcases hd1 with ⟨h1, -⟩ | ⟨h1, -⟩ <;> simp [h1, hn]
    · simpa using hd2
    · intro j; simp [terminateList_get]
  · refine Core.terminate (l := (s.chan.dropCS .send).2) hc ?_ ?_ ?_ ?_
    · simpa using hd1
    · simpa using hd2
    · simpa using hd3
    · intro j; simp [terminateList_get]
  · have hn := hnil .recv (by omega) (by simp; omega)
    refine Core.terminate (l := (s.chan.dropCS .recv).2) hc (Or.inl ⟨?_, by simp⟩) ?_ (fun _ => Or.inr (by simp)) ?_
    · rcases hd1 with ⟨h1, -⟩ | ⟨h1, -⟩ <;> simp [h1, hn]
    · simpa using hd2
    · intro j; simp [terminateList_get]
  · refine Core.terminate (l := (s.chan.dropCS .recv).2) hc ?_ ?_ ?_ ?_
    · simpa using hd1
    · simpa using hd2
    · simpa using hd3
    · intro j; simp [terminateList_get]


/-- Close a `Core.set` obligation about the rewritten waiter `f`. -/
macro "set_good" hg:ident : tactic =>
  `(tactic| (intro g2 hg2; simp [finalize_get, deliverTo_get, $hg:ident] at hg2; subst hg2; sig_solve))

theorem core_pollSend {v : Variant} {s : State} {f w} {p : State × Res} (h : Struct' s)
    (e : step v s (.pollSend f w) = some p) : Core p.1 := by
  simp only [step] at e
  have hc := h.core
  split at e
  · cases e
  · rename_i g hg
    split at e
    · cases e
    · rename_i hen
      simp at hen
      obtain ⟨hal, hki, hro⟩ := hen
      have hso := hc.sigOK _ _ hg
      have hsa := hc.aux _ _ hg
      split at e
      · -- state Zero
        rename_i hfut
        have hoff : ¬ Active g := by simp [Active]; grind
        have hnl : f ∉ s.chan.waitList := hc.not_mem_of_off hg hoff
        split at e
        · cases e
        · rename_i m hslot
          split at e <;> rename_i heq <;> cases e
          · exact Core.set hc (by simp) hg hoff (by set_good hg) (by sig_ne f)
          · exact Core.set hc (by simp) hg hoff (by set_good hg) (by sig_ne f)
          · rename_i c1 r
            obtain ⟨hp, hrb, -⟩ := sendPre_pops heq
            simp only [poppedS] at hp hrb
            have hpm : r ∈ s.chan.waitList := by rw [hp.wl]; simp
            obtain ⟨gr, hgr, hl⟩ := hc.listed r hpm
            have hrf : r ≠ f := by rintro rfl; exact hnl hpm
            refine Core.pops hc hp (by simp) ?_
            intro j
            by_cases hj : j = r
            · subst hj
              refine Or.inr ⟨Or.inl (by simp), ?_⟩
              intro g' hg'
              simp [deliverTo_get, hgr, Ne.symm hrf] at hg'
              subst hg'
              exact good_deliver hl (hrb (by simp)) (hc.sigOK _ _ hgr)
            · have hj1 : ¬ r = j := fun e => hj e.symm
              by_cases hj2 : j = f
              · subst hj2
                refine Or.inr ⟨Or.inr hnl, ?_⟩
                simp only [deliverTo_get, if_neg hj1]
                set_good hg
              · have hj3 : ¬ f = j := fun e => hj2 e.symm
                refine Or.inl ⟨by simpa using hj, ?_⟩
                simp [deliverTo_get, hj1, hj3]
          · rename_i c1
            obtain ⟨hp, -, -⟩ := sendPre_pops heq
            simp only [poppedS] at hp
            refine Core.pops hc hp (by simp) ?_
            intro j
            by_cases hj2 : j = f
            · subst hj2
              refine Or.inr ⟨Or.inr hnl, ?_⟩
              set_good hg
            · have hj3 : ¬ f = j := fun e => hj2 e.symm
              refine Or.inl ⟨by simp, ?_⟩
              simp [hj3]
          · rename_i c1
            obtain ⟨hp, -, hf⟩ := sendPre_pops heq
            obtain ⟨hrb1, hrc⟩ := hf (Or.inr rfl)
            simp only [poppedS] at hp
            have h1 : CoreP c1 s.sigs := CoreP.pops hc hp (fun j => Or.inl ⟨by simp, rfl⟩)
            have hsc : s.chan.sendCount ≠ 0 :=
              sendCount_ne h.base.counts ((h.base.borrow f g hg hal).1 hro) hrc
            have hnl1 : f ∉ c1.waitList := by
              intro hm; apply hnl; rw [hp.wl]; simpa using hm
            show CoreP _ _
            refine CoreP.push (f := f) (g' := { g with fut := .waiting, waker := some w }) h1
              (by simp [pushWaiter]) (by simp [pushWaiter]) ?_ ?_ hnl1
              (by simp [hg]) ?_ ?_ ?_ ?_
            · simpa [pushWaiter, hp.sc] using hsc
            · simpa [pushWaiter, hp.rc] using hrc
            · sig_unfold; simp [pushWaiter, hrb1]; grind
            · sig_solve
            · sig_solve
            · sig_ne f
      · -- state Waiting
        rename_i hfut
        split at e
        · rename_i hst
          have hoff : ¬ Active g := by simp [Active]; grind
          cases e
          exact Core.set hc (by simp) hg hoff (by set_good hg) (by sig_ne f)
        · rename_i hst
          have hoff : ¬ Active g := by simp [Active]; grind
          split at e <;> cases e
          · exact Core.set hc (by simp) hg hoff (by set_good hg) (by sig_ne f)
          · exact Core.set hc (by simp) hg hoff (by set_good hg) (by sig_ne f)
        · rename_i hst
          split at e
          · cases e; exact hc
          · split at e
            · cases e
              split
              · refine Core.relist (g' := { g with waker := some w }) hc (by simp) hg (by simp [hg]) ?_ ?_ ?_ ?_
                  (by sig_ne f)
                all_goals sig_solve
              · exact hc
            · cases e; exact hc
      · cases e; exact hc


theorem core_dropSendFut {v : Variant} {s : State} {f} {p : State × Res} (h : Struct' s)
    (e : step v s (.dropSendFut f) = some p) : Core p.1 := by
  simp only [step] at e
  have hc := h.core
  split at e
  · cases e
  · rename_i g hg
    split at e
    · cases e
    · rename_i hen
      simp at hen
      obtain ⟨hal, hki, hro⟩ := hen
      have hso := hc.sigOK _ _ hg
      have hsa := hc.aux _ _ hg
      step_leaves e
      all_goals first
        | exact hc
        | (refine Core.set hc (by simp) hg (by simp [Active]; grind) (by set_good hg) (by sig_ne f); done)
        | (obtain ⟨hi, hwl, hrb, hsc, hrc⟩ := cancel_true (by assumption)
           obtain ⟨g0, hg0, hl⟩ := hc.listed f hi
           rw [hg] at hg0; cases hg0
           refine Core.cancel (i := f) hc ?_ ?_ ?_ ?_ ?_ ?_
           all_goals first
             | (simpa using hwl) | (simpa using hrb) | (simpa using hsc) | (simpa using hrc)
             | (set_good hg)
             | (sig_ne f))

theorem core_dropRecvFut {v : Variant} {s : State} {f} {p : State × Res} (h : Struct' s)
    (e : step v s (.dropRecvFut f) = some p) : Core p.1 := by
  simp only [step] at e
  have hc := h.core
  split at e
  · cases e
  · rename_i g hg
    split at e
    · cases e
    · rename_i hen
      simp at hen
      obtain ⟨hal, hki, hro⟩ := hen
      have hso := hc.sigOK _ _ hg
      have hsa := hc.aux _ _ hg
      step_leaves e
      all_goals first
        | exact hc
        | (refine Core.set hc (by simp) hg (by simp [Active]; grind) (by set_good hg) (by sig_ne f); done)
        | (obtain ⟨hi, hwl, hrb, hsc, hrc⟩ := cancel_true (by assumption)
           obtain ⟨g0, hg0, hl⟩ := hc.listed f hi
           rw [hg] at hg0; cases hg0
           refine Core.cancel (i := f) hc ?_ ?_ ?_ ?_ ?_ ?_
           all_goals first
             | (simpa using hwl) | (simpa using hrb) | (simpa using hsc) | (simpa using hrc)
             | (set_good hg)
             | (sig_ne f))


/-- What re-arming gives, in a variant that does re-arm (not D3). -/
theorem rearm_spec {v : Variant} {g g' : Sig} (hv : v.streamRearm = true) (h : rearm v g = some g')
    (ho : SigOK g) (ha : SigAux g) (hk : g.kind = .async) (hr : g.role = .recv) (hal : g.alive = true) :
    SigOK g' ∧ SigAux g' ∧ g'.role = .recv ∧ g'.kind = .async ∧ g'.alive = true ∧
    (g'.fut = .zero → g'.st = .pending ∧ g'.slot = none ∧ g'.claimed = false ∧ g.fut ≠ .waiting) ∧
    (g'.fut ≠ .zero → g' = g) := by
  unfold rearm at h
  split at h
  · rename_i hd
    simp only [hv, if_true] at h
    split at h
    · cases h
      refine ⟨?_, ?_, hr, hk, hal, ?_, ?_⟩ <;> sig_solve
    · cases h
  · cases h
    refine ⟨ho, ha, hr, hk, hal, ?_, fun _ => rfl⟩
    intro hz; sig_unfold; grind

theorem core_pollRecv {v : Variant} {s : State} {f w} {p : State × Res} (hv : v.streamRearm = true)
    (h : Struct' s) (e : step v s (.pollRecv f w) = some p) : Core p.1 := by
  simp only [step] at e
  simp only [hv, ↓reduceIte] at e
  have hc := h.core
  split at e
  · cases e
  · rename_i g0 hg
    split at e
    · cases e
    · rename_i hen
      simp at hen
      obtain ⟨hal0, hki0, hro0⟩ := hen
      split at e
      · cases e; exact hc
      · split at e
        · cases e; exact hc
        · rename_i g hre
          obtain ⟨hso, hsa, hro, hki, hal, hz, hnz⟩ :=
            rearm_spec hv hre (hc.sigOK _ _ hg) (hc.aux _ _ hg) hki0 hro0 hal0
          split at e
          · -- state Zero (possibly a re-armed stream)
            rename_i hfut
            obtain ⟨hst, hsl, hcl, hnw⟩ := hz hfut
            have hoff : ¬ Active g0 := by simp [Active]; grind
            have hnl : f ∉ s.chan.waitList := hc.not_mem_of_off hg hoff
            obtain ⟨h1, h2, h3⟩ := recvStep_core s false false hc
            obtain ⟨hnl1, hg1⟩ := h2 f hnl
            rw [hg] at hg1
            split at e
            · rename_i heq
              cases e
              obtain ⟨hb, hs, hr⟩ := h3 heq
              refine Core.push (f := f) (g' := { g with fut := .waiting, waker := some w }) h1
                (by simp [pushWaiter]) (by simp [pushWaiter]) (by simpa [pushWaiter] using hs)
                (by simpa [pushWaiter] using hr) hnl1 (by simp [hg1]) ?_ ?_ ?_ (by sig_ne f)
              · sig_unfold; simp [pushWaiter, hb]; grind
              · sig_solve
              · sig_solve
            · cases e
              (repeat' split) <;>
                exact Core.set h1 (by simp) hg1 hoff (by set_good hg1) (by sig_ne f)
          · -- state Waiting: nothing was re-armed
            rename_i hfut
            have := hnz (by simp [hfut])
            subst this
            step_leaves e
            all_goals first
              | exact hc
              | (refine Core.set hc (by simp) hg (by simp [Active]; grind) (by set_good hg) (by sig_ne f); done)
              | (refine Core.relist (g' := { g with waker := some w }) hc (by simp) hg (by simp [hg]) ?_ ?_ ?_ ?_
                  (by sig_ne f)
                 all_goals sig_solve)
          · cases e; exact hc


/-! ### Assembly -/

/-- Every step preserves the wait-list / waiter-table part of the invariant (any variant that re-arms). -/
theorem core_step {v : Variant} {s : State} {l : Label} {p : State × Res} (hv : v.streamRearm = true)
    (h : Struct' s) (e : step v s l = some p) : Core p.1 := by
  cases l
  case send m kind opt => exact core_send h e
  case trySend m opt rt => exact core_trySend h e
  case recv kind ex => exact core_recv h e
  case tryRecv rt => exact core_tryRecv h e
  case drain => exact core_drain h e
  case complete i => exact core_complete h e
  case expire i => exact core_expire h e
  case finalize i => exact core_finalize h e
  case newSendFut m => exact core_newSendFut h e
  case pollSend f w => exact core_pollSend h e
  case dropSendFut f => exact core_dropSendFut h e
  case newRecvFut st => exact core_newRecvFut h e
  case pollRecv f w => exact core_pollRecv hv h e
  case dropRecvFut f => exact core_dropRecvFut h e
  case clone side => exact core_clone h e
  case dropHandle side => exact core_dropHandle h e
  case close => exact core_close h e
  case convert side => simp only [step] at e; cases side <;> simp only at e <;> step_leaves e <;> exact h.core
  case isDisconnected side =>
    simp only [step] at e; cases side <;> simp only at e <;> step_leaves e <;> exact h.core
  all_goals (simp only [step] at e; step_leaves e; exact h.core)

theorem struct'_init (cap : Option Nat) : Struct' (State.init cap) :=
  ⟨struct_init cap, by simp [State.init]⟩

/-- **The strengthened structural invariant is inductive** in every variant that re-arms its stream
    (all but D3), in particular in `Variant.good`. -/
theorem struct'_step {v : Variant} {s : State} {l : Label} {p : State × Res} (hv : v.streamRearm = true)
    (h : Struct' s) (e : step v s l = some p) : Struct' p.1 :=
  have hc := core_step hv h e
  ⟨⟨step_chanInv h.base.chanInv e, countInv_step h.base.counts e, step_borrow h.base.borrow e,
    hc.half, hc.nodup, hc.listed,
    fun i g hg h1 h2 h3 h4 => hc.unlisted i g hg ⟨h1, h2, h3, h4⟩, hc.sigOK⟩, hc.aux⟩

theorem struct'_reach (v : Variant) (hv : v.streamRearm = true) (s : State) (hr : Reach v s) : Struct' s :=
  Reach.induct struct'_init (fun _ _ _ _ ih e => struct'_step hv ih e) s hr

/-- `Struct` is preserved by a step provided the pre-state also satisfies the strengthening `SigAux`. -/
theorem struct_step_of_aux {v : Variant} {s : State} {l : Label} {p : State × Res} (hv : v.streamRearm = true)
    (h : Struct s) (ha : ∀ (i : Nat) (g : Sig), s.sigs[i]? = some g → SigAux g)
    (e : step v s l = some p) : Struct p.1 :=
  (struct'_step hv ⟨h, ha⟩ e).base

/-- `Struct` holds in every reachable state (of every variant but D3). -/
theorem struct_reach (v : Variant) (hv : v.streamRearm = true) (s : State) (hr : Reach v s) : Struct s :=
  (struct'_reach v hv s hr).base

/-- `Struct` is preserved by every step out of a reachable state. -/
theorem struct_step {v : Variant} {s : State} {l : Label} {p : State × Res} (hv : v.streamRearm = true)
    (hr : Reach v s) (e : step v s l = some p) : Struct p.1 :=
  struct_reach v hv p.1 (Reach.step hr e)

theorem struct_reach_good (s : State) (hr : Reach Variant.good s) : Struct s :=
  struct_reach Variant.good rfl s hr

theorem struct_step_good {s : State} {l : Label} {p : State × Res}
    (hr : Reach Variant.good s) (e : step Variant.good s l = some p) : Struct p.1 :=
  struct_step rfl hr e


/-! ### Why the strengthening, and why not D3 -/

/-- A state satisfying `Struct` but not `SigAux.zeroPending`: an unregistered receive future whose
    signal already says `ok`. -/
def ceZero : State :=
  { chan := Chan.new none, sigs := [{ role := .recv, kind := .async, st := .ok }] }

/-- A state satisfying `Struct` but not `SigAux.recvClaimed`: a claimed blocked receiver with an empty slot. -/
def ceClaimed : State :=
  { chan := Chan.new none, sigs := [{ role := .recv, kind := .sync, claimed := true }] }

theorem struct_ceZero : Struct ceZero := by
  refine ⟨inv_new none, by simp [CountInv, ceZero, Chan.new], ?_, ?_, ?_, ?_, ?_, ?_⟩
  all_goals try (simp [ceZero, Chan.new]; done)
  · intro i g hg; cases i <;> simp [ceZero] at hg; subst hg; simp [ceZero]
  · intro i g hg; cases i <;> simp [ceZero] at hg; subst hg; simp
  · intro i g hg; cases i <;> simp [ceZero] at hg; subst hg; constructor <;> simp

theorem struct_ceClaimed : Struct ceClaimed := by
  refine ⟨inv_new none, by simp [CountInv, ceClaimed, Chan.new], ?_, ?_, ?_, ?_, ?_, ?_⟩
  all_goals try (simp [ceClaimed, Chan.new]; done)
  · intro i g hg; cases i <;> simp [ceClaimed] at hg; subst hg; simp [ceClaimed]
  · intro i g hg; cases i <;> simp [ceClaimed] at hg; subst hg; simp
  · intro i g hg; cases i <;> simp [ceClaimed] at hg; subst hg; constructor <;> simp

theorem ceZero_enabled : (step Variant.good ceZero (.pollRecv 0 0)).isSome = true := by decide
theorem ceClaimed_enabled : (step Variant.good ceClaimed (.finalize 0)).isSome = true := by decide

/-- **`Struct` alone is not inductive**, even in the repaired tree: polling the future of `ceZero`
    registers a waiter whose signal is not pending (`listed` breaks). -/
theorem struct_not_inductive :
    ∃ (s : State) (l : Label) (p : State × Res),
      Struct s ∧ step Variant.good s l = some p ∧ ¬ Struct p.1 := by
  refine ⟨ceZero, .pollRecv 0 0, (step Variant.good ceZero (.pollRecv 0 0)).get ceZero_enabled,
    struct_ceZero, by simp, ?_⟩
  intro h
  obtain ⟨g, hg, hl⟩ := h.listed 0 (by decide)
  have hg' : ((step Variant.good ceZero (.pollRecv 0 0)).get ceZero_enabled).1.sigs[0]? =
      some { role := .recv, kind := .async, st := .ok, fut := .waiting, waker := some 0 } := by decide
  rw [hg'] at hg; cases hg
  exact absurd hl.pending (by decide)

/-- The second missing fact: finalizing the claimed receiver of `ceClaimed` yields a receiver that is
    `ok` with nothing in its slot (`sigOK.recvReady` breaks). -/
theorem struct_not_inductive' :
    ∃ (s : State) (l : Label) (p : State × Res),
      Struct s ∧ step Variant.good s l = some p ∧ ¬ Struct p.1 := by
  refine ⟨ceClaimed, .finalize 0, (step Variant.good ceClaimed (.finalize 0)).get ceClaimed_enabled,
    struct_ceClaimed, by simp, ?_⟩
  intro h
  have hg' : ((step Variant.good ceClaimed (.finalize 0)).get ceClaimed_enabled).1.sigs[0]? =
      some { role := .recv, kind := .sync, st := .ok } := by decide
  have := (h.sigOK 0 _ hg').recvReady rfl rfl rfl (by decide)
  exact absurd this (by decide)

/-- The D3 variant (`streamRearm = false`): everything else repaired. -/
def Variant.d3 : Variant := ⟨true, true, false, true⟩

/-- A stream registers, is handed a value, returns it. -/
def d3Run : List Label :=
  [.newRecvFut true, .pollRecv 0 1, .send 5 .sync false, .finalize 0, .pollRecv 0 1]

theorem d3Run_enabled : (run Variant.d3 (State.init none) d3Run).isSome = true := by decide

/-- **D3 breaks `Struct`**: a stream that received through a hand-off keeps the delivered value in
    its slot after returning it (`sigOK.recvHolds` fails in a reachable state). -/
theorem struct_fails_d3 : ∃ s : State, Reach Variant.d3 s ∧ ¬ Struct s := by
  refine ⟨((run Variant.d3 (State.init none) d3Run).get d3Run_enabled).1, ?_, ?_⟩
  · exact Reach.run (Reach.init none) d3Run _ ((run Variant.d3 (State.init none) d3Run).get d3Run_enabled).2
      (by rw [Option.some_get])
  · intro h
    have hg' : ((run Variant.d3 (State.init none) d3Run).get d3Run_enabled).1.sigs[0]? =
        some { role := .recv, kind := .async, st := .ok, slot := some 5, fut := .done, waker := some 1,
               isStream := true } := by decide
    have := ((h.sigOK 0 _ hg').recvHolds rfl rfl).2.2 rfl
    exact absurd this (by decide)

end Kanal
