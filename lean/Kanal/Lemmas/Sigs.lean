/-
  Kanal.Lemmas.Sigs — how the state primitives act on the waiter table (`sigs[j]?`).
-/
import Kanal.Lemmas.Frame

namespace Kanal
namespace State

variable (s : State)

theorem lt_of_get?_some {α} {l : List α} {i : Nat} {a : α} (h : l[i]? = some a) : i < l.length := by
  rcases Nat.lt_or_ge i l.length with h1 | h1
  · exact h1
  · rw [List.getElem?_eq_none_iff.mpr h1] at h; cases h

@[simp] theorem list_set_get {α} (l : List α) (i j : Nat) (g : α) :
    (l.set i g)[j]? = if i = j then (l[j]?).map (fun _ => g) else l[j]? := by
  simp only [List.getElem?_set]
  by_cases hij : i = j
  · subst hij
    cases h : l[i]? with
    | none => simp [Nat.not_lt.mpr (List.getElem?_eq_none_iff.mp h)]
    | some x => simp [lt_of_get?_some h]
  · simp [hij]

theorem setSig_get (i j : SigId) (g : Sig) :
    (s.setSig i g).sigs[j]? = if i = j then (s.sigs[j]?).map (fun _ => g) else s.sigs[j]? := by
  simp only [setSig_sigs, List.getElem?_set]
  by_cases hij : i = j
  · subst hij
    cases h : s.sigs[i]? with
    | none => simp [Nat.not_lt.mpr (List.getElem?_eq_none_iff.mp h)]
    | some x => simp [lt_of_get?_some h]
  · simp [hij]

@[simp] theorem setCust_get (m c) (j : SigId) : (s.setCust m c).sigs[j]? = s.sigs[j]? := rfl
@[simp] theorem dropMsg_get (m) (j : SigId) : (s.dropMsg m).sigs[j]? = s.sigs[j]? := rfl
@[simp] theorem giveR_get (m) (j : SigId) : (s.giveR m).sigs[j]? = s.sigs[j]? := rfl
@[simp] theorem withdrawSlots_get (l) (j : SigId) : (s.withdrawSlots l).sigs[j]? = s.sigs[j]? := rfl

@[simp] theorem failBack_get (m o) (j : SigId) : (s.failBack m o).sigs[j]? = s.sigs[j]? := by
  unfold failBack; split <;> rfl

@[simp] theorem dropMsgs_get (ms : List Msg) (j : SigId) : (s.dropMsgs ms).sigs[j]? = s.sigs[j]? := by
  unfold dropMsgs
  induction ms generalizing s with
  | nil => rfl
  | cons m l ih => simp [List.foldl, ih]

@[simp] theorem foldl_giveR_get (ms : List Msg) (j : SigId) : (ms.foldl giveR s).sigs[j]? = s.sigs[j]? := by
  induction ms generalizing s with
  | nil => rfl
  | cons m l ih => simp [List.foldl, ih]

/-- `finalize` changes exactly the `st` field of waiter `i`. -/
theorem finalize_get (i : SigId) (o : SigSt) (j : SigId) :
    (s.finalize i o).sigs[j]? = if i = j then (s.sigs[j]?).map (fun g => { g with st := o }) else s.sigs[j]? := by
  unfold finalize
  split
  · rename_i h; split
    · subst_vars; simp [h]
    · rfl
  · rename_i g h
    have key : ((s.setSig i { g with st := o }).sigs[j]?) =
        if i = j then (s.sigs[j]?).map (fun g => { g with st := o }) else s.sigs[j]? := by
      rw [setSig_get]; split
      · subst_vars; simp [h]
      · rfl
    split <;> exact key

theorem takeFrom_get (i j : SigId) :
    (s.takeFrom i).sigs[j]? =
      if i = j then (s.sigs[j]?).map (fun g => { g with slot := none, st := .ok }) else s.sigs[j]? := by
  unfold takeFrom
  split
  · rename_i h; split
    · subst_vars; simp [h]
    · rfl
  · rename_i g h
    rw [finalize_get, setSig_get]
    split
    · subst_vars; simp [h]
    · rfl

theorem deliverTo_get (i : SigId) (m : Msg) (j : SigId) :
    (s.deliverTo i m).sigs[j]? =
      if i = j then (s.sigs[j]?).map (fun g => { g with slot := some m, claimed := true }) else s.sigs[j]? := by
  unfold deliverTo
  split
  · rename_i h; split
    · subst_vars; simp [h]
    · rfl
  · rename_i g h
    simp only [setCust_get]
    rw [setSig_get]
    split
    · subst_vars; simp [h]
    · rfl

theorem claimFrom_get (i j : SigId) :
    (s.claimFrom i).sigs[j]? =
      if i = j then (s.sigs[j]?).map (fun g => { g with slot := none, claimed := true }) else s.sigs[j]? := by
  unfold claimFrom
  split
  · rename_i h; split
    · subst_vars; simp [h]
    · rfl
  · rename_i g h
    rw [setSig_get]
    split
    · subst_vars; simp [h]
    · rfl

/-- Terminating a list of waiters: those in the list get `st := term`, the others are untouched. -/
theorem terminateList_get (l : List SigId) (j : SigId) :
    (s.terminateList l).sigs[j]? =
      if j ∈ l then (s.sigs[j]?).map (fun g => { g with st := .term }) else s.sigs[j]? := by
  unfold terminateList
  induction l generalizing s with
  | nil => simp
  | cons i l ih =>
    simp only [List.foldl, ih, finalize_get, List.mem_cons]
    by_cases h2 : i = j
    · subst h2
      by_cases h1 : i ∈ l <;> simp [h1]
      cases s.sigs[i]? <;> simp
    · have h3 : ¬ j = i := fun h => h2 h.symm
      by_cases h1 : j ∈ l <;> simp [h1, h2, h3]

/-- Taking from a duplicate-free list of senders. -/
theorem foldl_takeFrom_get (l : List SigId) (j : SigId) :
    (l.foldl takeFrom s).sigs[j]? =
      if j ∈ l then (s.sigs[j]?).map (fun g => { g with slot := none, st := .ok }) else s.sigs[j]? := by
  induction l generalizing s with
  | nil => simp
  | cons i l ih =>
    simp only [List.foldl, ih, takeFrom_get, List.mem_cons]
    by_cases h2 : i = j
    · subst h2
      by_cases h1 : i ∈ l <;> simp [h1]
      cases s.sigs[i]? <;> simp
    · have h3 : ¬ j = i := fun h => h2 h.symm
      by_cases h1 : j ∈ l <;> simp [h1, h2, h3]

theorem append_single_get {α} (l : List α) (g : α) (j : Nat) :
    (l ++ [g])[j]? = if j = l.length then some g else l[j]? := by
  simp only [List.getElem?_append]
  by_cases h1 : j < l.length
  · have : j ≠ l.length := by omega
    simp [h1, this]
  · by_cases h2 : j = l.length
    · subst h2; simp
    · have h4 : 1 ≤ j - l.length := by omega
      have h3 : l.length ≤ j := by omega
      simp [h1, h2, List.getElem?_eq_none_iff.mpr h3, List.getElem?_eq_none_iff.mpr (by simpa using h4 : [g].length ≤ j - l.length)]

@[simp] theorem newSig_get (g : Sig) (j : Nat) :
    (s.newSig g).1.sigs[j]? = if j = s.sigs.length then some g else s.sigs[j]? := by
  simp only [newSig_fst_sigs, List.getElem?_append]
  by_cases h1 : j < s.sigs.length
  · have : j ≠ s.sigs.length := by omega
    simp [h1, this]
  · by_cases h2 : j = s.sigs.length
    · subst h2; simp
    · have h3 : s.sigs.length ≤ j := by omega
      have h4 : 1 ≤ j - s.sigs.length := by omega
      simp [h1, h2, List.getElem?_eq_none_iff.mpr (by simpa using h4 : [g].length ≤ j - s.sigs.length)]

end State
end Kanal
