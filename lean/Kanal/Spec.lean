/-
  Kanal.Spec — L1: the *atomic channel*.  Every public API call is one atomic
  step; a blocking (or pending) call is an atomic *register* step and an atomic
  *complete* step; a timed call additionally has an atomic *expire* step; a
  future has one atomic step per poll and one for its drop.  The critical
  section bodies are the L0 functions of `Kanal.Chan`.

  Besides the logical state the model carries ghost state that the property
  theorems talk about: the custody of every message, the drop log, the
  acceptance / delivery logs, the wake log and the live-handle ledger.
-/
import Kanal.Chan

namespace Kanal
open Chan (SendBranch RecvBranch)

/-- Abstract state of a signal word: `LOCKED`/`LOCKED_STARVATION` are `pending`. -/
inductive SigSt where
  | pending | ok | term
  deriving DecidableEq, Repr, Inhabited

/-- Poll state of a future (`FutureState`). -/
inductive FutSt where
  | zero | waiting | done
  deriving DecidableEq, Repr, Inhabited

/-- One waiter: a blocked sync/timed call's stack frame, or a future with its
    embedded signal (`FutId = SigId`). -/
structure Sig where
  role        : Role
  kind        : Kind
  opt         : Bool := false          -- send role: the Option-taking variant (value handed back on failure)
  st          : SigSt := .pending
  slot        : Option Msg := none     -- send role: the value offered, until taken; recv role: the value delivered
  orig        : Option Msg := none     -- ghost, send role: the value this waiter offered
  waker       : Option WakerId := none -- async: the registered task waker
  fut         : FutSt := .zero         -- async only
  isStream    : Bool := false
  streamEnded : Bool := false          -- `ReceiveStream::terminated`
  alive       : Bool := true           -- the frame / future still exists
  claimed     : Bool := false          -- popped by a peer that has not yet stored the final state (hand-off window)
  deriving DecidableEq, Repr, Inhabited

/-- Where a message is. -/
inductive Custody where
  | fresh                 -- never offered to the channel
  | callerS               -- handed back to the sending caller (Option variants on failure)
  | queued                -- in the buffer
  | slot (s : SigId)      -- in waiter `s`'s slot (blocked sender / pending send future / delivered-to receiver)
  | callerR               -- returned to a receiving caller
  | gone                  -- destroyed
  | leaked                -- forgotten without being destroyed (only reachable in defect variants)
  deriving DecidableEq, Repr, Inhabited

inductive Err where
  | closed | sendClosed | recvClosed | timeout | closeErr
  deriving DecidableEq, Repr, Inhabited

/-- Result of one atomic step, as the caller sees it. -/
inductive Res where
  | unit                              -- `Ok(())`
  | bool (b : Bool)                   -- `Ok(b)` / an observer
  | val (m : Msg)                     -- `Ok(m)`, `Ok(Some m)`, `Ready(Ok m)`, `Ready(Some m)`
  | none                              -- `Ok(None)`
  | num (n : Nat)
  | cap (n : Option Nat)
  | drained (n : Nat) (ms : List Msg) -- reported count and the values appended
  | err (e : Err)
  | pending                           -- `Poll::Pending`
  | blocked (s : SigId)               -- the call registered waiter `s` and now waits
  | streamEnd                         -- `Ready(None)`
  | panic                             -- the documented panic (finished future polled again)
  | spin                              -- the call would busy-wait for a peer mid-hand-off (unreachable in the atomic model)
  deriving DecidableEq, Repr, Inhabited

/-- Facts about the code that distinguish the repaired tree from the defective
    variants D1–D4 (D5 only exists at the interleaving level). -/
structure Variant where
  timeoutDrop : Bool   -- D1: `send_timeout` drops the value on `Timeout`
  optForget   : Bool   -- D2: `send_option_timeout` does not drop a value the receiver took
  streamRearm : Bool   -- D3: the stream re-arms its signal before re-registering
  sendRefresh : Bool   -- D4: `SendFuture::poll` refreshes a changed waker
  deriving DecidableEq, Repr, Inhabited

def Variant.good : Variant := ⟨true, true, true, true⟩

/-- Point update of a function. -/
def upd {β : Type} (f : Nat → β) (k : Nat) (v : β) : Nat → β :=
  fun x => if x = k then v else f x

structure State where
  chan      : Chan
  sigs      : List Sig := []            -- index = SigId
  -- ghost
  cust      : Msg → Custody := fun _ => .fresh
  offered   : List Msg := []            -- every message ever passed to a send, in call order
  accepted  : List Msg := []            -- in the order the channel accepted them (buffered, registered or handed off)
  delivered : List Msg := []            -- in the order receive operations took them
  removed   : List Msg := []            -- accepted but withdrawn (timeout, cancel, close, disconnect)
  recvd     : List Msg := []            -- returned to receiving callers
  dropped   : List Msg := []            -- drop log (with multiplicity)
  wakes     : List WakerId := []        -- `Waker::wake` calls in order
  liveS     : Nat := 1                  -- live sender handles (ledger maintained by clone/drop labels)
  liveR     : Nat := 1
  closedOnce : Bool := false            -- a `close()` has succeeded

def State.init (cap : Option Nat) : State := { chan := Chan.new cap }

/-- Labels of atomic steps. -/
inductive Label where
  -- send family
  | send (m : Msg) (kind : Kind) (opt : Bool)      -- `send` (sync), `send_timeout` (timed), `send_option_timeout` (timed, opt)
  | trySend (m : Msg) (opt realtime : Bool)
  -- receive family
  | recv (kind : Kind) (expired : Bool)            -- `recv` (sync), `recv_timeout` (timed; `expired` = deadline already passed at the pre-check)
  | tryRecv (realtime : Bool)
  | drain
  -- blocked sync / timed waiters
  | complete (s : SigId)                           -- the waiter sees its final state and returns
  | expire (s : SigId)                             -- a timed waiter's deadline passes: cancel critical section
  | finalize (s : SigId)                           -- the peer that popped waiter `s` stores its final state and wakes it
  -- futures
  | newSendFut (m : Msg)
  | pollSend (f : FutId) (w : WakerId)
  | dropSendFut (f : FutId)
  | newRecvFut (stream : Bool)
  | pollRecv (f : FutId) (w : WakerId)             -- `ReceiveFuture::poll`, or `ReceiveStream::poll_next` when `f` is a stream
  | dropRecvFut (f : FutId)
  -- handles
  | clone (side : Side)                            -- clone / clone_sync / clone_async
  | dropHandle (side : Side)
  | convert (side : Side)                          -- to_sync / to_async / as_sync / as_async
  | close
  -- observers
  | len | isEmpty | isFull | capacity | isBounded
  | senderCount | receiverCount | isClosed
  | isDisconnected (side : Side) | isTerminated
  deriving DecidableEq, Repr, Inhabited

namespace State

def sig? (s : State) (i : SigId) : Option Sig := s.sigs[i]?

def setSig (s : State) (i : SigId) (g : Sig) : State := { s with sigs := s.sigs.set i g }

def setCust (s : State) (m : Msg) (c : Custody) : State := { s with cust := upd s.cust m c }

/-- The message in waiter `i`'s slot (0 if there is none — never the case for a listed sender). -/
def slotMsg (s : State) (i : SigId) : Msg :=
  match s.sigs[i]? with
  | some g => g.slot.getD 0
  | none => 0

/-- `Signal::wake(this, state)`: store the final state and wake the waiter. -/
def finalize (s : State) (i : SigId) (o : SigSt) : State :=
  match s.sigs[i]? with
  | none => s
  | some g =>
    let s1 := s.setSig i { g with st := o }
    match g.kind, g.waker with
    | .async, some w => { s1 with wakes := s1.wakes ++ [w] }
    | _, _ => s1

/-- `terminate_signals`. -/
def terminateList (s : State) (l : List SigId) : State :=
  l.foldl (fun s i => s.finalize i .term) s

/-- `Signal::send`, first half, by the sender that popped receive waiter `i` in its
    critical section: the value goes into the waiter's slot; the final store is still to come
    (`Label.finalize`).  Until then the waiter is in nobody's list and not final: the hand-off window. -/
def deliverTo (s : State) (i : SigId) (m : Msg) : State :=
  match s.sigs[i]? with
  | none => s
  | some g => (s.setSig i { g with slot := some m, claimed := true }).setCust m (.slot i)

/-- `Signal::recv`, first half, by the receiver that popped send waiter `i` with an empty
    buffer: the value leaves the slot (the caller decides the new custody); final store to come. -/
def claimFrom (s : State) (i : SigId) : State :=
  match s.sigs[i]? with
  | none => s
  | some g => s.setSig i { g with slot := none, claimed := true }

/-- `Signal::recv` performed *under the lock* (buffer refill, `drain_into`): read the slot and
    store the final state in one go. -/
def takeFrom (s : State) (i : SigId) : State :=
  match s.sigs[i]? with
  | none => s
  | some g => (s.setSig i { g with slot := none }).finalize i .ok

/-- A value is destroyed. -/
def dropMsg (s : State) (m : Msg) : State :=
  { s with dropped := s.dropped ++ [m], cust := upd s.cust m .gone }

def dropMsgs (s : State) (ms : List Msg) : State := ms.foldl dropMsg s

/-- A value reaches a receiving caller. -/
def giveR (s : State) (m : Msg) : State :=
  { s with recvd := s.recvd ++ [m], cust := upd s.cust m .callerR }

/-- Disposal of a send's value on a failure path: handed back (Option variants) or destroyed. -/
def failBack (s : State) (m : Msg) (opt : Bool) : State :=
  if opt then s.setCust m .callerS else s.dropMsg m

def newSig (s : State) (g : Sig) : State × SigId := ({ s with sigs := s.sigs ++ [g] }, s.sigs.length)

/-- Number of alive waiters (blocked calls and futures) of a side.  Each of them borrows a
    handle of that side, so the last handle of the side cannot be dropped meanwhile. -/
def aliveSigs (s : State) (r : Role) : Nat :=
  (s.sigs.filter (fun g => g.alive && g.role == r)).length

/-- Withdraw the messages of terminated send waiters from the accepted order. -/
def withdrawSlots (s : State) (l : List SigId) : State :=
  { s with removed := s.removed ++ l.filterMap (fun i =>
      match s.sigs[i]? with
      | some g => if g.role == .send then g.slot else none
      | none => none) }

end State

open State in
/-- Shared body of the send family after the first critical section.
    `reg` is how the caller reacts to `full` (`none`: refused). -/
def sendStep (s : State) (m : Msg) (opt : Bool) (reg : Option Sig) : State × Res :=
  let s := { s with offered := s.offered ++ [m] }
  match s.chan.sendPre m with
  | (_, .errClosed)     => (s.failBack m opt, .err .closed)
  | (_, .errRecvClosed) => (s.failBack m opt, .err .recvClosed)
  | (c1, .handoff r) =>
    let s1 := { s with chan := c1, accepted := s.accepted ++ [m], delivered := s.delivered ++ [m] }
    (s1.deliverTo r m, .unit)
  | (c1, .buffered) =>
    (({ s with chan := c1, accepted := s.accepted ++ [m] }).setCust m .queued, .unit)
  | (c1, .full) =>
    match reg with
    | none => (({ s with chan := c1 }).failBack m opt, .bool false)
    | some g =>
      let (s1, me) := ({ s with chan := c1 }).newSig { g with slot := some m, orig := some m }
      (({ s1 with chan := s1.chan.pushWaiter me, accepted := s1.accepted ++ [m] }).setCust m (.slot me),
       .blocked me)

open State in
/-- Shared body of the receive family after the first critical section;
    returns the branch so the caller can react to `empty`. -/
def recvStep (s : State) (timed expired : Bool) : State × RecvBranch :=
  match s.chan.recvPre s.slotMsg timed expired with
  | (c1, .fromQueue v refill) =>
    let s1 := ({ s with chan := c1, delivered := s.delivered ++ [v] }).giveR v
    match refill with
    | none => (s1, .fromQueue v none)
    | some p => ((s1.setCust (s.slotMsg p) .queued).takeFrom p, .fromQueue v (some p))
  | (c1, .fromSender p) =>
    let m := s.slotMsg p
    ((({ s with chan := c1, delivered := s.delivered ++ [m] }).giveR m).claimFrom p, .fromSender p)
  | (c1, b) => ({ s with chan := c1 }, b)

def recvRes : RecvBranch → (onEmpty : Res) → State → Res
  | .errClosed, _, _ => .err .closed
  | .fromQueue v _, _, _ => .val v
  | .fromSender p, _, s => .val (s.slotMsg p)
  | .errSendClosed, _, _ => .err .sendClosed
  | .timeout, _, _ => .err .timeout
  | .empty, r, _ => r

/-- `ReceiveFuture::poll` on a finished future: a stream loops back to `Zero`
    (future.rs:388), re-arming its signal; a plain future panics (`none`).
    D3: the defective variant kept the old final state. -/
def rearm (v : Variant) (g : Sig) : Option Sig :=
  match g.fut with
  | .done =>
    if g.isStream then
      some (if v.streamRearm then { g with fut := .zero, st := .pending, slot := none, waker := none }
            else { g with fut := .zero })
    else none
  | _ => some g

open State in
/-- The atomic step function.  `none`: the label is not enabled in this state
    (no such waiter, no live handle of the side the call needs, message tag not
    fresh, …) — those are caller errors safe Rust cannot commit. -/
def step (v : Variant) (s : State) : Label → Option (State × Res)
  | .send m kind opt =>
    if s.liveS = 0 ∨ s.cust m ≠ .fresh ∨ kind = .async then none
    else some (sendStep s m opt (some { role := .send, kind := kind, opt := opt }))
  | .trySend m opt _ =>
    if s.liveS = 0 ∨ s.cust m ≠ .fresh then none
    else match sendStep s m opt none with
      | (s1, .unit) => some (s1, .bool true)
      | r => some r
  | .recv kind expired =>
    if s.liveR = 0 ∨ kind = .async then none
    else
      let (s1, b) := recvStep s (kind == .timed) expired
      match b with
      | .empty =>
        let (s2, me) := s1.newSig { role := .recv, kind := kind }
        some ({ s2 with chan := s2.chan.pushWaiter me }, .blocked me)
      | _ => some (s1, recvRes b .none s)
  | .tryRecv _ =>
    if s.liveR = 0 then none
    else
      let (s1, b) := recvStep s false false
      some (s1, recvRes b .none s)
  | .drain =>
    if s.liveR = 0 then none
    else match s.chan.drainCS with
      | none => some (s, .err .closed)
      | some (c1, qs, senders, n) =>
        let ms := qs ++ senders.map s.slotMsg
        let s1 := { s with chan := c1, delivered := s.delivered ++ ms }
        let s2 := ms.foldl giveR s1
        let s3 := senders.foldl takeFrom s2
        some (s3, .drained n ms)
  | .complete i =>
    match s.sigs[i]? with
    | none => none
    | some g =>
      if !g.alive ∨ g.kind = .async ∨ g.st = .pending then none
      else
        let s1 := s.setSig i { g with alive := false, slot := none }
        match g.role, g.st with
        | .send, .ok =>
          -- D2: the option-timeout variant drops its local copy although the receiver took the value
          match g.opt && !v.optForget, g.orig with
          | true, some m => some ({ s1 with dropped := s1.dropped ++ [m] }, .unit)
          | _, _ => some (s1, .unit)
        | .send, _ =>
          match g.slot with
          | some m => some (s1.failBack m g.opt, .err .closed)
          | none => some (s1, .err .closed)
        | .recv, .ok =>
          match g.slot with
          | some m => some (s1.giveR m, .val m)
          | none => some (s1, .panic)
        | .recv, _ => some (s1, .err .closed)
  | .expire i =>
    match s.sigs[i]? with
    | none => none
    | some g =>
      if !g.alive ∨ g.kind ≠ .timed ∨ g.st ≠ .pending then none
      else
        match s.chan.cancel g.role i with
        | (_, false) => some (s, .blocked i)     -- a peer owns the signal: fall back to `wait()`
        | (c1, true) =>
          let s1 := ({ s with chan := c1 }).setSig i { g with alive := false, slot := none }
          match g.role, g.slot with
          | .send, some m =>
            let s2 := { s1 with removed := s1.removed ++ [m] }
            if g.opt then some (s2.setCust m .callerS, .err .timeout)
            else if v.timeoutDrop then some (s2.dropMsg m, .err .timeout)
            else some (s2.setCust m .leaked, .err .timeout)
          | _, _ => some (s1, .err .timeout)
  | .finalize i =>
    match s.sigs[i]? with
    | none => none
    | some g =>
      if !g.claimed ∨ g.st ≠ .pending then none
      else some ((s.setSig i { g with claimed := false }).finalize i .ok, .unit)
  | .newSendFut m =>
    if s.liveS = 0 ∨ s.cust m ≠ .fresh then none
    else
      let (s1, f) := s.newSig { role := .send, kind := .async, slot := some m, orig := some m }
      some (({ s1 with offered := s1.offered ++ [m] }).setCust m (.slot f), .num f)
  | .pollSend f w =>
    match s.sigs[f]? with
    | none => none
    | some g =>
      if !g.alive ∨ g.kind ≠ .async ∨ g.role ≠ .send then none
      else match g.fut with
      | .zero =>
        match g.slot with
        | none => none
        | some m =>
          match s.chan.sendPre m with
          | (_, .errClosed) => some ((s.setSig f { g with fut := .done, slot := none }).dropMsg m, .err .closed)
          | (_, .errRecvClosed) => some ((s.setSig f { g with fut := .done, slot := none }).dropMsg m, .err .recvClosed)
          | (c1, .handoff r) =>
            let s1 := ({ s with chan := c1, accepted := s.accepted ++ [m], delivered := s.delivered ++ [m] }).setSig f
                        { g with fut := .done, slot := none }
            some (s1.deliverTo r m, .unit)
          | (c1, .buffered) =>
            some ((({ s with chan := c1, accepted := s.accepted ++ [m] }).setSig f
                    { g with fut := .done, slot := none }).setCust m .queued, .unit)
          | (c1, .full) =>
            some (({ s with chan := c1.pushWaiter f, accepted := s.accepted ++ [m] }).setSig f
                    { g with fut := .waiting, waker := some w }, .pending)
      | .waiting =>
        match g.st with
        | .ok => some (s.setSig f { g with fut := .done }, .unit)
        | .term =>
          match g.slot with
          | some m => some ((s.setSig f { g with fut := .done, slot := none }).dropMsg m, .err .closed)
          | none => some (s.setSig f { g with fut := .done }, .err .closed)
        | .pending =>
          if g.waker = some w then some (s, .pending)
          else if s.chan.sigExists .send f then
            some (if v.sendRefresh then s.setSig f { g with waker := some w } else s, .pending)
          else some (s, .spin)
      | .done => some (s, .panic)
  | .dropSendFut f =>
    match s.sigs[f]? with
    | none => none
    | some g =>
      if !g.alive ∨ g.kind ≠ .async ∨ g.role ≠ .send then none
      else
        let dead := { g with alive := false, slot := none, fut := .done }
        match g.fut with
        | .done => some (s.setSig f dead, .unit)
        | .zero =>
          match g.slot with
          | some m => some ((s.setSig f dead).dropMsg m, .unit)
          | none => some (s.setSig f dead, .unit)
        | .waiting =>
          match s.chan.cancel .send f with
          | (c1, true) =>
            match g.slot with
            | some m => some (({ ({ s with chan := c1 }).setSig f dead with removed := s.removed ++ [m] }).dropMsg m, .unit)
            | none => some (({ s with chan := c1 }).setSig f dead, .unit)
          | (_, false) =>
            match g.st with
            | .pending => some (s, .spin)
            | .ok => some (s.setSig f dead, .unit)
            | .term =>
              match g.slot with
              | some m => some ((s.setSig f dead).dropMsg m, .unit)
              | none => some (s.setSig f dead, .unit)
  | .newRecvFut stream =>
    if s.liveR = 0 then none
    else
      let (s1, f) := s.newSig { role := .recv, kind := .async, isStream := stream }
      some (s1, .num f)
  | .pollRecv f w =>
    match s.sigs[f]? with
    | none => none
    | some g =>
      if !g.alive ∨ g.kind ≠ .async ∨ g.role ≠ .recv then none
      else if g.isStream && g.streamEnded then some (s, .streamEnd)
      else
        let rearmed : Option Sig := rearm v g
        match rearmed with
        | none => some (s, .panic)
        | some g =>
          let finish (s : State) (g : Sig) (r : Res) : State × Res :=
            match r with
            | .err _ => if g.isStream then (s.setSig f { g with fut := .done, streamEnded := true }, .streamEnd)
                        else (s.setSig f { g with fut := .done }, r)
            | _ => (s.setSig f { g with fut := .done }, r)
          match g.fut with
          | .zero =>
            let (s1, b) := recvStep s false false
            match b with
            | .empty =>
              some (({ s1 with chan := s1.chan.pushWaiter f }).setSig f { g with fut := .waiting, waker := some w }, .pending)
            | _ => some (finish s1 g (recvRes b .none s))
          | .waiting =>
            match g.st with
            | .ok =>
              match g.slot with
              | some m => some (finish (s.giveR m) { g with slot := if v.streamRearm then none else g.slot } (.val m))
              | none => some (s, .panic)
            | .term => some (finish s g (.err .closed))
            | .pending =>
              if g.waker = some w then some (s, .pending)
              else if s.chan.sigExists .recv f then some (s.setSig f { g with waker := some w }, .pending)
              else some (s, .spin)
          | .done => some (s, .panic)
  | .dropRecvFut f =>
    match s.sigs[f]? with
    | none => none
    | some g =>
      if !g.alive ∨ g.kind ≠ .async ∨ g.role ≠ .recv then none
      else
        let dead := { g with alive := false, slot := none, fut := .done }
        match g.fut with
        | .waiting =>
          match s.chan.cancel .recv f with
          | (c1, true) => some (({ s with chan := c1 }).setSig f dead, .unit)
          | (_, false) =>
            match g.st, g.slot with
            | .pending, _ => some (s, .spin)
            | .ok, some m => some ((s.setSig f dead).dropMsg m, .unit)
            | _, _ => some (s.setSig f dead, .unit)
        | _ => some (s.setSig f dead, .unit)
  | .clone side =>
    match side with
    | .send => if s.liveS = 0 then none else
        some ({ s with chan := s.chan.cloneCS .send, liveS := s.liveS + 1 }, .unit)
    | .recv => if s.liveR = 0 then none else
        some ({ s with chan := s.chan.cloneCS .recv, liveR := s.liveR + 1 }, .unit)
  | .dropHandle side =>
    -- safe Rust: a blocked call or a live future borrows a handle of its side
    if (match side with | .send => s.liveS | .recv => s.liveR) = 0 ∨
       ((match side with | .send => s.liveS | .recv => s.liveR) = 1 ∧ s.aliveSigs side ≠ 0) then none
    else
      let (c1, l) := s.chan.dropCS side
      let s1 := ((match side with
        | .send => { s with chan := c1, liveS := s.liveS - 1 }
        | .recv => { s with chan := c1, liveR := s.liveR - 1 }).withdrawSlots l).terminateList l
      -- the last handle of all frees the shared state: the buffer is destroyed with it
      if s1.liveS + s1.liveR = 0 then
        some (({ s1 with chan := { s1.chan with queue := [], waitList := [] }, removed := s1.removed ++ s1.chan.queue }).dropMsgs s1.chan.queue, .unit)
      else some (s1, .unit)
  | .convert side =>
    if (match side with | .send => s.liveS | .recv => s.liveR) = 0 then none
    else some (s, .unit)
  | .close =>
    if s.liveS + s.liveR = 0 then none
    else match s.chan.closeCS with
      | none => some (s, .err .closeErr)
      | some (c1, l, q) =>
        let s1 := (({ s with chan := c1, closedOnce := true, removed := s.removed ++ q }).withdrawSlots l).terminateList l
        some (s1.dropMsgs q, .unit)
  | .len => if s.liveS + s.liveR = 0 then none else some (s, .num s.chan.len)
  | .isEmpty => if s.liveS + s.liveR = 0 then none else some (s, .bool s.chan.isEmpty)
  | .isFull => if s.liveS + s.liveR = 0 then none else some (s, .bool s.chan.isFull)
  | .capacity => if s.liveS + s.liveR = 0 then none else some (s, .cap s.chan.capacity)
  | .isBounded => if s.liveS + s.liveR = 0 then none else some (s, .bool s.chan.isBounded)
  | .senderCount => if s.liveS + s.liveR = 0 then none else some (s, .num s.chan.sendCount)
  | .receiverCount => if s.liveS + s.liveR = 0 then none else some (s, .num s.chan.recvCount)
  | .isClosed => if s.liveS + s.liveR = 0 then none else some (s, .bool s.chan.closed)
  | .isDisconnected side =>
    match side with
    | .send => if s.liveS = 0 then none else some (s, .bool s.chan.isDisconnectedS)
    | .recv => if s.liveR = 0 then none else some (s, .bool s.chan.isDisconnectedR)
  | .isTerminated => if s.liveR = 0 then none else some (s, .bool s.chan.isTerminated)

/-! Equation lemmas are realised here, once, so that importing modules never generate clashing copies. -/
section realise
variable (v : Variant) (s : State) (l : Label) (i : SigId) (m : Msg) (o : SigSt) (b : Bool) (g : Sig)
example : step v s l = step v s l := by simp only [step]
example : step v s l = step v s l := by unfold step; rfl
example : sendStep s m b none = sendStep s m b none := by unfold sendStep; rfl
example : recvStep s b b = recvStep s b b := by unfold recvStep; rfl
example : sendStep s m b none = sendStep s m b none := by simp only [sendStep]
example : recvStep s b b = recvStep s b b := by simp only [recvStep]
example : rearm v g = rearm v g := by unfold rearm; rfl
example : recvRes .empty .none s = recvRes .empty .none s := by simp only [recvRes]
example : s.finalize i o = s.finalize i o := by unfold State.finalize; rfl
example : s.deliverTo i m = s.deliverTo i m := by unfold State.deliverTo; rfl
example : s.claimFrom i = s.claimFrom i := by unfold State.claimFrom; rfl
example : s.takeFrom i = s.takeFrom i := by unfold State.takeFrom; rfl
example : s.failBack m b = s.failBack m b := by unfold State.failBack; rfl
example : s.terminateList [] = s.terminateList [] := by unfold State.terminateList; rfl
example : s.dropMsgs [] = s.dropMsgs [] := by unfold State.dropMsgs; rfl
example : s.slotMsg i = s.slotMsg i := by unfold State.slotMsg; rfl
example : s.aliveSigs .send = s.aliveSigs .send := by unfold State.aliveSigs; rfl
end realise

/-- Run a list of labels; `none` if one of them is not enabled. -/
def run (v : Variant) : State → List Label → Option (State × List Res)
  | s, [] => some (s, [])
  | s, l :: ls =>
    match step v s l with
    | none => none
    | some (s1, r) =>
      match run v s1 ls with
      | none => none
      | some (s2, rs) => some (s2, r :: rs)

end Kanal
