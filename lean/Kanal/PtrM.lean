/-
  Kanal.PtrM — side model for C04: `KanalPtr<T>` (src/pointer.rs) at the level of bytes.

  A type is its size `n` in bytes (alignment plays no role in the copy logic); a value is `n`
  initialised bytes; memory maps addresses to `Option Byte` (`none` = uninitialised); the
  pointer size is a parameter `P > 0`.  A `KanalPtr` holds one pointer-sized word which is
  either an address, or `P` bytes of which the first `n` carry the value ("inline"), or
  uninitialised.  Every `size_of::<T>()` test is a parameter taken from the extractor
  (`Tie.sizeCfg`), so one site mutated to `>=` changes the model.
-/
import Kanal.Basic

namespace Kanal.PtrM

abbrev Byte := Nat
abbrev Mem := Nat → Option Byte

/-- The pointer-sized word inside `KanalPtr`. -/
inductive Word where
  | addr (a : Nat)                       -- `MaybeUninit::new(addr)`
  | bytes (l : List (Option Byte))       -- `store_as_kanal_ptr`: value bytes first, rest uninitialised
  | uninit                               -- `MaybeUninit::uninit()`
  deriving DecidableEq, Repr

/-- One `size_of::<T>() <op> rhs` test: operator and whether the right-hand side is the pointer size (else 0). -/
abbrev SizeTest := Cmp × Bool

def SizeTest.holds (t : SizeTest) (n P : Nat) : Bool := t.1.eval n (if t.2 then P else 0)

/-- The size tests of every site, in source order (see `Tie.sizeCfg`). -/
structure SizeCfg where
  newFrom        : SizeTest            -- > ptr  → address, else inline copy
  newOwned       : SizeTest            -- > ptr  → unreachable!, else inline copy
  newWriteAddr   : SizeTest            -- > ptr  → address, else uninit
  readZst        : SizeTest            -- == 0   → zeroed()
  readBig        : SizeTest            -- > ptr  → through the address, else inline
  writeBig       : SizeTest            -- > ptr  → through the address
  writeNonZst    : SizeTest            -- > 0    → inline store
  copyBig        : SizeTest
  copyNonZst     : SizeTest
  storeNonZst    : SizeTest            -- store_as_kanal_ptr: > 0 → copy the bytes
  recvFinal      : SizeTest            -- Receiver::recv: > ptr → `ret.assume_init()`, else `sig.assume_init()`
  recvTimeoutFinal : SizeTest
  sendFutNew     : SizeTest            -- SendFuture::new: > ptr → keep in `data`, else `new_owned`
  sendFutPoll    : SizeTest            -- poll: > ptr → `set_ptr(new_unchecked(data))`
  sendFutRead    : SizeTest            -- read_local_data
  sendFutDrop    : SizeTest            -- drop_local_data
  recvFutPoll    : SizeTest
  recvFutRead    : SizeTest
  recvFutDrop    : SizeTest
  deriving DecidableEq, Repr

def SizeCfg.good : SizeCfg :=
  { newFrom := (.gt, true), newOwned := (.gt, true), newWriteAddr := (.gt, true),
    readZst := (.eq, false), readBig := (.gt, true), writeBig := (.gt, true), writeNonZst := (.gt, false),
    copyBig := (.gt, true), copyNonZst := (.gt, false), storeNonZst := (.gt, false),
    recvFinal := (.gt, true), recvTimeoutFinal := (.gt, true),
    sendFutNew := (.gt, true), sendFutPoll := (.gt, true), sendFutRead := (.gt, true), sendFutDrop := (.gt, true),
    recvFutPoll := (.gt, true), recvFutRead := (.gt, true), recvFutDrop := (.gt, true) }

/-- `n` bytes of memory starting at `a`. -/
def load (m : Mem) (a n : Nat) : List (Option Byte) := (List.range n).map (fun i => m (a + i))

/-- Write the bytes `v` at `a`. -/
def store (m : Mem) (a : Nat) (v : List Byte) : Mem :=
  fun x => if a ≤ x ∧ x < a + v.length then (v[x - a]?) else m x

/-- `store_as_kanal_ptr(ptr)`: copy `n` bytes from memory into a fresh pointer-sized word. -/
def storeAsKanalPtr (c : SizeCfg) (m : Mem) (src n P : Nat) : Word :=
  if c.storeNonZst.holds n P then .bytes (load m src n ++ List.replicate (P - n) none)
  else .bytes (List.replicate P none)

/-- The same from a value in hand (`&d`). -/
def storeValue (c : SizeCfg) (v : List Byte) (P : Nat) : Word :=
  if c.storeNonZst.holds v.length P then .bytes (v.map some ++ List.replicate (P - v.length) none)
  else .bytes (List.replicate P none)

def newFrom (c : SizeCfg) (m : Mem) (a n P : Nat) : Word :=
  if c.newFrom.holds n P then .addr a else storeAsKanalPtr c m a n P

/-- `new_owned(d)`; `none` models `unreachable!()`. -/
def newOwned (c : SizeCfg) (v : List Byte) (P : Nat) : Option Word :=
  if c.newOwned.holds v.length P then none else some (storeValue c v P)

def newWriteAddr (c : SizeCfg) (a n P : Nat) : Word :=
  if c.newWriteAddr.holds n P then .addr a else .uninit

def newUnchecked (a : Nat) : Word := .addr a

/-- `KanalPtr::read`: the bytes of the value it yields (`none` entries = uninitialised bytes read);
    `none` as a whole = the word is dereferenced although it is not an address (wild pointer). -/
def read (c : SizeCfg) (m : Mem) (w : Word) (n P : Nat) : Option (List (Option Byte)) :=
  if c.readZst.holds n P then some []                     -- zeroed() of a zero-sized type
  else if c.readBig.holds n P then
    match w with
    | .addr a => some (load m a n)
    | _ => none
  else
    match w with
    | .bytes l => some (l.take n)
    | .addr _ => some (List.replicate n none)             -- reinterpreting an address as the value: garbage
    | .uninit => some (List.replicate n none)

/-- `KanalPtr::write(d)`: new memory and new word; `none` = wild pointer write. -/
def write (c : SizeCfg) (m : Mem) (w : Word) (v : List Byte) (P : Nat) : Option (Mem × Word) :=
  if c.writeBig.holds v.length P then
    match w with
    | .addr a => some (store m a v, w)
    | _ => none
  else if c.writeNonZst.holds v.length P then some (m, storeValue c v P)
  else some (m, w)

/-- `KanalPtr::copy(d)` from memory at `src`. -/
def copy (c : SizeCfg) (m : Mem) (w : Word) (src n P : Nat) : Option (Mem × Word) :=
  if c.copyBig.holds n P then
    match w with
    | .addr a => some (fun x => if a ≤ x ∧ x < a + n then m (src + (x - a)) else m x, w)
    | _ => none
  else if c.copyNonZst.holds n P then some (m, storeAsKanalPtr c m src n P)
  else some (m, w)

/-- What a blocked *sync receiver* reads after a successful wait (`Receiver::recv`, lib.rs):
    its own `ret` slot at `a` for big types, the signal's pointer word otherwise. -/
def recvFinalRead (c : SizeCfg) (t : SizeTest) (m : Mem) (w : Word) (a n P : Nat) : Option (List (Option Byte)) :=
  if t.holds n P then some (load m a n) else read c m w n P

/-- A future's `read_local_data`: its `data` field at `a` for big types, the signal's word otherwise. -/
def futRead (c : SizeCfg) (t : SizeTest) (m : Mem) (w : Word) (a n P : Nat) : Option (List (Option Byte)) :=
  if t.holds n P then some (load m a n) else read c m w n P

/-- The pointer word a `SendFuture` offers to the receiver once registered: created by
    `SendFuture::new` (inline for small types), replaced by `new_unchecked(data)` in `poll` for big ones. -/
def sendFutWord (c : SizeCfg) (v : List Byte) (a P : Nat) : Option Word :=
  let w0 : Option Word := if c.sendFutNew.holds v.length P then some .uninit else newOwned c v P
  match w0 with
  | none => none
  | some w => some (if c.sendFutPoll.holds v.length P then newUnchecked a else w)

/-- Memory of a `SendFuture` after `new`: the value sits in `data` (at `a`) only for big types. -/
def sendFutMem (c : SizeCfg) (m : Mem) (v : List Byte) (a P : Nat) : Mem :=
  if c.sendFutNew.holds v.length P then store m a v else m

/-- The pointer word a `ReceiveFuture` offers once registered. -/
def recvFutWord (c : SizeCfg) (a n P : Nat) : Word :=
  if c.recvFutPoll.holds n P then newUnchecked a else .uninit

end Kanal.PtrM
