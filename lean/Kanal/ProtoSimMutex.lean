/-
  Kanal.ProtoSimMutex — adequacy of `ProtoConf.MConf`: a machine that runs any number of threads' protocol trees
  against a real lock flag is simulated, step by step, by `MutexM` (one model event per machine step; the question
  `get_parallelism() == 1` is a stutter).  With call starts (`MStepS`) every execution from the initial configuration
  stays within `MutexM.Reach`.
-/
import Kanal.ProtoConf

namespace Kanal
namespace ProtoSim
open MutexM (Pc SpinPc Consts upd)
open ProtoConf

/-- the lock flag as the code's CAS sees it -/
def flagNat (b : Bool) : Nat := if b then 1 else 0
/-- the flag after writing `n` -/
def natFlag (n : Nat) : Bool := n != 0

structure MCfg where
  locked : Bool
  trees  : Nat → PAct      -- the remaining tree of each thread

/-- One step of thread `t`'s tree against the flag.  `par1`: what `get_parallelism() == 1` answers on this machine. -/
inductive MStep (par1 : Bool) : MCfg → MCfg → Prop where
  | casOk {g t e n so fo k} : g.trees t = .cas e n so fo k → flagNat g.locked = e →
      MStep par1 g { locked := natFlag n, trees := upd g.trees t (k none) }
  | casFail {g t e n so fo k} : g.trees t = .cas e n so fo k → flagNat g.locked ≠ e →
      MStep par1 g { g with trees := upd g.trees t (k (some (flagNat g.locked))) }
  | store {g t v o k} : g.trees t = .store v o k → MStep par1 g { locked := natFlag v, trees := upd g.trees t k }
  | load {g t o k} : g.trees t = .load o k → MStep par1 g { g with trees := upd g.trees t (k (flagNat g.locked)) }
  | fence {g t o k} : g.trees t = .fence o k → MStep par1 g { g with trees := upd g.trees t k }
  | eff {g t e k} : g.trees t = .eff e k → MStep par1 g { g with trees := upd g.trees t k }
  | ask {g t q k} (b : Bool) : g.trees t = .askB q k → (q = .parEq1 → b = par1) →
      MStep par1 g { g with trees := upd g.trees t (k b) }

/-- The correspondence between a machine configuration and a state of `MutexM`. -/
structure MRel (o : MutexM.Ords) (c : Consts) (par1 : Bool) (Q : Option Bool → Pc → Prop) (g : MCfg) (s : MutexM.State) : Prop where
  locked : g.locked = s.locked
  conf   : ∀ t, MConf o c par1 Q (g.trees t) (s.pc t)

theorem conf_upd {o : MutexM.Ords} {c : Consts} {par1 : Bool} {Q} {trees : Nat → PAct} {pc : Nat → Pc}
    (h : ∀ t, MConf o c par1 Q (trees t) (pc t)) (t : Nat) {T : PAct} {p : Pc} (hT : MConf o c par1 Q T p) :
    ∀ t', MConf o c par1 Q (upd trees t T t') (upd pc t p t') := by
  intro t'
  unfold upd
  by_cases ht : t' = t
  · simp only [ht, if_true]; exact hT
  · simp only [ht, if_false]; exact h t'

theorem flagNat_eq_zero {b : Bool} : flagNat b = 0 ↔ b = false := by cases b <;> simp [flagNat]

/-- Every machine step is matched by exactly one model event of the same thread (`cas ↦ .cas t`, a yield / spin hint /
    sleep `↦ .aux t`, `store ↦ .unlock t`), except the question `parEq1`, which is a stutter. -/
theorem mutex_sim {o : MutexM.Ords} {c : Consts} {par1 : Bool} {Q} {g g' : MCfg} {s : MutexM.State}
    (hR : MRel o c par1 Q g s) (hs : MStep par1 g g') :
    (∃ ev s', MutexM.step o c par1 s ev = some s' ∧ MRel o c par1 Q g' s') ∨ MRel o c par1 Q g' s := by
  obtain ⟨hl, hconf⟩ := hR
  cases hs with
  | @casOk t e n so fo k htree hflag =>
    have hc := hconf t; rw [htree] at hc
    generalize hpc : s.pc t = pc at hc
    cases hc with
    | casTry hok hfail =>
      have hlk : s.locked = false := by rw [← hl]; exact flagNat_eq_zero.mp hflag
      exact .inl ⟨.cas t, MutexM.acquire o s t, by simp [MutexM.step, hpc, hlk], ⟨rfl, conf_upd hconf t hok⟩⟩
    | casFast hok hfail =>
      have hlk : s.locked = false := by rw [← hl]; exact flagNat_eq_zero.mp hflag
      exact .inl ⟨.cas t, MutexM.acquire o s t, by simp [MutexM.step, hpc, hlk], ⟨rfl, conf_upd hconf t hok⟩⟩
    | casSpin hcond hok hfail =>
      have hlk : s.locked = false := by rw [← hl]; exact flagNat_eq_zero.mp hflag
      exact .inl ⟨.cas t, MutexM.acquire o s t, by simp [MutexM.step, hpc, hlk, hcond], ⟨rfl, conf_upd hconf t hok⟩⟩
  | @casFail t e n so fo k htree hflag =>
    have hc := hconf t; rw [htree] at hc
    generalize hpc : s.pc t = pc at hc
    cases hc with
    | casTry hok hfail =>
      have hlk : s.locked = true := by rw [← hl]; cases h : g.locked <;> simp_all [flagNat]
      exact .inl ⟨.cas t, { s with pc := upd s.pc t .gaveUp }, by simp [MutexM.step, hpc, hlk], ⟨hl, conf_upd hconf t (hfail _)⟩⟩
    | casFast hok hfail =>
      have hlk : s.locked = true := by rw [← hl]; cases h : g.locked <;> simp_all [flagNat]
      exact .inl ⟨.cas t, { s with pc := upd s.pc t (.spin (SpinPc.entry c par1)) }, by simp [MutexM.step, hpc, hlk],
        ⟨hl, conf_upd hconf t (hfail _)⟩⟩
    | @casSpin _ p hcond hok hfail =>
      have hlk : s.locked = true := by rw [← hl]; cases h : g.locked <;> simp_all [flagNat]
      exact .inl ⟨.cas t, { s with pc := upd s.pc t (.spin (p.afterFail c)) }, by simp [MutexM.step, hpc, hlk, hcond],
        ⟨hl, conf_upd hconf t (hfail _)⟩⟩
  | @store t v o' k htree =>
    have hc := hconf t; rw [htree] at hc
    generalize hpc : s.pc t = pc at hc
    cases hc with
    | unlock hk =>
      exact .inl ⟨.unlock t,
        { s with locked := false, pc := upd s.pc t .idle,
                 perm := if o.unlock.isRelease && s.perm == some t then none else s.perm },
        by simp [MutexM.step, hpc], ⟨rfl, conf_upd hconf t hk⟩⟩
  | @load t o' k htree =>
    have hc := hconf t; rw [htree] at hc
    generalize hpc : s.pc t = pc at hc
    cases hc
  | @fence t o' k htree =>
    have hc := hconf t; rw [htree] at hc
    generalize hpc : s.pc t = pc at hc
    cases hc
  | @eff t e k htree =>
    have hc := hconf t; rw [htree] at hc
    generalize hpc : s.pc t = pc at hc
    cases hc with
    | @aux _ _ p hcond hst hk =>
      exact .inl ⟨.aux t, { s with pc := upd s.pc t (.spin (p.afterAux c)) }, by simp [MutexM.step, hpc, hcond],
        ⟨hl, conf_upd hconf t hk⟩⟩
  | @ask t q k b htree hb =>
    have hc := hconf t; rw [htree] at hc
    generalize hpc : s.pc t = pc at hc
    cases hc with
    | askPar hk =>
      have := hb rfl; subst this
      refine .inr ⟨hl, fun t' => ?_⟩
      show MConf o c b Q (upd g.trees t (k b) t') (s.pc t')
      unfold upd
      by_cases ht : t' = t
      · simp only [ht, if_true]; rw [hpc]; exact hk
      · simp only [ht, if_false]; exact hconf t'

/-! ### executions: call starts, and the model state stays reachable -/

theorem mrun_one {o : MutexM.Ords} {c : Consts} {par1 : Bool} {s s' : MutexM.State} {e : MutexM.Ev}
    (h : MutexM.step o c par1 s e = some s') : MutexM.run o c par1 s [e] = some s' := by
  simp [MutexM.run, h]

theorem mrun_append {o : MutexM.Ords} {c : Consts} {par1 : Bool} :
    ∀ {es : List MutexM.Ev} {s s1 s' : MutexM.State} {es' : List MutexM.Ev},
    MutexM.run o c par1 s es = some s1 → MutexM.run o c par1 s1 es' = some s' →
    MutexM.run o c par1 s (es ++ es') = some s' := by
  intro es
  induction es with
  | nil => intro s s1 s' es' h h'; simp [MutexM.run] at h; subst h; simpa using h'
  | cons e es ih =>
    intro s s1 s' es' h h'
    simp only [MutexM.run, List.cons_append] at h ⊢
    split at h
    · exact ih h h'
    · cases h

theorem upd_upd {β : Type} (f : Nat → β) (t : Nat) (a b : β) : upd (upd f t a) t b = upd f t b := by
  funext x; unfold upd; by_cases h : x = t <;> simp [h]

theorem upd_self {β : Type} (f : Nat → β) (t : Nat) (a : β) : upd f t a t = a := by simp [upd]

/-- Machine steps plus the start of a call: a thread whose previous call has returned (`.done r`) begins a
    `try_lock`-rooted tree (`TryT`) or a `lock`-rooted tree (`LockT`). -/
inductive MStepS (par1 : Bool) (TryT LockT : PAct → Prop) : MCfg → MCfg → Prop where
  | step {g g'} : MStep par1 g g' → MStepS par1 TryT LockT g g'
  | startTry {g t r T} : g.trees t = .done r → TryT T → MStepS par1 TryT LockT g { g with trees := upd g.trees t T }
  | startLock {g t r T} : g.trees t = .done r → LockT T → MStepS par1 TryT LockT g { g with trees := upd g.trees t T }

inductive MStepsS (par1 : Bool) (TryT LockT : PAct → Prop) : MCfg → MCfg → Prop where
  | refl (g) : MStepsS par1 TryT LockT g g
  | tail {a b c} : MStepsS par1 TryT LockT a b → MStepS par1 TryT LockT b c → MStepsS par1 TryT LockT a c

/-- If calls return only at `idle` or `gaveUp` and the entry trees conform at `tryOnce` / `lockFast`, every step of the
    machine with call starts is matched by at most two model events (`retry t` before a new call after a failed `try_lock`). -/
theorem mutex_sim_start {o : MutexM.Ords} {c : Consts} {par1 : Bool} {Q} {TryT LockT : PAct → Prop}
    (hQ : ∀ r pc, Q r pc → pc = .idle ∨ pc = .gaveUp)
    (hTry : ∀ T, TryT T → MConf o c par1 Q T .tryOnce) (hLock : ∀ T, LockT T → MConf o c par1 Q T .lockFast)
    {g g' : MCfg} {s : MutexM.State} (hR : MRel o c par1 Q g s) (hs : MStepS par1 TryT LockT g g') :
    ∃ evs s', MutexM.run o c par1 s evs = some s' ∧ MRel o c par1 Q g' s' := by
  -- a thread whose tree is `.done r` can be brought to `entry` (= `tryOnce` via `tryLock t`, `lockFast` via `lock t`)
  have start : ∀ (t : Nat) (r : Option Bool) (T : PAct) (entry : Pc) (ev : MutexM.Ev), g.trees t = .done r →
      MConf o c par1 Q T entry →
      (∀ s0 : MutexM.State, s0.pc t = .idle → MutexM.step o c par1 s0 ev = some { s0 with pc := upd s0.pc t entry }) →
      ∃ evs s', MutexM.run o c par1 s evs = some s' ∧ MRel o c par1 Q { g with trees := upd g.trees t T } s' := by
    intro t r T entry ev htree hT hev
    have hc := hR.conf t; rw [htree] at hc
    generalize hpc : s.pc t = pc at hc
    cases hc with
    | done hq =>
      rcases hQ _ _ hq with rfl | rfl
      · exact ⟨[ev], _, mrun_one (hev s hpc), ⟨hR.locked, conf_upd hR.conf t hT⟩⟩
      · have h1 : MutexM.step o c par1 s (.retry t) = some { s with pc := upd s.pc t .idle } := by
          simp [MutexM.step, hpc]
        have h2 := hev { s with pc := upd s.pc t .idle } (upd_self _ _ _)
        refine ⟨[.retry t] ++ [ev], _, mrun_append (mrun_one h1) (mrun_one h2), ⟨hR.locked, ?_⟩⟩
        show ∀ t', MConf o c par1 Q (upd g.trees t T t') (upd (upd s.pc t .idle) t entry t')
        rw [upd_upd]; exact conf_upd hR.conf t hT
  cases hs with
  | step h =>
    rcases mutex_sim hR h with ⟨ev, s', h1, h2⟩ | h2
    · exact ⟨[ev], s', mrun_one h1, h2⟩
    · exact ⟨[], s, rfl, h2⟩
  | @startTry t r T htree hT =>
    exact start t r T .tryOnce (.tryLock t) htree (hTry T hT) (fun s0 h0 => by simp [MutexM.step, h0])
  | @startLock t r T htree hT =>
    exact start t r T .lockFast (.lock t) htree (hLock T hT) (fun s0 h0 => by simp [MutexM.step, h0])

theorem mutex_sim_steps {o : MutexM.Ords} {c : Consts} {par1 : Bool} {Q} {TryT LockT : PAct → Prop}
    (hQ : ∀ r pc, Q r pc → pc = .idle ∨ pc = .gaveUp)
    (hTry : ∀ T, TryT T → MConf o c par1 Q T .tryOnce) (hLock : ∀ T, LockT T → MConf o c par1 Q T .lockFast)
    {g g' : MCfg} {s : MutexM.State} (hR : MRel o c par1 Q g s) (h : MStepsS par1 TryT LockT g g') :
    ∃ evs s', MutexM.run o c par1 s evs = some s' ∧ MRel o c par1 Q g' s' := by
  induction h with
  | refl => exact ⟨[], s, rfl, hR⟩
  | tail _ hstep ih =>
    obtain ⟨evs, s1, hrun, hR1⟩ := ih
    obtain ⟨evs', s', hrun', hR'⟩ := mutex_sim_start hQ hTry hLock hR1 hstep
    exact ⟨evs ++ evs', s', mrun_append hrun hrun', hR'⟩

/-- Along any execution from the initial configuration (flag clear, no call in progress) the related model state is
    reachable in `MutexM`. -/
theorem mutex_exec_reach {o : MutexM.Ords} {c : Consts} {par1 : Bool} {Q} {TryT LockT : PAct → Prop}
    (hQ : ∀ r pc, Q r pc → pc = .idle ∨ pc = .gaveUp) (h0 : Q none .idle)
    (hTry : ∀ T, TryT T → MConf o c par1 Q T .tryOnce) (hLock : ∀ T, LockT T → MConf o c par1 Q T .lockFast)
    {g' : MCfg} (h : MStepsS par1 TryT LockT ⟨false, fun _ => .done none⟩ g') :
    ∃ s', MutexM.Reach o c par1 s' ∧ MRel o c par1 Q g' s' := by
  have hR : MRel o c par1 Q ⟨false, fun _ => .done none⟩ {} := ⟨rfl, fun _ => .done h0⟩
  obtain ⟨evs, s', hrun, hR'⟩ := mutex_sim_steps hQ hTry hLock hR h
  exact ⟨s', MutexM.Reach.init.run evs s' hrun, hR'⟩

/-! ### non-vacuity: `if try_lock() { unlock() }` -/

def exT (o : MutexM.Ords) : PAct :=
  .cas 0 1 o.lockSucc o.lockFail fun r => if r.isNone then .store 0 o.unlock (.done none) else .done (some false)

theorem exT_conf (o : MutexM.Ords) (c : Consts) (par1 : Bool) :
    MConf o c par1 (fun _ pc => pc = .idle ∨ pc = .gaveUp) (exT o) .tryOnce :=
  .casTry (.unlock (.done (.inl rfl))) (fun _ => .done (.inr rfl))

example (o : MutexM.Ords) (c : Consts) (par1 : Bool) :
    ∃ s', MutexM.Reach o c par1 s' ∧
      MRel o c par1 (fun _ pc => pc = .idle ∨ pc = .gaveUp) ⟨natFlag 1, upd (fun _ => .done none) 7 (.store 0 o.unlock (.done none))⟩ s' := by
  refine mutex_exec_reach (TryT := fun T => T = exT o) (LockT := fun _ => False) (fun _ _ h => h) (.inl rfl)
    (fun T hT => hT ▸ exT_conf o c par1) (fun _ h => h.elim) ?_
  have h1 : MStepS par1 (fun T => T = exT o) (fun _ => False) ⟨false, fun _ => .done none⟩
      ⟨false, upd (fun _ => .done none) 7 (exT o)⟩ :=
    .startTry (g := ⟨false, fun _ => .done none⟩) (t := 7) rfl rfl
  have h2 : MStepS par1 (fun T => T = exT o) (fun _ => False) ⟨false, upd (fun _ => .done none) 7 (exT o)⟩
      ⟨natFlag 1, upd (upd (fun _ => .done none) 7 (exT o)) 7 (.store 0 o.unlock (.done none))⟩ :=
    .step (.casOk (g := ⟨false, upd (fun _ => .done none) 7 (exT o)⟩) (t := 7) (e := 0) (n := 1)
      (so := o.lockSucc) (fo := o.lockFail)
      (k := fun r => if r.isNone then .store 0 o.unlock (.done none) else .done (some false))
      (upd_self (fun _ => PAct.done none) 7 (exT o)) rfl)
  rw [upd_upd] at h2
  exact .tail (.tail (.refl _) h1) h2


end ProtoSim
end Kanal

#print axioms Kanal.ProtoSim.mutex_sim
#print axioms Kanal.ProtoSim.mutex_sim_start
#print axioms Kanal.ProtoSim.mutex_sim_steps
#print axioms Kanal.ProtoSim.mutex_exec_reach
