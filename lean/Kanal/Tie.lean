/-
  Kanal.Tie — the static half of the tie between the models and /repo's current source.

  `Kanal/Generated.lean` is rewritten from the source by /verif/extract/extract.py on
  every check run.  The theorems here state, about those generated facts, exactly what
  the hand-written models assume: shape theorems (every site was found, nothing extra),
  and value theorems (orderings strong enough, comparison operators, guards, cleanup
  facts as modelled).  A site the extractor can no longer find, or a fact whose value
  changed, makes one of these fail to check — the check then reports the broken tie and
  searches for a failing input.
-/
import Kanal.Generated
import Kanal.MutexM
import Kanal.PtrM

namespace Kanal.Tie
open Kanal Kanal.Generated

/-! ### The lock (C17) -/

/-- Orderings of the spin lock, read off the generated atomics of `try_lock` / `unlock`. -/
def mutexOrds : MutexM.Ords :=
  match atomics_mutex_try_lock, atomics_mutex_unlock with
  | [⟨.cas, [s, f]⟩], [⟨.store, [u]⟩] => ⟨s, f, u⟩
  | _, _ => ⟨.relaxed, .relaxed, .relaxed⟩

/-- `try_lock` is exactly one CAS, `unlock` exactly one store. -/
theorem mutex_shape :
    atomics_mutex_try_lock.map (·.kind) = [.cas] ∧ atomics_mutex_unlock.map (·.kind) = [.store] ∧
    (atomics_mutex_try_lock.map (·.ords.length)) = [2] ∧ (atomics_mutex_unlock.map (·.ords.length)) = [1] := by
  decide

/-- The orderings the code passes are strong enough for `c17_visibility`. -/
theorem mutex_ords_ok : mutexOrds.lockSucc.isAcquire = true ∧ mutexOrds.unlock.isRelease = true := by decide

/-- `lock()` = fast-path `try_lock`, then `spin_cond(|| try_lock())`; `spin_cond` has the
    modelled structure: parallelism-1 `while !cond() { yield }`, every `return` guarded by
    `cond()`, an outer `loop`. -/
theorem lock_structure :
    mutex_lock_fast_path_try = true ∧ mutex_lock_slow_spin_cond_try = true ∧
    spin_cond_par1_loop = true ∧ spin_cond_outer_loop = true ∧
    spin_cond_returns = spin_cond_returns_guarded ∧ mutex_guard_marker_is_GuardSend = true := by decide

/-- Loop constants of `spin_cond` as the model takes them. -/
def mutexConsts : MutexM.Consts :=
  match spin_cond_consts with
  | [_, _, _, zs, spins] => ⟨spins / 2, spins, zs, 2 ^ spin_cond_spin_max_log2⟩
  | _ => ⟨0, 0, 0, 0⟩

/-- NO_YIELD = SPIN_YIELD = 1, OS_YIELD = 0 (the phases the model has), `spins ≥ 1`. -/
theorem spin_consts_ok :
    spin_cond_consts.take 3 = [1, 1, 0] ∧ 0 < mutexConsts.spins0 ∧ mutexConsts.spinMax = 1073741824 := by decide

/-! ### The signal protocol (C06, C07) -/

/-- Orderings of the signal protocol as the signal model takes them. -/
structure SigOrds where
  spinLoad     : Ord   -- waiter: `state.load` in the spin phases
  spinFence    : Ord   -- waiter: `fence` after seeing a final value
  starvCasSucc : Ord   -- waiter: CAS LOCKED → LOCKED_STARVATION, success
  starvCasFail : Ord   --         … failure
  parkLoad     : Ord   -- waiter: load after `park()`
  timeoutFinal : Ord   -- waiter: last load of `wait_timeout`
  wakeCasSucc  : Ord   -- peer (sync): CAS LOCKED → final, success
  wakeCasFail  : Ord   --              … failure
  wakeStoreSync  : Ord -- peer (sync): store of the final state after a failed CAS
  wakeStoreAsync : Ord -- peer (async): store of the final state
  deriving DecidableEq, Repr

def sigOrds : SigOrds :=
  match atomics_signal_wait, atomics_signal_wait_timeout, atomics_signal_wake with
  | [⟨.load, [l1]⟩, ⟨.fence, [f1]⟩, ⟨.load, [_]⟩, ⟨.fence, [_]⟩, ⟨.cas, [cs, cf]⟩, ⟨.load, [pl]⟩],
    [⟨.load, [_]⟩, ⟨.fence, [_]⟩, ⟨.load, [_]⟩, ⟨.fence, [_]⟩, ⟨.load, [tf]⟩],
    [⟨.cas, [ws, wf]⟩, ⟨.store, [s1]⟩, ⟨.store, [s2]⟩] => ⟨l1, f1, cs, cf, pl, tf, ws, wf, s1, s2⟩
  | _, _, _ => ⟨.relaxed, .relaxed, .relaxed, .relaxed, .relaxed, .relaxed, .relaxed, .relaxed, .relaxed, .relaxed⟩

/-- Every atomic site of the waiter and peer functions was found, in the modelled order, and
    every load in a spin phase is followed by a fence with the same ordering at each site. -/
theorem signal_shape :
    atomics_signal_wait.map (·.kind) = [.load, .fence, .load, .fence, .cas, .load] ∧
    atomics_signal_wait_timeout.map (·.kind) = [.load, .fence, .load, .fence, .load] ∧
    atomics_signal_poll.map (·.kind) = [.load, .fence] ∧
    atomics_signal_async_blocking_wait.map (·.kind) = [.load, .fence, .load, .fence, .load, .fence] ∧
    atomics_signal_is_terminated.map (·.kind) = [.load] ∧
    atomics_signal_wake.map (·.kind) = [.cas, .store, .store] := by decide

/-- All spin-phase loads share one ordering and all their fences share one ordering. -/
theorem signal_uniform :
    (atomics_signal_wait ++ atomics_signal_wait_timeout.take 4 ++ atomics_signal_poll ++
      atomics_signal_async_blocking_wait).all
      (fun a => (a.kind == .load && a.ords == [sigOrds.spinLoad]) ||
                (a.kind == .fence && a.ords == [sigOrds.spinFence]) ||
                (a.kind == .cas) || (a.kind == .load && a.ords == [sigOrds.parkLoad])) = true := by decide

/-- The orderings are strong enough for the hand-off to be race free (`c07` theorems):
    the final store/CAS of the peer releases; the waiter acquires either by an acquiring
    load/CAS or by a relaxed load followed by an acquire fence. -/
theorem signal_ords_ok :
    sigOrds.wakeCasSucc.isRelease = true ∧ sigOrds.wakeCasFail.isAcquire = true ∧
    sigOrds.wakeStoreSync.isRelease = true ∧ sigOrds.wakeStoreAsync.isRelease = true ∧
    sigOrds.spinFence.isAcquire = true ∧ sigOrds.starvCasSucc.isRelease = true ∧
    sigOrds.starvCasFail.isAcquire = true ∧ sigOrds.parkLoad.isAcquire = true ∧
    sigOrds.timeoutFinal.isAcquire = true := by decide

/-- Structure of `wake`, `Signal::send/recv`, `wait`: payload access before the wake; sync arm =
    CAS, then (on failure) read the thread handle, store, unpark; async arm = clone the waker,
    store, wake; `park` in a re-checking loop; the thread handle is published before the
    starvation CAS; `wait_timeout` never parks; all finality tests compare with LOCKED;
    the four state constants are 0,1,2,3 in the modelled order. -/
theorem signal_structure :
    wake_sync_sequence = [.cas, .readHandle, .store, .unpark] ∧
    wake_async_sequence = [.cloneWaker, .store, .wake] ∧
    wake_sync_unpark_only_on_cas_failure = true ∧
    signal_send_payload_before_wake = true ∧ signal_recv_payload_before_wake = true ∧
    wait_park_in_loop = true ∧ wait_publish_before_cas = true ∧ wait_timeout_parks = false ∧
    final_tests_total = final_tests_locked ∧ signal_consts = [0, 1, 2, 3] ∧
    spins_wait = [256] ∧ spins_wait_timeout = [32] ∧ spins_async_blocking_wait = [32] := by decide

/-! ### `KanalPtr` size tests (C04) -/

/-- The size tests of pointer.rs, lib.rs and future.rs as the byte model takes them. -/
def sizeCfg : PtrM.SizeCfg :=
  match sizeTests_ptr_new_from, sizeTests_ptr_new_owned, sizeTests_ptr_new_write_address_ptr, sizeTests_ptr_read,
        sizeTests_ptr_write, sizeTests_ptr_copy, sizeTests_ptr_store_as_kanal_ptr with
  | [a], [b], [c], [r1, r2], [w1, w2], [c1, c2], [st] =>
    match sizeTests_lib_recv, sizeTests_lib_recv_timeout, sizeTests_fut_send_new, sizeTests_fut_send_poll,
          sizeTests_fut_send_read_local_data, sizeTests_fut_send_drop_local_data, sizeTests_fut_recv_poll,
          sizeTests_fut_recv_read_local_data, sizeTests_fut_recv_drop_local_data with
    | [l1], [l2], [f1], [f2], [f3], [f4], [g2], [g3], [g4] =>
      ⟨a, b, c, r1, r2, w1, w2, c1, c2, st, l1, l2, f1, f2, f3, f4, g2, g3, g4⟩
    | _, _, _, _, _, _, _, _, _ => { PtrM.SizeCfg.good with readZst := (.ne, false) }
  | _, _, _, _, _, _, _ => { PtrM.SizeCfg.good with readZst := (.ne, false) }

/-- All 21 size tests are present, and each compares the way the byte model's proofs need
    (`> pointer size` for the indirect encoding, `== 0` / `> 0` for the zero-sized case);
    `new_unchecked` has none. -/
theorem size_tests_ok : sizeCfg = PtrM.SizeCfg.good ∧ sizeTests_ptr_new_unchecked = [] := by decide

/-! ### Critical sections (C08, C10, C11, C12, C14, C18, C19) -/

/-- All eight admission tests are `queue.len() < capacity`. -/
theorem admission_ok : admission.map (·.2) = [.lt, .lt, .lt, .lt, .lt, .lt, .lt, .lt] := by decide

/-- Every send-like entry point tests `recv_count == 0` first (answering `Closed` iff also
    `send_count == 0`), then looks for a waiting receiver, then tests for room. -/
theorem send_guards_ok :
    send_guards.map (·.2) = List.replicate 8 (.eq, .eq, true) := by decide

/-- Every receive-like entry point tests `recv_count == 0` first and consults the buffer and the
    blocked senders before testing `send_count == 0`. -/
theorem recv_guards_ok : recv_guards.map (·.2) = List.replicate 6 (.eq, .eq, true) := by decide

/-- Exactly the `*_realtime` variants use `try_acquire_internal`; everything else blocks on the lock. -/
theorem lock_acquisition_ok :
    lock_acquisition.map (·.2) = [some false, some false, some false, some false, some false, some true, some true, some false] ∧
    recv_lock_acquisition.map (·.2) = [some false, some false, some false, some true, some false, some false] := by decide

/-- `recv_timeout` pre-check is `now > deadline`; `wait_timeout` loops `while now < until`. -/
theorem timed_tests_ok : recv_timeout_precheck = .gt ∧ wait_timeout_loop_test = .lt := by decide

/-- `drain_into`: count = `queue.len() + (recv_blocking ? 0 : wait_list.len())`, buffer before senders,
    returns that count. -/
theorem drain_ok : drain_count_guarded_by_flag = true ∧ drain_buffer_before_senders = true ∧
    drain_returns_required_cap = true ∧ drain_lock_acquisitions = 1 ∧ drain_never_releases_lock = true := by decide

/-- One lock acquisition per critical section: every entry point takes the channel lock once
    (twice for the calls that have a second, cancel / waker-refresh section), observers and `close`
    once, the futures' `Drop` once; nowhere is the lock released and re-taken inside a section. -/
theorem lock_counts_ok :
    lock_counts = [1, 2, 2, 1, 1, 1, 1, 2, 1, 2, 1, 1, 1, 2] ∧ observer_lock_counts = [1, 1, 1, 1, 1, 1, 1, 1, 1] ∧
    future_drop_lock_counts = [1, 1] ∧ reacquire_after_release_sites = 0 ∧ close_single_guard = 1 := by decide

/-- No function of lib.rs is composed of several lock sections (its own acquisitions plus the lock-taking
    methods it calls on `self`), except the three timed calls (registration + cancel): each observer is one
    snapshot of one channel state, each operation one critical section. -/
theorem single_section_ok :
    api_lock_totals.all (· == 1) = true ∧ api_lock_totals.length ≥ 27 ∧ api_lock_totals_timed = [2, 2, 2] := by decide

/-- Clone/Drop/clone_* : 12 guarded updates, all `count > 0`; Drop terminates waiters exactly on
    the 1→0 transition with the other side alive; `close` is one guard: test, zero both, terminate, clear. -/
theorem counts_ok :
    count_guards.length = 12 ∧ count_guards.all (fun g => g.2.1 == .gt) = true ∧
    (count_guards.filter (fun g => g.1 && g.2.2)).length = 4 ∧ (count_guards.filter (fun g => g.1 && !g.2.2)).length = 2 ∧
    (count_guards.filter (fun g => !g.1 && g.2.2)).length = 4 ∧ (count_guards.filter (fun g => !g.1 && !g.2.2)).length = 2 ∧
    drop_terminate_guards = [(true, .eq, false, .ne), (true, .eq, false, .ne), (false, .eq, true, .ne), (false, .eq, true, .ne)] ∧
    close_sequence = [.test, .zeroR, .zeroS, .terminate, .clear] ∧ close_single_guard = 1 := by decide

/-- Wait-list and buffer discipline: pop from the front, push at the back, cancel by `remove(i)`,
    refill by `push_back`, no `pop_back` / `push_front` anywhere. -/
theorem list_discipline_ok :
    next_send_shape = true ∧ next_recv_shape = true ∧ push_send_back = true ∧ push_recv_back = true ∧
    cancel_send_signal_remove = true ∧ cancel_recv_signal_remove = true ∧
    refill_push_back = 5 ∧ queue_pop_front_sites = 6 ∧ queue_pop_back_sites = 0 ∧ queue_push_front_sites = 0 := by decide

/-! ### Cleanup facts of the blocked-send paths and futures (C05, C13, C15, C16): the repaired tree -/

/-- The source has every repair the model's `Variant.good` stands for (D1–D5), and the other
    cleanup facts the model assumes: `send` drops its value on the failure exit, both futures
    cancel-or-wait in `Drop`. -/
theorem variant_good :
    d1_timeout_drops = true ∧ d2_option_value_in_maybeuninit = true ∧ d3_stream_rearm = true ∧
    d4_send_waker_refresh = true ∧ d4_send_waker_refresh_under_lock = true ∧
    d5_recv_waker_refresh = true ∧ d5_recv_waker_refresh_under_lock = true ∧
    send_drops_on_failure = true ∧ send_timeout_drops_on_terminate = 3 ∧
    send_future_drop_cancels = true ∧ recv_future_drop_cancels = true := by decide

end Kanal.Tie

#print axioms Kanal.Tie.mutex_shape
#print axioms Kanal.Tie.mutex_ords_ok
#print axioms Kanal.Tie.lock_structure
#print axioms Kanal.Tie.spin_consts_ok
#print axioms Kanal.Tie.signal_shape
#print axioms Kanal.Tie.signal_uniform
#print axioms Kanal.Tie.signal_ords_ok
#print axioms Kanal.Tie.signal_structure
#print axioms Kanal.Tie.size_tests_ok
#print axioms Kanal.Tie.admission_ok
#print axioms Kanal.Tie.send_guards_ok
#print axioms Kanal.Tie.recv_guards_ok
#print axioms Kanal.Tie.lock_acquisition_ok
#print axioms Kanal.Tie.timed_tests_ok
#print axioms Kanal.Tie.drain_ok
#print axioms Kanal.Tie.lock_counts_ok
#print axioms Kanal.Tie.single_section_ok
#print axioms Kanal.Tie.counts_ok
#print axioms Kanal.Tie.list_discipline_ok
#print axioms Kanal.Tie.variant_good
