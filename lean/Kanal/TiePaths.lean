/-
  Kanal.TiePaths — whole call paths of the translated signal / mutex code, end to end.

  `TieProto.lean` proves every generated function conformant for every conforming continuation;
  `ProtoSim.lean` / `ProtoSimMutex.lean` prove the conformance relations adequate (a machine running
  conformant trees against a real word is simulated by `SigM` / `MutexM`).  Here the functions are
  composed the way the callers in lib.rs / future.rs compose them (a blocked call = `wait()`; a timed
  call = `wait_timeout()`, `is_terminated()`, fall back to `wait()`; a future = `poll()`* then possibly
  `async_blocking_wait()`; the peer = `send` / `recv` / `terminate`), and the two layers are combined:
  every execution of the translated code is an execution of the model, so the model's theorems
  (C07: no race, no dangling access; C17: mutual exclusion) hold of it.
-/
import Kanal.TieProto
import Kanal.ProtoSim
import Kanal.ProtoSimMutex
import Kanal.Props.C07
import Kanal.Props.C17

namespace Kanal.TiePaths
open ProtoConf PAct ProtoSim TieProto
open SigM (St WKind WPc PPc)
open MutexM (Pc SpinPc)
open C07 (treeOrds)

/-! ### Post-conditions -/

/-- The call has returned `v == UNLOCKED` with the model's waiter at `done v b`. -/
def Qret : Option Bool → WKind → WPc → Prop :=
  fun r _ pc => ∃ v b, pc = .done v b ∧ r = some (St.toNat v == 0)

/-- … or `wait_timeout` has returned `false` because its last (acquire) load saw something else than UNLOCKED. -/
def Qall : Option Bool → WKind → WPc → Prop :=
  fun r kind pc => Qret r kind pc ∨ (pc = .timedIsTerm ∧ r = some false)

/-- Conformance is monotone in the post-condition. -/
theorem WConf.mono {o : SigM.Ords} {Q Q' : Option Bool → WKind → WPc → Prop} (hQ : ∀ r kind pc, Q r kind pc → Q' r kind pc)
    {t : PAct} {kind : WKind} {pc : WPc} (h : WConf o Q t kind pc) : WConf o Q' t kind pc := by
  induction h with
  | done hq => exact .done (hQ _ _ _ hq)
  | diverge => exact .diverge
  | stutter he _ ih => exact .stutter he ih
  | ask _ ih => exact .ask ih
  | giveUpSync _ ih => exact .giveUpSync ih
  | giveUpTimed _ ih => exact .giveUpTimed ih
  | load _ ih => exact .load ih
  | fence _ ih => exact .fence ih
  | timedFinal _ ih => exact .timedFinal ih
  | timedIsTerm _ ih => exact .timedIsTerm ih
  | publish _ ih => exact .publish ih
  | casStarv _ _ ih1 ih2 => exact .casStarv ih1 ih2
  | park _ ih => exact .park ih
  | parkLoad _ ih => exact .parkLoad ih
  | reload _ ih => exact .reload ih

/-! ### 1. A blocked sync call -/

/-- The waiter-side tree of a blocked `send` / `recv`: `sig.wait()`. -/
def syncW (fuel : Nat) : PAct := Gen.Signal_wait fuel .sync (fun b => .done (some b))

/-- **A blocked call** conforms from its spin phase to its return, and returns `v == UNLOCKED`. -/
theorem sync_waiter_path (fuel : Nat) : WConf treeOrds Qret (syncW fuel) .sync .spin :=
  wait_conf fuel _ (fun v b _ => .done ⟨v, b, rfl, rfl⟩)

/-! ### 2. A timed call -/

/-- What `is_terminated()` and the fallback to `wait()` do after `wait_timeout()` returned `false` with the signal
    still owned by a peer (the cancel under the channel lock — not a signal operation — failed). -/
def timedW2 (fuel : Nat) : PAct :=
  Gen.Signal_is_terminated fuel .sync (fun t => if t then .done (some false)
    else Gen.Signal_wait fuel .sync (fun b => .done (some b)))

/-- The whole waiter-side tree of a timed call, as the caller composes it. -/
def timedW (fuel : Nat) : PAct :=
  Gen.Signal_wait_timeout fuel .sync (fun ok => if ok then .done (some true) else timedW2 fuel)

/-- First phase alone: `wait_timeout()` and its result. -/
def timedW1 (fuel : Nat) : PAct := Gen.Signal_wait_timeout fuel .sync (fun ok => .done (some ok))

/-- **`wait_timeout()`** conforms from the spin phase: it returns `true` at `done unlocked b`, `false` at
    `done terminated b` (a spin-phase load saw TERMINATED) or `false` at `timedIsTerm` (the final acquire load saw
    something else than UNLOCKED). -/
theorem timed_phase1_path (fuel : Nat) : WConf treeOrds Qall (timedW1 fuel) .timed .spin := by
  apply wait_timeout_conf
  · intro v b _; exact .done (.inl ⟨v, b, rfl, rfl⟩)
  · exact .done (.inr ⟨rfl, rfl⟩)

/-- **`is_terminated()` then the fallback `wait()`** conform from `timedIsTerm` — `SigM`'s `wTimedIsTerm` moving to
    `(sync, spin)` when the signal is not terminated — to the return. -/
theorem timed_phase2_path (fuel : Nat) : WConf treeOrds Qret (timedW2 fuel) .timed .timedIsTerm := by
  apply is_terminated_conf
  · exact .done ⟨.terminated, false, rfl, rfl⟩
  · show WConf treeOrds Qret (Gen.Signal_wait fuel .sync (fun b => .done (some b))) .sync .spin
    exact wait_conf fuel (fun b => .done (some b)) (fun v b _ => .done ⟨v, b, rfl, rfl⟩)

/-- **A timed call, the whole composite tree**: `wait_timeout()`; on `false`, `is_terminated()`; if that is `false`
    too (the cancel under the channel lock — not a signal operation — failed: a peer owns the signal) fall back to
    `wait()`.  It conforms from the spin phase to the return and returns `v == UNLOCKED` with the model at `done v b`.
    When a spin-phase load of `wait_timeout()` has seen TERMINATED the model's waiter is already at `done terminated b`;
    the following `is_terminated()` is a re-read of the stable final word (`WConf.reload`). -/
theorem timed_waiter_path (fuel : Nat) : WConf treeOrds Qret (timedW fuel) .timed .spin := by
  apply wait_timeout_conf
  · intro v b hv
    cases v
    · exact .done ⟨.unlocked, b, rfl, rfl⟩
    · show WConf treeOrds Qret (timedW2 fuel) .timed (.done .terminated b)
      unfold timedW2 Gen.Signal_is_terminated
      exact .reload (.done ⟨.terminated, b, rfl, rfl⟩)
    · cases hv
    · cases hv
  · exact timed_phase2_path fuel

/-! ### 3. A future -/

/-- **One `poll()`**: `Pending` leaves the waiter in its spin phase; `Ready(v == UNLOCKED)` at `done v b`. -/
theorem poll_once_path (fuel : Nat) :
    WConf treeOrds (fun r kind pc => (r = none ∧ pc = .spin) ∨ Qret r kind pc)
      (Gen.Signal_poll fuel .async (fun r => .done r)) .async .spin := by
  apply poll_conf
  · intro v b _; exact .done (.inr ⟨v, b, rfl, rfl⟩)
  · exact .done (.inl ⟨rfl, rfl⟩)

/-- `n` polls, each `Pending` one followed by the next, and then `last`. -/
def pollN (fuel : Nat) (last : PAct) : Nat → PAct
  | 0 => last
  | n + 1 => Gen.Signal_poll fuel .async (fun r => match r with
      | some b => .done (some b)
      | none => pollN fuel last n)

theorem pollN_conf {Q : Option Bool → WKind → WPc → Prop} (fuel : Nat) (last : PAct)
    (hQ : ∀ v b, Q (some (St.toNat v == 0)) .async (.done v b))
    (hlast : WConf treeOrds Q last .async .spin) (n : Nat) :
    WConf treeOrds Q (pollN fuel last n) .async .spin := by
  induction n with
  | zero => exact hlast
  | succ n ih =>
    unfold pollN
    apply poll_conf
    · intro v b _; exact .done (hQ v b)
    · exact ih

/-- The future's tree: `n` polls, then (changed waker / `Drop` with the signal owned by a peer) `async_blocking_wait()`. -/
def futureW (fuel n : Nat) : PAct :=
  pollN fuel (Gen.Signal_async_blocking_wait fuel .async (fun b => .done (some b))) n

/-- **A future** polled any number of times and finally waited for conforms from its spin phase to its completion. -/
theorem future_waiter_path (fuel n : Nat) : WConf treeOrds Qret (futureW fuel n) .async .spin :=
  pollN_conf fuel _ (fun v b => ⟨v, b, rfl, rfl⟩)
    (async_blocking_wait_conf fuel .async .async _ (fun v b _ => .done ⟨v, b, rfl, rfl⟩)) n

/-- … and one that is still pending after `n` polls. -/
theorem future_pending_path (fuel n : Nat) :
    WConf treeOrds (fun r kind pc => (r = none ∧ pc = .spin) ∨ Qret r kind pc) (pollN fuel (.done none) n) .async .spin :=
  pollN_conf fuel _ (fun v b => .inr ⟨v, b, rfl, rfl⟩) (.done (.inl ⟨rfl, rfl⟩)) n

/-! ### 4. The peer -/

/-- **The peer's calls** conform from the pc at which `SigM.init` puts the peer, to `done`. -/
theorem peer_paths (fuel : Nat) (kind : WKind) :
    PConf treeOrds .unlocked (Gen.Signal_send fuel (wkOf kind) (fun _ => .done none)) kind (SigM.init kind .unlocked true).ppc ∧
    PConf treeOrds .unlocked (Gen.Signal_send_copy fuel (wkOf kind) (fun _ => .done none)) kind (SigM.init kind .unlocked true).ppc ∧
    PConf treeOrds .unlocked (Gen.Signal_recv fuel (wkOf kind) (fun _ => .done none)) kind (SigM.init kind .unlocked true).ppc ∧
    PConf treeOrds .terminated (Gen.Signal_terminate fuel (wkOf kind) (fun _ => .done none)) kind
      (SigM.init kind .terminated false).ppc :=
  ⟨send_conf fuel kind _ .done, send_copy_conf fuel kind _ .done, recv_conf fuel kind _ .done,
   terminate_conf fuel kind _ .done⟩

/-! ### 5. Executions of the code are executions of the model -/

/-- The waiter-side trees: a blocked call, the first phase of a timed call, a future (polled `n` times, then waited
    for; or still pending after `n` polls). -/
inductive WaiterCode : WKind → PAct → Prop where
  | sync (fuel : Nat) : WaiterCode .sync (syncW fuel)
  | timed (fuel : Nat) : WaiterCode .timed (timedW fuel)
  | future (fuel n : Nat) : WaiterCode .async (futureW fuel n)
  | pending (fuel n : Nat) : WaiterCode .async (pollN fuel (.done none) n)

/-- The peer-side trees with the final state they write and whether they touch the payload slot. -/
inductive PeerCode : WKind → St → Bool → PAct → Prop where
  | send (fuel : Nat) (kind : WKind) : PeerCode kind .unlocked true (Gen.Signal_send fuel (wkOf kind) (fun _ => .done none))
  | sendCopy (fuel : Nat) (kind : WKind) : PeerCode kind .unlocked true (Gen.Signal_send_copy fuel (wkOf kind) (fun _ => .done none))
  | recv (fuel : Nat) (kind : WKind) : PeerCode kind .unlocked true (Gen.Signal_recv fuel (wkOf kind) (fun _ => .done none))
  | terminate (fuel : Nat) (kind : WKind) : PeerCode kind .terminated false (Gen.Signal_terminate fuel (wkOf kind) (fun _ => .done none))

/-- A waiter of kind `kind` and the peer that owns its signal. -/
def CodePair (kind : WKind) (fin : St) (payload : Bool) (W P : PAct) : Prop :=
  WaiterCode kind W ∧ PeerCode kind fin payload P

/-- What a waiter tree of `WaiterCode` may return, and where the model is then. -/
def Qcode : Option Bool → WKind → WPc → Prop :=
  fun r kind pc => Qret r kind pc ∨ (r = none ∧ pc = .spin)

theorem waiter_code_conf {kind : WKind} {W : PAct} (h : WaiterCode kind W) : WConf treeOrds Qcode W kind .spin := by
  cases h with
  | sync fuel => exact WConf.mono (fun _ _ _ h => .inl h) (sync_waiter_path fuel)
  | timed fuel => exact WConf.mono (fun _ _ _ h => .inl h) (timed_waiter_path fuel)
  | future fuel n => exact WConf.mono (fun _ _ _ h => .inl h) (future_waiter_path fuel n)
  | pending fuel n =>
    exact WConf.mono (fun _ _ _ h => h.elim (fun h => .inr h) (fun h => .inl h)) (future_pending_path fuel n)

theorem peer_code_conf {kind : WKind} {fin : St} {payload : Bool} {P : PAct} (h : PeerCode kind fin payload P) :
    PConf treeOrds fin P kind (SigM.init kind fin payload).ppc ∧ fin.isFinal = true ∧ (fin = .terminated → payload = false) := by
  cases h with
  | send fuel kind => exact ⟨(peer_paths fuel kind).1, rfl, fun h => by cases h⟩
  | sendCopy fuel kind => exact ⟨(peer_paths fuel kind).2.1, rfl, fun h => by cases h⟩
  | recv fuel kind => exact ⟨(peer_paths fuel kind).2.2.1, rfl, fun h => by cases h⟩
  | terminate fuel kind => exact ⟨(peer_paths fuel kind).2.2.2, rfl, fun _ => rfl⟩

/-- A returned tree conforms only where its result satisfies the post-condition (or just after a give-up, which the
    post-conditions used here exclude). -/
theorem WConf.done_inv {o : SigM.Ords} {Q} {r : Option Bool} {kind : WKind} {pc : WPc} (h : WConf o Q (.done r) kind pc) :
    Q r kind pc ∨ (pc = .spin ∧ (Q r .sync .publish ∨ Q r .timed .timedFinal)) := by
  cases h with
  | done hq => exact .inl hq
  | giveUpSync h' => cases h' with | done hq => exact .inr ⟨rfl, .inl hq⟩
  | giveUpTimed h' => cases h' with | done hq => exact .inr ⟨rfl, .inr hq⟩

/-- In a related configuration whose waiter tree has returned, the model's waiter is where the post-condition says. -/
theorem SRel.returned {o : SigM.Ords} {Q} {g : SCfg} {s : SigM.State} (hR : SRel o Q g s) {r : Option Bool}
    (hr : g.wt = .done r) :
    g.parked = false ∧ (Q r s.kind s.wpc ∨ (s.wpc = .spin ∧ (Q r .sync .publish ∨ Q r .timed .timedFinal))) := by
  rcases hR.waiter with ⟨hp, hc⟩ | ⟨_, _, _, k, hk, _⟩
  · rw [hr] at hc; exact ⟨hp, WConf.done_inv hc⟩
  · rw [hr] at hk; cases hk

/-- **Every execution of the translated code is an execution of the model** (up to stuttering): for every waiter tree
    and matching peer tree of the lists above, every configuration the machine of `ProtoSim` reaches from the initial
    one (word LOCKED, no token) is related to a reachable state of `SigM` with the orderings of the source — and that
    state is neither racy nor has the peer touched the signal after the owner left (C07).  If the waiter's tree has
    returned `r`, the model's waiter is at `done v b` for a final `v`, the word holds `v` and `r = Some(v == UNLOCKED)`;
    or (a pending future only) it is still in `spin` with `r = None`. -/
theorem code_execution_is_model_execution {kind : WKind} {fin : St} {payload : Bool} {W P : PAct}
    (hc : CodePair kind fin payload W P) {g' : SCfg} (h : SSteps ⟨.locked, false, false, W, P⟩ g') :
    ∃ s', SigM.Reach treeOrds kind fin payload s' ∧ SRel treeOrds Qcode g' s' ∧ s'.racy = false ∧ s'.dangling = false ∧
      (∀ r, g'.wt = .done r →
        (∃ v b, s'.wpc = .done v b ∧ v.isFinal = true ∧ g'.word = v ∧ r = some (St.toNat v == 0)) ∨
        (r = none ∧ s'.wpc = .spin)) := by
  obtain ⟨hP, hf, ht⟩ := peer_code_conf hc.2
  obtain ⟨s', hreach, hrel⟩ := sig_exec_reach hf (waiter_code_conf hc.1) hP h
  obtain ⟨h1, h2⟩ := C07.c07_this_tree kind fin payload hf ht s' hreach
  refine ⟨s', hreach, hrel, h1, h2, ?_⟩
  intro r hr
  have hq : Qcode r s'.kind s'.wpc := by
    rcases (SRel.returned hrel hr).2 with hq | ⟨_, hq | hq⟩
    · exact hq
    · rcases hq with ⟨_, _, h, _⟩ | ⟨_, h⟩ <;> cases h
    · rcases hq with ⟨_, _, h, _⟩ | ⟨_, h⟩ <;> cases h
  rcases hq with ⟨v, b, hpc, hrv⟩ | hq
  · obtain ⟨hv, hfinal⟩ := hrel.inv.doneSees v b hpc
    exact .inl ⟨v, b, hpc, by rw [hv]; exact hfinal, by rw [hrel.word, hv], hrv⟩
  · exact .inr hq

/-- **A timed call, end to end**: for any machine execution of the composite timed waiter against any peer of the
    list, the configuration is related to a reachable model state without race or dangling access, and if the call has
    returned `r` then the model's waiter is at `done v b` for a final `v`, the word holds `v`, and
    `r = Some(v == UNLOCKED)`: the call reports success iff the peer stored UNLOCKED. -/
theorem timed_waiter_returns (fuel : Nat) {fin : St} {payload : Bool} {P : PAct} (hP : PeerCode .timed fin payload P)
    {g' : SCfg} (h : SSteps ⟨.locked, false, false, timedW fuel, P⟩ g') :
    ∃ s', SigM.Reach treeOrds .timed fin payload s' ∧ SRel treeOrds Qret g' s' ∧ s'.racy = false ∧ s'.dangling = false ∧
      (∀ r, g'.wt = .done r →
        ∃ v b, s'.wpc = .done v b ∧ v.isFinal = true ∧ g'.word = v ∧ r = some (St.toNat v == 0)) := by
  obtain ⟨hPc, hf, ht⟩ := peer_code_conf hP
  obtain ⟨s', hreach, hrel⟩ := sig_exec_reach hf (timed_waiter_path fuel) hPc h
  obtain ⟨h1, h2⟩ := C07.c07_this_tree .timed fin payload hf ht s' hreach
  refine ⟨s', hreach, hrel, h1, h2, ?_⟩
  intro r hr
  have hq : Qret r s'.kind s'.wpc := by
    rcases (SRel.returned hrel hr).2 with hq | ⟨_, hq | hq⟩
    · exact hq
    · obtain ⟨_, _, h, _⟩ := hq; cases h
    · obtain ⟨_, _, h, _⟩ := hq; cases h
  obtain ⟨v, b, hpc, hrv⟩ := hq
  obtain ⟨hv, hfinal⟩ := hrel.inv.doneSees v b hpc
  exact ⟨v, b, hpc, by rw [hv]; exact hfinal, by rw [hrel.word, hv], hrv⟩

/-! ### 6. The lock -/

/-- `lock(); …; unlock()`. -/
def lockT (fuel : Nat) : PAct := Gen.RawMutexLock_lock fuel (fun _ => Gen.RawMutexLock_unlock fuel (fun _ => .done none))

/-- `if try_lock() { …; unlock() }`. -/
def tryT (fuel : Nat) : PAct :=
  Gen.RawMutexLock_try_lock fuel (fun b => if b then Gen.RawMutexLock_unlock fuel (fun _ => .done (some true)) else .done (some false))

/-- **`lock()` … `unlock()`** conforms from `lockFast` and returns at `idle`, for either reported parallelism. -/
theorem lock_unlock_path (fuel : Nat) (par1 : Bool) :
    MConf Tie.mutexOrds Tie.mutexConsts par1 (fun _ pc => pc = .idle) (lockT fuel) .lockFast :=
  lock_conf fuel _ (unlock_conf fuel _ (.done rfl))

/-- **`try_lock()`** with the conditional `unlock()` conforms from `tryOnce` and returns at `idle` or `gaveUp`. -/
theorem try_lock_unlock_path (fuel : Nat) (par1 : Bool) :
    MConf Tie.mutexOrds Tie.mutexConsts par1 (fun _ pc => pc = .idle ∨ pc = .gaveUp) (tryT fuel) .tryOnce := by
  apply try_lock_conf
  · show MConf _ _ _ _ (Gen.RawMutexLock_unlock fuel (fun _ => .done (some true))) .inCS
    exact unlock_conf fuel _ (.done (Or.inl rfl))
  · show MConf _ _ _ _ (.done (some false)) .gaveUp
    exact .done (Or.inr rfl)

theorem lock_unlock_path' (fuel : Nat) (par1 : Bool) :
    MConf Tie.mutexOrds Tie.mutexConsts par1 (fun _ pc => pc = .idle ∨ pc = .gaveUp) (lockT fuel) .lockFast :=
  lock_conf fuel _ (unlock_conf fuel _ (.done (.inl rfl)))

/-- A thread about to do its `unlock` store is in the critical section. -/
theorem MConf.store_inv {o : MutexM.Ords} {c : MutexM.Consts} {par1 : Bool} {Q} {v : Nat} {ord : Ord} {k : PAct} {pc : Pc}
    (h : MConf o c par1 Q (.store v ord k) pc) : pc = .inCS := by
  cases h; rfl

/-- **Every execution of any number of threads, each running `lock … unlock` and `try_lock … unlock` calls one after
    another, is an execution of `MutexM`** with the orderings and constants of the source; hence at most one thread
    is inside a critical section (C17), the flag is set exactly while one is, the protected data are accessed without
    a race — and, on the machine itself, no two threads are simultaneously before their `unlock` store. -/
theorem lock_execution_is_model_execution (par1 : Bool) {g' : MCfg}
    (h : MStepsS par1 (fun T => ∃ fuel, T = tryT fuel) (fun T => ∃ fuel, T = lockT fuel) ⟨false, fun _ => .done none⟩ g') :
    ∃ s', MutexM.Reach Tie.mutexOrds Tie.mutexConsts par1 s' ∧
      MRel Tie.mutexOrds Tie.mutexConsts par1 (fun _ pc => pc = .idle ∨ pc = .gaveUp) g' s' ∧
      C17.MutexInv s' ∧ C17.VisInv s' ∧
      (∀ t u, s'.pc t = .inCS → s'.pc u = .inCS → t = u) ∧
      (∀ t u v v' o o' k k', g'.trees t = .store v o k → g'.trees u = .store v' o' k' → t = u) := by
  obtain ⟨s', hreach, hrel⟩ := mutex_exec_reach (o := Tie.mutexOrds) (c := Tie.mutexConsts) (par1 := par1)
    (Q := fun _ pc => pc = .idle ∨ pc = .gaveUp) (fun _ _ h => h) (.inl rfl)
    (fun T ⟨fuel, hT⟩ => hT ▸ try_lock_unlock_path fuel par1)
    (fun T ⟨fuel, hT⟩ => hT ▸ lock_unlock_path' fuel par1) h
  obtain ⟨hm, hv⟩ := C17.c17_this_tree par1 s' hreach
  refine ⟨s', hreach, hrel, hm, hv, hm.unique, ?_⟩
  intro t u v v' o o' k k' ht hu
  have h1 := hrel.conf t; rw [ht] at h1
  have h2 := hrel.conf u; rw [hu] at h2
  exact hm.unique t u (MConf.store_inv h1) (MConf.store_inv h2)

end Kanal.TiePaths

#print axioms Kanal.TiePaths.sync_waiter_path
#print axioms Kanal.TiePaths.timed_phase1_path
#print axioms Kanal.TiePaths.timed_phase2_path
#print axioms Kanal.TiePaths.timed_waiter_path
#print axioms Kanal.TiePaths.poll_once_path
#print axioms Kanal.TiePaths.pollN_conf
#print axioms Kanal.TiePaths.future_waiter_path
#print axioms Kanal.TiePaths.future_pending_path
#print axioms Kanal.TiePaths.peer_paths
#print axioms Kanal.TiePaths.waiter_code_conf
#print axioms Kanal.TiePaths.peer_code_conf
#print axioms Kanal.TiePaths.code_execution_is_model_execution
#print axioms Kanal.TiePaths.timed_waiter_returns
#print axioms Kanal.TiePaths.lock_unlock_path
#print axioms Kanal.TiePaths.try_lock_unlock_path
#print axioms Kanal.TiePaths.lock_execution_is_model_execution
