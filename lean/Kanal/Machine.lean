/-
  Kanal.Machine — any number of threads running interaction trees against ONE logical state behind ONE lock.

  The machine interleaves the threads at the granularity of tree nodes.  The lock is a semaphore of the machine
  (`lock` is enabled only while nobody holds it: mutual exclusion is C17's theorem about `MutexM` plus Rust's guard
  typing); effects are no-ops of the machine and questions are answered arbitrarily, so every behaviour of the
  environment — signals, wakers, clocks, payload sizes, what other threads do to a waiter — is covered.

  Theorem `serial`: in EVERY execution the logical state evolves exactly by the sequence of completed critical
  sections, in lock order: each section starts from the state the previous one published, and publishes a state that
  one of the programs computes from that start state (`Sec T none b p`).  `Kanal/Sections.lean` then shows, function
  by function, that the sections of the `Fine` trees (= of the translated Rust source, `TieCode`) are the `Chan`
  critical-section functions `Spec.step` is made of.  This is C03's mechanism as a theorem: whatever the
  interleaving, no thread ever observes or produces a half-applied update of the logical state.
-/
import Kanal.Act

namespace Kanal
namespace Machine

/-- Well-locked trees (`locked` = the thread holds the guard at this node): `unlock` only while holding,
    `lock` only while not, a call returns without the guard. -/
inductive WL : Act → Bool → Prop where
  | ret (r) : WL (.ret r) false
  | diverge (l) : WL .diverge l
  | lock {k} : (∀ c, WL (k c) true) → WL (.lock k) false
  | tryLock {k} : (∀ c, WL (k (some c)) true) → WL (k none) false → WL (.tryLock k) false
  | unlock {c k} : WL k false → WL (.unlock c k) true
  | eff {e k l} : WL k l → WL (.eff e k) l
  | askB {q k l} : (∀ b, WL (k b) l) → WL (.askB q k) l
  | askM {q k l} : (∀ m, WL (k m) l) → WL (.askM q k) l
  | askP {k l} : (∀ r, WL (k r) l) → WL (.askP k) l

/-- `Sec t cur b p`: from node `t` (`cur = some b0`: inside a critical section that bound `b0`), along some path and
    for some answers of the environment, a critical section that binds `b` publishes `p`. -/
inductive Sec : Act → Option Chan → Chan → Chan → Prop where
  | done {c k b} : Sec (.unlock c k) (some b) b c
  | later {c k b0 b p} : Sec k none b p → Sec (.unlock c k) (some b0) b p
  | lock {k b' b p} : Sec (k b') (some b') b p → Sec (.lock k) none b p
  | tryLockOk {k b' b p} : Sec (k (some b')) (some b') b p → Sec (.tryLock k) none b p
  | tryLockBusy {k b p} : Sec (k none) none b p → Sec (.tryLock k) none b p
  | eff {e k cur b p} : Sec k cur b p → Sec (.eff e k) cur b p
  | askB {q k cur b p} (x) : Sec (k x) cur b p → Sec (.askB q k) cur b p
  | askM {q k cur b p} (x) : Sec (k x) cur b p → Sec (.askM q k) cur b p
  | askP {k cur b p} (x) : Sec (k x) cur b p → Sec (.askP k) cur b p

/-- One thread: the rest of its current call and, while it holds the lock, the state it found. -/
structure Thread where
  tree : Act
  cur  : Option Chan := none

structure Cfg where
  chan    : Chan
  holder  : Option Nat := none
  threads : List Thread
  log     : List (Chan × Chan) := []     -- ghost: completed critical sections (bound, published), in lock order

/-- The programs threads may start (e.g. every `Fine` tree for every `Ctx`). -/
abbrev Programs := Act → Prop

/-- Interleaved steps.  `P`: which calls may be started. -/
inductive Step (P : Programs) : Cfg → Cfg → Prop where
  | start {g i r t} : g.threads[i]? = some ⟨.ret r, none⟩ → P t →
      Step P g { g with threads := g.threads.set i ⟨t, none⟩ }
  | lock {g i k} : g.threads[i]? = some ⟨.lock k, none⟩ → g.holder = none →
      Step P g { g with holder := some i, threads := g.threads.set i ⟨k g.chan, some g.chan⟩ }
  | tryLockOk {g i k} : g.threads[i]? = some ⟨.tryLock k, none⟩ → g.holder = none →
      Step P g { g with holder := some i, threads := g.threads.set i ⟨k (some g.chan), some g.chan⟩ }
  | tryLockBusy {g i k} : g.threads[i]? = some ⟨.tryLock k, none⟩ → g.holder ≠ none →
      Step P g { g with threads := g.threads.set i ⟨k none, none⟩ }
  | unlock {g i c k b} : g.threads[i]? = some ⟨.unlock c k, some b⟩ →
      Step P g { g with chan := c, holder := none, threads := g.threads.set i ⟨k, none⟩, log := g.log ++ [(b, c)] }
  | eff {g i e k cur} : g.threads[i]? = some ⟨.eff e k, cur⟩ →
      Step P g { g with threads := g.threads.set i ⟨k, cur⟩ }
  | askB {g i q k cur} (x : Bool) : g.threads[i]? = some ⟨.askB q k, cur⟩ →
      Step P g { g with threads := g.threads.set i ⟨k x, cur⟩ }
  | askM {g i q k cur} (x : Msg) : g.threads[i]? = some ⟨.askM q k, cur⟩ →
      Step P g { g with threads := g.threads.set i ⟨k x, cur⟩ }
  | askP {g i k cur} (x : Option Bool) : g.threads[i]? = some ⟨.askP k, cur⟩ →
      Step P g { g with threads := g.threads.set i ⟨k x, cur⟩ }

/-- Initial configurations: `n` idle threads. -/
def init (c : Chan) (n : Nat) : Cfg := { chan := c, threads := List.replicate n ⟨.ret .unit, none⟩ }

inductive Reach (P : Programs) (c0 : Chan) (n : Nat) : Cfg → Prop where
  | init : Reach P c0 n (init c0 n)
  | step {g g'} : Reach P c0 n g → Step P g g' → Reach P c0 n g'

/-- The state published last (`c0` if no section has completed). -/
def lastPublished (c0 : Chan) (log : List (Chan × Chan)) : Chan :=
  match log.getLast? with
  | some (_, p) => p
  | none => c0

/-- Consecutive sections chain: each starts from what the previous one published. -/
def Chained (c0 : Chan) : List (Chan × Chan) → Prop
  | [] => True
  | (b, p) :: rest => b = c0 ∧ Chained p rest

theorem chained_append {c0 : Chan} {log : List (Chan × Chan)} {b p : Chan}
    (h : Chained c0 log) (hb : b = lastPublished c0 log) : Chained c0 (log ++ [(b, p)]) := by
  induction log generalizing c0 with
  | nil => simp [Chained, lastPublished] at *; exact hb
  | cons e rest ih =>
    obtain ⟨b1, p1⟩ := e
    simp only [Chained, List.cons_append] at h ⊢
    refine ⟨h.1, ih h.2 ?_⟩
    cases rest with
    | nil => simpa [lastPublished] using hb
    | cons e2 r2 =>
      simp only [lastPublished, List.getLast?_cons_cons] at hb ⊢
      cases hh : (e2 :: r2).getLast? with
      | none => simp at hh
      | some x => simpa [hh] using hb

theorem lastPublished_append (c0 : Chan) (log : List (Chan × Chan)) (b p : Chan) :
    lastPublished c0 (log ++ [(b, p)]) = p := by
  simp [lastPublished]

/-- The invariant behind `serial`. -/
structure Inv (P : Programs) (c0 : Chan) (g : Cfg) : Prop where
  /-- the holder is exactly the thread inside a critical section -/
  held : ∀ (i : Nat) (t : Thread), g.threads[i]? = some t → (t.cur.isSome ↔ g.holder = some i)
  /-- every thread runs a well-locked tree -/
  wl : ∀ (i : Nat) (t : Thread), g.threads[i]? = some t → WL t.tree t.cur.isSome
  /-- the logical state is the one published last; the holder found exactly that one -/
  cur : g.chan = lastPublished c0 g.log ∧ ∀ (i : Nat) (t : Thread) (b : Chan), g.threads[i]? = some t → t.cur = some b → b = g.chan
  chained : Chained c0 g.log
  /-- whatever section a thread may still complete is a section of a program -/
  origin : ∀ (i : Nat) (t : Thread), g.threads[i]? = some t → ∀ b p, Sec t.tree t.cur b p → ∃ T, P T ∧ Sec T none b p
  /-- so is every completed one -/
  logged : ∀ b p, (b, p) ∈ g.log → ∃ T, P T ∧ Sec T none b p

theorem get_set {l : List Thread} {i j : Nat} {x t : Thread} (h : (l.set i x)[j]? = some t) :
    (j = i ∧ t = x ∧ i < l.length) ∨ (j ≠ i ∧ l[j]? = some t) := by
  by_cases hij : j = i
  · subst hij
    left
    rw [List.getElem?_set] at h
    split at h
    · split at h <;> simp_all
    · simp_all
  · right
    refine ⟨hij, ?_⟩
    rw [List.getElem?_set_ne (Ne.symm hij)] at h
    exact h

variable {P : Programs} {c0 : Chan}

theorem inv_init (n : Nat) : Inv P c0 (init c0 n) := by
  have hget : ∀ (i : Nat) (t : Thread), (init c0 n).threads[i]? = some t → t = ⟨.ret .unit, none⟩ := by
    intro i t h
    simp only [init, List.getElem?_replicate] at h
    split at h <;> simp_all
  refine ⟨?_, ?_, ⟨rfl, ?_⟩, trivial, ?_, ?_⟩
  · intro i t h; rw [hget i t h]; simp [init]
  · intro i t h; rw [hget i t h]; exact WL.ret _
  · intro i t b h hb; rw [hget i t h] at hb; cases hb
  · intro i t h b p hs; rw [hget i t h] at hs; cases hs
  · intro b p h; simp [init] at h

/-- a step that only advances thread `i`'s tree, inside or outside a section -/
theorem inv_advance {g : Cfg} {i : Nat} {old new : Thread} (hi : Inv P c0 g) (h : g.threads[i]? = some old)
    (hc : new.cur = old.cur) (hwl : WL old.tree old.cur.isSome → WL new.tree new.cur.isSome)
    (hsec : ∀ b p, Sec new.tree new.cur b p → Sec old.tree old.cur b p ∨ ∃ T, P T ∧ Sec T none b p) :
    Inv P c0 { g with threads := g.threads.set i new } := by
  refine ⟨?_, ?_, ⟨hi.cur.1, ?_⟩, hi.chained, ?_, hi.logged⟩
  · intro j t hj
    rcases get_set hj with ⟨rfl, rfl, -⟩ | ⟨-, hj'⟩
    · rw [hc]; exact hi.held _ _ h
    · exact hi.held _ _ hj'
  · intro j t hj
    rcases get_set hj with ⟨rfl, rfl, -⟩ | ⟨-, hj'⟩
    · exact hwl (hi.wl _ _ h)
    · exact hi.wl _ _ hj'
  · intro j t b hj hb
    rcases get_set hj with ⟨rfl, rfl, -⟩ | ⟨-, hj'⟩
    · rw [hc] at hb; exact hi.cur.2 _ _ _ h hb
    · exact hi.cur.2 _ _ _ hj' hb
  · intro j t hj b p hs
    rcases get_set hj with ⟨rfl, rfl, -⟩ | ⟨-, hj'⟩
    · rcases hsec b p hs with h1 | h1
      · exact hi.origin _ _ h b p h1
      · exact h1
    · exact hi.origin _ _ hj' b p hs

theorem inv_step (hP : ∀ t, P t → WL t false) {g g' : Cfg} (hi : Inv P c0 g) (hs : Step P g g') : Inv P c0 g' := by
  cases hs with
  | @start i r t h ht =>
    exact inv_advance hi h rfl (fun _ => hP t ht) (fun b p hs => Or.inr ⟨t, ht, hs⟩)
  | @eff i e k cur h =>
    exact inv_advance hi h rfl (fun hw => by cases hw; assumption) (fun b p hs => Or.inl (Sec.eff hs))
  | @askB i q k cur x h =>
    exact inv_advance hi h rfl (fun hw => by cases hw with | askB hk => exact hk x) (fun b p hs => Or.inl (Sec.askB x hs))
  | @askM i q k cur x h =>
    exact inv_advance hi h rfl (fun hw => by cases hw with | askM hk => exact hk x) (fun b p hs => Or.inl (Sec.askM x hs))
  | @askP i k cur x h =>
    exact inv_advance hi h rfl (fun hw => by cases hw with | askP hk => exact hk x) (fun b p hs => Or.inl (Sec.askP x hs))
  | @tryLockBusy i k h hb =>
    exact inv_advance hi h rfl (fun hw => by cases hw with | tryLock _ hk => exact hk) (fun b p hs => Or.inl (Sec.tryLockBusy hs))
  | @lock i k h hn =>
    have nocur : ∀ (j : Nat) (t : Thread), g.threads[j]? = some t → t.cur = none := by
      intro j t hj
      have := hi.held j t hj
      cases hc : t.cur with
      | none => rfl
      | some b => rw [hc] at this; simp [hn] at this
    refine ⟨?_, ?_, ⟨hi.cur.1, ?_⟩, hi.chained, ?_, hi.logged⟩
    · intro j t hj
      rcases get_set hj with ⟨rfl, rfl, -⟩ | ⟨hne, hj'⟩
      · simp
      · simp [nocur j t hj']; exact fun e => hne e.symm
    · intro j t hj
      rcases get_set hj with ⟨rfl, rfl, -⟩ | ⟨-, hj'⟩
      · have := hi.wl _ _ h; cases this with | lock hk => exact hk _
      · exact hi.wl _ _ hj'
    · intro j t b hj hb
      rcases get_set hj with ⟨rfl, rfl, -⟩ | ⟨-, hj'⟩
      · simp at hb; exact hb.symm
      · rw [nocur j t hj'] at hb; cases hb
    · intro j t hj b p hs
      rcases get_set hj with ⟨rfl, rfl, -⟩ | ⟨-, hj'⟩
      · exact hi.origin _ _ h b p (Sec.lock hs)
      · exact hi.origin _ _ hj' b p hs
  | @tryLockOk i k h hn =>
    have nocur : ∀ (j : Nat) (t : Thread), g.threads[j]? = some t → t.cur = none := by
      intro j t hj
      have := hi.held j t hj
      cases hc : t.cur with
      | none => rfl
      | some b => rw [hc] at this; simp [hn] at this
    refine ⟨?_, ?_, ⟨hi.cur.1, ?_⟩, hi.chained, ?_, hi.logged⟩
    · intro j t hj
      rcases get_set hj with ⟨rfl, rfl, -⟩ | ⟨hne, hj'⟩
      · simp
      · simp [nocur j t hj']; exact fun e => hne e.symm
    · intro j t hj
      rcases get_set hj with ⟨rfl, rfl, -⟩ | ⟨-, hj'⟩
      · have := hi.wl _ _ h; cases this with | tryLock hk _ => exact hk _
      · exact hi.wl _ _ hj'
    · intro j t b hj hb
      rcases get_set hj with ⟨rfl, rfl, -⟩ | ⟨-, hj'⟩
      · simp at hb; exact hb.symm
      · rw [nocur j t hj'] at hb; cases hb
    · intro j t hj b p hs
      rcases get_set hj with ⟨rfl, rfl, -⟩ | ⟨-, hj'⟩
      · exact hi.origin _ _ h b p (Sec.tryLockOk hs)
      · exact hi.origin _ _ hj' b p hs
  | @unlock i c k b h =>
    have hold : g.holder = some i := (hi.held i _ h).mp (by simp)
    have others : ∀ (j : Nat) (t : Thread), j ≠ i → g.threads[j]? = some t → t.cur = none := by
      intro j t hne hj
      have := hi.held j t hj
      cases hc : t.cur with
      | none => rfl
      | some b' =>
        rw [hc, hold] at this
        simp at this
        exact absurd this.symm hne
    have hb : b = g.chan := hi.cur.2 i _ b h rfl
    refine ⟨?_, ?_, ⟨?_, ?_⟩, ?_, ?_, ?_⟩
    · intro j t hj
      rcases get_set hj with ⟨rfl, rfl, -⟩ | ⟨hne, hj'⟩
      · simp
      · simp [others j t hne hj']
    · intro j t hj
      rcases get_set hj with ⟨rfl, rfl, -⟩ | ⟨-, hj'⟩
      · have := hi.wl _ _ h; cases this with | unlock hk => exact hk
      · exact hi.wl _ _ hj'
    · exact (lastPublished_append c0 g.log b c).symm
    · intro j t b' hj hb'
      rcases get_set hj with ⟨rfl, rfl, -⟩ | ⟨hne, hj'⟩
      · cases hb'
      · rw [others j t hne hj'] at hb'; cases hb'
    · exact chained_append hi.chained (by rw [hb]; exact hi.cur.1)
    · intro j t hj b' p hs
      rcases get_set hj with ⟨rfl, rfl, -⟩ | ⟨-, hj'⟩
      · exact hi.origin _ _ h b' p (Sec.later hs)
      · exact hi.origin _ _ hj' b' p hs
    · intro b' p hm
      simp only [List.mem_append, List.mem_singleton, Prod.mk.injEq] at hm
      rcases hm with hm | ⟨rfl, rfl⟩
      · exact hi.logged b' p hm
      · exact hi.origin _ _ h _ _ Sec.done

theorem inv_reach (hP : ∀ t, P t → WL t false) {n : Nat} {g : Cfg} (h : Reach P c0 n g) : Inv P c0 g := by
  induction h with
  | init => exact inv_init n
  | step _ hs ih => exact inv_step hP ih hs

/-- **Serializability of the logical state.**  In every reachable configuration of any number of threads running
    well-locked programs: at most one thread is inside a critical section, and it sees the current logical state; the
    logical state is the one published by the last completed section; the completed sections chain (each starts from
    what the previous one published, the first from the initial state); and every one of them is a section of one of
    the programs, i.e. the published state is what that program computes from the state it bound. -/
theorem serial (hP : ∀ t, P t → WL t false) {n : Nat} {g : Cfg} (h : Reach P c0 n g) :
    (∀ (i j : Nat) (ti tj : Thread), g.threads[i]? = some ti → g.threads[j]? = some tj →
        ti.cur.isSome → tj.cur.isSome → i = j) ∧
    (∀ (i : Nat) (t : Thread) (b : Chan), g.threads[i]? = some t → t.cur = some b → b = g.chan) ∧
    g.chan = lastPublished c0 g.log ∧ Chained c0 g.log ∧
    ∀ b p, (b, p) ∈ g.log → ∃ T, P T ∧ Sec T none b p := by
  have hi := inv_reach hP h
  refine ⟨?_, hi.cur.2, hi.cur.1, hi.chained, hi.logged⟩
  intro i j ti tj h1 h2 c1 c2
  have a := (hi.held i ti h1).mp c1
  have b := (hi.held j tj h2).mp c2
  rw [a] at b; exact Option.some.inj b

end Machine
end Kanal
