/-
  Kanal.Act — target language of the translator `extract/rs2lean.py` (DESIGN §4.1b).

  A function of kanal that touches the channel lock is an *interaction tree*: the logical state `Chan`
  is bound when the lock is taken (`lock`, `tryLock`) and published when it is released (`unlock`);
  everything outside the logical state is an effect (`eff`) or a question to the environment whose
  answer the rest of the function depends on (`askB`, `askM`, `askP`).  The methods of
  `ChannelInternal` are functions in continuation-passing style over `Chan`.

  `Kanal/GenCode.lean` is regenerated from /repo/src on every run; `Kanal/Fine.lean` is the hand-written
  counterpart built from the critical-section functions of `Kanal.Chan`; `Kanal/TieCode.lean` proves
  them equal, function by function.
-/
import Kanal.Spec

namespace Kanal

/-- What a call was given (the environment of one API call). -/
structure Ctx where
  m          : Msg   := 0        -- the value passed to a send (`data`)
  me         : SigId := 0        -- the caller's own signal: a local of a blocking call, the future's `sig`
  st         : FutSt := .zero    -- future: `self.state` on entry
  isStream   : Bool  := false    -- `ReceiveFuture::is_stream`
  terminated : Bool  := false    -- `ReceiveStream::terminated`
  vlen       : Nat   := 0        -- `drain_into`: `vec.len()` on entry
  vcap       : Nat   := 0        -- `drain_into`: `vec.capacity()` on entry
  deriving DecidableEq, Repr, Inhabited

/-- Effects: what the code does outside the logical state, without a result. -/
inductive Eff where
  | sigSend (p : SigId) (m : Msg)   -- `p.send(m)` on a waiter popped from the wait list
  | sigTerminate (p : SigId)        -- `t.terminate()`
  | wrapData                        -- `MaybeUninit::new(data)`
  | wrapTaken                       -- `MaybeUninit::new(data.take().unwrap())`
  | newSendSig                      -- `Signal::new_sync(KanalPtr::new_from(data.as_mut_ptr()))`
  | newRetSlot                      -- `MaybeUninit::<T>::uninit()`
  | newRecvSig                      -- `Signal::new_sync(KanalPtr::new_write_address_ptr(ret.as_mut_ptr()))`
  | readClock                       -- `Instant::now().checked_add(duration).unwrap()`
  | dropData                        -- `data.assume_init_drop()`
  | giveBack                        -- `*data = Some(d.assume_init_read())`
  | dropLocal                       -- `self.drop_local_data()`
  | setState (st : FutSt)           -- `self.state = …`
  | setPtr                          -- `self.sig.set_ptr(KanalPtr::new_unchecked(self.data.as_mut_ptr()))`
  | registerWaker                   -- `self.sig.register_waker(cx.waker())`
  | rearmSig                        -- `self.sig = Signal::new_async()`
  | setTerminated                   -- `self.terminated = true`
  | vecReserve (n : Nat)            -- `vec.reserve(n)`
  | vecPush (m : Msg)               -- `vec.push(m)`
  | takeData                        -- `data.take().unwrap()`: the caller's value leaves the Option
  | readLocal                       -- `SendFuture::read_local_data()`: the future's own value is read out
  | unknown (text : String)         -- an expression the translator has no rule for
  deriving DecidableEq, Repr, Inhabited

/-- Questions with a Boolean answer. -/
inductive AskB where
  | wait                 -- `sig.wait()`
  | waitTimeout          -- `sig.wait_timeout(deadline)`
  | isTerminated         -- `sig.is_terminated()`
  | asyncBlockingWait    -- `self.sig.async_blocking_wait()`
  | willWake             -- `self.sig.will_wake(cx.waker())`
  | needsDrop            -- `needs_drop::<T>()`
  | sizeGtPtr            -- `size_of::<T>() > size_of::<*mut T>()`
  | expired              -- `Instant::now() > deadline`
  | dataIsNone           -- `data.is_none()`
  | unknown (text : String)  -- a condition the translator has no rule for
  deriving DecidableEq, Repr, Inhabited

/-- Questions answered with a message. -/
inductive AskM where
  | sigRecv (p : SigId)  -- `p.recv()` on a waiter popped from the wait list
  | readLocal            -- `ReceiveFuture::read_local_data()`: the value a sender delivered
  | readRet              -- `ret.assume_init()`
  | readSigPtr           -- `sig.assume_init()`
  deriving DecidableEq, Repr, Inhabited

inductive Act where
  | ret (r : Res)
  | diverge                                -- a loop ran out of fuel
  | lock (k : Chan → Act)                  -- `acquire_internal`
  | tryLock (k : Option Chan → Act)        -- `try_acquire_internal`
  | unlock (c : Chan) (k : Act)            -- the guard dies: `c` is the state the next holder finds
  | eff (e : Eff) (k : Act)
  | askB (q : AskB) (k : Bool → Act)
  | askM (q : AskM) (k : Msg → Act)
  | askP (k : Option Bool → Act)           -- `self.sig.poll()`: `none` = Pending, `some b` = Ready(b)
  deriving Inhabited

namespace Act

/-- `for x in l { body }` with early exit: `body x next`. -/
def forEach {α : Type} (l : List α) (body : α → Act → Act) (rest : Act) : Act :=
  l.foldr body rest

/-- A loop with loop-carried state `σ` and fuel. -/
def loopN {σ : Type} : Nat → (σ → (σ → Act) → Act) → σ → Act
  | 0, _, _ => .diverge
  | n + 1, body, s => body s (loopN n body)

/-- run `a`, then continue with its result (`ReceiveStream::poll_next` polls the future it wraps) -/
def bind : Act → (Res → Act) → Act
  | .ret r, f => f r
  | .diverge, _ => .diverge
  | .lock k, f => .lock fun c => (k c).bind f
  | .tryLock k, f => .tryLock fun c => (k c).bind f
  | .unlock c k, f => .unlock c (k.bind f)
  | .eff e k, f => .eff e (k.bind f)
  | .askB q k, f => .askB q fun b => (k b).bind f
  | .askM q k, f => .askM q fun m => (k m).bind f
  | .askP k, f => .askP fun r => (k r).bind f

@[simp] theorem forEach_nil {α : Type} (body : α → Act → Act) (rest : Act) : forEach [] body rest = rest := rfl
@[simp] theorem forEach_cons {α : Type} (a : α) (l : List α) (body : α → Act → Act) (rest : Act) :
    forEach (a :: l) body rest = body a (forEach l body rest) := rfl
theorem loopN_succ {σ : Type} (n : Nat) (body : σ → (σ → Act) → Act) (s : σ) :
    loopN (n + 1) body s = body s (loopN n body) := rfl

end Act

/-- Comparisons with `capacity` (`usize::MAX` = `none` = unbounded). -/
def Cap.lenLt (n : Nat) (cap : Option Nat) : Bool :=
  match cap with
  | none => true
  | some k => n < k

def Cap.eqLen (cap : Option Nat) (n : Nat) : Bool :=
  match cap with
  | none => false
  | some k => k == n

def Cap.isBounded (cap : Option Nat) : Bool := cap.isSome

theorem Chan.hasRoom_eq (c : Chan) : c.hasRoom = Cap.lenLt c.queue.length c.capacity := by
  unfold Chan.hasRoom Cap.lenLt; cases c.capacity <;> simp

theorem Chan.isFull_eq (c : Chan) : c.isFull = Cap.eqLen c.capacity c.queue.length := by
  unfold Chan.isFull Cap.eqLen; cases c.capacity <;> simp

end Kanal
