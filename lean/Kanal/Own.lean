/-
  Kanal.Own — "peer effects only on signals you popped".

  The *peer effects* are the three tree nodes through which a thread touches ANOTHER thread's signal:
  `.eff (.sigSend p m) k`, `.eff (.sigTerminate p) k`, `.askM (.sigRecv p) k`.  The protocol model `SigM` assumes that a
  waiter's signal is touched by exactly one peer — the one that took it out of the wait list — and exactly once.
  `Own me t st` is that discipline as a predicate over interaction trees, for all answers of the environment; `own_fine`
  proves it for every tree of `Kanal.Fine` (= the translated Rust source, `TieCode`).

  Two points where the rules differ from the first draft of the task (both forced, see the comments at the rules):

  * `lock` / `tryLock` bind only states whose wait list is duplicate-free (`c.waitList.Nodup`; true in every reachable
    state, `Lemmas/Struct.lean`).  Every tree that pops needs it: with `waitList = [7, 7]` a `next_recv` leaves `7` in
    the list it publishes, so `7` does not count as taken out, and `terminate_signals` would touch `7` twice.
  * `ret` allows ONE kind of unused popped signal: the caller's own (`me`, a parameter of `Own`).  The rule
    `held = []` is FALSE for the four trees that cancel: `Fine.timedSendTail` (inside `Fine.send true _ x`),
    `Fine.timedRecvTail` (inside `Fine.recv true x`), `Fine.dropSendFut x`, `Fine.dropRecvFut x`.  Path: `lock c`, with
    `(c.cancel r x.me).2 = true`, `unlock (c.cancel r x.me).1` publishes `c.waitList.erase x.me`, so `x.me` was taken
    out of the list, and the call returns without any peer effect on it — rightly: it is the caller's own signal, no
    peer is involved.  Nothing in the tree marks the erased id as the caller's own other than its being `x.me`, hence
    the parameter.  Formal witness: `cancel_needs_me`.

  Results: `own_fine_me : FineProgMe me t → Own me t {}` (`FineProgMe` = `FineProg` with `me = x.me` made explicit),
  `own_fine : FineProg t → ∃ me, Own me t {}` (no hypothesis), one lemma per `Fine` function (`own_send`, … — only the
  four cancelling ones and the trees containing them need `me = x.me`, the others hold for every `me`), the negative
  theorems `peek_not_own`, `popTwice_not_own`, `popForget_not_own`, and the chain corollary `chain_own` /
  `fine_chain_own`: two sections of an execution's log that take the same signal out of the wait list are separated by
  one that puts it in.
-/
import Kanal.Sections

namespace Kanal
namespace Own
open Chan Machine

/-- bookkeeping while walking a tree -/
structure OwnSt where
  /-- the state bound by the critical section in progress (`none` = the thread does not hold the lock) -/
  cur   : Option Chan := none
  /-- signals this call has taken out of the wait list (in sections already completed) and not yet used -/
  held  : List SigId := []
  /-- signals used inside the section in progress (they must be gone from the list it publishes) -/
  early : List SigId := []

/-- the signal of another thread an effect touches -/
def effPeer : Eff → Option SigId
  | .sigSend p _ => some p
  | .sigTerminate p => some p
  | .wrapData => none
  | .wrapTaken => none
  | .newSendSig => none
  | .newRetSlot => none
  | .newRecvSig => none
  | .readClock => none
  | .dropData => none
  | .giveBack => none
  | .dropLocal => none
  | .setState _ => none
  | .setPtr => none
  | .registerWaker => none
  | .rearmSig => none
  | .setTerminated => none
  | .vecReserve _ => none
  | .vecPush _ => none
  | .takeData => none
  | .readLocal => none
  | .unknown _ => none

/-- the signal of another thread a message question touches -/
def askPeer : AskM → Option SigId
  | .sigRecv p => some p
  | .readLocal => none
  | .readRet => none
  | .readSigPtr => none

/-- what a section that bound `c`, used `early` under the lock and publishes `c1` has taken out of the wait list and
    not used yet -/
def popped (c c1 : Chan) (early : List SigId) : List SigId :=
  c.waitList.filter fun p => !c1.waitList.contains p && !early.contains p

/-- `Own me t st`: along every path of `t`, for all answers of the environment, every peer effect is on a signal the
    call has popped (under the lock: on a waiter of the bound state, which the published state must no longer list;
    outside: on a signal taken out by a completed section), each popped signal is used at most once, and at return
    none is left over except possibly the caller's own signal `me` (a cancel). -/
inductive Own (me : SigId) : Act → OwnSt → Prop where
  /-- ADJUSTED (see the file header): `held = []` is false for the cancelling trees; the caller's own signal may remain. -/
  | ret {r st} : st.cur = none → (∀ p ∈ st.held, p = me) → Own me (.ret r) st
  | diverge {st} : Own me .diverge st
  /-- ADJUSTED (see the file header): only duplicate-free wait lists are bound. -/
  | lock {k st} : st.cur = none → st.early = [] →
      (∀ c, c.waitList.Nodup → Own me (k c) { st with cur := some c }) → Own me (.lock k) st
  | tryLock {k st} : st.cur = none → st.early = [] →
      (∀ c, c.waitList.Nodup → Own me (k (some c)) { st with cur := some c }) → Own me (k none) st → Own me (.tryLock k) st
  | unlock {c1 k st c} : st.cur = some c → (∀ p ∈ st.early, p ∉ c1.waitList) →
      Own me k { cur := none, early := [], held := st.held ++ popped c c1 st.early } → Own me (.unlock c1 k) st
  | effIn {e k st c p} : effPeer e = some p → st.cur = some c → p ∈ c.waitList → p ∉ st.early →
      Own me k { st with early := p :: st.early } → Own me (.eff e k) st
  | effOut {e k st p} : effPeer e = some p → st.cur = none → p ∈ st.held →
      Own me k { st with held := st.held.erase p } → Own me (.eff e k) st
  | eff {e k st} : effPeer e = none → Own me k st → Own me (.eff e k) st
  | askMIn {q k st c p} : askPeer q = some p → st.cur = some c → p ∈ c.waitList → p ∉ st.early →
      (∀ m, Own me (k m) { st with early := p :: st.early }) → Own me (.askM q k) st
  | askMOut {q k st p} : askPeer q = some p → st.cur = none → p ∈ st.held →
      (∀ m, Own me (k m) { st with held := st.held.erase p }) → Own me (.askM q k) st
  | askM {q k st} : askPeer q = none → (∀ m, Own me (k m) st) → Own me (.askM q k) st
  | askB {q k st} : (∀ b, Own me (k b) st) → Own me (.askB q k) st
  | askP {k st} : (∀ r, Own me (k r) st) → Own me (.askP k) st

/-- one peer effect on `p` in bookkeeping state `st`, continuing with `K` -/
def Use (st : OwnSt) (p : SigId) (K : OwnSt → Prop) : Prop :=
  match st.cur with
  | some c => p ∈ c.waitList ∧ p ∉ st.early ∧ K { st with early := p :: st.early }
  | none => p ∈ st.held ∧ K { st with held := st.held.erase p }

variable {me : SigId}

/-! ### `Own` as rewriting rules -/

@[simp] theorem use_in {c h ea p K} : Use ⟨some c, h, ea⟩ p K ↔ p ∈ c.waitList ∧ p ∉ ea ∧ K ⟨some c, h, p :: ea⟩ := Iff.rfl
@[simp] theorem use_out {h ea p K} : Use ⟨none, h, ea⟩ p K ↔ p ∈ h ∧ K ⟨none, h.erase p, ea⟩ := Iff.rfl

@[simp] theorem own_ret {r cur h ea} : Own me (.ret r) ⟨cur, h, ea⟩ ↔ cur = none ∧ ∀ p ∈ h, p = me :=
  ⟨fun x => by cases x with | ret a b => exact ⟨a, b⟩, fun ⟨a, b⟩ => Own.ret a b⟩
@[simp] theorem own_diverge {st} : Own me .diverge st ↔ True := ⟨fun _ => trivial, fun _ => Own.diverge⟩
@[simp] theorem own_lock {k cur h ea} : Own me (.lock k) ⟨cur, h, ea⟩ ↔
    cur = none ∧ ea = [] ∧ ∀ c, c.waitList.Nodup → Own me (k c) ⟨some c, h, []⟩ :=
  ⟨fun x => by cases x with | lock a b f => cases b; exact ⟨a, rfl, f⟩,
   fun ⟨a, b, f⟩ => by subst b; exact Own.lock a rfl f⟩
@[simp] theorem own_tryLock {k cur h ea} : Own me (.tryLock k) ⟨cur, h, ea⟩ ↔
    cur = none ∧ ea = [] ∧ (∀ c, c.waitList.Nodup → Own me (k (some c)) ⟨some c, h, []⟩) ∧ Own me (k none) ⟨none, h, []⟩ :=
  ⟨fun x => by
    cases x with
    | tryLock a b f g =>
      simp only at a b
      subst a; subst b; exact ⟨rfl, rfl, f, g⟩,
   fun ⟨a, b, f, g⟩ => by subst a; subst b; exact Own.tryLock rfl rfl f g⟩
@[simp] theorem own_unlock {c1 k c h ea} : Own me (.unlock c1 k) ⟨some c, h, ea⟩ ↔
    (∀ p ∈ ea, p ∉ c1.waitList) ∧ Own me k ⟨none, h ++ popped c c1 ea, []⟩ :=
  ⟨fun x => by cases x with | unlock a b f => cases a; exact ⟨b, f⟩, fun ⟨b, f⟩ => Own.unlock rfl b f⟩
@[simp] theorem own_unlock_none {c1 k h ea} : Own me (.unlock c1 k) ⟨none, h, ea⟩ ↔ False :=
  ⟨fun x => by cases x with | unlock a b f => (cases a), False.elim⟩

theorem own_eff_peer {e k st p} (hp : effPeer e = some p) : Own me (.eff e k) st ↔ Use st p (Own me k) := by
  obtain ⟨cur, h, ea⟩ := st
  constructor
  · intro x
    cases x with
    | effIn a b c d f => rw [hp] at a; cases a; cases b; exact ⟨c, d, f⟩
    | effOut a b c f => rw [hp] at a; cases a; cases b; exact ⟨c, f⟩
    | eff a f => rw [hp] at a; cases a
  · intro x
    cases cur with
    | some c => exact Own.effIn hp rfl x.1 x.2.1 x.2.2
    | none => exact Own.effOut hp rfl x.1 x.2

@[simp] theorem own_sigSend {p m k st} : Own me (.eff (.sigSend p m) k) st ↔ Use st p (Own me k) := own_eff_peer rfl
@[simp] theorem own_sigTerminate {p k st} : Own me (.eff (.sigTerminate p) k) st ↔ Use st p (Own me k) := own_eff_peer rfl

theorem own_eff_other {e k st} (hp : effPeer e = none) : Own me (.eff e k) st ↔ Own me k st :=
  ⟨fun x => by
    cases x with
    | effIn a => rw [hp] at a; cases a
    | effOut a => rw [hp] at a; cases a
    | eff a f => exact f, Own.eff hp⟩

@[simp] theorem own_sigRecv {p k st} : Own me (.askM (.sigRecv p) k) st ↔ Use st p (fun st' => ∀ m, Own me (k m) st') := by
  obtain ⟨cur, h, ea⟩ := st
  constructor
  · intro x
    cases x with
    | askMIn a b c d f => cases a; cases b; exact ⟨c, d, f⟩
    | askMOut a b c f => cases a; cases b; exact ⟨c, f⟩
    | askM a f => cases a
  · intro x
    cases cur with
    | some c => exact Own.askMIn rfl rfl x.1 x.2.1 x.2.2
    | none => exact Own.askMOut rfl rfl x.1 x.2

theorem own_askM_other {q k st} (hp : askPeer q = none) : Own me (.askM q k) st ↔ ∀ m, Own me (k m) st :=
  ⟨fun x => by
    cases x with
    | askMIn a => rw [hp] at a; cases a
    | askMOut a => rw [hp] at a; cases a
    | askM a f => exact f, Own.askM hp⟩

@[simp] theorem own_readLocal {k st} : Own me (.askM .readLocal k) st ↔ ∀ m, Own me (k m) st := own_askM_other rfl
@[simp] theorem own_readRet {k st} : Own me (.askM .readRet k) st ↔ ∀ m, Own me (k m) st := own_askM_other rfl
@[simp] theorem own_readSigPtr {k st} : Own me (.askM .readSigPtr k) st ↔ ∀ m, Own me (k m) st := own_askM_other rfl
@[simp] theorem own_askB {q k st} : Own me (.askB q k) st ↔ ∀ b, Own me (k b) st :=
  ⟨fun x => by cases x with | askB f => exact f, Own.askB⟩
@[simp] theorem own_askP {k st} : Own me (.askP k) st ↔ ∀ r, Own me (k r) st :=
  ⟨fun x => by cases x with | askP f => exact f, Own.askP⟩

/-- every effect other than `sigSend` / `sigTerminate` passes through -/
@[simp] theorem own_wrapData {k st} : Own me (.eff .wrapData k) st ↔ Own me k st := own_eff_other rfl
@[simp] theorem own_wrapTaken {k st} : Own me (.eff .wrapTaken k) st ↔ Own me k st := own_eff_other rfl
@[simp] theorem own_newSendSig {k st} : Own me (.eff .newSendSig k) st ↔ Own me k st := own_eff_other rfl
@[simp] theorem own_newRetSlot {k st} : Own me (.eff .newRetSlot k) st ↔ Own me k st := own_eff_other rfl
@[simp] theorem own_newRecvSig {k st} : Own me (.eff .newRecvSig k) st ↔ Own me k st := own_eff_other rfl
@[simp] theorem own_readClock {k st} : Own me (.eff .readClock k) st ↔ Own me k st := own_eff_other rfl
@[simp] theorem own_dropDataE {k st} : Own me (.eff .dropData k) st ↔ Own me k st := own_eff_other rfl
@[simp] theorem own_giveBack {k st} : Own me (.eff .giveBack k) st ↔ Own me k st := own_eff_other rfl
@[simp] theorem own_dropLocalE {k st} : Own me (.eff .dropLocal k) st ↔ Own me k st := own_eff_other rfl
@[simp] theorem own_setState {s k st} : Own me (.eff (.setState s) k) st ↔ Own me k st := own_eff_other rfl
@[simp] theorem own_setPtr {k st} : Own me (.eff .setPtr k) st ↔ Own me k st := own_eff_other rfl
@[simp] theorem own_registerWaker {k st} : Own me (.eff .registerWaker k) st ↔ Own me k st := own_eff_other rfl
@[simp] theorem own_rearmSig {k st} : Own me (.eff .rearmSig k) st ↔ Own me k st := own_eff_other rfl
@[simp] theorem own_setTerminated {k st} : Own me (.eff .setTerminated k) st ↔ Own me k st := own_eff_other rfl
@[simp] theorem own_vecReserve {n k st} : Own me (.eff (.vecReserve n) k) st ↔ Own me k st := own_eff_other rfl
@[simp] theorem own_vecPush {m k st} : Own me (.eff (.vecPush m) k) st ↔ Own me k st := own_eff_other rfl
@[simp] theorem own_takeData {k st} : Own me (.eff .takeData k) st ↔ Own me k st := own_eff_other rfl
@[simp] theorem own_readLocalE {k st} : Own me (.eff .readLocal k) st ↔ Own me k st := own_eff_other rfl
@[simp] theorem own_unknown {s k st} : Own me (.eff (.unknown s) k) st ↔ Own me k st := own_eff_other rfl

@[simp] theorem own_ite {c : Prop} [Decidable c] {t e : Act} {st} :
    Own me (if c then t else e) st ↔ (c → Own me t st) ∧ (¬ c → Own me e st) := by
  split <;> simp [*]

/-! ### lists: what a section takes out -/

theorem popped_eq_nil {c c1 : Chan} {ea : List SigId} (h : ∀ p ∈ c.waitList, p ∈ c1.waitList ∨ p ∈ ea) :
    popped c c1 ea = [] := by
  unfold popped
  rw [List.filter_eq_nil_iff]
  intro p hp
  rcases h p hp with h1 | h1 <;> simp [h1]

theorem popped_keep {c c1 : Chan} {ea : List SigId} (h : ∀ p ∈ c.waitList, p ∈ c1.waitList) : popped c c1 ea = [] :=
  popped_eq_nil fun p hp => Or.inl (h p hp)

@[simp] theorem popped_same (c : Chan) (ea : List SigId) : popped c c ea = [] := popped_keep fun _ h => h

theorem filter_eq_singleton {l : List SigId} {s : SigId} (f : SigId → Bool) (hnd : l.Nodup) (hs : s ∈ l)
    (hf : ∀ p ∈ l, f p = (p == s)) : l.filter f = [s] := by
  induction l with
  | nil => simp at hs
  | cons a l ih =>
    rw [List.nodup_cons] at hnd
    by_cases ha : a = s
    · subst ha
      have h1 : f a = true := by rw [hf a (by simp)]; simp
      have h2 : l.filter f = [] := by
        rw [List.filter_eq_nil_iff]
        intro p hp
        rw [hf p (by simp [hp])]
        intro e
        simp at e
        subst e
        exact hnd.1 hp
      simp [h1, h2]
    · have h1 : f a = false := by rw [hf a (by simp)]; simpa using ha
      have hs' : s ∈ l := by
        rcases List.mem_cons.mp hs with e | e
        · exact absurd e.symm ha
        · exact e
      simp only [List.filter_cons, h1]
      exact ih hnd.2 hs' (fun p hp => hf p (by simp [hp]))

/-- a section that pops the head of a duplicate-free wait list holds exactly the head -/
theorem popped_head {c c1 : Chan} {p : SigId} {rest : List SigId} (hw : c.waitList = p :: rest) (h1 : c1.waitList = rest)
    (hnd : c.waitList.Nodup) : popped c c1 [] = [p] := by
  unfold popped
  apply filter_eq_singleton _ hnd (by simp [hw])
  intro q hq
  rw [hw] at hq hnd
  rw [List.nodup_cons] at hnd
  rw [h1]
  rcases List.mem_cons.mp hq with e | e
  · subst e; simpa using hnd.1
  · have : q ≠ p := fun e' => hnd.1 (e' ▸ e)
    simp [e, this]

/-- a section that pops the head and uses it under the lock holds nothing -/
theorem popped_head_used {c c1 : Chan} {p : SigId} {rest : List SigId} (hw : c.waitList = p :: rest) (h1 : c1.waitList = rest) :
    popped c c1 [p] = [] := by
  apply popped_eq_nil
  intro q hq
  rw [hw] at hq
  rcases List.mem_cons.mp hq with e | e
  · right; simp [e]
  · left; rw [h1]; exact e

/-- a cancel takes out at most the cancelled signal -/
theorem popped_erase {c c1 : Chan} {s : SigId} (h1 : c1.waitList = c.waitList.erase s) :
    ∀ p ∈ popped c c1 [], p = s := by
  intro p hp
  unfold popped at hp
  simp only [List.mem_filter, h1] at hp
  by_cases e : p = s
  · exact e
  · have := (List.mem_erase_of_ne e).mpr hp.1
    simp [this] at hp

/-! ### the `Chan` functions: what they do to the wait list -/

theorem nextRecv_some {c c1 : Chan} {p : SigId} (h : c.nextRecv = (c1, some p)) :
    ∃ rest, c.waitList = p :: rest ∧ c1.waitList = rest := by
  unfold Chan.nextRecv at h
  split at h
  · simp at h
  · split at h
    · rename_i s rest hw
      simp at h
      obtain ⟨rfl, rfl⟩ := h
      exact ⟨rest, hw, rfl⟩
    · simp at h

theorem nextRecv_none {c c1 : Chan} (h : c.nextRecv = (c1, none)) : c1.waitList = c.waitList := by
  unfold Chan.nextRecv at h
  split at h
  · simp at h; rw [← h]
  · split at h
    · simp at h
    · simp at h; rw [← h]

theorem nextSend_some {c c1 : Chan} {p : SigId} (h : c.nextSend = (c1, some p)) :
    ∃ rest, c.waitList = p :: rest ∧ c1.waitList = rest := by
  unfold Chan.nextSend at h
  split at h
  · simp at h
  · split at h
    · rename_i s rest hw
      simp at h
      obtain ⟨rfl, rfl⟩ := h
      exact ⟨rest, hw, rfl⟩
    · simp at h

theorem nextSend_none {c c1 : Chan} (h : c.nextSend = (c1, none)) : c1.waitList = c.waitList := by
  unfold Chan.nextSend at h
  split at h
  · simp at h; rw [← h]
  · split at h
    · simp at h
    · simp at h; rw [← h]

/-- what `sendPre` does to the wait list, by branch -/
def SendWl (c c1 : Chan) (me : Option SigId) : SendBranch → Prop
  | .handoff r => ∃ rest, c.waitList = r :: rest ∧ c1.waitList = rest
  | .full => c1.waitList = c.waitList ++ me.toList
  | _ => c1.waitList = c.waitList

theorem sendPre_wl {c c1 : Chan} {m : Msg} {br : SendBranch} (h : c.sendPre m = (c1, br)) : SendWl c c1 none br := by
  unfold Chan.sendPre at h
  split at h
  · simp at h
    obtain ⟨rfl, rfl⟩ := h
    split <;> simp [SendWl]
  · split at h
    · rename_i c2 first hn
      simp at h
      obtain ⟨rfl, rfl⟩ := h
      exact nextRecv_some hn
    · rename_i c2 hn
      have := nextRecv_none hn
      split at h <;> simp at h <;> obtain ⟨rfl, rfl⟩ := h <;> simp [SendWl, this]

theorem sendCS_wl {c c1 : Chan} {m : Msg} {me : SigId} {br : SendBranch} (h : c.sendCS m me = (c1, br)) :
    SendWl c c1 (some me) br := by
  unfold Chan.sendCS at h
  rcases hp : c.sendPre m with ⟨c2, br2⟩
  rw [hp] at h
  have := sendPre_wl hp
  cases br2 <;> simp at h <;> obtain ⟨rfl, rfl⟩ := h <;> simp [SendWl, Chan.pushWaiter] at this ⊢ <;> simp [this]

theorem cancel_true {c : Chan} {r : Role} {s : SigId} (h : (c.cancel r s).2 = true) :
    (c.cancel r s).1.waitList = c.waitList.erase s := by
  unfold Chan.cancel at h ⊢
  split at h
  · rename_i hc; rw [if_pos hc]
  · simp at h

theorem cancel_false {c : Chan} {r : Role} {s : SigId} (h : (c.cancel r s).2 = false) : (c.cancel r s).1 = c := by
  unfold Chan.cancel at h ⊢
  split at h
  · simp at h
  · rename_i hc; rw [if_neg hc]

/-- whatever a cancel publishes, the caller holds at most its own signal afterwards -/
theorem popped_cancel (c : Chan) (r : Role) (s : SigId) : ∀ p ∈ popped c (c.cancel r s).1 [], p = s := by
  cases h : (c.cancel r s).2
  · rw [cancel_false h]; simp
  · exact popped_erase (cancel_true h)

theorem dropCS_wl (c : Chan) (side : Side) :
    ((c.dropCS side).2 = [] ∧ (c.dropCS side).1.waitList = c.waitList) ∨
    ((c.dropCS side).2 = c.waitList ∧ (c.dropCS side).1.waitList = []) := by
  unfold Chan.dropCS Chan.terminateAll
  cases side <;> dsimp only <;> split <;> (try split) <;> simp

theorem closeCS_wl {c c1 : Chan} {l : List SigId} {q : List Msg} (h : c.closeCS = some (c1, l, q)) :
    l = c.waitList ∧ c1.waitList = [] := by
  unfold Chan.closeCS at h
  split at h <;> simp at h
  obtain ⟨rfl, rfl, rfl⟩ := h
  simp

theorem drainCS_wl {c c1 : Chan} {q : List Msg} {l : List SigId} {n : Nat} (h : c.drainCS = some (c1, q, l, n)) :
    (l = [] ∧ c1.waitList = c.waitList) ∨ (l = c.waitList ∧ c1.waitList = []) := by
  unfold Chan.drainCS Chan.popAllSenders at h
  split at h
  · simp at h
  · simp at h
    split at h <;> simp at h <;> obtain ⟨rfl, _, rfl, _⟩ := h <;> simp

/-! ### the combinators of `Fine` -/

@[simp] theorem own_dropData (k : Act) {st} : Own me (Fine.dropData k) st ↔ Own me k st := by
  unfold Fine.dropData; simp
@[simp] theorem own_dropLocal (k : Act) {st} : Own me (Fine.dropLocal k) st ↔ Own me k st := by
  unfold Fine.dropLocal; simp
@[simp] theorem own_failBack (o : Bool) (k : Act) {st} : Own me (Fine.failBack o k) st ↔ Own me k st := by
  unfold Fine.failBack; cases o <;> simp
@[simp] theorem own_take (o : Bool) (k : Act) {st} : Own me (Fine.take o k) st ↔ Own me k st := by
  unfold Fine.take; cases o <;> simp
@[simp] theorem own_guardNone (o : Bool) (k : Act) {ea} :
    Own me (Fine.guardNone o k) ⟨none, [], ea⟩ ↔ Own me k ⟨none, [], ea⟩ := by
  unfold Fine.guardNone; cases o <;> simp
@[simp] theorem own_register (k : Act) {st} : Own me (Fine.register k) st ↔ Own me k st := by
  unfold Fine.register; simp
@[simp] theorem own_readOwn {cur h ea} : Own me Fine.readOwn ⟨cur, h, ea⟩ ↔ cur = none ∧ ∀ p ∈ h, p = me := by
  unfold Fine.readOwn; simp
@[simp] theorem own_drainQueue (q : List Msg) (k : Act) {st} : Own me (Fine.drainQueue q k) st ↔ Own me k st := by
  unfold Fine.drainQueue
  induction q with
  | nil => simp
  | cons a l ih => simp [ih]

/-- `terminate_signals` under the lock: the signals must be distinct waiters of the bound state, not used before;
    the continuation runs with all of them used. -/
theorem own_terminate {c : Chan} {h : List SigId} (k : Act) (l : List SigId) : ∀ (ea : List SigId),
    (∀ p ∈ l, p ∈ c.waitList) → l.Nodup → (∀ p ∈ l, p ∉ ea) →
    (∀ ea', (∀ p, p ∈ ea' ↔ p ∈ l ∨ p ∈ ea) → Own me k ⟨some c, h, ea'⟩) →
    Own me (Fine.terminate l k) ⟨some c, h, ea⟩ := by
  unfold Fine.terminate
  induction l with
  | nil => intro ea _ _ _ hk; exact hk ea (by simp)
  | cons a l ih =>
    intro ea hin hnd hea hk
    rw [List.nodup_cons] at hnd
    simp only [Act.forEach_cons, own_sigTerminate, use_in]
    refine ⟨hin a (by simp), hea a (by simp), ?_⟩
    apply ih (a :: ea) (fun p hp => hin p (by simp [hp])) hnd.2
    · intro p hp
      simp only [List.mem_cons, not_or]
      exact ⟨fun e => hnd.1 (e ▸ hp), hea p (by simp [hp])⟩
    · intro ea' hea'
      apply hk
      intro p
      rw [hea' p]
      simp only [List.mem_cons]
      constructor
      · rintro (x | x | x) <;> simp [x]
      · rintro ((x | x) | x) <;> simp [x]

/-- the second loop of `drain_into`, likewise -/
theorem own_drainSenders {c : Chan} {h : List SigId} (k : Act) (l : List SigId) : ∀ (ea : List SigId),
    (∀ p ∈ l, p ∈ c.waitList) → l.Nodup → (∀ p ∈ l, p ∉ ea) →
    (∀ ea', (∀ p, p ∈ ea' ↔ p ∈ l ∨ p ∈ ea) → Own me k ⟨some c, h, ea'⟩) →
    Own me (Fine.drainSenders l k) ⟨some c, h, ea⟩ := by
  unfold Fine.drainSenders
  induction l with
  | nil => intro ea _ _ _ hk; exact hk ea (by simp)
  | cons a l ih =>
    intro ea hin hnd hea hk
    rw [List.nodup_cons] at hnd
    simp only [Act.forEach_cons, own_sigRecv, use_in, own_vecPush]
    refine ⟨hin a (by simp), hea a (by simp), fun _ => ?_⟩
    apply ih (a :: ea) (fun p hp => hin p (by simp [hp])) hnd.2
    · intro p hp
      simp only [List.mem_cons, not_or]
      exact ⟨fun e => hnd.1 (e ▸ hp), hea p (by simp [hp])⟩
    · intro ea' hea'
      apply hk
      intro p
      rw [hea' p]
      simp only [List.mem_cons]
      constructor
      · rintro (x | x | x) <;> simp [x]
      · rintro ((x | x) | x) <;> simp [x]

/-- the end of a section that terminated / drained `l` (nothing or the whole wait list) and publishes `c1` -/
theorem own_all_or_nothing {c c1 : Chan} {l ea' : List SigId} {r : Res}
    (hl : (l = [] ∧ c1.waitList = c.waitList) ∨ (l = c.waitList ∧ c1.waitList = []))
    (hea : ∀ p, p ∈ ea' ↔ p ∈ l ∨ p ∈ ([] : List SigId)) : Own me (.unlock c1 (.ret r)) ⟨some c, [], ea'⟩ := by
  rw [own_unlock]
  rcases hl with ⟨rfl, h1⟩ | ⟨rfl, h1⟩
  · have : ea' = [] := List.eq_nil_iff_forall_not_mem.mpr fun p hp => by simpa using (hea p).mp hp
    subst this
    simp [popped_keep (c := c) (c1 := c1) (ea := []) (by rw [h1]; exact fun _ h => h)]
  · refine ⟨by simp [h1], ?_⟩
    rw [popped_eq_nil (fun p hp => Or.inr ((hea p).mpr (Or.inl hp)))]
    simp

/-- a first section that keeps every waiter (and perhaps adds some) holds nothing -/
theorem own_unlock_keep {c c1 : Chan} {k : Act} (extra : List SigId) (h : c1.waitList = c.waitList ++ extra) :
    Own me (.unlock c1 k) ⟨some c, [], []⟩ ↔ Own me k ⟨none, [], []⟩ := by
  rw [own_unlock, popped_keep (by intro p hp; rw [h]; simp [hp])]
  simp

/-- a first section that pops the head holds the head -/
theorem own_unlock_pop {c c1 : Chan} {k : Act} {p : SigId} {rest : List SigId} (hw : c.waitList = p :: rest)
    (h1 : c1.waitList = rest) (hnd : c.waitList.Nodup) :
    Own me (.unlock c1 k) ⟨some c, [], []⟩ ↔ Own me k ⟨none, [p], []⟩ := by
  rw [own_unlock, popped_head hw h1 hnd]
  simp

/-! ### one theorem per function -/

theorem own_observe (f : Chan → Res) : Own me (Fine.observe f) {} := by
  unfold Fine.observe; simp

theorem own_clone (side : Side) : Own me (Fine.cloneHandle side) {} := by
  unfold Fine.cloneHandle
  simp
  intro c _
  have : popped c (c.cloneCS side) [] = [] := by
    apply popped_keep
    unfold Chan.cloneCS
    cases side <;> dsimp only <;> split <;> exact fun _ h => h
  simp [this]

theorem own_drop (side : Side) : Own me (Fine.dropHandle side) {} := by
  unfold Fine.dropHandle
  simp
  intro c hnd
  have hl := dropCS_wl c side
  apply own_terminate _ _ []
  · rcases hl with ⟨e, _⟩ | ⟨e, _⟩ <;> simp [e]
  · rcases hl with ⟨e, _⟩ | ⟨e, _⟩ <;> simp [e, hnd]
  · simp
  · intro ea' hea
    exact own_all_or_nothing hl hea

theorem own_close : Own me Fine.close {} := by
  unfold Fine.close
  simp
  intro c hnd
  split
  · simp
  · rename_i c1 l q hc
    obtain ⟨rfl, h1⟩ := closeCS_wl hc
    apply own_terminate _ _ [] (fun _ h => h) hnd (by simp)
    intro ea' hea
    exact own_all_or_nothing (Or.inr ⟨rfl, h1⟩) hea

theorem own_sendErr (c : Chan) : Own me (Fine.sendErr c) ⟨some c, [], []⟩ := by
  unfold Fine.sendErr; simp

theorem own_trySend (opt rt : Bool) (x : Ctx) : Own me (Fine.trySend opt rt x) {} := by
  unfold Fine.trySend Fine.acquire
  simp
  cases rt <;> simp
  all_goals
    intro c hnd
    rcases hb : c.sendPre x.m with ⟨c1, br⟩
    have hw := sendPre_wl hb
    cases br <;> simp only [SendWl] at hw ⊢
  all_goals first
    | exact own_sendErr c
    | (obtain ⟨rest, hw, h1⟩ := hw; simp [own_unlock_pop hw h1 hnd]; done)
    | (simp [own_unlock_keep [] (by simpa using hw)]; done)

theorem own_timedSendTail (opt : Bool) (x : Ctx) : Own x.me (Fine.timedSendTail opt x) ⟨none, [], []⟩ := by
  unfold Fine.timedSendTail
  simp
  intro c _
  exact ⟨fun _ => popped_cancel c _ _, fun _ => popped_cancel c _ _⟩

theorem own_send (timed opt : Bool) (x : Ctx) : Own x.me (Fine.send timed opt x) {} := by
  unfold Fine.send
  simp
  cases timed <;> simp
  all_goals
    intro c hnd
    rcases hb : c.sendCS x.m x.me with ⟨c1, br⟩
    have hw := sendCS_wl hb
    cases br <;> simp only [SendWl] at hw ⊢
  all_goals first
    | exact own_sendErr c
    | (obtain ⟨rest, hw, h1⟩ := hw; simp [own_unlock_pop hw h1 hnd]; done)
    | (simp [own_unlock_keep [] (by simpa using hw)]; done)
    | (cases opt <;> simp [own_unlock_keep _ hw, own_timedSendTail]; done)

/-! ### the receive family -/

/-- the common head of every receive, as the first section of a call: a blocked sender popped behind a buffered
    message is read under the lock; one popped from an empty channel is read after the guard has died. -/
theorem own_recvHead {c : Chan} {wrap closedFirst : Act → Act} {onNone : Chan → Act} (hnd : c.waitList.Nodup)
    (hw : ∀ k h, Own me (wrap k) ⟨none, h, []⟩ ↔ Own me k ⟨none, h, []⟩)
    (hc : ∀ k, Own me (closedFirst k) ⟨some c, [], []⟩ ↔ Own me k ⟨some c, [], []⟩)
    (hn : ∀ c1, c1.waitList = c.waitList → Own me (onNone c1) ⟨some c, [], []⟩) :
    Own me (Fine.recvHead c wrap closedFirst onNone) ⟨some c, [], []⟩ := by
  unfold Fine.recvHead
  split
  · simp [hc]
  · split
    · split
      · rename_i c1 p hs
        obtain ⟨rest, hwl, h1⟩ := nextSend_some hs
        have hwl' : c.waitList = p :: rest := hwl
        rw [hwl'] at hnd
        rw [List.nodup_cons] at hnd
        simp only [own_sigRecv, use_in, own_unlock]
        refine ⟨by simp [hwl'], by simp, fun m => ⟨by simpa [h1] using hnd.1, ?_⟩⟩
        rw [popped_head_used (c1 := { c1 with queue := c1.queue ++ [m] }) hwl' h1]
        simp [hw]
      · rename_i c1 hs
        have h1 : c1.waitList = c.waitList := by have := nextSend_none hs; exact this
        simp [own_unlock_keep [] (by simpa using h1), hw]
    · split
      · rename_i c1 p hs
        obtain ⟨rest, hwl, h1⟩ := nextSend_some hs
        simp [own_unlock_pop hwl h1 hnd, hw]
      · rename_i c1 hs
        exact hn c1 (nextSend_none hs)

theorem own_tryRecv (rt : Bool) : Own me (Fine.tryRecv rt) {} := by
  unfold Fine.tryRecv Fine.acquire
  cases rt <;> simp <;> intro c hnd <;> apply own_recvHead hnd (by simp) (by simp)
  all_goals
    intro c1 h1
    simp [own_unlock_keep [] (by simpa using h1)]

theorem own_timedRecvTail (x : Ctx) : Own x.me (Fine.timedRecvTail x) ⟨none, [], []⟩ := by
  unfold Fine.timedRecvTail
  simp
  intro c _
  exact ⟨fun _ => popped_cancel c _ _, fun _ => popped_cancel c _ _⟩

theorem own_recv (timed : Bool) (x : Ctx) : Own x.me (Fine.recv timed x) {} := by
  unfold Fine.recv
  cases timed <;> simp <;> intro c hnd <;> apply own_recvHead hnd (by simp) (by simp)
  all_goals
    intro c1 h1
    simp [own_unlock_keep [] (by simpa using h1), own_unlock_keep [x.me] (show (c1.pushWaiter x.me).waitList = _ by rw [← h1]; rfl),
      own_timedRecvTail]

/-! ### drain, the futures -/

theorem own_drain (x : Ctx) : Own me (Fine.drain x) {} := by
  unfold Fine.drain
  simp
  intro c hnd
  split
  · simp
  · rename_i c1 q l n hd
    have hl := drainCS_wl hd
    have key : Own me (Fine.drainQueue q (Fine.drainSenders l (.unlock c1 (.ret (.num n))))) ⟨some c, [], []⟩ := by
      rw [own_drainQueue]
      apply own_drainSenders _ _ []
      · rcases hl with ⟨e, _⟩ | ⟨e, _⟩ <;> simp [e]
      · rcases hl with ⟨e, _⟩ | ⟨e, _⟩ <;> simp [e, hnd]
      · simp
      · intro ea' hea
        exact own_all_or_nothing hl hea
    simp [key]

theorem own_dropSendFut (x : Ctx) : Own x.me (Fine.dropSendFut x) {} := by
  unfold Fine.dropSendFut
  simp
  intro _ _ c _
  exact ⟨fun _ => popped_cancel c _ _, fun _ => popped_cancel c _ _⟩

theorem own_dropRecvFut (x : Ctx) : Own x.me (Fine.dropRecvFut x) {} := by
  unfold Fine.dropRecvFut
  simp
  intro _ c _
  exact ⟨fun _ => popped_cancel c _ _, fun _ => popped_cancel c _ _⟩

theorem own_pollSend (x : Ctx) : Own me (Fine.pollSend x) {} := by
  unfold Fine.pollSend
  split
  · simp
    intro c hnd
    rcases hb : c.sendCS x.m x.me with ⟨c1, br⟩
    have hw := sendCS_wl hb
    cases br <;> simp only [SendWl] at hw ⊢
    all_goals first
      | (obtain ⟨rest, hw, h1⟩ := hw; simp [own_unlock_pop hw h1 hnd]; done)
      | (simp [own_unlock_keep _ hw]; done)
      | (simp [own_unlock_keep [] (by simpa using hw)]; done)
  · simp
    intro r
    split <;> simp
  · simp

theorem own_pollRecvRound (x : Ctx) (st : FutSt) (again : Act) (ha : Own me again {}) :
    Own me (Fine.pollRecvRound x st again) {} := by
  unfold Fine.pollRecvRound
  split
  · simp
    intro c hnd
    apply own_recvHead hnd (by simp) (by simp)
    intro c1 h1
    simp [own_unlock_keep [] (by simpa using h1), own_unlock_keep [x.me] (show (c1.pushWaiter x.me).waitList = _ by rw [← h1]; rfl)]
  · simp
    intro r
    split <;> simp
  · simp
    intro _
    exact ha

theorem own_pollRecv (x : Ctx) : Own me (Fine.pollRecv x) {} := by
  unfold Fine.pollRecv
  exact own_pollRecvRound x _ _ (own_pollRecvRound x _ _ (by simp))

/-! ### `Act.bind` with a continuation that is as good as a return -/

theorem own_bind {f : Res → Act} (hf : ∀ r st, Own me (.ret r) st → Own me (f r) st) {a : Act} {st : OwnSt}
    (h : Own me a st) : Own me (a.bind f) st := by
  induction h with
  | ret a b => exact hf _ _ (Own.ret a b)
  | diverge => exact Own.diverge
  | lock a b _ ih => exact Own.lock a b ih
  | tryLock a b _ _ ih1 ih2 => exact Own.tryLock a b ih1 ih2
  | unlock a b _ ih => exact Own.unlock a b ih
  | effIn a b c d _ ih => exact Own.effIn a b c d ih
  | effOut a b c _ ih => exact Own.effOut a b c ih
  | eff a _ ih => exact Own.eff a ih
  | askMIn a b c d _ ih => exact Own.askMIn a b c d ih
  | askMOut a b c _ ih => exact Own.askMOut a b c ih
  | askM a _ ih => exact Own.askM a ih
  | askB _ ih => exact Own.askB ih
  | askP _ ih => exact Own.askP ih

theorem own_pollNext (x : Ctx) : Own me (Fine.pollNext x) {} := by
  unfold Fine.pollNext
  split
  · simp
  · apply own_bind _ (own_pollRecv x)
    intro r st h
    obtain ⟨cur, hd, ea⟩ := st
    cases r <;> simpa using h

/-! ### all programs -/

/-- `FineProg` with the caller's own signal made explicit: `x.me` for the calls that are given a `Ctx`, anything for
    the others (their trees do not mention it). -/
inductive FineProgMe : SigId → Act → Prop where
  | observe (me : SigId) (f : Chan → Res) : FineProgMe me (Fine.observe f)
  | cloneHandle (me : SigId) (side : Side) : FineProgMe me (Fine.cloneHandle side)
  | dropHandle (me : SigId) (side : Side) : FineProgMe me (Fine.dropHandle side)
  | close (me : SigId) : FineProgMe me Fine.close
  | trySend (opt rt : Bool) (x : Ctx) : FineProgMe x.me (Fine.trySend opt rt x)
  | send (timed opt : Bool) (x : Ctx) : FineProgMe x.me (Fine.send timed opt x)
  | tryRecv (me : SigId) (rt : Bool) : FineProgMe me (Fine.tryRecv rt)
  | recv (timed : Bool) (x : Ctx) : FineProgMe x.me (Fine.recv timed x)
  | drain (x : Ctx) : FineProgMe x.me (Fine.drain x)
  | dropSendFut (x : Ctx) : FineProgMe x.me (Fine.dropSendFut x)
  | dropRecvFut (x : Ctx) : FineProgMe x.me (Fine.dropRecvFut x)
  | pollSend (x : Ctx) : FineProgMe x.me (Fine.pollSend x)
  | pollRecv (x : Ctx) : FineProgMe x.me (Fine.pollRecv x)
  | pollNext (x : Ctx) : FineProgMe x.me (Fine.pollNext x)

theorem fineProg_me {t : Act} (h : FineProg t) : ∃ me, FineProgMe me t := by
  cases h
  · exact ⟨0, .observe _ _⟩
  · exact ⟨0, .cloneHandle _ _⟩
  · exact ⟨0, .dropHandle _ _⟩
  · exact ⟨0, .close _⟩
  · exact ⟨_, .trySend _ _ _⟩
  · exact ⟨_, .send _ _ _⟩
  · exact ⟨0, .tryRecv _ _⟩
  · exact ⟨_, .recv _ _⟩
  · exact ⟨_, .drain _⟩
  · exact ⟨_, .dropSendFut _⟩
  · exact ⟨_, .dropRecvFut _⟩
  · exact ⟨_, .pollSend _⟩
  · exact ⟨_, .pollRecv _⟩
  · exact ⟨_, .pollNext _⟩

theorem fineProgMe_fine {me : SigId} {t : Act} (h : FineProgMe me t) : FineProg t := by
  cases h
  · exact .observe _
  · exact .cloneHandle _
  · exact .dropHandle _
  · exact .close
  · exact .trySend _ _ _
  · exact .send _ _ _
  · exact .tryRecv _
  · exact .recv _ _
  · exact .drain _
  · exact .dropSendFut _
  · exact .dropRecvFut _
  · exact .pollSend _
  · exact .pollRecv _
  · exact .pollNext _

/-- **Every function of kanal touches another thread's signal only after popping it, and at most once**; of the
    signals it takes out of the wait list it leaves none unused, except its own (`me = x.me`) when it cancels. -/
theorem own_fine_me {me : SigId} : ∀ t, FineProgMe me t → Own me t {} := by
  intro t h
  cases h
  · exact own_observe _
  · exact own_clone _
  · exact own_drop _
  · exact own_close
  · exact own_trySend _ _ _
  · exact own_send _ _ _
  · exact own_tryRecv _
  · exact own_recv _ _
  · exact own_drain _
  · exact own_dropSendFut _
  · exact own_dropRecvFut _
  · exact own_pollSend _
  · exact own_pollRecv _
  · exact own_pollNext _

/-- The same over `FineProg` (no hypothesis; the duplicate-freeness of the bound wait lists is part of the `lock` rule,
    the caller's own signal is the `me` of the call's `Ctx`). -/
theorem own_fine : ∀ t, FineProg t → ∃ me, Own me t {} := by
  intro t h
  obtain ⟨me, h⟩ := fineProg_me h
  exact ⟨me, own_fine_me t h⟩

/-! ### sanity: an instance, non-vacuity, and trees that break the discipline -/

example : Own 0 (Fine.trySend false false { m := 5 }) {} := own_fine_me _ (.trySend false false { m := 5 })

/-- a channel with one waiting receiver, signal 7 -/
def oneReceiver : Chan := { Chan.new none with recvBlocking := true, waitList := [7] }

/-- Non-vacuity: on `oneReceiver` the path of `try_send(5)` is: pop 7 (`popped = [7]`), release, `7.send(5)`. -/
example : ∃ k c1, Fine.trySend false false { m := 5 } = .lock k ∧
    k oneReceiver = .unlock c1 (.eff (.sigSend 7 5) (.ret (.bool true))) ∧ popped oneReceiver c1 [] = [7] :=
  ⟨_, _, rfl, rfl, by decide⟩

/-- pops the next receiver and hands over once: fine -/
def popOnce : Act := .lock fun c =>
  match c.nextRecv with
  | (c1, some p) => .unlock c1 (.eff (.sigSend p 0) (.ret .unit))
  | (c1, none) => .unlock c1 (.ret .unit)

theorem popOnce_own : Own me popOnce {} := by
  unfold popOnce
  simp
  intro c hnd
  split
  · rename_i c1 p h
    obtain ⟨rest, hw, h1⟩ := nextRecv_some h
    simp [own_unlock_pop hw h1 hnd]
  · rename_i c1 h
    simp [own_unlock_keep [] (by simpa using nextRecv_none h)]

/-- peeks at the head of the wait list instead of popping it -/
def peek : Act := .lock fun c =>
  .unlock c (match c.waitList.head? with | some p => .eff (.sigSend p 0) (.ret .unit) | none => .ret .unit)

/-- NEGATIVE: a peer effect on a waiter that is still in the published list is rejected. -/
theorem peek_not_own : ¬ Own me peek {} := by
  intro h
  unfold peek at h
  simp at h
  have := h oneReceiver (by simp [oneReceiver])
  simp [oneReceiver] at this

/-- uses the popped signal twice -/
def popTwice : Act := .lock fun c =>
  match c.nextRecv with
  | (c1, some p) => .unlock c1 (.eff (.sigSend p 0) (.eff (.sigSend p 1) (.ret .unit)))
  | (c1, none) => .unlock c1 (.ret .unit)

/-- NEGATIVE: a second peer effect on the same popped signal is rejected. -/
theorem popTwice_not_own : ¬ Own me popTwice {} := by
  intro h
  unfold popTwice at h
  simp at h
  have := h oneReceiver (by simp [oneReceiver])
  simp [oneReceiver, Chan.nextRecv, Chan.new, popped] at this

/-- pops and forgets: the waiter would never be woken -/
def popForget : Act := .lock fun c => .unlock c.nextRecv.1 (.ret .unit)

/-- NEGATIVE: a popped signal that gets no peer effect is rejected (unless it is the caller's own). -/
theorem popForget_not_own (hme : me ≠ 7) : ¬ Own me popForget {} := by
  intro h
  unfold popForget at h
  simp at h
  have := h oneReceiver (by simp [oneReceiver]) 7
  simp [oneReceiver, Chan.nextRecv, Chan.new, popped] at this
  exact hme this.symm

/-! ### why the two rules were adjusted (file header) -/

/-- a channel on which the future with signal 3 waits to receive -/
def waitingFuture : Chan := { Chan.new none with recvBlocking := true, waitList := [3] }

/-- WITNESS for the `ret` rule: `Drop for ReceiveFuture` of the waiting future 3 on `waitingFuture` erases 3 from the
    wait list and returns; no peer effect on 3 follows.  With any other `me` — in particular under the draft rule
    `held = []`, which allows no exception — the tree is rejected.  (`own_dropRecvFut`: with `me = x.me` it is accepted.) -/
theorem cancel_needs_me (hme : me ≠ 3) : ¬ Own me (Fine.dropRecvFut { me := 3, st := .waiting }) {} := by
  intro h
  unfold Fine.dropRecvFut at h
  simp at h
  have := (h waitingFuture (by simp [waitingFuture])).1 (by decide) 3 (by decide)
  exact hme this.symm

/-- WITNESS for the `lock` rule: with the wait list `[7, 7]` a `next_recv` publishes `[7]`, and `7` does not count as
    taken out; the hand-off `7.send(m)` that follows would be rejected.  (Unreachable: `Lemmas/Struct.lean`.) -/
example : popped { Chan.new none with waitList := [7, 7] } { Chan.new none with waitList := [7] } [] = [] := by decide

/-! ### the chain corollary: between two removals of the same signal it was put back -/

/-- the section `e = (bound, published)` takes `p` out of the wait list -/
def TakesOut (p : SigId) (e : Chan × Chan) : Prop := p ∈ e.1.waitList ∧ p ∉ e.2.waitList
/-- the section `e = (bound, published)` puts `p` into the wait list -/
def PutsIn (p : SigId) (e : Chan × Chan) : Prop := p ∉ e.1.waitList ∧ p ∈ e.2.waitList

/-- In a chained log that starts from a state without `p`: a section that finds `p` in the list is preceded by one that
    put it there. -/
theorem chain_putsIn_before {p : SigId} {log : List (Chan × Chan)} : ∀ {c0 : Chan} {j : Nat} {e : Chan × Chan},
    Chained c0 log → p ∉ c0.waitList → log[j]? = some e → p ∈ e.1.waitList →
    ∃ k e', k < j ∧ log[k]? = some e' ∧ PutsIn p e' := by
  induction log with
  | nil => intro c0 j e _ _ hj; simp at hj
  | cons a rest ih =>
    intro c0 j e hc h0 hj hp
    obtain ⟨b, q⟩ := a
    simp only [Chained] at hc
    obtain ⟨rfl, hc⟩ := hc
    cases j with
    | zero =>
      simp at hj
      subst hj
      exact absurd hp h0
    | succ j =>
      simp only [List.getElem?_cons_succ] at hj
      by_cases hq : p ∈ q.waitList
      · exact ⟨0, (b, q), Nat.succ_pos j, rfl, h0, hq⟩
      · obtain ⟨k, e', hk, he, hput⟩ := ih hc hq hj hp
        exact ⟨k + 1, e', Nat.succ_lt_succ hk, by simpa using he, hput⟩

/-- **Chain corollary.**  Let `log` be the completed critical sections of an execution in lock order
    (`Machine.serial`: `Chained c0 log`).  If the sections at positions `i < j` both take the signal `p` out of the wait
    list (`p` is in the list they bind and not in the list they publish), then some section at a position `k` with
    `i < k < j` puts `p` into the list (`p` is not in the list it binds and is in the list it publishes).  So one
    registration of a waiter is popped by at most one section: a second pop needs a new `push` in between. -/
theorem chain_own {p : SigId} {log : List (Chan × Chan)} : ∀ {c0 : Chan} {i j : Nat} {ei ej : Chan × Chan},
    Chained c0 log → i < j → log[i]? = some ei → log[j]? = some ej → TakesOut p ei → TakesOut p ej →
    ∃ k e', i < k ∧ k < j ∧ log[k]? = some e' ∧ PutsIn p e' := by
  induction log with
  | nil => intro c0 i j ei ej _ _ hi; simp at hi
  | cons a rest ih =>
    intro c0 i j ei ej hc hij hi hj ti tj
    obtain ⟨b, q⟩ := a
    simp only [Chained] at hc
    obtain ⟨rfl, hc⟩ := hc
    cases j with
    | zero => exact absurd hij (Nat.not_lt_zero i)
    | succ j =>
      simp only [List.getElem?_cons_succ] at hj
      cases i with
      | zero =>
        simp at hi
        subst hi
        obtain ⟨k, e', hk, he, hput⟩ := chain_putsIn_before hc ti.2 hj tj.1
        exact ⟨k + 1, e', Nat.succ_pos k, Nat.succ_lt_succ hk, by simpa using he, hput⟩
      | succ i =>
        simp only [List.getElem?_cons_succ] at hi
        obtain ⟨k, e', hik, hkj, he, hput⟩ := ih hc (Nat.lt_of_succ_lt_succ hij) hi hj ti tj
        exact ⟨k + 1, e', Nat.succ_lt_succ hik, Nat.succ_lt_succ hkj, by simpa using he, hput⟩

/-- For the machine: in every execution of the `Fine` programs, two sections of the log that take out the same signal
    are separated by one that puts it in. -/
theorem fine_chain_own {c0 : Chan} {n : Nat} {g : Cfg} (h : Reach FineProg c0 n g) {p : SigId} {i j : Nat}
    {ei ej : Chan × Chan} (hij : i < j) (hi : g.log[i]? = some ei) (hj : g.log[j]? = some ej)
    (ti : TakesOut p ei) (tj : TakesOut p ej) : ∃ k e', i < k ∧ k < j ∧ g.log[k]? = some e' ∧ PutsIn p e' :=
  chain_own (fine_serial h).2.2.2.1 hij hi hj ti tj

end Own
end Kanal

#print axioms Kanal.Own.own_fine_me
#print axioms Kanal.Own.own_fine
#print axioms Kanal.Own.popOnce_own
#print axioms Kanal.Own.peek_not_own
#print axioms Kanal.Own.popTwice_not_own
#print axioms Kanal.Own.popForget_not_own
#print axioms Kanal.Own.chain_own
#print axioms Kanal.Own.fine_chain_own
