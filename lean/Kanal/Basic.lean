/-
  Kanal.Basic — vocabulary shared by every model layer.
  Import-free on purpose (the drivers are linked as `lean_exe`).
-/
namespace Kanal

/-- A message is an identity tag; payload bytes are the business of `PtrM`. -/
abbrev Msg := Nat
/-- Name of a signal (a waiter's stack frame / a future's embedded signal). -/
abbrev SigId := Nat
/-- Identity of a task waker handed to `poll`. -/
abbrev WakerId := Nat
/-- Identity of a future / stream object. -/
abbrev FutId := Nat

/-- Comparison operators as they can appear in the source. -/
inductive Cmp where
  | lt | le | gt | ge | eq | ne
  deriving DecidableEq, Repr, Inhabited

def Cmp.eval : Cmp → Nat → Nat → Bool
  | .lt, a, b => a < b
  | .le, a, b => a ≤ b
  | .gt, a, b => a > b
  | .ge, a, b => a ≥ b
  | .eq, a, b => a == b
  | .ne, a, b => a != b

/-- `a cmp usize::MAX` for a queue length `a` (always far below `usize::MAX`). -/
def Cmp.evalInf : Cmp → Bool
  | .lt => true | .le => true | .ne => true
  | .gt => false | .ge => false | .eq => false

/-- Atomic memory orderings. -/
inductive Ord where
  | relaxed | acquire | release | acqRel | seqCst
  deriving DecidableEq, Repr, Inhabited

/-- The ordering has release semantics (publishes the writer's prior accesses). -/
def Ord.isRelease : Ord → Bool
  | .release | .acqRel | .seqCst => true
  | _ => false

/-- The ordering has acquire semantics (obtains what a release published). -/
def Ord.isAcquire : Ord → Bool
  | .acquire | .acqRel | .seqCst => true
  | _ => false

inductive Role where
  | send | recv
  deriving DecidableEq, Repr, Inhabited

def Role.other : Role → Role
  | .send => .recv
  | .recv => .send

/-- Which side of the channel a handle belongs to. -/
abbrev Side := Role

/-- How a waiter waits. -/
inductive Kind where
  | sync     -- `send` / `recv`: spin then park
  | timed    -- `*_timeout`: spin until the deadline, never parks
  | async    -- future: woken through a task waker
  deriving DecidableEq, Repr, Inhabited

end Kanal
