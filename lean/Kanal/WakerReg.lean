/-
  Kanal.WakerReg — every `Pending` poll leaves the waker it was given registered, and the waker slot is only written
  while no peer can be reading it.

  A future's signal stores ONE waker.  `Future::poll(cx)` must, whenever it answers `Pending`, have arranged that the
  waker of THIS poll (`cx.waker()`) is the one the peer will wake: either the stored waker already is that waker
  (`self.sig.will_wake(cx.waker())` answered `true`) or the poll stored it (`self.sig.register_waker(cx.waker())`).
  The store is a plain write: it is only safe while the signal is not exposed (`reg = false` in `NoDangle`'s sense), or
  while the poll holds the channel lock AND finds its signal still in the wait list (a peer reads the waker only after
  popping the signal under that lock).

  `WReg me t ⟨cur, reg, wk⟩` extends `NoDangle.Reg me t ⟨cur, reg⟩` (same rules for `cur` / `reg`, same two hypotheses
  of the `lock` rule) with the flag `wk` = "the waker stored in my signal is the waker of this poll":

  * `ret r`                : NoDangle's condition, and `r = .pending → wk = true`;
  * `askB .willWake`       : answer `true` sets `wk`, answer `false` leaves it;
  * `eff .registerWaker`   : requires `reg = false ∨ ∃ c, cur = some c ∧ me ∈ c.waitList`; sets `wk`;
  * `eff .rearmSig`        : (NoDangle: requires `reg = false`) clears `wk` — a fresh signal has no waker;
  * everything else as in `Reg`, `wk` unchanged.

  No rule had to be adjusted: all three poll trees of `Kanal.Fine` satisfy the rules as stated (`wreg_pollNext` carries
  the stream invariant `terminated → state = done`, exactly as `NoDangle.reg_pollNext` does, for the same reason).
-/
import Kanal.NoDangle
import Kanal.TieCode

namespace Kanal
namespace WakerReg
open Chan (SendBranch RecvBranch)
open NoDangle (unlockReg askBReg unlockReg_out unlockReg_in unlockReg_same sendCS_cases nextSend_sub nextSend_none)

structure WSt where
  cur : Option Chan := none   -- state bound by the critical section in progress
  reg : Bool := false         -- exposed (as in NoDangle.RegSt)
  wk  : Bool := false         -- the waker stored in my signal is the waker of THIS poll

/-- `wk` after the effect `e`. -/
def effWk (e : Eff) (wk : Bool) : Bool :=
  match e with
  | .registerWaker => true
  | .rearmSig => false
  | _ => wk

/-- `wk` after the environment answered `ans` to `q`. -/
def askBWk (q : AskB) (ans wk : Bool) : Bool :=
  match q with
  | .willWake => ans || wk
  | _ => wk

inductive WReg (me : SigId) : Act → WSt → Prop where
  | ret {r reg wk} : (reg = true → r = .pending) → (r = .pending → wk = true) → WReg me (.ret r) ⟨none, reg, wk⟩
  | diverge {st} : WReg me .diverge st
  | lock {k reg wk} :
      (∀ c : Chan, (reg = false → me ∉ c.waitList) → c.waitList.Nodup → WReg me (k c) ⟨some c, reg, wk⟩) →
      WReg me (.lock k) ⟨none, reg, wk⟩
  | tryLock {k reg wk} :
      (∀ c : Chan, (reg = false → me ∉ c.waitList) → c.waitList.Nodup → WReg me (k (some c)) ⟨some c, reg, wk⟩) →
      WReg me (k none) ⟨none, reg, wk⟩ → WReg me (.tryLock k) ⟨none, reg, wk⟩
  | unlock {c1 k c reg wk} : WReg me k ⟨none, unlockReg me c c1 reg, wk⟩ → WReg me (.unlock c1 k) ⟨some c, reg, wk⟩
  | eff {e k cur reg wk} : (e = .rearmSig → reg = false) →
      (e = .registerWaker → reg = false ∨ ∃ c, cur = some c ∧ me ∈ c.waitList) →
      WReg me k ⟨cur, reg, effWk e wk⟩ → WReg me (.eff e k) ⟨cur, reg, wk⟩
  | askB {q k cur reg wk} : (∀ b, WReg me (k b) ⟨cur, askBReg q b reg, askBWk q b wk⟩) → WReg me (.askB q k) ⟨cur, reg, wk⟩
  | askM {q k st} : (∀ m, WReg me (k m) st) → WReg me (.askM q k) st
  | askP {k cur reg wk} : WReg me (k none) ⟨cur, reg, wk⟩ → (∀ b, WReg me (k (some b)) ⟨cur, false, wk⟩) →
      WReg me (.askP k) ⟨cur, reg, wk⟩

variable {me : SigId}

/-! ### `WReg` as rewriting rules -/

@[simp] theorem wreg_ret {r cur reg wk} : WReg me (.ret r) ⟨cur, reg, wk⟩ ↔
    cur = none ∧ (reg = true → r = .pending) ∧ (r = .pending → wk = true) :=
  ⟨fun h => by cases h with | ret h1 h2 => exact ⟨rfl, h1, h2⟩, by rintro ⟨rfl, h1, h2⟩; exact .ret h1 h2⟩
@[simp] theorem wreg_diverge {st} : WReg me .diverge st ↔ True := ⟨fun _ => trivial, fun _ => .diverge⟩
@[simp] theorem wreg_lock {k cur reg wk} : WReg me (.lock k) ⟨cur, reg, wk⟩ ↔
    cur = none ∧ ∀ c : Chan, (reg = false → me ∉ c.waitList) → c.waitList.Nodup → WReg me (k c) ⟨some c, reg, wk⟩ :=
  ⟨fun h => by cases h with | lock h => exact ⟨rfl, h⟩, by rintro ⟨rfl, h⟩; exact .lock h⟩
@[simp] theorem wreg_tryLock {k cur reg wk} : WReg me (.tryLock k) ⟨cur, reg, wk⟩ ↔
    cur = none ∧
      (∀ c : Chan, (reg = false → me ∉ c.waitList) → c.waitList.Nodup → WReg me (k (some c)) ⟨some c, reg, wk⟩) ∧
      WReg me (k none) ⟨none, reg, wk⟩ :=
  ⟨fun h => by cases h with | tryLock h1 h2 => exact ⟨rfl, h1, h2⟩, by rintro ⟨rfl, h1, h2⟩; exact .tryLock h1 h2⟩
theorem wreg_unlock {c1 k cur reg wk} : WReg me (.unlock c1 k) ⟨cur, reg, wk⟩ ↔
    ∃ c, cur = some c ∧ WReg me k ⟨none, unlockReg me c c1 reg, wk⟩ :=
  ⟨fun h => by cases h with | unlock h => exact ⟨_, rfl, h⟩, by rintro ⟨c, rfl, h⟩; exact .unlock h⟩
@[simp] theorem wreg_unlock_some {c1 k c reg wk} : WReg me (.unlock c1 k) ⟨some c, reg, wk⟩ ↔
    WReg me k ⟨none, unlockReg me c c1 reg, wk⟩ :=
  ⟨fun h => by cases h with | unlock h => exact h, .unlock⟩
@[simp] theorem wreg_unlock_none {c1 k reg wk} : WReg me (.unlock c1 k) ⟨none, reg, wk⟩ ↔ False :=
  ⟨fun h => (by cases h), False.elim⟩
theorem wreg_eff {e k cur reg wk} : WReg me (.eff e k) ⟨cur, reg, wk⟩ ↔
    (e = .rearmSig → reg = false) ∧ (e = .registerWaker → reg = false ∨ ∃ c, cur = some c ∧ me ∈ c.waitList) ∧
      WReg me k ⟨cur, reg, effWk e wk⟩ :=
  ⟨fun h => by cases h with | eff h1 h2 h3 => exact ⟨h1, h2, h3⟩, fun ⟨h1, h2, h3⟩ => .eff h1 h2 h3⟩
/-- the store into the waker slot: not exposed, or under the lock with the signal still in the list found -/
@[simp] theorem wreg_registerWaker {k cur reg wk} : WReg me (.eff .registerWaker k) ⟨cur, reg, wk⟩ ↔
    (reg = false ∨ ∃ c, cur = some c ∧ me ∈ c.waitList) ∧ WReg me k ⟨cur, reg, true⟩ := by
  simp [wreg_eff, effWk]
/-- a fresh signal: not exposed, and it has no waker -/
@[simp] theorem wreg_rearmSig {k cur reg wk} : WReg me (.eff .rearmSig k) ⟨cur, reg, wk⟩ ↔
    reg = false ∧ WReg me k ⟨cur, reg, false⟩ := by
  simp [wreg_eff, effWk]
/-- every other effect -/
theorem wreg_eff_other {e k cur reg wk} (h1 : e ≠ .rearmSig) (h2 : e ≠ .registerWaker) :
    WReg me (.eff e k) ⟨cur, reg, wk⟩ ↔ WReg me k ⟨cur, reg, wk⟩ := by
  have : effWk e wk = wk := by unfold effWk; split <;> simp_all
  simp [wreg_eff, h1, h2, this]
@[simp] theorem wreg_setState {s k cur reg wk} : WReg me (.eff (.setState s) k) ⟨cur, reg, wk⟩ ↔ WReg me k ⟨cur, reg, wk⟩ :=
  wreg_eff_other (by simp) (by simp)
@[simp] theorem wreg_setPtr {k cur reg wk} : WReg me (.eff .setPtr k) ⟨cur, reg, wk⟩ ↔ WReg me k ⟨cur, reg, wk⟩ :=
  wreg_eff_other (by simp) (by simp)
@[simp] theorem wreg_dropLocalEff {k cur reg wk} : WReg me (.eff .dropLocal k) ⟨cur, reg, wk⟩ ↔ WReg me k ⟨cur, reg, wk⟩ :=
  wreg_eff_other (by simp) (by simp)
@[simp] theorem wreg_readLocalEff {k cur reg wk} : WReg me (.eff .readLocal k) ⟨cur, reg, wk⟩ ↔ WReg me k ⟨cur, reg, wk⟩ :=
  wreg_eff_other (by simp) (by simp)
@[simp] theorem wreg_sigSend {p m k cur reg wk} : WReg me (.eff (.sigSend p m) k) ⟨cur, reg, wk⟩ ↔ WReg me k ⟨cur, reg, wk⟩ :=
  wreg_eff_other (by simp) (by simp)
@[simp] theorem wreg_setTerminated {k cur reg wk} : WReg me (.eff .setTerminated k) ⟨cur, reg, wk⟩ ↔ WReg me k ⟨cur, reg, wk⟩ :=
  wreg_eff_other (by simp) (by simp)
@[simp] theorem wreg_askB {q k cur reg wk} : WReg me (.askB q k) ⟨cur, reg, wk⟩ ↔
    ∀ b, WReg me (k b) ⟨cur, askBReg q b reg, askBWk q b wk⟩ :=
  ⟨fun h => by cases h with | askB h => exact h, .askB⟩
@[simp] theorem wreg_askM {q k st} : WReg me (.askM q k) st ↔ ∀ m, WReg me (k m) st :=
  ⟨fun h => by cases h with | askM h => exact h, .askM⟩
@[simp] theorem wreg_askP {k cur reg wk} : WReg me (.askP k) ⟨cur, reg, wk⟩ ↔
    WReg me (k none) ⟨cur, reg, wk⟩ ∧ ∀ b, WReg me (k (some b)) ⟨cur, false, wk⟩ :=
  ⟨fun h => by cases h with | askP h1 h2 => exact ⟨h1, h2⟩, fun ⟨h1, h2⟩ => .askP h1 h2⟩
@[simp] theorem wreg_ite {c : Prop} [Decidable c] {t e : Act} {st} :
    WReg me (if c then t else e) st ↔ (c → WReg me t st) ∧ (¬ c → WReg me e st) := by
  split <;> simp [*]

@[simp] theorem askBWk_willWake (a w) : askBWk .willWake a w = (a || w) := rfl
@[simp] theorem askBWk_needsDrop (a w) : askBWk .needsDrop a w = w := rfl
@[simp] theorem askBWk_sizeGtPtr (a w) : askBWk .sizeGtPtr a w = w := rfl
@[simp] theorem askBWk_abw (a w) : askBWk .asyncBlockingWait a w = w := rfl

/-! ### the combinators of `Fine` the poll trees use -/

@[simp] theorem wreg_dropLocal (k : Act) {cur reg wk} :
    WReg me (Fine.dropLocal k) ⟨cur, reg, wk⟩ ↔ WReg me k ⟨cur, reg, wk⟩ := by
  unfold Fine.dropLocal; simp

/-- registration of a future: the waker is stored while the signal is not yet exposed -/
theorem wreg_register (k : Act) {cur wk} :
    WReg me (Fine.register k) ⟨cur, false, wk⟩ ↔ WReg me k ⟨cur, false, true⟩ := by
  unfold Fine.register; simp

/-- a signal found in the wait list by `send_signal_exists` / `recv_signal_exists` is in the wait list -/
theorem sigExists_mem {c : Chan} {r : Role} (h : c.sigExists r me = true) : me ∈ c.waitList := by
  unfold Chan.sigExists at h
  simp only [Bool.and_eq_true] at h
  simpa using h.2

theorem wreg_recvHead {c : Chan} {wrap closedFirst : Act → Act} {onNone : Chan → Act} {wk} (hm : me ∉ c.waitList)
    (hw : ∀ k, WReg me k ⟨none, false, wk⟩ → WReg me (wrap k) ⟨none, false, wk⟩)
    (hc : ∀ k, WReg me k ⟨some c, false, wk⟩ → WReg me (closedFirst k) ⟨some c, false, wk⟩)
    (hn : ∀ c1 : Chan, c1.waitList = c.waitList → WReg me (onNone c1) ⟨some c, false, wk⟩) :
    WReg me (Fine.recvHead c wrap closedFirst onNone) ⟨some c, false, wk⟩ := by
  unfold Fine.recvHead
  split
  · apply hc; simp [unlockReg_out hm]
  · split
    · rename_i v q hq
      have hs := nextSend_sub { c with queue := q } me
      split
      · rename_i c1 p hnx
        rw [hnx] at hs
        simp
        intro m
        rw [unlockReg_out (found := c) (pub := { c1 with queue := c1.queue ++ [m] }) (fun h => hm (hs h))]
        apply hw; simp
      · rename_i c1 hnx
        rw [hnx] at hs
        simp
        rw [unlockReg_out (fun h => hm (hs h))]
        apply hw; simp
    · have hs := nextSend_sub c me
      split
      · rename_i c1 p hnx
        rw [hnx] at hs
        simp
        rw [unlockReg_out (fun h => hm (hs h))]
        apply hw; simp
      · rename_i c1 hnx
        exact hn c1 (nextSend_none hnx)

/-! ### the poll trees -/

/-- the waiting branch shared by the two futures: `Pending` only with the waker of this poll stored; the refresh is
    done under the lock, after the signal was found in the wait list -/
theorem wreg_refresh (r : Role) (x : Ctx) (fin : Bool → Act) (hfin : ∀ ok, WReg x.me (fin ok) ⟨none, false, false⟩) :
    WReg x.me (.askB .willWake fun same => if same then .ret .pending else
      .lock fun c =>
        if c.sigExists r x.me then .eff .registerWaker (.unlock c (.ret .pending))
        else .unlock c (.eff (.setState .done) (.askB .asyncBlockingWait fin))) ⟨none, true, false⟩ := by
  simp only [wreg_askB, NoDangle.askBReg_willWake, askBWk_willWake, Bool.or_false]
  intro same
  cases same
  · simp only [Bool.false_eq_true, if_false, wreg_lock, true_and]
    intro c _ _
    rw [wreg_ite]
    constructor
    · intro hex
      rw [wreg_registerWaker]
      refine ⟨Or.inr ⟨c, rfl, sigExists_mem hex⟩, ?_⟩
      rw [wreg_unlock_some, unlockReg_same]
      simp
    · intro _
      rw [wreg_unlock_some, unlockReg_same]
      simp [hfin]
  · simp

theorem wreg_pollSend (x : Ctx) : WReg x.me (Fine.pollSend x) ⟨none, x.st == .waiting, false⟩ := by
  unfold Fine.pollSend
  cases hst : x.st
  · simp only [NoDangle.zero_beq_waiting, wreg_lock, true_and]
    intro c hm _
    replace hm := hm trivial
    have hs := sendCS_cases c x.m x.me
    rcases hb : c.sendCS x.m x.me with ⟨c1, br⟩
    rw [hb] at hs
    rcases hs with ⟨hf, hin⟩ | ⟨hf, hsub⟩
    · simp at hf hin
      subst hf
      have hi : unlockReg x.me c c1 false = true := unlockReg_in hin
      simp [wreg_register, hi]
    · have ho : unlockReg x.me c c1 false = false := unlockReg_out (fun h => hm (hsub _ h))
      have ho' : unlockReg x.me c c false = false := unlockReg_out hm
      cases br <;> simp [ho, ho'] at hf ⊢
  · simp only [beq_self_eq_true, wreg_askP]
    constructor
    · refine wreg_refresh .send x _ ?_
      intro ok; cases ok <;> simp
    · intro b; cases b <;> simp
  · simp

theorem wreg_pollRecvRound_zero (x : Ctx) (again : Act) :
    WReg x.me (Fine.pollRecvRound x .zero again) ⟨none, false, false⟩ := by
  unfold Fine.pollRecvRound
  simp only [wreg_lock, true_and]
  intro c hm _
  replace hm := hm trivial
  apply wreg_recvHead hm (fun k h => by simp [h]) (fun k h => by simp [h])
  intro c1 hw
  have ho : unlockReg x.me c c1 false = false := unlockReg_out (by rw [hw]; exact hm)
  have hi : unlockReg x.me c (c1.pushWaiter x.me) false = true := unlockReg_in (by simp [Chan.pushWaiter])
  simp [wreg_register, ho, hi]

theorem wreg_pollRecvRound_waiting (x : Ctx) (again : Act) :
    WReg x.me (Fine.pollRecvRound x .waiting again) ⟨none, true, false⟩ := by
  unfold Fine.pollRecvRound
  simp only [wreg_askP]
  constructor
  · refine wreg_refresh .recv x _ ?_
    intro ok; cases ok <;> simp
  · intro b; cases b <;> simp

/-- a finished stream future re-arms its signal (not exposed; the fresh signal has no waker) and goes round again -/
theorem wreg_pollRecvRound_done (x : Ctx) (again : Act) (h : WReg x.me again ⟨none, false, false⟩) :
    WReg x.me (Fine.pollRecvRound x .done again) ⟨none, false, false⟩ := by
  unfold Fine.pollRecvRound
  simp [h]

theorem wreg_pollRecv (x : Ctx) : WReg x.me (Fine.pollRecv x) ⟨none, x.st == .waiting, false⟩ := by
  unfold Fine.pollRecv
  cases hst : x.st
  · exact wreg_pollRecvRound_zero x _
  · exact wreg_pollRecvRound_waiting x _
  · exact wreg_pollRecvRound_done x _ (wreg_pollRecvRound_zero x _)

/-- `Act.bind` with a continuation that returns at once and keeps `Pending` -/
theorem wreg_bind {f : Res → Act}
    (hf : ∀ r reg wk, (reg = true → r = .pending) → (r = .pending → wk = true) → WReg me (f r) ⟨none, reg, wk⟩) :
    ∀ (a : Act) (st : WSt), WReg me a st → WReg me (a.bind f) st := by
  intro a
  induction a with
  | ret r => intro ⟨cur, reg, wk⟩ h; simp only [wreg_ret] at h; obtain ⟨rfl, h1, h2⟩ := h; exact hf r reg wk h1 h2
  | diverge => intro st _; simp [Act.bind]
  | lock k ih =>
    intro ⟨cur, reg, wk⟩ h; simp only [Act.bind, wreg_lock] at h ⊢
    exact ⟨h.1, fun c h1 h2 => ih c _ (h.2 c h1 h2)⟩
  | tryLock k ih =>
    intro ⟨cur, reg, wk⟩ h; simp only [Act.bind, wreg_tryLock] at h ⊢
    exact ⟨h.1, fun c h1 h2 => ih _ _ (h.2.1 c h1 h2), ih _ _ h.2.2⟩
  | unlock c k ih =>
    intro ⟨cur, reg, wk⟩ h; simp only [Act.bind, wreg_unlock] at h ⊢
    obtain ⟨c0, hc, h⟩ := h
    exact ⟨c0, hc, ih _ h⟩
  | eff e k ih => intro ⟨cur, reg, wk⟩ h; simp only [Act.bind, wreg_eff] at h ⊢; exact ⟨h.1, h.2.1, ih _ h.2.2⟩
  | askB q k ih => intro ⟨cur, reg, wk⟩ h; simp only [Act.bind, wreg_askB] at h ⊢; exact fun b => ih b _ (h b)
  | askM q k ih => intro st h; simp only [Act.bind, wreg_askM] at h ⊢; exact fun m => ih m _ (h m)
  | askP k ih =>
    intro ⟨cur, reg, wk⟩ h; simp only [Act.bind, wreg_askP] at h ⊢
    exact ⟨ih _ _ h.1, fun b => ih _ _ (h.2 b)⟩

/-- `poll_next`.  Hypothesis: the stream object's invariant `terminated → state = done`
    (`NoDangle.streamInv_pollNext` proves `poll_next` maintains it). -/
theorem wreg_pollNext (x : Ctx) (hinv : x.terminated = true → x.st = .done) :
    WReg x.me (Fine.pollNext x) ⟨none, x.st == .waiting, false⟩ := by
  unfold Fine.pollNext
  split
  · rename_i ht; simp [hinv ht]
  · refine wreg_bind ?_ _ _ (wreg_pollRecv x)
    intro r reg wk h1 h2
    cases reg
    · cases r <;> simp at h2 ⊢ <;> exact h2
    · cases r <;> simp at h1 h2 ⊢ <;> exact h2

/-- without the invariant the statement is false (as for `NoDangle.reg_pollNext`): an ended stream answers `Ready(None)`
    at once, whatever the future's state -/
theorem not_wreg_pollNext_terminated_waiting (x : Ctx) (ht : x.terminated = true) (hs : x.st = .waiting) :
    ¬ WReg x.me (Fine.pollNext x) ⟨none, x.st == .waiting, false⟩ := by
  unfold Fine.pollNext
  simp [ht, hs]

/-! ### the same, about the translated Rust source -/

theorem wreg_SendFuture_poll (x : Ctx) : WReg x.me (Gen.Future_SendFuture_poll x) ⟨none, x.st == .waiting, false⟩ := by
  rw [TieCode.poll_send]; exact wreg_pollSend x
theorem wreg_ReceiveFuture_poll (x : Ctx) :
    WReg x.me (Gen.Future_ReceiveFuture_poll x) ⟨none, x.st == .waiting, false⟩ := by
  rw [TieCode.poll_recv]; exact wreg_pollRecv x
theorem wreg_ReceiveStream_poll_next (x : Ctx) (hinv : x.terminated = true → x.st = .done) :
    WReg x.me (Gen.Stream_ReceiveStream_poll_next x) ⟨none, x.st == .waiting, false⟩ := by
  rw [TieCode.poll_next]; exact wreg_pollNext x hinv

/-! ### the rules are not vacuous -/

/-- defect D4, *no refresh*: the waiting branch answers `Pending` whether or not the waker changed -/
def noRefresh : Act :=
  .askP fun r => match r with
    | some _ => .eff (.setState .done) (.ret .unit)
    | none => .askB .willWake fun _ => .ret .pending

theorem not_wreg_noRefresh (me : SigId) : ¬ WReg me noRefresh ⟨none, true, false⟩ := by
  intro h
  unfold noRefresh at h
  rw [wreg_askP] at h
  have h1 := h.1
  simp only [wreg_askB] at h1
  have h2 := h1 false
  simp at h2

/-- defect D5, *unlocked refresh*: the waker is stored while the signal is exposed, outside the lock -/
def unlockedRefresh : Act :=
  .askP fun r => match r with
    | some _ => .ret .unit
    | none => .askB .willWake fun same => if same then .ret .pending else .eff .registerWaker (.ret .pending)

theorem not_wreg_unlockedRefresh (me : SigId) : ¬ WReg me unlockedRefresh ⟨none, true, false⟩ := by
  intro h
  unfold unlockedRefresh at h
  rw [wreg_askP] at h
  have h1 := h.1
  simp only [wreg_askB] at h1
  have h2 := h1 false
  simp at h2

/-- *refresh under the lock without checking the list*: the peer may have popped the signal already -/
def uncheckedRefresh : Act :=
  .askP fun r => match r with
    | some _ => .ret .unit
    | none => .askB .willWake fun same => if same then .ret .pending else
      .lock fun c => .eff .registerWaker (.unlock c (.ret .pending))

theorem not_wreg_uncheckedRefresh (me : SigId) : ¬ WReg me uncheckedRefresh ⟨none, true, false⟩ := by
  intro h
  unfold uncheckedRefresh at h
  rw [wreg_askP] at h
  have h1 := h.1
  simp only [wreg_askB] at h1
  have h2 := h1 false
  simp only [Bool.false_eq_true, if_false, wreg_lock] at h2
  -- a state whose wait list does not contain `me` (a peer popped it): the write races with the peer's read
  have hmem : me ∉ (Chan.new none).waitList := by simp [Chan.new]
  have h3 := h2.2 (Chan.new none) (by simp) (by simp [Chan.new])
  rw [wreg_registerWaker] at h3
  rcases h3.1 with h4 | ⟨c, hc, hin⟩
  · simp at h4
  · cases hc; exact hmem hin

/-- positive control: the actual waiting branch of `SendFuture::poll` passes -/
example (x : Ctx) (hst : x.st = .waiting) :
    WReg x.me
      (.askP fun r =>
        match r with
        | some ok => .eff (.setState .done) (if ok then .ret .unit else Fine.dropLocal (.ret (.err .closed)))
        | none => .askB .willWake fun same => if same then .ret .pending else
          .lock fun c =>
            if c.sigExists .send x.me then .eff .registerWaker (.unlock c (.ret .pending))
            else .unlock c (.eff (.setState .done) (.askB .asyncBlockingWait fun ok =>
              if ok then .ret .unit else Fine.dropLocal (.ret (.err .closed)))))
      ⟨none, true, false⟩ := by
  have h := wreg_pollSend x
  unfold Fine.pollSend at h
  simp only [hst, beq_self_eq_true] at h
  exact h

end WakerReg
end Kanal

#print axioms Kanal.WakerReg.wreg_pollSend
#print axioms Kanal.WakerReg.wreg_pollRecv
#print axioms Kanal.WakerReg.wreg_pollNext
#print axioms Kanal.WakerReg.wreg_SendFuture_poll
#print axioms Kanal.WakerReg.wreg_ReceiveFuture_poll
#print axioms Kanal.WakerReg.wreg_ReceiveStream_poll_next
#print axioms Kanal.WakerReg.not_wreg_noRefresh
#print axioms Kanal.WakerReg.not_wreg_unlockedRefresh
#print axioms Kanal.WakerReg.not_wreg_uncheckedRefresh
#print axioms Kanal.WakerReg.not_wreg_pollNext_terminated_waiting
