/-
  Kanal.TieDiscipline — the two tree disciplines, stated about the TRANSLATED Rust source.

  `Kanal.Own` and `Kanal.NoDangle` prove their disciplines for the trees of `Kanal.Fine`; `Kanal.TieCode` proves that the
  translation of /repo/src (`Kanal/GenCode.lean`, regenerated on every run) equals those trees.  Here the two are put together:
  every statement below is about a `Gen.*` definition, i.e. about what the source says now.

  * `Own me t {}`: the call touches another thread's signal (`p.send`, `p.recv`, `t.terminate`) only if it took `p` out of the
    wait list in a critical section of its own, at most once, and never returns with a popped peer signal left untouched
    (`SigM`'s "the one peer that popped it" — C07; no waiter is forgotten — C06).
  * `Reg me t { reg := … }`: the call returns — and a future's `Drop` ends — only when no peer can touch the caller's own
    signal any more; only a `Pending` poll may leave while exposed (C07, C13, C15).
-/
import Kanal.TieCode
import Kanal.Own
import Kanal.NoDangle

namespace Kanal.TieDiscipline
open Kanal Kanal.Own Kanal.NoDangle

/-! ### one peer per popped signal, exactly once -/

theorem own_send (x : Ctx) : Own x.me (Gen.Sender_send x) {} := by rw [TieCode.send]; exact Own.own_send false false x
theorem own_send_timeout (x : Ctx) : Own x.me (Gen.Sender_send_timeout x) {} := by rw [TieCode.send_timeout]; exact Own.own_send true false x
theorem own_send_option_timeout (x : Ctx) : Own x.me (Gen.Sender_send_option_timeout x) {} := by
  rw [TieCode.send_option_timeout]; exact Own.own_send true true x
theorem own_try_send (x : Ctx) :
    Own x.me (Gen.shared_send_impl_try_send x) {} ∧ Own x.me (Gen.shared_send_impl_try_send_option x) {} ∧
    Own x.me (Gen.shared_send_impl_try_send_realtime x) {} ∧ Own x.me (Gen.shared_send_impl_try_send_option_realtime x) {} := by
  rw [TieCode.try_send, TieCode.try_send_option, TieCode.try_send_realtime, TieCode.try_send_option_realtime]
  exact ⟨own_trySend _ _ x, own_trySend _ _ x, own_trySend _ _ x, own_trySend _ _ x⟩
theorem own_recv (x : Ctx) : Own x.me (Gen.Receiver_recv x) {} ∧ Own x.me (Gen.Receiver_recv_timeout x) {} := by
  rw [TieCode.recv, TieCode.recv_timeout]; exact ⟨Own.own_recv false x, Own.own_recv true x⟩
theorem own_try_recv (x : Ctx) (me : SigId) :
    Own me (Gen.shared_recv_impl_try_recv x) {} ∧ Own me (Gen.shared_recv_impl_try_recv_realtime x) {} := by
  rw [TieCode.try_recv, TieCode.try_recv_realtime]; exact ⟨own_tryRecv false, own_tryRecv true⟩
theorem own_drain_into (x : Ctx) (me : SigId) : Own me (Gen.shared_recv_impl_drain_into x) {} := by
  rw [TieCode.drain_into]; exact own_drain x
theorem own_close (x : Ctx) (me : SigId) : Own me (Gen.shared_impl_close x) {} := by rw [TieCode.close]; exact Own.own_close
theorem own_handle_drops (x : Ctx) (me : SigId) :
    Own me (Gen.Drop_Sender_drop x) {} ∧ Own me (Gen.Drop_AsyncSender_drop x) {} ∧
    Own me (Gen.Drop_Receiver_drop x) {} ∧ Own me (Gen.Drop_AsyncReceiver_drop x) {} := by
  rw [TieCode.drop_sender, TieCode.drop_async_sender, TieCode.drop_receiver, TieCode.drop_async_receiver]
  exact ⟨own_drop _, own_drop _, own_drop _, own_drop _⟩
theorem own_futures (x : Ctx) :
    Own x.me (Gen.Future_SendFuture_poll x) {} ∧ Own x.me (Gen.Future_ReceiveFuture_poll x) {} ∧
    Own x.me (Gen.Stream_ReceiveStream_poll_next x) {} ∧
    Own x.me (Gen.Drop_SendFuture_drop x) {} ∧ Own x.me (Gen.Drop_ReceiveFuture_drop x) {} := by
  rw [TieCode.poll_send, TieCode.poll_recv, TieCode.poll_next, TieCode.drop_send_fut, TieCode.drop_recv_fut]
  exact ⟨own_pollSend x, own_pollRecv x, own_pollNext x, own_dropSendFut x, own_dropRecvFut x⟩

/-! ### no frame dies while its signal can be touched -/

theorem reg_send (x : Ctx) :
    Reg x.me (Gen.Sender_send x) {} ∧ Reg x.me (Gen.Sender_send_timeout x) {} ∧ Reg x.me (Gen.Sender_send_option_timeout x) {} := by
  rw [TieCode.send, TieCode.send_timeout, TieCode.send_option_timeout]
  exact ⟨NoDangle.reg_send _ _ x, NoDangle.reg_send _ _ x, NoDangle.reg_send _ _ x⟩
theorem reg_recv (x : Ctx) : Reg x.me (Gen.Receiver_recv x) {} ∧ Reg x.me (Gen.Receiver_recv_timeout x) {} := by
  rw [TieCode.recv, TieCode.recv_timeout]; exact ⟨NoDangle.reg_recv _ x, NoDangle.reg_recv _ x⟩
theorem reg_try (x : Ctx) :
    Reg x.me (Gen.shared_send_impl_try_send x) {} ∧ Reg x.me (Gen.shared_send_impl_try_send_option x) {} ∧
    Reg x.me (Gen.shared_send_impl_try_send_realtime x) {} ∧ Reg x.me (Gen.shared_send_impl_try_send_option_realtime x) {} ∧
    Reg x.me (Gen.shared_recv_impl_try_recv x) {} ∧ Reg x.me (Gen.shared_recv_impl_try_recv_realtime x) {} ∧
    Reg x.me (Gen.shared_recv_impl_drain_into x) {} := by
  rw [TieCode.try_send, TieCode.try_send_option, TieCode.try_send_realtime, TieCode.try_send_option_realtime,
    TieCode.try_recv, TieCode.try_recv_realtime, TieCode.drain_into]
  exact ⟨reg_trySend _ _ x, reg_trySend _ _ x, reg_trySend _ _ x, reg_trySend _ _ x, reg_tryRecv _ _, reg_tryRecv _ _, reg_drain x⟩
/-- the blocking calls never answer `Pending`: with `reg_send` / `reg_recv`, they return only unexposed -/
theorem blocking_never_pending (x : Ctx) :
    NoPending (Gen.Sender_send x) ∧ NoPending (Gen.Sender_send_timeout x) ∧ NoPending (Gen.Sender_send_option_timeout x) ∧
    NoPending (Gen.Receiver_recv x) ∧ NoPending (Gen.Receiver_recv_timeout x) := by
  rw [TieCode.send, TieCode.send_timeout, TieCode.send_option_timeout, TieCode.recv, TieCode.recv_timeout]
  exact ⟨np_send _ _ x, np_send _ _ x, np_send _ _ x, np_recv _ x, np_recv _ x⟩
/-- a future is exposed on entry exactly when it is `Waiting`; a poll leaves exposed only with `Pending`; `Drop` always ends unexposed -/
theorem reg_futures (x : Ctx) :
    Reg x.me (Gen.Future_SendFuture_poll x) { reg := x.st == .waiting } ∧
    Reg x.me (Gen.Future_ReceiveFuture_poll x) { reg := x.st == .waiting } ∧
    Reg x.me (Gen.Drop_SendFuture_drop x) { reg := x.st == .waiting } ∧
    Reg x.me (Gen.Drop_ReceiveFuture_drop x) { reg := x.st == .waiting } ∧
    NoPending (Gen.Drop_SendFuture_drop x) ∧ NoPending (Gen.Drop_ReceiveFuture_drop x) := by
  rw [TieCode.poll_send, TieCode.poll_recv, TieCode.drop_send_fut, TieCode.drop_recv_fut]
  exact ⟨reg_pollSend x, reg_pollRecv x, reg_dropSendFut x, reg_dropRecvFut x, np_dropSendFut x, np_dropRecvFut x⟩
/-- the stream: under the invariant `terminated → state = Done`, which `poll_next` itself maintains (`NoDangle.streamInv_pollNext`) -/
theorem reg_stream (x : Ctx) (hinv : x.terminated = true → x.st = .done) :
    Reg x.me (Gen.Stream_ReceiveStream_poll_next x) { reg := x.st == .waiting } := by
  rw [TieCode.poll_next]; exact reg_pollNext x hinv

end Kanal.TieDiscipline

#print axioms Kanal.TieDiscipline.own_send
#print axioms Kanal.TieDiscipline.own_send_timeout
#print axioms Kanal.TieDiscipline.own_send_option_timeout
#print axioms Kanal.TieDiscipline.own_try_send
#print axioms Kanal.TieDiscipline.own_recv
#print axioms Kanal.TieDiscipline.own_try_recv
#print axioms Kanal.TieDiscipline.own_drain_into
#print axioms Kanal.TieDiscipline.own_close
#print axioms Kanal.TieDiscipline.own_handle_drops
#print axioms Kanal.TieDiscipline.own_futures
#print axioms Kanal.TieDiscipline.reg_send
#print axioms Kanal.TieDiscipline.reg_recv
#print axioms Kanal.TieDiscipline.reg_try
#print axioms Kanal.TieDiscipline.blocking_never_pending
#print axioms Kanal.TieDiscipline.reg_futures
#print axioms Kanal.TieDiscipline.reg_stream
