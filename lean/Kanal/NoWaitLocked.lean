/-
  Kanal.NoWaitLocked — whoever holds the channel lock never waits for anybody.

  `NWL t l` (`l` = the thread holds the guard at this node) is `Machine.WL` — `lock`/`tryLock` only while not holding,
  `unlock` only while holding, a call returns without the guard — plus: the questions whose answer another thread has to
  produce, `sig.wait()`, `sig.wait_timeout(deadline)`, `self.sig.async_blocking_wait()` and `self.sig.poll()`, are asked
  only while NOT holding the guard.  A thread that parks (or spins) on its own signal with the guard alive stops every
  other thread at `acquire_internal`, among them the one peer that could answer: the channel deadlocks.

  * `nwl_fine`: every tree of `Kanal.Fine` obeys the discipline (one lemma per function, combinator lemmas as rewriting
    rules, as in `Kanal.Sections`).
  * `Tie.*`: the same about the TRANSLATED source, for every `Gen.*` entry point that has a `TieCode` equality.
  * `nwl_rejects_guard_across_wait`: `Drop for ReceiveFuture` with the guard kept alive across `async_blocking_wait`
    (a `let` guard instead of a temporary) is rejected.
  * `nwl_wl`: the discipline refines well-lockedness.

  The rule for `askP` is the STRICT one (polling only while not holding): no `Fine` tree polls under the lock, so the
  relaxation the task allowed for (`Signal::poll` never blocks) was not needed.
-/
import Kanal.Machine
import Kanal.Sections
import Kanal.TieCode

namespace Kanal
namespace NoWaitLocked
open Chan Machine

/-- The Boolean questions that wait for a peer: the thread parks / spins until somebody else touches its signal. -/
@[simp] def waits : AskB → Bool
  | .wait => true
  | .waitTimeout => true
  | .asyncBlockingWait => true
  | _ => false

/-- Well-locked, and nothing that waits for a peer (or polls the own signal) is asked while the guard is held. -/
inductive NWL : Act → Bool → Prop where
  | ret (r) : NWL (.ret r) false
  | diverge (l) : NWL .diverge l
  | lock {k} : (∀ c, NWL (k c) true) → NWL (.lock k) false
  | tryLock {k} : (∀ c, NWL (k (some c)) true) → NWL (k none) false → NWL (.tryLock k) false
  | unlock {c k} : NWL k false → NWL (.unlock c k) true
  | eff {e k l} : NWL k l → NWL (.eff e k) l
  | askB {q k l} : (waits q = true → l = false) → (∀ b, NWL (k b) l) → NWL (.askB q k) l
  | askM {q k l} : (∀ m, NWL (k m) l) → NWL (.askM q k) l
  | askP {k} : (∀ r, NWL (k r) false) → NWL (.askP k) false      -- strict: `self.sig.poll()` only without the guard

/-! ### `NWL` as rewriting rules -/

@[simp] theorem nwl_ret {r l} : NWL (.ret r) l ↔ l = false :=
  ⟨fun h => by cases h; rfl, fun h => h ▸ NWL.ret r⟩
@[simp] theorem nwl_diverge {l} : NWL .diverge l ↔ True := ⟨fun _ => trivial, fun _ => NWL.diverge l⟩
@[simp] theorem nwl_lock {k l} : NWL (.lock k) l ↔ l = false ∧ ∀ c, NWL (k c) true :=
  ⟨fun h => by cases h with | lock h => exact ⟨rfl, h⟩, fun ⟨e, h⟩ => e ▸ NWL.lock h⟩
@[simp] theorem nwl_tryLock {k l} :
    NWL (.tryLock k) l ↔ l = false ∧ (∀ c, NWL (k (some c)) true) ∧ NWL (k none) false :=
  ⟨fun h => by cases h with | tryLock h1 h2 => exact ⟨rfl, h1, h2⟩, fun ⟨e, h1, h2⟩ => e ▸ NWL.tryLock h1 h2⟩
@[simp] theorem nwl_unlock {c k l} : NWL (.unlock c k) l ↔ l = true ∧ NWL k false :=
  ⟨fun h => by cases h with | unlock h => exact ⟨rfl, h⟩, fun ⟨e, h⟩ => e ▸ NWL.unlock h⟩
@[simp] theorem nwl_eff {e k l} : NWL (.eff e k) l ↔ NWL k l := ⟨fun h => by cases h; assumption, NWL.eff⟩
@[simp] theorem nwl_askB {q k l} : NWL (.askB q k) l ↔ (waits q = true → l = false) ∧ ∀ x, NWL (k x) l :=
  ⟨fun h => by cases h with | askB h1 h2 => exact ⟨h1, h2⟩, fun ⟨h1, h2⟩ => NWL.askB h1 h2⟩
@[simp] theorem nwl_askM {q k l} : NWL (.askM q k) l ↔ ∀ x, NWL (k x) l :=
  ⟨fun h => by cases h with | askM h => exact h, NWL.askM⟩
@[simp] theorem nwl_askP {k l} : NWL (.askP k) l ↔ l = false ∧ ∀ x, NWL (k x) false :=
  ⟨fun h => by cases h with | askP h => exact ⟨rfl, h⟩, fun ⟨e, h⟩ => e ▸ NWL.askP h⟩

@[simp] theorem nwl_ite {c : Prop} [Decidable c] {t e : Act} {l} :
    NWL (if c then t else e) l ↔ (c → NWL t l) ∧ (¬ c → NWL e l) := by
  split <;> simp [*]

/-- The discipline refines well-lockedness. -/
theorem nwl_wl {t : Act} {l : Bool} (h : NWL t l) : WL t l := by
  induction h with
  | ret r => exact .ret r
  | diverge l => exact .diverge l
  | lock _ ih => exact .lock ih
  | tryLock _ _ ih1 ih2 => exact .tryLock ih1 ih2
  | unlock _ ih => exact .unlock ih
  | eff _ ih => exact .eff ih
  | askB _ _ ih => exact .askB ih
  | askM _ ih => exact .askM ih
  | askP _ ih => exact .askP ih

/-! ### the combinators of `Fine` -/

@[simp] theorem nwl_forEach_eff {α : Type} (l : List α) (f : α → Eff) (k : Act) {lk} :
    NWL (Act.forEach l (fun a next => .eff (f a) next) k) lk ↔ NWL k lk := by
  induction l with
  | nil => simp
  | cons a l ih => simp [ih]

@[simp] theorem nwl_terminate (l : List SigId) (k : Act) {lk} : NWL (Fine.terminate l k) lk ↔ NWL k lk := by
  unfold Fine.terminate; exact nwl_forEach_eff l _ k
@[simp] theorem nwl_drainQueue (q : List Msg) (k : Act) {lk} : NWL (Fine.drainQueue q k) lk ↔ NWL k lk := by
  unfold Fine.drainQueue; exact nwl_forEach_eff q _ k
/-- `p.recv()` on a popped sender under the lock is not a wait: the sender has published its value before it entered
    the wait list (`askM`, not one of the three waits). -/
@[simp] theorem nwl_drainSenders (l : List SigId) (k : Act) {lk} : NWL (Fine.drainSenders l k) lk ↔ NWL k lk := by
  unfold Fine.drainSenders
  induction l with
  | nil => simp
  | cons a l ih => simp [ih]

@[simp] theorem nwl_dropData (k : Act) {l} : NWL (Fine.dropData k) l ↔ NWL k l := by
  unfold Fine.dropData; simp
@[simp] theorem nwl_dropLocal (k : Act) {l} : NWL (Fine.dropLocal k) l ↔ NWL k l := by
  unfold Fine.dropLocal; simp
@[simp] theorem nwl_failBack (o : Bool) (k : Act) {l} : NWL (Fine.failBack o k) l ↔ NWL k l := by
  unfold Fine.failBack; cases o <;> simp
@[simp] theorem nwl_take (o : Bool) (k : Act) {l} : NWL (Fine.take o k) l ↔ NWL k l := by
  unfold Fine.take; cases o <;> simp
@[simp] theorem nwl_guardNone (o : Bool) (k : Act) : NWL (Fine.guardNone o k) false ↔ NWL k false := by
  unfold Fine.guardNone; cases o <;> simp
@[simp] theorem nwl_readOwn : NWL Fine.readOwn false := by
  unfold Fine.readOwn; simp
@[simp] theorem nwl_register (k : Act) {l} : NWL (Fine.register k) l ↔ NWL k l := by
  unfold Fine.register; simp
@[simp] theorem nwl_sendErr (c : Chan) {l} : NWL (Fine.sendErr c) l ↔ l = true := by
  unfold Fine.sendErr; simp

/-! ### one lemma per function -/

theorem nwl_observe (f : Chan → Res) : NWL (Fine.observe f) false := by unfold Fine.observe; simp
theorem nwl_clone (side : Side) : NWL (Fine.cloneHandle side) false := by unfold Fine.cloneHandle; simp
theorem nwl_drop (side : Side) : NWL (Fine.dropHandle side) false := by unfold Fine.dropHandle; simp
theorem nwl_close : NWL Fine.close false := by
  unfold Fine.close; simp; intro c; split <;> simp

theorem nwl_trySend (opt rt : Bool) (x : Ctx) : NWL (Fine.trySend opt rt x) false := by
  unfold Fine.trySend Fine.acquire
  simp
  cases rt <;> simp
  all_goals
    intro c
    rcases hb : c.sendPre x.m with ⟨c1, br⟩
    cases br <;> simp

/-- the waits of a timed sender after the deadline: `wait_timeout` before the lock, `wait` after the guard died -/
theorem nwl_timedSendTail (opt : Bool) (x : Ctx) : NWL (Fine.timedSendTail opt x) false := by
  unfold Fine.timedSendTail
  simp

theorem nwl_send (timed opt : Bool) (x : Ctx) : NWL (Fine.send timed opt x) false := by
  unfold Fine.send
  simp
  cases timed <;> simp
  all_goals
    intro c
    rcases hb : c.sendCS x.m x.me with ⟨c1, br⟩
    cases br <;> simp [nwl_timedSendTail]

theorem nwl_recvHead {c : Chan} {wrap closedFirst : Act → Act} {onNone : Chan → Act}
    (hw : ∀ k, NWL k false → NWL (wrap k) false)
    (hc : ∀ k, NWL k true → NWL (closedFirst k) true)
    (hn : ∀ c1, NWL (onNone c1) true) : NWL (Fine.recvHead c wrap closedFirst onNone) true := by
  unfold Fine.recvHead
  split
  · apply hc; simp
  · split
    · split
      · simp; apply hw; simp
      · simp; apply hw; simp
    · split
      · simp; apply hw; simp
      · apply hn

theorem nwl_tryRecv (rt : Bool) : NWL (Fine.tryRecv rt) false := by
  unfold Fine.tryRecv Fine.acquire
  cases rt <;> simp <;> intro c <;> apply nwl_recvHead <;> simp

theorem nwl_timedRecvTail (x : Ctx) : NWL (Fine.timedRecvTail x) false := by
  unfold Fine.timedRecvTail
  simp

theorem nwl_recv (timed : Bool) (x : Ctx) : NWL (Fine.recv timed x) false := by
  unfold Fine.recv
  cases timed <;> simp <;> intro c <;> apply nwl_recvHead <;> simp [nwl_timedRecvTail]

theorem nwl_drain (x : Ctx) : NWL (Fine.drain x) false := by
  unfold Fine.drain
  simp
  intro c
  split <;> simp

/-- `Drop for SendFuture`: the guard is a temporary of the `cancel_send_signal` statement; `async_blocking_wait` comes after -/
theorem nwl_dropSendFut (x : Ctx) : NWL (Fine.dropSendFut x) false := by
  unfold Fine.dropSendFut
  simp

/-- `Drop for ReceiveFuture`: likewise -/
theorem nwl_dropRecvFut (x : Ctx) : NWL (Fine.dropRecvFut x) false := by
  unfold Fine.dropRecvFut
  simp

theorem nwl_pollSend (x : Ctx) : NWL (Fine.pollSend x) false := by
  unfold Fine.pollSend
  split
  · simp
    intro c
    rcases hb : c.sendCS x.m x.me with ⟨c1, br⟩
    cases br <;> simp
  · simp
    intro r
    split <;> simp
  · simp

theorem nwl_pollRecvRound (x : Ctx) (st : FutSt) (again : Act) (ha : NWL again false) :
    NWL (Fine.pollRecvRound x st again) false := by
  unfold Fine.pollRecvRound
  split
  · simp
    intro c
    apply nwl_recvHead <;> simp
  · simp
    intro r
    split <;> simp
  · simp [ha]

theorem nwl_pollRecv (x : Ctx) : NWL (Fine.pollRecv x) false := by
  unfold Fine.pollRecv
  exact nwl_pollRecvRound x _ _ (nwl_pollRecvRound x _ _ (by simp))

/-- `Act.bind` with a continuation that obeys the discipline from "not holding" -/
theorem nwl_bind {f : Res → Act} (hf : ∀ r, NWL (f r) false) :
    ∀ (a : Act) (l : Bool), NWL a l → NWL (a.bind f) l := by
  intro a
  induction a with
  | ret r => intro l h; simp at h; subst h; exact hf r
  | diverge => intro l _; simp [Act.bind]
  | lock k ih => intro l h; simp only [Act.bind, nwl_lock] at h ⊢; exact ⟨h.1, fun c => ih c _ (h.2 c)⟩
  | tryLock k ih =>
    intro l h; simp only [Act.bind, nwl_tryLock] at h ⊢
    exact ⟨h.1, fun c => ih _ _ (h.2.1 c), ih _ _ h.2.2⟩
  | unlock c k ih => intro l h; simp only [Act.bind, nwl_unlock] at h ⊢; exact ⟨h.1, ih _ h.2⟩
  | eff e k ih => intro l h; simp only [Act.bind, nwl_eff] at h ⊢; exact ih _ h
  | askB q k ih => intro l h; simp only [Act.bind, nwl_askB] at h ⊢; exact ⟨h.1, fun x => ih x _ (h.2 x)⟩
  | askM q k ih => intro l h; simp only [Act.bind, nwl_askM] at h ⊢; exact fun x => ih x _ (h x)
  | askP k ih => intro l h; simp only [Act.bind, nwl_askP] at h ⊢; exact ⟨h.1, fun x => ih x _ (h.2 x)⟩

theorem nwl_pollNext (x : Ctx) : NWL (Fine.pollNext x) false := by
  unfold Fine.pollNext
  split
  · simp
  · exact nwl_bind (by intro r; cases r <;> simp) _ _ (nwl_pollRecv x)

/-- Every program of the machine: no lock-taking function of kanal waits for a peer, or polls, with the guard alive. -/
theorem nwl_fine : ∀ t, FineProg t → NWL t false := by
  intro t h
  cases h
  · exact nwl_observe _
  · exact nwl_clone _
  · exact nwl_drop _
  · exact nwl_close
  · exact nwl_trySend _ _ _
  · exact nwl_send _ _ _
  · exact nwl_tryRecv _
  · exact nwl_recv _ _
  · exact nwl_drain _
  · exact nwl_dropSendFut _
  · exact nwl_dropRecvFut _
  · exact nwl_pollSend _
  · exact nwl_pollRecv _
  · exact nwl_pollNext _

/-! ### the seeded shape: a `let` guard that lives across `async_blocking_wait` -/

/-- `Drop for ReceiveFuture` with `let mut internal = acquire_internal(..)` kept alive to the end of the block:
    the cancel fails (a sender popped the signal and is about to write), the future waits for that sender — holding
    the lock the sender's next operation needs. -/
def dropRecvFutGuardHeld (me : SigId) : Act :=
  .lock fun c =>
    if (c.cancel .recv me).2 then .unlock (c.cancel .recv me).1 (.ret .unit)
    else .askB .asyncBlockingWait fun _ => .unlock (c.cancel .recv me).1 (.ret .unit)

/-- it is well-locked: `Machine.WL` (and with it `Machine.serial`) does not see the defect … -/
theorem guard_across_wait_is_wl (me : SigId) : WL (dropRecvFutGuardHeld me) false := by
  unfold dropRecvFutGuardHeld; simp

/-- … and `NWL` rejects it: on the fresh channel `me` is in no wait list, the cancel fails, and the wait is asked
    with the guard alive. -/
theorem nwl_rejects_guard_across_wait (me : SigId) : ¬ NWL (dropRecvFutGuardHeld me) false := by
  unfold dropRecvFutGuardHeld
  intro h
  simp only [nwl_lock, true_and] at h
  have h1 := h (Chan.new none)
  have hc : ((Chan.new none).cancel .recv me).2 = false := by simp [Chan.cancel, Chan.new]
  rw [hc] at h1
  simp at h1

/-! ### the same discipline, stated about the TRANSLATED source (`TieCode`: `Gen.*` = the `Fine` trees) -/

namespace Tie

theorem try_send (x : Ctx) :
    NWL (Gen.shared_send_impl_try_send x) false ∧ NWL (Gen.shared_send_impl_try_send_option x) false ∧
    NWL (Gen.shared_send_impl_try_send_realtime x) false ∧ NWL (Gen.shared_send_impl_try_send_option_realtime x) false := by
  rw [TieCode.try_send, TieCode.try_send_option, TieCode.try_send_realtime, TieCode.try_send_option_realtime]
  exact ⟨nwl_trySend _ _ x, nwl_trySend _ _ x, nwl_trySend _ _ x, nwl_trySend _ _ x⟩

theorem send (x : Ctx) :
    NWL (Gen.Sender_send x) false ∧ NWL (Gen.Sender_send_timeout x) false ∧ NWL (Gen.Sender_send_option_timeout x) false := by
  rw [TieCode.send, TieCode.send_timeout, TieCode.send_option_timeout]
  exact ⟨nwl_send _ _ x, nwl_send _ _ x, nwl_send _ _ x⟩

theorem recv (x : Ctx) :
    NWL (Gen.shared_recv_impl_try_recv x) false ∧ NWL (Gen.shared_recv_impl_try_recv_realtime x) false ∧
    NWL (Gen.Receiver_recv x) false ∧ NWL (Gen.Receiver_recv_timeout x) false ∧
    NWL (Gen.shared_recv_impl_drain_into x) false := by
  rw [TieCode.try_recv, TieCode.try_recv_realtime, TieCode.recv, TieCode.recv_timeout, TieCode.drain_into]
  exact ⟨nwl_tryRecv _, nwl_tryRecv _, nwl_recv _ x, nwl_recv _ x, nwl_drain x⟩

theorem close (x : Ctx) : NWL (Gen.shared_impl_close x) false := by rw [TieCode.close]; exact nwl_close

theorem clones (x : Ctx) :
    NWL (Gen.Clone_Sender_clone x) false ∧ NWL (Gen.Clone_AsyncSender_clone x) false ∧
    NWL (Gen.Sender_clone_async x) false ∧ NWL (Gen.AsyncSender_clone_sync x) false ∧
    NWL (Gen.Clone_Receiver_clone x) false ∧ NWL (Gen.Clone_AsyncReceiver_clone x) false ∧
    NWL (Gen.Receiver_clone_async x) false ∧ NWL (Gen.AsyncReceiver_clone_sync x) false := by
  rw [TieCode.clone_sender, TieCode.clone_async_sender, TieCode.sender_clone_async, TieCode.async_sender_clone_sync,
    TieCode.clone_receiver, TieCode.clone_async_receiver, TieCode.receiver_clone_async, TieCode.async_receiver_clone_sync]
  exact ⟨nwl_clone _, nwl_clone _, nwl_clone _, nwl_clone _, nwl_clone _, nwl_clone _, nwl_clone _, nwl_clone _⟩

theorem handle_drops (x : Ctx) :
    NWL (Gen.Drop_Sender_drop x) false ∧ NWL (Gen.Drop_AsyncSender_drop x) false ∧
    NWL (Gen.Drop_Receiver_drop x) false ∧ NWL (Gen.Drop_AsyncReceiver_drop x) false := by
  rw [TieCode.drop_sender, TieCode.drop_async_sender, TieCode.drop_receiver, TieCode.drop_async_receiver]
  exact ⟨nwl_drop _, nwl_drop _, nwl_drop _, nwl_drop _⟩

theorem futures (x : Ctx) :
    NWL (Gen.Future_SendFuture_poll x) false ∧ NWL (Gen.Future_ReceiveFuture_poll x) false ∧
    NWL (Gen.Stream_ReceiveStream_poll_next x) false ∧
    NWL (Gen.Drop_SendFuture_drop x) false ∧ NWL (Gen.Drop_ReceiveFuture_drop x) false := by
  rw [TieCode.poll_send, TieCode.poll_recv, TieCode.poll_next, TieCode.drop_send_fut, TieCode.drop_recv_fut]
  exact ⟨nwl_pollSend x, nwl_pollRecv x, nwl_pollNext x, nwl_dropSendFut x, nwl_dropRecvFut x⟩

theorem observers (x : Ctx) :
    NWL (Gen.shared_impl_is_bounded x) false ∧ NWL (Gen.shared_impl_len x) false ∧
    NWL (Gen.shared_impl_is_empty x) false ∧ NWL (Gen.shared_impl_is_full x) false ∧
    NWL (Gen.shared_impl_capacity x) false ∧ NWL (Gen.shared_impl_receiver_count x) false ∧
    NWL (Gen.shared_impl_sender_count x) false ∧ NWL (Gen.shared_impl_is_closed x) false ∧
    NWL (Gen.shared_send_impl_is_disconnected x) false ∧ NWL (Gen.shared_recv_impl_is_disconnected x) false ∧
    NWL (Gen.shared_recv_impl_is_terminated x) false := by
  rw [TieCode.is_bounded, TieCode.len, TieCode.is_empty, TieCode.is_full, TieCode.capacity, TieCode.receiver_count,
    TieCode.sender_count, TieCode.is_closed, TieCode.is_disconnected_send, TieCode.is_disconnected_recv, TieCode.is_terminated]
  exact ⟨nwl_observe _, nwl_observe _, nwl_observe _, nwl_observe _, nwl_observe _, nwl_observe _, nwl_observe _,
    nwl_observe _, nwl_observe _, nwl_observe _, nwl_observe _⟩

/-- the translated `Drop for ReceiveFuture` is NOT the rejected shape -/
theorem drop_recv_fut_not_seeded (x : Ctx) :
    NWL (Gen.Drop_ReceiveFuture_drop x) false ∧ ¬ NWL (dropRecvFutGuardHeld x.me) false :=
  ⟨(futures x).2.2.2.2, nwl_rejects_guard_across_wait x.me⟩

end Tie

end NoWaitLocked
end Kanal

#print axioms Kanal.NoWaitLocked.nwl_wl
#print axioms Kanal.NoWaitLocked.nwl_fine
#print axioms Kanal.NoWaitLocked.guard_across_wait_is_wl
#print axioms Kanal.NoWaitLocked.nwl_rejects_guard_across_wait
#print axioms Kanal.NoWaitLocked.Tie.try_send
#print axioms Kanal.NoWaitLocked.Tie.send
#print axioms Kanal.NoWaitLocked.Tie.recv
#print axioms Kanal.NoWaitLocked.Tie.close
#print axioms Kanal.NoWaitLocked.Tie.clones
#print axioms Kanal.NoWaitLocked.Tie.handle_drops
#print axioms Kanal.NoWaitLocked.Tie.futures
#print axioms Kanal.NoWaitLocked.Tie.observers
#print axioms Kanal.NoWaitLocked.Tie.drop_recv_fut_not_seeded
