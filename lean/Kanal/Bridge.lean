/-
  Kanal.Bridge — the fine-grained model read sequentially IS the channel model's step.

  `Kanal/TieCode.lean` proves: translation of the Rust source = `Kanal.Fine`.  This file closes the chain for the
  calls that consist of one critical section (all `try_*`, `drain_into`, `close`, `clone`, handle `drop`, observers):
  running their interaction tree against the channel model's state — `lock` reads `s.chan`, `unlock c` publishes `c`,
  `p.send(m)` / `p.recv()` / `t.terminate()` are the model's `deliverTo` / `takeFrom` / `claimFrom` / `finalize … .term`
  on the waiter table — yields the same result, the same logical state, the same waiter table and the same wake log
  as `Spec.step` (which additionally maintains ghost state: custody, logs, ledgers).

  Blocking calls and futures suspend (`wait`, `poll`): their critical sections are the same `Chan` functions
  (`sendCS`, `recvCS`, `cancel`, `sigExists`) in `Fine` and in `Spec.step`; their step-by-step correspondence is
  checked on executions by the trace acceptor `specfollow`, not proved here.
-/
import Kanal.Fine

namespace Kanal
namespace Bridge

/-- What running a tree yields. -/
inductive Out where
  | ret (r : Res)
  | suspended        -- the call waits on its signal / asks something only a blocking call or a future asks
  | diverge
  deriving Inhabited

/-- The part of the channel model's state the code acts on (everything but the ghost state). -/
structure Core where
  chan  : Chan
  sigs  : List Sig
  wakes : List WakerId
  deriving DecidableEq

def core (s : State) : Core := ⟨s.chan, s.sigs, s.wakes⟩

/-- Sequential reading of an interaction tree over the model's state.  `locked`: the guard is held, so a
    `p.recv()` is the model's `takeFrom` (read and final store under the lock: refill, drain); outside the lock it
    is `claimFrom` (the final store is the separate `finalize` step: the hand-off window).  `vec` collects what
    `drain_into` pushes. -/
def run : Act → Bool → State → List Msg → State × List Msg × Out
  | .ret r, _, s, vec => (s, vec, .ret r)
  | .diverge, _, s, vec => (s, vec, .diverge)
  | .lock k, _, s, vec => run (k s.chan) true s vec
  | .tryLock k, _, s, vec => run (k (some s.chan)) true s vec   -- nobody else holds the lock in a sequential reading
  | .unlock c k, _, s, vec => run k false { s with chan := c } vec
  | .eff (.sigSend p m) k, l, s, vec => run k l (s.deliverTo p m) vec
  | .eff (.sigTerminate p) k, l, s, vec => run k l (s.finalize p .term) vec
  | .eff .takeData k, l, s, vec => run k l s vec
  | .eff (.vecReserve _) k, l, s, vec => run k l s vec
  | .eff (.vecPush m) k, l, s, vec => run k l s (vec ++ [m])
  | .eff _ _, _, s, vec => (s, vec, .suspended)
  | .askM (.sigRecv p) k, l, s, vec => run (k (s.slotMsg p)) l (if l then s.takeFrom p else s.claimFrom p) vec
  | .askM _ _, _, s, vec => (s, vec, .suspended)
  | .askB .dataIsNone k, l, s, vec => run (k false) l s vec     -- safe callers pass `Some`
  | .askB _ _, _, s, vec => (s, vec, .suspended)
  | .askP _, _, s, vec => (s, vec, .suspended)


/-! ### `run` on each constructor -/
section runEqs
variable (l : Bool) (s : State) (vec : List Msg)
@[simp] theorem run_ret (r : Res) : run (.ret r) l s vec = (s, vec, .ret r) := by simp [run]
@[simp] theorem run_lock (k : Chan → Act) : run (.lock k) l s vec = run (k s.chan) true s vec := by simp [run]
@[simp] theorem run_tryLock (k : Option Chan → Act) : run (.tryLock k) l s vec = run (k (some s.chan)) true s vec := by simp [run]
@[simp] theorem run_unlock (c : Chan) (k : Act) : run (.unlock c k) l s vec = run k false { s with chan := c } vec := by simp [run]
@[simp] theorem run_sigSend (p m) (k : Act) : run (.eff (.sigSend p m) k) l s vec = run k l (s.deliverTo p m) vec := by simp [run]
@[simp] theorem run_sigTerminate (p) (k : Act) : run (.eff (.sigTerminate p) k) l s vec = run k l (s.finalize p .term) vec := by simp [run]
@[simp] theorem run_takeData (k : Act) : run (.eff .takeData k) l s vec = run k l s vec := by simp [run]
@[simp] theorem run_vecReserve (n) (k : Act) : run (.eff (.vecReserve n) k) l s vec = run k l s vec := by simp [run]
@[simp] theorem run_vecPush (m) (k : Act) : run (.eff (.vecPush m) k) l s vec = run k l s (vec ++ [m]) := by simp [run]
@[simp] theorem run_sigRecv (p) (k : Msg → Act) :
    run (.askM (.sigRecv p) k) l s vec = run (k (s.slotMsg p)) l (if l then s.takeFrom p else s.claimFrom p) vec := by simp [run]
@[simp] theorem run_dataIsNone (k : Bool → Act) : run (.askB .dataIsNone k) l s vec = run (k false) l s vec := by simp [run]
end runEqs

/-! ### frame and congruence lemmas -/
open State

/-- same waiter table and wake log -/
def SW (s t : State) : Prop := s.sigs = t.sigs ∧ s.wakes = t.wakes

theorem core_eq_iff (s t : State) : core s = core t ↔ s.chan = t.chan ∧ SW s t := by
  simp [core, SW]

theorem SW.rfl' (s : State) : SW s s := ⟨rfl, rfl⟩
theorem SW.symm' {s t : State} (h : SW s t) : SW t s := ⟨h.1.symm, h.2.symm⟩
theorem SW.trans' {s t u : State} (h : SW s t) (h' : SW t u) : SW s u := ⟨h.1.trans h'.1, h.2.trans h'.2⟩

theorem finalize_chan (s : State) (i o) : (s.finalize i o).chan = s.chan := by
  unfold State.finalize; split
  · rfl
  · split <;> rfl

theorem finalize_sw {s t : State} (h : SW s t) (i o) : SW (s.finalize i o) (t.finalize i o) := by
  obtain ⟨h1, h2⟩ := h
  unfold State.finalize SW; rw [h1]; split
  · exact ⟨h1, h2⟩
  · split <;> simp [State.setSig, h1, h2]

theorem deliverTo_chan (s : State) (i m) : (s.deliverTo i m).chan = s.chan := by
  unfold State.deliverTo; split <;> rfl

theorem deliverTo_sw {s t : State} (h : SW s t) (i m) : SW (s.deliverTo i m) (t.deliverTo i m) := by
  obtain ⟨h1, h2⟩ := h
  unfold State.deliverTo SW; rw [h1]; split
  · exact ⟨h1, h2⟩
  · simp [State.setSig, State.setCust, h1, h2]

theorem claimFrom_chan (s : State) (i) : (s.claimFrom i).chan = s.chan := by
  unfold State.claimFrom; split <;> rfl

theorem claimFrom_sw {s t : State} (h : SW s t) (i) : SW (s.claimFrom i) (t.claimFrom i) := by
  obtain ⟨h1, h2⟩ := h
  unfold State.claimFrom SW; rw [h1]; split
  · exact ⟨h1, h2⟩
  · simp [State.setSig, h1, h2]

theorem takeFrom_chan (s : State) (i) : (s.takeFrom i).chan = s.chan := by
  unfold State.takeFrom; split
  · rfl
  · rw [finalize_chan]; rfl

theorem takeFrom_sw {s t : State} (h : SW s t) (i) : SW (s.takeFrom i) (t.takeFrom i) := by
  obtain ⟨h1, h2⟩ := h
  unfold State.takeFrom; rw [h1]; split
  · exact ⟨h1, h2⟩
  · apply finalize_sw; simp [SW, State.setSig, h1, h2]

theorem terminateList_chan (s : State) (l : List SigId) : (s.terminateList l).chan = s.chan := by
  unfold State.terminateList
  induction l generalizing s with
  | nil => rfl
  | cons i l ih => simp only [List.foldl_cons]; rw [ih, finalize_chan]

theorem terminateList_sw {s t : State} (h : SW s t) (l : List SigId) : SW (s.terminateList l) (t.terminateList l) := by
  unfold State.terminateList
  induction l generalizing s t with
  | nil => exact h
  | cons i l ih => simp only [List.foldl_cons]; exact ih (finalize_sw h i .term)


theorem dropMsgs_chan (s : State) (l : List Msg) : (s.dropMsgs l).chan = s.chan := by
  unfold State.dropMsgs
  induction l generalizing s with
  | nil => rfl
  | cons i l ih => simp only [List.foldl_cons]; rw [ih]; rfl

theorem dropMsgs_sw (s : State) (l : List Msg) : SW (s.dropMsgs l) s := by
  unfold State.dropMsgs
  induction l generalizing s with
  | nil => exact SW.rfl' s
  | cons i l ih => simp only [List.foldl_cons]; exact (ih _).trans' ⟨rfl, rfl⟩

theorem failBack_chan (s : State) (m o) : (s.failBack m o).chan = s.chan := by
  unfold State.failBack; split <;> rfl

theorem failBack_sw (s : State) (m o) : SW (s.failBack m o) s := by
  unfold State.failBack; split <;> exact ⟨rfl, rfl⟩

theorem core_failBack (s : State) (m o) : core (s.failBack m o) = core s := by
  rw [core_eq_iff]; exact ⟨failBack_chan s m o, failBack_sw s m o⟩

theorem core_congr {s t : State} (hc : s.chan = t.chan) (h : SW s t) : core s = core t :=
  (core_eq_iff s t).2 ⟨hc, h⟩

theorem sendPre_errClosed {c c1 : Chan} {m} (h : c.sendPre m = (c1, .errClosed)) : c.sendCount = 0 := by
  unfold Chan.sendPre at h
  split at h
  · split at h <;> simp_all
  · split at h
    · simp at h
    · split at h <;> simp at h

theorem sendPre_errRecvClosed {c c1 : Chan} {m} (h : c.sendPre m = (c1, .errRecvClosed)) : c.sendCount ≠ 0 := by
  unfold Chan.sendPre at h
  split at h
  · split at h <;> simp_all
  · split at h
    · simp at h
    · split at h <;> simp at h

/-! ### the bridge theorems

  For every call that consists of one critical section: running its tree sequentially on the model's state gives
  the same result and the same `core` (logical state, waiter table, wake log) as `Spec.step`.  The hypotheses are
  exactly the enabledness conditions of the label in `Spec.step` (a live handle of the calling side, a fresh
  message tag), plus `Nodup` of the wait list for `drain_into` (see there). -/

/-- `try_send`, `try_send_option`, `try_send_realtime`, `try_send_option_realtime`.
    `hl`, `hf`: the label's enabledness in `Spec.step` (a sender handle exists; the message tag is fresh). -/
theorem trySend_bridge (v : Variant) (s : State) (x : Ctx) (opt rt : Bool)
    (hl : s.liveS ≠ 0) (hf : s.cust x.m = .fresh) :
    ∃ s' r, step v s (.trySend x.m opt rt) = some (s', r) ∧
      (run (Fine.trySend opt rt x) false s []).2.2 = .ret r ∧
      core (run (Fine.trySend opt rt x) false s []).1 = core s' := by
  simp only [step, hl, hf, sendStep, Fine.trySend, Fine.guardNone, Fine.acquire, Fine.sendErr, Fine.take]
  cases opt <;> cases rt <;> simp only [run_lock, run_tryLock, run_dataIsNone, if_true, if_false, Bool.false_eq_true] <;>
  (rcases h : s.chan.sendPre x.m with ⟨c1, b⟩
   cases b
   · have := sendPre_errClosed h
     simp [this]
     refine ⟨_, _, ⟨rfl, rfl⟩, rfl, ?_⟩
     exact (core_congr (by simp [failBack_chan]) ((failBack_sw _ _ _).trans' (by simp [SW]))).symm
   · have := sendPre_errRecvClosed h
     simp [this]
     refine ⟨_, _, ⟨rfl, rfl⟩, rfl, ?_⟩
     exact (core_congr (by simp [failBack_chan]) ((failBack_sw _ _ _).trans' (by simp [SW]))).symm
   · simp
     refine ⟨_, _, ⟨rfl, rfl⟩, rfl, ?_⟩
     exact core_congr (by simp [deliverTo_chan]) (deliverTo_sw (by simp [SW]) _ _)
   · simp
     refine ⟨_, _, ⟨rfl, rfl⟩, rfl, ?_⟩
     exact core_congr rfl ⟨rfl, rfl⟩
   · simp
     refine ⟨_, _, ⟨rfl, rfl⟩, rfl, ?_⟩
     exact (core_congr (by simp [failBack_chan]) ((failBack_sw _ _ _).trans' (by simp [SW]))).symm)


/-- `try_recv`, `try_recv_realtime`.  `hl`: the label's enabledness (a receiver handle exists). -/
theorem tryRecv_bridge (v : Variant) (s : State) (rt : Bool) (hl : s.liveR ≠ 0) :
    ∃ s' r, step v s (.tryRecv rt) = some (s', r) ∧
      (run (Fine.tryRecv rt) false s []).2.2 = .ret r ∧
      core (run (Fine.tryRecv rt) false s []).1 = core s' := by
  simp only [step, hl, recvStep, Fine.tryRecv, Fine.acquire, Fine.recvHead, Chan.recvPre]
  cases rt <;> simp only [run_lock, run_tryLock, if_true, if_false, Bool.false_eq_true] <;>
  (by_cases h0 : s.chan.recvCount = 0
   · simp [h0, recvRes]
     exact ⟨_, _, ⟨rfl, rfl⟩, rfl, rfl⟩
   · simp only [h0, beq_iff_eq, if_false]
     rcases hq : s.chan.queue with _ | ⟨v, q⟩
     · simp only []
       rcases hn : s.chan.nextSend with ⟨c1, _ | p⟩
       · by_cases hs : c1.sendCount = 0
         · simp [recvRes, hs]
           exact ⟨_, _, ⟨rfl, rfl⟩, rfl, rfl⟩
         · simp [recvRes, hs]
           exact ⟨_, _, ⟨rfl, rfl⟩, rfl, rfl⟩
       · simp [recvRes]
         refine ⟨_, _, ⟨rfl, rfl⟩, rfl, ?_⟩
         exact core_congr (by simp [claimFrom_chan, State.giveR]) (claimFrom_sw (by simp [SW, State.giveR]) _)
     · simp only []
       rcases hn : Chan.nextSend { s.chan with queue := q } with ⟨c1, _ | p⟩
       · simp [recvRes]
         refine ⟨_, _, ⟨rfl, rfl⟩, rfl, ?_⟩
         exact core_congr (by simp [State.giveR]) (by simp [SW, State.giveR])
       · simp [recvRes]
         refine ⟨_, _, ⟨rfl, rfl⟩, rfl, ?_⟩
         apply core_congr
         · simp [takeFrom_chan, State.giveR, State.setCust]
         · exact SW.trans' (t := s.takeFrom p) ⟨rfl, rfl⟩
             (takeFrom_sw (by simp [SW, State.giveR, State.setCust]) _))



theorem run_terminate (l : List SigId) (k : Act) (b : Bool) (s : State) (vec : List Msg) :
    run (Fine.terminate l k) b s vec = run k b (s.terminateList l) vec := by
  unfold Fine.terminate State.terminateList
  induction l generalizing s with
  | nil => rfl
  | cons i l ih => simp only [Act.forEach_cons, run_sigTerminate, List.foldl_cons]; exact ih _

theorem run_drainQueue (q : List Msg) (k : Act) (b : Bool) (s : State) (vec : List Msg) :
    run (Fine.drainQueue q k) b s vec = run k b s (vec ++ q) := by
  unfold Fine.drainQueue
  induction q generalizing vec with
  | nil => simp
  | cons i l ih => simp only [Act.forEach_cons, run_vecPush]; rw [ih]; simp

theorem finalize_sigs_ne (s : State) (i o) (j : Nat) (h : j ≠ i) : (s.finalize i o).sigs[j]? = s.sigs[j]? := by
  unfold State.finalize; split
  · rfl
  · split <;> simp [State.setSig, h.symm]

theorem slotMsg_takeFrom_ne (s : State) (p q : SigId) (h : q ≠ p) : (s.takeFrom p).slotMsg q = s.slotMsg q := by
  have : (s.takeFrom p).sigs[q]? = s.sigs[q]? := by
    unfold State.takeFrom; split
    · rfl
    · rw [finalize_sigs_ne _ _ _ _ h]; simp [State.setSig, h.symm]
  unfold State.slotMsg; rw [this]

theorem run_drainSenders (l : List SigId) (hn : l.Nodup) (k : Act) (s : State) (vec : List Msg) :
    run (Fine.drainSenders l k) true s vec = run k true (l.foldl State.takeFrom s) (vec ++ l.map s.slotMsg) := by
  unfold Fine.drainSenders
  induction l generalizing s vec with
  | nil => simp
  | cons p l ih =>
    simp only [Act.forEach_cons, run_sigRecv, run_vecPush, if_true, List.foldl_cons, List.map_cons]
    rw [List.nodup_cons] at hn
    rw [ih hn.2]
    have : l.map (s.takeFrom p).slotMsg = l.map s.slotMsg := by
      apply List.map_congr_left
      intro q hq
      exact slotMsg_takeFrom_ne s p q (fun e => hn.1 (e ▸ hq))
    rw [this]; simp

theorem foldl_takeFrom_chan (l : List SigId) (s : State) : (l.foldl State.takeFrom s).chan = s.chan := by
  induction l generalizing s with
  | nil => rfl
  | cons i l ih => simp only [List.foldl_cons]; rw [ih, takeFrom_chan]

theorem foldl_takeFrom_sw (l : List SigId) {s t : State} (h : SW s t) :
    SW (l.foldl State.takeFrom s) (l.foldl State.takeFrom t) := by
  induction l generalizing s t with
  | nil => exact h
  | cons i l ih => simp only [List.foldl_cons]; exact ih (takeFrom_sw h i)

theorem foldl_giveR_chan (l : List Msg) (s : State) : (l.foldl State.giveR s).chan = s.chan := by
  induction l generalizing s with
  | nil => rfl
  | cons i l ih => simp only [List.foldl_cons]; rw [ih]; rfl

theorem foldl_giveR_sw (l : List Msg) (s : State) : SW (l.foldl State.giveR s) s := by
  induction l generalizing s with
  | nil => exact SW.rfl' s
  | cons i l ih => simp only [List.foldl_cons]; exact (ih _).trans' ⟨rfl, rfl⟩

theorem terminateList_liveS (s : State) (l : List SigId) : (s.terminateList l).liveS = s.liveS := by
  unfold State.terminateList
  induction l generalizing s with
  | nil => rfl
  | cons i l ih =>
    simp only [List.foldl_cons]; rw [ih]
    unfold State.finalize; split
    · rfl
    · split <;> rfl

theorem terminateList_liveR (s : State) (l : List SigId) : (s.terminateList l).liveR = s.liveR := by
  unfold State.terminateList
  induction l generalizing s with
  | nil => rfl
  | cons i l ih =>
    simp only [List.foldl_cons]; rw [ih]
    unfold State.finalize; split
    · rfl
    · split <;> rfl


theorem drainCS_senders_nodup {c c1 : Chan} {q l n} (h : c.drainCS = some (c1, q, l, n)) (hn : c.waitList.Nodup) :
    l.Nodup := by
  unfold Chan.drainCS Chan.popAllSenders at h
  split at h
  · cases h
  · split at h <;> simp at h <;> obtain ⟨-, -, rfl, -⟩ := h <;> simp_all

/-- `drain_into`.  `Spec.step` answers `.drained n ms` where the tree returns `.num n` and pushes `ms` (the second
    component of `run … []`).  `hl`: enabledness.  `hn`: no waiter is listed twice — an invariant of reachable
    states (`Struct.nodup` in `Kanal/Lemmas/Struct.lean`) and genuinely needed: the tree reads a listed sender's slot
    *after* the earlier senders were taken, `Spec.step` reads all slots in the initial state; for a waiter listed
    twice the second read finds the slot empty. -/
theorem drain_bridge (v : Variant) (s : State) (x : Ctx) (hl : s.liveR ≠ 0) (hn : s.chan.waitList.Nodup) :
    (∃ s' n ms, step v s .drain = some (s', .drained n ms) ∧
      (run (Fine.drain x) false s []).2.2 = .ret (.num n) ∧
      (run (Fine.drain x) false s []).2.1 = ms ∧
      core (run (Fine.drain x) false s []).1 = core s') ∨
    (step v s .drain = some (s, .err .closed) ∧
      (run (Fine.drain x) false s []).2.2 = .ret (.err .closed) ∧
      (run (Fine.drain x) false s []).2.1 = [] ∧
      core (run (Fine.drain x) false s []).1 = core s) := by
  simp only [step, hl, Fine.drain, run_lock, if_false]
  rcases h : s.chan.drainCS with _ | ⟨c1, q, senders, n⟩
  · right; simp
  · left
    have hnd := drainCS_senders_nodup h hn
    have hrun : ∀ k : Act, run (if n > x.vcap - x.vlen then Act.eff (.vecReserve (x.vlen + n - (x.vcap - x.vlen))) k else k) true s [] = run k true s [] := by
      intro k; split <;> simp
    simp only [hrun, run_drainQueue, run_drainSenders _ hnd, run_unlock, run_ret]
    refine ⟨_, _, _, rfl, rfl, by simp, ?_⟩
    apply core_congr
    · simp [foldl_takeFrom_chan, foldl_giveR_chan]
    · refine SW.trans' (t := senders.foldl State.takeFrom s) ⟨rfl, rfl⟩ (foldl_takeFrom_sw _ ?_)
      exact ((foldl_giveR_sw _ _).trans' (by simp [SW])).symm'


/-- `close`.  `hl`: enabledness (some handle exists). -/
theorem close_bridge (v : Variant) (s : State) (hl : s.liveS + s.liveR ≠ 0) :
    ∃ s' r, step v s .close = some (s', r) ∧
      (run Fine.close false s []).2.2 = .ret r ∧
      core (run Fine.close false s []).1 = core s' := by
  simp only [step, hl, Fine.close, run_lock, if_false]
  rcases h : s.chan.closeCS with _ | ⟨c1, l, q⟩
  · exact ⟨_, _, rfl, rfl, rfl⟩
  · simp only [run_terminate, run_unlock, run_ret]
    refine ⟨_, _, rfl, rfl, ?_⟩
    apply core_congr
    · simp [dropMsgs_chan, terminateList_chan, State.withdrawSlots]
    · refine SW.symm' ((dropMsgs_sw _ _).trans' ?_)
      refine SW.trans' (terminateList_sw (t := s) (by simp [SW, State.withdrawSlots]) l) ⟨rfl, rfl⟩

/-- `Clone` of a handle of side `side`.  `hl`: enabledness (a handle of that side exists). -/
theorem clone_bridge (v : Variant) (s : State) (side : Side)
    (hl : (match side with | .send => s.liveS | .recv => s.liveR) ≠ 0) :
    ∃ s', step v s (.clone side) = some (s', .unit) ∧
      (run (Fine.cloneHandle side) false s []).2.2 = .ret .unit ∧
      core (run (Fine.cloneHandle side) false s []).1 = core s' := by
  cases side <;> simp only [] at hl <;> simp [step, hl, Fine.cloneHandle, core]

/-- `Drop` of a handle.  `h`: the label is enabled (`Spec.step` refuses to drop the last handle of a side while a
    blocked call or a future borrows one).  `hnl`: this is not the last handle of all — then `Spec.step` additionally
    frees the buffer, which is `Arc`'s doing, not this function's. -/
theorem dropHandle_bridge (v : Variant) (s s' : State) (side : Side) (r : Res)
    (h : step v s (.dropHandle side) = some (s', r)) (hnl : 1 < s.liveS + s.liveR) :
    (run (Fine.dropHandle side) false s []).2.2 = .ret r ∧
      core (run (Fine.dropHandle side) false s []).1 = core s' := by
  simp only [Fine.dropHandle, run_lock, run_terminate, run_unlock, run_ret]
  cases side
  · simp only [step] at h
    by_cases hc : s.liveS = 0 ∨ (s.liveS = 1 ∧ s.aliveSigs .send ≠ 0)
    · rw [if_pos hc] at h; cases h
    · rw [if_neg hc] at h
      simp only [terminateList_liveS, terminateList_liveR, State.withdrawSlots] at h
      rw [if_neg (by omega)] at h
      simp only [Option.some.injEq, Prod.mk.injEq] at h
      obtain ⟨rfl, rfl⟩ := h
      refine ⟨rfl, ?_⟩
      apply core_congr
      · simp [terminateList_chan]
      · exact SW.trans' (t := s.terminateList (s.chan.dropCS _).2) ⟨rfl, rfl⟩ (terminateList_sw (by simp [SW]) _)
  · simp only [step] at h
    by_cases hc : s.liveR = 0 ∨ (s.liveR = 1 ∧ s.aliveSigs .recv ≠ 0)
    · rw [if_pos hc] at h; cases h
    · rw [if_neg hc] at h
      simp only [terminateList_liveS, terminateList_liveR, State.withdrawSlots] at h
      rw [if_neg (by omega)] at h
      simp only [Option.some.injEq, Prod.mk.injEq] at h
      obtain ⟨rfl, rfl⟩ := h
      refine ⟨rfl, ?_⟩
      apply core_congr
      · simp [terminateList_chan]
      · exact SW.trans' (t := s.terminateList (s.chan.dropCS _).2) ⟨rfl, rfl⟩ (terminateList_sw (by simp [SW]) _)


theorem run_observe (f : Chan → Res) (s : State) : run (Fine.observe f) false s [] = (s, [], .ret (f s.chan)) := by
  simp [Fine.observe]

/-- What `observe_bridge` says about one observer: the label is enabled, leaves the state alone and answers `f s.chan`,
    and so does the tree `Fine.observe f`. -/
def Observes (v : Variant) (s : State) (lbl : Label) (f : Chan → Res) : Prop :=
  step v s lbl = some (s, f s.chan) ∧ run (Fine.observe f) false s [] = (s, [], .ret (f s.chan))

theorem observe_len (v : Variant) (s : State) (hl : s.liveS + s.liveR ≠ 0) :
    Observes v s (.len) (fun c => .num c.len) :=
  ⟨by simp only [step]; rw [if_neg hl], run_observe _ s⟩

theorem observe_isEmpty (v : Variant) (s : State) (hl : s.liveS + s.liveR ≠ 0) :
    Observes v s (.isEmpty) (fun c => .bool c.isEmpty) :=
  ⟨by simp only [step]; rw [if_neg hl], run_observe _ s⟩

theorem observe_isFull (v : Variant) (s : State) (hl : s.liveS + s.liveR ≠ 0) :
    Observes v s (.isFull) (fun c => .bool c.isFull) :=
  ⟨by simp only [step]; rw [if_neg hl], run_observe _ s⟩

theorem observe_capacity (v : Variant) (s : State) (hl : s.liveS + s.liveR ≠ 0) :
    Observes v s (.capacity) (fun c => .cap c.capacity) :=
  ⟨by simp only [step]; rw [if_neg hl], run_observe _ s⟩

theorem observe_isBounded (v : Variant) (s : State) (hl : s.liveS + s.liveR ≠ 0) :
    Observes v s (.isBounded) (fun c => .bool c.isBounded) :=
  ⟨by simp only [step]; rw [if_neg hl], run_observe _ s⟩

theorem observe_senderCount (v : Variant) (s : State) (hl : s.liveS + s.liveR ≠ 0) :
    Observes v s (.senderCount) (fun c => .num c.sendCount) :=
  ⟨by simp only [step]; rw [if_neg hl], run_observe _ s⟩

theorem observe_receiverCount (v : Variant) (s : State) (hl : s.liveS + s.liveR ≠ 0) :
    Observes v s (.receiverCount) (fun c => .num c.recvCount) :=
  ⟨by simp only [step]; rw [if_neg hl], run_observe _ s⟩

theorem observe_isClosed (v : Variant) (s : State) (hl : s.liveS + s.liveR ≠ 0) :
    Observes v s (.isClosed) (fun c => .bool c.closed) :=
  ⟨by simp only [step]; rw [if_neg hl], run_observe _ s⟩

theorem observe_isDisconnectedS (v : Variant) (s : State) (hl : s.liveS ≠ 0) :
    Observes v s (.isDisconnected .send) (fun c => .bool c.isDisconnectedS) :=
  ⟨by simp only [step]; rw [if_neg hl], run_observe _ s⟩

theorem observe_isDisconnectedR (v : Variant) (s : State) (hl : s.liveR ≠ 0) :
    Observes v s (.isDisconnected .recv) (fun c => .bool c.isDisconnectedR) :=
  ⟨by simp only [step]; rw [if_neg hl], run_observe _ s⟩

theorem observe_isTerminated (v : Variant) (s : State) (hl : s.liveR ≠ 0) :
    Observes v s (.isTerminated) (fun c => .bool c.isTerminated) :=
  ⟨by simp only [step]; rw [if_neg hl], run_observe _ s⟩

/-- All eleven observers, each under the liveness hypothesis its `step` case needs. -/
theorem observe_bridge (v : Variant) (s : State) :
    (s.liveS + s.liveR ≠ 0 →
      Observes v s .len (fun c => .num c.len) ∧
      Observes v s .isEmpty (fun c => .bool c.isEmpty) ∧
      Observes v s .isFull (fun c => .bool c.isFull) ∧
      Observes v s .capacity (fun c => .cap c.capacity) ∧
      Observes v s .isBounded (fun c => .bool c.isBounded) ∧
      Observes v s .senderCount (fun c => .num c.sendCount) ∧
      Observes v s .receiverCount (fun c => .num c.recvCount) ∧
      Observes v s .isClosed (fun c => .bool c.closed)) ∧
    (s.liveS ≠ 0 → Observes v s (.isDisconnected .send) (fun c => .bool c.isDisconnectedS)) ∧
    (s.liveR ≠ 0 →
      Observes v s (.isDisconnected .recv) (fun c => .bool c.isDisconnectedR) ∧
      Observes v s .isTerminated (fun c => .bool c.isTerminated)) :=
  ⟨fun h => ⟨observe_len v s h, observe_isEmpty v s h, observe_isFull v s h, observe_capacity v s h,
      observe_isBounded v s h, observe_senderCount v s h, observe_receiverCount v s h, observe_isClosed v s h⟩,
   fun h => observe_isDisconnectedS v s h,
   fun h => ⟨observe_isDisconnectedR v s h, observe_isTerminated v s h⟩⟩


/-! ### non-vacuity: the hypotheses hold on concrete reachable states, and the trees compute what one expects -/

/-- a fresh bounded channel of capacity 1 -/
def ex0 : State := State.init (some 1)
/-- the same after `try_send(7)` succeeded: one buffered message -/
def ex1 : State := ((step .good ex0 (.trySend 7 false false)).getD (ex0, .unit)).1
/-- a rendezvous channel with two blocked senders offering 5 and 6 -/
def ex2 : State :=
  let a := ((step .good (State.init (some 0)) (.send 5 .sync false)).getD (ex0, .unit)).1
  ((step .good a (.send 6 .sync false)).getD (ex0, .unit)).1

example : ex2.chan.waitList = [0, 1] := by decide
example : ex1.chan.queue = [7] := by decide

example := trySend_bridge .good ex0 { m := 7 } false false (by decide) (by decide)
example : (run (Fine.trySend false false { m := 7 }) false ex0 []).1.chan.queue = [7] := by decide
example := tryRecv_bridge .good ex1 false (by decide)
example := drain_bridge .good ex2 {} (by decide) (by decide)
example : (run (Fine.drain {}) false ex2 []).2.1 = [5, 6] := by decide
example : (run (Fine.drain {}) false ex2 []).1.sigs.map (·.st) = [.ok, .ok] := by decide
example := close_bridge .good ex2 (by decide)
example : (run Fine.close false ex2 []).1.sigs.map (·.st) = [.term, .term] := by decide
example := clone_bridge .good ex0 .send (by decide)
example := clone_bridge .good ex0 .recv (by decide)
example := dropHandle_bridge .good ex2 _ .recv _ rfl (by decide)
example : ∃ s', step .good ex2 (.dropHandle .recv) = some (s', .unit) ∧ s'.sigs.map (·.st) = [.term, .term] :=
  ⟨_, rfl, by decide⟩
example : (run (Fine.dropHandle .recv) false ex2 []).1.sigs.map (·.st) = [.term, .term] := by decide
example := observe_bridge .good ex0


end Bridge
end Kanal

#print axioms Kanal.Bridge.trySend_bridge
#print axioms Kanal.Bridge.tryRecv_bridge
#print axioms Kanal.Bridge.drain_bridge
#print axioms Kanal.Bridge.close_bridge
#print axioms Kanal.Bridge.clone_bridge
#print axioms Kanal.Bridge.dropHandle_bridge
#print axioms Kanal.Bridge.observe_bridge
#print axioms Kanal.Bridge.observe_len
#print axioms Kanal.Bridge.observe_isEmpty
#print axioms Kanal.Bridge.observe_isFull
#print axioms Kanal.Bridge.observe_capacity
#print axioms Kanal.Bridge.observe_isBounded
#print axioms Kanal.Bridge.observe_senderCount
#print axioms Kanal.Bridge.observe_receiverCount
#print axioms Kanal.Bridge.observe_isClosed
#print axioms Kanal.Bridge.observe_isDisconnectedS
#print axioms Kanal.Bridge.observe_isDisconnectedR
#print axioms Kanal.Bridge.observe_isTerminated
