/-
  Kanal.ProtoConf — what it means for a protocol tree (translated from signal.rs / mutex.rs / backoff.rs) to
  CONFORM to the protocol models `SigM` (one waiter, one peer, the signal word) and `MutexM` (threads, the lock word).

  `WConf o Q t kind pc`: run by the owner of a signal whose model pc is `pc`, the tree `t` performs only operations the
  model's waiter has at that pc, with the orderings `o`, and continues conformantly for every value the word may hold;
  when it returns `r` the model is at a `(kind', pc')` with `Q r kind' pc'`.  `PConf` likewise for the peer, `MConf` for a
  thread using the lock.  `Kanal/ProtoSim.lean` proves these relations adequate: a machine that runs the trees against a
  real word (loads return what is there, CAS compares, park consumes the token …) is simulated step by step by the models.
-/
import Kanal.PAct
import Kanal.SigM
import Kanal.MutexM

namespace Kanal
namespace ProtoConf
open SigM (St WKind WPc PPc Ords)

/-- the state word as the code sees it -/
def St.toNat : St → Nat
  | .unlocked => 0 | .terminated => 1 | .locked => 2 | .starvation => 3

def isStutter : PEff → Bool
  | .yieldStd | .yieldSpin | .spinHint | .sleep => true
  | _ => false

/-- Waiter-side conformance. -/
inductive WConf (o : Ords) (Q : Option Bool → WKind → WPc → Prop) : PAct → WKind → WPc → Prop where
  | done {r kind pc} : Q r kind pc → WConf o Q (.done r) kind pc
  | diverge {kind pc} : WConf o Q .diverge kind pc
  /-- yields, spin hints and sleeps happen only in the spin phase -/
  | stutter {e k kind} : isStutter e = true → WConf o Q k kind .spin → WConf o Q (.eff e k) kind .spin
  /-- the clock and the reported parallelism are the environment's: both answers must conform -/
  | ask {q k kind} : (∀ b, WConf o Q (k b) kind .spin) → WConf o Q (.askB q k) kind .spin
  /-- the spin budget is exhausted (`SigM.Ev.wGiveUpSpin`) -/
  | giveUpSync {t} : WConf o Q t .sync .publish → WConf o Q t .sync .spin
  | giveUpTimed {t} : WConf o Q t .timed .timedFinal → WConf o Q t .timed .spin
  /-- `wLoad` -/
  | load {k kind} : (∀ s : St, WConf o Q (k (St.toNat s)) kind (if s.isFinal then .fence s else .spin)) →
      WConf o Q (.load o.spinLoad k) kind .spin
  /-- `wFence` -/
  | fence {k kind v} : (∀ b, WConf o Q k kind (.done v b)) → WConf o Q (.fence o.spinFence k) kind (.fence v)
  /-- `wTimedFinal` -/
  | timedFinal {k} : (∀ s : St, ∀ b, WConf o Q (k (St.toNat s)) .timed (if s = .unlocked then .done .unlocked b else .timedIsTerm)) →
      WConf o Q (.load o.timeoutFinal k) .timed .timedFinal
  /-- `wTimedIsTerm`: `is_terminated()`; a waiter that is not terminated goes on as a sync waiter -/
  | timedIsTerm {k} : (∀ s : St, WConf o Q (k (St.toNat s)) (if s = .terminated then .timed else .sync)
                                    (if s = .terminated then .done .terminated false else .spin)) →
      WConf o Q (.load .relaxed k) .timed .timedIsTerm
  /-- `wPublish` -/
  | publish {k} : WConf o Q k .sync .casStarv → WConf o Q (.eff .writeHandle k) .sync .publish
  /-- `wCasStarv` -/
  | casStarv {k} : WConf o Q (k none) .sync .park →
      (∀ s : St, s ≠ .locked → ∀ b, WConf o Q (k (some (St.toNat s))) .sync (.done s b)) →
      WConf o Q (.cas 2 3 o.starvCasSucc o.starvCasFail k) .sync .casStarv
  /-- `wPark` … `wUnparked` -/
  | park {k} : WConf o Q k .sync .parkLoad → WConf o Q (.eff .park k) .sync .park
  /-- `wParkLoad` -/
  | parkLoad {k} : (∀ s : St, ∀ b, WConf o Q (k (St.toNat s)) .sync (if s.isFinal then .done s b else .park)) →
      WConf o Q (.load o.parkLoad k) .sync .parkLoad
  /-- a re-read of the stable final word (`is_terminated()` after `wait_timeout()` saw TERMINATED): once the waiter has
      observed the final value `v` the word holds `v` for good, so a further relaxed load returns `v`; the model takes no step -/
  | reload {k kind v b} : WConf o Q (k (St.toNat v)) kind (.done v b) → WConf o Q (.load .relaxed k) kind (.done v b)

/-- Peer-side conformance (`fin`: the final state being written, as a number). -/
inductive PConf (o : Ords) (fin : St) : PAct → WKind → PPc → Prop where
  | done {kind} : PConf o fin (.done none) kind .done
  | accessW {k kind} : PConf o fin k kind (if kind = .async then .cloneWaker else .cas) → PConf o fin (.eff .ptrWrite k) kind .access
  | accessR {k kind} : PConf o fin k kind (if kind = .async then .cloneWaker else .cas) → PConf o fin (.eff .ptrRead k) kind .access
  | accessC {k kind} : PConf o fin k kind (if kind = .async then .cloneWaker else .cas) → PConf o fin (.eff .ptrCopy k) kind .access
  | cas {k kind} : kind ≠ .async → PConf o fin (k none) kind .done → (∀ s : St, s ≠ .locked → PConf o fin (k (some (St.toNat s))) kind .readHandle) →
      PConf o fin (.cas 2 (St.toNat fin) o.wakeCasSucc o.wakeCasFail k) kind .cas
  | readHandle {k kind} : PConf o fin k kind .storeSync → PConf o fin (.eff .readHandle k) kind .readHandle
  | storeSync {k kind} : PConf o fin k kind .unpark → PConf o fin (.store (St.toNat fin) o.wakeStoreSync k) kind .storeSync
  | unpark {k kind} : PConf o fin k kind .done → PConf o fin (.eff .unpark k) kind .unpark
  | cloneWaker {k} : PConf o fin k .async .storeAsync → PConf o fin (.eff .cloneWaker k) .async .cloneWaker
  | storeAsync {k} : PConf o fin k .async .wake → PConf o fin (.store (St.toNat fin) o.wakeStoreAsync k) .async .storeAsync
  | wake {k} : PConf o fin k .async .done → PConf o fin (.eff .wake k) .async .wake

open MutexM (Pc SpinPc Consts) in
/-- Conformance of a thread using the lock (`MutexM`), `par1`: the reported parallelism is 1. -/
inductive MConf (o : MutexM.Ords) (c : Consts) (par1 : Bool) (Q : Option Bool → Pc → Prop) : PAct → Pc → Prop where
  | done {r pc} : Q r pc → MConf o c par1 Q (.done r) pc
  | diverge {pc} : MConf o c par1 Q .diverge pc
  | casTry {k} : MConf o c par1 Q (k none) .inCS → (∀ v, MConf o c par1 Q (k (some v)) .gaveUp) →
      MConf o c par1 Q (.cas 0 1 o.lockSucc o.lockFail k) .tryOnce
  | casFast {k} : MConf o c par1 Q (k none) .inCS → (∀ v, MConf o c par1 Q (k (some v)) (.spin (SpinPc.entry c par1))) →
      MConf o c par1 Q (.cas 0 1 o.lockSucc o.lockFail k) .lockFast
  | casSpin {k p} : p.isCond = true → MConf o c par1 Q (k none) .inCS → (∀ v, MConf o c par1 Q (k (some v)) (.spin (p.afterFail c))) →
      MConf o c par1 Q (.cas 0 1 o.lockSucc o.lockFail k) (.spin p)
  | aux {e k p} : p.isCond = false → isStutter e = true → MConf o c par1 Q k (.spin (p.afterAux c)) →
      MConf o c par1 Q (.eff e k) (.spin p)
  /-- `get_parallelism() == 1` is asked once, on entry of `spin_cond` -/
  | askPar {k pc} : MConf o c par1 Q (k par1) pc → MConf o c par1 Q (.askB .parEq1 k) pc
  | unlock {k} : MConf o c par1 Q k .idle → MConf o c par1 Q (.store 0 o.unlock k) .inCS

end ProtoConf
end Kanal
