/-
  Kanal.TieCode — the translation of the Rust source (`Kanal.Gen`, regenerated on every run by
  extract/rs2lean.py) is equal, function by function, to the hand-written fine-grained model
  (`Kanal.Fine`), whose critical sections are the functions of `Kanal.Chan` that `Spec.step` uses.
-/
import Kanal.GenCode
import Kanal.Fine

namespace Kanal
namespace TieCode
open Chan

/-! ### the translator handled everything it met -/

theorem translation_complete : Gen.problems = [] := by decide

theorem translated_functions : Gen.names =
  ["ChannelInternal_terminate_signals", "ChannelInternal_next_send", "ChannelInternal_push_send",
   "ChannelInternal_next_recv", "ChannelInternal_push_recv", "ChannelInternal_cancel_send_signal",
   "ChannelInternal_cancel_recv_signal", "ChannelInternal_send_signal_exists", "ChannelInternal_recv_signal_exists",
   "Drop_Sender_drop", "Drop_AsyncSender_drop", "Clone_Sender_clone", "Clone_AsyncSender_clone",
   "shared_impl_is_bounded", "shared_impl_len", "shared_impl_is_empty", "shared_impl_is_full", "shared_impl_capacity",
   "shared_impl_receiver_count", "shared_impl_sender_count", "shared_impl_close", "shared_impl_is_closed",
   "shared_send_impl_try_send", "shared_send_impl_try_send_option", "shared_send_impl_try_send_realtime",
   "shared_send_impl_try_send_option_realtime", "shared_send_impl_is_disconnected", "shared_recv_impl_try_recv",
   "shared_recv_impl_try_recv_realtime", "shared_recv_impl_drain_into", "shared_recv_impl_is_disconnected",
   "shared_recv_impl_is_terminated", "Sender_send", "Sender_send_timeout", "Sender_send_option_timeout",
   "Sender_clone_async", "AsyncSender_clone_sync", "Receiver_recv", "Receiver_recv_timeout", "Receiver_clone_async",
   "AsyncReceiver_clone_sync", "Drop_Receiver_drop", "Drop_AsyncReceiver_drop", "Clone_Receiver_clone",
   "Clone_AsyncReceiver_clone", "Drop_SendFuture_drop", "Future_SendFuture_poll", "Drop_ReceiveFuture_drop",
   "Future_ReceiveFuture_poll", "Stream_ReceiveStream_poll_next"] := by decide

/-- `ChannelInternal::new` builds the model's initial state: empty buffer and list, both counts 1, capacity as given or unbounded -/
theorem new_eq (bounded : Bool) (capacity : Nat) :
    Gen.ChannelInternal_new bounded capacity = Chan.new (if bounded then some capacity else none) := by
  unfold Gen.ChannelInternal_new Chan.new; cases bounded <;> rfl

/-- the four constructors call it with `(true, size)` resp. `(false, _)` -/
theorem constructor_calls : Gen.constructorCalls =
    [("bounded", "true", "size"), ("bounded_async", "true", "size"),
     ("unbounded", "false", "UNBOUNDED_STARTING_SIZE"), ("unbounded_async", "false", "UNBOUNDED_STARTING_SIZE")] := by decide

/-- The wrappers that take no lock are what they were when the models were written: conversions are `transmute`s of the `repr(C)` one-field
    handles, `AsyncSender::send` / `AsyncReceiver::recv` / `stream` only construct the future / stream (`state = Zero`, a fresh `LOCKED` signal,
    `is_stream` set by `new_borrowed`, `terminated = false`), `Iterator::next` is `recv().ok()`, `FusedStream::is_terminated` is the receiver's,
    the four constructors hand the one shared state to one sender and one receiver, `read_local_data` / `drop_local_data` choose by the size test. -/
theorem glue_ok : Gen.glue = [
  ("Sender::to_async", "{ unsafe { transmute ( self ) } }"),
  ("Sender::as_async", "{ unsafe { transmute ( self ) } }"),
  ("AsyncSender::send", "{ SendFuture :: new ( & self . internal , data ) }"),
  ("AsyncSender::to_sync", "{ unsafe { transmute ( self ) } }"),
  ("AsyncSender::as_sync", "{ unsafe { transmute ( self ) } }"),
  ("Receiver::to_async", "{ unsafe { transmute ( self ) } }"),
  ("Receiver::as_async", "{ unsafe { transmute ( self ) } }"),
  ("Iterator_Receiver::next", "{ self . recv ( ) . ok ( ) }"),
  ("AsyncReceiver::recv", "{ ReceiveFuture :: new_ref ( & self . internal ) }"),
  ("AsyncReceiver::stream", "{ ReceiveStream :: new_borrowed ( self ) }"),
  ("AsyncReceiver::to_sync", "{ unsafe { transmute ( self ) } }"),
  ("AsyncReceiver::as_sync", "{ unsafe { transmute ( self ) } }"),
  ("top::bounded", "{ let internal = ChannelInternal :: new ( true , size ) ; ( Sender { internal : internal . clone ( ) , } , Receiver { internal } , ) }"),
  ("top::bounded_async", "{ let internal = ChannelInternal :: new ( true , size ) ; ( AsyncSender { internal : internal . clone ( ) , } , AsyncReceiver { internal } , ) }"),
  ("top::unbounded", "{ let internal = ChannelInternal :: new ( false , UNBOUNDED_STARTING_SIZE ) ; ( Sender { internal : internal . clone ( ) , } , Receiver { internal } , ) }"),
  ("top::unbounded_async", "{ let internal = ChannelInternal :: new ( false , UNBOUNDED_STARTING_SIZE ) ; ( AsyncSender { internal : internal . clone ( ) , } , AsyncReceiver { internal } , ) }"),
  ("FutureState::is_waiting", "{ * self == FutureState :: Waiting }"),
  ("FutureState::is_done", "{ * self == FutureState :: Done }"),
  ("SendFuture::new", "{ if size_of :: < T > ( ) > size_of :: < * mut T > ( ) { SendFuture { state : FutureState :: Zero , internal , sig : Signal :: new_async ( ) , data : MaybeUninit :: new ( data ) , _pinned : PhantomPinned , } } else { SendFuture { state : FutureState :: Zero , internal , sig : Signal :: new_async_ptr ( KanalPtr :: new_owned ( data ) ) , data : MaybeUninit :: uninit ( ) , _pinned : PhantomPinned , } } }"),
  ("SendFuture::read_local_data", "{ if size_of :: < T > ( ) > size_of :: < * mut T > ( ) { core :: ptr :: read ( self . data . as_ptr ( ) ) } else { self . sig . assume_init ( ) } }"),
  ("SendFuture::drop_local_data", "{ if size_of :: < T > ( ) > size_of :: < * mut T > ( ) { self . data . assume_init_drop ( ) ; } else { self . sig . load_and_drop ( ) ; } }"),
  ("ReceiveFuture::read_local_data", "{ if size_of :: < T > ( ) > size_of :: < * mut T > ( ) { core :: ptr :: read ( self . data . as_ptr ( ) ) } else { self . sig . assume_init ( ) } }"),
  ("ReceiveFuture::drop_local_data", "{ if size_of :: < T > ( ) > size_of :: < * mut T > ( ) { self . data . assume_init_drop ( ) ; } else { self . sig . load_and_drop ( ) ; } }"),
  ("ReceiveFuture::new_ref", "{ Self { state : FutureState :: Zero , sig : Signal :: new_async ( ) , internal , data : MaybeUninit :: uninit ( ) , is_stream : false , _pinned : PhantomPinned , } }"),
  ("FusedStream_ReceiveStream::is_terminated", "{ self . receiver . is_terminated ( ) }"),
  ("ReceiveStream::new_borrowed", "{ let mut future = receiver . recv ( ) ; future . is_stream = true ; ReceiveStream { future : Box :: pin ( future ) , terminated : false , receiver , } }")
] := rfl

/-! ### the methods of `ChannelInternal` are the functions of `Kanal.Chan` -/

theorem next_send_eq (c : Chan) (k : Chan → Option SigId → Act) :
    Gen.ChannelInternal_next_send c k = k c.nextSend.1 c.nextSend.2 := by
  unfold Gen.ChannelInternal_next_send Chan.nextSend
  cases hb : c.recvBlocking <;> cases hw : c.waitList <;> simp

theorem next_recv_eq (c : Chan) (k : Chan → Option SigId → Act) :
    Gen.ChannelInternal_next_recv c k = k c.nextRecv.1 c.nextRecv.2 := by
  unfold Gen.ChannelInternal_next_recv Chan.nextRecv
  cases hb : c.recvBlocking <;> cases hw : c.waitList <;> simp

theorem push_send_eq (c : Chan) (s : SigId) (k : Chan → Unit → Act) :
    Gen.ChannelInternal_push_send c s k = k (c.pushWaiter s) () := rfl

theorem push_recv_eq (c : Chan) (s : SigId) (k : Chan → Unit → Act) :
    Gen.ChannelInternal_push_recv c s k = k (c.pushWaiter s) () := rfl

theorem terminate_signals_eq (c : Chan) (k : Chan → Unit → Act) :
    Gen.ChannelInternal_terminate_signals c k = Fine.terminate c.waitList (k { c with waitList := [] } ()) := rfl

@[simp] theorem send_ne_recv : (Role.send == Role.recv) = false := by decide
@[simp] theorem recv_eq_recv : (Role.recv == Role.recv) = true := by decide

/-- the search loop of `cancel_*_signal`: remove the first entry equal to `s` -/
theorem cancel_loop (W : List SigId) (s : SigId) (F : List SigId → Act) (G : Act) :
    ∀ (l pre : List SigId), W = pre ++ l → s ∉ pre →
      Act.forEach (l.zipIdx pre.length) (fun p next => if (p.1 == s) = true then F (W.eraseIdx p.2) else next) G
        = if l.contains s then F (pre ++ l.erase s) else G := by
  intro l
  induction l with
  | nil => intro pre _ _; simp
  | cons a l ih =>
    intro pre hW hs
    rw [List.zipIdx_cons, Act.forEach_cons]
    by_cases h : a = s
    · subst h
      have : (pre ++ a :: l).eraseIdx pre.length = pre ++ l := by
        rw [List.eraseIdx_append_of_length_le (Nat.le_refl _)]; simp
      simp [hW, this]
    · have h' : (a == s) = false := by simpa using h
      have ih' := ih (pre ++ [a]) (by simp [hW]) (by simp [hs]; exact fun e => h e.symm)
      simp only [List.length_append, List.length_cons, List.length_nil] at ih'
      simp only [h', Bool.false_eq_true, if_false]
      rw [ih']
      have hsa : ¬ s = a := fun e => h e.symm
      simp [h', hsa]

theorem cancel_send_eq (c : Chan) (s : SigId) (k : Chan → Bool → Act) :
    Gen.ChannelInternal_cancel_send_signal c s k = k (c.cancel .send s).1 (c.cancel .send s).2 := by
  have := cancel_loop c.waitList s (fun w => k { c with waitList := w } true) (k c false) c.waitList [] rfl (by simp)
  simp only [List.length_nil, List.nil_append] at this
  unfold Gen.ChannelInternal_cancel_send_signal Chan.cancel
  simp only [this]
  cases hb : c.recvBlocking <;> cases hc : c.waitList.contains s <;> simp [hc]

theorem cancel_recv_eq (c : Chan) (s : SigId) (k : Chan → Bool → Act) :
    Gen.ChannelInternal_cancel_recv_signal c s k = k (c.cancel .recv s).1 (c.cancel .recv s).2 := by
  have := cancel_loop c.waitList s (fun w => k { c with waitList := w } true) (k c false) c.waitList [] rfl (by simp)
  simp only [List.length_nil, List.nil_append] at this
  unfold Gen.ChannelInternal_cancel_recv_signal Chan.cancel
  simp only [this]
  cases hb : c.recvBlocking <;> cases hc : c.waitList.contains s <;> simp [hc]

/-- the search loop of `*_signal_exists` -/
theorem exists_loop (s : SigId) (T G : Act) (l : List SigId) :
    Act.forEach l (fun v next => if (v == s) = true then T else next) G = if l.contains s then T else G := by
  induction l with
  | nil => simp
  | cons a l ih =>
    rw [Act.forEach_cons, ih]
    by_cases h : a = s
    · subst h; simp
    · have h' : (a == s) = false := by simpa using h
      have hsa : ¬ s = a := fun e => h e.symm
      simp [h', hsa]

theorem send_exists_eq (c : Chan) (s : SigId) (k : Chan → Bool → Act) :
    Gen.ChannelInternal_send_signal_exists c s k = k c (c.sigExists .send s) := by
  unfold Gen.ChannelInternal_send_signal_exists Chan.sigExists
  simp only [exists_loop]
  cases hb : c.recvBlocking <;> cases hc : c.waitList.contains s <;> simp [hc]

theorem recv_exists_eq (c : Chan) (s : SigId) (k : Chan → Bool → Act) :
    Gen.ChannelInternal_recv_signal_exists c s k = k c (c.sigExists .recv s) := by
  unfold Gen.ChannelInternal_recv_signal_exists Chan.sigExists
  simp only [exists_loop]
  cases hb : c.recvBlocking <;> cases hc : c.waitList.contains s <;> simp [hc]

/-! ### handles -/

set_option hygiene false in
macro "drop_tac" g:ident : tactic => `(tactic| (
  unfold $g Fine.dropHandle
  congr 1; funext c
  simp only [terminate_signals_eq]
  unfold Chan.dropCS Chan.terminateAll Fine.terminate
  by_cases h1 : c.sendCount > 0 <;> by_cases h2 : c.recvCount > 0 <;> simp [h1, h2] <;> split <;> simp_all))

theorem drop_sender (x : Ctx) : Gen.Drop_Sender_drop x = Fine.dropHandle .send := by drop_tac Gen.Drop_Sender_drop
theorem drop_async_sender (x : Ctx) : Gen.Drop_AsyncSender_drop x = Fine.dropHandle .send := by drop_tac Gen.Drop_AsyncSender_drop
theorem drop_receiver (x : Ctx) : Gen.Drop_Receiver_drop x = Fine.dropHandle .recv := by drop_tac Gen.Drop_Receiver_drop
theorem drop_async_receiver (x : Ctx) : Gen.Drop_AsyncReceiver_drop x = Fine.dropHandle .recv := by drop_tac Gen.Drop_AsyncReceiver_drop

set_option hygiene false in
macro "clone_tac" g:ident : tactic => `(tactic| (
  unfold $g Fine.cloneHandle
  congr 1; funext c
  unfold Chan.cloneCS
  by_cases h1 : c.sendCount > 0 <;> by_cases h2 : c.recvCount > 0 <;> simp [h1, h2]))

theorem clone_sender (x : Ctx) : Gen.Clone_Sender_clone x = Fine.cloneHandle .send := by clone_tac Gen.Clone_Sender_clone
theorem clone_async_sender (x : Ctx) : Gen.Clone_AsyncSender_clone x = Fine.cloneHandle .send := by clone_tac Gen.Clone_AsyncSender_clone
theorem sender_clone_async (x : Ctx) : Gen.Sender_clone_async x = Fine.cloneHandle .send := by clone_tac Gen.Sender_clone_async
theorem async_sender_clone_sync (x : Ctx) : Gen.AsyncSender_clone_sync x = Fine.cloneHandle .send := by clone_tac Gen.AsyncSender_clone_sync
theorem clone_receiver (x : Ctx) : Gen.Clone_Receiver_clone x = Fine.cloneHandle .recv := by clone_tac Gen.Clone_Receiver_clone
theorem clone_async_receiver (x : Ctx) : Gen.Clone_AsyncReceiver_clone x = Fine.cloneHandle .recv := by clone_tac Gen.Clone_AsyncReceiver_clone
theorem receiver_clone_async (x : Ctx) : Gen.Receiver_clone_async x = Fine.cloneHandle .recv := by clone_tac Gen.Receiver_clone_async
theorem async_receiver_clone_sync (x : Ctx) : Gen.AsyncReceiver_clone_sync x = Fine.cloneHandle .recv := by clone_tac Gen.AsyncReceiver_clone_sync

/-! ### observers and close -/

theorem is_bounded (x : Ctx) : Gen.shared_impl_is_bounded x = Fine.observe (fun c => .bool c.isBounded) := rfl
theorem len (x : Ctx) : Gen.shared_impl_len x = Fine.observe (fun c => .num c.len) := rfl
theorem is_empty (x : Ctx) : Gen.shared_impl_is_empty x = Fine.observe (fun c => .bool c.isEmpty) := rfl
theorem is_full (x : Ctx) : Gen.shared_impl_is_full x = Fine.observe (fun c => .bool c.isFull) := by
  unfold Gen.shared_impl_is_full Fine.observe; simp only [Chan.isFull_eq]
theorem capacity (x : Ctx) : Gen.shared_impl_capacity x = Fine.observe (fun c => .cap c.capacity) := rfl
theorem receiver_count (x : Ctx) : Gen.shared_impl_receiver_count x = Fine.observe (fun c => .num c.recvCount) := rfl
theorem sender_count (x : Ctx) : Gen.shared_impl_sender_count x = Fine.observe (fun c => .num c.sendCount) := rfl
theorem is_closed (x : Ctx) : Gen.shared_impl_is_closed x = Fine.observe (fun c => .bool c.closed) := by
  unfold Gen.shared_impl_is_closed Fine.observe Chan.closed; simp only [Bool.and_comm]
theorem is_disconnected_send (x : Ctx) :
    Gen.shared_send_impl_is_disconnected x = Fine.observe (fun c => .bool c.isDisconnectedS) := rfl
theorem is_disconnected_recv (x : Ctx) :
    Gen.shared_recv_impl_is_disconnected x = Fine.observe (fun c => .bool c.isDisconnectedR) := rfl
theorem is_terminated (x : Ctx) :
    Gen.shared_recv_impl_is_terminated x = Fine.observe (fun c => .bool c.isTerminated) := rfl

theorem close (x : Ctx) : Gen.shared_impl_close x = Fine.close := by
  unfold Gen.shared_impl_close Fine.close
  congr 1; funext c
  simp only [terminate_signals_eq]
  unfold Chan.closeCS Fine.terminate
  split <;> simp_all

/-! ### the send family -/

-- the critical section shared by all sends, after the translation's own case analysis
set_option hygiene false in
macro "send_cs" : tactic => `(tactic| (
  unfold Chan.sendPre
  simp only [Chan.hasRoom_eq]
  by_cases h1 : c.recvCount = 0 <;> simp [h1]
  · split <;> simp_all
  · generalize c.nextRecv = p; obtain ⟨c1, o⟩ := p
    cases o <;> simp
    split <;> simp_all))

theorem try_send (x : Ctx) : Gen.shared_send_impl_try_send x = Fine.trySend false false x := by
  unfold Gen.shared_send_impl_try_send Fine.trySend Fine.guardNone Fine.acquire Fine.take Fine.sendErr
  simp only [next_recv_eq]; simp
  congr 1; funext c
  send_cs

theorem try_send_option (x : Ctx) : Gen.shared_send_impl_try_send_option x = Fine.trySend true false x := by
  unfold Gen.shared_send_impl_try_send_option Fine.trySend Fine.guardNone Fine.acquire Fine.take Fine.sendErr
  simp only [next_recv_eq]; simp
  congr 1; funext b; cases b <;> simp
  congr 1; funext c
  send_cs

theorem try_send_realtime (x : Ctx) : Gen.shared_send_impl_try_send_realtime x = Fine.trySend false true x := by
  unfold Gen.shared_send_impl_try_send_realtime Fine.trySend Fine.guardNone Fine.acquire Fine.take Fine.sendErr
  simp only [next_recv_eq]; simp
  congr 1; funext oc; cases oc <;> simp
  rename_i c
  send_cs

theorem try_send_option_realtime (x : Ctx) :
    Gen.shared_send_impl_try_send_option_realtime x = Fine.trySend true true x := by
  unfold Gen.shared_send_impl_try_send_option_realtime Fine.trySend Fine.guardNone Fine.acquire Fine.take Fine.sendErr
  simp only [next_recv_eq]; simp
  congr 1; funext b; cases b <;> simp
  congr 1; funext oc; cases oc <;> simp
  rename_i c
  send_cs

theorem send (x : Ctx) : Gen.Sender_send x = Fine.send false false x := by
  unfold Gen.Sender_send Fine.send Fine.guardNone Fine.take Fine.sendErr Fine.dropData Chan.sendCS
  simp only [next_recv_eq, push_send_eq]; simp
  congr 1; funext c
  send_cs

theorem send_timeout (x : Ctx) : Gen.Sender_send_timeout x = Fine.send true false x := by
  unfold Gen.Sender_send_timeout Fine.send Fine.timedSendTail Fine.guardNone Fine.take Fine.sendErr Fine.failBack
    Fine.dropData Chan.sendCS
  simp only [next_recv_eq, push_send_eq, cancel_send_eq]; simp
  congr 1; funext c
  send_cs

theorem send_option_timeout (x : Ctx) : Gen.Sender_send_option_timeout x = Fine.send true true x := by
  unfold Gen.Sender_send_option_timeout Fine.send Fine.timedSendTail Fine.guardNone Fine.take Fine.sendErr Fine.failBack
    Fine.dropData Chan.sendCS
  simp only [next_recv_eq, push_send_eq, cancel_send_eq]; simp
  congr 1; funext b; cases b <;> simp
  congr 1; funext c
  send_cs

/-! ### the receive family -/

-- the head of every receive, after the translation's own case analysis
set_option hygiene false in
macro "recv_cs" : tactic => `(tactic| (
  unfold Fine.recvHead
  by_cases h1 : c.recvCount = 0 <;> simp [h1]
  cases hq : c.queue <;> simp
  · generalize c.nextSend = p; obtain ⟨c1, o⟩ := p
    cases o <;> simp
  · generalize Chan.nextSend _ = p; obtain ⟨c1, o⟩ := p
    cases o <;> simp))

theorem try_recv (x : Ctx) : Gen.shared_recv_impl_try_recv x = Fine.tryRecv false := by
  unfold Gen.shared_recv_impl_try_recv Fine.tryRecv Fine.acquire
  simp only [next_send_eq]; simp
  congr 1; funext c
  recv_cs

theorem try_recv_realtime (x : Ctx) : Gen.shared_recv_impl_try_recv_realtime x = Fine.tryRecv true := by
  unfold Gen.shared_recv_impl_try_recv_realtime Fine.tryRecv Fine.acquire
  simp only [next_send_eq]; simp
  congr 1; funext oc; cases oc <;> simp
  rename_i c
  recv_cs

theorem recv (x : Ctx) : Gen.Receiver_recv x = Fine.recv false x := by
  unfold Gen.Receiver_recv Fine.recv Fine.readOwn
  simp only [next_send_eq, push_recv_eq]; simp
  congr 1; funext c
  recv_cs

theorem recv_timeout (x : Ctx) : Gen.Receiver_recv_timeout x = Fine.recv true x := by
  unfold Gen.Receiver_recv_timeout Fine.recv Fine.timedRecvTail Fine.readOwn
  simp only [next_send_eq, push_recv_eq, cancel_recv_eq]; simp
  congr 1; funext c
  recv_cs

/-! ### futures -/

theorem drop_send_fut (x : Ctx) : Gen.Drop_SendFuture_drop x = Fine.dropSendFut x := by
  unfold Gen.Drop_SendFuture_drop Fine.dropSendFut Fine.dropLocal
  simp only [cancel_send_eq]

theorem drop_recv_fut (x : Ctx) : Gen.Drop_ReceiveFuture_drop x = Fine.dropRecvFut x := by
  unfold Gen.Drop_ReceiveFuture_drop Fine.dropRecvFut Fine.dropLocal
  simp only [cancel_recv_eq]

theorem poll_send (x : Ctx) : Gen.Future_SendFuture_poll x = Fine.pollSend x := by
  unfold Gen.Future_SendFuture_poll Fine.pollSend Fine.dropLocal Fine.register Chan.sendCS
  simp only [next_recv_eq, push_send_eq, send_exists_eq]
  cases hst : x.st <;> simp
  · congr 1; funext c
    send_cs
  · rfl

theorem poll_recv (x : Ctx) : Gen.Future_ReceiveFuture_poll x = Fine.pollRecv x := by
  unfold Gen.Future_ReceiveFuture_poll Fine.pollRecv
  simp only [Act.loopN_succ, next_send_eq, push_recv_eq, recv_exists_eq]
  unfold Fine.pollRecvRound Fine.register
  cases hst : x.st <;> simp
  · congr 1; funext c
    recv_cs
  · rfl
  · cases x.isStream <;> simp
    congr 1; funext c
    recv_cs

theorem poll_next (x : Ctx) : Gen.Stream_ReceiveStream_poll_next x = Fine.pollNext x := by
  unfold Gen.Stream_ReceiveStream_poll_next Fine.pollNext
  rw [poll_recv]
  split
  · rfl
  · congr 1; funext r; cases r <;> rfl

/-! ### `drain_into` -/

/-- the first loop of `drain_into`: `while let Some(v) = internal.queue.pop_front() { vec.push(v) }` -/
theorem drain_queue_loop (K : Chan → Act) (body : Chan → (Chan → Act) → Act)
    (hcons : ∀ c h t cont, c.queue = h :: t → body c cont = Act.eff (.vecPush h) (cont { c with queue := t }))
    (hnil : ∀ c cont, c.queue = [] → body c cont = K c) :
    ∀ (q : List Msg) (n : Nat) (c : Chan), q.length + 1 ≤ n → c.queue = q →
      Act.loopN n body c = Fine.drainQueue q (K { c with queue := [] }) := by
  intro q
  induction q with
  | nil =>
    intro n c hn hq
    obtain ⟨n, rfl⟩ : ∃ m, n = m + 1 := ⟨n - 1, by simp at hn; omega⟩
    rw [Act.loopN_succ, hnil c _ hq]; simp [Fine.drainQueue]
    cases c; simp_all
  | cons v q ih =>
    intro n c hn hq
    obtain ⟨n, rfl⟩ : ∃ m, n = m + 1 := ⟨n - 1, by simp at hn; omega⟩
    rw [Act.loopN_succ, hcons c v q _ hq]
    rw [ih n { c with queue := q } (by simp at hn ⊢; omega) rfl]
    simp [Fine.drainQueue]

/-- the second loop: `while let Some(p) = internal.next_send() { vec.push(p.recv()) }` -/
theorem drain_senders_loop (K : Chan → Act) (body : Chan → (Chan → Act) → Act)
    (hsome : ∀ c p cont, c.nextSend.2 = some p →
      body c cont = Act.askM (.sigRecv p) fun m => Act.eff (.vecPush m) (cont c.nextSend.1))
    (hnone : ∀ c cont, c.nextSend.2 = none → body c cont = K c.nextSend.1) :
    ∀ (l : List SigId) (n : Nat) (c : Chan), l.length + 1 ≤ n → c.waitList = l →
      Act.loopN n body c = Fine.drainSenders c.popAllSenders.2 (K c.popAllSenders.1) := by
  intro l
  induction l with
  | nil =>
    intro n c hn hl
    obtain ⟨n, rfl⟩ : ∃ m, n = m + 1 := ⟨n - 1, by simp at hn; omega⟩
    have h0 : c.nextSend.2 = none := by unfold Chan.nextSend; cases hb : c.recvBlocking <;> simp [hl]
    rw [Act.loopN_succ, hnone c _ h0]
    unfold Chan.nextSend Chan.popAllSenders
    cases hb : c.recvBlocking <;> simp [hl, Fine.drainSenders]
  | cons s l ih =>
    intro n c hn hl
    obtain ⟨n, rfl⟩ : ∃ m, n = m + 1 := ⟨n - 1, by simp at hn; omega⟩
    rw [Act.loopN_succ]
    cases hb : c.recvBlocking
    · have h1 : c.nextSend = ({ c with waitList := l }, some s) := by unfold Chan.nextSend; simp [hb, hl]
      rw [hsome c s _ (by rw [h1])]
      simp only [h1]
      rw [ih n { c with waitList := l } (by simp at hn ⊢; omega) rfl]
      unfold Chan.popAllSenders
      simp [hb, hl, Fine.drainSenders]
    · have h0 : c.nextSend.2 = none := by unfold Chan.nextSend; simp [hb]
      rw [hnone c _ h0]
      unfold Chan.nextSend Chan.popAllSenders
      simp [hb, Fine.drainSenders]

theorem drain_into (x : Ctx) : Gen.shared_recv_impl_drain_into x = Fine.drain x := by
  unfold Gen.shared_recv_impl_drain_into Fine.drain Chan.drainCS
  simp only [next_send_eq]
  congr 1; funext c
  by_cases h1 : c.recvCount = 0 <;> simp [h1]
  generalize (c.queue.length + if c.recvBlocking = true then 0 else c.waitList.length) = N
  -- both branches of the `reserve` test continue with the same two loops
  by_cases hc : x.vcap - x.vlen < N <;> simp only [hc, if_true, if_false]
  · congr 1
    refine drain_queue_loop
      (fun c1 => Fine.drainSenders c1.popAllSenders.2 (Act.unlock c1.popAllSenders.1 (Act.ret (Res.num N))))
      _ ?_ ?_ c.queue _ c (by omega) rfl
    · intro c1 h t cont hq; simp [hq]
    · intro c1 cont hq
      simp only [hq]
      refine drain_senders_loop (fun c' => Act.unlock c' (Act.ret (Res.num N))) _ ?_ ?_ c1.waitList _ c1 (by simp) rfl
      · intro c2 p cont h; simp [h]
      · intro c2 cont h; simp [h]
  · refine drain_queue_loop
      (fun c1 => Fine.drainSenders c1.popAllSenders.2 (Act.unlock c1.popAllSenders.1 (Act.ret (Res.num N))))
      _ ?_ ?_ c.queue _ c (by omega) rfl
    · intro c1 h t cont hq; simp [hq]
    · intro c1 cont hq
      simp only [hq]
      refine drain_senders_loop (fun c' => Act.unlock c' (Act.ret (Res.num N))) _ ?_ ?_ c1.waitList _ c1 (by simp) rfl
      · intro c2 p cont h; simp [h]
      · intro c2 cont h; simp [h]

end TieCode
end Kanal

#print axioms Kanal.TieCode.translation_complete
#print axioms Kanal.TieCode.translated_functions
#print axioms Kanal.TieCode.glue_ok
#print axioms Kanal.TieCode.new_eq
#print axioms Kanal.TieCode.constructor_calls
#print axioms Kanal.TieCode.poll_next
#print axioms Kanal.TieCode.next_send_eq
#print axioms Kanal.TieCode.next_recv_eq
#print axioms Kanal.TieCode.push_send_eq
#print axioms Kanal.TieCode.push_recv_eq
#print axioms Kanal.TieCode.terminate_signals_eq
#print axioms Kanal.TieCode.cancel_loop
#print axioms Kanal.TieCode.cancel_send_eq
#print axioms Kanal.TieCode.cancel_recv_eq
#print axioms Kanal.TieCode.exists_loop
#print axioms Kanal.TieCode.send_exists_eq
#print axioms Kanal.TieCode.recv_exists_eq
#print axioms Kanal.TieCode.drop_sender
#print axioms Kanal.TieCode.drop_async_sender
#print axioms Kanal.TieCode.drop_receiver
#print axioms Kanal.TieCode.drop_async_receiver
#print axioms Kanal.TieCode.clone_sender
#print axioms Kanal.TieCode.clone_async_sender
#print axioms Kanal.TieCode.sender_clone_async
#print axioms Kanal.TieCode.async_sender_clone_sync
#print axioms Kanal.TieCode.clone_receiver
#print axioms Kanal.TieCode.clone_async_receiver
#print axioms Kanal.TieCode.receiver_clone_async
#print axioms Kanal.TieCode.async_receiver_clone_sync
#print axioms Kanal.TieCode.is_bounded
#print axioms Kanal.TieCode.len
#print axioms Kanal.TieCode.is_empty
#print axioms Kanal.TieCode.is_full
#print axioms Kanal.TieCode.capacity
#print axioms Kanal.TieCode.receiver_count
#print axioms Kanal.TieCode.sender_count
#print axioms Kanal.TieCode.is_closed
#print axioms Kanal.TieCode.is_disconnected_send
#print axioms Kanal.TieCode.is_disconnected_recv
#print axioms Kanal.TieCode.is_terminated
#print axioms Kanal.TieCode.close
#print axioms Kanal.TieCode.try_send
#print axioms Kanal.TieCode.try_send_option
#print axioms Kanal.TieCode.try_send_realtime
#print axioms Kanal.TieCode.try_send_option_realtime
#print axioms Kanal.TieCode.send
#print axioms Kanal.TieCode.send_timeout
#print axioms Kanal.TieCode.send_option_timeout
#print axioms Kanal.TieCode.try_recv
#print axioms Kanal.TieCode.try_recv_realtime
#print axioms Kanal.TieCode.recv
#print axioms Kanal.TieCode.recv_timeout
#print axioms Kanal.TieCode.drop_send_fut
#print axioms Kanal.TieCode.drop_recv_fut
#print axioms Kanal.TieCode.poll_send
#print axioms Kanal.TieCode.poll_recv
#print axioms Kanal.TieCode.drain_queue_loop
#print axioms Kanal.TieCode.drain_senders_loop
#print axioms Kanal.TieCode.drain_into
