/-
  Kanal.ProtoSim — adequacy of the conformance relations of `Kanal.ProtoConf`.

  Two small machines run protocol trees against a real word:
    * `SMach`: ONE waiter tree and ONE peer tree over the signal word, the park token and the wake counter
      (loads return what is in the word, CAS compares and swaps, `park` consumes the token or blocks, `unpark` sets it,
      spurious returns from `park` are allowed);
    * `MMach`: any number of threads' trees over the lock flag (`Kanal/ProtoSimMutex.lean`: `MCfg`, `MStep`, `mutex_sim`).
  Theorems `sig_sim` / `mutex_sim`: if the trees conform (`WConf`/`PConf`, resp. `MConf`), every step of the machine is
  matched by zero or more steps of `SigM` / `MutexM` that keep the correspondence (word = model word, token = model
  token, trees conform at the model's program counters).  Hence every execution of the translated code is (up to
  stuttering) an execution of the model, and the model's theorems (C06, C07, C17) speak about it.
-/
import Kanal.ProtoConf
import Kanal.Props.C07

namespace Kanal
namespace ProtoSim
open SigM (St WKind WPc PPc Ords)
open ProtoConf

def St.ofNat : Nat → St
  | 0 => .unlocked | 1 => .terminated | 2 => .locked | _ => .starvation

/-! ### the signal machine -/

structure SCfg where
  word   : St
  token  : Bool
  parked : Bool       -- the waiter is inside `park()`
  wt     : PAct       -- the waiter's remaining tree
  pt     : PAct       -- the peer's remaining tree

/-- one step of a tree against the word; `none`-returning cases are not enabled -/
inductive SStep : SCfg → SCfg → Prop where
  -- waiter
  | wLoad {g o k} : g.wt = .load o k → g.parked = false → SStep g { g with wt := k (St.toNat g.word) }
  | wFence {g o k} : g.wt = .fence o k → g.parked = false → SStep g { g with wt := k }
  | wCasOk {g e n so fo k} : g.wt = .cas e n so fo k → g.parked = false → St.toNat g.word = e →
      SStep g { g with word := St.ofNat n, wt := k none }
  | wCasFail {g e n so fo k} : g.wt = .cas e n so fo k → g.parked = false → St.toNat g.word ≠ e →
      SStep g { g with wt := k (some (St.toNat g.word)) }
  | wEff {g e k} : g.wt = .eff e k → g.parked = false → e ≠ .park → SStep g { g with wt := k }
  | wAsk {g q k} (b : Bool) : g.wt = .askB q k → g.parked = false → SStep g { g with wt := k b }
  | wParkToken {g k} : g.wt = .eff .park k → g.parked = false → g.token = true → SStep g { g with token := false, wt := k }
  | wParkBlock {g k} : g.wt = .eff .park k → g.parked = false → g.token = false → SStep g { g with parked := true }
  | wUnparked {g k} : g.wt = .eff .park k → g.parked = true → g.token = true → SStep g { g with token := false, parked := false, wt := k }
  | wSpurious {g k} : g.wt = .eff .park k → g.parked = true → SStep g { g with parked := false, wt := k }
  -- peer
  | pCasOk {g e n so fo k} : g.pt = .cas e n so fo k → St.toNat g.word = e → SStep g { g with word := St.ofNat n, pt := k none }
  | pCasFail {g e n so fo k} : g.pt = .cas e n so fo k → St.toNat g.word ≠ e → SStep g { g with pt := k (some (St.toNat g.word)) }
  | pStore {g v o k} : g.pt = .store v o k → SStep g { g with word := St.ofNat v, pt := k }
  | pUnpark {g k} : g.pt = .eff .unpark k → SStep g { g with token := true, pt := k }
  | pEff {g e k} : g.pt = .eff e k → e ≠ .unpark → SStep g { g with pt := k }

/-- reflexive-transitive closure -/
inductive SSteps : SCfg → SCfg → Prop where
  | refl (g) : SSteps g g
  | tail {a b c} : SSteps a b → SStep b c → SSteps a c

/-- The part of the correspondence that one machine step is checked against. -/
structure SRelCore (o : Ords) (Q : Option Bool → WKind → WPc → Prop) (g : SCfg) (s : SigM.State) : Prop where
  word  : g.word = s.st
  token : g.token = s.token
  /-- the waiter's tree conforms at the model's pc; inside `park()` the model is `parked` -/
  waiter : (g.parked = false ∧ WConf o Q g.wt s.kind s.wpc) ∨
           (g.parked = true ∧ s.wpc = .parked ∧ s.kind = .sync ∧ ∃ k, g.wt = .eff .park k ∧ WConf o Q k .sync .parkLoad)
  /-- the peer's tree conforms at the model's pc and writes the model's final state -/
  peer  : PConf o s.fin g.pt s.kind s.ppc

/-- What the waiter has seen is what the word holds: an invariant of `SigM` (for any orderings), needed for the
    re-read of the final word (`WConf.reload`). -/
structure WInv (s : SigM.State) : Prop where
  a         : C07.InvA s
  doneSees  : ∀ v b, s.wpc = .done v b → v = s.st ∧ s.st.isFinal = true
  fenceSees : ∀ v, s.wpc = .fence v → v = s.st ∧ s.st.isFinal = true

theorem winv_init (kind : WKind) (fin : St) (payload : Bool) (hf : fin.isFinal = true) :
    WInv (SigM.init kind fin payload) := by
  refine ⟨C07.invA_init kind fin payload hf, ?_, ?_⟩ <;> intro v <;> simp [SigM.init]

open C07 in
theorem winv_step {o : Ords} {s s' : SigM.State} {e : SigM.Ev} (h : WInv s) (hs : SigM.step o s e = some s') : WInv s' := by
  have ha' := invA_step h.a hs
  obtain ⟨⟨a1, a2, a3, a4, a5, a6, a7, a8⟩, h1, h2⟩ := h
  have hc := C07.St.final_cases s.st
  have hf := C07.St.final_cases s.fin
  refine ⟨ha', ?_, ?_⟩
  all_goals (cases e <;> sig_open hs)
  all_goals grind [SigM.touch, SigM.St.isFinal]

theorem winv_run {o : Ords} : ∀ {es : List SigM.Ev} {s s' : SigM.State}, WInv s → SigM.run o s es = some s' → WInv s' := by
  intro es
  induction es with
  | nil => intro s s' h e; simp [SigM.run] at e; subst e; exact h
  | cons e es ih =>
    intro s s' h he
    simp only [SigM.run] at he
    split at he
    · rename_i s1 hs; exact ih (winv_step h hs) he
    · cases he

theorem winv_reach {o : Ords} {kind : WKind} {fin : St} {payload : Bool} (hf : fin.isFinal = true) {s : SigM.State}
    (h : SigM.Reach o kind fin payload s) : WInv s := by
  induction h with
  | init => exact winv_init kind fin payload hf
  | step _ hs ih => exact winv_step ih hs

/-- The correspondence between a machine configuration and a state of `SigM`: word, token, conformance of both trees
    at the model's program counters, and the model state satisfies the word invariant. -/
structure SRel (o : Ords) (Q : Option Bool → WKind → WPc → Prop) (g : SCfg) (s : SigM.State) : Prop
    extends SRelCore o Q g s where
  inv : WInv s

/-! ### basic facts about the word, `touch` and `run` -/

theorem St.toNat_inj {a b : St} (h : St.toNat a = St.toNat b) : a = b := by
  cases a <;> cases b <;> first | rfl | (exact absurd h (by decide))

@[simp] theorem St.ofNat_toNat (s : St) : St.ofNat (St.toNat s) = s := by cases s <;> rfl

theorem St.toNat_eq_two {s : St} : St.toNat s = 2 ↔ s = .locked := by
  cases s <;> simp [St.toNat]

@[simp] theorem touch_kind (s : SigM.State) : (SigM.touch s).kind = s.kind := by unfold SigM.touch; split <;> rfl
@[simp] theorem touch_fin (s : SigM.State) : (SigM.touch s).fin = s.fin := by unfold SigM.touch; split <;> rfl
@[simp] theorem touch_st (s : SigM.State) : (SigM.touch s).st = s.st := by unfold SigM.touch; split <;> rfl
@[simp] theorem touch_wpc (s : SigM.State) : (SigM.touch s).wpc = s.wpc := by unfold SigM.touch; split <;> rfl
@[simp] theorem touch_ppc (s : SigM.State) : (SigM.touch s).ppc = s.ppc := by unfold SigM.touch; split <;> rfl
@[simp] theorem touch_token (s : SigM.State) : (SigM.touch s).token = s.token := by unfold SigM.touch; split <;> rfl

theorem run_one {o : Ords} {s s' : SigM.State} {e : SigM.Ev} (h : SigM.step o s e = some s') :
    SigM.run o s [e] = some s' := by
  simp [SigM.run, h]

theorem run_cons {o : Ords} {s s1 s' : SigM.State} {e : SigM.Ev} {es : List SigM.Ev}
    (h : SigM.step o s e = some s1) (h' : SigM.run o s1 es = some s') : SigM.run o s (e :: es) = some s' := by
  simp [SigM.run, h, h']

theorem run_append {o : Ords} : ∀ {es : List SigM.Ev} {s s1 s' : SigM.State} {es' : List SigM.Ev},
    SigM.run o s es = some s1 → SigM.run o s1 es' = some s' → SigM.run o s (es ++ es') = some s' := by
  intro es
  induction es with
  | nil => intro s s1 s' es' h h'; simp [SigM.run] at h; subst h; simpa using h'
  | cons e es ih =>
    intro s s1 s' es' h h'
    simp only [SigM.run, List.cons_append] at h ⊢
    split at h
    · rename_i s2 hs2; exact ih h h'
    · cases h

/-- `PConf` does not distinguish the two non-async kinds (the kind changes timed → sync at `wTimedIsTerm`). -/
theorem PConf_kind_irrel {o : Ords} {fin : St} {t : PAct} {kind : WKind} {pc : PPc} (h : PConf o fin t kind pc) :
    ∀ kind', kind ≠ .async → kind' ≠ .async → PConf o fin t kind' pc := by
  induction h with
  | done => intro _ _ _; exact .done
  | accessW _ ih => intro k' h1 h2; refine .accessW ?_; have := ih k' h1 h2; simpa [h1, h2] using this
  | accessR _ ih => intro k' h1 h2; refine .accessR ?_; have := ih k' h1 h2; simpa [h1, h2] using this
  | accessC _ ih => intro k' h1 h2; refine .accessC ?_; have := ih k' h1 h2; simpa [h1, h2] using this
  | cas _ _ _ ih1 ih2 => intro k' h1 h2; exact .cas h2 (ih1 k' h1 h2) (fun s hs => ih2 s hs k' h1 h2)
  | readHandle _ ih => intro k' h1 h2; exact .readHandle (ih k' h1 h2)
  | storeSync _ ih => intro k' h1 h2; exact .storeSync (ih k' h1 h2)
  | unpark _ ih => intro k' h1 h2; exact .unpark (ih k' h1 h2)
  | cloneWaker _ _ => intro _ h1 _; exact absurd rfl h1
  | storeAsync _ _ => intro _ h1 _; exact absurd rfl h1
  | wake _ _ => intro _ h1 _; exact absurd rfl h1

theorem PConf_timed_iff_sync {o : Ords} {fin : St} {t : PAct} {pc : PPc} :
    PConf o fin t .timed pc ↔ PConf o fin t .sync pc :=
  ⟨fun h => PConf_kind_irrel h .sync (by decide) (by decide), fun h => PConf_kind_irrel h .timed (by decide) (by decide)⟩

/-! ### the machine's steps split into the waiter's and the peer's -/

/-- the waiter's steps of `SStep` -/
inductive WStep : SCfg → SCfg → Prop where
  | wLoad {g o k} : g.wt = .load o k → g.parked = false → WStep g { g with wt := k (St.toNat g.word) }
  | wFence {g o k} : g.wt = .fence o k → g.parked = false → WStep g { g with wt := k }
  | wCasOk {g e n so fo k} : g.wt = .cas e n so fo k → g.parked = false → St.toNat g.word = e →
      WStep g { g with word := St.ofNat n, wt := k none }
  | wCasFail {g e n so fo k} : g.wt = .cas e n so fo k → g.parked = false → St.toNat g.word ≠ e →
      WStep g { g with wt := k (some (St.toNat g.word)) }
  | wEff {g e k} : g.wt = .eff e k → g.parked = false → e ≠ .park → WStep g { g with wt := k }
  | wAsk {g q k} (b : Bool) : g.wt = .askB q k → g.parked = false → WStep g { g with wt := k b }
  | wParkToken {g k} : g.wt = .eff .park k → g.parked = false → g.token = true → WStep g { g with token := false, wt := k }
  | wParkBlock {g k} : g.wt = .eff .park k → g.parked = false → g.token = false → WStep g { g with parked := true }
  | wUnparked {g k} : g.wt = .eff .park k → g.parked = true → g.token = true → WStep g { g with token := false, parked := false, wt := k }
  | wSpurious {g k} : g.wt = .eff .park k → g.parked = true → WStep g { g with parked := false, wt := k }

/-- the peer's steps of `SStep` -/
inductive PStep : SCfg → SCfg → Prop where
  | pCasOk {g e n so fo k} : g.pt = .cas e n so fo k → St.toNat g.word = e → PStep g { g with word := St.ofNat n, pt := k none }
  | pCasFail {g e n so fo k} : g.pt = .cas e n so fo k → St.toNat g.word ≠ e → PStep g { g with pt := k (some (St.toNat g.word)) }
  | pStore {g v o k} : g.pt = .store v o k → PStep g { g with word := St.ofNat v, pt := k }
  | pUnpark {g k} : g.pt = .eff .unpark k → PStep g { g with token := true, pt := k }
  | pEff {g e k} : g.pt = .eff e k → e ≠ .unpark → PStep g { g with pt := k }

theorem SStep.split {g g' : SCfg} (h : SStep g g') : WStep g g' ∨ PStep g g' := by
  cases h with
  | wLoad h1 h2 => exact .inl (.wLoad h1 h2)
  | wFence h1 h2 => exact .inl (.wFence h1 h2)
  | wCasOk h1 h2 h3 => exact .inl (.wCasOk h1 h2 h3)
  | wCasFail h1 h2 h3 => exact .inl (.wCasFail h1 h2 h3)
  | wEff h1 h2 h3 => exact .inl (.wEff h1 h2 h3)
  | wAsk b h1 h2 => exact .inl (.wAsk b h1 h2)
  | wParkToken h1 h2 h3 => exact .inl (.wParkToken h1 h2 h3)
  | wParkBlock h1 h2 h3 => exact .inl (.wParkBlock h1 h2 h3)
  | wUnparked h1 h2 h3 => exact .inl (.wUnparked h1 h2 h3)
  | wSpurious h1 h2 => exact .inl (.wSpurious h1 h2)
  | pCasOk h1 h2 => exact .inr (.pCasOk h1 h2)
  | pCasFail h1 h2 => exact .inr (.pCasFail h1 h2)
  | pStore h1 => exact .inr (.pStore h1)
  | pUnpark h1 => exact .inr (.pUnpark h1)
  | pEff h1 h2 => exact .inr (.pEff h1 h2)

/-! inversion of the peer's steps by the shape of its tree -/

theorem PStep.done_inv {g g' : SCfg} {r} (h : PStep g g') (ht : g.pt = .done r) : False := by
  cases h <;> simp_all

theorem PStep.eff_inv {g g' : SCfg} {e k} (h : PStep g g') (ht : g.pt = .eff e k) (he : e ≠ .unpark) :
    g' = { g with pt := k } := by
  cases h <;> simp_all

theorem PStep.unpark_inv {g g' : SCfg} {k} (h : PStep g g') (ht : g.pt = .eff .unpark k) :
    g' = { g with token := true, pt := k } := by
  cases h <;> simp_all

theorem PStep.store_inv {g g' : SCfg} {v o k} (h : PStep g g') (ht : g.pt = .store v o k) :
    g' = { g with word := St.ofNat v, pt := k } := by
  cases h <;> simp_all

theorem PStep.cas_inv {g g' : SCfg} {e n so fo k} (h : PStep g g') (ht : g.pt = .cas e n so fo k) :
    (St.toNat g.word = e ∧ g' = { g with word := St.ofNat n, pt := k none }) ∨
    (St.toNat g.word ≠ e ∧ g' = { g with pt := k (some (St.toNat g.word)) }) := by
  cases h <;> simp_all

/-! ### the peer: exactly one model step per machine step -/

theorem peer_sim (o : Ords) (Q) {g g' : SCfg} {s : SigM.State} (hR : SRelCore o Q g s) (hs : PStep g g') :
    ∃ e s', SigM.step o s e = some s' ∧ SRelCore o Q g' s' := by
  obtain ⟨hword, htok, hw, hp⟩ := hR
  generalize hpt : g.pt = t at hp
  generalize hppc : s.ppc = pc at hp
  generalize hkind : s.kind = kind at hp
  cases hp with
  | done => exact (hs.done_inv hpt).elim
  | accessW hk =>
    have := hs.eff_inv hpt (by decide); subst this
    refine ⟨.pAccess, { SigM.touch s with slotTouched := true, ppc := if s.kind = .async then .cloneWaker else .cas },
      by simp [SigM.step, hppc], ?_⟩
    exact ⟨by simpa using hword, by simpa using htok, by simpa using hw, by simpa [hkind] using hk⟩
  | accessR hk =>
    have := hs.eff_inv hpt (by decide); subst this
    refine ⟨.pAccess, { SigM.touch s with slotTouched := true, ppc := if s.kind = .async then .cloneWaker else .cas },
      by simp [SigM.step, hppc], ?_⟩
    exact ⟨by simpa using hword, by simpa using htok, by simpa using hw, by simpa [hkind] using hk⟩
  | accessC hk =>
    have := hs.eff_inv hpt (by decide); subst this
    refine ⟨.pAccess, { SigM.touch s with slotTouched := true, ppc := if s.kind = .async then .cloneWaker else .cas },
      by simp [SigM.step, hppc], ?_⟩
    exact ⟨by simpa using hword, by simpa using htok, by simpa using hw, by simpa [hkind] using hk⟩
  | cas hna hok hfail =>
    rcases hs.cas_inv hpt with ⟨h2, rfl⟩ | ⟨h2, rfl⟩
    · have hl : s.st = .locked := by rw [← hword]; exact St.toNat_eq_two.mp h2
      refine ⟨.pCas, { SigM.touch s with st := s.fin, finRelease := o.wakeCasSucc.isRelease, ppc := .done },
        by simp [SigM.step, hppc, hl], ?_⟩
      exact ⟨by simp, by simpa using htok, by simpa using hw, by simpa [hkind] using hok⟩
    · have hl : s.st ≠ .locked := by rw [← hword]; exact fun h => h2 (St.toNat_eq_two.mpr h)
      refine ⟨.pCas, { SigM.touch s with peerSyncCell := o.wakeCasFail.isAcquire && s.starvRelease, ppc := .readHandle },
        by simp [SigM.step, hppc, hl], ?_⟩
      exact ⟨by simpa using hword, by simpa using htok, by simpa using hw, by simpa [hkind, hword] using hfail s.st hl⟩
  | readHandle hk =>
    have := hs.eff_inv hpt (by decide); subst this
    refine ⟨.pReadHandle, { SigM.touch s with racy := s.racy || !(s.cellWritten && s.peerSyncCell), ppc := .storeSync },
      by simp [SigM.step, hppc], ?_⟩
    exact ⟨by simpa using hword, by simpa using htok, by simpa using hw, by simpa [hkind] using hk⟩
  | storeSync hk =>
    have := hs.store_inv hpt; subst this
    refine ⟨.pStoreSync, { SigM.touch s with st := s.fin, finRelease := o.wakeStoreSync.isRelease, ppc := .unpark },
      by simp [SigM.step, hppc], ?_⟩
    exact ⟨by simp, by simpa using htok, by simpa using hw, by simpa [hkind] using hk⟩
  | unpark hk =>
    have := hs.unpark_inv hpt; subst this
    refine ⟨.pUnpark, { s with token := true, ppc := .done }, by simp [SigM.step, hppc], ?_⟩
    exact ⟨by simpa using hword, by simp, by simpa using hw, by simpa [hkind] using hk⟩
  | cloneWaker hk =>
    have := hs.eff_inv hpt (by decide); subst this
    refine ⟨.pCloneWaker, { SigM.touch s with ppc := .storeAsync }, by simp [SigM.step, hppc], ?_⟩
    exact ⟨by simpa using hword, by simpa using htok, by simpa using hw, by simpa [hkind] using hk⟩
  | storeAsync hk =>
    have := hs.store_inv hpt; subst this
    refine ⟨.pStoreAsync, { SigM.touch s with st := s.fin, finRelease := o.wakeStoreAsync.isRelease, ppc := .wake },
      by simp [SigM.step, hppc], ?_⟩
    exact ⟨by simp, by simpa using htok, by simpa using hw, by simpa [hkind] using hk⟩
  | wake hk =>
    have := hs.eff_inv hpt (by decide); subst this
    refine ⟨.pWake, { s with woken := s.woken + 1, ppc := .done }, by simp [SigM.step, hppc], ?_⟩
    exact ⟨by simpa using hword, by simpa using htok, by simpa using hw, by simpa [hkind] using hk⟩

/-! inversion of the waiter's steps by the shape of its tree -/

theorem WStep.done_inv {g g' : SCfg} {r} (h : WStep g g') (ht : g.wt = .done r) : False := by
  cases h <;> simp_all
theorem WStep.diverge_inv {g g' : SCfg} (h : WStep g g') (ht : g.wt = .diverge) : False := by
  cases h <;> simp_all
theorem WStep.parked_inv {g g' : SCfg} (h : WStep g g') (hp : g.parked = true) :
    ∃ k, g.wt = .eff .park k ∧
      ((g.token = true ∧ g' = { g with token := false, parked := false, wt := k }) ∨ g' = { g with parked := false, wt := k }) := by
  cases h <;> simp_all
theorem WStep.load_inv {g g' : SCfg} {o k} (h : WStep g g') (ht : g.wt = .load o k) :
    g' = { g with wt := k (St.toNat g.word) } := by
  cases h <;> simp_all
theorem WStep.fence_inv {g g' : SCfg} {o k} (h : WStep g g') (ht : g.wt = .fence o k) :
    g' = { g with wt := k } := by
  cases h <;> simp_all
theorem WStep.eff_inv {g g' : SCfg} {e k} (h : WStep g g') (ht : g.wt = .eff e k) (he : e ≠ .park) :
    g' = { g with wt := k } := by
  cases h <;> simp_all
theorem WStep.ask_inv {g g' : SCfg} {q k} (h : WStep g g') (ht : g.wt = .askB q k) :
    ∃ b, g' = { g with wt := k b } := by
  cases h with
  | wAsk b h1 _ => rw [ht] at h1; cases h1; exact ⟨b, rfl⟩
  | _ => simp_all
theorem WStep.cas_inv {g g' : SCfg} {e n so fo k} (h : WStep g g') (ht : g.wt = .cas e n so fo k) :
    (St.toNat g.word = e ∧ g' = { g with word := St.ofNat n, wt := k none }) ∨
    (St.toNat g.word ≠ e ∧ g' = { g with wt := k (some (St.toNat g.word)) }) := by
  cases h <;> simp_all
theorem WStep.park_inv {g g' : SCfg} {k} (h : WStep g g') (ht : g.wt = .eff .park k) (hp : g.parked = false) :
    (g.token = true ∧ g' = { g with token := false, wt := k }) ∨ (g.token = false ∧ g' = { g with parked := true }) := by
  cases h <;> simp_all

/-! ### the waiter: `wGiveUpSpin`s absorbed by induction on the derivation, then zero (yield / sleep / question) or one model step -/

theorem wconf_sim (o : Ords) (Q) {t kind pc} (h : WConf o Q t kind pc) :
    ∀ (g g' : SCfg) (s : SigM.State), g.wt = t → s.kind = kind → s.wpc = pc → g.parked = false →
      g.word = s.st → g.token = s.token → PConf o s.fin g.pt s.kind s.ppc → WInv s → WStep g g' →
      ∃ evs s', SigM.run o s evs = some s' ∧ SRelCore o Q g' s' := by
  induction h with
  | done hq => intro g g' s hwt hkind hpc hpar hword htok hpeer hinv hstep; exact (hstep.done_inv hwt).elim
  | diverge => intro g g' s hwt hkind hpc hpar hword htok hpeer hinv hstep; exact (hstep.diverge_inv hwt).elim
  | stutter he hk ih =>
    intro g g' s hwt hkind hpc hpar hword htok hpeer hinv hstep
    have := hstep.eff_inv hwt (by rintro rfl; simp [isStutter] at he); subst this
    exact ⟨[], s, rfl, ⟨hword, htok, .inl ⟨hpar, by rw [hkind, hpc]; exact hk⟩, hpeer⟩⟩
  | ask hk ih =>
    intro g g' s hwt hkind hpc hpar hword htok hpeer hinv hstep
    obtain ⟨b, rfl⟩ := hstep.ask_inv hwt
    exact ⟨[], s, rfl, ⟨hword, htok, .inl ⟨hpar, by rw [hkind, hpc]; exact hk b⟩, hpeer⟩⟩
  | giveUpSync hk ih =>
    intro g g' s hwt hkind hpc hpar hword htok hpeer hinv hstep
    have hst : SigM.step o s .wGiveUpSpin = some { s with wpc := .publish } := by simp [SigM.step, hpc, hkind]
    obtain ⟨evs, s', hrun, hrel⟩ := ih g g' { s with wpc := .publish } hwt hkind rfl hpar hword htok hpeer
      (winv_step hinv hst) hstep
    exact ⟨.wGiveUpSpin :: evs, s', run_cons hst hrun, hrel⟩
  | giveUpTimed hk ih =>
    intro g g' s hwt hkind hpc hpar hword htok hpeer hinv hstep
    have hst : SigM.step o s .wGiveUpSpin = some { s with wpc := .timedFinal } := by simp [SigM.step, hpc, hkind]
    obtain ⟨evs, s', hrun, hrel⟩ := ih g g' { s with wpc := .timedFinal } hwt hkind rfl hpar hword htok hpeer
      (winv_step hinv hst) hstep
    exact ⟨.wGiveUpSpin :: evs, s', run_cons hst hrun, hrel⟩
  | load hk ih =>
    intro g g' s hwt hkind hpc hpar hword htok hpeer hinv hstep
    have := hstep.load_inv hwt; subst this
    have h1 := hk s.st
    by_cases hf : s.st.isFinal = true
    · refine ⟨[.wLoad], { s with wpc := .fence s.st }, run_one (by simp [SigM.step, hpc, hf]), ?_⟩
      rw [if_pos hf] at h1
      exact ⟨hword, htok, .inl ⟨hpar, by simpa [hkind, hword] using h1⟩, hpeer⟩
    · refine ⟨[.wLoad], s, run_one (by simp [SigM.step, hpc, hf]), ?_⟩
      rw [if_neg hf] at h1
      exact ⟨hword, htok, .inl ⟨hpar, by simpa [hkind, hword, hpc] using h1⟩, hpeer⟩
  | fence hk ih =>
    intro g g' s hwt hkind hpc hpar hword htok hpeer hinv hstep
    rename_i k kind v
    have := hstep.fence_inv hwt; subst this
    refine ⟨[.wFence], { s with wpc := .done v (o.spinFence.isAcquire && s.finRelease) },
      run_one (by simp [SigM.step, hpc]), ?_⟩
    exact ⟨hword, htok, .inl ⟨hpar, by simpa [hkind] using hk _⟩, hpeer⟩
  | timedFinal hk ih =>
    intro g g' s hwt hkind hpc hpar hword htok hpeer hinv hstep
    have := hstep.load_inv hwt; subst this
    by_cases hf : s.st = .unlocked
    · have h1 := hk s.st (o.timeoutFinal.isAcquire && s.finRelease)
      refine ⟨[.wTimedFinal], { s with wpc := .done .unlocked (o.timeoutFinal.isAcquire && s.finRelease) },
        run_one (by simp [SigM.step, hpc, hf]), ?_⟩
      rw [if_pos hf] at h1
      exact ⟨hword, htok, .inl ⟨hpar, by simpa [hkind, hword] using h1⟩, hpeer⟩
    · have h1 := hk s.st false
      refine ⟨[.wTimedFinal], { s with wpc := .timedIsTerm }, run_one (by simp [SigM.step, hpc, hf]), ?_⟩
      rw [if_neg hf] at h1
      exact ⟨hword, htok, .inl ⟨hpar, by simpa [hkind, hword] using h1⟩, hpeer⟩
  | timedIsTerm hk ih =>
    intro g g' s hwt hkind hpc hpar hword htok hpeer hinv hstep
    have := hstep.load_inv hwt; subst this
    have h1 := hk s.st
    by_cases hf : s.st = .terminated
    · refine ⟨[.wTimedIsTerm], { s with wpc := .done .terminated false }, run_one (by simp [SigM.step, hpc, hf]), ?_⟩
      simp only [if_pos hf] at h1
      exact ⟨hword, htok, .inl ⟨hpar, by simpa [hkind, hword] using h1⟩, hpeer⟩
    · refine ⟨[.wTimedIsTerm], { s with wpc := .spin, kind := .sync }, run_one (by simp [SigM.step, hpc, hf]), ?_⟩
      simp only [if_neg hf] at h1
      rw [hkind] at hpeer
      exact ⟨hword, htok, .inl ⟨hpar, by simpa [hword] using h1⟩, PConf_timed_iff_sync.mp hpeer⟩
  | publish hk ih =>
    intro g g' s hwt hkind hpc hpar hword htok hpeer hinv hstep
    have := hstep.eff_inv hwt (by decide); subst this
    refine ⟨[.wPublish], { s with cellWritten := true, wpc := .casStarv }, run_one (by simp [SigM.step, hpc]), ?_⟩
    exact ⟨hword, htok, .inl ⟨hpar, by simpa [hkind] using hk⟩, hpeer⟩
  | casStarv hok hfail ih1 ih2 =>
    intro g g' s hwt hkind hpc hpar hword htok hpeer hinv hstep
    rcases hstep.cas_inv hwt with ⟨h2, rfl⟩ | ⟨h2, rfl⟩
    · have hl : s.st = .locked := by rw [← hword]; exact St.toNat_eq_two.mp h2
      refine ⟨[.wCasStarv], { s with st := .starvation, starvRelease := o.starvCasSucc.isRelease, wpc := .park },
        run_one (by simp [SigM.step, hpc, hl]), ?_⟩
      exact ⟨rfl, htok, .inl ⟨hpar, by simpa [hkind] using hok⟩, hpeer⟩
    · have hl : s.st ≠ .locked := by rw [← hword]; exact fun h => h2 (St.toNat_eq_two.mpr h)
      refine ⟨[.wCasStarv], { s with wpc := .done s.st (o.starvCasFail.isAcquire && s.finRelease) },
        run_one (by simp [SigM.step, hpc, hl]), ?_⟩
      exact ⟨hword, htok, .inl ⟨hpar, by simpa [hkind, hword] using hfail s.st hl _⟩, hpeer⟩
  | park hk ih =>
    intro g g' s hwt hkind hpc hpar hword htok hpeer hinv hstep
    rename_i k
    rcases hstep.park_inv hwt hpar with ⟨h2, rfl⟩ | ⟨h2, rfl⟩
    · refine ⟨[.wPark], { s with token := false, wpc := .parkLoad },
        run_one (by simp [SigM.step, hpc, ← htok, h2]), ?_⟩
      exact ⟨hword, rfl, .inl ⟨hpar, by simpa [hkind] using hk⟩, hpeer⟩
    · refine ⟨[.wPark], { s with wpc := .parked }, run_one (by simp [SigM.step, hpc, ← htok, h2]), ?_⟩
      exact ⟨hword, htok, .inr ⟨rfl, rfl, hkind, k, hwt, hk⟩, hpeer⟩
  | parkLoad hk ih =>
    intro g g' s hwt hkind hpc hpar hword htok hpeer hinv hstep
    have := hstep.load_inv hwt; subst this
    have h1 := hk s.st (o.parkLoad.isAcquire && s.finRelease)
    by_cases hf : s.st.isFinal = true
    · refine ⟨[.wParkLoad], { s with wpc := .done s.st (o.parkLoad.isAcquire && s.finRelease) },
        run_one (by simp [SigM.step, hpc, hf]), ?_⟩
      rw [if_pos hf] at h1
      exact ⟨hword, htok, .inl ⟨hpar, by simpa [hkind, hword] using h1⟩, hpeer⟩
    · refine ⟨[.wParkLoad], { s with wpc := .park }, run_one (by simp [SigM.step, hpc, hf]), ?_⟩
      rw [if_neg hf] at h1
      exact ⟨hword, htok, .inl ⟨hpar, by simpa [hkind, hword] using h1⟩, hpeer⟩

  | reload hk ih =>
    intro g g' s hwt hkind hpc hpar hword htok hpeer hinv hstep
    rename_i k kind v b
    have := hstep.load_inv hwt; subst this
    have hv : g.word = v := by rw [hword]; exact (hinv.doneSees v b hpc).1.symm
    exact ⟨[], s, rfl, ⟨hword, htok, .inl ⟨hpar, by rw [hkind, hpc, hv]; exact hk⟩, hpeer⟩⟩

/-! ### `sig_sim` -/

/-- the waiter inside `park()`: a spurious return or one that consumes the token -/
theorem parked_sim (o : Ords) (Q) {g g' : SCfg} {s : SigM.State} (hR : SRelCore o Q g s) (hp : g.parked = true)
    (hs : WStep g g') : ∃ e s', SigM.step o s e = some s' ∧ SRelCore o Q g' s' := by
  obtain ⟨hword, htok, hw, hpeer⟩ := hR
  rcases hw with ⟨h0, _⟩ | ⟨_, hpc, hkind, k, hwt, hk⟩
  · rw [hp] at h0; cases h0
  obtain ⟨k', hwt', h⟩ := hs.parked_inv hp
  rw [hwt] at hwt'; cases hwt'
  rcases h with ⟨h2, rfl⟩ | rfl
  · refine ⟨.wUnparked false, { s with token := false, wpc := .parkLoad }, by simp [SigM.step, hpc, ← htok, h2], ?_⟩
    exact ⟨hword, rfl, .inl ⟨rfl, by simpa [hkind] using hk⟩, hpeer⟩
  · refine ⟨.wUnparked true, { s with wpc := .parkLoad }, by simp [SigM.step, hpc], ?_⟩
    exact ⟨hword, htok, .inl ⟨rfl, by simpa [hkind] using hk⟩, hpeer⟩

/-- Every machine step is matched by zero or more model steps that keep the core correspondence. -/
theorem sig_sim_core (o : Ords) (Q) {g g' : SCfg} {s : SigM.State} (hR : SRel o Q g s) (hs : SStep g g') :
    ∃ evs s', SigM.run o s evs = some s' ∧ SRelCore o Q g' s' := by
  rcases hs.split with hw | hp
  · cases hpar : g.parked with
    | true =>
      obtain ⟨e, s', h1, h2⟩ := parked_sim o Q hR.toSRelCore hpar hw
      exact ⟨[e], s', run_one h1, h2⟩
    | false =>
      rcases hR.waiter with ⟨_, hc⟩ | ⟨h0, _⟩
      · exact wconf_sim o Q hc g g' s rfl rfl rfl hpar hR.word hR.token hR.peer hR.inv hw
      · rw [hpar] at h0; cases h0
  · obtain ⟨e, s', h1, h2⟩ := peer_sim o Q hR.toSRelCore hp
    exact ⟨[e], s', run_one h1, h2⟩

/-- Every machine step is matched by zero or more model steps that keep the correspondence. -/
theorem sig_sim (o : Ords) (Q) {g g' : SCfg} {s : SigM.State} (hR : SRel o Q g s) (hs : SStep g g') :
    ∃ evs s', SigM.run o s evs = some s' ∧ SRel o Q g' s' := by
  obtain ⟨evs, s', hrun, hcore⟩ := sig_sim_core o Q hR hs
  exact ⟨evs, s', hrun, ⟨hcore, winv_run hR.inv hrun⟩⟩

theorem sig_sim_steps (o : Ords) (Q) {g g' : SCfg} {s : SigM.State} (hR : SRel o Q g s) (h : SSteps g g') :
    ∃ evs s', SigM.run o s evs = some s' ∧ SRel o Q g' s' := by
  induction h with
  | refl => exact ⟨[], s, rfl, hR⟩
  | tail _ hstep ih =>
    obtain ⟨evs, s1, hrun, hR1⟩ := ih
    obtain ⟨evs', s', hrun', hR'⟩ := sig_sim o Q hR1 hstep
    exact ⟨evs ++ evs', s', run_append hrun hrun', hR'⟩

/-- Executions of conformant trees from the initial configuration stay within the reachable states of `SigM`
    (`fin`, the state the peer is going to write, is one of the two final states). -/
theorem sig_exec_reach {o : Ords} {kind : WKind} {fin : St} {payload : Bool} {Q} {W Pt : PAct}
    (hf : fin.isFinal = true)
    (hW : WConf o Q W kind .spin) (hP : PConf o fin Pt kind (SigM.init kind fin payload).ppc)
    {g' : SCfg} (h : SSteps ⟨.locked, false, false, W, Pt⟩ g') :
    ∃ s', SigM.Reach o kind fin payload s' ∧ SRel o Q g' s' := by
  have hR : SRel o Q ⟨.locked, false, false, W, Pt⟩ (SigM.init kind fin payload) :=
    ⟨⟨rfl, rfl, .inl ⟨rfl, hW⟩, hP⟩, winv_init kind fin payload hf⟩
  obtain ⟨evs, s', hrun, hR'⟩ := sig_sim_steps o Q hR h
  exact ⟨s', SigM.Reach.init.run evs s' hrun, hR'⟩

/-! ### non-vacuity: a small conformant pair (a `poll`-like waiter, a `terminate`-like peer of an async waiter) -/

def exW (o : Ords) : PAct :=
  .load o.spinLoad fun v => if v < 2 then .fence o.spinFence (.done (some (v == 0))) else .diverge

def exP (o : Ords) : PAct :=
  .eff .cloneWaker (.store 1 o.wakeStoreAsync (.eff .wake (.done none)))

theorem exW_conf (o : Ords) : WConf o (fun _ _ _ => True) (exW o) .async .spin := by
  refine .load fun s => ?_
  cases s
  · exact .fence fun _ => .done trivial
  · exact .fence fun _ => .done trivial
  · exact .diverge
  · exact .diverge

theorem exP_conf (o : Ords) : PConf o .terminated (exP o) .async (SigM.init .async .terminated false).ppc :=
  .cloneWaker (.storeAsync (.wake .done))

/-- four machine steps: the peer clones the waker and stores TERMINATED, the waiter loads it and fences -/
theorem ex_steps (o : Ords) :
    SSteps ⟨.locked, false, false, exW o, exP o⟩
           ⟨.terminated, false, false, .done (some false), .eff .wake (.done none)⟩ := by
  have h1 : SStep ⟨.locked, false, false, exW o, exP o⟩
      ⟨.locked, false, false, exW o, .store 1 o.wakeStoreAsync (.eff .wake (.done none))⟩ :=
    SStep.pEff (g := ⟨.locked, false, false, exW o, exP o⟩) rfl (by decide)
  have h2 : SStep ⟨.locked, false, false, exW o, .store 1 o.wakeStoreAsync (.eff .wake (.done none))⟩
      ⟨.terminated, false, false, exW o, .eff .wake (.done none)⟩ :=
    SStep.pStore (g := ⟨.locked, false, false, exW o, _⟩) rfl
  have h3 : SStep ⟨.terminated, false, false, exW o, .eff .wake (.done none)⟩
      ⟨.terminated, false, false, .fence o.spinFence (.done (some false)), .eff .wake (.done none)⟩ :=
    SStep.wLoad (g := ⟨.terminated, false, false, exW o, _⟩) rfl rfl
  have h4 : SStep ⟨.terminated, false, false, .fence o.spinFence (.done (some false)), .eff .wake (.done none)⟩
      ⟨.terminated, false, false, .done (some false), .eff .wake (.done none)⟩ :=
    SStep.wFence (g := ⟨.terminated, false, false, _, _⟩) rfl rfl
  exact .tail (.tail (.tail (.tail (.refl _) h1) h2) h3) h4

example (o : Ords) :
    let g' : SCfg := ⟨.terminated, false, false, .done (some false), .eff .wake (.done none)⟩
    let s' : SigM.State :=
      { kind := .async, fin := .terminated, payload := false, st := .terminated,
        wpc := .done .terminated (o.spinFence.isAcquire && o.wakeStoreAsync.isRelease), ppc := .wake,
        finRelease := o.wakeStoreAsync.isRelease }
    SSteps ⟨.locked, false, false, exW o, exP o⟩ g' ∧
    SigM.run o (SigM.init .async .terminated false) [.pCloneWaker, .pStoreAsync, .wLoad, .wFence] = some s' ∧
    SigM.Reach o .async .terminated false s' ∧
    SRel o (fun _ _ _ => True) g' s' := by
  intro g' s'
  have hrun : SigM.run o (SigM.init .async .terminated false) [.pCloneWaker, .pStoreAsync, .wLoad, .wFence] = some s' := by
    rfl
  exact ⟨ex_steps o, hrun, SigM.Reach.init.run _ _ hrun,
    ⟨⟨rfl, rfl, .inl ⟨rfl, .done trivial⟩, .wake .done⟩, winv_reach rfl (SigM.Reach.init.run _ _ hrun)⟩⟩

/-- … and the general theorem applies to it -/
example (o : Ords) : ∃ s', SigM.Reach o .async .terminated false s' ∧
    SRel o (fun _ _ _ => True) ⟨.terminated, false, false, .done (some false), .eff .wake (.done none)⟩ s' :=
  sig_exec_reach rfl (exW_conf o) (exP_conf o) (ex_steps o)


end ProtoSim
end Kanal

#print axioms Kanal.ProtoSim.winv_step
#print axioms Kanal.ProtoSim.sig_sim
#print axioms Kanal.ProtoSim.sig_sim_steps
#print axioms Kanal.ProtoSim.sig_exec_reach
#print axioms Kanal.ProtoSim.PConf_timed_iff_sync
