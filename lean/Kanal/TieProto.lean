/-
  Kanal.TieProto — the protocol trees GENERATED from src/signal.rs, src/mutex.rs and `spin_cond` of
  src/backoff.rs (`Kanal/GenProto.lean`) CONFORM to the protocol models `SigM` and `MutexM`
  (`Kanal/ProtoConf.lean`), with the orderings and loop constants extracted from the source
  (`C07.treeOrds` = `Tie.sigOrds`, `Tie.mutexOrds`, `Tie.mutexConsts`), for every fuel and every
  conforming continuation.
-/
import Kanal.GenProto
import Kanal.ProtoConf
import Kanal.Props.C07
import Kanal.Tie

namespace Kanal.TieProto
open ProtoConf PAct
open SigM (St WKind WPc PPc)
open MutexM (Pc SpinPc)

/-! ### The concrete values -/

/-- The orderings of the signal protocol, as numbers-free literals. -/
@[reducible] def o0 : SigM.Ords :=
  ⟨.relaxed, .acquire, .release, .acquire, .acquire, .acquire, .release, .acquire, .release, .release⟩
@[reducible] def mo0 : MutexM.Ords := ⟨.acquire, .relaxed, .release⟩
@[reducible] def mc0 : MutexM.Consts := ⟨4, 8, 2, 1073741824⟩

theorem treeOrds_eq : C07.treeOrds = o0 := by decide
theorem mutexOrds_eq : Tie.mutexOrds = mo0 := by decide
theorem mutexConsts_eq : Tie.mutexConsts = mc0 := by decide
theorem protoProblems_eq : Gen.protoProblems = [] := rfl
theorem protoNames_eq : Gen.protoNames =
    ["Signal_new_async", "Signal_new_async_ptr", "Signal_new_sync", "Signal_will_wake", "Signal_register_waker", "Signal_set_ptr",
     "Signal_assume_init", "Signal_load_and_drop",
     "RawMutexLock_try_lock", "RawMutexLock_unlock", "spin_cond", "RawMutexLock_lock_no_inline", "RawMutexLock_lock",
     "Signal_poll", "Signal_is_terminated", "Signal_async_blocking_wait", "Signal_wait", "Signal_wait_timeout",
     "Signal_wake", "Signal_send", "Signal_send_copy", "Signal_recv", "Signal_terminate"] := rfl

/-! ### constructors and accessors of `Signal` -/

/-- every signal starts `LOCKED` (= `SigM.init`'s word), with the waker kind of its constructor -/
theorem new_signal_eq : Gen.Signal_new_async = (2, .none) ∧ Gen.Signal_new_async_ptr = (2, .none) ∧ Gen.Signal_new_sync = (2, .sync) ∧
    ProtoConf.St.toNat .locked = 2 := ⟨rfl, rfl, rfl, rfl⟩

/-- `will_wake` is the standard library's `Waker::will_wake` on the registered task waker (only futures have one) -/
theorem will_wake_eq (fuel : Nat) (k : Bool → PAct) :
    Gen.Signal_will_wake fuel .async k = .askB .stdWillWake k ∧
    Gen.Signal_will_wake fuel .sync k = .unreachable ∧ Gen.Signal_will_wake fuel .none k = .unreachable := ⟨rfl, rfl, rfl⟩

/-- `register_waker` stores a clone of the supplied waker, `set_ptr` the slot pointer; `assume_init` / `load_and_drop` read the payload slot once -/
theorem accessors_eq (fuel : Nat) (wk : WakerKind) (k : Unit → PAct) :
    Gen.Signal_register_waker fuel wk k = .eff .storeWaker (k ()) ∧ Gen.Signal_set_ptr fuel wk k = .eff .storePtr (k ()) ∧
    Gen.Signal_assume_init fuel wk k = .eff .ptrRead (k ()) ∧ Gen.Signal_load_and_drop fuel wk k = .eff .ptrRead (k ()) := ⟨rfl, rfl, rfl, rfl⟩

/-! ### Waiter side -/
section waiter
variable {Q : Option Bool → WKind → WPc → Prop}

/-- What every spin-phase load is followed by: `if v < LOCKED { fence(Acquire); return v == UNLOCKED } else …`. -/
theorem after_load {kind : WKind} (K : Bool → PAct) (E : PAct)
    (hK : ∀ v b, v.isFinal = true → WConf o0 Q (K (St.toNat v == 0)) kind (.done v b))
    (hE : WConf o0 Q E kind .spin) (s : St) :
    WConf o0 Q (if decide (St.toNat s < 2) then .fence .acquire (K (St.toNat s == 0)) else E) kind
      (if s.isFinal then .fence s else .spin) := by
  cases s
  · exact WConf.fence (fun b => hK .unlocked b rfl)
  · exact WConf.fence (fun b => hK .terminated b rfl)
  · exact hE
  · exact hE

/-- `for _ in 0..n { yield_now_std(); let v = load(Relaxed); if v < LOCKED { fence; return … } }`. -/
theorem spin_for_yield_load {kind : WKind} (K : Bool → PAct) (E : Unit → PAct)
    (hK : ∀ v b, v.isFinal = true → WConf o0 Q (K (St.toNat v == 0)) kind (.done v b))
    (hE : WConf o0 Q (E ()) kind .spin) (n : Nat) :
    WConf o0 Q (forN n (fun next_ => .eff .yieldStd (.load .relaxed fun v2 => let v_v := v2;
      (if (decide (v_v < 2)) then .fence .acquire (K (v_v == 0)) else next_ ()))) E) kind .spin := by
  induction n with
  | zero => exact hE
  | succ n ih =>
    rw [forN_succ]
    apply WConf.stutter rfl
    apply WConf.load
    intro s
    exact after_load K _ hK ih s

/-- `for _ in 0..n { let v = load(Relaxed); if v < LOCKED { fence; return … }; yield_now() }`. -/
theorem spin_for_load_yield {kind : WKind} (K : Bool → PAct) (E : Unit → PAct)
    (hK : ∀ v b, v.isFinal = true → WConf o0 Q (K (St.toNat v == 0)) kind (.done v b))
    (hE : WConf o0 Q (E ()) kind .spin) (n : Nat) :
    WConf o0 Q (forN n (fun next_ => .load .relaxed fun v2 => let v_v := v2;
      (if (decide (v_v < 2)) then .fence .acquire (K (v_v == 0)) else .eff .yieldSpin (next_ ()))) E) kind .spin := by
  induction n with
  | zero => exact hE
  | succ n ih =>
    rw [forN_succ]
    apply WConf.load
    intro s
    exact after_load K _ hK (WConf.stutter rfl ih) s

/-- The park loop of `wait()`. -/
theorem park_loop (k : Bool → PAct)
    (hk : ∀ v b, v ≠ .locked → WConf o0 Q (k (St.toNat v == 0)) .sync (.done v b)) (fuel : Nat) :
    WConf o0 Q (loopN fuel (fun _u continue_ => .eff .park (.load .acquire fun v4 => let v_v := v4;
      (if (decide (v_v < 2)) then k (v_v == 0) else continue_ ()))) ()) .sync .park := by
  induction fuel with
  | zero => exact WConf.diverge
  | succ n ih =>
    rw [loopN_succ]
    apply WConf.park
    apply WConf.parkLoad
    intro s b
    cases s
    · exact hk .unlocked b (by decide)
    · exact hk .terminated b (by decide)
    · exact ih
    · exact ih

/-- **`Signal::wait`** (sync waiter): from the spin phase; it returns `v == UNLOCKED` when the model's
    waiter is at `done v b`. -/
theorem wait_conf0 (fuel : Nat) (k : Bool → PAct)
    (hk : ∀ v b, v ≠ .locked → WConf o0 Q (k (St.toNat v == 0)) .sync (.done v b)) :
    WConf o0 Q (Gen.Signal_wait fuel .sync k) .sync .spin := by
  have hK : ∀ v b, v.isFinal = true → WConf o0 Q (k (St.toNat v == 0)) .sync (.done v b) :=
    fun v b hv => hk v b (by cases v <;> simp_all [St.isFinal])
  unfold Gen.Signal_wait
  apply WConf.load
  intro s
  refine after_load k _ hK ?_ s
  apply spin_for_yield_load k _ hK
  apply WConf.giveUpSync
  apply WConf.publish
  apply WConf.casStarv
  · exact park_loop k hk fuel
  · intro s hs b; exact hk s b hs

/-- The deadline loop of `wait_timeout()`. -/
theorem deadline_loop (k : Bool → PAct)
    (hk : ∀ v b, v.isFinal = true → WConf o0 Q (k (St.toNat v == 0)) .timed (.done v b))
    (hk' : WConf o0 Q (k false) .timed .timedIsTerm) (fuel : Nat) :
    WConf o0 Q (loopN fuel (fun _u continue_ => .askB .beforeDeadline fun b3 => (if b3 then .load .relaxed fun v4 => let v_v := v4;
            (if (decide (v_v < 2)) then .fence .acquire (k (v_v == 0))
            else .eff .yieldStd (continue_ ()))
          else .load .acquire fun v5 => k (v5 == 0))) ()) .timed .spin := by
  induction fuel with
  | zero => exact WConf.diverge
  | succ n ih =>
    rw [loopN_succ]
    apply WConf.ask
    intro b
    cases b
    · apply WConf.giveUpTimed
      apply WConf.timedFinal
      intro s b
      cases s
      · exact hk .unlocked b rfl
      · exact hk'
      · exact hk'
      · exact hk'
    · apply WConf.load
      intro s
      exact after_load k _ hk (WConf.stutter rfl ih) s

/-- **`Signal::wait_timeout`** (timed waiter), both answers of `get_parallelism() > 1`: it returns `true` at
    `done unlocked b`, `false` at `done terminated b`, or `false` at `timedIsTerm` (the final acquire load saw
    something else than UNLOCKED). -/
theorem wait_timeout_conf0 (fuel : Nat) (wk : WakerKind) (k : Bool → PAct)
    (hk : ∀ v b, v.isFinal = true → WConf o0 Q (k (St.toNat v == 0)) .timed (.done v b))
    (hk' : WConf o0 Q (k false) .timed .timedIsTerm) :
    WConf o0 Q (Gen.Signal_wait_timeout fuel wk k) .timed .spin := by
  unfold Gen.Signal_wait_timeout
  apply WConf.ask
  intro b
  cases b
  · exact deadline_loop k hk hk' fuel
  · exact spin_for_load_yield k _ hk (deadline_loop k hk hk' fuel) 32

/-- **`Signal::is_terminated`** as the second half of a timed wait: `true` at `(timed, done terminated false)`,
    `false` with the waiter going on as a sync waiter in its spin phase. -/
theorem is_terminated_conf0 (fuel : Nat) (wk : WakerKind) (k : Bool → PAct)
    (hkt : WConf o0 Q (k true) .timed (.done .terminated false))
    (hkf : WConf o0 Q (k false) .sync .spin) :
    WConf o0 Q (Gen.Signal_is_terminated fuel wk k) .timed .timedIsTerm := by
  unfold Gen.Signal_is_terminated
  apply WConf.timedIsTerm
  intro s
  cases s
  · exact hkf
  · exact hkt
  · exact hkf
  · exact hkf

/-- **`Signal::poll`**: `Some(v == UNLOCKED)` at `done v b` for a final `v`, `None` (Pending) staying in `spin`. -/
theorem poll_conf0 (fuel : Nat) (wk : WakerKind) (kind : WKind) (k : Option Bool → PAct)
    (hk : ∀ v b, v.isFinal = true → WConf o0 Q (k (some (St.toNat v == 0))) kind (.done v b))
    (hk' : WConf o0 Q (k none) kind .spin) :
    WConf o0 Q (Gen.Signal_poll fuel wk k) kind .spin := by
  unfold Gen.Signal_poll
  apply WConf.load
  intro s
  exact after_load (fun r => k (some r)) _ hk hk' s

/-- The sleeping loop of `async_blocking_wait()`. -/
theorem sleep_loop {kind : WKind} (k : Bool → PAct)
    (hk : ∀ v b, v.isFinal = true → WConf o0 Q (k (St.toNat v == 0)) kind (.done v b)) (fuel : Nat) :
    ∀ st : Nat, WConf o0 Q (loopN fuel (fun v_sleep_time continue_ => .eff .sleep (.load .relaxed fun v3 => let v_v := v3;
            (if (decide (v_v < 2)) then .fence .acquire (k (v_v == 0))
            else (if (decide (v_sleep_time < (1 <<< 18))) then let v_sleep_time := (v_sleep_time <<< 1); continue_ v_sleep_time
              else continue_ v_sleep_time)))) st) kind .spin := by
  induction fuel with
  | zero => intro st; exact WConf.diverge
  | succ n ih =>
    intro st
    rw [loopN_succ]
    apply WConf.stutter rfl
    apply WConf.load
    intro s
    refine after_load k _ hk ?_ s
    split
    · exact ih _
    · exact ih _

/-- **`Signal::async_blocking_wait`**: returns `v == UNLOCKED` at `done v b`. -/
theorem async_blocking_wait_conf0 (fuel : Nat) (wk : WakerKind) (kind : WKind) (k : Bool → PAct)
    (hk : ∀ v b, v.isFinal = true → WConf o0 Q (k (St.toNat v == 0)) kind (.done v b)) :
    WConf o0 Q (Gen.Signal_async_blocking_wait fuel wk k) kind .spin := by
  unfold Gen.Signal_async_blocking_wait
  apply WConf.load
  intro s
  refine after_load k _ hk ?_ s
  apply spin_for_yield_load k _ hk
  exact sleep_loop k hk fuel _

end waiter

/-! ### Peer side -/
section peer

/-- **`Signal::wake`**, sync arm (the waiter is a blocked or timed call): CAS, and on failure read the handle,
    store, unpark. -/
theorem wake_sync_conf0 (fuel : Nat) (fin : St) (kind : WKind) (hkind : kind ≠ .async) (k : Unit → PAct)
    (hk : PConf o0 fin (k ()) kind .done) :
    PConf o0 fin (Gen.Signal_wake fuel .sync (St.toNat fin) k) kind .cas := by
  unfold Gen.Signal_wake
  apply PConf.cas hkind
  · exact hk
  · intro s _
    apply PConf.readHandle
    apply PConf.storeSync
    apply PConf.unpark
    exact hk

/-- **`Signal::wake`**, async arm: clone the waker, store, wake. -/
theorem wake_async_conf0 (fuel : Nat) (fin : St) (k : Unit → PAct)
    (hk : PConf o0 fin (k ()) .async .done) :
    PConf o0 fin (Gen.Signal_wake fuel .async (St.toNat fin) k) .async .cloneWaker := by
  unfold Gen.Signal_wake
  apply PConf.cloneWaker
  apply PConf.storeAsync
  apply PConf.wake
  exact hk

/-- The waker kind the peer finds in a signal whose owner waits as `kind`. -/
def wkOf : WKind → WakerKind
  | .sync | .timed => .sync
  | .async => .async

/-- `wake` for either arm, from the pc at which a peer without payload starts. -/
theorem wake_conf0 (fuel : Nat) (fin : St) (kind : WKind) (k : Unit → PAct)
    (hk : PConf o0 fin (k ()) kind .done) :
    PConf o0 fin (Gen.Signal_wake fuel (wkOf kind) (St.toNat fin) k) kind
      (if kind = .async then .cloneWaker else .cas) := by
  cases kind
  · exact wake_sync_conf0 fuel fin .sync (by decide) k hk
  · exact wake_sync_conf0 fuel fin .timed (by decide) k hk
  · exact wake_async_conf0 fuel fin k hk

theorem send_conf0 (fuel : Nat) (kind : WKind) (k : Unit → PAct) (hk : PConf o0 .unlocked (k ()) kind .done) :
    PConf o0 .unlocked (Gen.Signal_send fuel (wkOf kind) k) kind .access := by
  unfold Gen.Signal_send
  apply PConf.accessW
  exact wake_conf0 fuel .unlocked kind (fun _ => k ()) hk

theorem send_copy_conf0 (fuel : Nat) (kind : WKind) (k : Unit → PAct) (hk : PConf o0 .unlocked (k ()) kind .done) :
    PConf o0 .unlocked (Gen.Signal_send_copy fuel (wkOf kind) k) kind .access := by
  unfold Gen.Signal_send_copy
  apply PConf.accessC
  exact wake_conf0 fuel .unlocked kind (fun _ => k ()) hk

theorem recv_conf0 (fuel : Nat) (kind : WKind) (k : Unit → PAct) (hk : PConf o0 .unlocked (k ()) kind .done) :
    PConf o0 .unlocked (Gen.Signal_recv fuel (wkOf kind) k) kind .access := by
  unfold Gen.Signal_recv
  apply PConf.accessR
  exact wake_conf0 fuel .unlocked kind (fun _ => k ()) hk

theorem terminate_conf0 (fuel : Nat) (kind : WKind) (k : Unit → PAct) (hk : PConf o0 .terminated (k ()) kind .done) :
    PConf o0 .terminated (Gen.Signal_terminate fuel (wkOf kind) k) kind
      (if kind = .async then .cloneWaker else .cas) := by
  unfold Gen.Signal_terminate
  exact wake_conf0 fuel .terminated kind (fun _ => k ()) hk

end peer

/-! ### The lock -/
section lock
variable {par1 : Bool} {Q : Option Bool → Pc → Prop}

/-- **`try_lock`**: one CAS; `true` holding the lock, `false` having given up. -/
theorem try_lock_conf0 (fuel : Nat) (k : Bool → PAct)
    (hkt : MConf mo0 mc0 par1 Q (k true) .inCS) (hkf : MConf mo0 mc0 par1 Q (k false) .gaveUp) :
    MConf mo0 mc0 par1 Q (Gen.RawMutexLock_try_lock fuel k) .tryOnce := by
  unfold Gen.RawMutexLock_try_lock
  apply MConf.casTry
  · exact hkt
  · intro v; exact hkf

/-- **`unlock`**: one releasing store, from the critical section to idle. -/
theorem unlock_conf0 (fuel : Nat) (k : Unit → PAct) (hk : MConf mo0 mc0 par1 Q (k ()) .idle) :
    MConf mo0 mc0 par1 Q (Gen.RawMutexLock_unlock fuel k) .inCS := by
  unfold Gen.RawMutexLock_unlock
  exact MConf.unlock hk

/-- One `cond()` of `spin_cond(|| self.try_lock())` followed by `if cond { return } else { next }`. -/
def condB (K next : PAct) : PAct :=
  .cas 0 1 .acquire .relaxed fun r => if r.isNone then K else next

/-- The body of the outer loop of `spin_cond` (parallelism > 1), with the constants of the source:
    one `yield_now()` round, no `yield_now_std()` round, two `sleep(0)` rounds, then the back-off. -/
def outerBody (K : PAct) : Nat → (Nat → PAct) → PAct := fun sp continue_ =>
  .eff .yieldSpin (forN sp (fun next_ => condB K (next_ ())) fun _ =>
    .eff .sleep (forN sp (fun next_ => condB K (next_ ())) fun _ =>
      .eff .sleep (forN sp (fun next_ => condB K (next_ ())) fun _ =>
        (if decide (sp < (1 <<< 30)) then .eff .sleep (continue_ (sp <<< 1)) else .eff .sleep (continue_ sp)))))

/-- The generated `lock_no_inline` = `spin_cond(|| try_lock())`, with its `for` loops of constant length unrolled. -/
theorem lock_no_inline_eq (fuel : Nat) (k : Unit → PAct) :
    Gen.RawMutexLock_lock_no_inline fuel k =
      .askB .parEq1 fun b1 => (if b1 then loopN fuel (fun _u continue_ => condB (k ()) (.eff .yieldStd (continue_ ()))) ()
        else forN 4 (fun next_ => condB (k ()) (.eff .spinHint (next_ ()))) (fun _ => loopN fuel (outerBody (k ())) 8)) := rfl

/-- Parallelism 1: `while !cond() { yield_now_std() }`. -/
theorem par1_loop (K : PAct) (hK : MConf mo0 mc0 par1 Q K .inCS) (fuel : Nat) :
    MConf mo0 mc0 par1 Q (loopN fuel (fun _u continue_ => condB K (.eff .yieldStd (continue_ ()))) ()) (.spin .par1Cond) := by
  induction fuel with
  | zero => exact MConf.diverge
  | succ n ih =>
    rw [loopN_succ]
    apply MConf.casSpin (p := .par1Cond) rfl
    · exact hK
    · intro v
      exact MConf.aux (p := .par1Yield) rfl rfl ih

/-- Where the short phase is after `i` failed iterations. -/
def shortPos (i : Nat) : Pc := if i < 4 then .spin (.shortCond i) else .spin (.yieldNow 8)

/-- The short phase: `for _ in 0..SPINS/2 { if cond() { return }; spin_hint() }`. -/
theorem short_phase (K : PAct) (rest : Unit → PAct) (hK : MConf mo0 mc0 par1 Q K .inCS)
    (hrest : MConf mo0 mc0 par1 Q (rest ()) (.spin (.yieldNow 8))) :
    ∀ n i, i + n = 4 → MConf mo0 mc0 par1 Q (forN n (fun next_ => condB K (.eff .spinHint (next_ ()))) rest) (shortPos i) := by
  intro n
  induction n with
  | zero =>
    intro i hi
    have : i = 4 := by omega
    subst this
    exact hrest
  | succ n ih =>
    intro i hi
    have hlt : i < 4 := by omega
    rw [forN_succ, shortPos, if_pos hlt]
    apply MConf.casSpin (p := .shortCond i) rfl
    · exact hK
    · intro v
      apply MConf.aux (p := .shortHint i) rfl rfl
      have := ih (i + 1) (by omega)
      simp only [shortPos] at this
      simp only [SpinPc.afterAux]
      by_cases h : i + 1 < 4
      · rw [if_pos h] at this ⊢; exact this
      · rw [if_neg h] at this ⊢; exact this

/-- `for _ in 0..spins { if cond() { return } }` of the spinning round, from its `j`-th `cond()`. -/
theorem condA_for (sp : Nat) (K : PAct) (rest : Unit → PAct) (hK : MConf mo0 mc0 par1 Q K .inCS)
    (hrest : MConf mo0 mc0 par1 Q (rest ()) (.spin (.sleepZ sp 0))) :
    ∀ n j, j + n = sp → MConf mo0 mc0 par1 Q (forN n (fun next_ => condB K (next_ ())) rest)
      (if j < sp then .spin (.condA sp j) else .spin (.sleepZ sp 0)) := by
  intro n
  induction n with
  | zero =>
    intro j hj
    rw [if_neg (by omega)]
    exact hrest
  | succ n ih =>
    intro j hj
    rw [forN_succ, if_pos (by omega)]
    apply MConf.casSpin (p := .condA sp j) rfl
    · exact hK
    · intro v
      have := ih (j + 1) (by omega)
      simp only [SpinPc.afterFail]
      by_cases h : j + 1 < sp
      · rw [if_pos h] at this ⊢; exact this
      · rw [if_neg h] at this ⊢; exact this

/-- … and of the `z`-th `sleep(0)` round. -/
theorem condZ_for (sp z : Nat) (K : PAct) (rest : Unit → PAct) (hK : MConf mo0 mc0 par1 Q K .inCS)
    (hrest : MConf mo0 mc0 par1 Q (rest ()) (.spin (if z + 1 < 2 then .sleepZ sp (z + 1) else .backoff sp))) :
    ∀ n j, j + n = sp → MConf mo0 mc0 par1 Q (forN n (fun next_ => condB K (next_ ())) rest)
      (if j < sp then .spin (.condZ sp z j) else .spin (if z + 1 < 2 then .sleepZ sp (z + 1) else .backoff sp)) := by
  intro n
  induction n with
  | zero =>
    intro j hj
    rw [if_neg (by omega)]
    exact hrest
  | succ n ih =>
    intro j hj
    rw [forN_succ, if_pos (by omega)]
    apply MConf.casSpin (p := .condZ sp z j) rfl
    · exact hK
    · intro v
      have := ih (j + 1) (by omega)
      simp only [SpinPc.afterFail]
      by_cases h : j + 1 < sp
      · rw [if_pos h] at this ⊢; exact this
      · rw [if_neg h] at this ⊢; exact this

theorem condA_for0 (sp : Nat) (hsp : 0 < sp) (K : PAct) (rest : Unit → PAct) (hK : MConf mo0 mc0 par1 Q K .inCS)
    (hrest : MConf mo0 mc0 par1 Q (rest ()) (.spin (.sleepZ sp 0))) :
    MConf mo0 mc0 par1 Q (forN sp (fun next_ => condB K (next_ ())) rest) (.spin (.condA sp 0)) := by
  have := condA_for sp K rest hK hrest sp 0 (by omega)
  rwa [if_pos hsp] at this

theorem condZ_for0 (sp z : Nat) (hsp : 0 < sp) (K : PAct) (rest : Unit → PAct) (hK : MConf mo0 mc0 par1 Q K .inCS)
    (hrest : MConf mo0 mc0 par1 Q (rest ()) (.spin (if z + 1 < 2 then .sleepZ sp (z + 1) else .backoff sp))) :
    MConf mo0 mc0 par1 Q (forN sp (fun next_ => condB K (next_ ())) rest) (.spin (.condZ sp z 0)) := by
  have := condZ_for sp z K rest hK hrest sp 0 (by omega)
  rwa [if_pos hsp] at this

/-- `sleep(1 ms)` and the geometric back-off: `if spins < (1 << 30) { spins <<= 1 }`. -/
theorem backoff_step (sp : Nat) (hsp : 0 < sp) (c : Nat → PAct)
    (hc : ∀ sp', 0 < sp' → MConf mo0 mc0 par1 Q (c sp') (.spin (.yieldNow sp'))) :
    MConf mo0 mc0 par1 Q (if decide (sp < (1 <<< 30)) then .eff .sleep (c (sp <<< 1)) else .eff .sleep (c sp))
      (.spin (.backoff sp)) := by
  have h30 : (1 <<< 30 : Nat) = 1073741824 := by decide
  have h2 : sp <<< 1 = 2 * sp := by rw [Nat.shiftLeft_eq]; omega
  by_cases h : sp < 1073741824
  · have hd : decide (sp < (1 <<< 30)) = true := by rw [h30]; exact decide_eq_true h
    rw [hd, if_pos rfl, h2]
    apply MConf.aux (p := .backoff sp) rfl rfl
    have e : (SpinPc.backoff sp).afterAux mc0 = .yieldNow (2 * sp) := by simp [SpinPc.afterAux, h]
    rw [e]
    exact hc _ (by omega)
  · have hd : decide (sp < (1 <<< 30)) = false := by rw [h30]; exact decide_eq_false h
    rw [hd, if_neg (by simp)]
    apply MConf.aux (p := .backoff sp) rfl rfl
    have e : (SpinPc.backoff sp).afterAux mc0 = .yieldNow sp := by simp [SpinPc.afterAux, h]
    rw [e]
    exact hc _ hsp

/-- The outer loop of `spin_cond` (parallelism > 1) with geometric back-off, for any current `spins > 0`. -/
theorem outer_loop (K : PAct) (hK : MConf mo0 mc0 par1 Q K .inCS) (fuel : Nat) :
    ∀ sp, 0 < sp → MConf mo0 mc0 par1 Q (loopN fuel (outerBody K) sp) (.spin (.yieldNow sp)) := by
  induction fuel with
  | zero => intro sp _; exact MConf.diverge
  | succ n ih =>
    intro sp hsp
    rw [loopN_succ]
    have eY : (SpinPc.yieldNow sp).afterAux mc0 = .condA sp 0 := by simp [SpinPc.afterAux, hsp]
    have eZ : ∀ z, (SpinPc.sleepZ sp z).afterAux mc0 = .condZ sp z 0 := by intro z; simp [SpinPc.afterAux, hsp]
    show MConf mo0 mc0 par1 Q (outerBody K sp (loopN n (outerBody K))) _
    unfold outerBody
    -- `yield_now()`, then the spinning round
    apply MConf.aux (p := .yieldNow sp) rfl rfl
    rw [eY]
    apply condA_for0 sp hsp K _ hK
    -- first `sleep(0)` round
    apply MConf.aux (p := .sleepZ sp 0) rfl rfl
    rw [eZ]
    apply condZ_for0 sp 0 hsp K _ hK
    -- second `sleep(0)` round
    show MConf mo0 mc0 par1 Q _ (.spin (.sleepZ sp 1))
    apply MConf.aux (p := .sleepZ sp 1) rfl rfl
    rw [eZ]
    apply condZ_for0 sp 1 hsp K _ hK
    -- `sleep(1 ms)` and the back-off
    show MConf mo0 mc0 par1 Q _ (.spin (.backoff sp))
    exact backoff_step sp hsp _ ih

/-- **`lock_no_inline`** = `spin_cond(|| self.try_lock())`, from the entry point of the spin loop, for both
    answers of `get_parallelism() == 1`. -/
theorem lock_no_inline_conf0 (fuel : Nat) (k : Unit → PAct) (hk : MConf mo0 mc0 par1 Q (k ()) .inCS) :
    MConf mo0 mc0 par1 Q (Gen.RawMutexLock_lock_no_inline fuel k) (.spin (SpinPc.entry mc0 par1)) := by
  rw [lock_no_inline_eq]
  apply MConf.askPar
  cases par1
  · exact short_phase (k ()) _ hk (outer_loop (k ()) hk fuel 8 (by decide)) 4 0 rfl
  · exact par1_loop (k ()) hk fuel

/-- **`lock`**: fast-path CAS, then `lock_no_inline`; it returns holding the lock. -/
theorem lock_conf0 (fuel : Nat) (k : Unit → PAct) (hk : MConf mo0 mc0 par1 Q (k ()) .inCS) :
    MConf mo0 mc0 par1 Q (Gen.RawMutexLock_lock fuel k) .lockFast := by
  unfold Gen.RawMutexLock_lock Gen.RawMutexLock_try_lock
  apply MConf.casFast
  · exact hk
  · intro v
    exact lock_no_inline_conf0 fuel (fun _ => k ()) hk

end lock

/-! ### The statements for the extracted orderings and constants -/
section tree
open C07 (treeOrds)

variable {Q : Option Bool → WKind → WPc → Prop}

/-- **`Signal::wait`** conforms to the sync waiter of `SigM` from its spin phase. -/
theorem wait_conf (fuel : Nat) (k : Bool → PAct)
    (hk : ∀ v b, v ≠ .locked → WConf treeOrds Q (k (St.toNat v == 0)) .sync (.done v b)) :
    WConf treeOrds Q (Gen.Signal_wait fuel .sync k) .sync .spin := by
  rw [treeOrds_eq] at hk ⊢; exact wait_conf0 fuel k hk

/-- **`Signal::wait_timeout`** conforms to the timed waiter (both answers of `get_parallelism() > 1`). -/
theorem wait_timeout_conf (fuel : Nat) (wk : WakerKind) (k : Bool → PAct)
    (hk : ∀ v b, v.isFinal = true → WConf treeOrds Q (k (St.toNat v == 0)) .timed (.done v b))
    (hk' : WConf treeOrds Q (k false) .timed .timedIsTerm) :
    WConf treeOrds Q (Gen.Signal_wait_timeout fuel wk k) .timed .spin := by
  rw [treeOrds_eq] at hk hk' ⊢; exact wait_timeout_conf0 fuel wk k hk hk'

/-- **`Signal::is_terminated`** conforms to `wTimedIsTerm`. -/
theorem is_terminated_conf (fuel : Nat) (wk : WakerKind) (k : Bool → PAct)
    (hkt : WConf treeOrds Q (k true) .timed (.done .terminated false))
    (hkf : WConf treeOrds Q (k false) .sync .spin) :
    WConf treeOrds Q (Gen.Signal_is_terminated fuel wk k) .timed .timedIsTerm := by
  rw [treeOrds_eq] at hkt hkf ⊢; exact is_terminated_conf0 fuel wk k hkt hkf

/-- **`Signal::poll`** conforms to one load (+ fence) of the spin phase. -/
theorem poll_conf (fuel : Nat) (wk : WakerKind) (kind : WKind) (k : Option Bool → PAct)
    (hk : ∀ v b, v.isFinal = true → WConf treeOrds Q (k (some (St.toNat v == 0))) kind (.done v b))
    (hk' : WConf treeOrds Q (k none) kind .spin) :
    WConf treeOrds Q (Gen.Signal_poll fuel wk k) kind .spin := by
  rw [treeOrds_eq] at hk hk' ⊢; exact poll_conf0 fuel wk kind k hk hk'

/-- **`Signal::async_blocking_wait`** conforms to the spin phase. -/
theorem async_blocking_wait_conf (fuel : Nat) (wk : WakerKind) (kind : WKind) (k : Bool → PAct)
    (hk : ∀ v b, v.isFinal = true → WConf treeOrds Q (k (St.toNat v == 0)) kind (.done v b)) :
    WConf treeOrds Q (Gen.Signal_async_blocking_wait fuel wk k) kind .spin := by
  rw [treeOrds_eq] at hk ⊢; exact async_blocking_wait_conf0 fuel wk kind k hk

/-- **`Signal::wake`** conforms to the peer of `SigM` from the pc at which a peer without payload starts
    (`cas` for a sync / timed waiter, `cloneWaker` for a future). -/
theorem wake_conf (fuel : Nat) (fin : St) (kind : WKind) (k : Unit → PAct)
    (hk : PConf treeOrds fin (k ()) kind .done) :
    PConf treeOrds fin (Gen.Signal_wake fuel (wkOf kind) (St.toNat fin) k) kind
      (if kind = .async then .cloneWaker else .cas) := by
  rw [treeOrds_eq] at hk ⊢; exact wake_conf0 fuel fin kind k hk

theorem send_conf (fuel : Nat) (kind : WKind) (k : Unit → PAct) (hk : PConf treeOrds .unlocked (k ()) kind .done) :
    PConf treeOrds .unlocked (Gen.Signal_send fuel (wkOf kind) k) kind .access := by
  rw [treeOrds_eq] at hk ⊢; exact send_conf0 fuel kind k hk

theorem send_copy_conf (fuel : Nat) (kind : WKind) (k : Unit → PAct) (hk : PConf treeOrds .unlocked (k ()) kind .done) :
    PConf treeOrds .unlocked (Gen.Signal_send_copy fuel (wkOf kind) k) kind .access := by
  rw [treeOrds_eq] at hk ⊢; exact send_copy_conf0 fuel kind k hk

theorem recv_conf (fuel : Nat) (kind : WKind) (k : Unit → PAct) (hk : PConf treeOrds .unlocked (k ()) kind .done) :
    PConf treeOrds .unlocked (Gen.Signal_recv fuel (wkOf kind) k) kind .access := by
  rw [treeOrds_eq] at hk ⊢; exact recv_conf0 fuel kind k hk

theorem terminate_conf (fuel : Nat) (kind : WKind) (k : Unit → PAct) (hk : PConf treeOrds .terminated (k ()) kind .done) :
    PConf treeOrds .terminated (Gen.Signal_terminate fuel (wkOf kind) k) kind
      (if kind = .async then .cloneWaker else .cas) := by
  rw [treeOrds_eq] at hk ⊢; exact terminate_conf0 fuel kind k hk

/-- The peer's pc after `SigM.init` is where the peer-side theorems start. -/
theorem init_ppc (kind : WKind) (fin : St) (payload : Bool) :
    (SigM.init kind fin payload).ppc = if payload then .access else (if kind = .async then .cloneWaker else .cas) := rfl

variable {par1 : Bool} {R : Option Bool → Pc → Prop}

theorem try_lock_conf (fuel : Nat) (k : Bool → PAct)
    (hkt : MConf Tie.mutexOrds Tie.mutexConsts par1 R (k true) .inCS)
    (hkf : MConf Tie.mutexOrds Tie.mutexConsts par1 R (k false) .gaveUp) :
    MConf Tie.mutexOrds Tie.mutexConsts par1 R (Gen.RawMutexLock_try_lock fuel k) .tryOnce := by
  rw [mutexOrds_eq, mutexConsts_eq] at hkt hkf ⊢; exact try_lock_conf0 fuel k hkt hkf

theorem unlock_conf (fuel : Nat) (k : Unit → PAct) (hk : MConf Tie.mutexOrds Tie.mutexConsts par1 R (k ()) .idle) :
    MConf Tie.mutexOrds Tie.mutexConsts par1 R (Gen.RawMutexLock_unlock fuel k) .inCS := by
  rw [mutexOrds_eq, mutexConsts_eq] at hk ⊢; exact unlock_conf0 fuel k hk

/-- **`lock_no_inline`** = `spin_cond(|| try_lock())` conforms to the spin loop of `MutexM` — parallelism 1, short
    phase, spinning / `sleep(0)` rounds and geometric back-off — from its entry point. -/
theorem lock_no_inline_conf (fuel : Nat) (k : Unit → PAct)
    (hk : MConf Tie.mutexOrds Tie.mutexConsts par1 R (k ()) .inCS) :
    MConf Tie.mutexOrds Tie.mutexConsts par1 R (Gen.RawMutexLock_lock_no_inline fuel k)
      (.spin (SpinPc.entry Tie.mutexConsts par1)) := by
  rw [mutexOrds_eq, mutexConsts_eq] at hk ⊢; exact lock_no_inline_conf0 fuel k hk

/-- **`lock`** conforms to `MutexM` from `lockFast`, for both reported parallelisms; it returns in the critical section. -/
theorem lock_conf (fuel : Nat) (k : Unit → PAct)
    (hk : MConf Tie.mutexOrds Tie.mutexConsts par1 R (k ()) .inCS) :
    MConf Tie.mutexOrds Tie.mutexConsts par1 R (Gen.RawMutexLock_lock fuel k) .lockFast := by
  rw [mutexOrds_eq, mutexConsts_eq] at hk ⊢; exact lock_conf0 fuel k hk

end tree

/-- **Every generated protocol tree conforms to its model**, with the orderings and constants extracted from the
    source, for every fuel and every conforming continuation; the translator reported no problem. -/
theorem proto_conforms :
    Gen.protoProblems = [] ∧ Gen.protoNames.length = 23 ∧
    -- waiter side
    (∀ (Q : Option Bool → WKind → WPc → Prop) (fuel : Nat) (k : Bool → PAct),
      (∀ v b, v ≠ .locked → WConf C07.treeOrds Q (k (St.toNat v == 0)) .sync (.done v b)) →
      WConf C07.treeOrds Q (Gen.Signal_wait fuel .sync k) .sync .spin) ∧
    (∀ (Q : Option Bool → WKind → WPc → Prop) (fuel : Nat) (wk : WakerKind) (k : Bool → PAct),
      (∀ v b, v.isFinal = true → WConf C07.treeOrds Q (k (St.toNat v == 0)) .timed (.done v b)) →
      WConf C07.treeOrds Q (k false) .timed .timedIsTerm →
      WConf C07.treeOrds Q (Gen.Signal_wait_timeout fuel wk k) .timed .spin) ∧
    (∀ (Q : Option Bool → WKind → WPc → Prop) (fuel : Nat) (wk : WakerKind) (k : Bool → PAct),
      WConf C07.treeOrds Q (k true) .timed (.done .terminated false) →
      WConf C07.treeOrds Q (k false) .sync .spin →
      WConf C07.treeOrds Q (Gen.Signal_is_terminated fuel wk k) .timed .timedIsTerm) ∧
    (∀ (Q : Option Bool → WKind → WPc → Prop) (fuel : Nat) (wk : WakerKind) (kind : WKind) (k : Option Bool → PAct),
      (∀ v b, v.isFinal = true → WConf C07.treeOrds Q (k (some (St.toNat v == 0))) kind (.done v b)) →
      WConf C07.treeOrds Q (k none) kind .spin →
      WConf C07.treeOrds Q (Gen.Signal_poll fuel wk k) kind .spin) ∧
    (∀ (Q : Option Bool → WKind → WPc → Prop) (fuel : Nat) (wk : WakerKind) (kind : WKind) (k : Bool → PAct),
      (∀ v b, v.isFinal = true → WConf C07.treeOrds Q (k (St.toNat v == 0)) kind (.done v b)) →
      WConf C07.treeOrds Q (Gen.Signal_async_blocking_wait fuel wk k) kind .spin) ∧
    -- peer side
    (∀ (fuel : Nat) (fin : St) (kind : WKind) (k : Unit → PAct), PConf C07.treeOrds fin (k ()) kind .done →
      PConf C07.treeOrds fin (Gen.Signal_wake fuel (wkOf kind) (St.toNat fin) k) kind
        (if kind = .async then .cloneWaker else .cas)) ∧
    (∀ (fuel : Nat) (kind : WKind) (k : Unit → PAct), PConf C07.treeOrds .unlocked (k ()) kind .done →
      PConf C07.treeOrds .unlocked (Gen.Signal_send fuel (wkOf kind) k) kind .access ∧
      PConf C07.treeOrds .unlocked (Gen.Signal_send_copy fuel (wkOf kind) k) kind .access ∧
      PConf C07.treeOrds .unlocked (Gen.Signal_recv fuel (wkOf kind) k) kind .access) ∧
    (∀ (fuel : Nat) (kind : WKind) (k : Unit → PAct), PConf C07.treeOrds .terminated (k ()) kind .done →
      PConf C07.treeOrds .terminated (Gen.Signal_terminate fuel (wkOf kind) k) kind
        (if kind = .async then .cloneWaker else .cas)) ∧
    -- lock
    (∀ (par1 : Bool) (R : Option Bool → Pc → Prop) (fuel : Nat) (k : Bool → PAct),
      MConf Tie.mutexOrds Tie.mutexConsts par1 R (k true) .inCS →
      MConf Tie.mutexOrds Tie.mutexConsts par1 R (k false) .gaveUp →
      MConf Tie.mutexOrds Tie.mutexConsts par1 R (Gen.RawMutexLock_try_lock fuel k) .tryOnce) ∧
    (∀ (par1 : Bool) (R : Option Bool → Pc → Prop) (fuel : Nat) (k : Unit → PAct),
      MConf Tie.mutexOrds Tie.mutexConsts par1 R (k ()) .idle →
      MConf Tie.mutexOrds Tie.mutexConsts par1 R (Gen.RawMutexLock_unlock fuel k) .inCS) ∧
    (∀ (par1 : Bool) (R : Option Bool → Pc → Prop) (fuel : Nat) (k : Unit → PAct),
      MConf Tie.mutexOrds Tie.mutexConsts par1 R (k ()) .inCS →
      MConf Tie.mutexOrds Tie.mutexConsts par1 R (Gen.RawMutexLock_lock_no_inline fuel k)
        (.spin (SpinPc.entry Tie.mutexConsts par1)) ∧
      MConf Tie.mutexOrds Tie.mutexConsts par1 R (Gen.RawMutexLock_lock fuel k) .lockFast) :=
  ⟨rfl, rfl,
   fun _ fuel k hk => wait_conf fuel k hk,
   fun _ fuel wk k hk hk' => wait_timeout_conf fuel wk k hk hk',
   fun _ fuel wk k h1 h2 => is_terminated_conf fuel wk k h1 h2,
   fun _ fuel wk kind k hk hk' => poll_conf fuel wk kind k hk hk',
   fun _ fuel wk kind k hk => async_blocking_wait_conf fuel wk kind k hk,
   fun fuel fin kind k hk => wake_conf fuel fin kind k hk,
   fun fuel kind k hk => ⟨send_conf fuel kind k hk, send_copy_conf fuel kind k hk, recv_conf fuel kind k hk⟩,
   fun fuel kind k hk => terminate_conf fuel kind k hk,
   fun _ _ fuel k h1 h2 => try_lock_conf fuel k h1 h2,
   fun _ _ fuel k hk => unlock_conf fuel k hk,
   fun _ _ fuel k hk => ⟨lock_no_inline_conf fuel k hk, lock_conf fuel k hk⟩⟩

/-- Non-vacuity of the hypotheses on the continuations: with `k := done`, the whole call trees conform with the
    expected post-conditions (`wait` returns `v == UNLOCKED` at `done v b`; `lock` returns in the critical section;
    `send` ends with the peer done). -/
theorem proto_conforms_closed (fuel : Nat) :
    WConf C07.treeOrds (fun r kind pc => kind = .sync ∧ ∃ v b, pc = .done v b ∧ v ≠ .locked ∧ r = some (St.toNat v == 0))
      (Gen.Signal_wait fuel .sync fun r => .done (some r)) .sync .spin ∧
    (∀ kind, PConf C07.treeOrds .unlocked (Gen.Signal_send fuel (wkOf kind) fun _ => .done none) kind .access) ∧
    (∀ par1, MConf Tie.mutexOrds Tie.mutexConsts par1 (fun r pc => r = none ∧ pc = .inCS)
      (Gen.RawMutexLock_lock fuel fun _ => .done none) .lockFast) :=
  ⟨wait_conf fuel _ (fun v b hv => WConf.done ⟨rfl, v, b, rfl, hv, rfl⟩),
   fun kind => send_conf fuel kind _ PConf.done,
   fun _ => lock_conf fuel _ (MConf.done ⟨rfl, rfl⟩)⟩

end Kanal.TieProto

#print axioms Kanal.TieProto.treeOrds_eq
#print axioms Kanal.TieProto.mutexOrds_eq
#print axioms Kanal.TieProto.mutexConsts_eq
#print axioms Kanal.TieProto.protoProblems_eq
#print axioms Kanal.TieProto.protoNames_eq
#print axioms Kanal.TieProto.new_signal_eq
#print axioms Kanal.TieProto.will_wake_eq
#print axioms Kanal.TieProto.accessors_eq
#print axioms Kanal.TieProto.wait_conf
#print axioms Kanal.TieProto.wait_timeout_conf
#print axioms Kanal.TieProto.is_terminated_conf
#print axioms Kanal.TieProto.poll_conf
#print axioms Kanal.TieProto.async_blocking_wait_conf
#print axioms Kanal.TieProto.wake_conf
#print axioms Kanal.TieProto.send_conf
#print axioms Kanal.TieProto.send_copy_conf
#print axioms Kanal.TieProto.recv_conf
#print axioms Kanal.TieProto.terminate_conf
#print axioms Kanal.TieProto.try_lock_conf
#print axioms Kanal.TieProto.unlock_conf
#print axioms Kanal.TieProto.lock_no_inline_conf
#print axioms Kanal.TieProto.lock_conf
#print axioms Kanal.TieProto.proto_conforms
#print axioms Kanal.TieProto.proto_conforms_closed
