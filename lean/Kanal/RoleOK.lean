/-
  Kanal.RoleOK — "a waiter is served according to its role".

  `Kanal.Own` says that a call touches another thread's signal only if it popped it.  It does not say HOW it may touch
  it.  The wait list holds waiters of ONE role at a time: receivers iff `c.recvBlocking = true`, senders otherwise.  A
  popped waiter is either a blocked sender — its slot holds a value to be READ (`.askM (.sigRecv p) k`) — or a blocked
  receiver — its slot is to be WRITTEN (`.eff (.sigSend p m) k`); `.eff (.sigTerminate p) k` is fine for both.  Reading a
  receiver's slot yields an uninitialised value, writing into a sender's slot overwrites the value it offers.

  `RoleOK me t st` refines `Own me t st`: same bookkeeping (`cur` / `held` / `early`), but every signal in `held`
  carries the role it was popped with (`true` = receiver = the value of `recvBlocking` in the state the popping section
  bound), and every peer effect must fit the role:

  * under the lock with `cur = some c`: `sigRecv p` needs `p ∈ c.waitList ∧ c.recvBlocking = false`, `sigSend p m` needs
    `p ∈ c.waitList ∧ c.recvBlocking = true`, `sigTerminate p` needs `p ∈ c.waitList`;
  * at `unlock c1 k` the signals that left the list go to `held` tagged with `c.recvBlocking`;
  * outside the lock: `sigRecv p` needs `(p, false) ∈ held`, `sigSend p m` needs `(p, true) ∈ held`, `sigTerminate p`
    needs `(p, b) ∈ held` for some `b`; each use removes the entry;
  * `ret`, `lock`, `tryLock` as in `Own` (with `Own`'s two adjustments: `Nodup` wait lists, the caller's own `me`).

  No rule had to be adjusted: every tree of `Kanal.Fine` satisfies the rules as stated in the task.

  Results: `roleok_fine_me`, `roleok_fine`, one lemma per `Fine` function, `roleok_own : RoleOK me t st → Own me t (forget st)`,
  the restatements on the translated source (`Kanal.RoleOK.Code.*`, via `TieCode`), and the negative theorems
  `badDrain_own` / `badDrain_not_roleok` (a `drain_into` that pops the head of the list whatever the flag says) and
  `badTrySend_own` / `badTrySend_not_roleok` (a `try_send` that writes into whatever waiter heads the list): both trees
  satisfy `Own` and are rejected by `RoleOK`.
-/
import Kanal.TieDiscipline

namespace Kanal
namespace RoleOK
open Chan Machine Own

/-- bookkeeping while walking a tree: `Own.OwnSt` with a role on every held signal (`true` = a blocked receiver) -/
structure RoleSt where
  /-- the state bound by the critical section in progress (`none` = the thread does not hold the lock) -/
  cur   : Option Chan := none
  /-- signals this call has taken out of the wait list and not yet used, with the role they were popped with -/
  held  : List (SigId × Bool) := []
  /-- signals used inside the section in progress -/
  early : List SigId := []

/-- forget the roles -/
def forget (st : RoleSt) : OwnSt := { cur := st.cur, held := st.held.map Prod.fst, early := st.early }

/-- the signals of `l`, all with role `b` -/
def tag (b : Bool) (l : List SigId) : List (SigId × Bool) := l.map fun p => (p, b)

@[simp] theorem tag_nil (b : Bool) : tag b [] = [] := rfl
@[simp] theorem tag_cons (b : Bool) (p : SigId) (l : List SigId) : tag b (p :: l) = (p, b) :: tag b l := rfl

theorem mem_tag {b : Bool} {l : List SigId} {e : SigId × Bool} : e ∈ tag b l ↔ e.1 ∈ l ∧ e.2 = b := by
  obtain ⟨p, r⟩ := e
  unfold tag
  simp only [List.mem_map, Prod.mk.injEq]
  constructor
  · rintro ⟨a, ha, rfl, rfl⟩; exact ⟨ha, rfl⟩
  · rintro ⟨ha, rfl⟩; exact ⟨p, ha, rfl, rfl⟩

@[simp] theorem forall_tag {b : Bool} {l : List SigId} {s : SigId} : (∀ e ∈ tag b l, e.1 = s) ↔ ∀ p ∈ l, p = s :=
  ⟨fun h p hp => h (p, b) (mem_tag.mpr ⟨hp, rfl⟩), fun h e he => h e.1 (mem_tag.mp he).1⟩

@[simp] theorem tag_fst (b : Bool) (l : List SigId) : (tag b l).map Prod.fst = l := by
  induction l with
  | nil => rfl
  | cons a l ih => simp [ih]

/-- `RoleOK me t st`: `Own me t st`, and every peer effect fits the role of the waiter it touches. -/
inductive RoleOK (me : SigId) : Act → RoleSt → Prop where
  | ret {r st} : st.cur = none → (∀ e ∈ st.held, e.1 = me) → RoleOK me (.ret r) st
  | diverge {st} : RoleOK me .diverge st
  | lock {k st} : st.cur = none → st.early = [] →
      (∀ c, c.waitList.Nodup → RoleOK me (k c) { st with cur := some c }) → RoleOK me (.lock k) st
  | tryLock {k st} : st.cur = none → st.early = [] →
      (∀ c, c.waitList.Nodup → RoleOK me (k (some c)) { st with cur := some c }) → RoleOK me (k none) st →
      RoleOK me (.tryLock k) st
  /-- what left the list is held with the role the list had: `c.recvBlocking` -/
  | unlock {c1 k st c} : st.cur = some c → (∀ p ∈ st.early, p ∉ c1.waitList) →
      RoleOK me k { cur := none, early := [], held := st.held ++ tag c.recvBlocking (popped c c1 st.early) } →
      RoleOK me (.unlock c1 k) st
  /-- WRITE into a waiter's slot under the lock: the list holds receivers -/
  | sendIn {p m k st c} : st.cur = some c → p ∈ c.waitList → c.recvBlocking = true → p ∉ st.early →
      RoleOK me k { st with early := p :: st.early } → RoleOK me (.eff (.sigSend p m) k) st
  /-- WRITE into a popped waiter's slot: it was popped as a receiver -/
  | sendOut {p m k st} : st.cur = none → (p, true) ∈ st.held →
      RoleOK me k { st with held := st.held.erase (p, true) } → RoleOK me (.eff (.sigSend p m) k) st
  /-- terminate: either role -/
  | termIn {p k st c} : st.cur = some c → p ∈ c.waitList → p ∉ st.early →
      RoleOK me k { st with early := p :: st.early } → RoleOK me (.eff (.sigTerminate p) k) st
  | termOut {p b k st} : st.cur = none → (p, b) ∈ st.held →
      RoleOK me k { st with held := st.held.erase (p, b) } → RoleOK me (.eff (.sigTerminate p) k) st
  | eff {e k st} : effPeer e = none → RoleOK me k st → RoleOK me (.eff e k) st
  /-- READ a waiter's slot under the lock: the list holds senders -/
  | recvIn {p k st c} : st.cur = some c → p ∈ c.waitList → c.recvBlocking = false → p ∉ st.early →
      (∀ m, RoleOK me (k m) { st with early := p :: st.early }) → RoleOK me (.askM (.sigRecv p) k) st
  /-- READ a popped waiter's slot: it was popped as a sender -/
  | recvOut {p k st} : st.cur = none → (p, false) ∈ st.held →
      (∀ m, RoleOK me (k m) { st with held := st.held.erase (p, false) }) → RoleOK me (.askM (.sigRecv p) k) st
  | askM {q k st} : askPeer q = none → (∀ m, RoleOK me (k m) st) → RoleOK me (.askM q k) st
  | askB {q k st} : (∀ b, RoleOK me (k b) st) → RoleOK me (.askB q k) st
  | askP {k st} : (∀ r, RoleOK me (k r) st) → RoleOK me (.askP k) st

variable {me : SigId}

/-! ### `RoleOK` as rewriting rules -/

theorem forall_map_fst {h : List (SigId × Bool)} {s : SigId} : (∀ p ∈ h.map Prod.fst, p = s) ↔ ∀ e ∈ h, e.1 = s :=
  ⟨fun f e he => f e.1 (List.mem_map.mpr ⟨e, he, rfl⟩), fun f p hp => by
    obtain ⟨e, he, rfl⟩ := List.mem_map.mp hp; exact f e he⟩

/-- (stated over `h.map Prod.fst` so that `simp` does not split the pairs) -/
@[simp] theorem role_ret {r cur h ea} : RoleOK me (.ret r) ⟨cur, h, ea⟩ ↔ cur = none ∧ ∀ p ∈ h.map Prod.fst, p = me := by
  rw [forall_map_fst]
  exact ⟨fun x => by cases x with | ret a b => exact ⟨a, b⟩, fun ⟨a, b⟩ => RoleOK.ret a b⟩
@[simp] theorem role_diverge {st} : RoleOK me .diverge st ↔ True := ⟨fun _ => trivial, fun _ => RoleOK.diverge⟩
@[simp] theorem role_lock {k cur h ea} : RoleOK me (.lock k) ⟨cur, h, ea⟩ ↔
    cur = none ∧ ea = [] ∧ ∀ c, c.waitList.Nodup → RoleOK me (k c) ⟨some c, h, []⟩ :=
  ⟨fun x => by cases x with | lock a b f => cases b; exact ⟨a, rfl, f⟩,
   fun ⟨a, b, f⟩ => by subst b; exact RoleOK.lock a rfl f⟩
@[simp] theorem role_tryLock {k cur h ea} : RoleOK me (.tryLock k) ⟨cur, h, ea⟩ ↔
    cur = none ∧ ea = [] ∧ (∀ c, c.waitList.Nodup → RoleOK me (k (some c)) ⟨some c, h, []⟩) ∧ RoleOK me (k none) ⟨none, h, []⟩ :=
  ⟨fun x => by
    cases x with
    | tryLock a b f g =>
      simp only at a b
      subst a; subst b; exact ⟨rfl, rfl, f, g⟩,
   fun ⟨a, b, f, g⟩ => by subst a; subst b; exact RoleOK.tryLock rfl rfl f g⟩
@[simp] theorem role_unlock {c1 k c h ea} : RoleOK me (.unlock c1 k) ⟨some c, h, ea⟩ ↔
    (∀ p ∈ ea, p ∉ c1.waitList) ∧ RoleOK me k ⟨none, h ++ tag c.recvBlocking (popped c c1 ea), []⟩ :=
  ⟨fun x => by cases x with | unlock a b f => cases a; exact ⟨b, f⟩, fun ⟨b, f⟩ => RoleOK.unlock rfl b f⟩
@[simp] theorem role_unlock_none {c1 k h ea} : RoleOK me (.unlock c1 k) ⟨none, h, ea⟩ ↔ False :=
  ⟨fun x => by cases x with | unlock a b f => (cases a), False.elim⟩

@[simp] theorem role_sigSend_in {p m k c h ea} : RoleOK me (.eff (.sigSend p m) k) ⟨some c, h, ea⟩ ↔
    p ∈ c.waitList ∧ c.recvBlocking = true ∧ p ∉ ea ∧ RoleOK me k ⟨some c, h, p :: ea⟩ :=
  ⟨fun x => by
    cases x with
    | sendIn a b c d f => cases a; exact ⟨b, c, d, f⟩
    | sendOut a => cases a
    | eff a => (cases a),
   fun ⟨b, c, d, f⟩ => RoleOK.sendIn rfl b c d f⟩
@[simp] theorem role_sigSend_out {p m k h ea} : RoleOK me (.eff (.sigSend p m) k) ⟨none, h, ea⟩ ↔
    (p, true) ∈ h ∧ RoleOK me k ⟨none, h.erase (p, true), ea⟩ :=
  ⟨fun x => by
    cases x with
    | sendIn a => cases a
    | sendOut a b f => exact ⟨b, f⟩
    | eff a => (cases a),
   fun ⟨b, f⟩ => RoleOK.sendOut rfl b f⟩
@[simp] theorem role_sigTerminate_in {p k c h ea} : RoleOK me (.eff (.sigTerminate p) k) ⟨some c, h, ea⟩ ↔
    p ∈ c.waitList ∧ p ∉ ea ∧ RoleOK me k ⟨some c, h, p :: ea⟩ :=
  ⟨fun x => by
    cases x with
    | termIn a b d f => cases a; exact ⟨b, d, f⟩
    | termOut a => cases a
    | eff a => (cases a),
   fun ⟨b, d, f⟩ => RoleOK.termIn rfl b d f⟩
@[simp] theorem role_sigTerminate_out {p k h ea} : RoleOK me (.eff (.sigTerminate p) k) ⟨none, h, ea⟩ ↔
    ∃ b, (p, b) ∈ h ∧ RoleOK me k ⟨none, h.erase (p, b), ea⟩ :=
  ⟨fun x => by
    cases x with
    | termIn a => cases a
    | termOut a b f => exact ⟨_, b, f⟩
    | eff a => (cases a),
   fun ⟨_, b, f⟩ => RoleOK.termOut rfl b f⟩
@[simp] theorem role_sigRecv_in {p k c h ea} : RoleOK me (.askM (.sigRecv p) k) ⟨some c, h, ea⟩ ↔
    p ∈ c.waitList ∧ c.recvBlocking = false ∧ p ∉ ea ∧ ∀ m, RoleOK me (k m) ⟨some c, h, p :: ea⟩ :=
  ⟨fun x => by
    cases x with
    | recvIn a b c d f => cases a; exact ⟨b, c, d, f⟩
    | recvOut a => cases a
    | askM a => (cases a),
   fun ⟨b, c, d, f⟩ => RoleOK.recvIn rfl b c d f⟩
@[simp] theorem role_sigRecv_out {p k h ea} : RoleOK me (.askM (.sigRecv p) k) ⟨none, h, ea⟩ ↔
    (p, false) ∈ h ∧ ∀ m, RoleOK me (k m) ⟨none, h.erase (p, false), ea⟩ :=
  ⟨fun x => by
    cases x with
    | recvIn a => cases a
    | recvOut a b f => exact ⟨b, f⟩
    | askM a => (cases a),
   fun ⟨b, f⟩ => RoleOK.recvOut rfl b f⟩

theorem role_eff_other {e k st} (hp : effPeer e = none) : RoleOK me (.eff e k) st ↔ RoleOK me k st :=
  ⟨fun x => by
    cases x with
    | sendIn => cases hp
    | sendOut => cases hp
    | termIn => cases hp
    | termOut => cases hp
    | eff a f => exact f, RoleOK.eff hp⟩

theorem role_askM_other {q k st} (hp : askPeer q = none) : RoleOK me (.askM q k) st ↔ ∀ m, RoleOK me (k m) st :=
  ⟨fun x => by
    cases x with
    | recvIn => cases hp
    | recvOut => cases hp
    | askM a f => exact f, RoleOK.askM hp⟩

@[simp] theorem role_readLocal {k st} : RoleOK me (.askM .readLocal k) st ↔ ∀ m, RoleOK me (k m) st := role_askM_other rfl
@[simp] theorem role_readRet {k st} : RoleOK me (.askM .readRet k) st ↔ ∀ m, RoleOK me (k m) st := role_askM_other rfl
@[simp] theorem role_readSigPtr {k st} : RoleOK me (.askM .readSigPtr k) st ↔ ∀ m, RoleOK me (k m) st := role_askM_other rfl
@[simp] theorem role_askB {q k st} : RoleOK me (.askB q k) st ↔ ∀ b, RoleOK me (k b) st :=
  ⟨fun x => by cases x with | askB f => exact f, RoleOK.askB⟩
@[simp] theorem role_askP {k st} : RoleOK me (.askP k) st ↔ ∀ r, RoleOK me (k r) st :=
  ⟨fun x => by cases x with | askP f => exact f, RoleOK.askP⟩

/-- every effect other than `sigSend` / `sigTerminate` passes through -/
@[simp] theorem role_wrapData {k st} : RoleOK me (.eff .wrapData k) st ↔ RoleOK me k st := role_eff_other rfl
@[simp] theorem role_wrapTaken {k st} : RoleOK me (.eff .wrapTaken k) st ↔ RoleOK me k st := role_eff_other rfl
@[simp] theorem role_newSendSig {k st} : RoleOK me (.eff .newSendSig k) st ↔ RoleOK me k st := role_eff_other rfl
@[simp] theorem role_newRetSlot {k st} : RoleOK me (.eff .newRetSlot k) st ↔ RoleOK me k st := role_eff_other rfl
@[simp] theorem role_newRecvSig {k st} : RoleOK me (.eff .newRecvSig k) st ↔ RoleOK me k st := role_eff_other rfl
@[simp] theorem role_readClock {k st} : RoleOK me (.eff .readClock k) st ↔ RoleOK me k st := role_eff_other rfl
@[simp] theorem role_dropDataE {k st} : RoleOK me (.eff .dropData k) st ↔ RoleOK me k st := role_eff_other rfl
@[simp] theorem role_giveBack {k st} : RoleOK me (.eff .giveBack k) st ↔ RoleOK me k st := role_eff_other rfl
@[simp] theorem role_dropLocalE {k st} : RoleOK me (.eff .dropLocal k) st ↔ RoleOK me k st := role_eff_other rfl
@[simp] theorem role_setState {s k st} : RoleOK me (.eff (.setState s) k) st ↔ RoleOK me k st := role_eff_other rfl
@[simp] theorem role_setPtr {k st} : RoleOK me (.eff .setPtr k) st ↔ RoleOK me k st := role_eff_other rfl
@[simp] theorem role_registerWaker {k st} : RoleOK me (.eff .registerWaker k) st ↔ RoleOK me k st := role_eff_other rfl
@[simp] theorem role_rearmSig {k st} : RoleOK me (.eff .rearmSig k) st ↔ RoleOK me k st := role_eff_other rfl
@[simp] theorem role_setTerminated {k st} : RoleOK me (.eff .setTerminated k) st ↔ RoleOK me k st := role_eff_other rfl
@[simp] theorem role_vecReserve {n k st} : RoleOK me (.eff (.vecReserve n) k) st ↔ RoleOK me k st := role_eff_other rfl
@[simp] theorem role_vecPush {m k st} : RoleOK me (.eff (.vecPush m) k) st ↔ RoleOK me k st := role_eff_other rfl
@[simp] theorem role_takeData {k st} : RoleOK me (.eff .takeData k) st ↔ RoleOK me k st := role_eff_other rfl
@[simp] theorem role_readLocalE {k st} : RoleOK me (.eff .readLocal k) st ↔ RoleOK me k st := role_eff_other rfl
@[simp] theorem role_unknown {s k st} : RoleOK me (.eff (.unknown s) k) st ↔ RoleOK me k st := role_eff_other rfl

@[simp] theorem role_ite {c : Prop} [Decidable c] {t e : Act} {st} :
    RoleOK me (if c then t else e) st ↔ (c → RoleOK me t st) ∧ (¬ c → RoleOK me e st) := by
  split <;> simp [*]

/-! ### `RoleOK` refines `Own` -/

theorem map_fst_erase {p : SigId} {b : Bool} : ∀ {l : List (SigId × Bool)}, (p, b) ∈ l →
    ((l.erase (p, b)).map Prod.fst).Perm ((l.map Prod.fst).erase p) := by
  intro l
  induction l with
  | nil => intro h; simp at h
  | cons a l ih =>
    intro h
    by_cases ha : a = (p, b)
    · subst ha; simp
    · have hl : (p, b) ∈ l := by
        rcases List.mem_cons.mp h with e | e
        · exact absurd e.symm ha
        · exact e
      rw [List.erase_cons_tail (by simpa using ha)]
      simp only [List.map_cons]
      by_cases hp : a.1 = p
      · rw [hp, List.erase_cons_head]
        have hm : p ∈ l.map Prod.fst := List.mem_map.mpr ⟨(p, b), hl, rfl⟩
        exact ((ih hl).cons p).trans (List.perm_cons_erase hm).symm
      · rw [List.erase_cons_tail (by simpa using hp)]
        exact (ih hl).cons _

theorem roleok_own_aux {t : Act} {st : RoleSt} (h : RoleOK me t st) :
    ∀ h' : List SigId, h'.Perm (st.held.map Prod.fst) → Own me t ⟨st.cur, h', st.early⟩ := by
  induction h with
  | ret a b =>
    intro h' hp
    refine Own.ret a fun p hm => ?_
    obtain ⟨e, he, rfl⟩ := List.mem_map.mp (hp.mem_iff.mp hm)
    exact b e he
  | diverge => intro _ _; exact Own.diverge
  | lock a b _ ih => intro h' hp; exact Own.lock a b fun c hc => ih c hc h' hp
  | tryLock a b _ _ ih1 ih2 => intro h' hp; exact Own.tryLock a b (fun c hc => ih1 c hc h' hp) (ih2 h' hp)
  | unlock a b _ ih =>
    intro h' hp
    refine Own.unlock a b (ih _ ?_)
    simp only [List.map_append, tag_fst]
    exact hp.append_right _
  | sendIn a b _ d _ ih => intro h' hp; exact Own.effIn rfl a b d (ih h' hp)
  | sendOut a b _ ih =>
    intro h' hp
    exact Own.effOut rfl a (hp.mem_iff.mpr (List.mem_map.mpr ⟨_, b, rfl⟩)) (ih _ ((hp.erase _).trans (map_fst_erase b).symm))
  | termIn a b d _ ih => intro h' hp; exact Own.effIn rfl a b d (ih h' hp)
  | termOut a b _ ih =>
    intro h' hp
    exact Own.effOut rfl a (hp.mem_iff.mpr (List.mem_map.mpr ⟨_, b, rfl⟩)) (ih _ ((hp.erase _).trans (map_fst_erase b).symm))
  | eff a _ ih => intro h' hp; exact Own.eff a (ih h' hp)
  | recvIn a b _ d _ ih => intro h' hp; exact Own.askMIn rfl a b d fun m => ih m h' hp
  | recvOut a b _ ih =>
    intro h' hp
    exact Own.askMOut rfl a (hp.mem_iff.mpr (List.mem_map.mpr ⟨_, b, rfl⟩))
      fun m => ih m _ ((hp.erase _).trans (map_fst_erase b).symm)
  | askM a _ ih => intro h' hp; exact Own.askM a fun m => ih m h' hp
  | askB _ ih => intro h' hp; exact Own.askB fun b => ih b h' hp
  | askP _ ih => intro h' hp; exact Own.askP fun r => ih r h' hp

/-- **`RoleOK` refines `Own`**: forget the roles. -/
theorem roleok_own {t : Act} {st : RoleSt} (h : RoleOK me t st) : Own me t (forget st) :=
  roleok_own_aux h _ (List.Perm.refl _)

/-! ### the `Chan` functions: the role of what they pop -/

theorem nextRecv_role {c c1 : Chan} {p : SigId} (h : c.nextRecv = (c1, some p)) : c.recvBlocking = true := by
  unfold Chan.nextRecv at h
  split at h
  · simp at h
  · rename_i hc; simpa using hc

theorem nextSend_role {c c1 : Chan} {p : SigId} (h : c.nextSend = (c1, some p)) : c.recvBlocking = false := by
  unfold Chan.nextSend at h
  split at h
  · simp at h
  · rename_i hc; simpa using hc

theorem sendPre_role {c c1 : Chan} {m : Msg} {r : SigId} (h : c.sendPre m = (c1, .handoff r)) : c.recvBlocking = true := by
  unfold Chan.sendPre at h
  split at h
  · split at h <;> simp at h
  · split at h
    · rename_i c2 first hn; exact nextRecv_role hn
    · split at h <;> simp at h

theorem sendCS_role {c c1 : Chan} {m : Msg} {s r : SigId} (h : c.sendCS m s = (c1, .handoff r)) : c.recvBlocking = true := by
  unfold Chan.sendCS at h
  rcases hp : c.sendPre m with ⟨c2, br2⟩
  rw [hp] at h
  cases br2 <;> simp at h
  obtain ⟨rfl, rfl⟩ := h
  exact sendPre_role hp

/-- `drain_into` takes senders out only when the list holds senders -/
theorem drainCS_role {c c1 : Chan} {q : List Msg} {l : List SigId} {n : Nat} (h : c.drainCS = some (c1, q, l, n)) :
    ∀ p ∈ l, c.recvBlocking = false := by
  unfold Chan.drainCS Chan.popAllSenders at h
  split at h
  · simp at h
  · simp at h
    split at h
    · simp at h; obtain ⟨_, _, rfl, _⟩ := h; simp
    · rename_i hc; intro _ _; simpa using hc

/-! ### the combinators of `Fine` -/

@[simp] theorem role_dropData (k : Act) {st} : RoleOK me (Fine.dropData k) st ↔ RoleOK me k st := by
  unfold Fine.dropData; simp
@[simp] theorem role_dropLocal (k : Act) {st} : RoleOK me (Fine.dropLocal k) st ↔ RoleOK me k st := by
  unfold Fine.dropLocal; simp
@[simp] theorem role_failBack (o : Bool) (k : Act) {st} : RoleOK me (Fine.failBack o k) st ↔ RoleOK me k st := by
  unfold Fine.failBack; cases o <;> simp
@[simp] theorem role_take (o : Bool) (k : Act) {st} : RoleOK me (Fine.take o k) st ↔ RoleOK me k st := by
  unfold Fine.take; cases o <;> simp
@[simp] theorem role_guardNone (o : Bool) (k : Act) {ea} :
    RoleOK me (Fine.guardNone o k) ⟨none, [], ea⟩ ↔ RoleOK me k ⟨none, [], ea⟩ := by
  unfold Fine.guardNone; cases o <;> simp
@[simp] theorem role_register (k : Act) {st} : RoleOK me (Fine.register k) st ↔ RoleOK me k st := by
  unfold Fine.register; simp
@[simp] theorem role_readOwn {cur h ea} : RoleOK me Fine.readOwn ⟨cur, h, ea⟩ ↔ cur = none ∧ ∀ p ∈ h.map Prod.fst, p = me := by
  unfold Fine.readOwn; simp
@[simp] theorem role_drainQueue (q : List Msg) (k : Act) {st} : RoleOK me (Fine.drainQueue q k) st ↔ RoleOK me k st := by
  unfold Fine.drainQueue
  induction q with
  | nil => simp
  | cons a l ih => simp [ih]

/-- `terminate_signals` under the lock: either role may be terminated. -/
theorem role_terminate {c : Chan} {h : List (SigId × Bool)} (k : Act) (l : List SigId) : ∀ (ea : List SigId),
    (∀ p ∈ l, p ∈ c.waitList) → l.Nodup → (∀ p ∈ l, p ∉ ea) →
    (∀ ea', (∀ p, p ∈ ea' ↔ p ∈ l ∨ p ∈ ea) → RoleOK me k ⟨some c, h, ea'⟩) →
    RoleOK me (Fine.terminate l k) ⟨some c, h, ea⟩ := by
  unfold Fine.terminate
  induction l with
  | nil => intro ea _ _ _ hk; exact hk ea (by simp)
  | cons a l ih =>
    intro ea hin hnd hea hk
    rw [List.nodup_cons] at hnd
    simp only [Act.forEach_cons, role_sigTerminate_in]
    refine ⟨hin a (by simp), hea a (by simp), ?_⟩
    apply ih (a :: ea) (fun p hp => hin p (by simp [hp])) hnd.2
    · intro p hp
      simp only [List.mem_cons, not_or]
      exact ⟨fun e => hnd.1 (e ▸ hp), hea p (by simp [hp])⟩
    · intro ea' hea'
      apply hk
      intro p
      rw [hea' p]
      simp only [List.mem_cons]
      constructor
      · rintro (x | x | x) <;> simp [x]
      · rintro ((x | x) | x) <;> simp [x]

/-- the second loop of `drain_into`: every signal is READ, so the list must hold senders -/
theorem role_drainSenders {c : Chan} {h : List (SigId × Bool)} (k : Act) (l : List SigId) : ∀ (ea : List SigId),
    (∀ p ∈ l, p ∈ c.waitList) → (∀ p ∈ l, c.recvBlocking = false) → l.Nodup → (∀ p ∈ l, p ∉ ea) →
    (∀ ea', (∀ p, p ∈ ea' ↔ p ∈ l ∨ p ∈ ea) → RoleOK me k ⟨some c, h, ea'⟩) →
    RoleOK me (Fine.drainSenders l k) ⟨some c, h, ea⟩ := by
  unfold Fine.drainSenders
  induction l with
  | nil => intro ea _ _ _ _ hk; exact hk ea (by simp)
  | cons a l ih =>
    intro ea hin hrole hnd hea hk
    rw [List.nodup_cons] at hnd
    simp only [Act.forEach_cons, role_sigRecv_in, role_vecPush]
    refine ⟨hin a (by simp), hrole a (by simp), hea a (by simp), fun _ => ?_⟩
    apply ih (a :: ea) (fun p hp => hin p (by simp [hp])) (fun p hp => hrole p (by simp [hp])) hnd.2
    · intro p hp
      simp only [List.mem_cons, not_or]
      exact ⟨fun e => hnd.1 (e ▸ hp), hea p (by simp [hp])⟩
    · intro ea' hea'
      apply hk
      intro p
      rw [hea' p]
      simp only [List.mem_cons]
      constructor
      · rintro (x | x | x) <;> simp [x]
      · rintro ((x | x) | x) <;> simp [x]

/-- the end of a section that terminated / drained `l` (nothing or the whole wait list) and publishes `c1` -/
theorem role_all_or_nothing {c c1 : Chan} {l ea' : List SigId} {r : Res}
    (hl : (l = [] ∧ c1.waitList = c.waitList) ∨ (l = c.waitList ∧ c1.waitList = []))
    (hea : ∀ p, p ∈ ea' ↔ p ∈ l ∨ p ∈ ([] : List SigId)) : RoleOK me (.unlock c1 (.ret r)) ⟨some c, [], ea'⟩ := by
  rw [role_unlock]
  rcases hl with ⟨rfl, h1⟩ | ⟨rfl, h1⟩
  · have : ea' = [] := List.eq_nil_iff_forall_not_mem.mpr fun p hp => by simpa using (hea p).mp hp
    subst this
    simp [popped_keep (c := c) (c1 := c1) (ea := []) (by rw [h1]; exact fun _ h => h)]
  · refine ⟨by simp [h1], ?_⟩
    rw [popped_eq_nil (fun p hp => Or.inr ((hea p).mpr (Or.inl hp)))]
    simp

/-- a first section that keeps every waiter (and perhaps adds some) holds nothing -/
theorem role_unlock_keep {c c1 : Chan} {k : Act} (extra : List SigId) (h : c1.waitList = c.waitList ++ extra) :
    RoleOK me (.unlock c1 k) ⟨some c, [], []⟩ ↔ RoleOK me k ⟨none, [], []⟩ := by
  rw [role_unlock, popped_keep (by intro p hp; rw [h]; simp [hp])]
  simp

/-- a first section that pops the head holds the head, with the role the list had -/
theorem role_unlock_pop {c c1 : Chan} {k : Act} {p : SigId} {rest : List SigId} (hw : c.waitList = p :: rest)
    (h1 : c1.waitList = rest) (hnd : c.waitList.Nodup) :
    RoleOK me (.unlock c1 k) ⟨some c, [], []⟩ ↔ RoleOK me k ⟨none, [(p, c.recvBlocking)], []⟩ := by
  rw [role_unlock, popped_head hw h1 hnd]
  simp

/-! ### one theorem per function -/

theorem role_observe (f : Chan → Res) : RoleOK me (Fine.observe f) {} := by
  unfold Fine.observe; simp

theorem role_clone (side : Side) : RoleOK me (Fine.cloneHandle side) {} := by
  unfold Fine.cloneHandle
  simp
  intro c _
  have : popped c (c.cloneCS side) [] = [] := by
    apply popped_keep
    unfold Chan.cloneCS
    cases side <;> dsimp only <;> split <;> exact fun _ h => h
  simp [this]

theorem role_drop (side : Side) : RoleOK me (Fine.dropHandle side) {} := by
  unfold Fine.dropHandle
  simp
  intro c hnd
  have hl := dropCS_wl c side
  apply role_terminate _ _ []
  · rcases hl with ⟨e, _⟩ | ⟨e, _⟩ <;> simp [e]
  · rcases hl with ⟨e, _⟩ | ⟨e, _⟩ <;> simp [e, hnd]
  · simp
  · intro ea' hea
    exact role_all_or_nothing hl hea

theorem role_close : RoleOK me Fine.close {} := by
  unfold Fine.close
  simp
  intro c hnd
  split
  · simp
  · rename_i c1 l q hc
    obtain ⟨rfl, h1⟩ := closeCS_wl hc
    apply role_terminate _ _ [] (fun _ h => h) hnd (by simp)
    intro ea' hea
    exact role_all_or_nothing (Or.inr ⟨rfl, h1⟩) hea

theorem role_sendErr (c : Chan) : RoleOK me (Fine.sendErr c) ⟨some c, [], []⟩ := by
  unfold Fine.sendErr; simp

/-- `try_send*`: the waiter written into was popped by `next_recv`, i.e. from a list of receivers -/
theorem role_trySend (opt rt : Bool) (x : Ctx) : RoleOK me (Fine.trySend opt rt x) {} := by
  unfold Fine.trySend Fine.acquire
  simp
  cases rt <;> simp
  all_goals
    intro c hnd
    rcases hb : c.sendPre x.m with ⟨c1, br⟩
    have hw := sendPre_wl hb
    cases br <;> simp only [SendWl] at hw ⊢
  all_goals first
    | exact role_sendErr c
    | (obtain ⟨rest, hw, h1⟩ := hw; simp [role_unlock_pop hw h1 hnd, sendPre_role hb]; done)
    | (simp [role_unlock_keep [] (by simpa using hw)]; done)

theorem role_timedSendTail (opt : Bool) (x : Ctx) : RoleOK x.me (Fine.timedSendTail opt x) ⟨none, [], []⟩ := by
  unfold Fine.timedSendTail
  simp
  intro c _
  exact ⟨fun _ => popped_cancel c _ _, fun _ => popped_cancel c _ _⟩

theorem role_send (timed opt : Bool) (x : Ctx) : RoleOK x.me (Fine.send timed opt x) {} := by
  unfold Fine.send
  simp
  cases timed <;> simp
  all_goals
    intro c hnd
    rcases hb : c.sendCS x.m x.me with ⟨c1, br⟩
    have hw := sendCS_wl hb
    cases br <;> simp only [SendWl] at hw ⊢
  all_goals first
    | exact role_sendErr c
    | (obtain ⟨rest, hw, h1⟩ := hw; simp [role_unlock_pop hw h1 hnd, sendCS_role hb]; done)
    | (simp [role_unlock_keep [] (by simpa using hw)]; done)
    | (cases opt <;> simp [role_unlock_keep _ hw, role_timedSendTail]; done)

/-! ### the receive family -/

/-- the common head of every receive, as the first section of a call: the waiter read was popped by `next_send`, i.e.
    from a list of senders — under the lock (refill) or after the guard has died (empty channel). -/
theorem role_recvHead {c : Chan} {wrap closedFirst : Act → Act} {onNone : Chan → Act} (hnd : c.waitList.Nodup)
    (hw : ∀ k h, RoleOK me (wrap k) ⟨none, h, []⟩ ↔ RoleOK me k ⟨none, h, []⟩)
    (hc : ∀ k, RoleOK me (closedFirst k) ⟨some c, [], []⟩ ↔ RoleOK me k ⟨some c, [], []⟩)
    (hn : ∀ c1, c1.waitList = c.waitList → RoleOK me (onNone c1) ⟨some c, [], []⟩) :
    RoleOK me (Fine.recvHead c wrap closedFirst onNone) ⟨some c, [], []⟩ := by
  unfold Fine.recvHead
  split
  · simp [hc]
  · split
    · split
      · rename_i c1 p hs
        obtain ⟨rest, hwl, h1⟩ := nextSend_some hs
        have hr : c.recvBlocking = false := by have := nextSend_role hs; exact this
        have hwl' : c.waitList = p :: rest := hwl
        rw [hwl'] at hnd
        rw [List.nodup_cons] at hnd
        simp only [role_sigRecv_in, role_unlock]
        refine ⟨by simp [hwl'], hr, by simp, fun m => ⟨by simpa [h1] using hnd.1, ?_⟩⟩
        rw [popped_head_used (c1 := { c1 with queue := c1.queue ++ [m] }) hwl' h1]
        simp [hw]
      · rename_i c1 hs
        have h1 : c1.waitList = c.waitList := by have := nextSend_none hs; exact this
        simp [role_unlock_keep [] (by simpa using h1), hw]
    · split
      · rename_i c1 p hs
        obtain ⟨rest, hwl, h1⟩ := nextSend_some hs
        simp [role_unlock_pop hwl h1 hnd, hw, nextSend_role hs]
      · rename_i c1 hs
        exact hn c1 (nextSend_none hs)

theorem role_tryRecv (rt : Bool) : RoleOK me (Fine.tryRecv rt) {} := by
  unfold Fine.tryRecv Fine.acquire
  cases rt <;> simp <;> intro c hnd <;> apply role_recvHead hnd (by simp) (by simp)
  all_goals
    intro c1 h1
    simp [role_unlock_keep [] (by simpa using h1)]

theorem role_timedRecvTail (x : Ctx) : RoleOK x.me (Fine.timedRecvTail x) ⟨none, [], []⟩ := by
  unfold Fine.timedRecvTail
  simp
  intro c _
  exact ⟨fun _ => popped_cancel c _ _, fun _ => popped_cancel c _ _⟩

theorem role_recv (timed : Bool) (x : Ctx) : RoleOK x.me (Fine.recv timed x) {} := by
  unfold Fine.recv
  cases timed <;> simp <;> intro c hnd <;> apply role_recvHead hnd (by simp) (by simp)
  all_goals
    intro c1 h1
    simp [role_unlock_keep [] (by simpa using h1), role_unlock_keep [x.me] (show (c1.pushWaiter x.me).waitList = _ by rw [← h1]; rfl),
      role_timedRecvTail]

/-! ### drain, the futures -/

/-- `drain_into`: the signals read in the second loop are the whole list only when it holds senders -/
theorem role_drain (x : Ctx) : RoleOK me (Fine.drain x) {} := by
  unfold Fine.drain
  simp
  intro c hnd
  split
  · simp
  · rename_i c1 q l n hd
    have hl := drainCS_wl hd
    have key : RoleOK me (Fine.drainQueue q (Fine.drainSenders l (.unlock c1 (.ret (.num n))))) ⟨some c, [], []⟩ := by
      rw [role_drainQueue]
      apply role_drainSenders _ _ []
      · rcases hl with ⟨e, _⟩ | ⟨e, _⟩ <;> simp [e]
      · exact drainCS_role hd
      · rcases hl with ⟨e, _⟩ | ⟨e, _⟩ <;> simp [e, hnd]
      · simp
      · intro ea' hea
        exact role_all_or_nothing hl hea
    simp [key]

theorem role_dropSendFut (x : Ctx) : RoleOK x.me (Fine.dropSendFut x) {} := by
  unfold Fine.dropSendFut
  simp
  intro _ _ c _
  exact ⟨fun _ => popped_cancel c _ _, fun _ => popped_cancel c _ _⟩

theorem role_dropRecvFut (x : Ctx) : RoleOK x.me (Fine.dropRecvFut x) {} := by
  unfold Fine.dropRecvFut
  simp
  intro _ c _
  exact ⟨fun _ => popped_cancel c _ _, fun _ => popped_cancel c _ _⟩

theorem role_pollSend (x : Ctx) : RoleOK me (Fine.pollSend x) {} := by
  unfold Fine.pollSend
  split
  · simp
    intro c hnd
    rcases hb : c.sendCS x.m x.me with ⟨c1, br⟩
    have hw := sendCS_wl hb
    cases br <;> simp only [SendWl] at hw ⊢
    all_goals first
      | (obtain ⟨rest, hw, h1⟩ := hw; simp [role_unlock_pop hw h1 hnd, sendCS_role hb]; done)
      | (simp [role_unlock_keep _ hw]; done)
      | (simp [role_unlock_keep [] (by simpa using hw)]; done)
  · simp
    intro r
    split <;> simp
  · simp

theorem role_pollRecvRound (x : Ctx) (st : FutSt) (again : Act) (ha : RoleOK me again {}) :
    RoleOK me (Fine.pollRecvRound x st again) {} := by
  unfold Fine.pollRecvRound
  split
  · simp
    intro c hnd
    apply role_recvHead hnd (by simp) (by simp)
    intro c1 h1
    simp [role_unlock_keep [] (by simpa using h1), role_unlock_keep [x.me] (show (c1.pushWaiter x.me).waitList = _ by rw [← h1]; rfl)]
  · simp
    intro r
    split <;> simp
  · simp
    intro _
    exact ha

theorem role_pollRecv (x : Ctx) : RoleOK me (Fine.pollRecv x) {} := by
  unfold Fine.pollRecv
  exact role_pollRecvRound x _ _ (role_pollRecvRound x _ _ (by simp))

/-! ### `Act.bind` with a continuation that is as good as a return -/

theorem role_bind {f : Res → Act} (hf : ∀ r st, RoleOK me (.ret r) st → RoleOK me (f r) st) {a : Act} {st : RoleSt}
    (h : RoleOK me a st) : RoleOK me (a.bind f) st := by
  induction h with
  | ret a b => exact hf _ _ (RoleOK.ret a b)
  | diverge => exact RoleOK.diverge
  | lock a b _ ih => exact RoleOK.lock a b ih
  | tryLock a b _ _ ih1 ih2 => exact RoleOK.tryLock a b ih1 ih2
  | unlock a b _ ih => exact RoleOK.unlock a b ih
  | sendIn a b c d _ ih => exact RoleOK.sendIn a b c d ih
  | sendOut a b _ ih => exact RoleOK.sendOut a b ih
  | termIn a b d _ ih => exact RoleOK.termIn a b d ih
  | termOut a b _ ih => exact RoleOK.termOut a b ih
  | eff a _ ih => exact RoleOK.eff a ih
  | recvIn a b c d _ ih => exact RoleOK.recvIn a b c d ih
  | recvOut a b _ ih => exact RoleOK.recvOut a b ih
  | askM a _ ih => exact RoleOK.askM a ih
  | askB _ ih => exact RoleOK.askB ih
  | askP _ ih => exact RoleOK.askP ih

theorem role_pollNext (x : Ctx) : RoleOK me (Fine.pollNext x) {} := by
  unfold Fine.pollNext
  split
  · simp
  · apply role_bind _ (role_pollRecv x)
    intro r st h
    obtain ⟨cur, hd, ea⟩ := st
    cases r <;> simpa using h

/-! ### all programs -/

/-- **Every function of kanal serves a waiter according to its role**: it writes (`p.send`) only into signals popped
    from a list of receivers, reads (`p.recv`) only signals popped from a list of senders — and (`Own`) only signals it
    popped, each at most once, leaving none but its own unused. -/
theorem roleok_fine_me {me : SigId} : ∀ t, FineProgMe me t → RoleOK me t {} := by
  intro t h
  cases h
  · exact role_observe _
  · exact role_clone _
  · exact role_drop _
  · exact role_close
  · exact role_trySend _ _ _
  · exact role_send _ _ _
  · exact role_tryRecv _
  · exact role_recv _ _
  · exact role_drain _
  · exact role_dropSendFut _
  · exact role_dropRecvFut _
  · exact role_pollSend _
  · exact role_pollRecv _
  · exact role_pollNext _

/-- The same over `FineProg` (no hypothesis). -/
theorem roleok_fine : ∀ t, FineProg t → ∃ me, RoleOK me t {} := by
  intro t h
  obtain ⟨me, h⟩ := fineProg_me h
  exact ⟨me, roleok_fine_me t h⟩

/-- `Own.own_fine_me` is a corollary. -/
example {me : SigId} {t : Act} (h : FineProgMe me t) : Own me t {} := roleok_own (roleok_fine_me t h)

/-! ### the same about the TRANSLATED Rust source (`Gen.*`, via the `TieCode` equalities) -/

namespace Code

theorem try_send (x : Ctx) :
    RoleOK x.me (Gen.shared_send_impl_try_send x) {} ∧ RoleOK x.me (Gen.shared_send_impl_try_send_option x) {} ∧
    RoleOK x.me (Gen.shared_send_impl_try_send_realtime x) {} ∧ RoleOK x.me (Gen.shared_send_impl_try_send_option_realtime x) {} := by
  rw [TieCode.try_send, TieCode.try_send_option, TieCode.try_send_realtime, TieCode.try_send_option_realtime]
  exact ⟨role_trySend _ _ x, role_trySend _ _ x, role_trySend _ _ x, role_trySend _ _ x⟩
theorem send (x : Ctx) : RoleOK x.me (Gen.Sender_send x) {} := by rw [TieCode.send]; exact role_send false false x
theorem send_timeout (x : Ctx) : RoleOK x.me (Gen.Sender_send_timeout x) {} := by
  rw [TieCode.send_timeout]; exact role_send true false x
theorem send_option_timeout (x : Ctx) : RoleOK x.me (Gen.Sender_send_option_timeout x) {} := by
  rw [TieCode.send_option_timeout]; exact role_send true true x
theorem try_recv (x : Ctx) (me : SigId) :
    RoleOK me (Gen.shared_recv_impl_try_recv x) {} ∧ RoleOK me (Gen.shared_recv_impl_try_recv_realtime x) {} := by
  rw [TieCode.try_recv, TieCode.try_recv_realtime]; exact ⟨role_tryRecv false, role_tryRecv true⟩
theorem recv (x : Ctx) : RoleOK x.me (Gen.Receiver_recv x) {} ∧ RoleOK x.me (Gen.Receiver_recv_timeout x) {} := by
  rw [TieCode.recv, TieCode.recv_timeout]; exact ⟨role_recv false x, role_recv true x⟩
theorem drain_into (x : Ctx) (me : SigId) : RoleOK me (Gen.shared_recv_impl_drain_into x) {} := by
  rw [TieCode.drain_into]; exact role_drain x
theorem close (x : Ctx) (me : SigId) : RoleOK me (Gen.shared_impl_close x) {} := by rw [TieCode.close]; exact role_close
theorem handle_drops (x : Ctx) (me : SigId) :
    RoleOK me (Gen.Drop_Sender_drop x) {} ∧ RoleOK me (Gen.Drop_AsyncSender_drop x) {} ∧
    RoleOK me (Gen.Drop_Receiver_drop x) {} ∧ RoleOK me (Gen.Drop_AsyncReceiver_drop x) {} := by
  rw [TieCode.drop_sender, TieCode.drop_async_sender, TieCode.drop_receiver, TieCode.drop_async_receiver]
  exact ⟨role_drop _, role_drop _, role_drop _, role_drop _⟩
theorem futures (x : Ctx) :
    RoleOK x.me (Gen.Future_SendFuture_poll x) {} ∧ RoleOK x.me (Gen.Future_ReceiveFuture_poll x) {} ∧
    RoleOK x.me (Gen.Stream_ReceiveStream_poll_next x) {} ∧
    RoleOK x.me (Gen.Drop_SendFuture_drop x) {} ∧ RoleOK x.me (Gen.Drop_ReceiveFuture_drop x) {} := by
  rw [TieCode.poll_send, TieCode.poll_recv, TieCode.poll_next, TieCode.drop_send_fut, TieCode.drop_recv_fut]
  exact ⟨role_pollSend x, role_pollRecv x, role_pollNext x, role_dropSendFut x, role_dropRecvFut x⟩

end Code

/-! ### sanity: instances, non-vacuity, and trees that `Own` accepts and `RoleOK` rejects -/

example : RoleOK 0 (Fine.trySend false false { m := 5 }) {} := roleok_fine_me _ (.trySend false false { m := 5 })

/-- a channel with one blocked sender, signal 7 (`recvBlocking = false`: the list holds senders) -/
def oneSender : Chan := { Chan.new (some 0) with recvBlocking := false, waitList := [7] }

/-- Non-vacuity: on `Own.oneReceiver` the path of `try_send(5)` is: pop 7 — held as `(7, true)`, a receiver —,
    release, `7.send(5)`. -/
example : ∃ k c1, Fine.trySend false false { m := 5 } = .lock k ∧
    k oneReceiver = .unlock c1 (.eff (.sigSend 7 5) (.ret (.bool true))) ∧
    tag oneReceiver.recvBlocking (popped oneReceiver c1 []) = [(7, true)] :=
  ⟨_, _, rfl, rfl, by decide⟩

/-- Non-vacuity: on `oneSender` the path of `try_recv()` is: pop 7 — held as `(7, false)`, a sender —, release,
    `7.recv()`. -/
example : ∃ k c1, Fine.tryRecv false = .lock k ∧
    k oneSender = .unlock c1 (.askM (.sigRecv 7) fun m => .ret (.val m)) ∧
    tag oneSender.recvBlocking (popped oneSender c1 []) = [(7, false)] :=
  ⟨_, _, rfl, rfl, by decide⟩

/-- NEGATIVE (1): a `drain_into` that pops with the list's head (`wait_list.pop_front()` / `wait_list.drain(..)`) instead
    of `next_send()`, i.e. regardless of `recv_blocking`, and reads the popped waiter's slot. -/
def badDrain : Act := .lock fun c =>
  match c.waitList with
  | p :: rest => .askM (.sigRecv p) fun m => .eff (.vecPush m) (.unlock { c with waitList := rest } (.ret (.num 1)))
  | [] => .unlock c (.ret (.num 0))

/-- `Own` accepts it: the signal read is a waiter of the bound state and is gone from the published list. -/
theorem badDrain_own : Own me badDrain {} := by
  unfold badDrain
  simp
  intro c hnd
  split
  · rename_i p rest hw
    rw [hw, List.nodup_cons] at hnd
    simp only [own_sigRecv, use_in, own_vecPush, own_unlock]
    refine ⟨by simp [hw], by simp, fun m => ⟨by simpa using hnd.1, ?_⟩⟩
    rw [popped_head_used (c1 := { c with waitList := rest }) hw rfl]
    simp
  · simp

/-- `RoleOK` rejects it: on a channel whose list holds the RECEIVER 7 it reads 7's slot (an uninitialised value). -/
theorem badDrain_not_roleok : ¬ RoleOK me badDrain {} := by
  intro h
  unfold badDrain at h
  simp at h
  have := h oneReceiver (by simp [oneReceiver])
  simp [oneReceiver] at this

/-- NEGATIVE (2): a `try_send` that writes into whatever waiter heads the list (no `next_recv()`, no look at
    `recv_blocking`). -/
def badTrySend (v : Msg) : Act := .lock fun c =>
  match c.waitList with
  | p :: rest => .unlock { c with waitList := rest } (.eff (.sigSend p v) (.ret (.bool true)))
  | [] => .unlock c (.ret (.bool false))

/-- `Own` accepts it: the signal written is one the call popped. -/
theorem badTrySend_own (v : Msg) : Own me (badTrySend v) {} := by
  unfold badTrySend
  simp
  intro c hnd
  split
  · rename_i p rest hw
    simp [own_unlock_pop (c1 := { c with waitList := rest }) hw rfl hnd]
  · simp

/-- `RoleOK` rejects it: on a channel whose list holds the SENDER 7 it overwrites the value 7 offers. -/
theorem badTrySend_not_roleok (v : Msg) : ¬ RoleOK me (badTrySend v) {} := by
  intro h
  unfold badTrySend at h
  simp at h
  have := h oneSender (by simp [oneSender])
  simp [oneSender, Chan.new, popped] at this

/-- the same two trees with the pop done by the right function are accepted (`role_drain`, `role_trySend`); a minimal
    instance: pop the next receiver with `next_recv` and hand over. -/
theorem popOnce_roleok : RoleOK me popOnce {} := by
  unfold popOnce
  simp
  intro c hnd
  split
  · rename_i c1 p h
    obtain ⟨rest, hw, h1⟩ := nextRecv_some h
    simp [role_unlock_pop hw h1 hnd, nextRecv_role h]
  · rename_i c1 h
    simp [role_unlock_keep [] (by simpa using nextRecv_none h)]

end RoleOK
end Kanal

#print axioms Kanal.RoleOK.roleok_fine_me
#print axioms Kanal.RoleOK.roleok_fine
#print axioms Kanal.RoleOK.roleok_own
#print axioms Kanal.RoleOK.Code.try_send
#print axioms Kanal.RoleOK.Code.send
#print axioms Kanal.RoleOK.Code.send_timeout
#print axioms Kanal.RoleOK.Code.send_option_timeout
#print axioms Kanal.RoleOK.Code.try_recv
#print axioms Kanal.RoleOK.Code.recv
#print axioms Kanal.RoleOK.Code.drain_into
#print axioms Kanal.RoleOK.Code.close
#print axioms Kanal.RoleOK.Code.handle_drops
#print axioms Kanal.RoleOK.Code.futures
#print axioms Kanal.RoleOK.badDrain_own
#print axioms Kanal.RoleOK.badDrain_not_roleok
#print axioms Kanal.RoleOK.badTrySend_own
#print axioms Kanal.RoleOK.badTrySend_not_roleok
#print axioms Kanal.RoleOK.popOnce_roleok
