/-
  Kanal.Seq — the sequential reading of the atomic channel: one public API call
  per `SeqOp`, executed to completion by composing `Spec.step` labels
  (a zero-duration timed call that has to wait is `register` then `expire`).
  This is the oracle of the sequential differential (C18) and the text protocol
  shared with the Rust driver.
-/
import Kanal.Spec

namespace Kanal

/-- One call of the public API as a single thread can issue it. -/
inductive SeqOp where
  | send (m : Msg)
  | sendT (m : Msg) (opt : Bool)            -- send_timeout / send_option_timeout
  | trySend (m : Msg) (opt rt : Bool)
  | recv
  | recvT
  | tryRecv (rt : Bool)
  | drain (vk : Nat)                        -- vector kind: 0 empty/no capacity, 1 pre-filled/exact, 2 pre-filled/spare
  | asend (m : Msg)
  | pollS (f : FutId) (w : WakerId)
  | dropSF (f : FutId)
  | arecv (stream : Bool)
  | pollR (f : FutId) (w : WakerId)
  | dropRF (f : FutId)
  | clone (side : Side) (same : Bool)       -- same flavour (`clone`) or the other one (`clone_sync` / `clone_async`)
  | dropH (side : Side)
  | conv (side : Side)                      -- `to_sync` / `to_async` of the newest handle
  | close (side : Side)
  | obs (l : Label) (side : Side)           -- an observer, called through a handle of `side`
  deriving DecidableEq, Repr, Inhabited

def sideStr : Side → String
  | .send => "s"
  | .recv => "r"

def bStr (b : Bool) : String := if b then "1" else "0"

def errStr : Err → String
  | .closed => "Closed" | .sendClosed => "SendClosed" | .recvClosed => "ReceiveClosed"
  | .timeout => "Timeout" | .closeErr => "CloseError"

def listStr (l : List Nat) : String := "[" ++ ",".intercalate (l.map toString) ++ "]"

def resStr : Res → String
  | .unit => "ok"
  | .bool b => if b then "true" else "false"
  | .val m => s!"v{m}"
  | .none => "none"
  | .num n => s!"n{n}"
  | .cap (some n) => s!"n{n}"
  | .cap none => "inf"
  | .drained n ms => s!"drained {n} {listStr ms}"
  | .err e => s!"err:{errStr e}"
  | .pending => "pending"
  | .blocked s => s!"blocked {s}"
  | .streamEnd => "end"
  | .panic => "panic"
  | .spin => "spin"

def obsName : Label → String
  | .len => "len" | .isEmpty => "isempty" | .isFull => "isfull" | .capacity => "capacity"
  | .isBounded => "isbounded" | .senderCount => "scount" | .receiverCount => "rcount"
  | .isClosed => "isclosed" | .isDisconnected _ => "isdisc" | .isTerminated => "isterm"
  | _ => "?"

/-- Number of alive futures of a side (they borrow the oldest handle of that side). -/
def aliveFuts (s : State) (r : Role) : Nat :=
  (s.sigs.filter (fun g => g.alive && g.kind == .async && g.role == r)).length

/-- Safe-Rust discipline of the driver: the oldest handle of a side is borrowed by
    the futures of that side, so it can be neither dropped nor converted while
    one of them is alive. -/
def handleFree (s : State) (side : Side) : Bool :=
  let live := match side with | .send => s.liveS | .recv => s.liveR
  live > 1 || (live == 1 && s.aliveSigs side == 0)

/-- On one thread a hand-off is completed by the caller before it returns: run the pending
    final stores (`Label.finalize`) of every claimed waiter. -/
def settle (v : Variant) (s : State) : State :=
  (List.range s.sigs.length).foldl (fun s i =>
    match step v s (.finalize i) with
    | some (s1, _) => s1
    | none => s) s

/-- One atomic step followed by the caller's own pending final stores. -/
def stepS (v : Variant) (s : State) (l : Label) : Option (State × Res) :=
  match step v s l with
  | some (s1, r) => some (settle v s1, r)
  | none => none

/-- Text of the op as sent to the Rust driver, the model's result, and the new
    state.  `none`: the op is not enabled (or would block the only thread). -/
def seqStep (v : Variant) (s : State) : SeqOp → Option (State × String × Res)
  | .send m =>
    match stepS v s (.send m .sync false) with
    | some (_, .blocked _) => none
    | some (s1, r) => some (s1, s!"send {m}", r)
    | none => none
  | .sendT m opt =>
    let name := if opt then "sendot" else "sendt"
    match stepS v s (.send m .timed opt) with
    | some (s1, .blocked i) =>
      match stepS v s1 (.expire i) with
      | some (s2, r) => some (s2, s!"{name} {m} 0", r)
      | none => none
    | some (s1, r) => some (s1, s!"{name} {m} L", r)
    | none => none
  | .trySend m opt rt =>
    match stepS v s (.trySend m opt rt) with
    | some (s1, r) => some (s1, s!"try {m} {bStr opt} {bStr rt}", r)
    | none => none
  | .recv =>
    match stepS v s (.recv .sync false) with
    | some (_, .blocked _) => none
    | some (s1, r) => some (s1, "recv", r)
    | none => none
  | .recvT =>
    match stepS v s (.recv .timed false) with
    | some (s1, .blocked i) =>
      match stepS v s1 (.expire i) with
      | some (s2, r) => some (s2, "recvt 0", r)
      | none => none
    | some (s1, r) => some (s1, "recvt L", r)
    | none => none
  | .tryRecv rt =>
    match stepS v s (.tryRecv rt) with
    | some (s1, r) => some (s1, s!"tryr {bStr rt}", r)
    | none => none
  | .drain vk =>
    match stepS v s .drain with
    | some (s1, r) => some (s1, s!"drain {vk}", r)
    | none => none
  | .asend m =>
    match stepS v s (.newSendFut m) with
    | some (s1, .num f) => some (s1, s!"asend {f} {m}", .unit)
    | _ => none
  | .pollS f w =>
    match stepS v s (.pollSend f w) with
    | some (_, .spin) => none
    | some (s1, r) => some (s1, s!"polls {f} {w}", r)
    | none => none
  | .dropSF f =>
    match stepS v s (.dropSendFut f) with
    | some (_, .spin) => none
    | some (s1, r) => some (s1, s!"dropsf {f}", r)
    | none => none
  | .arecv stream =>
    match stepS v s (.newRecvFut stream) with
    | some (s1, .num f) => some (s1, (if stream then s!"stream {f}" else s!"arecv {f}"), .unit)
    | _ => none
  | .pollR f w =>
    match stepS v s (.pollRecv f w) with
    | some (_, .spin) => none
    | some (s1, r) => some (s1, s!"pollr {f} {w}", r)
    | none => none
  | .dropRF f =>
    match stepS v s (.dropRecvFut f) with
    | some (_, .spin) => none
    | some (s1, r) => some (s1, s!"droprf {f}", r)
    | none => none
  | .clone side same =>
    match stepS v s (.clone side) with
    | some (s1, r) => some (s1, s!"clone {sideStr side} {bStr same}", r)
    | none => none
  | .dropH side =>
    if !handleFree s side then none
    else match stepS v s (.dropHandle side) with
      | some (s1, r) => some (s1, s!"drop {sideStr side}", r)
      | none => none
  | .conv side =>
    if !handleFree s side then none
    else match stepS v s (.convert side) with
      | some (s1, r) => some (s1, s!"conv {sideStr side}", r)
      | none => none
  | .close side =>
    if (match side with | .send => s.liveS | .recv => s.liveR) = 0 then none
    else match stepS v s .close with
      | some (s1, r) => some (s1, s!"close {sideStr side}", r)
      | none => none
  | .obs l side =>
    if (match side with | .send => s.liveS | .recv => s.liveR) = 0 then none
    else
      let l' := match l with
        | .isDisconnected _ => Label.isDisconnected side
        | l => l
      match l' with
      | .isTerminated => if side = .send then none else
          match stepS v s l' with
          | some (s1, r) => some (s1, s!"isterm r", r)
          | none => none
      | .len | .isEmpty | .isFull | .capacity | .isBounded | .senderCount | .receiverCount
      | .isClosed | .isDisconnected _ =>
        match stepS v s l' with
        | some (s1, r) => some (s1, s!"{obsName l'} {sideStr side}", r)
        | none => none
      | _ => none

/-- Side effects of one op as the driver can observe them: wakers woken (in
    order), values destroyed (in order), and whether an Option-variant kept its value. -/
def effectStr (s s1 : State) (op : SeqOp) : String :=
  let wk := (s1.wakes.drop s.wakes.length).map (fun w => s!" w{w}")
  let dr := (s1.dropped.drop s.dropped.length).map (fun m => s!" d{m}")
  let kept := match op with
    | .sendT m true | .trySend m true _ => if s1.cust m = .callerS then " kept" else ""
    | _ => ""
  String.join wk ++ String.join dr ++ kept

/-- Ops that tear everything down at the end of a sequence: futures first, then handles. -/
def teardownOps (s : State) : List SeqOp :=
  let futs := (List.range s.sigs.length).filterMap (fun i =>
    match s.sigs[i]? with
    | some g => if g.alive && g.kind == .async then
        some (if g.role == .send then SeqOp.dropSF i else SeqOp.dropRF i) else none
    | none => none)
  futs ++ List.replicate s.liveS (.dropH .send) ++ List.replicate s.liveR (.dropH .recv)

def countOcc (l : List Nat) (m : Nat) : Nat := (l.filter (· == m)).length

/-- End-of-sequence accounting, in the driver's format. -/
def endStr (s : State) : String :=
  let leak := s.offered.filter (fun m =>
    match s.cust m with
    | .queued | .slot _ | .leaked | .fresh => true
    | _ => false)
  let dbl := s.offered.filter (fun m =>
    countOcc s.dropped m > 1 || (countOcc s.dropped m ≥ 1 && s.recvd.contains m) || countOcc s.recvd m > 1)
  s!"END leak={listStr leak.eraseDups} dbl={listStr dbl.eraseDups}"

/-- Run a list of ops, then the teardown; returns the op texts and the result texts. -/
def runSeq (v : Variant) (s : State) (ops : List SeqOp) : Option (List String × List String × State) :=
  let rec go (s : State) (ops : List SeqOp) (acc : List String × List String) :
      Option (List String × List String × State) :=
    match ops with
    | [] => some (acc.1.reverse, acc.2.reverse, s)
    | op :: rest =>
      match seqStep v s op with
      | none => none
      | some (s1, txt, r) => go s1 rest (txt :: acc.1, (resStr r ++ effectStr s s1 op) :: acc.2)
  match go s ops ([], []) with
  | none => none
  | some (o, r, s1) =>
    match go s1 (teardownOps s1) (o.reverse, r.reverse) with
    | none => none
    | some (o2, r2, s2) => some (o2, r2 ++ [endStr s2], s2)

end Kanal
