/-
  Kanal.SpecSections — the same relation on the model side: every step of `Spec.step` moves the logical state by a
  `ChanStep` (the relation `Kanal.Sections` proves for the critical sections of the code), or frees the shared state
  when the last handle of all goes (`Arc`'s drop, which no function of the crate performs under the lock).
-/
import Kanal.Sections

namespace Kanal
namespace Machine
open Chan State

/-- What one step of the atomic model does to the logical state. -/
inductive SpecChanStep : Chan → Chan → Prop where
  | code {b p} : ChanStep b p → SpecChanStep b p
  /-- the last handle of all: after `dropCS`, `Arc` frees the shared state (buffer and wait list with it) -/
  | freed (b side) : SpecChanStep b { (b.dropCS side).1 with queue := [], waitList := [] }

/-! ### the ghost-state operations leave `chan` alone -/

@[simp] theorem chan_setSig (s : State) (i g) : (s.setSig i g).chan = s.chan := rfl
@[simp] theorem chan_setCust (s : State) (m c) : (s.setCust m c).chan = s.chan := rfl
@[simp] theorem chan_dropMsg (s : State) (m) : (s.dropMsg m).chan = s.chan := rfl
@[simp] theorem chan_giveR (s : State) (m) : (s.giveR m).chan = s.chan := rfl
@[simp] theorem chan_withdrawSlots (s : State) (l) : (s.withdrawSlots l).chan = s.chan := rfl
@[simp] theorem chan_newSig (s : State) (g) : (s.newSig g).1.chan = s.chan := rfl
@[simp] theorem snd_newSig (s : State) (g) : (s.newSig g).2 = s.sigs.length := rfl
@[simp] theorem chan_finalize (s : State) (i o) : (s.finalize i o).chan = s.chan := by
  unfold State.finalize
  split
  · rfl
  · split <;> rfl
@[simp] theorem chan_deliverTo (s : State) (i m) : (s.deliverTo i m).chan = s.chan := by
  unfold State.deliverTo; split <;> rfl
@[simp] theorem chan_claimFrom (s : State) (i) : (s.claimFrom i).chan = s.chan := by
  unfold State.claimFrom; split <;> rfl
@[simp] theorem chan_takeFrom (s : State) (i) : (s.takeFrom i).chan = s.chan := by
  unfold State.takeFrom; split <;> simp
@[simp] theorem chan_failBack (s : State) (m o) : (s.failBack m o).chan = s.chan := by
  unfold State.failBack; split <;> rfl
@[simp] theorem chan_terminateList (s : State) (l) : (s.terminateList l).chan = s.chan := by
  unfold State.terminateList
  induction l generalizing s with
  | nil => rfl
  | cons a l ih => simp [List.foldl_cons, ih]
@[simp] theorem chan_dropMsgs (s : State) (l) : (s.dropMsgs l).chan = s.chan := by
  unfold State.dropMsgs
  induction l generalizing s with
  | nil => rfl
  | cons a l ih => simp [List.foldl_cons, ih]
@[simp] theorem chan_foldl_giveR (s : State) (l : List Msg) : (l.foldl giveR s).chan = s.chan := by
  induction l generalizing s with
  | nil => rfl
  | cons a l ih => simp [List.foldl_cons, ih]
@[simp] theorem chan_foldl_takeFrom (s : State) (l : List SigId) : (l.foldl takeFrom s).chan = s.chan := by
  induction l generalizing s with
  | nil => rfl
  | cons a l ih => simp [List.foldl_cons, ih]

/-! ### the shared bodies -/

theorem chan_sendStep_none (s : State) (m : Msg) (opt : Bool) :
    (sendStep s m opt none).1.chan = (s.chan.sendPre m).1 := by
  unfold sendStep
  simp only
  rcases hb : s.chan.sendPre m with ⟨c1, br⟩
  cases br <;> simp
  · exact (sendPre_err hb (Or.inl rfl)).symm
  · exact (sendPre_err hb (Or.inr rfl)).symm

theorem chan_sendStep_some (s : State) (m : Msg) (opt : Bool) (g : Sig) :
    (sendStep s m opt (some g)).1.chan = (s.chan.sendCS m s.sigs.length).1 := by
  unfold sendStep Chan.sendCS
  simp only
  rcases hb : s.chan.sendPre m with ⟨c1, br⟩
  cases br <;> simp
  · exact (sendPre_err hb (Or.inl rfl)).symm
  · exact (sendPre_err hb (Or.inr rfl)).symm

theorem recvStep_eq (s : State) (t e : Bool) :
    (recvStep s t e).1.chan = (s.chan.recvPre s.slotMsg t e).1 ∧ (recvStep s t e).2 = (s.chan.recvPre s.slotMsg t e).2 := by
  unfold recvStep
  rcases hb : s.chan.recvPre s.slotMsg t e with ⟨c1, br⟩
  cases br <;> simp
  rename_i m refill
  cases refill <;> simp

/-! ### every label -/

/-- closes a case of `spec_chanstep` in which the step leaves `chan` alone -/
macro "chan_id " h:ident : tactic =>
  `(tactic| (simp only [Option.some.injEq, Prod.mk.injEq] at $h:ident; obtain ⟨h1, -⟩ := $h; subst h1; (try simp); exact .code (.id _)))

theorem recv_register {s s1 : State} {br : RecvBranch} {t e : Bool} (hr : recvStep s t e = (s1, br)) (me : SigId) :
    (br = .empty → s1.chan.pushWaiter me = (s.chan.recvCS s.slotMsg t e me).1) ∧
    (br ≠ .empty → s1.chan = (s.chan.recvCS s.slotMsg t e me).1) := by
  obtain ⟨e1, e2⟩ := recvStep_eq s t e
  rw [hr] at e1 e2
  simp only at e1 e2
  unfold Chan.recvCS
  rcases hp : s.chan.recvPre s.slotMsg t e with ⟨c1, br'⟩
  rw [hp] at e1 e2
  simp only at e1 e2
  subst e2
  cases br <;> simp [e1]

theorem spec_chanstep (v : Variant) (s : State) (l : Label) (s' : State) (r : Res)
    (h : step v s l = some (s', r)) : SpecChanStep s.chan s'.chan := by
  cases l <;> simp only [step] at h
  case send m kind opt =>
    split at h
    · cases h
    · simp only [Option.some.injEq] at h
      have := chan_sendStep_some s m opt { role := .send, kind := kind, opt := opt }
      rw [h] at this; simp only at this
      rw [this]; exact .code (.sendCS _ _ _)
  case trySend m opt rt =>
    split at h
    · cases h
    · have := chan_sendStep_none s m opt
      split at h
      · rename_i s1 hs
        simp only [Option.some.injEq, Prod.mk.injEq] at h
        rw [hs] at this; simp only at this
        rw [← h.1, this]; exact .code (.sendPre _ _)
      · simp only [Option.some.injEq] at h
        rw [h] at this; simp only at this
        rw [this]; exact .code (.sendPre _ _)
  case recv kind expired =>
    split at h
    · cases h
    · rcases hr : recvStep s (kind == .timed) expired with ⟨s1, br⟩
      rw [hr] at h
      simp only at h
      obtain ⟨k1, k2⟩ := recv_register hr s1.sigs.length
      split at h
      · simp only [Option.some.injEq, Prod.mk.injEq] at h
        rw [← h.1]; simp only [chan_newSig, snd_newSig]
        rw [k1 rfl]; exact .code (.recvCS _ _ _ _ _)
      · rename_i hne
        simp only [Option.some.injEq, Prod.mk.injEq] at h
        rw [← h.1, k2 (by intro e; exact hne e)]; exact .code (.recvCS _ _ _ _ _)
  case tryRecv rt =>
    split at h
    · cases h
    · obtain ⟨e1, -⟩ := recvStep_eq s false false
      rcases hr : recvStep s false false with ⟨s1, br⟩
      rw [hr] at h e1
      simp only [Option.some.injEq, Prod.mk.injEq] at h e1
      rw [← h.1, e1]; exact .code (.recvPre _ _ _ _)
  case drain =>
    split at h
    · cases h
    · split at h
      · simp only [Option.some.injEq, Prod.mk.injEq] at h
        rw [← h.1]; exact .code (.id _)
      · rename_i c1 qs senders n hd
        simp only [Option.some.injEq, Prod.mk.injEq] at h
        rw [← h.1]; simp only [chan_foldl_takeFrom, chan_foldl_giveR]
        exact .code (.drain _ _ _ _ _ hd)
  case complete i =>
    repeat' (split at h)
    all_goals first | (cases h; done) | chan_id h
  case finalize i =>
    repeat' (split at h)
    all_goals first | (cases h; done) | chan_id h
  case newSendFut m =>
    repeat' (split at h)
    all_goals first | (cases h; done) | chan_id h
  case newRecvFut m =>
    repeat' (split at h)
    all_goals first | (cases h; done) | chan_id h
  case convert side =>
    repeat' (split at h)
    all_goals first | (cases h; done) | chan_id h
  case expire i =>
    split at h
    · cases h
    · rename_i g hg
      split at h
      · cases h
      · split at h
        · chan_id h
        · rename_i c1 hc
          have e : c1 = (s.chan.cancel g.role i).1 := by rw [hc]
          repeat' (split at h)
          all_goals (simp only [Option.some.injEq, Prod.mk.injEq] at h; obtain ⟨rfl, -⟩ := h; simp; rw [e]; exact .code (.cancel _ _ _))
  case clone side =>
    cases side <;> simp only at h <;> split at h
    all_goals first | (cases h; done) | skip
    all_goals (simp only [Option.some.injEq, Prod.mk.injEq] at h; obtain ⟨rfl, -⟩ := h; dsimp only; exact .code (.clone s.chan _))
  case close =>
    split at h
    · cases h
    · split at h
      · chan_id h
      · rename_i c1 l q hc
        simp only [Option.some.injEq, Prod.mk.injEq] at h; obtain ⟨rfl, -⟩ := h
        simp
        exact .code (.close _ _ _ _ hc)
  case dropSendFut f =>
    split at h
    · cases h
    · rename_i g hg
      split at h
      · cases h
      · split at h
        · chan_id h
        · repeat' (split at h)
          all_goals chan_id h
        · split at h
          · rename_i c1 hc
            have e : c1 = (s.chan.cancel .send f).1 := by rw [hc]
            repeat' (split at h)
            all_goals (simp only [Option.some.injEq, Prod.mk.injEq] at h; obtain ⟨rfl, -⟩ := h; simp; rw [e]; exact .code (.cancel _ _ _))
          · repeat' (split at h)
            all_goals chan_id h
  case dropRecvFut f =>
    split at h
    · cases h
    · rename_i g hg
      split at h
      · cases h
      · split at h
        · split at h
          · rename_i c1 hc
            have e : c1 = (s.chan.cancel .recv f).1 := by rw [hc]
            simp only [Option.some.injEq, Prod.mk.injEq] at h; obtain ⟨rfl, -⟩ := h; simp; rw [e]; exact .code (.cancel _ _ _)
          · repeat' (split at h)
            all_goals chan_id h
        · chan_id h
  case pollSend f w =>
    split at h
    · cases h
    · rename_i g hg
      split at h
      · cases h
      · split at h
        · split at h
          · cases h
          · rename_i m hm
            have e : ∀ c1 br, s.chan.sendPre m = (c1, br) →
                (s.chan.sendCS m f).1 = (match br with | .full => c1.pushWaiter f | _ => c1) := by
              intro c1 br hb
              unfold Chan.sendCS; rw [hb]; cases br <;> rfl
            split at h
            · chan_id h
            · chan_id h
            · rename_i c1 r hc
              simp only [Option.some.injEq, Prod.mk.injEq] at h; obtain ⟨rfl, -⟩ := h; simp
              have := e _ _ hc; simp only at this; rw [← this]; exact .code (.sendCS _ _ _)
            · rename_i c1 hc
              simp only [Option.some.injEq, Prod.mk.injEq] at h; obtain ⟨rfl, -⟩ := h; simp
              have := e _ _ hc; simp only at this; rw [← this]; exact .code (.sendCS _ _ _)
            · rename_i c1 hc
              simp only [Option.some.injEq, Prod.mk.injEq] at h; obtain ⟨rfl, -⟩ := h; simp
              have := e _ _ hc; simp only at this; rw [← this]; exact .code (.sendCS _ _ _)
        · repeat' (split at h)
          all_goals chan_id h
        · chan_id h
  case pollRecv f w =>
    split at h
    · cases h
    · rename_i g hg
      split at h
      · cases h
      · split at h
        · chan_id h
        · split at h
          · chan_id h
          · rename_i g' hg'
            split at h
            · rcases hr : recvStep s false false with ⟨s1, br⟩
              rw [hr] at h
              simp only at h
              obtain ⟨k1, k2⟩ := recv_register hr f
              split at h
              · simp only [Option.some.injEq, Prod.mk.injEq] at h; obtain ⟨rfl, -⟩ := h
                simp only [chan_setSig]
                rw [k1 rfl]; exact .code (.recvCS _ _ _ _ _)
              · rename_i hne
                have e : s'.chan = s1.chan := by
                  repeat' (split at h)
                  all_goals (simp only [Option.some.injEq, Prod.mk.injEq] at h; obtain ⟨rfl, -⟩ := h; simp)
                rw [e, k2 (by intro e; exact hne e)]; exact .code (.recvCS _ _ _ _ _)
            · repeat' (split at h)
              all_goals chan_id h
            · chan_id h
  case dropHandle side =>
    cases side <;> simp only at h <;> split at h
    all_goals first | (cases h; done) | skip
    all_goals split at h
    all_goals (simp only [Option.some.injEq, Prod.mk.injEq] at h; obtain ⟨rfl, -⟩ := h; simp)
    · exact .freed s.chan .send
    · exact .code (.drop s.chan .send)
    · exact .freed s.chan .recv
    · exact .code (.drop s.chan .recv)
  case isDisconnected side =>
    cases side <;> simp only at h <;> split at h
    all_goals first | (cases h; done) | chan_id h
  all_goals
    split at h
    all_goals first | (cases h; done) | chan_id h


end Machine
end Kanal

#print axioms Kanal.Machine.spec_chanstep
