/-
  Kanal.MutexM — side model for C17: kanal's spin lock (src/mutex.rs) and the
  `spin_cond` retry loop (src/backoff.rs) with its real control structure.

  Values of the lock word are sequentially consistent; visibility of the data the
  lock protects is modelled by *permission transfer*: `unlock` publishes the
  holder's permission iff its ordering has release semantics, a successful
  `compare_exchange` obtains it iff its success ordering has acquire semantics.
  An access without the permission sets `racy`.
-/
import Kanal.Basic

namespace Kanal.MutexM

/-- The orderings the code passes (taken from `Generated`, see `Tie.lean`). -/
structure Ords where
  lockSucc : Ord
  lockFail : Ord
  unlock   : Ord
  deriving DecidableEq, Repr

/-- Loop constants of `spin_cond`. -/
structure Consts where
  shortIters : Nat      -- SPINS / 2 iterations of the short phase (NO_YIELD = 1 round)
  spins0     : Nat      -- initial `spins`
  zeroSleep  : Nat      -- ZERO_SLEEP rounds
  spinMax    : Nat      -- 1 <<< 30
  deriving DecidableEq, Repr

/-- Program counter inside `spin_cond` (one constructor per loop position). -/
inductive SpinPc where
  | par1Cond | par1Yield                       -- parallelism 1: `while !cond() { yield_now_std() }`
  | shortCond (i : Nat) | shortHint (i : Nat)  -- short phase
  | yieldNow (sp : Nat)                        -- `yield_now()` at the top of the outer loop
  | condA (sp j : Nat)                         -- spinning phase, j-th `cond()`
  | sleepZ (sp z : Nat)                        -- `sleep(0)` of the z-th zero-sleep round
  | condZ (sp z j : Nat)                       -- its j-th `cond()`
  | backoff (sp : Nat)                         -- `sleep(1 ms)` and geometric back-off
  deriving DecidableEq, Repr

inductive Pc where
  | idle                -- not using the lock
  | tryOnce             -- `try_lock()`: about to do its single CAS
  | lockFast            -- `lock()`: about to do the fast-path CAS
  | spin (p : SpinPc)   -- inside `lock_no_inline` → `spin_cond(|| self.try_lock())`
  | inCS                -- holds the lock
  | gaveUp              -- `try_lock()` returned false
  deriving DecidableEq, Repr

/-- Is this loop position a call of `cond()` (i.e. of `try_lock`)? -/
def SpinPc.isCond : SpinPc → Bool
  | .par1Cond | .shortCond _ | .condA _ _ | .condZ _ _ _ => true
  | _ => false

/-- Next loop position after `cond()` returned false. -/
def SpinPc.afterFail (k : Consts) : SpinPc → SpinPc
  | .par1Cond => .par1Yield
  | .shortCond i => .shortHint i
  | .condA sp j => if j + 1 < sp then .condA sp (j + 1) else
      (if 0 < k.zeroSleep then .sleepZ sp 0 else .backoff sp)
  | .condZ sp z j => if j + 1 < sp then .condZ sp z (j + 1) else
      (if z + 1 < k.zeroSleep then .sleepZ sp (z + 1) else .backoff sp)
  | p => p

/-- Next loop position after a non-`cond` action (yield, spin hint, sleep). -/
def SpinPc.afterAux (k : Consts) : SpinPc → SpinPc
  | .par1Yield => .par1Cond
  | .shortHint i => if i + 1 < k.shortIters then .shortCond (i + 1) else .yieldNow k.spins0
  | .yieldNow sp => if 0 < sp then .condA sp 0 else (if 0 < k.zeroSleep then .sleepZ sp 0 else .backoff sp)
  | .sleepZ sp z => if 0 < sp then .condZ sp z 0 else
      (if z + 1 < k.zeroSleep then .sleepZ sp (z + 1) else .backoff sp)
  | .backoff sp => .yieldNow (if sp < k.spinMax then 2 * sp else sp)
  | p => p

/-- Entry point of `spin_cond`, depending on the reported parallelism. -/
def SpinPc.entry (k : Consts) (par1 : Bool) : SpinPc :=
  if par1 then .par1Cond else (if 0 < k.shortIters then .shortCond 0 else .yieldNow k.spins0)

def upd {β : Type} (f : Nat → β) (k : Nat) (v : β) : Nat → β := fun x => if x = k then v else f x

structure State where
  locked  : Bool := false
  pc      : Nat → Pc := fun _ => .idle
  perm    : Option Nat := none    -- who may access the protected data; `none`: published in the lock
  racy    : Bool := false
  version : Nat := 0              -- writes to the protected data so far
  seen    : Nat → Nat := fun _ => 0

inductive Ev where
  | tryLock (t : Nat)        -- a thread calls `try_lock()`
  | lock (t : Nat)           -- a thread calls `lock()`
  | cas (t : Nat)            -- its next `compare_exchange(false, true, …)`
  | aux (t : Nat)            -- a yield / spin hint / sleep inside `spin_cond`
  | touch (t : Nat)          -- an access to the protected data
  | unlock (t : Nat)         -- `unlock()`: `store(false, …)`
  | retry (t : Nat)          -- a thread whose `try_lock()` failed goes back to idle
  deriving DecidableEq, Repr

/-- Effect of a successful CAS by `t`. -/
def acquire (o : Ords) (s : State) (t : Nat) : State :=
  { s with locked := true, pc := upd s.pc t .inCS,
           perm := if o.lockSucc.isAcquire && s.perm == none then some t else s.perm }

/-- One step; `none` if the event is not enabled for that thread. -/
def step (o : Ords) (k : Consts) (par1 : Bool) (s : State) : Ev → Option State
  | .tryLock t => if s.pc t = .idle then some { s with pc := upd s.pc t .tryOnce } else none
  | .lock t => if s.pc t = .idle then some { s with pc := upd s.pc t .lockFast } else none
  | .cas t =>
    match s.pc t with
    | .tryOnce => some (if s.locked then { s with pc := upd s.pc t .gaveUp } else acquire o s t)
    | .lockFast => some (if s.locked then { s with pc := upd s.pc t (.spin (SpinPc.entry k par1)) } else acquire o s t)
    | .spin p =>
      if p.isCond then
        some (if s.locked then { s with pc := upd s.pc t (.spin (p.afterFail k)) } else acquire o s t)
      else none
    | _ => none
  | .aux t =>
    match s.pc t with
    | .spin p => if p.isCond then none else some { s with pc := upd s.pc t (.spin (p.afterAux k)) }
    | _ => none
  | .touch t =>
    if s.pc t = .inCS then
      some (if s.perm = some t then { s with version := s.version + 1, seen := upd s.seen t (s.version + 1) }
            else { s with racy := true })
    else none
  | .unlock t =>
    if s.pc t = .inCS then
      some { s with locked := false, pc := upd s.pc t .idle,
                    perm := if o.unlock.isRelease && s.perm == some t then none else s.perm }
    else none
  | .retry t => if s.pc t = .gaveUp then some { s with pc := upd s.pc t .idle } else none

inductive Reach (o : Ords) (k : Consts) (par1 : Bool) : State → Prop where
  | init : Reach o k par1 {}
  | step {s e s'} : Reach o k par1 s → MutexM.step o k par1 s e = some s' → Reach o k par1 s'

/-- Run a list of events. -/
def run (o : Ords) (k : Consts) (par1 : Bool) : State → List Ev → Option State
  | s, [] => some s
  | s, e :: es => match step o k par1 s e with
    | some s' => run o k par1 s' es
    | none => none

theorem Reach.run {o k par1 s} (h : Reach o k par1 s) : ∀ es s', MutexM.run o k par1 s es = some s' → Reach o k par1 s' := by
  intro es
  induction es generalizing s with
  | nil => intro s' e; simp [MutexM.run] at e; subst e; exact h
  | cons e es ih =>
    intro s' he
    simp only [MutexM.run] at he
    split at he
    · rename_i s1 hs; exact ih (Reach.step h hs) _ he
    · cases he

end Kanal.MutexM
