/-
  Kanal.Fine — the hand-written fine-grained model: every lock-taking function of kanal as an interaction
  tree (`Kanal.Act`) whose critical sections are the functions of `Kanal.Chan` — the same functions
  `Kanal.Spec.step` is built from.  `Kanal/TieCode.lean` proves each of them equal to the translation of
  the Rust source (`Kanal/GenCode.lean`, regenerated on every run), so a change to a critical section,
  to the order of effects around it, or to the way a guard is held breaks a theorem there.

  Conventions: `x : Ctx` is what the call was given; `.unlock c k` publishes `c`; the effects are listed in
  `Kanal.Act`.
-/
import Kanal.Act

namespace Kanal
namespace Fine
open Chan (SendBranch RecvBranch)

/-- `terminate_signals`, the part outside the logical state. -/
def terminate (l : List SigId) (k : Act) : Act :=
  Act.forEach l (fun t next => .eff (.sigTerminate t) next) k

/-- `if needs_drop::<T>() { data.assume_init_drop() }` -/
def dropData (k : Act) : Act := .askB .needsDrop fun b => if b then .eff .dropData k else k

/-- `if needs_drop::<T>() { self.drop_local_data() }` -/
def dropLocal (k : Act) : Act := .askB .needsDrop fun b => if b then .eff .dropLocal k else k

/-- the value of a failed blocked send: handed back (Option variants) or dropped -/
def failBack (opt : Bool) (k : Act) : Act := if opt then .eff .giveBack k else dropData k

/-- `if data.is_none() { panic!() }` of the Option variants -/
def guardNone (opt : Bool) (k : Act) : Act :=
  if opt then .askB .dataIsNone fun b => if b then .ret .panic else k else k

/-- `data.take().unwrap()` of the Option variants -/
def take (opt : Bool) (k : Act) : Act := if opt then .eff .takeData k else k

/-- `acquire_internal` / `try_acquire_internal` (the realtime variants give up with `busy`) -/
def acquire (realtime : Bool) (busy : Act) (k : Chan → Act) : Act :=
  if realtime then .tryLock fun oc => match oc with | some c => k c | none => busy
  else .lock k

/-- the closed / receive-closed answer of the send family (the lock is released first) -/
def sendErr (c : Chan) : Act :=
  .unlock c (if c.sendCount == 0 then .ret (.err .closed) else .ret (.err .recvClosed))

/-! ### handles and observers -/

def dropHandle (side : Side) : Act := .lock fun c =>
  terminate (c.dropCS side).2 (.unlock (c.dropCS side).1 (.ret .unit))

def cloneHandle (side : Side) : Act := .lock fun c => .unlock (c.cloneCS side) (.ret .unit)

def observe (f : Chan → Res) : Act := .lock fun c => .unlock c (.ret (f c))

def close : Act := .lock fun c =>
  match c.closeCS with
  | none => .unlock c (.ret (.err .closeErr))
  | some (c1, l, _) => terminate l (.unlock c1 (.ret .unit))

/-! ### the send family -/

/-- `try_send`, `try_send_option`, `try_send_realtime`, `try_send_option_realtime` -/
def trySend (opt realtime : Bool) (x : Ctx) : Act :=
  guardNone opt <| acquire realtime (.ret (.bool false)) fun c =>
    match c.sendPre x.m with
    | (_, .errClosed) | (_, .errRecvClosed) => sendErr c
    | (c1, .handoff r) => .unlock c1 (take opt (.eff (.sigSend r x.m) (.ret (.bool true))))
    | (c1, .buffered) => take opt (.unlock c1 (.ret (.bool true)))
    | (c1, .full) => .unlock c1 (.ret (.bool false))

/-- what a timed sender does after `wait_timeout` gave up -/
def timedSendTail (opt : Bool) (x : Ctx) : Act :=
  .askB .waitTimeout fun ok => if ok then .ret .unit else
  .askB .isTerminated fun t => if t then failBack opt (.ret (.err .closed)) else
  .lock fun c =>
    if (c.cancel .send x.me).2 then .unlock (c.cancel .send x.me).1 (failBack opt (.ret (.err .timeout)))
    else .unlock (c.cancel .send x.me).1
      (.askB .wait fun ok => if ok then .ret .unit else failBack opt (.ret (.err .closed)))

/-- `send` (`timed = false`), `send_timeout`, `send_option_timeout` -/
def send (timed opt : Bool) (x : Ctx) : Act :=
  guardNone opt <| (fun k => if timed then Act.eff .readClock k else k) <| .lock fun c =>
    match c.sendCS x.m x.me with
    | (_, .errClosed) | (_, .errRecvClosed) => sendErr c
    | (c1, .handoff r) => .unlock c1 (take opt (.eff (.sigSend r x.m) (.ret .unit)))
    | (c1, .buffered) => take opt (.unlock c1 (.ret .unit))
    | (c1, .full) =>
      .eff (if opt then .wrapTaken else .wrapData) <| .eff .newSendSig <| .unlock c1 <|
        if timed then timedSendTail opt x
        else .askB .wait fun ok => if ok then .ret .unit else dropData (.ret (.err .closed))

/-! ### the receive family -/

/-- the value of a completed blocked receive: `ret.assume_init()` or `sig.assume_init()` -/
def readOwn : Act :=
  .askB .sizeGtPtr fun big => if big then .askM .readRet fun m => .ret (.val m) else .askM .readSigPtr fun m => .ret (.val m)

/-- the common head of every receive: `closed` test, buffer, blocked sender, then `onNone c`
    (`wrap` is what happens between leaving the critical section and returning a value) -/
def recvHead (c : Chan) (wrap : Act → Act) (closedFirst : Act → Act) (onNone : Chan → Act) : Act :=
  if c.recvCount == 0 then closedFirst (.unlock c (.ret (.err .closed)))
  else match c.queue with
    | v :: q =>
      match ({ c with queue := q }).nextSend with
      | (c1, some p) => .askM (.sigRecv p) fun m => .unlock { c1 with queue := c1.queue ++ [m] } (wrap (.ret (.val v)))
      | (c1, none) => .unlock c1 (wrap (.ret (.val v)))
    | [] =>
      match c.nextSend with
      | (c1, some p) => .unlock c1 (wrap (.askM (.sigRecv p) fun m => .ret (.val m)))
      | (c1, none) => onNone c1

/-- `try_recv`, `try_recv_realtime` -/
def tryRecv (realtime : Bool) : Act :=
  acquire realtime (.ret .none) fun c =>
    recvHead c id id fun c1 =>
      if c1.sendCount == 0 then .unlock c1 (.ret (.err .sendClosed)) else .unlock c1 (.ret .none)

/-- what a timed receiver does after `wait_timeout` gave up -/
def timedRecvTail (x : Ctx) : Act :=
  .askB .waitTimeout fun ok => if ok then readOwn else
  .askB .isTerminated fun t => if t then .ret (.err .closed) else
  .lock fun c =>
    if (c.cancel .recv x.me).2 then .unlock (c.cancel .recv x.me).1 (.ret (.err .timeout))
    else .unlock (c.cancel .recv x.me).1 (.askB .wait fun ok => if ok then readOwn else .ret (.err .closed))

/-- `recv` (`timed = false`), `recv_timeout` -/
def recv (timed : Bool) (x : Ctx) : Act :=
  (fun k => if timed then Act.eff .readClock k else k) <| .lock fun c =>
    recvHead c id id fun c1 =>
      (fun k => if timed then Act.askB .expired fun e => if e then .unlock c1 (.ret (.err .timeout)) else k else k) <|
      if c1.sendCount == 0 then .unlock c1 (.ret (.err .sendClosed))
      else .eff .newRetSlot <| .eff .newRecvSig <| .unlock (c1.pushWaiter x.me) <|
        if timed then timedRecvTail x
        else .askB .wait fun ok => if ok then readOwn else .ret (.err .closed)

/-- the two loops of `drain_into`, under the lock: the buffer, then every blocked sender -/
def drainSenders (l : List SigId) (k : Act) : Act :=
  Act.forEach l (fun p next => .askM (.sigRecv p) fun m => .eff (.vecPush m) next) k

def drainQueue (q : List Msg) (k : Act) : Act :=
  Act.forEach q (fun v next => .eff (.vecPush v) next) k

/-- `drain_into` -/
def drain (x : Ctx) : Act := .lock fun c =>
  match c.drainCS with
  | none => .unlock c (.ret (.err .closed))
  | some (c1, q, senders, n) =>
    (fun k => if n > x.vcap - x.vlen then Act.eff (.vecReserve (x.vlen + n - (x.vcap - x.vlen))) k else k) <|
    drainQueue q <| drainSenders senders <| .unlock c1 (.ret (.num n))

/-! ### futures -/

/-- `Drop for SendFuture` -/
def dropSendFut (x : Ctx) : Act :=
  if x.st == .done then .ret .unit
  else if x.st == .waiting then .lock fun c =>
    .unlock (c.cancel .send x.me).1
      (if (c.cancel .send x.me).2 then dropLocal (.ret .unit)
       else .askB .asyncBlockingWait fun ok => if ok then .ret .unit else dropLocal (.ret .unit))
  else dropLocal (.ret .unit)

/-- `Drop for ReceiveFuture` -/
def dropRecvFut (x : Ctx) : Act :=
  if x.st == .waiting then .lock fun c =>
    .unlock (c.cancel .recv x.me).1
      (if (c.cancel .recv x.me).2 then .ret .unit
       else .askB .asyncBlockingWait fun ok => if ok then dropLocal (.ret .unit) else .ret .unit)
  else .ret .unit

/-- registration of a future: `set_ptr` for large payloads, `register_waker`, then the wait list -/
def register (k : Act) : Act :=
  .eff (.setState .waiting) <| .askB .sizeGtPtr fun big =>
    if big then .eff .setPtr (.eff .registerWaker k) else .eff .registerWaker k

/-- `SendFuture::poll` -/
def pollSend (x : Ctx) : Act :=
  match x.st with
  | .zero => .lock fun c =>
    match c.sendCS x.m x.me with
    | (_, .errClosed) => .unlock c (.eff (.setState .done) (dropLocal (.ret (.err .closed))))
    | (_, .errRecvClosed) => .unlock c (.eff (.setState .done) (dropLocal (.ret (.err .recvClosed))))
    | (c1, .handoff r) => .unlock c1 (.eff (.setState .done) (.eff .readLocal (.eff (.sigSend r x.m) (.ret .unit))))
    | (c1, .buffered) => .eff (.setState .done) (.eff .readLocal (.unlock c1 (.ret .unit)))
    | (c1, .full) => register (.unlock c1 (.ret .pending))
  | .waiting => .askP fun r =>
    match r with
    | some ok => .eff (.setState .done) (if ok then .ret .unit else dropLocal (.ret (.err .closed)))
    | none => .askB .willWake fun same => if same then .ret .pending else
      .lock fun c =>
        if c.sigExists .send x.me then .eff .registerWaker (.unlock c (.ret .pending))
        else .unlock c (.eff (.setState .done) (.askB .asyncBlockingWait fun ok =>
          if ok then .ret .unit else dropLocal (.ret (.err .closed))))
  | .done => .ret .panic

/-- one round of `ReceiveFuture::poll` from state `st` (`again` = the stream's `continue`) -/
def pollRecvRound (x : Ctx) (st : FutSt) (again : Act) : Act :=
  match st with
  | .zero => .lock fun c =>
    recvHead c (fun k => .eff (.setState .done) k) (fun k => .eff (.setState .done) k) fun c1 =>
      if c1.sendCount == 0 then .eff (.setState .done) (.unlock c1 (.ret (.err .sendClosed)))
      else register (.unlock (c1.pushWaiter x.me) (.ret .pending))
  | .waiting => .askP fun r =>
    match r with
    | some ok => .eff (.setState .done) (if ok then .askM .readLocal fun m => .ret (.val m) else .ret (.err .closed))
    | none => .askB .willWake fun same => if same then .ret .pending else
      .lock fun c =>
        if c.sigExists .recv x.me then .eff .registerWaker (.unlock c (.ret .pending))
        else .unlock c (.eff (.setState .done) (.askB .asyncBlockingWait fun ok =>
          if ok then .askM .readLocal fun m => .ret (.val m) else .ret (.err .closed)))
  | .done => if x.isStream then .eff .rearmSig (.eff (.setState .zero) again) else .ret .panic

/-- `ReceiveFuture::poll`: a finished stream future re-arms and goes round once more -/
def pollRecv (x : Ctx) : Act :=
  pollRecvRound x x.st (pollRecvRound x .zero .diverge)

/-- `ReceiveStream::poll_next`: an ended stream keeps ending; otherwise one poll of the wrapped future, an error ends the stream -/
def pollNext (x : Ctx) : Act :=
  if x.terminated then .ret .streamEnd
  else (pollRecv x).bind fun r =>
    match r with
    | .pending => .ret .pending
    | .val d => .ret (.val d)
    | .err _ => .eff .setTerminated (.ret .streamEnd)
    | o => .ret o

end Fine
end Kanal
