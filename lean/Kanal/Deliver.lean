/-
  Kanal.Deliver — "a value the receive family takes out of the channel is delivered exactly once".

  The receiver-side counterpart of `Kanal.Disp`.  A receiver gets values into its hands in three ways:

  (a) it takes them from the buffer (`c.queue`) inside a critical section;
  (b) it reads them out of a blocked sender's slot: `.askM (.sigRecv p) k` (the answer is the value);
  (c) a peer delivered into the receiver's own slot and it reads that: `.askM .readRet k`, `.askM .readSigPtr k`,
      `.askM .readLocal k`.

  Every value in hand must leave exactly once: returned (`ret (.val m)`), appended to the caller's vector
  (`eff (.vecPush m)`), put into the buffer (the section publishes a queue that contains it), or — only for a value
  delivered into a dropped future — destroyed unread (`eff .dropLocal`).  `Dlv t st` is a discipline of the tree `t`, for
  ALL answers of the environment.  Values are `Msg = Nat` and may repeat: the hand is a MULTISET, represented by a list
  and compared with `List.Perm` (`dlv_perm`: the discipline does not depend on the order of the hand).

  BOOKKEEPING (one consistent choice, used throughout):

  * `hand`   — the values in hand;
  * `slot`   — a peer has delivered a value into my own slot and I have not read (or destroyed) it yet; set by the answer
               `true` of `wait` / `wait_timeout` / `async_blocking_wait` and by `poll = Ready(true)`, cleared by the read
               (`readRet`, `readSigPtr`, `readLocal`: the value enters the hand) and by `drop_local_data`;
  * `early`  — values of the BUFFER that were used under the lock before the section ended (`drain_into` pushes the
               buffered values to the vector and only then lets the guard die).  `vec.push(m)` takes `m` from the hand if it
               is there; otherwise it must happen under the lock and `m` is written to `early` — a debt that the `unlock`
               settles against the buffer the section bound.  (Informal remark, not a theorem: taking from the hand first
               loses nothing — values are indistinguishable, and a debt only adds an obligation at `unlock`.)
  * `pushed` — the number of `vec.push` so far; a `ret (.num n)` must report it (`drain_into`'s count).

  The `unlock` rule (`Settle`): with `c` the state bound and `c1` the state published,

      c.queue = took ++ rest      the buffer may only lose a prefix …
      c1.queue = rest ++ put      … and gain values at the end;
      took ~ early ++ left        the prefix pays the debt `early`, `left` goes into the hand;
      hand ++ left ~ put ++ hand' what is put into the buffer comes out of the hand; `hand'` is the hand afterwards.

  (`put` may also draw on `left`, i.e. a section may move a value from the front of the buffer to its end; that conserves
  every value.  `Settle.count` / `Settle.length` / `Settle.suffix` state what the rule means: per value, buffer found + hand =
  buffer published + early + hand afterwards, and the published buffer is a suffix of the one found plus new values.)
  This is the FULL rule of the task (arbitrary prefix taken, arbitrary values put), not the specialised shapes; the four
  shapes that occur (`settle_same`, `settle_pop`, `settle_refill`, `settle_drain`) are lemmas about it.

  RULES ADJUSTED: none of the task's rules is false for a tree of the receive family.  Two details were decided here:
  (1) `ret` requires `hand = []` for every result that is not a `.val` (not only for `.num`), and `ret (.num n)` must have
  `n = pushed`; (2) `lock`/`tryLock` need no `Nodup` hypothesis.  As in `Disp`, `needs_drop::<T>()` is followed only on the
  answer `true`.
-/
import Kanal.Fine
import Kanal.TieCode

namespace Kanal
namespace Deliver

structure RSt where
  cur    : Option Chan := none   -- the state bound by the critical section in progress
  hand   : List Msg := []        -- values in hand (a multiset)
  slot   : Bool := false         -- a delivered value sits unread in my own slot
  early  : List Msg := []        -- buffer values used under the lock, settled at `unlock`
  pushed : Nat := 0              -- number of `vec.push` so far

/-- the accounting of one critical section that bound `c` and publishes `c1` -/
def Settle (c c1 : Chan) (early hand hand' : List Msg) : Prop :=
  ∃ took rest put left, c.queue = took ++ rest ∧ c1.queue = rest ++ put ∧
    took.Perm (early ++ left) ∧ (hand ++ left).Perm (put ++ hand')

/-- the values a result hands to the caller -/
def vals : Res → List Msg
  | .val m => [m]
  | .unit => []
  | .bool _ => []
  | .none => []
  | .num _ => []
  | .cap _ => []
  | .drained _ _ => []
  | .err _ => []
  | .pending => []
  | .blocked _ => []
  | .streamEnd => []
  | .panic => []
  | .spin => []

/-- what an effect requires -/
def effPre : Eff → RSt → Prop
  | .vecPush m, st => m ∈ st.hand ∨ st.cur.isSome = true
  | .dropLocal, st => st.slot = true
  | .sigSend _ _, _ => True
  | .sigTerminate _, _ => True
  | .wrapData, _ => True
  | .wrapTaken, _ => True
  | .newSendSig, _ => True
  | .newRetSlot, _ => True
  | .newRecvSig, _ => True
  | .readClock, _ => True
  | .dropData, _ => True
  | .giveBack, _ => True
  | .setState _, _ => True
  | .setPtr, _ => True
  | .registerWaker, _ => True
  | .rearmSig, _ => True
  | .setTerminated, _ => True
  | .vecReserve _, _ => True
  | .takeData, _ => True
  | .readLocal, _ => True
  | .unknown _, _ => True

/-- the state after an effect -/
def effPost : Eff → RSt → RSt
  | .vecPush m, st =>
    if m ∈ st.hand then { st with hand := st.hand.erase m, pushed := st.pushed + 1 }
    else { st with early := st.early ++ [m], pushed := st.pushed + 1 }
  | .dropLocal, st => { st with slot := false }
  | .sigSend _ _, st => st
  | .sigTerminate _, st => st
  | .wrapData, st => st
  | .wrapTaken, st => st
  | .newSendSig, st => st
  | .newRetSlot, st => st
  | .newRecvSig, st => st
  | .readClock, st => st
  | .dropData, st => st
  | .giveBack, st => st
  | .setState _, st => st
  | .setPtr, st => st
  | .registerWaker, st => st
  | .rearmSig, st => st
  | .setTerminated, st => st
  | .vecReserve _, st => st
  | .takeData, st => st
  | .readLocal, st => st
  | .unknown _, st => st

/-- the questions whose answer `true` means "a peer delivered into my slot" -/
def fills : AskB → Bool
  | .wait => true
  | .waitTimeout => true
  | .asyncBlockingWait => true
  | .isTerminated => false
  | .willWake => false
  | .needsDrop => false
  | .sizeGtPtr => false
  | .expired => false
  | .dataIsNone => false
  | .unknown _ => false

/-- the answers that are followed: `needs_drop::<T>()` only on `true` -/
def askBAsk (q : AskB) (b : Bool) : Prop := q = .needsDrop → b = true

def askBPost (q : AskB) (b : Bool) (st : RSt) : RSt := if fills q && b then { st with slot := true } else st

/-- reading my own slot needs a delivered value in it -/
def askMPre : AskM → RSt → Prop
  | .sigRecv _, _ => True
  | .readLocal, st => st.slot = true
  | .readRet, st => st.slot = true
  | .readSigPtr, st => st.slot = true

def askMPost : AskM → Msg → RSt → RSt
  | .sigRecv _, m, st => { st with hand := m :: st.hand }
  | .readLocal, m, st => { st with hand := m :: st.hand, slot := false }
  | .readRet, m, st => { st with hand := m :: st.hand, slot := false }
  | .readSigPtr, m, st => { st with hand := m :: st.hand, slot := false }

def askPPost : Option Bool → RSt → RSt
  | some true, st => { st with slot := true }
  | some false, st => st
  | none, st => st

inductive Dlv : Act → RSt → Prop where
  | ret {r st} : st.cur = none → st.slot = false → st.hand = vals r → (∀ n, r = .num n → n = st.pushed) → Dlv (.ret r) st
  | diverge {st} : Dlv .diverge st
  | lock {k st} : st.cur = none → (∀ c : Chan, Dlv (k c) { st with cur := some c }) → Dlv (.lock k) st
  | tryLock {k st} : st.cur = none → (∀ c : Chan, Dlv (k (some c)) { st with cur := some c }) → Dlv (k none) st →
      Dlv (.tryLock k) st
  | unlock {c1 k c st hand'} : st.cur = some c → Settle c c1 st.early st.hand hand' →
      Dlv k { st with cur := none, hand := hand', early := [] } → Dlv (.unlock c1 k) st
  | eff {e k st} : effPre e st → Dlv k (effPost e st) → Dlv (.eff e k) st
  | askB {q k st} : (∀ b, askBAsk q b → Dlv (k b) (askBPost q b st)) → Dlv (.askB q k) st
  | askM {q k st} : askMPre q st → (∀ m, Dlv (k m) (askMPost q m st)) → Dlv (.askM q k) st
  | askP {k st} : (∀ r, Dlv (k r) (askPPost r st)) → Dlv (.askP k) st

/-! ### `Dlv` as rewriting rules -/

@[simp] theorem dlv_ret {r st} : Dlv (.ret r) st ↔
    st.cur = none ∧ st.slot = false ∧ st.hand = vals r ∧ ∀ n, r = .num n → n = st.pushed :=
  ⟨fun h => by cases h with | ret a b c d => exact ⟨a, b, c, d⟩, fun ⟨a, b, c, d⟩ => .ret a b c d⟩
@[simp] theorem dlv_diverge {st} : Dlv .diverge st ↔ True := ⟨fun _ => trivial, fun _ => .diverge⟩
@[simp] theorem dlv_lock {k st} : Dlv (.lock k) st ↔ st.cur = none ∧ ∀ c : Chan, Dlv (k c) { st with cur := some c } :=
  ⟨fun h => by cases h with | lock a b => exact ⟨a, b⟩, fun ⟨a, b⟩ => .lock a b⟩
@[simp] theorem dlv_tryLock {k st} : Dlv (.tryLock k) st ↔
    st.cur = none ∧ (∀ c : Chan, Dlv (k (some c)) { st with cur := some c }) ∧ Dlv (k none) st :=
  ⟨fun h => by cases h with | tryLock a b c => exact ⟨a, b, c⟩, fun ⟨a, b, c⟩ => .tryLock a b c⟩
theorem dlv_unlock {c1 k st} : Dlv (.unlock c1 k) st ↔
    ∃ c hand', st.cur = some c ∧ Settle c c1 st.early st.hand hand' ∧
      Dlv k { st with cur := none, hand := hand', early := [] } :=
  ⟨fun h => by cases h with | unlock a b c => exact ⟨_, _, a, b, c⟩, fun ⟨_, _, a, b, c⟩ => .unlock a b c⟩
@[simp] theorem dlv_eff {e k st} : Dlv (.eff e k) st ↔ effPre e st ∧ Dlv k (effPost e st) :=
  ⟨fun h => by cases h with | eff a b => exact ⟨a, b⟩, fun ⟨a, b⟩ => .eff a b⟩
theorem dlv_askB {q k st} : Dlv (.askB q k) st ↔ ∀ b, askBAsk q b → Dlv (k b) (askBPost q b st) :=
  ⟨fun h => by cases h with | askB a => exact a, .askB⟩
@[simp] theorem dlv_askM {q k st} : Dlv (.askM q k) st ↔ askMPre q st ∧ ∀ m, Dlv (k m) (askMPost q m st) :=
  ⟨fun h => by cases h with | askM a b => exact ⟨a, b⟩, fun ⟨a, b⟩ => .askM a b⟩
@[simp] theorem dlv_askP {k st} : Dlv (.askP k) st ↔
    Dlv (k (some true)) { st with slot := true } ∧ Dlv (k (some false)) st ∧ Dlv (k none) st :=
  ⟨fun h => by cases h with | askP a => exact ⟨a (some true), a (some false), a none⟩,
   fun ⟨a, b, c⟩ => .askP fun r => match r with | some true => a | some false => b | none => c⟩
@[simp] theorem dlv_ite {c : Prop} [Decidable c] {t e : Act} {st} :
    Dlv (if c then t else e) st ↔ (c → Dlv t st) ∧ (¬ c → Dlv e st) := by
  split <;> simp [*]

/-! ### the questions, one rule each -/

/-- `needs_drop::<T>()`: only the answer `true` is followed -/
@[simp] theorem dlv_needsDrop {k st} : Dlv (.askB .needsDrop k) st ↔ Dlv (k true) st := by
  rw [dlv_askB]
  constructor
  · intro h; simpa [askBPost, fills] using h true (fun _ => rfl)
  · intro h b hb
    cases hb rfl
    simpa [askBPost, fills] using h

theorem dlv_askB_fills {q k st} (hq : fills q = true) : Dlv (.askB q k) st ↔
    Dlv (k true) { st with slot := true } ∧ Dlv (k false) st := by
  have hn : q ≠ .needsDrop := by rintro rfl; simp [fills] at hq
  rw [dlv_askB]
  constructor
  · intro h
    have h1 := h true (fun e => absurd e hn)
    have h2 := h false (fun e => absurd e hn)
    simp only [askBPost, hq, Bool.and_true, Bool.and_false, if_true] at h1 h2
    exact ⟨h1, by simpa using h2⟩
  · rintro ⟨h1, h2⟩ b _
    cases b
    · simpa [askBPost] using h2
    · simpa [askBPost, hq] using h1

theorem dlv_askB_pass {q k st} (hq : fills q = false) (hn : q ≠ .needsDrop) : Dlv (.askB q k) st ↔ ∀ b, Dlv (k b) st := by
  rw [dlv_askB]
  constructor
  · intro h b; simpa [askBPost, hq] using h b (fun e => absurd e hn)
  · intro h b _; simpa [askBPost, hq] using h b

@[simp] theorem dlv_wait {k st} : Dlv (.askB .wait k) st ↔ Dlv (k true) { st with slot := true } ∧ Dlv (k false) st :=
  dlv_askB_fills rfl
@[simp] theorem dlv_waitTimeout {k st} : Dlv (.askB .waitTimeout k) st ↔
    Dlv (k true) { st with slot := true } ∧ Dlv (k false) st := dlv_askB_fills rfl
@[simp] theorem dlv_asyncBlockingWait {k st} : Dlv (.askB .asyncBlockingWait k) st ↔
    Dlv (k true) { st with slot := true } ∧ Dlv (k false) st := dlv_askB_fills rfl
@[simp] theorem dlv_isTerminated {k st} : Dlv (.askB .isTerminated k) st ↔ ∀ b, Dlv (k b) st := dlv_askB_pass rfl (by simp)
@[simp] theorem dlv_willWake {k st} : Dlv (.askB .willWake k) st ↔ ∀ b, Dlv (k b) st := dlv_askB_pass rfl (by simp)
@[simp] theorem dlv_sizeGtPtr {k st} : Dlv (.askB .sizeGtPtr k) st ↔ ∀ b, Dlv (k b) st := dlv_askB_pass rfl (by simp)
@[simp] theorem dlv_expired {k st} : Dlv (.askB .expired k) st ↔ ∀ b, Dlv (k b) st := dlv_askB_pass rfl (by simp)
@[simp] theorem dlv_dataIsNone {k st} : Dlv (.askB .dataIsNone k) st ↔ ∀ b, Dlv (k b) st := dlv_askB_pass rfl (by simp)
@[simp] theorem dlv_askB_unknown {t k st} : Dlv (.askB (.unknown t) k) st ↔ ∀ b, Dlv (k b) st :=
  dlv_askB_pass rfl (by simp)

@[simp] theorem askMPre_sigRecv (p st) : askMPre (.sigRecv p) st ↔ True := Iff.rfl
@[simp] theorem askMPre_readLocal (st) : askMPre .readLocal st ↔ st.slot = true := Iff.rfl
@[simp] theorem askMPre_readRet (st) : askMPre .readRet st ↔ st.slot = true := Iff.rfl
@[simp] theorem askMPre_readSigPtr (st) : askMPre .readSigPtr st ↔ st.slot = true := Iff.rfl
@[simp] theorem askMPost_sigRecv (p m st) : askMPost (.sigRecv p) m st = { st with hand := m :: st.hand } := rfl
@[simp] theorem askMPost_readLocal (m st) : askMPost .readLocal m st = { st with hand := m :: st.hand, slot := false } := rfl
@[simp] theorem askMPost_readRet (m st) : askMPost .readRet m st = { st with hand := m :: st.hand, slot := false } := rfl
@[simp] theorem askMPost_readSigPtr (m st) :
    askMPost .readSigPtr m st = { st with hand := m :: st.hand, slot := false } := rfl

/-! ### the effects, one rule each -/

@[simp] theorem effPre_vecPush (m st) : effPre (.vecPush m) st ↔ m ∈ st.hand ∨ st.cur.isSome = true := Iff.rfl
@[simp] theorem effPre_dropLocal (st) : effPre .dropLocal st ↔ st.slot = true := Iff.rfl
@[simp] theorem effPre_sigSend (p a st) : effPre (.sigSend p a) st ↔ True := Iff.rfl
@[simp] theorem effPre_sigTerminate (p st) : effPre (.sigTerminate p) st ↔ True := Iff.rfl
@[simp] theorem effPre_wrapData (st) : effPre .wrapData st ↔ True := Iff.rfl
@[simp] theorem effPre_wrapTaken (st) : effPre .wrapTaken st ↔ True := Iff.rfl
@[simp] theorem effPre_newSendSig (st) : effPre .newSendSig st ↔ True := Iff.rfl
@[simp] theorem effPre_newRetSlot (st) : effPre .newRetSlot st ↔ True := Iff.rfl
@[simp] theorem effPre_newRecvSig (st) : effPre .newRecvSig st ↔ True := Iff.rfl
@[simp] theorem effPre_readClock (st) : effPre .readClock st ↔ True := Iff.rfl
@[simp] theorem effPre_dropData (st) : effPre .dropData st ↔ True := Iff.rfl
@[simp] theorem effPre_giveBack (st) : effPre .giveBack st ↔ True := Iff.rfl
@[simp] theorem effPre_setState (s st) : effPre (.setState s) st ↔ True := Iff.rfl
@[simp] theorem effPre_setPtr (st) : effPre .setPtr st ↔ True := Iff.rfl
@[simp] theorem effPre_registerWaker (st) : effPre .registerWaker st ↔ True := Iff.rfl
@[simp] theorem effPre_rearmSig (st) : effPre .rearmSig st ↔ True := Iff.rfl
@[simp] theorem effPre_setTerminated (st) : effPre .setTerminated st ↔ True := Iff.rfl
@[simp] theorem effPre_vecReserve (n st) : effPre (.vecReserve n) st ↔ True := Iff.rfl
@[simp] theorem effPre_takeData (st) : effPre .takeData st ↔ True := Iff.rfl
@[simp] theorem effPre_readLocal (st) : effPre .readLocal st ↔ True := Iff.rfl
@[simp] theorem effPre_unknown (t st) : effPre (.unknown t) st ↔ True := Iff.rfl

theorem effPost_vecPush (m st) : effPost (.vecPush m) st =
    if m ∈ st.hand then { st with hand := st.hand.erase m, pushed := st.pushed + 1 }
    else { st with early := st.early ++ [m], pushed := st.pushed + 1 } := rfl
@[simp] theorem effPost_dropLocal (st) : effPost .dropLocal st = { st with slot := false } := rfl
@[simp] theorem effPost_sigSend (p a st) : effPost (.sigSend p a) st = st := rfl
@[simp] theorem effPost_sigTerminate (p st) : effPost (.sigTerminate p) st = st := rfl
@[simp] theorem effPost_wrapData (st) : effPost .wrapData st = st := rfl
@[simp] theorem effPost_wrapTaken (st) : effPost .wrapTaken st = st := rfl
@[simp] theorem effPost_newSendSig (st) : effPost .newSendSig st = st := rfl
@[simp] theorem effPost_newRetSlot (st) : effPost .newRetSlot st = st := rfl
@[simp] theorem effPost_newRecvSig (st) : effPost .newRecvSig st = st := rfl
@[simp] theorem effPost_readClock (st) : effPost .readClock st = st := rfl
@[simp] theorem effPost_dropData (st) : effPost .dropData st = st := rfl
@[simp] theorem effPost_giveBack (st) : effPost .giveBack st = st := rfl
@[simp] theorem effPost_setState (s st) : effPost (.setState s) st = st := rfl
@[simp] theorem effPost_setPtr (st) : effPost .setPtr st = st := rfl
@[simp] theorem effPost_registerWaker (st) : effPost .registerWaker st = st := rfl
@[simp] theorem effPost_rearmSig (st) : effPost .rearmSig st = st := rfl
@[simp] theorem effPost_setTerminated (st) : effPost .setTerminated st = st := rfl
@[simp] theorem effPost_vecReserve (n st) : effPost (.vecReserve n) st = st := rfl
@[simp] theorem effPost_takeData (st) : effPost .takeData st = st := rfl
@[simp] theorem effPost_readLocal (st) : effPost .readLocal st = st := rfl
@[simp] theorem effPost_unknown (t st) : effPost (.unknown t) st = st := rfl

@[simp] theorem vals_val (m) : vals (.val m) = [m] := rfl
@[simp] theorem vals_unit : vals .unit = [] := rfl
@[simp] theorem vals_bool (b) : vals (.bool b) = [] := rfl
@[simp] theorem vals_none : vals .none = [] := rfl
@[simp] theorem vals_num (n) : vals (.num n) = [] := rfl
@[simp] theorem vals_cap (n) : vals (.cap n) = [] := rfl
@[simp] theorem vals_drained (n l) : vals (.drained n l) = [] := rfl
@[simp] theorem vals_err (e) : vals (.err e) = [] := rfl
@[simp] theorem vals_pending : vals .pending = [] := rfl
@[simp] theorem vals_blocked (s) : vals (.blocked s) = [] := rfl
@[simp] theorem vals_streamEnd : vals .streamEnd = [] := rfl
@[simp] theorem vals_panic : vals .panic = [] := rfl
@[simp] theorem vals_spin : vals .spin = [] := rfl

/-- `vec.push(m)` of a value in hand: one occurrence leaves the hand -/
theorem dlv_vecPush_hand {m k st} (h : m ∈ st.hand) : Dlv (.eff (.vecPush m) k) st ↔
    Dlv k { st with hand := st.hand.erase m, pushed := st.pushed + 1 } := by
  simp [effPost_vecPush, h]
/-- `vec.push(m)` of a value not in hand: only under the lock, on credit against the buffer -/
theorem dlv_vecPush_early {m k st} (h : m ∉ st.hand) : Dlv (.eff (.vecPush m) k) st ↔
    st.cur.isSome = true ∧ Dlv k { st with early := st.early ++ [m], pushed := st.pushed + 1 } := by
  simp [effPost_vecPush, h]

/-! ### the rules, literally as stated in the task -/

theorem dlv_ret_iff {r st} : Dlv (.ret r) st ↔
    st.cur = none ∧ st.slot = false ∧ (∀ m, r = .val m → st.hand = [m]) ∧ ((∀ m, r ≠ .val m) → st.hand = []) ∧
      (∀ n, r = .num n → n = st.pushed) := by
  rw [dlv_ret]
  cases r <;> simp
theorem dlv_sigRecv_iff {p k st} : Dlv (.askM (.sigRecv p) k) st ↔ ∀ m, Dlv (k m) { st with hand := m :: st.hand } := by
  simp
theorem dlv_readOwn_iff {q k st} (hq : q = .readRet ∨ q = .readSigPtr ∨ q = .readLocal) : Dlv (.askM q k) st ↔
    st.slot = true ∧ ∀ m, Dlv (k m) { st with hand := m :: st.hand, slot := false } := by
  rcases hq with rfl | rfl | rfl <;> simp
theorem dlv_fills_iff {q k st} (hq : q = .wait ∨ q = .waitTimeout ∨ q = .asyncBlockingWait) : Dlv (.askB q k) st ↔
    Dlv (k true) { st with slot := true } ∧ Dlv (k false) st := by
  rcases hq with rfl | rfl | rfl <;> simp
theorem dlv_dropLocal_iff {k st} : Dlv (.eff .dropLocal k) st ↔ st.slot = true ∧ Dlv k { st with slot := false } := by
  simp
theorem dlv_vecPush_iff {m k st} : Dlv (.eff (.vecPush m) k) st ↔
    (m ∈ st.hand ∧ Dlv k { st with hand := st.hand.erase m, pushed := st.pushed + 1 }) ∨
    (m ∉ st.hand ∧ st.cur.isSome = true ∧ Dlv k { st with early := st.early ++ [m], pushed := st.pushed + 1 }) := by
  by_cases h : m ∈ st.hand
  · rw [dlv_vecPush_hand h]; simp [h]
  · rw [dlv_vecPush_early h]; simp [h]
/-- every other effect passes through -/
theorem dlv_eff_other_iff {e k st} (h1 : ∀ m, e ≠ .vecPush m) (h2 : e ≠ .dropLocal) : Dlv (.eff e k) st ↔ Dlv k st := by
  cases e <;> simp_all
/-- every other Boolean question passes through -/
theorem dlv_askB_other_iff {q k st} (h1 : q ≠ .needsDrop) (h2 : q ≠ .wait) (h3 : q ≠ .waitTimeout)
    (h4 : q ≠ .asyncBlockingWait) : Dlv (.askB q k) st ↔ ∀ b, Dlv (k b) st := by
  cases q <;> simp_all

/-! ### the hand is a multiset -/

theorem Settle.perm {c c1 : Chan} {early hand hand' h2 : List Msg} (hs : Settle c c1 early hand hand') (hp : hand.Perm h2) :
    Settle c c1 early h2 hand' := by
  obtain ⟨took, rest, put, left, a, b, d, e⟩ := hs
  exact ⟨took, rest, put, left, a, b, d, (hp.symm.append_right left).trans e⟩

theorem Settle.perm_out {c c1 : Chan} {early hand hand' h2 : List Msg} (hs : Settle c c1 early hand hand')
    (hp : hand'.Perm h2) : Settle c c1 early hand h2 := by
  obtain ⟨took, rest, put, left, a, b, d, e⟩ := hs
  exact ⟨took, rest, put, left, a, b, d, e.trans (hp.append_left put)⟩

theorem vals_perm {r : Res} {l : List Msg} (h : (vals r).Perm l) : l = vals r := by
  cases r <;> simp_all [eq_comm]

/-- the discipline does not depend on the order in which the hand is listed -/
theorem dlv_perm {t : Act} {st : RSt} (h : Dlv t st) : ∀ {h2 : List Msg}, st.hand.Perm h2 → Dlv t { st with hand := h2 } := by
  induction h with
  | ret a b c d =>
    intro h2 hp
    rename_i r st
    rw [c] at hp
    exact .ret a b (vals_perm hp) d
  | diverge => intro _ _; exact .diverge
  | lock a _ ih => intro h2 hp; exact .lock a fun c => ih c hp
  | tryLock a _ _ ih1 ih2 => intro h2 hp; exact .tryLock a (fun c => ih1 c hp) (ih2 hp)
  | unlock a b _ ih => intro h2 hp; exact .unlock a (b.perm hp) (ih (List.Perm.refl _))
  | @eff e k st a _ ih =>
    intro h2 hp
    cases e with
    | vecPush m =>
      by_cases hm : m ∈ st.hand
      · have hm2 : m ∈ h2 := hp.mem_iff.mp hm
        refine .eff (Or.inl hm2) ?_
        have := ih (h2 := h2.erase m) (by simpa [effPost_vecPush, hm] using hp.erase m)
        simpa [effPost_vecPush, hm, hm2] using this
      · have hm2 : m ∉ h2 := fun x => hm (hp.mem_iff.mpr x)
        refine .eff (by simpa [hm, hm2] using a) ?_
        have := ih (h2 := h2) (by simpa [effPost_vecPush, hm] using hp)
        simpa [effPost_vecPush, hm, hm2] using this
    | _ => exact .eff a (ih hp)
  | askB _ ih =>
    intro h2 hp
    refine .askB fun b hb => ?_
    have := ih b hb (h2 := h2) (by unfold askBPost; split <;> exact hp)
    unfold askBPost at this ⊢
    split <;> simp_all
  | @askM q k st a _ ih =>
    intro h2 hp
    cases q <;> exact .askM a fun m => ih m (h2 := m :: h2) (hp.cons m)
  | askP _ ih =>
    intro h2 hp
    refine .askP fun r => ?_
    match r with
    | some true => exact ih (some true) hp
    | some false => exact ih (some false) hp
    | none => exact ih none hp

/-! ### what the critical sections do to the buffer -/

/-- `next_send` touches the wait list and the flag only -/
theorem nextSend_queue (c : Chan) : c.nextSend.1.queue = c.queue := by
  unfold Chan.nextSend
  split
  · rfl
  · split <;> rfl

/-- `cancel_recv_signal` touches the wait list only -/
theorem cancel_queue (c : Chan) (r : Role) (s : SigId) : (c.cancel r s).1.queue = c.queue := by
  unfold Chan.cancel; split <;> rfl

/-- `drain_into`'s section: takes the whole buffer, leaves it empty, reports buffer + blocked senders -/
theorem drainCS_some {c c1 : Chan} {q : List Msg} {l : List SigId} {n : Nat} (h : c.drainCS = some (c1, q, l, n)) :
    q = c.queue ∧ c1.queue = [] ∧ n = q.length + l.length := by
  unfold Chan.drainCS Chan.popAllSenders at h
  split at h
  · simp at h
  · simp at h
    split at h <;> simp at h <;> obtain ⟨rfl, rfl, rfl, rfl⟩ := h <;> simp [*]

/-! ### the four shapes of section that occur -/

/-- the buffer is published as found -/
theorem settle_same {c c1 : Chan} (hand : List Msg) (h : c1.queue = c.queue) : Settle c c1 [] hand hand :=
  ⟨[], c.queue, [], [], by simp, by simp [h], by simp, by simp⟩
/-- the head of the buffer is taken -/
theorem settle_pop {c c1 : Chan} {v : Msg} {q : List Msg} (hand : List Msg) (h : c.queue = v :: q) (h1 : c1.queue = q) :
    Settle c c1 [] hand (v :: hand) :=
  ⟨[v], q, [], [v], by simp [h], by simp [h1], by simp, by simp⟩
/-- the head is taken and the value read from a blocked sender is put at the end (the refill) -/
theorem settle_refill {c c1 : Chan} {v m : Msg} {q : List Msg} (h : c.queue = v :: q) (h1 : c1.queue = q ++ [m]) :
    Settle c c1 [] [m] [v] :=
  ⟨[v], q, [m], [v], by simp [h], by simp [h1], by simp, by simp⟩
/-- the whole buffer was used under the lock and is gone -/
theorem settle_drain {c c1 : Chan} {early : List Msg} (hand : List Msg) (h : c.queue = early) (h1 : c1.queue = []) :
    Settle c c1 early hand hand :=
  ⟨early, [], [], [], by simp [h], by simp [h1], by simp, by simp⟩

theorem dlv_unlock_of {c1 : Chan} {k : Act} {c : Chan} {hand : List Msg} {slot : Bool} {early : List Msg} {pushed : Nat}
    (hand' : List Msg) (hs : Settle c c1 early hand hand') (hk : Dlv k ⟨none, hand', slot, [], pushed⟩) :
    Dlv (.unlock c1 k) ⟨some c, hand, slot, early, pushed⟩ :=
  .unlock rfl hs hk

theorem dlv_unlock_same {c1 k c hand slot pushed} (h : c1.queue = c.queue) (hk : Dlv k ⟨none, hand, slot, [], pushed⟩) :
    Dlv (.unlock c1 k) ⟨some c, hand, slot, [], pushed⟩ :=
  dlv_unlock_of hand (settle_same hand h) hk

@[simp] theorem dlv_unlock_none {c1 k hand slot early pushed} :
    Dlv (.unlock c1 k) ⟨none, hand, slot, early, pushed⟩ ↔ False :=
  ⟨fun h => by cases h with | unlock a _ _ => simp at a, False.elim⟩

/-! ### the combinators of `Fine` -/

@[simp] theorem dlv_dropLocal (k : Act) {st} :
    Dlv (Fine.dropLocal k) st ↔ st.slot = true ∧ Dlv k { st with slot := false } := by
  unfold Fine.dropLocal; simp
@[simp] theorem dlv_register (k : Act) {st} : Dlv (Fine.register k) st ↔ Dlv k st := by
  unfold Fine.register; simp

/-- the value of a completed blocked receive: needs a delivered value, returns exactly it -/
@[simp] theorem dlv_readOwn {cur hand slot early pushed} : Dlv Fine.readOwn ⟨cur, hand, slot, early, pushed⟩ ↔
    cur = none ∧ slot = true ∧ hand = [] := by
  unfold Fine.readOwn
  simp
  constructor <;> (rintro ⟨a, b, c⟩; exact ⟨b, a, c⟩)

/-- first loop of `drain_into`, with nothing in hand: every buffered value pushed is written to `early` -/
theorem dlv_drainQueue {c : Chan} {slot : Bool} (k : Act) (q : List Msg) : ∀ (early : List Msg) (pushed : Nat),
    Dlv k ⟨some c, [], slot, early ++ q, pushed + q.length⟩ →
    Dlv (Fine.drainQueue q k) ⟨some c, [], slot, early, pushed⟩ := by
  unfold Fine.drainQueue
  induction q with
  | nil => intro early pushed h; simpa using h
  | cons a l ih =>
    intro early pushed h
    simp only [Act.forEach_cons]
    rw [dlv_vecPush_early (by simp)]
    refine ⟨rfl, ?_⟩
    apply ih
    have e : pushed + 1 + l.length = pushed + (a :: l).length := by simp; omega
    simpa [e] using h

/-- second loop: every value read from a blocked sender is pushed at once; the hand is empty again after each round -/
theorem dlv_drainSenders {c : Chan} {slot : Bool} {early : List Msg} (k : Act) (l : List SigId) : ∀ (pushed : Nat),
    Dlv k ⟨some c, [], slot, early, pushed + l.length⟩ →
    Dlv (Fine.drainSenders l k) ⟨some c, [], slot, early, pushed⟩ := by
  unfold Fine.drainSenders
  induction l with
  | nil => intro pushed h; simpa using h
  | cons a l ih =>
    intro pushed h
    simp only [Act.forEach_cons, dlv_askM, askMPre_sigRecv, true_and, askMPost_sigRecv]
    intro m
    rw [dlv_vecPush_hand (by simp)]
    simp only [List.erase_cons_head]
    apply ih
    have e : pushed + 1 + l.length = pushed + (a :: l).length := by simp; omega
    simpa [e] using h

/-- the common head of every receive: a value is returned only after it left the buffer or a sender's slot, and the value
    read from a blocked sender on the refill path goes into the buffer -/
theorem dlv_recvHead (c : Chan) (wrap closedFirst : Act → Act) (onNone : Chan → Act) {pushed : Nat}
    (hwrap : ∀ k st, Dlv k st → Dlv (wrap k) st) (hclosed : ∀ k st, Dlv k st → Dlv (closedFirst k) st)
    (hnone : ∀ c1 : Chan, c1.queue = c.queue → Dlv (onNone c1) ⟨some c, [], false, [], pushed⟩) :
    Dlv (Fine.recvHead c wrap closedFirst onNone) ⟨some c, [], false, [], pushed⟩ := by
  unfold Fine.recvHead
  split
  · apply hclosed
    exact dlv_unlock_same rfl (by simp)
  · split
    · rename_i v q hq
      have hn := nextSend_queue { c with queue := q }
      split
      · rename_i c1 p hs
        rw [hs] at hn
        simp only [dlv_askM, askMPre_sigRecv, true_and, askMPost_sigRecv]
        intro m
        refine dlv_unlock_of [v] (settle_refill hq (by simpa using hn)) ?_
        apply hwrap
        simp
      · rename_i c1 hs
        rw [hs] at hn
        refine dlv_unlock_of [v] (settle_pop [] hq (by simpa using hn)) ?_
        apply hwrap
        simp
    · rename_i hq
      have hn := nextSend_queue c
      split
      · rename_i c1 p hs
        rw [hs] at hn
        refine dlv_unlock_same hn ?_
        apply hwrap
        simp
      · rename_i c1 hs
        rw [hs] at hn
        exact hnone c1 hn

/-! ### the receive family -/

theorem dlv_tryRecv (rt : Bool) : Dlv (Fine.tryRecv rt) {} := by
  unfold Fine.tryRecv Fine.acquire
  have key : ∀ c : Chan, Dlv (Fine.recvHead c id id fun c1 =>
      if c1.sendCount == 0 then .unlock c1 (.ret (.err .sendClosed)) else .unlock c1 (.ret .none))
      ⟨some c, [], false, [], 0⟩ := by
    intro c
    apply dlv_recvHead c id id _ (fun _ _ h => h) (fun _ _ h => h)
    intro c1 h1
    split <;> exact dlv_unlock_same h1 (by simp)
  cases rt <;> simp <;> intro c <;> simpa using key c

/-- after `wait_timeout` gave up: the value is read only on the paths on which a peer delivered it -/
theorem dlv_timedRecvTail (x : Ctx) : Dlv (Fine.timedRecvTail x) {} := by
  unfold Fine.timedRecvTail
  simp
  intro c
  constructor <;> intro _ <;> exact dlv_unlock_same (cancel_queue _ _ _) (by simp)

theorem dlv_recv (timed : Bool) (x : Ctx) : Dlv (Fine.recv timed x) {} := by
  unfold Fine.recv
  have key : ∀ c : Chan, Dlv (Fine.recvHead c id id fun c1 =>
      (fun k => if timed then Act.askB .expired fun e => if e then .unlock c1 (.ret (.err .timeout)) else k else k) <|
      if c1.sendCount == 0 then .unlock c1 (.ret (.err .sendClosed))
      else .eff .newRetSlot <| .eff .newRecvSig <| .unlock (c1.pushWaiter x.me) <|
        if timed then Fine.timedRecvTail x
        else .askB .wait fun ok => if ok then Fine.readOwn else .ret (.err .closed))
      ⟨some c, [], false, [], 0⟩ := by
    intro c
    apply dlv_recvHead c id id _ (fun _ _ h => h) (fun _ _ h => h)
    intro c1 h1
    have h2 : (c1.pushWaiter x.me).queue = c.queue := h1
    have tail : Dlv (if c1.sendCount == 0 then .unlock c1 (.ret (.err .sendClosed))
        else .eff .newRetSlot <| .eff .newRecvSig <| .unlock (c1.pushWaiter x.me) <|
          if timed then Fine.timedRecvTail x
          else .askB .wait fun ok => if ok then Fine.readOwn else .ret (.err .closed)) ⟨some c, [], false, [], 0⟩ := by
      split
      · exact dlv_unlock_same h1 (by simp)
      · simp only [dlv_eff, effPre_newRetSlot, effPost_newRetSlot, effPre_newRecvSig, effPost_newRecvSig, true_and]
        refine dlv_unlock_same h2 ?_
        cases timed
        · simp
        · simpa using dlv_timedRecvTail x
    cases timed
    · simpa using tail
    · simp only [if_true, dlv_expired]
      intro e
      cases e
      · simpa using tail
      · simpa using dlv_unlock_same h1 (by simp)
  cases timed <;> simp <;> intro c <;> simpa using key c

/-- `drain_into`: every buffered value and every value read from a blocked sender is pushed exactly once, the buffer is
    left empty, and the count reported is the number of values pushed -/
theorem dlv_drain (x : Ctx) : Dlv (Fine.drain x) {} := by
  unfold Fine.drain
  simp
  intro c
  split
  · exact dlv_unlock_same rfl (by simp)
  · rename_i c1 q l n hd
    obtain ⟨rfl, h1, rfl⟩ := drainCS_some hd
    have key : Dlv (Fine.drainQueue c.queue (Fine.drainSenders l (.unlock c1 (.ret (.num (c.queue.length + l.length))))))
        ⟨some c, [], false, [], 0⟩ := by
      apply dlv_drainQueue
      apply dlv_drainSenders
      refine dlv_unlock_of [] (settle_drain [] (by simp) h1) ?_
      simp
    split
    · simpa using key
    · exact key

/-! ### the futures -/

theorem dlv_pollRecvRound (x : Ctx) (st : FutSt) (again : Act) (ha : Dlv again {}) :
    Dlv (Fine.pollRecvRound x st again) {} := by
  unfold Fine.pollRecvRound
  split
  · simp
    intro c
    apply dlv_recvHead c _ _ _ (fun _ _ h => by simpa using h) (fun _ _ h => by simpa using h)
    intro c1 h1
    have h2 : (c1.pushWaiter x.me).queue = c.queue := h1
    split
    · simpa using dlv_unlock_same h1 (by simp)
    · simpa using dlv_unlock_same h2 (by simp)
  · simp
    intro c
    constructor <;> intro _ <;> exact dlv_unlock_same rfl (by simp)
  · simp
    intro _
    exact ha

theorem dlv_pollRecv (x : Ctx) : Dlv (Fine.pollRecv x) {} := by
  unfold Fine.pollRecv
  exact dlv_pollRecvRound x _ _ (dlv_pollRecvRound x _ _ (by simp))

/-- `Act.bind` with a continuation that is as good as a return -/
theorem dlv_bind {f : Res → Act} (hf : ∀ r st, Dlv (.ret r) st → Dlv (f r) st) {a : Act} {st : RSt}
    (h : Dlv a st) : Dlv (a.bind f) st := by
  induction h with
  | ret a b c d => exact hf _ _ (.ret a b c d)
  | diverge => exact .diverge
  | lock a _ ih => exact .lock a ih
  | tryLock a _ _ ih1 ih2 => exact .tryLock a ih1 ih2
  | unlock a b _ ih => exact .unlock a b ih
  | eff a _ ih => exact .eff a ih
  | askB _ ih => exact .askB ih
  | askM a _ ih => exact .askM a ih
  | askP _ ih => exact .askP ih

theorem dlv_pollNext (x : Ctx) : Dlv (Fine.pollNext x) {} := by
  unfold Fine.pollNext
  split
  · simp
  · apply dlv_bind _ (dlv_pollRecv x)
    intro r st h
    cases r <;> simp_all

/-- `Drop for ReceiveFuture`: a value delivered after the cancel failed is destroyed, exactly once -/
theorem dlv_dropRecvFut (x : Ctx) : Dlv (Fine.dropRecvFut x) {} := by
  unfold Fine.dropRecvFut
  simp
  intro _ c
  apply dlv_unlock_same (cancel_queue _ _ _)
  simp

/-! ### the same, about the translated source -/

theorem gen_try_recv (x : Ctx) :
    Dlv (Gen.shared_recv_impl_try_recv x) {} ∧ Dlv (Gen.shared_recv_impl_try_recv_realtime x) {} := by
  rw [TieCode.try_recv, TieCode.try_recv_realtime]; exact ⟨dlv_tryRecv false, dlv_tryRecv true⟩

theorem gen_recv (x : Ctx) : Dlv (Gen.Receiver_recv x) {} ∧ Dlv (Gen.Receiver_recv_timeout x) {} := by
  rw [TieCode.recv, TieCode.recv_timeout]; exact ⟨dlv_recv false x, dlv_recv true x⟩

theorem gen_drain_into (x : Ctx) : Dlv (Gen.shared_recv_impl_drain_into x) {} := by
  rw [TieCode.drain_into]; exact dlv_drain x

theorem gen_recv_future (x : Ctx) :
    Dlv (Gen.Future_ReceiveFuture_poll x) {} ∧ Dlv (Gen.Stream_ReceiveStream_poll_next x) {} ∧
    Dlv (Gen.Drop_ReceiveFuture_drop x) {} := by
  rw [TieCode.poll_recv, TieCode.poll_next, TieCode.drop_recv_fut]
  exact ⟨dlv_pollRecv x, dlv_pollNext x, dlv_dropRecvFut x⟩

/-! ### conservation: what a section's accounting means in numbers -/

/-- for every value: occurrences in the buffer found + in hand = occurrences in the buffer published + already used under
    the lock + in hand afterwards.  Nothing is created, nothing disappears. -/
theorem Settle.count {c c1 : Chan} {early hand hand' : List Msg} (h : Settle c c1 early hand hand') (a : Msg) :
    c.queue.count a + hand.count a = c1.queue.count a + early.count a + hand'.count a := by
  obtain ⟨took, rest, put, left, h1, h2, h3, h4⟩ := h
  have e3 := h3.count_eq a
  have e4 := h4.count_eq a
  simp only [List.count_append] at e3 e4
  rw [h1, h2]
  simp only [List.count_append]
  omega

theorem Settle.length {c c1 : Chan} {early hand hand' : List Msg} (h : Settle c c1 early hand hand') :
    c.queue.length + hand.length = c1.queue.length + early.length + hand'.length := by
  obtain ⟨took, rest, put, left, h1, h2, h3, h4⟩ := h
  have e3 := h3.length_eq
  have e4 := h4.length_eq
  simp only [List.length_append] at e3 e4
  rw [h1, h2]
  simp only [List.length_append]
  omega

/-- the buffer keeps its order: what is published is a suffix of what was found, followed by new values -/
theorem Settle.suffix {c c1 : Chan} {early hand hand' : List Msg} (h : Settle c c1 early hand hand') :
    ∃ rest, rest <:+ c.queue ∧ rest <+: c1.queue := by
  obtain ⟨took, rest, put, left, h1, h2, _, _⟩ := h
  exact ⟨rest, ⟨took, h1.symm⟩, ⟨put, h2.symm⟩⟩

/-! ### the discipline is not vacuous -/

/-- `Fine.recvHead` with the state published on the refill path as a parameter -/
def recvHeadWith (refill : Chan → Msg → Chan) (c : Chan) (wrap : Act → Act) (closedFirst : Act → Act)
    (onNone : Chan → Act) : Act :=
  if c.recvCount == 0 then closedFirst (.unlock c (.ret (.err .closed)))
  else match c.queue with
    | v :: q =>
      match ({ c with queue := q }).nextSend with
      | (c1, some p) => .askM (.sigRecv p) fun m => .unlock (refill c1 m) (wrap (.ret (.val v)))
      | (c1, none) => .unlock c1 (wrap (.ret (.val v)))
    | [] =>
      match c.nextSend with
      | (c1, some p) => .unlock c1 (wrap (.askM (.sigRecv p) fun m => .ret (.val m)))
      | (c1, none) => onNone c1

/-- `Fine.tryRecv false` over that skeleton -/
def tryRecvWith (refill : Chan → Msg → Chan) : Act :=
  .lock fun c => recvHeadWith refill c id id fun c1 =>
    if c1.sendCount == 0 then .unlock c1 (.ret (.err .sendClosed)) else .unlock c1 (.ret .none)

/-- the skeletons are the real trees when given the real refill -/
theorem recvHeadWith_good : recvHeadWith (fun c1 m => { c1 with queue := c1.queue ++ [m] }) = Fine.recvHead := rfl
theorem tryRecvWith_good : tryRecvWith (fun c1 m => { c1 with queue := c1.queue ++ [m] }) = Fine.tryRecv false := rfl

/-- one buffered value (5), one blocked sender (9), capacity 1 -/
def c0 : Chan :=
  { queue := [5], recvBlocking := false, waitList := [9], capacity := some 1, recvCount := 1, sendCount := 1 }

/-- NEGATIVE 1 (value lost).  A section that found `v` at the head of the buffer reads a blocked sender's value `m`,
    publishes a buffer that does not contain `m`, and returns `v`: rejected, whatever else the published state is. -/
theorem not_dlv_lostRefill {c : Chan} {v : Msg} {q : List Msg} {p : SigId} {c1 : Msg → Chan} {slot : Bool} {pushed : Nat}
    (hq : c.queue = v :: q) (m : Msg) (hm : m ∉ (c1 m).queue) :
    ¬ Dlv (.askM (.sigRecv p) fun m => .unlock (c1 m) (.ret (.val v))) ⟨some c, [], slot, [], pushed⟩ := by
  intro h
  have h1 := (dlv_askM.mp h).2 m
  obtain ⟨c', hand', hc, hs, hr⟩ := dlv_unlock.mp h1
  cases hc
  have hh : hand' = [v] := by simpa using (dlv_ret.mp hr).2.2.1
  subst hh
  have := hs.count m
  simp only [askMPost_sigRecv, hq, List.count_cons, List.count_nil, List.count_eq_zero.mpr hm, beq_self_eq_true,
    if_true] at this
  split at this <;> omega

/-- the whole `try_recv` without the refill is rejected: on `c0` it reads sender 9's value and drops it on the floor -/
theorem not_dlv_tryRecv_noRefill : ¬ Dlv (tryRecvWith fun c1 _ => c1) {} := by
  intro h
  have h1 := (dlv_lock.mp h).2 c0
  exact not_dlv_lostRefill (c := c0) (v := 5) (q := []) (c1 := fun _ => { c0 with queue := [], waitList := [] })
    rfl 0 (by simp) h1

/-- `Fine.dropRecvFut` with what happens after `async_blocking_wait`, by its answer, as a parameter -/
def dropRecvFutWith (leaf : Bool → Act) (x : Ctx) : Act :=
  if x.st == .waiting then .lock fun c =>
    .unlock (c.cancel .recv x.me).1
      (if (c.cancel .recv x.me).2 then .ret .unit else .askB .asyncBlockingWait leaf)
  else .ret .unit

theorem dropRecvFutWith_good (x : Ctx) :
    dropRecvFutWith (fun ok => if ok then Fine.dropLocal (.ret .unit) else .ret .unit) x = Fine.dropRecvFut x := rfl

theorem not_dlv_dropRecvFutWith (leaf : Bool → Act) (x : Ctx) (hx : x.st = .waiting) (b : Bool)
    (h : ¬ Dlv (leaf b) ⟨none, [], b, [], 0⟩) : ¬ Dlv (dropRecvFutWith leaf x) {} := by
  intro hd
  apply h
  unfold dropRecvFutWith at hd
  simp only [hx, beq_self_eq_true, if_true] at hd
  have h1 := (dlv_lock.mp hd).2 (Chan.new none)
  obtain ⟨c', hand', hc, hs, hk⟩ := dlv_unlock.mp h1
  cases hc
  have hl := hs.length
  simp [cancel_queue] at hl
  subst hl
  have hc : ((Chan.new none).cancel .recv x.me).2 = false := by simp [Chan.cancel, Chan.new]
  rw [hc] at hk
  simp only [Bool.false_eq_true, if_false, dlv_asyncBlockingWait] at hk
  cases b
  · exact hk.2
  · exact hk.1

/-- NEGATIVE 2 (a seeded defect).  `Drop for ReceiveFuture` that returns after `async_blocking_wait() = true` without
    `drop_local_data()`: the value a sender delivered into the future is never destroyed. -/
theorem not_dlv_dropRecvFut_leak (x : Ctx) (hx : x.st = .waiting) : ¬ Dlv (dropRecvFutWith (fun _ => .ret .unit) x) {} :=
  not_dlv_dropRecvFutWith _ x hx true (by simp)

/-- … and the converse: destroying the slot's content although nothing was delivered (`drop_local_data()` whatever the
    answer was) is rejected too -/
theorem not_dlv_dropRecvFut_uninit (x : Ctx) (hx : x.st = .waiting) :
    ¬ Dlv (dropRecvFutWith (fun _ => Fine.dropLocal (.ret .unit)) x) {} :=
  not_dlv_dropRecvFutWith _ x hx false (by simp)

/-- NEGATIVE 3 (invented value): returning a value that was never in hand -/
theorem not_dlv_invented : ¬ Dlv (.lock fun c => .unlock c (.ret (.val 7))) {} := by
  intro h
  have h1 := (dlv_lock.mp h).2 (Chan.new none)
  obtain ⟨c', hand', hc, hs, hk⟩ := dlv_unlock.mp h1
  cases hc
  have hl := hs.length
  have hh : hand' = [7] := by simpa using (dlv_ret.mp hk).2.2.1
  subst hh
  simp at hl

/-- NEGATIVE 4 (duplication): returning the head of the buffer and leaving it there -/
theorem not_dlv_duplicated :
    ¬ Dlv (.lock fun c => match c.queue with
      | v :: _ => .unlock c (.ret (.val v))
      | [] => .unlock c (.ret .none)) {} := by
  intro h
  have h1 := (dlv_lock.mp h).2 c0
  obtain ⟨c', hand', hc, hs, hk⟩ := dlv_unlock.mp h1
  cases hc
  have hl := hs.length
  have hh : hand' = [5] := by simpa using (dlv_ret.mp hk).2.2.1
  subst hh
  simp at hl

/-- NEGATIVE 5 (`drain_into` misreporting): a count that is not the number of values pushed -/
theorem not_dlv_miscount : ¬ Dlv (.lock fun c => .unlock c (.ret (.num 1))) {} := by
  intro h
  have h1 := (dlv_lock.mp h).2 (Chan.new none)
  obtain ⟨c', hand', hc, hs, hk⟩ := dlv_unlock.mp h1
  have := (dlv_ret.mp hk).2.2.2 1 rfl
  simp at this

/-- NEGATIVE 6 (`drain_into` forgetting the buffer): the section empties the buffer without pushing what was in it -/
theorem not_dlv_drain_forgets : ¬ Dlv (.lock fun c => .unlock { c with queue := [] } (.ret (.num 0))) {} := by
  intro h
  have h1 := (dlv_lock.mp h).2 c0
  obtain ⟨c', hand', hc, hs, hk⟩ := dlv_unlock.mp h1
  cases hc
  have hl := hs.length
  have hh : hand' = [] := by simpa using (dlv_ret.mp hk).2.2.1
  subst hh
  simp [c0] at hl

/-- the refill path is taken: on `c0` (one buffered value, one blocked sender) `Fine.tryRecv false` reads sender 9's value
    `m`, publishes the buffer `[m]` and returns the old head 5; the accounting of that section is `settle_refill`; and the
    same section publishing the buffer without `m` is rejected -/
example :
    (∀ onNone, Fine.recvHead c0 id id onNone =
      .askM (.sigRecv 9) fun m => .unlock { c0 with queue := [m], waitList := [] } (.ret (.val 5))) ∧
    (∀ m, Settle c0 { c0 with queue := [m], waitList := [] } [] [m] [5]) ∧
    Dlv (.askM (.sigRecv 9) fun m => .unlock { c0 with queue := [m], waitList := [] } (.ret (.val 5)))
      ⟨some c0, [], false, [], 0⟩ ∧
    ¬ Dlv (.askM (.sigRecv 9) fun _ => .unlock { c0 with queue := [], waitList := [] } (.ret (.val 5)))
      ⟨some c0, [], false, [], 0⟩ := by
  refine ⟨fun _ => rfl, fun m => settle_refill (v := 5) (q := []) rfl rfl, ?_, ?_⟩
  · simp only [dlv_askM, askMPre_sigRecv, true_and, askMPost_sigRecv]
    intro m
    exact dlv_unlock_of [5] (settle_refill (v := 5) (q := []) rfl rfl) (by simp)
  · exact not_dlv_lostRefill (c := c0) (v := 5) (q := []) (c1 := fun _ => { c0 with queue := [], waitList := [] })
      rfl 0 (by simp)

end Deliver
end Kanal

#print axioms Kanal.Deliver.dlv_tryRecv
#print axioms Kanal.Deliver.dlv_timedRecvTail
#print axioms Kanal.Deliver.dlv_recv
#print axioms Kanal.Deliver.dlv_drain
#print axioms Kanal.Deliver.dlv_pollRecvRound
#print axioms Kanal.Deliver.dlv_pollRecv
#print axioms Kanal.Deliver.dlv_pollNext
#print axioms Kanal.Deliver.dlv_dropRecvFut
#print axioms Kanal.Deliver.dlv_recvHead
#print axioms Kanal.Deliver.dlv_drainQueue
#print axioms Kanal.Deliver.dlv_drainSenders
#print axioms Kanal.Deliver.dlv_bind
#print axioms Kanal.Deliver.dlv_perm
#print axioms Kanal.Deliver.gen_try_recv
#print axioms Kanal.Deliver.gen_recv
#print axioms Kanal.Deliver.gen_drain_into
#print axioms Kanal.Deliver.gen_recv_future
#print axioms Kanal.Deliver.Settle.count
#print axioms Kanal.Deliver.Settle.length
#print axioms Kanal.Deliver.Settle.suffix
#print axioms Kanal.Deliver.drainCS_some
#print axioms Kanal.Deliver.nextSend_queue
#print axioms Kanal.Deliver.cancel_queue
#print axioms Kanal.Deliver.dlv_ret_iff
#print axioms Kanal.Deliver.dlv_unlock
#print axioms Kanal.Deliver.dlv_vecPush_iff
#print axioms Kanal.Deliver.dlv_readOwn_iff
#print axioms Kanal.Deliver.dlv_fills_iff
#print axioms Kanal.Deliver.not_dlv_lostRefill
#print axioms Kanal.Deliver.not_dlv_tryRecv_noRefill
#print axioms Kanal.Deliver.not_dlv_dropRecvFutWith
#print axioms Kanal.Deliver.not_dlv_dropRecvFut_leak
#print axioms Kanal.Deliver.not_dlv_dropRecvFut_uninit
#print axioms Kanal.Deliver.not_dlv_invented
#print axioms Kanal.Deliver.not_dlv_duplicated
#print axioms Kanal.Deliver.not_dlv_miscount
#print axioms Kanal.Deliver.not_dlv_drain_forgets
