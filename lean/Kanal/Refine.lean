/-
  Kanal.Refine — every segment-atomic execution of the fine-grained code model (`Kanal.Fine`) is an execution of the
  channel model (`Kanal.Spec`), with the same results.

  `Kanal.Bridge` / `Kanal.Bridge2` compare ONE tree of `Kanal.Fine` with ONE label of `Spec.step` from ONE state.  This
  development is about whole executions: the code is run *segment by segment* — a segment is the piece of a call from
  its start, or from the point where a blocked call / a future is resumed, up to its return or its next suspension —
  and never leaves the model.

  Files
  * `Refine/Congr.lean` — `run`, `run2`, `resume`, `runDrop` depend on the state only through `core`
                          (`run_congr`, `run2_congr`, `resume_congr`, `runDrop_congr`; induction on the tree).
  * `Refine/Seg.lean`   — `Seg`, `Seg.labels`, `specSeg`, `codeStep`, `Enabled`, `codeStep_congr`.
  * `Refine/Step.lean`  — `seg_sim`: the one-step simulation.
  * `Refine/Exec.lean`  — `code_refines_spec`, `code_refines_spec_run`, and the corollaries `code_coreInv`,
                          `code_waitList_ok`.
  * `Refine/Conts.lean` — `startSend_cont`, `startRecv_cont`, `expire_cont`: the continuation a blocked call is resumed
                          with is the one the segment that suspended it handed back.
  * `Refine/Stale.lean`, `Refine/Reads.lean`, `Refine/Raw.lean` — the same theorems for the code AS IT IS (`codeStepRaw`:
                          the polls without `forget`): `seg_sim_raw`, `code_refines_spec_raw`, `code_waitList_ok_raw`.  The
                          code state then equals the model state up to the slots of finished futures (`UpToStale`), and no
                          segment ever reads such a slot (lockstep lemmas `run2_stale`, `run_stale`; `reads_*`, `noRead_*`
                          say which waiters each tree of `Kanal.Fine` asks for their value: only waiters it has just popped
                          from the wait list).  This discharges exclusion 3 below.
  * `Refine/Mach.lean`  — the closed machine: the code state carries the table of suspended calls, a call that suspends parks
                          the continuation `run2` / `resume` hands back, `resumeWaiter` / `expireWaiter` run what is parked
                          (the descriptor's `late` flag is ignored).  `mach_sim`, `mach_refines_spec`.  Uses `codeStepRaw_frame3`
                          (no run changes role / kind / `opt` of an existing waiter; tree induction).
  * `Refine/Last.lean`  — `enabled_live`: once no handle is left no segment is enabled (exclusion 1 only cuts off the end).
  * `Refine/Examples.lean` — non-vacuity: concrete executions (hand-off with its window, a timed send expiring late, futures
                          and a re-arming stream, the stale slot) with `EnabledAlong` proved and the code's results computed.

  ## Which `Spec` labels are images of which segments

      segment `d`                       code (`codeStep d`)                                  label(s) (`d.labels s`)
      --------------------------------  ---------------------------------------------------  --------------------------------
      callTrySend x opt rt              run  (Fine.trySend opt rt x)                         trySend x.m opt rt
      callTryRecv rt                    run  (Fine.tryRecv rt)                               tryRecv rt
      callDrain x                       run  (Fine.drain x)   [result .num n + vec ↦ .drained n vec]   drain
      callClose                         run  Fine.close                                      close
      callClone side                    run  (Fine.cloneHandle side)                         clone side
      callDropHandle side               run  (Fine.dropHandle side)                          dropHandle side
      callObserve o                     run  (Fine.observe o.fn)                             len | isEmpty | isFull | capacity |
                                                                                             isBounded | senderCount |
                                                                                             receiverCount | isClosed |
                                                                                             isDisconnected side | isTerminated
      callConvert side                  — (no code touches the shared state)                 convert side
      startSend e                       run2 (Fine.send (e.kind == .timed) e.opt e.x)        send e.x.m e.kind e.opt
      startRecv e                       run2 (Fine.recv (e.kind == .timed) e.x)              recv e.kind e.expired
      resumeWaiter e late               resume (contOf record late e.x) (st == ok)           complete e.x.me
      expireWaiter e                    resume (timedContOf record e.x) false                expire e.x.me    if the signal is pending
                                                                                             complete e.x.me  if it is terminated
                                                                                             (none)           if it is ok
      storeFinal i                      State.finalize i .ok (+ `claimed := false`)          finalize i
      newSendFut m                      State.newSig (the future's waiter record)            newSendFut m
      newRecvFut stream                 State.newSig                                         newRecvFut stream
      pollSend e                        run2 (Fine.pollSend e.x), then `forget`              pollSend e.x.me e.w
      pollRecv e                        run2 (Fine.pollRecv e.x), then `forget`              pollRecv e.x.me e.w   (plain future)
      pollNext e                        run2 (Fine.pollNext e.x), then `forget`              pollRecv e.x.me e.w   (stream)
      dropSendFut e                     runDrop (Fine.dropSendFut e.x)                       dropSendFut e.x.me
      dropRecvFut e                     runDrop (Fine.dropRecvFut e.x)                       dropRecvFut e.x.me

  Every constructor of `Spec.Label` occurs in the right column; `complete` is the image of `resumeWaiter` and of one case
  of `expireWaiter`, `pollRecv` of `pollRecv` and `pollNext`.

  Labels without a bridge theorem in `Bridge` / `Bridge2`, and how they are accounted for:
  * `finalize i` — NOT part of the peer's segment.  `Bridge.run` / `run2` interpret the effect `p.send(m)` and, outside
    the lock, the question `p.recv()` as `deliverTo` / `claimFrom` only: the slot is written / read and the waiter is marked
    `claimed`; the final store + wake-up of `Signal::send` / `Signal::recv` is the separate atomic step `.finalize` of the
    model, so that other segments can be scheduled inside the hand-off window (that is where `.spin` comes from).
    Its code side is the segment `storeFinal i` = `State.finalize i .ok` after clearing `claimed` — the same
    `State.finalize` `run` uses for `t.terminate()`; the small bridge is `sim_storeFinal`.  (Under the lock — refill,
    `drain_into` — `p.recv()` is `takeFrom`, which includes the final store; no separate step.)
  * `newSendFut m`, `newRecvFut stream` — creating a future takes no lock; the only effect on `core` is the allocation of
    the future's waiter record (`State.newSig`, as `run2` does for `newSendSig` / `newRecvSig`).  Bridges: `sim_newSendFut`,
    `sim_newRecvFut`.
  * `convert side` — identity on the state in `Spec.step`; the conversions reinterpret the handle.  Bridge: `sim_convert`.
  * `timed_final_*_bridge` has no label of its own: `wait_timeout` gives up on a signal that is already final.  Terminated:
    the call returns what `.complete` returns.  Ok: the cancel section finds the waiter unlisted, the call moves on to `wait`;
    the model does not move (`labels = []`), both sides report `.blocked me`.

  ## Continuations of blocked calls
  A blocked call is resumed with the continuation `contOf` / `timedContOf` computes from its *waiter record in the code
  state* (role, kind, `opt`) — these are the continuations `startSend` / `startRecv` / `expireWaiter` hand back
  (`startSend_cont`, `startRecv_cont`, `expire_cont`).  The one thing the record does not say is whether a timed waiter
  still sits at `wait_timeout` or already at the `wait` its failed cancel fell back to; the descriptor says it (`late`),
  the theorem holds for either answer.  `wait` answers `true` iff the record's signal state is `ok`.
  `Refine/Mach.lean` closes this gap: there the continuation is taken from a table the code state carries, filled by the
  segments that suspend; the invariant `ContsOK` (every parked continuation is `contOf record late` for some `late`, with
  `late → timed`) reduces each machine step to a `codeStepRaw` step.  The only code-side enabledness condition that is
  not a function of the model state: `expireWaiter` needs the call to be parked at its `wait_timeout` (`MEnabled`).

  ## Exclusions carried over from the bridge theorems (all explicit in `Enabled` / `codeStep`)
  1. `callDropHandle`: not the last handle of all (`1 < liveS + liveR`, hypothesis `hnl` of `dropHandle_bridge`): then
     `Spec.step` also frees the buffer, which is `Arc`'s doing, not `Fine.dropHandle`'s.  After that step nothing is
     enabled any more (`enabled_live`), so the exclusion concerns only the last step of an execution.
  2. `pollSend` / `pollRecv` / `pollNext`: no poll with a waker different from the registered one while a peer has claimed
     the future and not yet stored the final state (`g.claimed = true → g.waker = some e.w`).  That is exactly when
     `Spec.step` answers `.spin` (`pollSend_not_spin`, `pollRecv_not_spin`, using `Struct.unlisted`); the code busy-waits in
     `async_blocking_wait` after having set `state = Done`, the model leaves the state alone, so the bridges do not compare
     states there.  (Drops inside the window are NOT excluded: both sides answer `.spin` and leave the state alone.)
  3. The `forget`-ed slot of a finished future: `Spec.step` empties the slot when the future's value leaves it, the code only
     sets `state = Done` and reads / drops the value; the bytes stay.  The poll bridges compare states up to
     `forget · me`.  Here `codeStep` applies `forget` to the polled future after the poll (like `resume` retires the
     frame): in a reachable model state a finished future holds no value (`done_empty`, from `SendDone` and
     `SigOK.recvHolds`), so `forget` is the identity on the model's side (`forget_self`) and states are compared exactly.
     `code_refines_spec_raw` (`Refine/Raw.lean`) removes this exclusion: there `codeStepRaw` runs the polls without
     `forget`, the relation is `UpToStale`, and the proof shows that the stale bytes are never read.
  4. `pollRecv` is for plain futures (`isStream = false`), `pollNext` for streams, as in `pollRecv_bridge` /
     `pollNext_tree_bridge`; polling the future inside a stream directly is not a segment.
  5. As in `Bridge` / `Bridge2`: `data.is_none()` is answered `false` (safe callers pass `Some`); the ghost fields of
     `State` are not compared; `Variant.good` only.
  The `.spin` answer of `Out2` for drops, and `stuck` / `diverge` (which `ofOut2` maps to `none`) need no exclusion:
  `seg_sim` shows the code's result is `some r` for every enabled segment.

  ## Structural hypotheses of the bridges, discharged from `Reach` (none of them is in `Enabled`)
  * `drain_bridge.hn` (wait list duplicate-free) — `Struct.nodup`.
  * `complete_recv_bridge(2).hslot`, `pollRecv_bridge.hslot`, `pollNext_tree_bridge.hslot` — `SigOK.recvReady`.
  * `timed_final_*_bridge.hnl` — `Struct.listed` + `Listed.pending`.
  * `pollRecv_bridge.hnl`, `pollNext_tree_bridge.hnl` — `Struct.listed` + `Listed.fut`.
  * no-spin (exclusion 2) — `Struct.unlisted` + `Listed.role`.
  * `forget` is the identity on the model — `SendDone`, `SigOK.recvHolds`, `SigOK.syncFut`.
-/
import Kanal.Refine.Congr
import Kanal.Refine.Seg
import Kanal.Refine.Step
import Kanal.Refine.Exec
import Kanal.Refine.Conts
import Kanal.Refine.Stale
import Kanal.Refine.Reads
import Kanal.Refine.Raw
import Kanal.Refine.Mach
import Kanal.Refine.Last
import Kanal.Refine.Examples
import Kanal.Refine.Movers
