/-
  Kanal.SigM — side model for C06 / C07: the signal protocol of src/signal.rs between ONE waiter
  (the owner of the signal: a blocked `send`/`recv` frame, a timed call, or a future) and the ONE
  peer that removed the signal from the wait list under the channel lock (ownership by removal:
  `Struct.nodup` + the pop/cancel critical sections guarantee there is at most one).

  Values of the state word are sequentially consistent.  Visibility of non-atomic data (the
  payload slot, the thread-handle cell, the frame itself) is tracked by happens-before flags:
  a waiter's observation of a final value synchronises with the peer only if the peer's write of
  that value has release semantics and the waiter's observation has acquire semantics (an acquire
  load/CAS, or a relaxed load followed by an acquire fence); the peer's failed CAS synchronises
  with the waiter's starvation CAS only under the same condition.  An access that is not ordered
  after the conflicting access sets `racy`; a peer access to the signal after the owner's frame
  is gone sets `dangling`.  The orderings are parameters (`SigOrds`, from `Tie.sigOrds`).
-/
import Kanal.Basic

namespace Kanal.SigM

/-- The signal word: `UNLOCKED`(0) `TERMINATED`(1) `LOCKED`(2) `LOCKED_STARVATION`(3). -/
inductive St where
  | unlocked | terminated | locked | starvation
  deriving DecidableEq, Repr

def St.isFinal : St → Bool
  | .unlocked | .terminated => true
  | _ => false

/-- Orderings at each site (see `Tie.sigOrds`). -/
structure Ords where
  spinLoad : Ord
  spinFence : Ord
  starvCasSucc : Ord
  starvCasFail : Ord
  parkLoad : Ord
  timeoutFinal : Ord
  wakeCasSucc : Ord
  wakeCasFail : Ord
  wakeStoreSync : Ord
  wakeStoreAsync : Ord
  deriving DecidableEq, Repr

/-- How the owner waits. -/
inductive WKind where
  | sync      -- `wait()`: spin, then publish the thread handle, CAS to STARVATION, park loop
  | timed     -- `wait_timeout()` (spin with loads + fence, final acquire load), then `is_terminated`, then possibly `wait()`
  | async     -- a future: `poll()` loads (+fence); `async_blocking_wait` in Drop / changed-waker path
  deriving DecidableEq, Repr

/-- Waiter program counter. -/
inductive WPc where
  | spin                    -- about to do a relaxed load of the state (spin phases / poll / async_blocking_wait)
  | fence (v : St)          -- saw final `v` with a relaxed load: about to `fence`
  | timedFinal              -- `wait_timeout`: about to do the final acquire load
  | timedIsTerm             -- … it was not UNLOCKED: about to do `is_terminated()` (relaxed)
  | publish                 -- `wait()`: about to write the thread handle into its cell
  | casStarv                -- about to CAS LOCKED → LOCKED_STARVATION
  | park                    -- about to `park()`
  | parked                  -- inside `park()`
  | parkLoad                -- about to load after `park()` returned
  | done (v : St) (sync : Bool)  -- saw final `v`; `sync`: with acquire semantics from a releasing write
  | gone                    -- returned / dropped: the frame no longer exists
  deriving DecidableEq, Repr

/-- Peer program counter (`Signal::send` / `recv` / `terminate` → `wake`). -/
inductive PPc where
  | access                  -- about to touch the payload slot (`ptr.write` / `ptr.read`); skipped by `terminate`
  | cas                     -- sync waiter: about to CAS LOCKED → final
  | readHandle              -- CAS failed: about to clone the thread handle out of its cell
  | storeSync               -- about to store the final state (sync arm)
  | unpark                  -- about to `unpark()` its clone of the handle
  | cloneWaker              -- async waiter: about to clone the waker out of the signal
  | storeAsync              -- about to store the final state (async arm)
  | wake                    -- about to `wake()` its clone
  | done
  deriving DecidableEq, Repr

structure State where
  kind      : WKind
  fin       : St                 -- the final state the peer is going to write (`unlocked` or `terminated`)
  payload   : Bool               -- the peer touches the slot (send/recv) or not (terminate)
  st        : St := .locked
  wpc       : WPc := .spin
  ppc       : PPc
  alive     : Bool := true       -- the owner's frame / future exists
  token     : Bool := false      -- park token
  woken     : Nat := 0           -- `Waker::wake` calls on the registered waker
  -- happens-before bookkeeping
  slotTouched  : Bool := false   -- the peer has accessed the slot
  finRelease   : Bool := false   -- the write that made the state final had release semantics
  cellWritten  : Bool := false   -- the waiter has written its thread handle
  starvRelease : Bool := false   -- the starvation CAS had release semantics
  peerSyncCell : Bool := false   -- the peer's failed CAS acquired the waiter's starvation CAS
  racy      : Bool := false
  dangling  : Bool := false
  deriving Repr

def init (kind : WKind) (fin : St) (payload : Bool) : State :=
  { kind := kind, fin := fin, payload := payload,
    ppc := if payload then .access else (if kind = .async then .cloneWaker else .cas) }

inductive Ev where
  -- waiter
  | wLoad | wFence | wGiveUpSpin | wTimedFinal | wTimedIsTerm | wPublish | wCasStarv
  | wPark | wUnparked (spurious : Bool) | wParkLoad | wFinish
  -- peer
  | pAccess | pCas | pReadHandle | pStoreSync | pUnpark | pCloneWaker | pStoreAsync | pWake
  deriving DecidableEq, Repr

/-- A peer access to memory of the signal: flag `dangling` if the owner is gone. -/
def touch (s : State) : State := if s.alive then s else { s with dangling := true }

/-- One step; `none`: not enabled. -/
def step (o : Ords) (s : State) : Ev → Option State
  -- ---------------- waiter ----------------
  | .wLoad =>       -- relaxed load in a spin phase / `poll` / `async_blocking_wait`
    if s.wpc = .spin then
      some (if s.st.isFinal then { s with wpc := .fence s.st } else s)
    else none
  | .wFence =>
    match s.wpc with
    | .fence v => some { s with wpc := .done v (o.spinFence.isAcquire && s.finRelease) }
    | _ => none
  | .wGiveUpSpin => -- the spin budget is exhausted (sync: go on to park; timed: deadline passed)
    if s.wpc = .spin then
      match s.kind with
      | .sync => some { s with wpc := .publish }
      | .timed => some { s with wpc := .timedFinal }
      | .async => none          -- a future never gives up: it returns Pending and is polled again (= stays in `spin`)
    else none
  | .wTimedFinal => -- `self.state.load(Acquire) == UNLOCKED`
    if s.wpc = .timedFinal then
      some (if s.st = .unlocked then { s with wpc := .done .unlocked (o.timeoutFinal.isAcquire && s.finRelease) }
            else { s with wpc := .timedIsTerm })
    else none
  | .wTimedIsTerm => -- `is_terminated()`: relaxed; if not terminated the caller tries to cancel under the
                     -- channel lock, fails (a peer owns the signal) and falls back to `wait()`
    if s.wpc = .timedIsTerm then
      some (if s.st = .terminated then { s with wpc := .done .terminated false } else { s with wpc := .spin, kind := .sync })
    else none
  | .wPublish =>
    if s.wpc = .publish then some { s with cellWritten := true, wpc := .casStarv } else none
  | .wCasStarv =>
    if s.wpc = .casStarv then
      some (if s.st = .locked then { s with st := .starvation, starvRelease := o.starvCasSucc.isRelease, wpc := .park }
            else { s with wpc := .done s.st (o.starvCasFail.isAcquire && s.finRelease) })
    else none
  | .wPark =>
    if s.wpc = .park then
      some (if s.token then { s with token := false, wpc := .parkLoad } else { s with wpc := .parked })
    else none
  | .wUnparked spurious =>
    if s.wpc = .parked then
      if spurious then some { s with wpc := .parkLoad }
      else if s.token then some { s with token := false, wpc := .parkLoad } else none
    else none
  | .wParkLoad =>
    if s.wpc = .parkLoad then
      some (if s.st.isFinal then { s with wpc := .done s.st (o.parkLoad.isAcquire && s.finRelease) } else { s with wpc := .park })
    else none
  | .wFinish =>     -- use the result: a receiver reads its slot, a failed sender drops its value; then the frame goes
    match s.wpc with
    | .done _ sync => some { s with wpc := .gone, alive := false, racy := s.racy || (s.slotTouched && !sync) }
    | _ => none
  -- ---------------- peer ----------------
  | .pAccess =>
    if s.ppc = .access then
      some { touch s with slotTouched := true, ppc := if s.kind = .async then .cloneWaker else .cas }
    else none
  | .pCas =>
    if s.ppc = .cas then
      some (if s.st = .locked then { touch s with st := s.fin, finRelease := o.wakeCasSucc.isRelease, ppc := .done }
            else { touch s with peerSyncCell := o.wakeCasFail.isAcquire && s.starvRelease, ppc := .readHandle })
    else none
  | .pReadHandle =>
    if s.ppc = .readHandle then
      some { touch s with racy := s.racy || !(s.cellWritten && s.peerSyncCell), ppc := .storeSync }
    else none
  | .pStoreSync =>
    if s.ppc = .storeSync then
      some { touch s with st := s.fin, finRelease := o.wakeStoreSync.isRelease, ppc := .unpark }
    else none
  | .pUnpark =>     -- uses the peer's own clone of the handle: no access to the signal
    if s.ppc = .unpark then some { s with token := true, ppc := .done } else none
  | .pCloneWaker =>
    if s.ppc = .cloneWaker then some { touch s with ppc := .storeAsync } else none
  | .pStoreAsync =>
    if s.ppc = .storeAsync then
      some { touch s with st := s.fin, finRelease := o.wakeStoreAsync.isRelease, ppc := .wake }
    else none
  | .pWake =>       -- uses the peer's own clone of the waker
    if s.ppc = .wake then some { s with woken := s.woken + 1, ppc := .done } else none

inductive Reach (o : Ords) (kind : WKind) (fin : St) (payload : Bool) : State → Prop where
  | init : Reach o kind fin payload (init kind fin payload)
  | step {s e s'} : Reach o kind fin payload s → SigM.step o s e = some s' → Reach o kind fin payload s'

/-- Run a list of events. -/
def run (o : Ords) : State → List Ev → Option State
  | s, [] => some s
  | s, e :: es => match step o s e with
    | some s' => run o s' es
    | none => none

theorem Reach.run {o kind fin payload s} (h : Reach o kind fin payload s) :
    ∀ es s', SigM.run o s es = some s' → Reach o kind fin payload s' := by
  intro es
  induction es generalizing s with
  | nil => intro s' e; simp [SigM.run] at e; subst e; exact h
  | cons e es ih =>
    intro s' he
    simp only [SigM.run] at he
    split at he
    · rename_i s1 hs; exact ih (Reach.step h hs) _ he
    · cases he

end Kanal.SigM
