/-
  Kanal.Chan — L0: the logical state of one channel (`ChannelInternal<T>`,
  src/internal.rs) and one pure function per critical section of src/lib.rs and
  src/future.rs.  Every function mirrors the Rust text line by line: the same
  order of tests, the same lazy flip of `recv_blocking`.
-/
import Kanal.Basic

namespace Kanal

/-- `ChannelInternal<T>`; `capacity = none` is `usize::MAX` (unbounded). -/
structure Chan where
  queue        : List Msg      -- oldest first
  recvBlocking : Bool
  waitList     : List SigId    -- oldest first
  capacity     : Option Nat
  recvCount    : Nat
  sendCount    : Nat
  deriving DecidableEq, Repr, Inhabited

namespace Chan

/-- `ChannelInternal::new` (both counts start at 1). -/
def new (cap : Option Nat) : Chan :=
  { queue := [], recvBlocking := false, waitList := [], capacity := cap,
    recvCount := 1, sendCount := 1 }

/-- `internal.queue.len() < internal.capacity` (the admission test). -/
def hasRoom (c : Chan) : Bool :=
  match c.capacity with
  | none   => true
  | some n => c.queue.length < n

/-- `internal.capacity == internal.queue.len()` (`is_full`). -/
def isFull (c : Chan) : Bool :=
  match c.capacity with
  | none   => false
  | some n => n == c.queue.length

/-- `recv_count == 0 && send_count == 0`. -/
def closed (c : Chan) : Bool := c.recvCount == 0 && c.sendCount == 0

/-- `next_send` (internal.rs:90). -/
def nextSend (c : Chan) : Chan × Option SigId :=
  if c.recvBlocking then (c, none)
  else match c.waitList with
    | s :: rest => ({ c with waitList := rest }, some s)
    | []        => ({ c with recvBlocking := true }, none)

/-- `next_recv` (internal.rs:111). -/
def nextRecv (c : Chan) : Chan × Option SigId :=
  if !c.recvBlocking then (c, none)
  else match c.waitList with
    | s :: rest => ({ c with waitList := rest }, some s)
    | []        => ({ c with recvBlocking := false }, none)

/-- `push_send` / `push_recv`. -/
def pushWaiter (c : Chan) (s : SigId) : Chan := { c with waitList := c.waitList ++ [s] }

/-- `cancel_send_signal` / `cancel_recv_signal` (internal.rs:132,146). -/
def cancel (c : Chan) (r : Role) (s : SigId) : Chan × Bool :=
  if (c.recvBlocking == (r == .recv)) && c.waitList.contains s then
    ({ c with waitList := c.waitList.erase s }, true)
  else (c, false)

/-- `send_signal_exists` / `recv_signal_exists` (internal.rs:160,173). -/
def sigExists (c : Chan) (r : Role) (s : SigId) : Bool :=
  (c.recvBlocking == (r == .recv)) && c.waitList.contains s

/-- `terminate_signals`: the signals to terminate (in list order) and the cleared list. -/
def terminateAll (c : Chan) : Chan × List SigId :=
  ({ c with waitList := [] }, c.waitList)

/-! ### Critical sections of the send family -/

inductive SendBranch where
  | errClosed                 -- both counts zero
  | errRecvClosed             -- no receiver handle
  | handoff (s : SigId)       -- a waiting receiver was popped; the caller now owns `s`
  | buffered                  -- pushed to the queue
  | full                      -- no receiver, no room (caller registers or is refused)
  deriving DecidableEq, Repr, Inhabited

/-- The common prefix of `send`, `send_timeout`, `send_option_timeout`,
    `try_send*` and `SendFuture::poll` (state Zero). -/
def sendPre (c : Chan) (m : Msg) : Chan × SendBranch :=
  if c.recvCount == 0 then
    (c, if c.sendCount == 0 then .errClosed else .errRecvClosed)
  else
    match c.nextRecv with
    | (c1, some first) => (c1, .handoff first)
    | (c1, none) =>
      if c1.hasRoom then ({ c1 with queue := c1.queue ++ [m] }, .buffered)
      else (c1, .full)

/-- First critical section of a *blocking* send: on `full` the caller's signal
    `me` is appended to the wait list (`push_send`). -/
def sendCS (c : Chan) (m : Msg) (me : SigId) : Chan × SendBranch :=
  match c.sendPre m with
  | (c1, .full) => (c1.pushWaiter me, .full)
  | r => r

/-! ### Critical sections of the receive family -/

inductive RecvBranch where
  | errClosed                                 -- `recv_count == 0`
  | fromQueue (m : Msg) (refill : Option SigId) -- head of the queue; a blocked sender was moved into the queue
  | fromSender (s : SigId)                    -- empty queue, a blocked sender popped; the caller now owns `s`
  | errSendClosed                             -- nothing available and no sender handle
  | timeout                                   -- `recv_timeout` only: deadline already passed
  | empty                                     -- nothing available (caller registers or returns `None`)
  deriving DecidableEq, Repr, Inhabited

/-- The common prefix of `recv`, `recv_timeout`, `try_recv*`, `ReceiveFuture::poll`.
    `slot s` is the message in blocked sender `s`'s slot (moved into the queue by
    the refill, under the lock).  `expired` is `Instant::now() > deadline`, only
    consulted by `recv_timeout` (`timed = true`), *before* the `send_count` test. -/
def recvPre (c : Chan) (slot : SigId → Msg) (timed expired : Bool) : Chan × RecvBranch :=
  if c.recvCount == 0 then (c, .errClosed)
  else
    match c.queue with
    | v :: q =>
      match ({ c with queue := q }).nextSend with
      | (c1, some p) => ({ c1 with queue := c1.queue ++ [slot p] }, .fromQueue v (some p))
      | (c1, none)   => (c1, .fromQueue v none)
    | [] =>
      match c.nextSend with
      | (c1, some p) => (c1, .fromSender p)
      | (c1, none) =>
        if timed && expired then (c1, .timeout)
        else if c1.sendCount == 0 then (c1, .errSendClosed)
        else (c1, .empty)

/-- First critical section of a *blocking* receive: on `empty` register `me`. -/
def recvCS (c : Chan) (slot : SigId → Msg) (timed expired : Bool) (me : SigId) : Chan × RecvBranch :=
  match c.recvPre slot timed expired with
  | (c1, .empty) => (c1.pushWaiter me, .empty)
  | r => r

/-- Pops every blocked sender (`while let Some(p) = internal.next_send()`). -/
def popAllSenders (c : Chan) : Chan × List SigId :=
  if c.recvBlocking then (c, [])
  else ({ c with waitList := [], recvBlocking := true }, c.waitList)

/-- `drain_into` (lib.rs:641): `none` on a closed channel; otherwise the new state,
    the buffered messages, the blocked senders taken (oldest first) and the count
    the function *reports* (`required_cap`, computed before the loops). -/
def drainCS (c : Chan) : Option (Chan × List Msg × List SigId × Nat) :=
  if c.recvCount == 0 then none
  else
    let required := c.queue.length + (if c.recvBlocking then 0 else c.waitList.length)
    let (c1, senders) := ({ c with queue := [] }).popAllSenders
    some (c1, c.queue, senders, required)

/-- `close` (lib.rs:248): `none` if already closed; else new state, terminated
    waiters, destroyed buffered messages. -/
def closeCS (c : Chan) : Option (Chan × List SigId × List Msg) :=
  if c.recvCount == 0 && c.sendCount == 0 then none
  else some ({ c with recvCount := 0, sendCount := 0, waitList := [], queue := [] },
             c.waitList, c.queue)

/-- `Clone` / `clone_sync` / `clone_async` of a handle of side `r`. -/
def cloneCS (c : Chan) (r : Side) : Chan :=
  match r with
  | .send => if c.sendCount > 0 then { c with sendCount := c.sendCount + 1 } else c
  | .recv => if c.recvCount > 0 then { c with recvCount := c.recvCount + 1 } else c

/-- `Drop` of a handle of side `r`: new state and the waiters terminated. -/
def dropCS (c : Chan) (r : Side) : Chan × List SigId :=
  match r with
  | .send =>
    if c.sendCount > 0 then
      let c1 := { c with sendCount := c.sendCount - 1 }
      if c1.sendCount == 0 && c1.recvCount != 0 then c1.terminateAll else (c1, [])
    else (c, [])
  | .recv =>
    if c.recvCount > 0 then
      let c1 := { c with recvCount := c.recvCount - 1 }
      if c1.recvCount == 0 && c1.sendCount != 0 then c1.terminateAll else (c1, [])
    else (c, [])

/-! ### Observers (one guard each) -/

def len (c : Chan) : Nat := c.queue.length
def isEmpty (c : Chan) : Bool := c.queue.isEmpty
def isBounded (c : Chan) : Bool := c.capacity.isSome
def isDisconnectedS (c : Chan) : Bool := c.recvCount == 0   -- sender's view
def isDisconnectedR (c : Chan) : Bool := c.sendCount == 0   -- receiver's view
def isTerminated (c : Chan) : Bool := c.sendCount == 0 && c.queue.length == 0

/-! Equation lemmas are realised here, once, so that importing modules never generate clashing copies. -/
section realise
variable (c : Chan) (m : Msg) (s : SigId) (r : Role) (f : SigId → Msg) (b : Bool)
example : c.nextSend = c.nextSend := by unfold nextSend; rfl
example : c.nextRecv = c.nextRecv := by unfold nextRecv; rfl
example : c.sendPre m = c.sendPre m := by unfold sendPre; rfl
example : c.sendCS m s = c.sendCS m s := by unfold sendCS; rfl
example : c.recvPre f b b = c.recvPre f b b := by unfold recvPre; rfl
example : c.recvCS f b b s = c.recvCS f b b s := by unfold recvCS; rfl
example : c.cancel r s = c.cancel r s := by unfold cancel; rfl
example : c.popAllSenders = c.popAllSenders := by unfold popAllSenders; rfl
example : c.drainCS = c.drainCS := by unfold drainCS; rfl
example : c.closeCS = c.closeCS := by unfold closeCS; rfl
example : c.cloneCS r = c.cloneCS r := by unfold cloneCS; rfl
example : c.dropCS r = c.dropCS r := by unfold dropCS; rfl
example : c.hasRoom = c.hasRoom := by unfold hasRoom; rfl
example : c.isFull = c.isFull := by unfold isFull; rfl
example : c.sendPre m = c.sendPre m := by simp only [sendPre]
example : c.recvPre f b b = c.recvPre f b b := by simp only [recvPre]
end realise

end Chan
end Kanal
