/-
  C09 — sync and async handles are interchangeable views of one channel.

  In the model a handle's flavour does not exist: the four handle types are `repr(C)` wrappers of
  the same `Arc<Mutex<ChannelInternal<T>>>` (`c09_this_tree`, extracted), every method of either
  flavour is a label acting on the one shared state, and a waiter's *kind* (`sync` / `timed` /
  `async`) is a field of the waiter, chosen by the call that registered it.  Every theorem of
  C01–C08, C10–C16, C19 is over `Reach`, which puts no restriction on how labels of the two
  flavours alternate — so each holds for every assignment of flavours to endpoints
  (`c09_any_flavours`).  What is specific to mixing is proved here: the wake path is chosen by
  the kind of the *waiter*, never by the flavour of the peer; conversions and borrowed views
  change nothing; cross-flavour clones are ordinary clones.
-/
import Kanal.Lemmas.All
import Kanal.Props.C12
import Kanal.Props.C07
import Kanal.Tie

namespace Kanal.C09
open Kanal Chan State

/-- **C09 (every guarantee holds for every mix of flavours).** `Reach` quantifies over all sequences of
    labels, sync and async, blocking, timed and polled, in any alternation: the invariants behind
    delivery (C01), ordering (C02), destruction (C05), counts (C12) hold in all of them. -/
theorem c09_any_flavours (s : State) (h : Reach Variant.good s) :
    Struct s ∧ Ledger s ∧ Fifo s ∧ CountInv s :=
  ⟨reach_struct s h, (reach_ledger s h).2, reach_fifo s h, countInv_reach _ s h⟩

/-- **C09 (the wake path is the waiter's).** Whoever completes or terminates a waiter — a sync call, a
    timed call, a poll, `close`, a handle drop — a future is woken through its registered task
    waker and a blocked thread is not (it is unparked: `SigM`, peer arm chosen by the waiter's kind). -/
theorem c09_wake_dispatch (s : State) (i : Nat) (o : SigSt) (g : Sig) (hg : s.sigs[i]? = some g) :
    (g.kind = .async → ∀ w, g.waker = some w → (s.finalize i o).wakes = s.wakes ++ [w]) ∧
    (g.kind ≠ .async → (s.finalize i o).wakes = s.wakes) := by
  unfold finalize
  simp only [hg]
  constructor
  · intro hk w hw; simp [hk, hw]
  · intro hk
    cases hkk : g.kind <;> simp_all

/-- In the signal protocol the peer's arm (`CAS / read handle / store / unpark` versus
    `clone waker / store / wake`) is selected by the waiter's kind alone. -/
theorem c09_peer_arm (kind : SigM.WKind) (fin : SigM.St) :
    ((SigM.init kind fin false).ppc = .cloneWaker ↔ kind = .async) ∧
    ((SigM.init kind fin false).ppc = .cas ↔ kind ≠ .async) := by
  cases kind <;> simp [SigM.init]

/-- **C09 (a hand-off does not look at the waiter's kind).** A send that finds a waiting receiver
    puts its value into that receiver's slot and claims it in the same way whether the receiver is
    a parked thread, a timed call or a pending future. -/
theorem c09_handoff_uniform (s : State) (i : Nat) (m : Msg) (g : Sig) (hg : s.sigs[i]? = some g) :
    (s.deliverTo i m).sigs[i]? = some { g with slot := some m, claimed := true } ∧
    (s.deliverTo i m).cust m = .slot i ∧ (s.deliverTo i m).chan = s.chan := by
  refine ⟨by simp [deliverTo_get, hg], ?_, by simp⟩
  simp [deliverTo, hg, setCust, upd]

/-- **C09 (conversions and borrowed views neither create nor destroy a handle).** `to_sync`, `to_async`,
    `as_sync`, `as_async` leave the whole state — counts included — untouched; `clone_sync` /
    `clone_async` are the ordinary clone of that side. -/
theorem c09_convert (v : Variant) (s : State) (side : Side) (p : State × Res)
    (e : step v s (.convert side) = some p) : p.1 = s := C12.c12_convert v s side p e

/-- The handles are one-field `repr(C)` wrappers of the same shared state (so `transmute` between the
    flavours is the identity on it), there are exactly 8 such conversions, and all 12 guarded count
    updates — the cross-flavour clones among them — have the same shape. -/
theorem c09_this_tree : Generated.handles_reprC_single_internal = true ∧ Generated.internal_alias_is_arc_mutex = true ∧
    Generated.transmute_sites = 8 ∧ Generated.count_guards.length = 12 ∧
    Generated.wake_sync_sequence = [.cas, .readHandle, .store, .unpark] ∧
    Generated.wake_async_sequence = [.cloneWaker, .store, .wake] := by
  have := Tie.counts_ok; have := Tie.signal_structure
  refine ⟨by decide, by decide, by decide, this.1 |> fun _ => by decide, by decide, by decide⟩

/-- Non-vacuity: a parked sync sender released by an async receiver's poll, then a pending future woken
    by a sync `try_send`. -/
example : ∃ s rs, run Variant.good (State.init (some 0))
    [.send 1 .sync false, .newRecvFut false, .pollRecv 1 0, .finalize 0, .complete 0,
     .newRecvFut false, .pollRecv 2 5, .trySend 2 false false, .finalize 2, .pollRecv 2 5] = some (s, rs) ∧
    rs = [.blocked 0, .num 1, .val 1, .unit, .unit, .num 2, .pending, .bool true, .unit, .val 2] ∧ s.wakes = [5] := by
  refine ⟨_, _, rfl, ?_, ?_⟩ <;> decide

end Kanal.C09

#print axioms Kanal.C09.c09_any_flavours
#print axioms Kanal.C09.c09_wake_dispatch
#print axioms Kanal.C09.c09_peer_arm
#print axioms Kanal.C09.c09_handoff_uniform
#print axioms Kanal.C09.c09_convert
#print axioms Kanal.C09.c09_this_tree
